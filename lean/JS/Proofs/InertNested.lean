/- Helper lemmas for C10 `nested_unknown_inert`: insertion of inert keys at nested subschema
   positions (`Spec.Ins`) leaves the evaluation unchanged up to `Spec.eraseDeep`. -/
import JS.Proofs.Inert
import JS.Spec.Insertion
namespace JS
open Spec
namespace Nested

/-! ### `eraseDeep` -/

theorem eraseDeepList_eq_map : ∀ es : List Err, eraseDeepList es = es.map eraseDeep
  | [] => by simp [eraseDeepList]
  | e :: es => by simp [eraseDeepList, eraseDeepList_eq_map es]

theorem eraseDeep_consPath (p : PathElem) (e : Err) :
    eraseDeep (e.consPath p) = (eraseDeep e).consPath p := by
  cases e; simp [eraseDeep, Err.consPath]

theorem eraseDeep_consSchemaPath (p : PathElem) (e : Err) :
    eraseDeep (e.consSchemaPath p) = (eraseDeep e).consSchemaPath p := by
  cases e; simp [eraseDeep, Err.consSchemaPath]

theorem eraseDeep_fresh (t t' : String) (a a' : List Json) (ctx ctx' : List Err) (c : Option String)
    (h : ctx.map eraseDeep = ctx'.map eraseDeep) :
    eraseDeep (Err.fresh t a ctx c) = eraseDeep (Err.fresh t' a' ctx' c) := by
  simp [Err.fresh, eraseDeep, eraseDeepList_eq_map, h]

/-- `stamp` up to `eraseDeep`: the recorded keyword value and enclosing schema are forgotten -/
theorem eraseDeep_stamp (k : Str) (v v' inst s s' : Json) (e e' : Err) (h : eraseDeep e = eraseDeep e') :
    eraseDeep (stamp k v inst s e) = eraseDeep (stamp k v' inst s' e') := by
  obtain ⟨m, i, p, sp, c, ca⟩ := e
  obtain ⟨m', i', p', sp', c', ca'⟩ := e'
  simp only [eraseDeep, Err.mk.injEq, true_and] at h
  obtain ⟨hi, rfl, rfl, hc, rfl⟩ := h
  have hinfo : (i.orElse fun _ => some (⟨some k, v, inst, s⟩ : Meta)).map
        (fun i => { i with kwVal := Json.null, schema := Json.null })
      = (i'.orElse fun _ => some (⟨some k, v', inst, s'⟩ : Meta)).map
        (fun i => { i with kwVal := Json.null, schema := Json.null }) := by
    cases i <;> cases i' <;> simp_all
  unfold stamp
  by_cases hk : k = skey "if" ∨ k = skey "$ref"
  · simp only [if_pos hk, Err.setInfo, eraseDeep, hinfo, hc]
  · simp only [if_neg hk, Err.setInfo, Err.consSchemaPath, eraseDeep, hinfo, hc]

/-! ### the simulation up to `eraseDeep` -/

/-- two results agree on everything but what nested insertions necessarily change in errors -/
def OutSimD (o o' : Out) : Prop :=
  o.errs.map eraseDeep = o'.errs.map eraseDeep ∧ o.stop = o'.stop ∧ o.st = o'.st

/-- two generators agree, for every budget and state, up to `eraseDeep` -/
def SimD (g g' : Gen) : Prop := ∀ b st, OutSimD (g b st) (g' b st)

theorem SimD.refl (g : Gen) : SimD g g := fun _ _ => ⟨rfl, rfl, rfl⟩

theorem SimD.of_eq {g g' : Gen} (h : g = g') : SimD g g' := h ▸ SimD.refl g

theorem map_eraseDeep_length {es es' : List Err} (h : es.map eraseDeep = es'.map eraseDeep) :
    es.length = es'.length := by
  have := congrArg List.length h
  simpa using this

theorem map_eraseDeep_isEmpty {es es' : List Err} (h : es.map eraseDeep = es'.map eraseDeep) :
    es.isEmpty = es'.isEmpty := by
  cases es <;> cases es' <;> simp_all

theorem map_eraseDeep_map {f f' : Err → Err}
    (hf : ∀ e e', eraseDeep e = eraseDeep e' → eraseDeep (f e) = eraseDeep (f' e')) :
    ∀ {es es' : List Err}, es.map eraseDeep = es'.map eraseDeep →
      (es.map f).map eraseDeep = (es'.map f').map eraseDeep
  | [], [], _ => rfl
  | [], _ :: _, h => by simp at h
  | _ :: _, [], h => by simp at h
  | e :: es, e' :: es', h => by
    simp only [List.map_cons, List.cons.injEq] at h ⊢
    exact ⟨hf e e' h.1, map_eraseDeep_map hf h.2⟩

theorem SimD.andThen {g g' h h' : Gen} (hg : SimD g g') (hh : SimD h h') :
    SimD (andThen g h) (andThen g' h') := by
  intro b st
  have h1 := hg b st
  unfold JS.andThen
  rcases hgo : g b st with ⟨es, s, st1⟩
  rcases hgo' : g' b st with ⟨es', s', st1'⟩
  rw [hgo, hgo'] at h1
  obtain ⟨he, hs, hst⟩ := h1
  simp only at he hs hst
  subst hs hst
  have hlen := map_eraseDeep_length he
  cases s with
  | done =>
    have h2 := hh (budgetSub b es.length) st1
    dsimp only
    rw [← hlen]
    obtain ⟨he2, hs2, hst2⟩ := h2
    refine ⟨?_, hs2, hst2⟩
    show (es ++ _).map eraseDeep = (es' ++ _).map eraseDeep
    rw [List.map_append, List.map_append, he, he2]
  | budget => exact ⟨he, rfl, rfl⟩
  | raised e => exact ⟨he, rfl, rfl⟩
  | fuel => exact ⟨he, rfl, rfl⟩
  | miss q => exact ⟨he, rfl, rfl⟩

/-- two lists related elementwise -/
inductive All₂ {α β : Type} (P : α → β → Prop) : List α → List β → Prop
  | nil : All₂ P [] []
  | cons {x : α} {y : β} {xs : List α} {ys : List β} : P x y → All₂ P xs ys → All₂ P (x :: xs) (y :: ys)

theorem All₂.length {α β : Type} {P : α → β → Prop} {xs : List α} {ys : List β} (h : All₂ P xs ys) :
    xs.length = ys.length := by
  induction h with
  | nil => rfl
  | cons _ _ ih => simp [ih]

theorem All₂.imp {α β : Type} {P Q : α → β → Prop} (hpq : ∀ x y, P x y → Q x y) {xs : List α} {ys : List β}
    (h : All₂ P xs ys) : All₂ Q xs ys := by
  induction h with
  | nil => exact .nil
  | cons h _ ih => exact .cons (hpq _ _ h) ih

theorem All₂.refl {α : Type} {P : α → α → Prop} : ∀ (xs : List α), (∀ x ∈ xs, P x x) → All₂ P xs xs
  | [], _ => .nil
  | x :: xs, h => .cons (h x (List.mem_cons_self ..)) (All₂.refl xs fun y hy => h y (List.mem_cons_of_mem _ hy))

/-- `seqG` over two lists related elementwise -/
theorem SimD.seqG₂ {α α' : Type} {P : α → α' → Prop} {f : α → Gen} {f' : α' → Gen}
    (hf : ∀ x x', P x x' → SimD (f x) (f' x')) {xs : List α} {xs' : List α'} (h : All₂ P xs xs') :
    SimD (seqG f xs) (seqG f' xs') := by
  induction h with
  | nil => exact SimD.refl _
  | cons h _ ih => exact SimD.andThen (hf _ _ h) ih

theorem SimD.seqG {α : Type} {f f' : α → Gen} :
    ∀ (xs : List α), (∀ x ∈ xs, SimD (f x) (f' x)) → SimD (seqG f xs) (seqG f' xs)
  | [], _ => SimD.refl _
  | x :: xs, h =>
    SimD.andThen (h x (List.mem_cons_self ..))
      (SimD.seqG xs fun y hy => h y (List.mem_cons_of_mem _ hy))

theorem SimD.mapErrs {f f' : Err → Err} {g g' : Gen} (hg : SimD g g')
    (hf : ∀ e e', eraseDeep e = eraseDeep e' → eraseDeep (f e) = eraseDeep (f' e')) :
    SimD (mapErrs f g) (mapErrs f' g') := by
  intro b st
  obtain ⟨he, hs, hst⟩ := hg b st
  exact ⟨map_eraseDeep_map hf he, hs, hst⟩

theorem SimD.descendG {g g' : Gen} (p sp : Option PathElem) (hg : SimD g g') :
    SimD (descendG g p sp) (descendG g' p sp) := by
  unfold JS.descendG
  refine SimD.mapErrs hg fun e e' h => ?_
  cases p <;> cases sp <;>
    simp only [eraseDeep_consPath, eraseDeep_consSchemaPath, h]

theorem SimD.inner {g g' : Gen} (b' : Option Nat) {k k' : List Err → Gen} (hg : SimD g g')
    (hk : ∀ es es', es.map eraseDeep = es'.map eraseDeep → SimD (k es) (k' es')) :
    SimD (inner g b' k) (inner g' b' k') := by
  intro b st
  have h1 := hg b' st
  unfold JS.inner
  rcases hgo : g b' st with ⟨es, s, st1⟩
  rcases hgo' : g' b' st with ⟨es', s', st1'⟩
  rw [hgo, hgo'] at h1
  obtain ⟨he, hs, hst⟩ := h1
  simp only at he hs hst
  subst hs hst
  cases s with
  | done => exact hk es es' he b st1
  | budget => exact hk es es' he b st1
  | raised e => exact ⟨rfl, rfl, rfl⟩
  | fuel => exact ⟨rfl, rfl, rfl⟩
  | miss q => exact ⟨rfl, rfl, rfl⟩

theorem SimD.innerValid {g g' : Gen} {k k' : Bool → Gen} (hg : SimD g g')
    (hk : ∀ ok, SimD (k ok) (k' ok)) : SimD (innerValid g k) (innerValid g' k') := by
  unfold JS.innerValid
  refine SimD.inner _ hg fun es es' h => ?_
  rw [map_eraseDeep_isEmpty h]
  exact hk _

theorem SimD.withScope (env : Env) (scope : Str) {g g' : Gen} (hg : SimD g g') :
    SimD (withScope env scope g) (withScope env scope g') := by
  intro b st
  unfold JS.withScope
  cases env.urljoin st.top scope with
  | none => exact ⟨rfl, rfl, rfl⟩
  | some u =>
    obtain ⟨he, hs, hst⟩ := hg b { st with scopes := u :: st.scopes }
    dsimp only
    refine ⟨he, hs, ?_⟩
    dsimp only
    rw [hst]

theorem SimD.withScopeOpt (env : Env) (scope : Option Str) {g g' : Gen} (hg : SimD g g') :
    SimD (withScopeOpt env scope g) (withScopeOpt env scope g') := by
  cases scope with
  | none => exact hg
  | some s => exact SimD.withScope env s hg

theorem SimD.withRes {α : Type} (r : Res α) {k k' : α → Gen} (hk : ∀ a, SimD (k a) (k' a)) :
    SimD (withRes r k) (withRes r k') := by
  cases r with
  | ok a => exact hk a
  | raise e => exact SimD.refl _
  | miss q => exact SimD.refl _

theorem SimD.gate (cfg : Cfg) (inst : Json) (name : String) {k k' : Gen} (hk : SimD k k') :
    SimD (gate cfg inst name k) (gate cfg inst name k') := by
  unfold JS.gate
  refine SimD.withRes _ fun ok => ?_
  cases ok
  · exact SimD.refl _
  · exact hk

theorem SimD.emit {es es' : List Err} (h : es.map eraseDeep = es'.map eraseDeep) :
    SimD (emit es) (emit es') := by
  intro b st
  have hlen := map_eraseDeep_length h
  unfold JS.emit
  cases b with
  | none => exact ⟨h, rfl, rfl⟩
  | some k =>
    dsimp only
    rw [hlen]
    by_cases hk : es'.length < k
    · rw [if_pos hk, if_pos hk]; exact ⟨h, rfl, rfl⟩
    · rw [if_neg hk, if_neg hk]
      refine ⟨?_, rfl, rfl⟩
      show (es.take k).map eraseDeep = (es'.take k).map eraseDeep
      rw [List.map_take, List.map_take, h]

/-- one fresh error on each side, same cause, contexts equal up to `eraseDeep` -/
theorem SimD.emit_fresh (t t' : String) (a a' : List Json) (ctx ctx' : List Err) (c : Option String)
    (h : ctx.map eraseDeep = ctx'.map eraseDeep) :
    SimD (JS.emit [Err.fresh t a ctx c]) (JS.emit [Err.fresh t' a' ctx' c]) :=
  SimD.emit (by simp only [List.map_cons, List.map_nil, eraseDeep_fresh t t' a a' ctx ctx' c h])

/-! ### the insertion relations, with reference-freeness -/

theorem noRef_arr_mem {xs : List Json} (h : noRef (.arr xs) = true) : ∀ x ∈ xs, noRef x = true := by
  unfold noRef at h
  induction xs with
  | nil => intro x hx; cases hx
  | cons y ys ih =>
    simp only [noRef.noRefList, Bool.and_eq_true] at h
    intro x hx
    cases hx with
    | head => exact h.1
    | tail _ hx => exact ih h.2 x hx

theorem noRef_obj_mem {kvs : List (Str × Json)} (h : noRef (.obj kvs) = true) :
    ∀ kv ∈ kvs, kv.1 ≠ skey "$ref" ∧ noRef kv.2 = true := by
  unfold noRef at h
  induction kvs with
  | nil => intro x hx; cases hx
  | cons y ys ih =>
    obtain ⟨k, v⟩ := y
    simp only [noRef.noRefKvs, Bool.and_eq_true, bne_iff_ne, ne_eq] at h
    intro x hx
    cases hx with
    | head => exact ⟨h.1.1, h.1.2⟩
    | tail _ hx => exact ih h.2 x hx

theorem noRef_arr_of_mem {xs : List Json} (h : ∀ x ∈ xs, noRef x = true) : noRef (.arr xs) = true := by
  unfold noRef
  induction xs with
  | nil => rfl
  | cons y ys ih =>
    simp only [noRef.noRefList, Bool.and_eq_true]
    exact ⟨h y (List.mem_cons_self ..), ih fun x hx => h x (List.mem_cons_of_mem _ hx)⟩

/-- `Ins` on a reference-free left side -/
def InsN (d : Draft) (s s' : Json) : Prop := Ins d s s' ∧ noRef s = true

theorem InsN.refl {d : Draft} {s : Json} (h : noRef s = true) : InsN d s s := ⟨.same s, h⟩

/-- entries (index or name, subschema) related: same index or name, subschemas related -/
def EntN (d : Draft) {κ : Type} (a b : κ × Json) : Prop := a.1 = b.1 ∧ InsN d a.2 b.2

/-- the hypothesis on the recursive calls -/
def RecRel (d : Draft) (rec rec' : Rec) : Prop :=
  ∀ inst s s', InsN d s s' → SimD (rec inst s) (rec' inst s')

theorem insList_all₂ {d : Draft} : ∀ (vs vs' : List Json), InsList d vs vs' → noRef (.arr vs) = true →
    All₂ (InsN d) vs vs'
  | [], _, h, _ => by cases h; exact .nil
  | v :: vs, _, h, hn => by
    cases h with
    | cons _ v' h1 h2 =>
      have hm := noRef_arr_mem hn
      exact .cons ⟨h1, hm v (List.mem_cons_self ..)⟩
        (insList_all₂ vs _ h2 (noRef_arr_of_mem fun x hx => hm x (List.mem_cons_of_mem _ hx)))

theorem noRef_obj_tail {kv : Str × Json} {kvs : List (Str × Json)} (h : noRef (.obj (kv :: kvs)) = true) :
    noRef (.obj kvs) = true := by
  obtain ⟨k, v⟩ := kv
  unfold noRef at h ⊢
  simp only [noRef.noRefKvs, Bool.and_eq_true] at h
  exact h.2

theorem insMap_all₂ {d : Draft} : ∀ (ms ms' : List (Str × Json)), InsMap d ms ms' → noRef (.obj ms) = true →
    All₂ (EntN d) ms ms'
  | [], _, h, _ => by cases h; exact .nil
  | (n, v) :: ms, _, h, hn => by
    cases h with
    | cons _ _ v' h1 h2 =>
      exact .cons ⟨rfl, h1, (noRef_obj_mem hn (n, v) (List.mem_cons_self ..)).2⟩
        (insMap_all₂ ms _ h2 (noRef_obj_tail hn))

theorem all₂_insN_refl {d : Draft} {vs : List Json} (h : noRef (.arr vs) = true) : All₂ (InsN d) vs vs :=
  All₂.refl vs fun x hx => InsN.refl (noRef_arr_mem h x hx)

theorem all₂_entN_refl {d : Draft} {ms : List (Str × Json)} (h : noRef (.obj ms) = true) :
    All₂ (EntN d (κ := Str)) ms ms :=
  All₂.refl ms fun x hx => ⟨rfl, InsN.refl (noRef_obj_mem h x hx).2⟩

theorem all₂_enumFrom {α β : Type} {P : α → β → Prop} {xs : List α} {ys : List β} (h : All₂ P xs ys) :
    ∀ n, All₂ (fun a b => a.1 = b.1 ∧ P a.2 b.2) (enumFrom n xs) (enumFrom n ys) := by
  induction h with
  | nil => intro n; exact .nil
  | cons h _ ih => intro n; exact .cons ⟨rfl, h⟩ (ih (n + 1))

theorem all₂_zip {γ α β : Type} {P : α → β → Prop} {xs : List α} {ys : List β} (h : All₂ P xs ys) :
    ∀ l : List γ, All₂ (fun a b => a.1 = b.1 ∧ P a.2 b.2) (l.zip xs) (l.zip ys) := by
  induction h with
  | nil => intro l; cases l <;> exact .nil
  | cons h _ ih =>
    intro l
    cases l with
    | nil => exact .nil
    | cons c l => exact .cons ⟨rfl, h⟩ (ih l)

/-! ### type tests do not see insertions -/

theorem pyIsInstance_obj (a : List (Str × Json)) (ty : String) :
    pyIsInstance (.obj a) ty = (ty == "dict" || ty == "object") := by
  unfold pyIsInstance
  split <;> simp_all

theorem pyIsInstance_arr (a : List Json) (ty : String) :
    pyIsInstance (.arr a) ty = (ty == "list" || ty == "object") := by
  unfold pyIsInstance
  split <;> simp_all

theorem tyApply_obj (f : TyFn) (a b : List (Str × Json)) : f.apply (.obj a) = f.apply (.obj b) := by
  cases f <;> try rfl
  have : pyIsInstance (.obj a) = pyIsInstance (.obj b) := by
    funext ty; rw [pyIsInstance_obj, pyIsInstance_obj]
  simp only [TyFn.apply, Json.isBoolJ, this]; rfl

theorem tyApply_arr (f : TyFn) (a b : List Json) : f.apply (.arr a) = f.apply (.arr b) := by
  cases f <;> try rfl
  have : pyIsInstance (.arr a) = pyIsInstance (.arr b) := by
    funext ty; rw [pyIsInstance_arr, pyIsInstance_arr]
  simp only [TyFn.apply, Json.isBoolJ, this]; rfl

theorem tyApply_ins {d : Draft} {v v' : Json} (h : Ins d v v') (f : TyFn) : f.apply v = f.apply v' := by
  cases h with
  | same => rfl
  | obj _ => exact tyApply_obj f _ _

/-- `is_type(v, name)` for related `v` -/
theorem isType_ins {d : Draft} (cfg : Cfg) {v v' : Json} (h : Ins d v v') (name : Json) :
    isType cfg v name = isType cfg v' name := by
  unfold isType
  cases name <;> try rfl
  dsimp only
  cases lookupS _ cfg.types with
  | none => rfl
  | some f => dsimp only; rw [tyApply_ins h]

theorem isTypeS_ins {d : Draft} (cfg : Cfg) {v v' : Json} (h : Ins d v v') (name : String) :
    isTypeS cfg v name = isTypeS cfg v' name := isType_ins cfg h _

theorem isTypeS_arr (cfg : Cfg) (a b : List Json) (name : String) :
    isTypeS cfg (.arr a) name = isTypeS cfg (.arr b) name := by
  unfold isTypeS isType
  dsimp only
  cases lookupS _ cfg.types with
  | none => rfl
  | some f => dsimp only; rw [tyApply_arr f a b]

/-- `is_type(inst, t)` for related type NAMES `t` (an object is not a type name) -/
theorem isType_name_ins {d : Draft} (cfg : Cfg) (inst : Json) {t t' : Json} (h : Ins d t t') :
    isType cfg inst t = isType cfg inst t' := by
  cases h with
  | same => rfl
  | obj _ => rfl

/-- what the proof needs to know about the type checker: `object` and `array` mean what they say -/
structure TyOK (cfg : Cfg) : Prop where
  obj : ∀ v, isTypeS cfg v "object" = .ok v.isObj
  arr : ∀ v, isTypeS cfg v "array" = .ok v.isArr

theorem ins_truthy_nonobj {d : Draft} {v v' : Json} (h : Ins d v v') (hv : v.isObj = false) : v = v' := by
  cases h with
  | same => rfl
  | obj _ => cases hv

/-! ### lookups in the members of a schema object with inserted keys -/

/-- two optional values related -/
inductive OptRel {α β : Type} (P : α → β → Prop) : Option α → Option β → Prop
  | none : OptRel P none none
  | some {a : α} {b : β} : P a b → OptRel P (some a) (some b)

theorem lookup_mem {c : Str} {v : Json} : ∀ {kvs : List (Str × Json)}, Json.lookup c kvs = some v → (c, v) ∈ kvs
  | [], h => by cases h
  | (k, w) :: kvs, h => by
    unfold Json.lookup at h
    by_cases hk : k = c
    · rw [if_pos hk] at h
      cases h; subst hk; exact List.mem_cons_self ..
    · rw [if_neg hk] at h
      exact List.mem_cons_of_mem _ (lookup_mem h)

theorem noRef_lookup {c : Str} {v : Json} {kvs : List (Str × Json)} (hn : noRef (.obj kvs) = true)
    (h : Json.lookup c kvs = some v) : noRef v = true :=
  (noRef_obj_mem hn _ (lookup_mem h)).2

theorem noRef_lookup_ref {kvs : List (Str × Json)} (hn : noRef (.obj kvs) = true) :
    Json.lookup (skey "$ref") kvs = none := by
  cases h : Json.lookup (skey "$ref") kvs with
  | none => rfl
  | some v => exact absurd rfl (noRef_obj_mem hn _ (lookup_mem h)).1

/-- a key that is not inert is looked up past the inserted members -/
theorem lookup_insMembers {d : Draft} {c : Str} (hc : ¬ Inert d c) :
    ∀ (kvs' kvs : List (Str × Json)), InsMembers d kvs kvs' →
      OptRel (InsVal d c) (Json.lookup c kvs) (Json.lookup c kvs')
  | [], _, h => by cases h; exact .none
  | (k, v') :: kvs', kvs, h => by
    cases h with
    | insert _ _ hin hrest =>
      have hk : k ≠ c := fun e => hc (e ▸ hin)
      show OptRel _ _ (if k = c then some v' else Json.lookup c kvs')
      rw [if_neg hk]
      exact lookup_insMembers hc kvs' kvs hrest
    | @keep kvs0 _ _ v _ hval hrest =>
      show OptRel _ (if k = c then some v else Json.lookup c kvs0) (if k = c then some v' else Json.lookup c kvs')
      by_cases hk : k = c
      · rw [if_pos hk, if_pos hk]; subst hk; exact .some hval
      · rw [if_neg hk, if_neg hk]
        exact lookup_insMembers hc kvs' kvs0 hrest

theorem not_inert_consulted (d : Draft) {c : Str} (h : c ∈ consulted) : ¬ Inert d c :=
  fun hi => hi.2.2.2.1 h

theorem not_inert_idKey (d : Draft) : ¬ Inert d d.idKey := fun hi => hi.2.1 rfl
theorem not_inert_ref (d : Draft) : ¬ Inert d (skey "$ref") := fun hi => hi.2.2.1 rfl
theorem not_inert_required (d : Draft) : ¬ Inert d (skey "required") := fun hi => hi.2.2.2.2 rfl

/-- a kept member whose key is in none of the three lists keeps its value -/
theorem insVal_eq {d : Draft} {c : Str} {v v' : Json} (h : InsVal d c v v')
    (h1 : c ∉ schemaKeys d) (h2 : c ∉ schemaArrayKeys d) (h3 : c ∉ schemaMapKeys d) : v = v' := by
  cases h with
  | same => rfl
  | schema _ _ _ hm _ => exact absurd hm h1
  | schemas _ _ _ hm _ => exact absurd hm h2
  | schemaMap _ _ _ hm _ => exact absurd hm h3

theorem insVal_ins {d : Draft} {c : Str} {v v' : Json} (h : InsVal d c v v')
    (h2 : c ∉ schemaArrayKeys d) (h3 : c ∉ schemaMapKeys d) : Ins d v v' := by
  cases h with
  | same => exact .same _
  | schema _ _ _ _ hi => exact hi
  | schemas _ _ _ hm _ => exact absurd hm h2
  | schemaMap _ _ _ hm _ => exact absurd hm h3

theorem lookup_insMembers_eq {d : Draft} {c : Str} (hc : ¬ Inert d c)
    (h1 : c ∉ schemaKeys d) (h2 : c ∉ schemaArrayKeys d) (h3 : c ∉ schemaMapKeys d)
    {kvs kvs' : List (Str × Json)} (h : InsMembers d kvs kvs') :
    Json.lookup c kvs' = Json.lookup c kvs := by
  have := lookup_insMembers hc kvs' kvs h
  revert this
  generalize Json.lookup c kvs = o
  generalize Json.lookup c kvs' = o'
  intro this
  cases this with
  | none => rfl
  | some hv => rw [insVal_eq hv h1 h2 h3]

theorem idKey_not_keys (d : Draft) :
    d.idKey ∉ schemaKeys d ∧ d.idKey ∉ schemaArrayKeys d ∧ d.idKey ∉ schemaMapKeys d := by
  cases d <;> decide +kernel

theorem ref_not_keys (d : Draft) :
    skey "$ref" ∉ schemaKeys d ∧ skey "$ref" ∉ schemaArrayKeys d ∧ skey "$ref" ∉ schemaMapKeys d := by
  cases d <;> decide +kernel

theorem required_not_keys (d : Draft) :
    skey "required" ∉ schemaKeys d ∧ skey "required" ∉ schemaArrayKeys d ∧ skey "required" ∉ schemaMapKeys d := by
  cases d <;> decide +kernel

theorem exclusive_not_keys (d : Draft) :
    (skey "exclusiveMinimum" ∉ schemaKeys d ∧ skey "exclusiveMinimum" ∉ schemaArrayKeys d
      ∧ skey "exclusiveMinimum" ∉ schemaMapKeys d)
    ∧ (skey "exclusiveMaximum" ∉ schemaKeys d ∧ skey "exclusiveMaximum" ∉ schemaArrayKeys d
      ∧ skey "exclusiveMaximum" ∉ schemaMapKeys d) := by
  cases d <;> decide +kernel

theorem scopeOf_insMembers (d : Draft) (fc : Option FormatChecker) {kvs kvs' : List (Str × Json)}
    (h : InsMembers d kvs kvs') : scopeOf (d.cfg fc) kvs' = scopeOf (d.cfg fc) kvs := by
  unfold scopeOf Json.hasKey
  have hr := lookup_insMembers_eq (not_inert_ref d) (ref_not_keys d).1 (ref_not_keys d).2.1 (ref_not_keys d).2.2 h
  have hi := lookup_insMembers_eq (not_inert_idKey d) (idKey_not_keys d).1 (idKey_not_keys d).2.1
    (idKey_not_keys d).2.2 h
  rw [hr]
  show (if _ then _ else match Json.lookup d.idKey kvs' with | none => _ | some (.str s) => _ | some j => _) = _
  rw [hi]
  rfl

/-! ### the keyword functions that take a subschema -/

section Kw
variable {d : Draft} {rec rec' : Rec} (hrec : RecRel d rec rec')
include hrec

theorem kwNot_simD {v v' : Json} (hv : InsN d v v') (inst : Json) :
    SimD (kwNot rec v inst) (kwNot rec' v' inst) := by
  unfold kwNot
  refine SimD.innerValid (hrec _ _ _ hv) fun ok => ?_
  cases ok
  · exact SimD.refl _
  · exact SimD.emit_fresh _ _ _ _ _ _ _ rfl

theorem kwPropertyNames_simD (cfg : Cfg) {v v' : Json} (hv : InsN d v v') (inst : Json) :
    SimD (kwPropertyNames cfg rec v inst) (kwPropertyNames cfg rec' v' inst) := by
  unfold kwPropertyNames
  refine SimD.gate _ _ _ ?_
  cases inst <;> try exact SimD.refl _
  exact SimD.seqG _ fun kx _ => SimD.descendG _ _ (hrec _ _ _ hv)

theorem containsLoop_simD {v v' : Json} (hv : InsN d v v') (whole : Json) :
    ∀ xs, SimD (containsLoop rec v whole xs) (containsLoop rec' v' whole xs)
  | [] => SimD.refl _
  | x :: xs => by
    unfold containsLoop
    refine SimD.innerValid (hrec _ _ _ hv) fun ok => ?_
    cases ok
    · exact containsLoop_simD hv whole xs
    · exact SimD.refl _

theorem kwContains_simD (cfg : Cfg) {v v' : Json} (hv : InsN d v v') (inst : Json) :
    SimD (kwContains cfg rec v inst) (kwContains cfg rec' v' inst) := by
  unfold kwContains
  refine SimD.gate _ _ _ ?_
  cases inst <;> try exact SimD.refl _
  exact containsLoop_simD hrec hv _ _

theorem kwIf_simD {v v' : Json} (hv : InsN d v v') (inst : Json) {s s' : Json}
    (ht : OptRel (InsN d) (s.get? (skey "then")) (s'.get? (skey "then")))
    (he : OptRel (InsN d) (s.get? (skey "else")) (s'.get? (skey "else"))) :
    SimD (kwIf rec v inst s) (kwIf rec' v' inst s') := by
  unfold kwIf
  refine SimD.innerValid (hrec _ _ _ hv) fun ok => ?_
  cases ok
  · show SimD (match s.get? (skey "else") with | some e => _ | none => _)
             (match s'.get? (skey "else") with | some e => _ | none => _)
    revert he
    generalize s.get? (skey "else") = o
    generalize s'.get? (skey "else") = o'
    intro he
    cases he with
    | none => exact SimD.refl _
    | some h => exact SimD.descendG _ _ (hrec _ _ _ h)
  · show SimD (match s.get? (skey "then") with | some e => _ | none => _)
             (match s'.get? (skey "then") with | some e => _ | none => _)
    revert ht
    generalize s.get? (skey "then") = o
    generalize s'.get? (skey "then") = o'
    intro ht
    cases ht with
    | none => exact SimD.refl _
    | some h => exact SimD.descendG _ _ (hrec _ _ _ h)

end Kw

theorem hasKey_of_keys {k : Str} : ∀ {a b : List (Str × Json)}, a.map (·.1) = b.map (·.1) →
    Json.hasKey k a = Json.hasKey k b
  | [], [], _ => rfl
  | [], _ :: _, h => by simp at h
  | _ :: _, [], h => by simp at h
  | (ka, va) :: a, (kb, vb) :: b, h => by
    simp only [List.map_cons, List.cons.injEq] at h
    obtain ⟨rfl, h2⟩ := h
    have ih := hasKey_of_keys (k := k) h2
    show (if ka = k then some va else Json.lookup k a).isSome = (if ka = k then some vb else Json.lookup k b).isSome
    by_cases hk : ka = k
    · rw [if_pos hk, if_pos hk]; rfl
    · rw [if_neg hk, if_neg hk]; exact ih

theorem findAdditional_keys (env : Env) {a b : List (Str × Json)} (h : a.map (·.1) = b.map (·.1))
    (pats : List Str) : ∀ ikvs, findAdditional env a pats ikvs = findAdditional env b pats ikvs
  | [] => rfl
  | (k, x) :: rest => by
    unfold findAdditional
    rw [hasKey_of_keys h, findAdditional_keys env h pats rest]

/-- a consulted sibling that is read only for its presence and its member names -/
def SameKeys (o o' : Option Json) : Prop :=
  o.isSome = o'.isSome ∧ (objKvs o).map (·.map (·.1)) = (objKvs o').map (·.map (·.1))

theorem withRes_ok {α : Type} (a : α) (k : α → Gen) : withRes (.ok a) k = k a := rfl

/-- reduce `if true = true`, `if false = true` and `withRes (.ok _)` on both sides -/
macro "simd_red" : tactic => `(tactic| simp only [withRes_ok, ↓reduceIte, Bool.false_eq_true])

section Kw
variable {d : Draft} {rec rec' : Rec} (hrec : RecRel d rec rec')
include hrec

theorem kwAdditionalProperties_simD (env : Env) (cfg : Cfg) (hty : TyOK cfg) {v v' : Json} (hv : InsN d v v') (inst : Json)
    {s s' : Json}
    (hp : SameKeys (s.get? (skey "properties")) (s'.get? (skey "properties")))
    (hpp : SameKeys (s.get? (skey "patternProperties")) (s'.get? (skey "patternProperties"))) :
    SimD (kwAdditionalProperties env cfg rec v inst s) (kwAdditionalProperties env cfg rec' v' inst s') := by
  unfold kwAdditionalProperties
  refine SimD.gate _ _ _ ?_
  revert hp hpp
  generalize s.get? (skey "properties") = o1
  generalize s'.get? (skey "properties") = o1'
  generalize s.get? (skey "patternProperties") = o2
  generalize s'.get? (skey "patternProperties") = o2'
  intro hp hpp
  obtain ⟨_, hpk⟩ := hp
  obtain ⟨hpps, hppk⟩ := hpp
  cases inst <;> try exact SimD.refl _
  rename_i ikvs
  rcases h1 : objKvs o1 with _ | props <;> rcases h1' : objKvs o1' with _ | props' <;>
    rw [h1, h1'] at hpk <;> simp only [Option.map_none, Option.map_some, reduceCtorEq, Option.some.injEq] at hpk
  · exact SimD.refl _
  rcases h2 : objKvs o2 with _ | pats <;> rcases h2' : objKvs o2' with _ | pats' <;>
    rw [h2, h2'] at hppk <;> simp only [Option.map_none, Option.map_some, reduceCtorEq, Option.some.injEq] at hppk
  · exact SimD.refl _
  dsimp only
  rw [findAdditional_keys env hpk, hppk]
  refine SimD.withRes _ fun extras0 => SimD.withRes _ fun extras => ?_
  rw [hty.obj, hty.obj]
  show SimD (if v.isObj = true then _ else _) (if v'.isObj = true then _ else _)
  cases hio : v.isObj
  · have := ins_truthy_nonobj hv.1 hio
    subst this
    rw [hio, hpps]
    simp only [Bool.false_eq_true, if_false]
    split
    · split
      · exact SimD.emit_fresh _ _ _ _ _ _ _ rfl
      · exact SimD.refl _
    · exact SimD.refl _
  · have : v'.isObj = true := by
      obtain ⟨hi, _⟩ := hv
      cases hi with
      | same => exact hio
      | obj _ => rfl
    rw [this]
    simp only [if_true]
    refine SimD.seqG _ fun extra _ => ?_
    cases Json.lookup extra ikvs with
    | none => exact SimD.refl _
    | some x => exact SimD.descendG _ _ (hrec _ _ _ hv)

omit hrec in
theorem isTypeS_obj (cfg : Cfg) (a b : List (Str × Json)) (name : String) :
    isTypeS cfg (.obj a) name = isTypeS cfg (.obj b) name := by
  unfold isTypeS isType
  dsimp only
  cases lookupS _ cfg.types with
  | none => rfl
  | some f => dsimp only; rw [tyApply_obj f a b]

omit hrec in
theorem isObj_ins' {v v' : Json} (hv : InsN d v v') : v'.isObj = v.isObj := by
  obtain ⟨hi, _⟩ := hv
  cases hi with
  | same => rfl
  | obj _ => rfl

/-- the part of `additionalItems` after the tuple length is known -/
theorem addItems_tail_simD (cfg : Cfg) (hty : TyOK cfg) {v v' : Json} (hv : InsN d v v') (xs : List Json) (n : Nat) :
    SimD (withRes (isTypeS cfg v "object") fun aIobj =>
          if aIobj then
            seqG (fun (t : Nat × Json) => descendG (rec t.2 v) (some (.idx t.1)) none) (enumFrom n (xs.drop n))
          else if !truthy v && xs.length > n then
            emit [Err.fresh "addItems" [.arr (xs.drop n)]]
          else nothing)
         (withRes (isTypeS cfg v' "object") fun aIobj =>
          if aIobj then
            seqG (fun (t : Nat × Json) => descendG (rec' t.2 v') (some (.idx t.1)) none) (enumFrom n (xs.drop n))
          else if !truthy v' && xs.length > n then
            emit [Err.fresh "addItems" [.arr (xs.drop n)]]
          else nothing) := by
  rw [hty.obj, hty.obj, isObj_ins' hv]
  show SimD (if v.isObj = true then _ else _) (if v.isObj = true then _ else _)
  cases hio : v.isObj
  · have := ins_truthy_nonobj hv.1 hio
    subst this
    exact SimD.refl _
  · simp only [if_true]
    exact SimD.seqG _ fun _ _ => SimD.descendG _ _ (hrec _ _ _ hv)

/-- what `additionalItems` reads of its sibling `items`: its kind and, for a tuple, its length -/
inductive ItemsRel : Option Json → Option Json → Prop
  | same (o : Option Json) : ItemsRel o o
  | arr {subs subs' : List Json} : subs.length = subs'.length → ItemsRel (some (.arr subs)) (some (.arr subs'))
  | obj (m m' : List (Str × Json)) : ItemsRel (some (.obj m)) (some (.obj m'))

theorem kwAdditionalItems_simD (cfg : Cfg) (hty : TyOK cfg) {v v' : Json} (hv : InsN d v v') (inst : Json)
    {s s' : Json} (hi : ItemsRel (s.get? (skey "items")) (s'.get? (skey "items"))) :
    SimD (kwAdditionalItems cfg rec v inst s) (kwAdditionalItems cfg rec' v' inst s') := by
  unfold kwAdditionalItems
  refine SimD.withRes _ fun instArr => ?_
  cases instArr
  · exact SimD.refl _
  revert hi
  generalize s.get? (skey "items") = o
  generalize s'.get? (skey "items") = o'
  intro hi
  show SimD (withRes (isTypeS cfg (o.getD (.obj [])) "array") _) (withRes (isTypeS cfg (o'.getD (.obj [])) "array") _)
  cases hi with
  | same o =>
    refine SimD.withRes _ fun itemsArr => ?_
    cases itemsArr
    · exact SimD.refl _
    cases inst <;> try exact SimD.refl _
    rcases o with _ | (_ | _ | _ | _ | subs | _) <;> try exact SimD.refl _
    exact addItems_tail_simD hrec cfg hty hv _ _
  | @arr subs subs' hlen =>
    rw [show isTypeS cfg ((some (Json.arr subs)).getD (.obj [])) "array"
          = isTypeS cfg ((some (Json.arr subs')).getD (.obj [])) "array" from isTypeS_arr cfg _ _ _]
    refine SimD.withRes _ fun itemsArr => ?_
    cases itemsArr
    · exact SimD.refl _
    cases inst <;> try exact SimD.refl _
    dsimp only
    rw [hlen]
    exact addItems_tail_simD hrec cfg hty hv _ _
  | obj m m' =>
    rw [show isTypeS cfg ((some (Json.obj m)).getD (.obj [])) "array"
          = isTypeS cfg ((some (Json.obj m')).getD (.obj [])) "array" from isTypeS_obj cfg _ _ _]
    refine SimD.withRes _ fun itemsArr => ?_
    cases itemsArr
    · exact SimD.refl _
    cases inst <;> exact SimD.refl _

/-! `items` and friends: a subschema or an array of subschemas -/

omit hrec in
theorem entN_elim {κ : Type} {x x' : κ × Json} (h : EntN d x x') : ∃ a b b', x = (a, b) ∧ x' = (a, b') ∧ InsN d b b' := by
  obtain ⟨a, b⟩ := x
  obtain ⟨a', b'⟩ := x'
  obtain ⟨h1, h2⟩ := h
  simp only at h1 h2
  subst h1
  exact ⟨a, b, b', rfl, rfl, h2⟩

/-- the value of `items`/`extends`: a subschema, or an array of subschemas -/
def ItemsVal (d : Draft) (v v' : Json) : Prop :=
  InsN d v v' ∨ ∃ vs vs', v = .arr vs ∧ v' = .arr vs' ∧ All₂ (InsN d) vs vs'

theorem tuple_simD (xs : List Json) {vs vs' : List Json} (h : All₂ (InsN d) vs vs') :
    SimD (seqG (fun (t : (Nat × Json) × Json) =>
              descendG (rec t.1.2 t.2) (some (.idx t.1.1)) (some (.idx t.1.1))) ((enumFrom 0 xs).zip vs))
         (seqG (fun (t : (Nat × Json) × Json) =>
              descendG (rec' t.1.2 t.2) (some (.idx t.1.1)) (some (.idx t.1.1))) ((enumFrom 0 xs).zip vs')) := by
  refine SimD.seqG₂ (fun x x' hx => ?_) (all₂_zip h _)
  obtain ⟨a, b, b', rfl, rfl, hb⟩ := entN_elim (d := d) hx
  exact SimD.descendG _ _ (hrec _ _ _ hb)

theorem each_simD {v v' : Json} (hv : InsN d v v') (l : List (Nat × Json)) :
    SimD (seqG (fun (t : Nat × Json) => descendG (rec t.2 v) (some (.idx t.1)) none) l)
         (seqG (fun (t : Nat × Json) => descendG (rec' t.2 v') (some (.idx t.1)) none) l) :=
  SimD.seqG _ fun _ _ => SimD.descendG _ _ (hrec _ _ _ hv)

theorem kwItems_simD (cfg : Cfg) (hty : TyOK cfg) {v v' : Json} (hv : ItemsVal d v v') (inst : Json) :
    SimD (kwItems cfg rec v inst) (kwItems cfg rec' v' inst) := by
  unfold kwItems
  refine SimD.gate _ _ _ ?_
  cases inst <;> try exact SimD.refl _
  rename_i xs
  dsimp only
  rcases hv with hv | ⟨vs, vs', rfl, rfl, hall⟩
  · rw [isTypeS_ins cfg hv.1]
    refine SimD.withRes _ fun isArr => ?_
    cases isArr
    · exact each_simD hrec hv _
    · obtain ⟨hi, hn⟩ := hv
      cases hi with
      | same =>
        cases v <;> try exact SimD.refl _
        exact tuple_simD hrec xs (all₂_insN_refl hn)
      | obj _ => exact SimD.refl _
  · rw [hty.arr, hty.arr]
    exact tuple_simD hrec xs hall

theorem kwItemsDraft3Draft4_simD (cfg : Cfg) (hty : TyOK cfg) {v v' : Json} (hv : ItemsVal d v v') (inst : Json) :
    SimD (kwItemsDraft3Draft4 cfg rec v inst) (kwItemsDraft3Draft4 cfg rec' v' inst) := by
  unfold kwItemsDraft3Draft4
  refine SimD.gate _ _ _ ?_
  cases inst <;> try exact SimD.refl _
  rename_i xs
  dsimp only
  rcases hv with hv | ⟨vs, vs', rfl, rfl, hall⟩
  · rw [isTypeS_ins cfg hv.1]
    refine SimD.withRes _ fun isObj => ?_
    cases isObj
    · obtain ⟨hi, hn⟩ := hv
      cases hi with
      | same =>
        cases v <;> try exact SimD.refl _
        exact tuple_simD hrec xs (all₂_insN_refl hn)
      | obj _ => exact SimD.refl _
    · exact each_simD hrec hv _
  · rw [hty.obj, hty.obj]
    exact tuple_simD hrec xs hall

theorem branches_simD (inst : Json) {vs vs' : List Json} (h : All₂ (InsN d) vs vs') :
    SimD (seqG (fun (t : Nat × Json) => descendG (rec inst t.2) none (some (.idx t.1))) (enumFrom 0 vs))
         (seqG (fun (t : Nat × Json) => descendG (rec' inst t.2) none (some (.idx t.1))) (enumFrom 0 vs')) := by
  refine SimD.seqG₂ (fun x x' hx => ?_) (all₂_enumFrom h 0)
  obtain ⟨a, b, b', rfl, rfl, hb⟩ := entN_elim (d := d) hx
  exact SimD.descendG _ _ (hrec _ _ _ hb)

theorem kwExtendsDraft3_simD (cfg : Cfg) (hty : TyOK cfg) {v v' : Json} (hv : ItemsVal d v v') (inst : Json) :
    SimD (kwExtendsDraft3 cfg rec v inst) (kwExtendsDraft3 cfg rec' v' inst) := by
  unfold kwExtendsDraft3
  rcases hv with hv | ⟨vs, vs', rfl, rfl, hall⟩
  · rw [isTypeS_ins cfg hv.1]
    refine SimD.withRes _ fun isObj => ?_
    cases isObj
    · obtain ⟨hi, hn⟩ := hv
      cases hi with
      | same =>
        cases v <;> try exact SimD.refl _
        exact branches_simD hrec inst (all₂_insN_refl hn)
      | obj _ => exact SimD.refl _
    · simd_red
      exact SimD.descendG _ _ (hrec _ _ _ hv)
  · rw [hty.obj, hty.obj]
    exact branches_simD hrec inst hall

/-! arrays of subschemas -/

/-- the value of `allOf`/`anyOf`/`oneOf`/Draft 3 `type`, `disallow`: an array of subschemas, or something else -/
inductive InsArrN (d : Draft) : Json → Json → Prop
  | arr {vs vs' : List Json} : All₂ (InsN d) vs vs' → InsArrN d (.arr vs) (.arr vs')
  | other (v : Json) : v.isArr = false → InsArrN d v v

theorem kwAllOf_simD {v v' : Json} (hv : InsArrN d v v') (inst : Json) :
    SimD (kwAllOf rec v inst) (kwAllOf rec' v' inst) := by
  unfold kwAllOf
  cases hv with
  | arr hall => exact branches_simD hrec inst hall
  | other v hna => cases v <;> first | exact SimD.refl _ | cases hna

/-- what `firstValid` hands to its continuation -/
inductive FVRel (d : Draft) : Option (Json × List (Nat × Json)) → Option (Json × List (Nat × Json)) → Prop
  | none : FVRel d none none
  | some {s s' : Json} {rest rest' : List (Nat × Json)} : All₂ (EntN d) rest rest' →
      FVRel d (some (s, rest)) (some (s', rest'))

theorem firstValid_simD (inst : Json) {k k' : Option (Json × List (Nat × Json)) → List Err → Gen}
    (hk : ∀ r r' acc acc', FVRel d r r' → acc.map eraseDeep = acc'.map eraseDeep → SimD (k r acc) (k' r' acc'))
    {xs xs' : List (Nat × Json)} (h : All₂ (EntN d) xs xs') :
    ∀ acc acc', acc.map eraseDeep = acc'.map eraseDeep →
      SimD (firstValid rec inst k xs acc) (firstValid rec' inst k' xs' acc') := by
  induction h with
  | nil => intro acc acc' hacc; unfold firstValid; exact hk _ _ _ _ .none hacc
  | @cons x y xs ys hxy hrest ih =>
    intro acc acc' hacc
    obtain ⟨i, s, s', rfl, rfl, hs⟩ := entN_elim (d := d) hxy
    unfold firstValid
    refine SimD.inner _ (SimD.descendG _ _ (hrec _ _ _ hs)) fun es es' he => ?_
    rw [map_eraseDeep_isEmpty he]
    cases es'.isEmpty
    · exact ih _ _ (by rw [List.map_append, List.map_append, hacc, he])
    · exact hk _ _ _ _ (.some hrest) hacc

theorem moreValid_simD (inst : Json) {k k' : List Json → Gen}
    (hk : ∀ acc acc', acc.length = acc'.length → SimD (k acc) (k' acc'))
    {xs xs' : List (Nat × Json)} (h : All₂ (EntN d) xs xs') :
    ∀ acc acc', acc.length = acc'.length →
      SimD (moreValid rec inst k xs acc) (moreValid rec' inst k' xs' acc') := by
  induction h with
  | nil => intro acc acc' hacc; unfold moreValid; exact hk _ _ hacc
  | @cons x y xs ys hxy hrest ih =>
    intro acc acc' hacc
    obtain ⟨i, s, s', rfl, rfl, hs⟩ := entN_elim (d := d) hxy
    unfold moreValid
    refine SimD.innerValid (hrec _ _ _ hs) fun ok => ?_
    cases ok
    · exact ih _ _ hacc
    · exact ih _ _ (by simp [hacc])

theorem kwAnyOf_simD {v v' : Json} (hv : InsArrN d v v') (inst : Json) :
    SimD (kwAnyOf rec v inst) (kwAnyOf rec' v' inst) := by
  unfold kwAnyOf
  cases hv with
  | arr hall =>
    refine firstValid_simD hrec inst (fun r r' acc acc' hr hacc => ?_) (all₂_enumFrom hall 0) _ _ rfl
    cases hr with
    | none => exact SimD.emit_fresh _ _ _ _ _ _ _ hacc
    | some _ => exact SimD.refl _
  | other v hna => cases v <;> first | exact SimD.refl _ | cases hna

theorem kwOneOf_simD {v v' : Json} (hv : InsArrN d v v') (inst : Json) :
    SimD (kwOneOf rec v inst) (kwOneOf rec' v' inst) := by
  unfold kwOneOf
  cases hv with
  | arr hall =>
    refine firstValid_simD hrec inst (fun r r' acc acc' hr hacc => ?_) (all₂_enumFrom hall 0) _ _ rfl
    cases hr with
    | none => exact SimD.emit_fresh _ _ _ _ _ _ _ hacc
    | some hrest =>
      refine moreValid_simD hrec inst (fun more more' hm => ?_) hrest _ _ rfl
      have : more.isEmpty = more'.isEmpty := by
        cases more <;> cases more' <;> simp_all
      rw [this]
      cases more'.isEmpty
      · exact SimD.emit_fresh _ _ _ _ _ _ _ rfl
      · exact SimD.refl _
  | other v hna => cases v <;> first | exact SimD.refl _ | cases hna

theorem typeDraft3Loop_simD (cfg : Cfg) (inst : Json) {k k' : Bool → List Err → Gen}
    (hk : ∀ m acc acc', acc.map eraseDeep = acc'.map eraseDeep → SimD (k m acc) (k' m acc'))
    {xs xs' : List (Nat × Json)} (h : All₂ (EntN d) xs xs') :
    ∀ acc acc', acc.map eraseDeep = acc'.map eraseDeep →
      SimD (typeDraft3Loop cfg rec inst k xs acc) (typeDraft3Loop cfg rec' inst k' xs' acc') := by
  induction h with
  | nil => intro acc acc' hacc; unfold typeDraft3Loop; exact hk _ _ _ hacc
  | @cons x y xs ys hxy hrest ih =>
    intro acc acc' hacc
    obtain ⟨i, s, s', rfl, rfl, hs⟩ := entN_elim (d := d) hxy
    unfold typeDraft3Loop
    rw [isTypeS_ins cfg hs.1]
    refine SimD.withRes _ fun isObj => ?_
    cases isObj
    · rw [isType_name_ins cfg inst hs.1]
      refine SimD.withRes _ fun ok => ?_
      cases ok
      · exact ih _ _ hacc
      · exact hk _ _ _ hacc
    · refine SimD.inner _ (SimD.descendG _ _ (hrec _ _ _ hs)) fun es es' he => ?_
      rw [map_eraseDeep_isEmpty he]
      cases es'.isEmpty
      · exact ih _ _ (by rw [List.map_append, List.map_append, hacc, he])
      · exact hk _ _ _ hacc

theorem kwTypeDraft3_simD (cfg : Cfg) {v v' : Json} (hv : InsArrN d v v') (inst : Json) :
    SimD (kwTypeDraft3 cfg rec v inst) (kwTypeDraft3 cfg rec' v' inst) := by
  unfold kwTypeDraft3
  have key : ∀ {ts ts' : List Json}, All₂ (InsN d) ts ts' →
      SimD (typeDraft3Loop cfg rec inst (fun matched acc =>
              if matched then nothing else emit [Err.fresh "type" [inst, .arr ts] acc]) (enumFrom 0 ts) [])
           (typeDraft3Loop cfg rec' inst (fun matched acc =>
              if matched then nothing else emit [Err.fresh "type" [inst, .arr ts'] acc]) (enumFrom 0 ts') []) := by
    intro ts ts' hall
    refine typeDraft3Loop_simD hrec cfg inst (fun m acc acc' hacc => ?_) (all₂_enumFrom hall 0) _ _ rfl
    cases m
    · exact SimD.emit_fresh _ _ _ _ _ _ _ hacc
    · exact SimD.refl _
  cases hv with
  | arr hall => exact key hall
  | other v hna =>
    cases v <;> first | exact SimD.refl _ | cases hna | skip
    exact key (.cons (InsN.refl rfl) .nil)

theorem kwDisallowDraft3_simD {v v' : Json} (inst : Json)
    (hv : v = v' ∨ ∃ vs vs', v = .arr vs ∧ v' = .arr vs' ∧
      All₂ (fun a b => InsN d (.obj [(skey "type", .arr [a])]) (.obj [(skey "type", .arr [b])])) vs vs')
    (hn : noRef v = true) :
    SimD (kwDisallowDraft3 rec v inst) (kwDisallowDraft3 rec' v' inst) := by
  unfold kwDisallowDraft3
  have key : ∀ {ds ds' : List Json},
      All₂ (fun a b => InsN d (.obj [(skey "type", .arr [a])]) (.obj [(skey "type", .arr [b])])) ds ds' →
      SimD (seqG (fun (d : Json) =>
              innerValid (rec inst (.obj [(skey "type", .arr [d])])) fun ok =>
                if ok then emit [Err.fresh "disallow" [d, inst]] else nothing) ds)
           (seqG (fun (d : Json) =>
              innerValid (rec' inst (.obj [(skey "type", .arr [d])])) fun ok =>
                if ok then emit [Err.fresh "disallow" [d, inst]] else nothing) ds') := by
    intro ds ds' hall
    refine SimD.seqG₂ (fun a b hab => ?_) hall
    refine SimD.innerValid (hrec _ _ _ hab) fun ok => ?_
    cases ok
    · exact SimD.refl _
    · exact SimD.emit_fresh _ _ _ _ _ _ _ rfl
  have hobj : ∀ a, noRef a = true → noRef (.obj [(skey "type", .arr [a])]) = true := by
    intro a ha
    simp only [noRef, noRef.noRefKvs, noRef.noRefList, ha, Bool.and_true, bne_iff_ne, ne_eq]
    decide
  rcases hv with rfl | ⟨vs, vs', rfl, rfl, hall⟩
  · cases v <;> try exact SimD.refl _
    · exact key (.cons (InsN.refl (hobj _ hn)) .nil)
    · rename_i xs
      exact key (All₂.refl xs fun x hx => InsN.refl (hobj _ (noRef_arr_mem hn x hx)))
  · exact key hall

/-! maps from names to subschemas -/

inductive InsMapN (d : Draft) : Json → Json → Prop
  | map {ms ms' : List (Str × Json)} : All₂ (EntN d) ms ms' → InsMapN d (.obj ms) (.obj ms')
  | other (v : Json) : v.isObj = false → InsMapN d v v

theorem kwProperties_simD (cfg : Cfg) {v v' : Json} (hv : InsMapN d v v') (inst : Json) :
    SimD (kwProperties cfg rec v inst) (kwProperties cfg rec' v' inst) := by
  unfold kwProperties
  refine SimD.gate _ _ _ ?_
  cases hv with
  | map hall =>
    cases inst <;> try exact SimD.refl _
    refine SimD.seqG₂ (fun x x' hx => ?_) hall
    obtain ⟨a, b, b', rfl, rfl, hb⟩ := entN_elim (d := d) hx
    dsimp only
    split
    · exact SimD.descendG _ _ (hrec _ _ _ hb)
    · exact SimD.refl _
  | other v hno => cases v <;> first | exact SimD.refl _ | cases hno

theorem kwPatternProperties_simD (env : Env) (cfg : Cfg) {v v' : Json} (hv : InsMapN d v v') (inst : Json) :
    SimD (kwPatternProperties env cfg rec v inst) (kwPatternProperties env cfg rec' v' inst) := by
  unfold kwPatternProperties
  refine SimD.gate _ _ _ ?_
  cases hv with
  | map hall =>
    cases inst <;> try exact SimD.refl _
    refine SimD.seqG₂ (fun x x' hx => ?_) hall
    obtain ⟨a, b, b', rfl, rfl, hb⟩ := entN_elim (d := d) hx
    refine SimD.seqG _ fun kx _ => SimD.withRes _ fun m => ?_
    cases m
    · exact SimD.refl _
    · simd_red
      exact SimD.descendG _ _ (hrec _ _ _ hb)
  | other v hno => cases v <;> first | exact SimD.refl _ | cases hno

theorem kwDependencies_simD (cfg : Cfg) {v v' : Json} (hv : InsMapN d v v') (inst : Json) :
    SimD (kwDependencies cfg rec v inst) (kwDependencies cfg rec' v' inst) := by
  unfold kwDependencies
  refine SimD.gate _ _ _ ?_
  cases hv with
  | map hall =>
    cases inst <;> try exact SimD.refl _
    refine SimD.seqG₂ (fun x x' hx => ?_) hall
    obtain ⟨a, b, b', rfl, rfl, hb⟩ := entN_elim (d := d) hx
    dsimp only
    split
    · exact SimD.refl _
    · rw [isTypeS_ins cfg hb.1]
      refine SimD.withRes _ fun isArr => ?_
      cases isArr
      · simd_red
        exact SimD.descendG _ _ (hrec _ _ _ hb)
      · obtain ⟨hi, _⟩ := hb
        cases hi with
        | same => exact SimD.refl _
        | obj _ => exact SimD.refl _
  | other v hno => cases v <;> first | exact SimD.refl _ | cases hno

theorem kwDependenciesDraft3_simD (cfg : Cfg) (hty : TyOK cfg) {v v' : Json} (hv : InsMapN d v v') (inst : Json) :
    SimD (kwDependenciesDraft3 cfg rec v inst) (kwDependenciesDraft3 cfg rec' v' inst) := by
  unfold kwDependenciesDraft3
  refine SimD.gate _ _ _ ?_
  cases hv with
  | map hall =>
    cases inst <;> try exact SimD.refl _
    refine SimD.seqG₂ (fun x x' hx => ?_) hall
    obtain ⟨a, b, b', rfl, rfl, hb⟩ := entN_elim (d := d) hx
    dsimp only
    split
    · exact SimD.refl _
    · rw [hty.obj, hty.obj, isObj_ins' hb]
      cases hio : b.isObj
      · have := ins_truthy_nonobj hb.1 hio
        subst this
        exact SimD.refl _
      · simd_red
        exact SimD.descendG _ _ (hrec _ _ _ hb)
  | other v hno => cases v <;> first | exact SimD.refl _ | cases hno

theorem kwPropertiesDraft3_simD (cfg : Cfg) {v v' : Json} (hv : InsMapN d v v') (inst s s' : Json) :
    SimD (kwPropertiesDraft3 cfg rec v inst s) (kwPropertiesDraft3 cfg rec' v' inst s') := by
  unfold kwPropertiesDraft3
  refine SimD.gate _ _ _ ?_
  have hreq : ∀ (prop : Str) (skvs : List (Str × Json)),
      SimD (match Json.lookup (skey "required") skvs with
            | some r => if truthy r then emit [requiredDraft3Err prop r inst s] else nothing
            | none => nothing)
           (match Json.lookup (skey "required") skvs with
            | some r => if truthy r then emit [requiredDraft3Err prop r inst s'] else nothing
            | none => nothing) := by
    intro prop skvs
    cases Json.lookup (skey "required") skvs with
    | none => exact SimD.refl _
    | some r =>
      dsimp only
      cases truthy r
      · exact SimD.refl _
      · exact SimD.emit rfl
  cases hv with
  | map hall =>
    cases inst <;> try exact SimD.refl _
    refine SimD.seqG₂ (fun x x' hx => ?_) hall
    obtain ⟨a, b, b', rfl, rfl, hb⟩ := entN_elim (d := d) hx
    dsimp only
    split
    · exact SimD.descendG _ _ (hrec _ _ _ hb)
    · obtain ⟨hi, _⟩ := hb
      cases hi with
      | same =>
        cases b <;> try exact SimD.refl _
        exact hreq _ _
      | obj hm =>
        dsimp only
        rw [lookup_insMembers_eq (not_inert_required d) (required_not_keys d).1 (required_not_keys d).2.1
          (required_not_keys d).2.2 hm]
        exact hreq _ _
  | other v hno => cases v <;> first | exact SimD.refl _ | cases hno

end Kw

theorem kwMinimumDraft3Draft4_simD (cfg : Cfg) (v inst : Json) {s s' : Json}
    (h : s.get? (skey "exclusiveMinimum") = s'.get? (skey "exclusiveMinimum")) :
    SimD (kwMinimumDraft3Draft4 cfg v inst s) (kwMinimumDraft3Draft4 cfg v inst s') := by
  unfold kwMinimumDraft3Draft4
  rw [h]
  exact SimD.refl _

theorem kwMaximumDraft3Draft4_simD (cfg : Cfg) (v inst : Json) {s s' : Json}
    (h : s.get? (skey "exclusiveMaximum") = s'.get? (skey "exclusiveMaximum")) :
    SimD (kwMaximumDraft3Draft4 cfg v inst s) (kwMaximumDraft3Draft4 cfg v inst s') := by
  unfold kwMaximumDraft3Draft4
  rw [h]
  exact SimD.refl _

/-! ### what the enclosing schema looks like to the keyword functions -/

theorem OptRel.and_left {α β : Type} {P : α → β → Prop} {o : Option α} {o' : Option β} (h : OptRel P o o')
    {Q : α → Prop} (hq : ∀ a, o = Option.some a → Q a) : OptRel (fun a b => P a b ∧ Q a) o o' := by
  cases h with
  | none => exact .none
  | some h => exact .some ⟨h, hq _ rfl⟩

theorem OptRel.imp {α β : Type} {P Q : α → β → Prop} (hpq : ∀ a b, P a b → Q a b) {o : Option α} {o' : Option β}
    (h : OptRel P o o') : OptRel Q o o' := by
  cases h with
  | none => exact .none
  | some h => exact .some (hpq _ _ h)

theorem insMap_keys {d : Draft} : ∀ (ms ms' : List (Str × Json)), InsMap d ms ms' → ms.map (·.1) = ms'.map (·.1)
  | [], _, h => by cases h; rfl
  | (n, v) :: ms, _, h => by
    cases h with
    | cons _ _ v' _ h2 => simp only [List.map_cons, insMap_keys ms _ h2]

theorem insList_length {d : Draft} : ∀ (vs vs' : List Json), InsList d vs vs' → vs.length = vs'.length
  | [], _, h => by cases h; rfl
  | v :: vs, _, h => by
    cases h with
    | cons _ v' _ h2 => simp only [List.length_cons, insList_length vs _ h2]

/-- the consulted siblings of two schema objects look the same to every keyword function -/
structure SibRel (d : Draft) (s s' : Json) : Prop where
  then_ : OptRel (InsN d) (s.get? (skey "then")) (s'.get? (skey "then"))
  else_ : OptRel (InsN d) (s.get? (skey "else")) (s'.get? (skey "else"))
  props : SameKeys (s.get? (skey "properties")) (s'.get? (skey "properties"))
  pprops : SameKeys (s.get? (skey "patternProperties")) (s'.get? (skey "patternProperties"))
  items : ItemsRel (s.get? (skey "items")) (s'.get? (skey "items"))
  exMin : s.get? (skey "exclusiveMinimum") = s'.get? (skey "exclusiveMinimum")
  exMax : s.get? (skey "exclusiveMaximum") = s'.get? (skey "exclusiveMaximum")

theorem consulted_keys (d : Draft) :
    skey "then" ∉ schemaArrayKeys d ∧ skey "then" ∉ schemaMapKeys d
    ∧ skey "else" ∉ schemaArrayKeys d ∧ skey "else" ∉ schemaMapKeys d
    ∧ skey "properties" ∉ schemaKeys d ∧ skey "properties" ∉ schemaArrayKeys d
    ∧ skey "patternProperties" ∉ schemaKeys d ∧ skey "patternProperties" ∉ schemaArrayKeys d
    ∧ skey "items" ∉ schemaMapKeys d := by
  cases d <;> decide +kernel

theorem consulted_mem :
    skey "then" ∈ consulted ∧ skey "else" ∈ consulted ∧ skey "properties" ∈ consulted
    ∧ skey "patternProperties" ∈ consulted ∧ skey "items" ∈ consulted
    ∧ skey "exclusiveMinimum" ∈ consulted ∧ skey "exclusiveMaximum" ∈ consulted := by
  decide +kernel

theorem sameKeys_of_insVal {d : Draft} {c : Str} (h1 : c ∉ schemaKeys d) (h2 : c ∉ schemaArrayKeys d)
    {o o' : Option Json} (h : OptRel (InsVal d c) o o') : SameKeys o o' := by
  cases h with
  | none => exact ⟨rfl, rfl⟩
  | some hv =>
    cases hv with
    | same => exact ⟨rfl, rfl⟩
    | schema _ _ _ hm _ => exact absurd hm h1
    | schemas _ _ _ hm _ => exact absurd hm h2
    | schemaMap _ ms ms' _ hmap =>
      refine ⟨rfl, ?_⟩
      show some (ms.map (·.1)) = some (ms'.map (·.1))
      rw [insMap_keys ms ms' hmap]

theorem itemsRel_of_insVal {d : Draft} {c : Str} (h3 : c ∉ schemaMapKeys d)
    {o o' : Option Json} (h : OptRel (InsVal d c) o o') : ItemsRel o o' := by
  cases h with
  | none => exact .same _
  | some hv =>
    cases hv with
    | same => exact .same _
    | schema _ _ _ _ hi =>
      cases hi with
      | same => exact .same _
      | obj _ => exact .obj _ _
    | schemas _ vs vs' _ hl => exact .arr (insList_length vs vs' hl)
    | schemaMap _ _ _ hm _ => exact absurd hm h3

theorem sibRel_of_insMembers {d : Draft} {kvs kvs' : List (Str × Json)} (h : InsMembers d kvs kvs')
    (hn : noRef (.obj kvs) = true) : SibRel d (.obj kvs) (.obj kvs') := by
  have hc := consulted_keys d
  have hm := consulted_mem
  have L := fun (c : Str) (hc : c ∈ consulted) => lookup_insMembers (not_inert_consulted d hc) kvs' kvs h
  have toN : ∀ c, c ∈ consulted → c ∉ schemaArrayKeys d → c ∉ schemaMapKeys d →
      OptRel (InsN d) (Json.lookup c kvs) (Json.lookup c kvs') := by
    intro c hcm h2 h3
    refine OptRel.imp (fun a b hab => ?_) (OptRel.and_left (L c hcm) (Q := fun a => noRef a = true)
      (fun a ha => noRef_lookup hn ha))
    exact ⟨insVal_ins hab.1 h2 h3, hab.2⟩
  exact
    { then_ := toN _ hm.1 hc.1 hc.2.1
      else_ := toN _ hm.2.1 hc.2.2.1 hc.2.2.2.1
      props := sameKeys_of_insVal hc.2.2.2.2.1 hc.2.2.2.2.2.1 (L _ hm.2.2.1)
      pprops := sameKeys_of_insVal hc.2.2.2.2.2.2.1 hc.2.2.2.2.2.2.2.1 (L _ hm.2.2.2.1)
      items := itemsRel_of_insVal hc.2.2.2.2.2.2.2.2 (L _ hm.2.2.2.2.1)
      exMin := (lookup_insMembers_eq (not_inert_consulted d hm.2.2.2.2.2.1) (exclusive_not_keys d).1.1
        (exclusive_not_keys d).1.2.1 (exclusive_not_keys d).1.2.2 h).symm
      exMax := (lookup_insMembers_eq (not_inert_consulted d hm.2.2.2.2.2.2) (exclusive_not_keys d).2.1
        (exclusive_not_keys d).2.2.1 (exclusive_not_keys d).2.2.2 h).symm }

/-! ### the dispatcher -/

/-- keyword functions whose value is a subschema (when it is an object) -/
def _root_.JS.KwFn.okSchema : KwFn → Bool
  | .additionalItems | .additionalProperties | .contains | .not_ | .if_ | .items | .propertyNames
  | .extends_draft3 | .items_draft3_draft4 => true
  | _ => false

/-- keyword functions whose value is an array of subschemas -/
def _root_.JS.KwFn.okArr : KwFn → Bool
  | .allOf | .anyOf | .oneOf | .items | .items_draft3_draft4 | .extends_draft3 | .type_draft3
  | .disallow_draft3 => true
  | _ => false

/-- keyword functions whose value maps names to subschemas -/
def _root_.JS.KwFn.okMap : KwFn → Bool
  | .properties | .patternProperties | .dependencies | .dependencies_draft3 | .properties_draft3 => true
  | _ => false

/-- how the values of a kept member may differ, for the function `f` its key is bound to -/
def ValCase (d : Draft) (f : KwFn) (v v' : Json) : Prop :=
  v = v'
  ∨ (f.okSchema = true ∧ Ins d v v')
  ∨ (f.okArr = true ∧ (f = .disallow_draft3 → skey "type" ∈ schemaArrayKeys d)
      ∧ ∃ vs vs', v = .arr vs ∧ v' = .arr vs' ∧ InsList d vs vs')
  ∨ (f.okMap = true ∧ ∃ ms ms', v = .obj ms ∧ v' = .obj ms' ∧ InsMap d ms ms')

theorem valCase_data {d : Draft} {f : KwFn} {v v' : Json} (h1 : f.okSchema = false) (h2 : f.okArr = false)
    (h3 : f.okMap = false) (h : ValCase d f v v') : v = v' := by
  rcases h with h | ⟨h, _⟩ | ⟨h, _⟩ | ⟨h, _⟩
  · exact h
  · rw [h1] at h; cases h
  · rw [h2] at h; cases h
  · rw [h3] at h; cases h

theorem valCase_sch {d : Draft} {f : KwFn} {v v' : Json} (h2 : f.okArr = false)
    (h3 : f.okMap = false) (h : ValCase d f v v') (hn : noRef v = true) : InsN d v v' := by
  rcases h with h | ⟨_, h⟩ | ⟨h, _⟩ | ⟨h, _⟩
  · exact h ▸ InsN.refl hn
  · exact ⟨h, hn⟩
  · rw [h2] at h; cases h
  · rw [h3] at h; cases h

theorem valCase_items {d : Draft} {f : KwFn} {v v' : Json}
    (h3 : f.okMap = false) (h : ValCase d f v v') (hn : noRef v = true) : ItemsVal d v v' := by
  rcases h with h | ⟨_, h⟩ | ⟨_, _, vs, vs', rfl, rfl, h⟩ | ⟨h, _⟩
  · exact .inl (h ▸ InsN.refl hn)
  · exact .inl ⟨h, hn⟩
  · exact .inr ⟨vs, vs', rfl, rfl, insList_all₂ vs vs' h hn⟩
  · rw [h3] at h; cases h

theorem insArrN_refl {d : Draft} {v : Json} (hn : noRef v = true) : InsArrN d v v := by
  cases v
  case arr vs => exact .arr (all₂_insN_refl hn)
  all_goals exact .other _ rfl

theorem insMapN_refl {d : Draft} {v : Json} (hn : noRef v = true) : InsMapN d v v := by
  cases v
  case obj ms => exact .map (all₂_entN_refl hn)
  all_goals exact .other _ rfl

theorem valCase_arr {d : Draft} {f : KwFn} {v v' : Json} (h1 : f.okSchema = false)
    (h3 : f.okMap = false) (h : ValCase d f v v') (hn : noRef v = true) : InsArrN d v v' := by
  rcases h with h | ⟨h, _⟩ | ⟨_, _, vs, vs', rfl, rfl, h⟩ | ⟨h, _⟩
  · exact h ▸ insArrN_refl hn
  · rw [h1] at h; cases h
  · exact .arr (insList_all₂ vs vs' h hn)
  · rw [h3] at h; cases h

theorem valCase_map {d : Draft} {f : KwFn} {v v' : Json} (h1 : f.okSchema = false)
    (h2 : f.okArr = false) (h : ValCase d f v v') (hn : noRef v = true) : InsMapN d v v' := by
  rcases h with h | ⟨h, _⟩ | ⟨h, _⟩ | ⟨_, ms, ms', rfl, rfl, h⟩
  · exact h ▸ insMapN_refl hn
  · rw [h1] at h; cases h
  · rw [h2] at h; cases h
  · exact .map (insMap_all₂ ms ms' h hn)

theorem noRef_typeObj {a : Json} (ha : noRef a = true) : noRef (.obj [(skey "type", .arr [a])]) = true := by
  simp only [noRef, noRef.noRefKvs, noRef.noRefList, ha, Bool.and_true, bne_iff_ne, ne_eq]
  decide

theorem valCase_disallow {d : Draft} {v v' : Json} (h : ValCase d .disallow_draft3 v v') (hn : noRef v = true) :
    v = v' ∨ ∃ vs vs', v = .arr vs ∧ v' = .arr vs' ∧
      All₂ (fun a b => InsN d (.obj [(skey "type", .arr [a])]) (.obj [(skey "type", .arr [b])])) vs vs' := by
  rcases h with h | ⟨h, _⟩ | ⟨_, ht, vs, vs', rfl, rfl, h⟩ | ⟨h, _⟩
  · exact .inl h
  · cases h
  · refine .inr ⟨vs, vs', rfl, rfl, ?_⟩
    refine All₂.imp (fun a b hab => ?_) (insList_all₂ vs vs' h hn)
    exact ⟨.obj (.keep _ _ _ (.schemas _ _ _ (ht rfl) (.cons _ _ hab.1 .nil)) .nil), noRef_typeObj hab.2⟩
  · cases h

theorem applyKw_simD {d : Draft} {rec rec' : Rec} (hrec : RecRel d rec rec') (env : Env) (impl : FmtImpl)
    (cfg : Cfg) (hty : TyOK cfg) (f : KwFn) (hf : f ≠ .ref) {v v' : Json} (hv : ValCase d f v v')
    (hn : noRef v = true) (inst : Json) {s s' : Json} (hs : SibRel d s s') :
    SimD (applyKw env impl cfg rec f v inst s) (applyKw env impl cfg rec' f v' inst s') := by
  cases f
  case ref => exact absurd rfl hf
  case additionalItems => exact kwAdditionalItems_simD hrec cfg hty (valCase_sch rfl rfl hv hn) inst hs.items
  case additionalProperties =>
    exact kwAdditionalProperties_simD hrec env cfg hty (valCase_sch rfl rfl hv hn) inst hs.props hs.pprops
  case contains => exact kwContains_simD hrec cfg (valCase_sch rfl rfl hv hn) inst
  case not_ => exact kwNot_simD hrec (valCase_sch rfl rfl hv hn) inst
  case if_ => exact kwIf_simD hrec (valCase_sch rfl rfl hv hn) inst hs.then_ hs.else_
  case propertyNames => exact kwPropertyNames_simD hrec cfg (valCase_sch rfl rfl hv hn) inst
  case items => exact kwItems_simD hrec cfg hty (valCase_items rfl hv hn) inst
  case items_draft3_draft4 => exact kwItemsDraft3Draft4_simD hrec cfg hty (valCase_items rfl hv hn) inst
  case extends_draft3 => exact kwExtendsDraft3_simD hrec cfg hty (valCase_items rfl hv hn) inst
  case allOf => exact kwAllOf_simD hrec (valCase_arr rfl rfl hv hn) inst
  case anyOf => exact kwAnyOf_simD hrec (valCase_arr rfl rfl hv hn) inst
  case oneOf => exact kwOneOf_simD hrec (valCase_arr rfl rfl hv hn) inst
  case type_draft3 => exact kwTypeDraft3_simD hrec cfg (valCase_arr rfl rfl hv hn) inst
  case disallow_draft3 => exact kwDisallowDraft3_simD hrec inst (valCase_disallow hv hn) hn
  case properties => exact kwProperties_simD hrec cfg (valCase_map rfl rfl hv hn) inst
  case patternProperties => exact kwPatternProperties_simD hrec env cfg (valCase_map rfl rfl hv hn) inst
  case dependencies => exact kwDependencies_simD hrec cfg (valCase_map rfl rfl hv hn) inst
  case dependencies_draft3 => exact kwDependenciesDraft3_simD hrec cfg hty (valCase_map rfl rfl hv hn) inst
  case properties_draft3 => exact kwPropertiesDraft3_simD hrec cfg (valCase_map rfl rfl hv hn) inst s s'
  case minimum_draft3_draft4 =>
    cases valCase_data rfl rfl rfl hv
    exact kwMinimumDraft3Draft4_simD cfg v inst hs.exMin
  case maximum_draft3_draft4 =>
    cases valCase_data rfl rfl rfl hv
    exact kwMaximumDraft3Draft4_simD cfg v inst hs.exMax
  all_goals
    cases valCase_data rfl rfl rfl hv
    exact SimD.refl _

/-! ### the drafts' tables bind the subschema-carrying keys to functions of the right kind -/

theorem tbl_schema (d : Draft) :
    (schemaKeys d).all (fun key => match lookupS key d.keywords with
      | some f => f.okSchema | none => true) = true := by
  cases d <;> decide +kernel

theorem tbl_arr (d : Draft) :
    (schemaArrayKeys d).all (fun key => match lookupS key d.keywords with
      | some f => f.okArr && decide (f = .disallow_draft3 → skey "type" ∈ schemaArrayKeys d)
      | none => true) = true := by
  cases d <;> decide +kernel

theorem tbl_map (d : Draft) :
    (schemaMapKeys d).all (fun key => match lookupS key d.keywords with
      | some f => f.okMap | none => true) = true := by
  cases d <;> decide +kernel

theorem tbl_ref (d : Draft) :
    d.keywords.all (fun kf => decide (kf.2 = .ref → kf.1 = skey "$ref")) = true := by
  cases d <;> decide +kernel

theorem lookupS_mem {α : Type} {k : Str} {a : α} : ∀ {l : List (Str × α)}, lookupS k l = some a → (k, a) ∈ l
  | [], h => by cases h
  | (k', w) :: l, h => by
    unfold lookupS at h
    by_cases hk : k' = k
    · rw [if_pos hk] at h
      cases h; subst hk; exact List.mem_cons_self ..
    · rw [if_neg hk] at h
      exact List.mem_cons_of_mem _ (lookupS_mem h)

theorem valCase_of_insVal {d : Draft} {key : Str} {f : KwFn} {v v' : Json}
    (hf : lookupS key d.keywords = some f) (hv : InsVal d key v v') : ValCase d f v v' := by
  cases hv with
  | same => exact .inl rfl
  | schema _ _ _ hm hi =>
    have := List.all_eq_true.mp (tbl_schema d) key hm
    rw [hf] at this
    exact .inr (.inl ⟨this, hi⟩)
  | schemas _ vs vs' hm hl =>
    have := List.all_eq_true.mp (tbl_arr d) key hm
    rw [hf] at this
    simp only [Bool.and_eq_true, decide_eq_true_eq] at this
    exact .inr (.inr (.inl ⟨this.1, this.2, vs, vs', rfl, rfl, hl⟩))
  | schemaMap _ ms ms' hm hl =>
    have := List.all_eq_true.mp (tbl_map d) key hm
    rw [hf] at this
    exact .inr (.inr (.inr ⟨this, ms, ms', rfl, rfl, hl⟩))

theorem tyOK_draft (d : Draft) (fc : Option FormatChecker) : TyOK (d.cfg fc) := by
  have h : lookupS (skey "object") d.types = some .isObject ∧ lookupS (skey "array") d.types = some .isArray := by
    cases d <;> decide +kernel
  constructor <;> intro v
  · show (match lookupS (skey "object") d.types with
          | some f => Res.ok (f.apply v) | none => .raise (.unknownType (.str (skey "object")))) = _
    rw [h.1]; rfl
  · show (match lookupS (skey "array") d.types with
          | some f => Res.ok (f.apply v) | none => .raise (.unknownType (.str (skey "array")))) = _
    rw [h.2]; rfl

/-! ### the keyword loop, one layer, the whole evaluation -/

section Loop
variable {d : Draft} {rec rec' : Rec} (hrec : RecRel d rec rec') (env : Env) (impl : FmtImpl)
  (fc : Option FormatChecker) (inst : Json)
include hrec

theorem runKeyword_simD {key : Str} {v v' : Json} (hv : InsVal d key v v') (hn : noRef v = true)
    (hkey : key ≠ skey "$ref") {s s' : Json} (hs : SibRel d s s') :
    SimD (runKeyword env impl (d.cfg fc) rec inst s (key, v))
         (runKeyword env impl (d.cfg fc) rec' inst s' (key, v')) := by
  unfold runKeyword
  show SimD (match lookupS key d.keywords with | none => _ | some f => _)
            (match lookupS key d.keywords with | none => _ | some f => _)
  cases hl : lookupS key d.keywords with
  | none => exact SimD.refl _
  | some f =>
    have hfr : f ≠ .ref := by
      intro e
      have := List.all_eq_true.mp (tbl_ref d) _ (lookupS_mem hl)
      simp only [decide_eq_true_eq] at this
      exact hkey (this e)
    exact SimD.mapErrs (applyKw_simD hrec env impl (d.cfg fc) (tyOK_draft d fc) f hfr
      (valCase_of_insVal hl hv) hn inst hs) (fun e e' h => eraseDeep_stamp _ _ _ _ _ _ e e' h)

theorem seqG_insMembers {s s' : Json} (hs : SibRel d s s') :
    ∀ (kvs' kvs : List (Str × Json)), InsMembers d kvs kvs' → noRef (.obj kvs) = true →
      SimD (seqG (runKeyword env impl (d.cfg fc) rec inst s) kvs)
           (seqG (runKeyword env impl (d.cfg fc) rec' inst s') kvs')
  | [], _, h, _ => by cases h; exact SimD.refl _
  | (k, v') :: kvs', kvs, h, hn => by
    cases h with
    | insert _ _ hin hrest =>
      show SimD _ (andThen (runKeyword env impl (d.cfg fc) rec' inst s' (k, v')) (seqG _ kvs'))
      rw [runKeyword_unknown env impl (d.cfg fc) rec' inst s' k v' hin.1, andThen_nothing_left]
      exact seqG_insMembers hs kvs' kvs hrest hn
    | @keep kvs0 _ _ v _ hval hrest =>
      have hm := noRef_obj_mem hn (k, v) (List.mem_cons_self ..)
      exact SimD.andThen (runKeyword_simD hrec env impl fc inst hval hm.2 hm.1 hs)
        (seqG_insMembers hs kvs' kvs0 hrest (noRef_obj_tail hn))

end Loop

theorem insMembers_refl (d : Draft) : ∀ kvs : List (Str × Json), InsMembers d kvs kvs
  | [] => .nil
  | (k, v) :: kvs => .keep k v v (.same k v) (insMembers_refl d kvs)

theorem evalStep_simD {d : Draft} {rec rec' : Rec} (hrec : RecRel d rec rec') (env : Env) (impl : FmtImpl)
    (fc : Option FormatChecker) : RecRel d (evalStep env impl (d.cfg fc) rec) (evalStep env impl (d.cfg fc) rec') := by
  intro inst s s' hss
  obtain ⟨hi, hn⟩ := hss
  have main : ∀ kvs kvs', InsMembers d kvs kvs' → noRef (.obj kvs) = true →
      SimD (evalStep env impl (d.cfg fc) rec inst (.obj kvs)) (evalStep env impl (d.cfg fc) rec' inst (.obj kvs')) := by
    intro kvs kvs' hm hn
    show SimD (match scopeOf (d.cfg fc) kvs with
               | .ok scope => withScopeOpt env scope (schemaBody env impl (d.cfg fc) rec inst kvs)
               | .error cls => crashG cls)
              (match scopeOf (d.cfg fc) kvs' with
               | .ok scope => withScopeOpt env scope (schemaBody env impl (d.cfg fc) rec' inst kvs')
               | .error cls => crashG cls)
    rw [scopeOf_insMembers d fc hm]
    cases scopeOf (d.cfg fc) kvs with
    | error cls => exact SimD.refl _
    | ok scope =>
      refine SimD.withScopeOpt env scope ?_
      have hr := noRef_lookup_ref hn
      have hr' : Json.lookup (skey "$ref") kvs' = none :=
        (lookup_insMembers_eq (not_inert_ref d) (ref_not_keys d).1 (ref_not_keys d).2.1 (ref_not_keys d).2.2 hm).trans hr
      unfold schemaBody
      rw [hr, hr']
      exact seqG_insMembers hrec env impl fc inst (sibRel_of_insMembers hm hn) kvs' kvs hm hn
  cases hi with
  | same =>
    cases s
    case obj kvs => exact main _ _ (insMembers_refl d _) hn
    case bool b => cases b <;> exact SimD.refl _
    all_goals exact SimD.refl _
  | obj hm => exact main _ _ hm hn

theorem eval_recRel (d : Draft) (env : Env) (impl : FmtImpl) (fc : Option FormatChecker) :
    ∀ fuel, RecRel d (eval env impl (d.cfg fc) fuel) (eval env impl (d.cfg fc) fuel)
  | 0 => fun _ _ _ _ => SimD.refl _
  | n + 1 => evalStep_simD (eval_recRel d env impl fc n) env impl fc

end Nested
end JS
