/- Helper lemmas for C10 `nested_unknown_inert_refs`: insertion of inert keys at nested subschema
   positions (`Spec.Ins`) in schemas WITH references.  The two runs start from resolver states that
   hold `Ins`-related documents (`Spec.InsState`); the simulation `SimR` threads a state RELATION
   (where `Nested.SimD` of JS/Proofs/InertNested.lean threads one state); the new part is what
   `resolve` does to two related states (`resolve_rel`), under the guard `Spec.Lands`. -/
import JS.Proofs.InertNested
import JS.Proofs.Ref
import JS.Spec.InsertionRefs
namespace JS
open Spec
namespace NestedRefs
open Nested

/-! ### the reference strings of a document -/

theorem refsOfList_mem : ∀ {xs : List Json} {x : Json}, x ∈ xs → ∀ r ∈ refsOf x, r ∈ refsOf.refsOfList xs
  | y :: ys, x, hx, r, hr => by
    simp only [refsOf.refsOfList, List.mem_append]
    cases hx with
    | head => exact .inl hr
    | tail _ hx => exact .inr (refsOfList_mem hx r hr)

theorem refsOfKvs_mem : ∀ {kvs : List (Str × Json)} {kv : Str × Json}, kv ∈ kvs →
    ∀ r ∈ refsOf kv.2, r ∈ refsOf.refsOfKvs kvs
  | (c, w) :: rest, kv, hx, r, hr => by
    simp only [refsOf.refsOfKvs, List.mem_append]
    cases hx with
    | head => exact .inr (.inl hr)
    | tail _ hx => exact .inr (.inr (refsOfKvs_mem hx r hr))

theorem refsOfKvs_ref : ∀ {kvs : List (Str × Json)} {r : Str}, (skey "$ref", Json.str r) ∈ kvs →
    r ∈ refsOf.refsOfKvs kvs
  | (c, w) :: rest, r, hx => by
    simp only [refsOf.refsOfKvs, List.mem_append]
    cases hx with
    | head => exact .inl (by rw [if_pos (show skey "$ref" = k "$ref" from rfl)]; exact List.mem_cons_self ..)
    | tail _ hx => exact .inr (.inr (refsOfKvs_ref hx))

section RefsIn
variable {G : Str → Prop}

theorem _root_.JS.Spec.RefsIn.arr_mem {xs : List Json} (h : RefsIn G (.arr xs)) : ∀ x ∈ xs, RefsIn G x :=
  fun _ hx r hr => h r (by unfold refsOf; exact refsOfList_mem hx r hr)

theorem _root_.JS.Spec.RefsIn.obj_mem {kvs : List (Str × Json)} (h : RefsIn G (.obj kvs)) : ∀ kv ∈ kvs, RefsIn G kv.2 :=
  fun _ hx r hr => h r (by unfold refsOf; exact refsOfKvs_mem hx r hr)

theorem _root_.JS.Spec.RefsIn.obj_ref {kvs : List (Str × Json)} (h : RefsIn G (.obj kvs)) {r : Str}
    (hm : (skey "$ref", Json.str r) ∈ kvs) : G r :=
  h r (by unfold refsOf; exact refsOfKvs_ref hm)

theorem _root_.JS.Spec.RefsIn.arr_of_mem {xs : List Json} (h : ∀ x ∈ xs, RefsIn G x) : RefsIn G (.arr xs) := by
  intro r hr
  unfold refsOf at hr
  induction xs with
  | nil => cases hr
  | cons y ys ih =>
    simp only [refsOf.refsOfList, List.mem_append] at hr
    rcases hr with hr | hr
    · exact h y (List.mem_cons_self ..) r hr
    · exact ih (fun x hx => h x (List.mem_cons_of_mem _ hx)) hr

theorem _root_.JS.Spec.RefsIn.arr_tail {x : Json} {xs : List Json} (h : RefsIn G (.arr (x :: xs))) : RefsIn G (.arr xs) :=
  RefsIn.arr_of_mem fun y hy => h.arr_mem y (List.mem_cons_of_mem _ hy)

theorem _root_.JS.Spec.RefsIn.obj_tail {kv : Str × Json} {kvs : List (Str × Json)} (h : RefsIn G (.obj (kv :: kvs))) :
    RefsIn G (.obj kvs) := by
  intro r hr
  apply h r
  obtain ⟨c, w⟩ := kv
  unfold refsOf at hr ⊢
  simp only [refsOf.refsOfKvs, List.mem_append]
  exact .inr (.inr hr)

theorem _root_.JS.Spec.RefsIn.lookup {c : Str} {v : Json} {kvs : List (Str × Json)} (h : RefsIn G (.obj kvs))
    (hl : Json.lookup c kvs = some v) : RefsIn G v :=
  h.obj_mem _ (lookup_mem hl)

theorem _root_.JS.Spec.RefsIn.typeObj {a : Json} (h : RefsIn G a) : RefsIn G (.obj [(skey "type", .arr [a])]) := by
  intro r hr
  apply h r
  simp only [refsOf, refsOf.refsOfKvs, refsOf.refsOfList, List.append_nil, List.mem_append] at hr
  rcases hr with hr | hr
  · rw [if_neg (by decide)] at hr; cases hr
  · exact hr

theorem _root_.JS.Spec.RefsIn.ptrStep {doc t : Json} {tok : Str} (h : RefsIn G doc) (hs : ptrStep doc tok = some t) :
    RefsIn G t := by
  unfold JS.ptrStep at hs
  cases doc with
  | obj kvs => exact h.lookup hs
  | arr xs =>
    dsimp only at hs
    cases hi : arrayIndex? tok with
    | none => rw [hi] at hs; cases hs
    | some n =>
      rw [hi] at hs
      exact h.arr_mem t (List.mem_of_getElem? hs)
  | _ => cases hs

theorem _root_.JS.Spec.RefsIn.ptrWalk (toks : List Str) : ∀ {doc t : Json}, RefsIn G doc → ptrWalk doc toks = some t →
    RefsIn G t := by
  induction toks with
  | nil =>
    intro doc t h hw
    unfold JS.ptrWalk at hw
    cases hw; exact h
  | cons tok toks ih =>
    intro doc t h hw
    unfold JS.ptrWalk at hw
    cases hs : JS.ptrStep doc tok with
    | none => rw [hs] at hw; cases hw
    | some d =>
      rw [hs] at hw
      exact ih (h.ptrStep hs) hw

theorem _root_.JS.Spec.RefsIn.resolveFragment {doc t : Json} {frag : Str} (h : RefsIn G doc)
    (hr : resolveFragment doc frag = some t) : RefsIn G t :=
  RefsIn.ptrWalk _ h hr

end RefsIn

/-! ### the simulation up to `eraseDeep`, over a relation `SR` on resolver states -/

section Sim
variable {SR : RState → RState → Prop}

/-- two results agree on everything but what nested insertions necessarily change in errors; the
    final states are related -/
def OutSimR (SR : RState → RState → Prop) (o o' : Out) : Prop :=
  o.errs.map eraseDeep = o'.errs.map eraseDeep ∧ o.stop = o'.stop ∧ SR o.st o'.st

/-- two generators agree, for every budget and every two related states, up to `eraseDeep` -/
def SimR (SR : RState → RState → Prop) (g g' : Gen) : Prop :=
  ∀ b st st', SR st st' → OutSimR SR (g b st) (g' b st')

theorem SimR.nothing : SimR SR nothing nothing := fun _ _ _ h => ⟨rfl, rfl, h⟩

theorem SimR.stopG (s : Stop) : SimR SR (stopG s) (stopG s) := fun _ _ _ h => ⟨rfl, rfl, h⟩

theorem SimR.crashG (c : String) : SimR SR (crashG c) (crashG c) := fun _ _ _ h => ⟨rfl, rfl, h⟩

theorem SimR.andThen {g g' h h' : Gen} (hg : SimR SR g g') (hh : SimR SR h h') :
    SimR SR (andThen g h) (andThen g' h') := by
  intro b st st' hst
  have h1 := hg b st st' hst
  unfold JS.andThen
  rcases hgo : g b st with ⟨es, s, st1⟩
  rcases hgo' : g' b st' with ⟨es', s', st1'⟩
  rw [hgo, hgo'] at h1
  obtain ⟨he, hs, hst1⟩ := h1
  simp only at he hs hst1
  subst hs
  have hlen := map_eraseDeep_length he
  cases s with
  | done =>
    have h2 := hh (budgetSub b es.length) st1 st1' hst1
    dsimp only
    rw [← hlen]
    obtain ⟨he2, hs2, hst2⟩ := h2
    refine ⟨?_, hs2, hst2⟩
    show (es ++ _).map eraseDeep = (es' ++ _).map eraseDeep
    rw [List.map_append, List.map_append, he, he2]
  | budget => exact ⟨he, rfl, hst1⟩
  | raised e => exact ⟨he, rfl, hst1⟩
  | fuel => exact ⟨he, rfl, hst1⟩
  | miss q => exact ⟨he, rfl, hst1⟩

/-- `seqG` over two lists related elementwise -/
theorem SimR.seqG₂ {α α' : Type} {P : α → α' → Prop} {f : α → Gen} {f' : α' → Gen}
    (hf : ∀ x x', P x x' → SimR SR (f x) (f' x')) {xs : List α} {xs' : List α'} (h : All₂ P xs xs') :
    SimR SR (seqG f xs) (seqG f' xs') := by
  induction h with
  | nil => exact SimR.nothing
  | cons h _ ih => exact SimR.andThen (hf _ _ h) ih

theorem SimR.seqG {α : Type} {f f' : α → Gen} :
    ∀ (xs : List α), (∀ x ∈ xs, SimR SR (f x) (f' x)) → SimR SR (seqG f xs) (seqG f' xs)
  | [], _ => SimR.nothing
  | x :: xs, h =>
    SimR.andThen (h x (List.mem_cons_self ..))
      (SimR.seqG xs fun y hy => h y (List.mem_cons_of_mem _ hy))

theorem SimR.mapErrs {f f' : Err → Err} {g g' : Gen} (hg : SimR SR g g')
    (hf : ∀ e e', eraseDeep e = eraseDeep e' → eraseDeep (f e) = eraseDeep (f' e')) :
    SimR SR (mapErrs f g) (mapErrs f' g') := by
  intro b st st' hst
  obtain ⟨he, hs, hst1⟩ := hg b st st' hst
  exact ⟨map_eraseDeep_map hf he, hs, hst1⟩

theorem SimR.descendG {g g' : Gen} (p sp : Option PathElem) (hg : SimR SR g g') :
    SimR SR (descendG g p sp) (descendG g' p sp) := by
  unfold JS.descendG
  refine SimR.mapErrs hg fun e e' h => ?_
  cases p <;> cases sp <;>
    simp only [eraseDeep_consPath, eraseDeep_consSchemaPath, h]

theorem SimR.inner {g g' : Gen} (b' : Option Nat) {k k' : List Err → Gen} (hg : SimR SR g g')
    (hk : ∀ es es', es.map eraseDeep = es'.map eraseDeep → SimR SR (k es) (k' es')) :
    SimR SR (inner g b' k) (inner g' b' k') := by
  intro b st st' hst
  have h1 := hg b' st st' hst
  unfold JS.inner
  rcases hgo : g b' st with ⟨es, s, st1⟩
  rcases hgo' : g' b' st' with ⟨es', s', st1'⟩
  rw [hgo, hgo'] at h1
  obtain ⟨he, hs, hst1⟩ := h1
  simp only at he hs hst1
  subst hs
  cases s with
  | done => exact hk es es' he b st1 st1' hst1
  | budget => exact hk es es' he b st1 st1' hst1
  | raised e => exact ⟨rfl, rfl, hst1⟩
  | fuel => exact ⟨rfl, rfl, hst1⟩
  | miss q => exact ⟨rfl, rfl, hst1⟩

theorem SimR.innerValid {g g' : Gen} {k k' : Bool → Gen} (hg : SimR SR g g')
    (hk : ∀ ok, SimR SR (k ok) (k' ok)) : SimR SR (innerValid g k) (innerValid g' k') := by
  unfold JS.innerValid
  refine SimR.inner _ hg fun es es' h => ?_
  rw [map_eraseDeep_isEmpty h]
  exact hk _

/-- what `withScope` needs of the state relation: it implies equal scope stacks and does not
    depend on them -/
structure ScopeCompat (SR : RState → RState → Prop) : Prop where
  scopes : ∀ {st st'}, SR st st' → st.scopes = st'.scopes
  set : ∀ {st st'} (x : List Str), SR st st' → SR { st with scopes := x } { st' with scopes := x }

theorem SimR.withScope (hc : ScopeCompat SR) (env : Env) (scope : Str) {g g' : Gen} (hg : SimR SR g g') :
    SimR SR (withScope env scope g) (withScope env scope g') := by
  intro b st st' hst
  unfold JS.withScope
  have hsc := hc.scopes hst
  have htop : st'.top = st.top := by unfold RState.top; rw [hsc]
  rw [htop]
  cases env.urljoin st.top scope with
  | none => exact ⟨rfl, rfl, hst⟩
  | some u =>
    have h0 : SR { st with scopes := u :: st.scopes } { st' with scopes := u :: st'.scopes } := by
      rw [← hsc]; exact hc.set _ hst
    obtain ⟨he, hs, hst1⟩ := hg b _ _ h0
    dsimp only
    refine ⟨he, hs, ?_⟩
    dsimp only
    rw [← hc.scopes hst1]
    exact hc.set _ hst1

theorem SimR.withScopeOpt (hc : ScopeCompat SR) (env : Env) (scope : Option Str) {g g' : Gen}
    (hg : SimR SR g g') : SimR SR (withScopeOpt env scope g) (withScopeOpt env scope g') := by
  cases scope with
  | none => exact hg
  | some s => exact SimR.withScope hc env s hg

theorem SimR.withRes {α : Type} (r : Res α) {k k' : α → Gen} (hk : ∀ a, SimR SR (k a) (k' a)) :
    SimR SR (withRes r k) (withRes r k') := by
  cases r with
  | ok a => exact hk a
  | raise e => exact SimR.stopG _
  | miss q => exact SimR.stopG _

theorem SimR.gate (cfg : Cfg) (inst : Json) (name : String) {k k' : Gen} (hk : SimR SR k k') :
    SimR SR (gate cfg inst name k) (gate cfg inst name k') := by
  unfold JS.gate
  refine SimR.withRes _ fun ok => ?_
  cases ok
  · exact SimR.nothing
  · exact hk

theorem SimR.emit {es es' : List Err} (h : es.map eraseDeep = es'.map eraseDeep) :
    SimR SR (emit es) (emit es') := by
  intro b st st' hst
  have hlen := map_eraseDeep_length h
  unfold JS.emit
  cases b with
  | none => exact ⟨h, rfl, hst⟩
  | some k =>
    dsimp only
    rw [hlen]
    by_cases hk : es'.length < k
    · rw [if_pos hk, if_pos hk]; exact ⟨h, rfl, hst⟩
    · rw [if_neg hk, if_neg hk]
      refine ⟨?_, rfl, hst⟩
      show (es.take k).map eraseDeep = (es'.take k).map eraseDeep
      rw [List.map_take, List.map_take, h]

/-- one fresh error on each side, same cause, contexts equal up to `eraseDeep` -/
theorem SimR.emit_fresh (t t' : String) (a a' : List Json) (ctx ctx' : List Err) (c : Option String)
    (h : ctx.map eraseDeep = ctx'.map eraseDeep) :
    SimR SR (JS.emit [Err.fresh t a ctx c]) (JS.emit [Err.fresh t' a' ctx' c]) :=
  SimR.emit (by simp only [List.map_cons, List.map_nil, eraseDeep_fresh t t' a a' ctx ctx' c h])

theorem SimR.ite {c : Prop} [Decidable c] {g g' h h' : Gen} (hg : SimR SR g g') (hh : SimR SR h h') :
    SimR SR (if c then g else h) (if c then g' else h') := by
  split
  · exact hg
  · exact hh

end Sim

/-- one step of the syntax-directed proof of `SimR SR g g` for a generator `g` that never touches
    the resolver state -/
macro "simr_step" : tactic => `(tactic| first
  | with_reducible exact SimR.nothing
  | with_reducible exact SimR.emit rfl
  | with_reducible exact SimR.crashG _
  | with_reducible exact SimR.stopG _
  | with_reducible assumption
  | simp only [withRes_ok, ↓reduceIte, Bool.false_eq_true]
  | with_reducible refine SimR.descendG _ _ ?_
  | with_reducible refine SimR.gate _ _ _ ?_
  | with_reducible refine SimR.withRes _ fun _ => ?_
  | with_reducible refine SimR.seqG _ fun _ _ => ?_
  | with_reducible refine SimR.mapErrs ?_ fun _ _ h => h
  | contradiction
  | unfold depArray
  | split)

/-- `SimR SR g g` for a state-passive `g` -/
macro "simr_refl" : tactic => `(tactic| (repeat simr_step))

/-! ### association lists related by `InsMap` -/

section Maps
variable {d : Draft}

theorem insMap_refl (d : Draft) : ∀ l : List (Str × Json), InsMap d l l
  | [] => .nil
  | (c, v) :: l => .cons c v v (.same v) (insMap_refl d l)

theorem insMap_lookup {c : Str} : ∀ {l l' : List (Str × Json)}, InsMap d l l' →
    OptRel (Ins d) (Json.lookup c l) (Json.lookup c l')
  | _, _, .nil => .none
  | _, _, .cons name v v' hv hrest => by
    show OptRel _ (if name = c then some v else _) (if name = c then some v' else _)
    by_cases hk : name = c
    · rw [if_pos hk, if_pos hk]; exact .some hv
    · rw [if_neg hk, if_neg hk]; exact insMap_lookup hrest

theorem insMap_filter (p : Str → Bool) : ∀ {l l' : List (Str × Json)}, InsMap d l l' →
    InsMap d (l.filter fun kv => p kv.1) (l'.filter fun kv => p kv.1)
  | _, _, .nil => .nil
  | _, _, .cons name v v' hv hrest => by
    cases hp : p name
    · rw [List.filter_cons_of_neg (by simp [hp]), List.filter_cons_of_neg (by simp [hp])]
      exact insMap_filter p hrest
    · rw [List.filter_cons_of_pos (by simp [hp]), List.filter_cons_of_pos (by simp [hp])]
      exact .cons _ _ _ hv (insMap_filter p hrest)

theorem insMap_take : ∀ (n : Nat) {l l' : List (Str × Json)}, InsMap d l l' → InsMap d (l.take n) (l'.take n)
  | 0, _, _, _ => .nil
  | _ + 1, _, _, .nil => .nil
  | n + 1, _, _, .cons name v v' hv hrest => .cons _ _ _ hv (insMap_take n hrest)

theorem insMap_storeSet (key : Str) (doc : Json) : ∀ {l l' : List (Str × Json)}, InsMap d l l' →
    InsMap d (storeSet key doc l) (storeSet key doc l')
  | _, _, .nil => .cons _ _ _ (.same _) .nil
  | _, _, .cons name v v' hv hrest => by
    unfold storeSet
    by_cases hk : name = key
    · rw [if_pos hk, if_pos hk]; exact .cons _ _ _ (.same _) hrest
    · rw [if_neg hk, if_neg hk]; exact .cons _ _ _ hv (insMap_storeSet key doc hrest)

theorem insMap_memoInsert (cap : Option Nat) (url : Str) {t t' : Json} (ht : Ins d t t')
    {l l' : List (Str × Json)} (h : InsMap d l l') :
    InsMap d (memoInsert cap url t l) (memoInsert cap url t' l') := by
  unfold memoInsert
  cases cap with
  | none => exact .cons _ _ _ ht h
  | some n => exact insMap_take n (.cons _ _ _ ht h)

theorem mem_storeSet {key : Str} {doc : Json} {kv : Str × Json} : ∀ {l : List (Str × Json)},
    kv ∈ storeSet key doc l → kv = (key, doc) ∨ kv ∈ l
  | [], h => by
    unfold storeSet at h
    exact .inl (List.mem_singleton.1 h)
  | (c, w) :: l, h => by
    unfold storeSet at h
    by_cases hk : c = key
    · rw [if_pos hk] at h
      cases h with
      | head => exact .inl rfl
      | tail _ h => exact .inr (List.mem_cons_of_mem _ h)
    · rw [if_neg hk] at h
      cases h with
      | head => exact .inr (List.mem_cons_self ..)
      | tail _ h =>
        rcases mem_storeSet h with h | h
        · exact .inl h
        · exact .inr (List.mem_cons_of_mem _ h)

theorem mem_memoInsert {cap : Option Nat} {url : Str} {t : Json} {kv : Str × Json} {l : List (Str × Json)}
    (h : kv ∈ memoInsert cap url t l) : kv = (url, t) ∨ kv ∈ l := by
  unfold memoInsert at h
  have h' : kv ∈ (url, t) :: l := by
    cases cap with
    | none => exact h
    | some n => exact List.mem_of_mem_take h
  cases h' with
  | head => exact .inl rfl
  | tail _ h => exact .inr h

theorem landRel_refl (d : Draft) (o : Option Json) : LandRel d o o := by
  cases o with
  | none => exact trivial
  | some t => exact Ins.same t

end Maps

/-! ### the state relation of the two runs, and what `resolve` does to it -/

/-- the relation the simulation threads: `Ins`-related states, every reference string of the primed
    state in `G`, no reference of `G` leading into an inserted member -/
structure StR (d : Draft) (env : Env) (G : Str → Prop) (st st' : RState) : Prop where
  ins : InsState d st st'
  cov : Covered G st'
  lands : Lands d env G st.store st'.store

section Resolve
variable {d : Draft} {env : Env} {G : Str → Prop}

theorem scopeCompat_StR : ScopeCompat (StR d env G) where
  scopes := fun h => h.ins.scopes
  set := fun _ h =>
    ⟨⟨rfl, h.ins.store, h.ins.memo, h.ins.memoCap, h.ins.cacheRemote, h.ins.clock, h.ins.fetchLog⟩,
     ⟨h.cov.store, h.cov.memo⟩, h.lands⟩

/-- results of `resolve_from_url` on the two sides -/
inductive ResRel1 (d : Draft) (G : Str → Prop) : Res Json → Res Json → Prop
  | ok {t t' : Json} : Ins d t t' → RefsIn G t' → ResRel1 d G (.ok t) (.ok t')
  | raise (e : Exc) : ResRel1 d G (.raise e) (.raise e)
  | miss (q : Query) : ResRel1 d G (.miss q) (.miss q)

/-- results of `resolve` on the two sides -/
inductive ResRel (d : Draft) (G : Str → Prop) : Res (Str × Json) → Res (Str × Json) → Prop
  | ok (url : Str) {t t' : Json} : Ins d t t' → RefsIn G t' → ResRel d G (.ok (url, t)) (.ok (url, t'))
  | raise (e : Exc) : ResRel d G (.raise e) (.raise e)
  | miss (q : Query) : ResRel d G (.miss q) (.miss q)

theorem fragRes_same (hd : RefsIn G doc) (frag : Str) : ResRel1 d G (fragRes doc frag) (fragRes doc frag) := by
  unfold fragRes
  cases h : resolveFragment doc frag with
  | none => exact .raise _
  | some t => exact .ok (.same t) (hd.resolveFragment h)

/-- retrieval: the same answer on both sides (the world outside the stores is shared), related
    states afterwards -/
theorem resolveRemote_rel (hw : WorldCovered env G) {st st' : RState} (hst : StR d env G st st') (u key : Str) :
    (resolveRemote env u key st).1 = (resolveRemote env u key st').1
    ∧ StR d env G (resolveRemote env u key st).2 (resolveRemote env u key st').2
    ∧ ∀ doc, (resolveRemote env u key st).1 = .ok doc → RefsIn G doc := by
  unfold resolveRemote
  rw [← hst.ins.clock]
  cases hf : env.fetch st.clock u with
  | none => exact ⟨rfl, hst, fun _ h => by cases h⟩
  | some o =>
    cases o with
    | none =>
      refine ⟨rfl, ⟨⟨hst.ins.scopes, hst.ins.store, hst.ins.memo, hst.ins.memoCap, hst.ins.cacheRemote, ?_, ?_⟩,
        ⟨hst.cov.store, hst.cov.memo⟩, hst.lands⟩, fun _ h => by cases h⟩
      · rfl
      · show st.fetchLog ++ _ = st'.fetchLog ++ _
        rw [hst.ins.fetchLog]
    | some doc =>
      have hdoc : RefsIn G doc := hw _ _ _ hf
      refine ⟨rfl, ⟨⟨hst.ins.scopes, ?_, hst.ins.memo, hst.ins.memoCap, hst.ins.cacheRemote, ?_, ?_⟩,
        ⟨?_, hst.cov.memo⟩, ?_⟩, fun doc' h => by cases h; exact hdoc⟩
      · show InsMap d (if st.cacheRemote then _ else _) (if st'.cacheRemote then _ else _)
        rw [← hst.ins.cacheRemote]
        split
        · exact insMap_storeSet key doc hst.ins.store
        · exact hst.ins.store
      · rfl
      · show st.fetchLog ++ _ = st'.fetchLog ++ _
        rw [hst.ins.fetchLog]
      · show ∀ kv ∈ (if st'.cacheRemote then storeSet key doc st'.store else st'.store), RefsIn G kv.2
        split
        · intro kv hkv
          rcases mem_storeSet hkv with rfl | h
          · exact hdoc
          · exact hst.cov.store kv h
        · exact hst.cov.store
      · show Lands d env G (if st.cacheRemote then _ else _) (if st'.cacheRemote then _ else _)
        rw [← hst.ins.cacheRemote]
        split
        · intro r hr scope url u1 frag key1 doc1 doc1' hj hdf hn hl hl'
          by_cases hk : key1 = key
          · subst hk
            rw [lookup_storeSet_self] at hl hl'
            cases hl; cases hl'
            exact landRel_refl d _
          · rw [lookup_storeSet_ne hk] at hl hl'
            exact hst.lands r hr scope url u1 frag key1 doc1 doc1' hj hdf hn hl hl'
        · exact hst.lands

theorem resolveFromUrl_rel (hw : WorldCovered env G) {st st' : RState} (hst : StR d env G st st')
    {r scope url : Str} (hr : G r) (hj : env.urljoin scope r = some url) :
    ResRel1 d G (resolveFromUrl env url st).1 (resolveFromUrl env url st').1
    ∧ StR d env G (resolveFromUrl env url st).2 (resolveFromUrl env url st').2 := by
  unfold resolveFromUrl
  cases hdf : env.urldefrag url with
  | none => exact ⟨.miss _, hst⟩
  | some p =>
    obtain ⟨u, frag⟩ := p
    dsimp only
    cases hn : env.urinorm u with
    | none => exact ⟨.miss _, hst⟩
    | some key =>
      dsimp only
      have hl := insMap_lookup (c := key) hst.ins.store
      cases h1 : Json.lookup key st.store with
      | some doc =>
        cases h1' : Json.lookup key st'.store with
        | none => rw [h1, h1'] at hl; cases hl
        | some doc' =>
          dsimp only
          refine ⟨?_, hst⟩
          have hland := hst.lands r hr scope url u frag key doc doc' hj hdf hn h1 h1'
          have hdoc' : RefsIn G doc' := hst.cov.store _ (lookup_mem h1')
          unfold fragRes
          cases h2 : resolveFragment doc frag with
          | none =>
            cases h2' : resolveFragment doc' frag with
            | none => exact .raise _
            | some t' => rw [h2, h2'] at hland; exact hland.elim
          | some t =>
            cases h2' : resolveFragment doc' frag with
            | none => rw [h2, h2'] at hland; exact hland.elim
            | some t' =>
              rw [h2, h2'] at hland
              exact .ok hland (hdoc'.resolveFragment h2')
      | none =>
        cases h1' : Json.lookup key st'.store with
        | some doc' => rw [h1, h1'] at hl; cases hl
        | none =>
          dsimp only
          obtain ⟨e1, e2, e3⟩ := resolveRemote_rel hw hst u key
          rcases hx : resolveRemote env u key st with ⟨r1, s1⟩
          rcases hx' : resolveRemote env u key st' with ⟨r2, s2⟩
          rw [hx, hx'] at e1 e2
          rw [hx] at e3
          dsimp only at e1 e2 e3
          subst e1
          cases r1 with
          | ok doc => exact ⟨fragRes_same (e3 doc rfl) frag, e2⟩
          | raise e => exact ⟨.raise _, e2⟩
          | miss q => exact ⟨.miss _, e2⟩

/-- **one `resolve` on two related states**: the same URL and `Ins`-related targets, or the same
    failure; related states afterwards -/
theorem resolve_rel (hw : WorldCovered env G) {st st' : RState} (hst : StR d env G st st')
    {r : Str} (hr : G r) :
    ResRel d G (resolve env r st).1 (resolve env r st').1
    ∧ StR d env G (resolve env r st).2 (resolve env r st').2 := by
  unfold resolve
  have htop : st'.top = st.top := by unfold RState.top; rw [hst.ins.scopes]
  rw [htop]
  cases hj : env.urljoin st.top r with
  | none => exact ⟨.miss _, hst⟩
  | some url =>
    dsimp only
    have hl := insMap_lookup (c := url) hst.ins.memo
    cases h1 : Json.lookup url st.memo with
    | some v =>
      cases h1' : Json.lookup url st'.memo with
      | none => rw [h1, h1'] at hl; cases hl
      | some v' =>
        rw [h1, h1'] at hl
        cases hl with
        | some hv =>
          have hv' : RefsIn G v' := hst.cov.memo _ (lookup_mem h1')
          rw [memoLookup_of_some h1, memoLookup_of_some h1']
          dsimp only
          refine ⟨.ok url hv hv', ⟨hst.ins.scopes, hst.ins.store, ?_, hst.ins.memoCap, hst.ins.cacheRemote,
            hst.ins.clock, hst.ins.fetchLog⟩, ⟨hst.cov.store, ?_⟩, hst.lands⟩
          · exact .cons _ _ _ hv (insMap_filter (fun c => decide (c ≠ url)) hst.ins.memo)
          · intro kv hkv
            cases hkv with
            | head => exact hv'
            | tail _ h => exact hst.cov.memo kv (List.mem_filter.1 h).1
    | none =>
      cases h1' : Json.lookup url st'.memo with
      | some v' => rw [h1, h1'] at hl; cases hl
      | none =>
        rw [memoLookup_of_none h1, memoLookup_of_none h1']
        dsimp only
        obtain ⟨e1, e2⟩ := resolveFromUrl_rel hw hst hr hj
        rcases hx : resolveFromUrl env url st with ⟨r1, s1⟩
        rcases hx' : resolveFromUrl env url st' with ⟨r2, s2⟩
        rw [hx, hx'] at e1 e2
        dsimp only at e1 e2
        cases e1 with
        | raise e => exact ⟨.raise _, e2⟩
        | miss q => exact ⟨.miss _, e2⟩
        | @ok t t' ht ht' =>
          dsimp only
          refine ⟨.ok url ht ht', ⟨e2.ins.scopes, e2.ins.store, ?_, e2.ins.memoCap, e2.ins.cacheRemote,
            e2.ins.clock, e2.ins.fetchLog⟩, ⟨e2.cov.store, ?_⟩, e2.lands⟩
          · show InsMap d (memoInsert s1.memoCap url t s1.memo) (memoInsert s2.memoCap url t' s2.memo)
            rw [← e2.ins.memoCap]
            exact insMap_memoInsert _ url ht e2.ins.memo
          · intro kv hkv
            rcases mem_memoInsert hkv with rfl | h
            · exact ht'
            · exact e2.cov.memo kv h

end Resolve

/-- the `$ref` keyword function on two related states.  A falsy scalar value (`None`, `0`, `0.0`,
    `false`) is read as the EMPTY reference when the base URI in effect is non-empty (`refReading`),
    which `Spec.refsOf` — the STRING values of `$ref` members — does not list: hence `hE`, the empty
    reference belongs to `G` -/
theorem kwRef_simR {d : Draft} {env : Env} {G : Str → Prop} (hw : WorldCovered env G) (hE : G []) {rec rec' : Rec}
    (hrec : ∀ inst s s', Ins d s s' → RefsIn G s' → SimR (StR d env G) (rec inst s) (rec' inst s'))
    (ref inst : Json) (hG : ∀ r, ref = .str r → G r) :
    SimR (StR d env G) (kwRef env rec ref inst) (kwRef env rec' ref inst) := by
  suffices hstr : ∀ r, G r →
      SimR (StR d env G) (kwRef env rec (.str r) inst) (kwRef env rec' (.str r) inst) by
    cases hq : refReading ref with
    | typeError => rw [kwRef_typeError hq, kwRef_typeError hq]; exact fun _ _ _ hst => ⟨rfl, rfl, hst⟩
    | ref r => rw [kwRef_ref hq, kwRef_ref hq]; exact hstr r (hG r (refReading_ref hq))
    | emptyOrUnresolvable =>
      rw [kwRef_falsy hq, kwRef_falsy hq]
      intro b st st' hst
      have htop : st.top = st'.top := by unfold RState.top; rw [hst.ins.scopes]
      unfold ifTopEmpty
      rw [← htop]
      split
      · exact ⟨rfl, rfl, hst⟩
      · exact hstr [] hE b st st' hst
  intro r hGr b st st' hst
  rw [kwRef_str, kwRef_str]
  obtain ⟨e1, e2⟩ := resolve_rel hw hst hGr
  rcases hx : resolve env r st with ⟨r1, s1⟩
  rcases hx' : resolve env r st' with ⟨r2, s2⟩
  rw [hx, hx'] at e1 e2
  dsimp only at e1 e2
  cases e1 with
  | raise e => exact ⟨rfl, rfl, e2⟩
  | miss q => exact ⟨rfl, rfl, e2⟩
  | ok url ht ht' => exact SimR.withScope scopeCompat_StR env url (hrec inst _ _ ht ht') b s1 s2 e2

/-! ### the insertion relations, with the reference strings of the primed side in `G` -/

section Port
variable {SR : RState → RState → Prop} {d : Draft} {G : Str → Prop}

/-- `Ins`, every reference string of the primed side in `G` -/
def InsG (d : Draft) (G : Str → Prop) (s s' : Json) : Prop := Ins d s s' ∧ RefsIn G s'

theorem InsG.refl {s : Json} (h : RefsIn G s) : InsG d G s s := ⟨.same s, h⟩

/-- entries (index or name, subschema) related: same index or name, subschemas related -/
def EntG (d : Draft) (G : Str → Prop) {κ : Type} (a b : κ × Json) : Prop := a.1 = b.1 ∧ InsG d G a.2 b.2

/-- the hypothesis on the recursive calls -/
def RecRelR (SR : RState → RState → Prop) (d : Draft) (G : Str → Prop) (rec rec' : Rec) : Prop :=
  ∀ inst s s', InsG d G s s' → SimR SR (rec inst s) (rec' inst s')

theorem insList_all₂ : ∀ (vs vs' : List Json), InsList d vs vs' → RefsIn G (.arr vs') →
    All₂ (InsG d G) vs vs'
  | [], _, h, _ => by cases h; exact .nil
  | v :: vs, _, h, hn => by
    cases h with
    | cons _ v' h1 h2 =>
      exact .cons ⟨h1, hn.arr_mem v' (List.mem_cons_self ..)⟩ (insList_all₂ vs _ h2 hn.arr_tail)

theorem insMap_all₂ : ∀ (ms ms' : List (Str × Json)), InsMap d ms ms' → RefsIn G (.obj ms') →
    All₂ (EntG d G) ms ms'
  | [], _, h, _ => by cases h; exact .nil
  | (n, v) :: ms, _, h, hn => by
    cases h with
    | cons _ _ v' h1 h2 =>
      exact .cons ⟨rfl, h1, hn.obj_mem (n, v') (List.mem_cons_self ..)⟩ (insMap_all₂ ms _ h2 hn.obj_tail)

theorem all₂_insG_refl {vs : List Json} (h : RefsIn G (.arr vs)) : All₂ (InsG d G) vs vs :=
  All₂.refl vs fun x hx => InsG.refl (h.arr_mem x hx)

theorem all₂_entG_refl {ms : List (Str × Json)} (h : RefsIn G (.obj ms)) :
    All₂ (EntG d G (κ := Str)) ms ms :=
  All₂.refl ms fun x hx => ⟨rfl, InsG.refl (h.obj_mem x hx)⟩

theorem isObj_insG {v v' : Json} (hv : InsG d G v v') : v'.isObj = v.isObj := by
  obtain ⟨hi, _⟩ := hv
  cases hi with
  | same => rfl
  | obj _ => rfl

theorem entG_elim {κ : Type} {x x' : κ × Json} (h : EntG d G x x') :
    ∃ a b b', x = (a, b) ∧ x' = (a, b') ∧ InsG d G b b' := by
  obtain ⟨a, b⟩ := x
  obtain ⟨a', b'⟩ := x'
  obtain ⟨h1, h2⟩ := h
  simp only at h1 h2
  subst h1
  exact ⟨a, b, b', rfl, rfl, h2⟩

/-! ### the keyword functions that take a subschema -/

section Kw
variable {rec rec' : Rec} (hrec : RecRelR SR d G rec rec')
include hrec

theorem kwNot_simR {v v' : Json} (hv : InsG d G v v') (inst : Json) :
    SimR SR (kwNot rec v inst) (kwNot rec' v' inst) := by
  unfold kwNot
  refine SimR.innerValid (hrec _ _ _ hv) fun ok => ?_
  cases ok
  · simr_refl
  · exact SimR.emit_fresh _ _ _ _ _ _ _ rfl

theorem kwPropertyNames_simR (cfg : Cfg) {v v' : Json} (hv : InsG d G v v') (inst : Json) :
    SimR SR (kwPropertyNames cfg rec v inst) (kwPropertyNames cfg rec' v' inst) := by
  unfold kwPropertyNames
  refine SimR.gate _ _ _ ?_
  cases inst <;> try (simr_refl; done)
  exact SimR.seqG _ fun kx _ => SimR.descendG _ _ (hrec _ _ _ hv)

theorem containsLoop_simR {v v' : Json} (hv : InsG d G v v') (whole : Json) :
    ∀ xs, SimR SR (containsLoop rec v whole xs) (containsLoop rec' v' whole xs)
  | [] => by unfold containsLoop; simr_refl
  | x :: xs => by
    unfold containsLoop
    refine SimR.innerValid (hrec _ _ _ hv) fun ok => ?_
    cases ok
    · exact containsLoop_simR hv whole xs
    · simr_refl

theorem kwContains_simR (cfg : Cfg) {v v' : Json} (hv : InsG d G v v') (inst : Json) :
    SimR SR (kwContains cfg rec v inst) (kwContains cfg rec' v' inst) := by
  unfold kwContains
  refine SimR.gate _ _ _ ?_
  cases inst <;> try (simr_refl; done)
  exact containsLoop_simR hrec hv _ _

theorem kwIf_simR {v v' : Json} (hv : InsG d G v v') (inst : Json) {s s' : Json}
    (ht : OptRel (InsG d G) (s.get? (skey "then")) (s'.get? (skey "then")))
    (he : OptRel (InsG d G) (s.get? (skey "else")) (s'.get? (skey "else"))) :
    SimR SR (kwIf rec v inst s) (kwIf rec' v' inst s') := by
  unfold kwIf
  refine SimR.innerValid (hrec _ _ _ hv) fun ok => ?_
  cases ok
  · show SimR SR (match s.get? (skey "else") with | some e => _ | none => _)
             (match s'.get? (skey "else") with | some e => _ | none => _)
    revert he
    generalize s.get? (skey "else") = o
    generalize s'.get? (skey "else") = o'
    intro he
    cases he with
    | none => simr_refl
    | some h => exact SimR.descendG _ _ (hrec _ _ _ h)
  · show SimR SR (match s.get? (skey "then") with | some e => _ | none => _)
             (match s'.get? (skey "then") with | some e => _ | none => _)
    revert ht
    generalize s.get? (skey "then") = o
    generalize s'.get? (skey "then") = o'
    intro ht
    cases ht with
    | none => simr_refl
    | some h => exact SimR.descendG _ _ (hrec _ _ _ h)

end Kw

section Kw
variable {rec rec' : Rec} (hrec : RecRelR SR d G rec rec')
include hrec

theorem kwAdditionalProperties_simR (env : Env) (cfg : Cfg) (hty : TyOK cfg) {v v' : Json} (hv : InsG d G v v') (inst : Json)
    {s s' : Json}
    (hp : SameKeys (s.get? (skey "properties")) (s'.get? (skey "properties")))
    (hpp : SameKeys (s.get? (skey "patternProperties")) (s'.get? (skey "patternProperties"))) :
    SimR SR (kwAdditionalProperties env cfg rec v inst s) (kwAdditionalProperties env cfg rec' v' inst s') := by
  unfold kwAdditionalProperties
  refine SimR.gate _ _ _ ?_
  revert hp hpp
  generalize s.get? (skey "properties") = o1
  generalize s'.get? (skey "properties") = o1'
  generalize s.get? (skey "patternProperties") = o2
  generalize s'.get? (skey "patternProperties") = o2'
  intro hp hpp
  obtain ⟨_, hpk⟩ := hp
  obtain ⟨hpps, hppk⟩ := hpp
  cases inst <;> try (simr_refl; done)
  rename_i ikvs
  rcases h1 : objKvs o1 with _ | props <;> rcases h1' : objKvs o1' with _ | props' <;>
    rw [h1, h1'] at hpk <;> simp only [Option.map_none, Option.map_some, reduceCtorEq, Option.some.injEq] at hpk
  · simr_refl
  rcases h2 : objKvs o2 with _ | pats <;> rcases h2' : objKvs o2' with _ | pats' <;>
    rw [h2, h2'] at hppk <;> simp only [Option.map_none, Option.map_some, reduceCtorEq, Option.some.injEq] at hppk
  · simr_refl
  dsimp only
  rw [findAdditional_keys env hpk, hppk]
  refine SimR.withRes _ fun extras0 => SimR.withRes _ fun extras => ?_
  rw [hty.obj, hty.obj]
  show SimR SR (if v.isObj = true then _ else _) (if v'.isObj = true then _ else _)
  cases hio : v.isObj
  · have := ins_truthy_nonobj hv.1 hio
    subst this
    rw [hio, hpps]
    simp only [Bool.false_eq_true, if_false]
    split
    · split
      · exact SimR.emit_fresh _ _ _ _ _ _ _ rfl
      · simr_refl
    · simr_refl
  · have : v'.isObj = true := by
      obtain ⟨hi, _⟩ := hv
      cases hi with
      | same => exact hio
      | obj _ => rfl
    rw [this]
    simp only [if_true]
    refine SimR.seqG _ fun extra _ => ?_
    cases Json.lookup extra ikvs with
    | none => simr_refl
    | some x => exact SimR.descendG _ _ (hrec _ _ _ hv)

/-- the part of `additionalItems` after the tuple length is known -/
theorem addItems_tail_simR (cfg : Cfg) (hty : TyOK cfg) {v v' : Json} (hv : InsG d G v v') (xs : List Json) (n : Nat) :
    SimR SR (withRes (isTypeS cfg v "object") fun aIobj =>
          if aIobj then
            seqG (fun (t : Nat × Json) => descendG (rec t.2 v) (some (.idx t.1)) none) (enumFrom n (xs.drop n))
          else if !truthy v && xs.length > n then
            emit [Err.fresh "addItems" [.arr (xs.drop n)]]
          else nothing)
         (withRes (isTypeS cfg v' "object") fun aIobj =>
          if aIobj then
            seqG (fun (t : Nat × Json) => descendG (rec' t.2 v') (some (.idx t.1)) none) (enumFrom n (xs.drop n))
          else if !truthy v' && xs.length > n then
            emit [Err.fresh "addItems" [.arr (xs.drop n)]]
          else nothing) := by
  rw [hty.obj, hty.obj, isObj_insG hv]
  show SimR SR (if v.isObj = true then _ else _) (if v.isObj = true then _ else _)
  cases hio : v.isObj
  · have := ins_truthy_nonobj hv.1 hio
    subst this
    simr_refl
  · simp only [if_true]
    exact SimR.seqG _ fun _ _ => SimR.descendG _ _ (hrec _ _ _ hv)

theorem kwAdditionalItems_simR (cfg : Cfg) (hty : TyOK cfg) {v v' : Json} (hv : InsG d G v v') (inst : Json)
    {s s' : Json} (hi : ItemsRel (s.get? (skey "items")) (s'.get? (skey "items"))) :
    SimR SR (kwAdditionalItems cfg rec v inst s) (kwAdditionalItems cfg rec' v' inst s') := by
  unfold kwAdditionalItems
  refine SimR.withRes _ fun instArr => ?_
  cases instArr
  · simr_refl
  revert hi
  generalize s.get? (skey "items") = o
  generalize s'.get? (skey "items") = o'
  intro hi
  show SimR SR (withRes (isTypeS cfg (o.getD (.obj [])) "array") _) (withRes (isTypeS cfg (o'.getD (.obj [])) "array") _)
  cases hi with
  | same o =>
    refine SimR.withRes _ fun itemsArr => ?_
    cases itemsArr
    · simr_refl
    cases inst <;> try (simr_refl; done)
    rcases o with _ | (_ | _ | _ | _ | subs | _) <;> try (simr_refl; done)
    exact addItems_tail_simR hrec cfg hty hv _ _
  | @arr subs subs' hlen =>
    rw [show isTypeS cfg ((some (Json.arr subs)).getD (.obj [])) "array"
          = isTypeS cfg ((some (Json.arr subs')).getD (.obj [])) "array" from isTypeS_arr cfg _ _ _]
    refine SimR.withRes _ fun itemsArr => ?_
    cases itemsArr
    · simr_refl
    cases inst <;> try (simr_refl; done)
    dsimp only
    rw [hlen]
    exact addItems_tail_simR hrec cfg hty hv _ _
  | obj m m' =>
    rw [show isTypeS cfg ((some (Json.obj m)).getD (.obj [])) "array"
          = isTypeS cfg ((some (Json.obj m')).getD (.obj [])) "array" from isTypeS_obj cfg _ _ _]
    refine SimR.withRes _ fun itemsArr => ?_
    cases itemsArr
    · simr_refl
    cases inst <;> simr_refl

/-! `items` and friends: a subschema or an array of subschemas -/

/-- the value of `items`/`extends`: a subschema, or an array of subschemas -/
def ItemsVal (d : Draft) (G : Str → Prop) (v v' : Json) : Prop :=
  InsG d G v v' ∨ ∃ vs vs', v = .arr vs ∧ v' = .arr vs' ∧ All₂ (InsG d G) vs vs'

theorem tuple_simR (xs : List Json) {vs vs' : List Json} (h : All₂ (InsG d G) vs vs') :
    SimR SR (seqG (fun (t : (Nat × Json) × Json) =>
              descendG (rec t.1.2 t.2) (some (.idx t.1.1)) (some (.idx t.1.1))) ((enumFrom 0 xs).zip vs))
         (seqG (fun (t : (Nat × Json) × Json) =>
              descendG (rec' t.1.2 t.2) (some (.idx t.1.1)) (some (.idx t.1.1))) ((enumFrom 0 xs).zip vs')) := by
  refine SimR.seqG₂ (fun x x' hx => ?_) (all₂_zip h _)
  obtain ⟨a, b, b', rfl, rfl, hb⟩ := entG_elim (d := d) (G := G) hx
  exact SimR.descendG _ _ (hrec _ _ _ hb)

theorem each_simR {v v' : Json} (hv : InsG d G v v') (l : List (Nat × Json)) :
    SimR SR (seqG (fun (t : Nat × Json) => descendG (rec t.2 v) (some (.idx t.1)) none) l)
         (seqG (fun (t : Nat × Json) => descendG (rec' t.2 v') (some (.idx t.1)) none) l) :=
  SimR.seqG _ fun _ _ => SimR.descendG _ _ (hrec _ _ _ hv)

theorem kwItems_simR (cfg : Cfg) (hty : TyOK cfg) {v v' : Json} (hv : ItemsVal d G v v') (inst : Json) :
    SimR SR (kwItems cfg rec v inst) (kwItems cfg rec' v' inst) := by
  unfold kwItems
  refine SimR.gate _ _ _ ?_
  cases inst <;> try (simr_refl; done)
  rename_i xs
  dsimp only
  rcases hv with hv | ⟨vs, vs', rfl, rfl, hall⟩
  · rw [isTypeS_ins cfg hv.1]
    refine SimR.withRes _ fun isArr => ?_
    cases isArr
    · exact each_simR hrec hv _
    · obtain ⟨hi, hn⟩ := hv
      cases hi with
      | same =>
        cases v <;> try (simr_refl; done)
        exact tuple_simR hrec xs (all₂_insG_refl hn)
      | obj _ => simr_refl
  · rw [hty.arr, hty.arr]
    exact tuple_simR hrec xs hall

theorem kwItemsDraft3Draft4_simR (cfg : Cfg) (hty : TyOK cfg) {v v' : Json} (hv : ItemsVal d G v v') (inst : Json) :
    SimR SR (kwItemsDraft3Draft4 cfg rec v inst) (kwItemsDraft3Draft4 cfg rec' v' inst) := by
  unfold kwItemsDraft3Draft4
  refine SimR.gate _ _ _ ?_
  cases inst <;> try (simr_refl; done)
  rename_i xs
  dsimp only
  rcases hv with hv | ⟨vs, vs', rfl, rfl, hall⟩
  · rw [isTypeS_ins cfg hv.1]
    refine SimR.withRes _ fun isObj => ?_
    cases isObj
    · obtain ⟨hi, hn⟩ := hv
      cases hi with
      | same =>
        cases v <;> try (simr_refl; done)
        exact tuple_simR hrec xs (all₂_insG_refl hn)
      | obj _ => simr_refl
    · exact each_simR hrec hv _
  · rw [hty.obj, hty.obj]
    exact tuple_simR hrec xs hall

theorem branches_simR (inst : Json) {vs vs' : List Json} (h : All₂ (InsG d G) vs vs') :
    SimR SR (seqG (fun (t : Nat × Json) => descendG (rec inst t.2) none (some (.idx t.1))) (enumFrom 0 vs))
         (seqG (fun (t : Nat × Json) => descendG (rec' inst t.2) none (some (.idx t.1))) (enumFrom 0 vs')) := by
  refine SimR.seqG₂ (fun x x' hx => ?_) (all₂_enumFrom h 0)
  obtain ⟨a, b, b', rfl, rfl, hb⟩ := entG_elim (d := d) (G := G) hx
  exact SimR.descendG _ _ (hrec _ _ _ hb)

theorem kwExtendsDraft3_simR (cfg : Cfg) (hty : TyOK cfg) {v v' : Json} (hv : ItemsVal d G v v') (inst : Json) :
    SimR SR (kwExtendsDraft3 cfg rec v inst) (kwExtendsDraft3 cfg rec' v' inst) := by
  unfold kwExtendsDraft3
  rcases hv with hv | ⟨vs, vs', rfl, rfl, hall⟩
  · rw [isTypeS_ins cfg hv.1]
    refine SimR.withRes _ fun isObj => ?_
    cases isObj
    · obtain ⟨hi, hn⟩ := hv
      cases hi with
      | same =>
        cases v <;> try (simr_refl; done)
        exact branches_simR hrec inst (all₂_insG_refl hn)
      | obj _ => simr_refl
    · simd_red
      exact SimR.descendG _ _ (hrec _ _ _ hv)
  · rw [hty.obj, hty.obj]
    exact branches_simR hrec inst hall

/-! arrays of subschemas -/

/-- the value of `allOf`/`anyOf`/`oneOf`/Draft 3 `type`, `disallow`: an array of subschemas, or something else -/
inductive InsArrG (d : Draft) (G : Str → Prop) : Json → Json → Prop
  | arr {vs vs' : List Json} : All₂ (InsG d G) vs vs' → InsArrG d G (.arr vs) (.arr vs')
  | other (v : Json) : v.isArr = false → InsArrG d G v v

theorem kwAllOf_simR {v v' : Json} (hv : InsArrG d G v v') (inst : Json) :
    SimR SR (kwAllOf rec v inst) (kwAllOf rec' v' inst) := by
  unfold kwAllOf
  cases hv with
  | arr hall => exact branches_simR hrec inst hall
  | other v hna => cases v <;> simr_refl

/-- what `firstValid` hands to its continuation -/
inductive FVRel (d : Draft) (G : Str → Prop) : Option (Json × List (Nat × Json)) → Option (Json × List (Nat × Json)) → Prop
  | none : FVRel d G none none
  | some {s s' : Json} {rest rest' : List (Nat × Json)} : All₂ (EntG d G) rest rest' →
      FVRel d G (some (s, rest)) (some (s', rest'))

theorem firstValid_simR (inst : Json) {k k' : Option (Json × List (Nat × Json)) → List Err → Gen}
    (hk : ∀ r r' acc acc', FVRel d G r r' → acc.map eraseDeep = acc'.map eraseDeep → SimR SR (k r acc) (k' r' acc'))
    {xs xs' : List (Nat × Json)} (h : All₂ (EntG d G) xs xs') :
    ∀ acc acc', acc.map eraseDeep = acc'.map eraseDeep →
      SimR SR (firstValid rec inst k xs acc) (firstValid rec' inst k' xs' acc') := by
  induction h with
  | nil => intro acc acc' hacc; unfold firstValid; exact hk _ _ _ _ .none hacc
  | @cons x y xs ys hxy hrest ih =>
    intro acc acc' hacc
    obtain ⟨i, s, s', rfl, rfl, hs⟩ := entG_elim (d := d) (G := G) hxy
    unfold firstValid
    refine SimR.inner _ (SimR.descendG _ _ (hrec _ _ _ hs)) fun es es' he => ?_
    rw [map_eraseDeep_isEmpty he]
    cases es'.isEmpty
    · exact ih _ _ (by rw [List.map_append, List.map_append, hacc, he])
    · exact hk _ _ _ _ (.some hrest) hacc

theorem moreValid_simR (inst : Json) {k k' : List Json → Gen}
    (hk : ∀ acc acc', acc.length = acc'.length → SimR SR (k acc) (k' acc'))
    {xs xs' : List (Nat × Json)} (h : All₂ (EntG d G) xs xs') :
    ∀ acc acc', acc.length = acc'.length →
      SimR SR (moreValid rec inst k xs acc) (moreValid rec' inst k' xs' acc') := by
  induction h with
  | nil => intro acc acc' hacc; unfold moreValid; exact hk _ _ hacc
  | @cons x y xs ys hxy hrest ih =>
    intro acc acc' hacc
    obtain ⟨i, s, s', rfl, rfl, hs⟩ := entG_elim (d := d) (G := G) hxy
    unfold moreValid
    refine SimR.innerValid (hrec _ _ _ hs) fun ok => ?_
    cases ok
    · exact ih _ _ hacc
    · exact ih _ _ (by simp [hacc])

theorem kwAnyOf_simR {v v' : Json} (hv : InsArrG d G v v') (inst : Json) :
    SimR SR (kwAnyOf rec v inst) (kwAnyOf rec' v' inst) := by
  unfold kwAnyOf
  cases hv with
  | arr hall =>
    refine firstValid_simR hrec inst (fun r r' acc acc' hr hacc => ?_) (all₂_enumFrom hall 0) _ _ rfl
    cases hr with
    | none => exact SimR.emit_fresh _ _ _ _ _ _ _ hacc
    | some _ => simr_refl
  | other v hna => cases v <;> simr_refl

theorem kwOneOf_simR {v v' : Json} (hv : InsArrG d G v v') (inst : Json) :
    SimR SR (kwOneOf rec v inst) (kwOneOf rec' v' inst) := by
  unfold kwOneOf
  cases hv with
  | arr hall =>
    refine firstValid_simR hrec inst (fun r r' acc acc' hr hacc => ?_) (all₂_enumFrom hall 0) _ _ rfl
    cases hr with
    | none => exact SimR.emit_fresh _ _ _ _ _ _ _ hacc
    | some hrest =>
      refine moreValid_simR hrec inst (fun more more' hm => ?_) hrest _ _ rfl
      have : more.isEmpty = more'.isEmpty := by
        cases more <;> cases more' <;> simp_all
      rw [this]
      cases more'.isEmpty
      · exact SimR.emit_fresh _ _ _ _ _ _ _ rfl
      · simr_refl
  | other v hna => cases v <;> simr_refl

theorem typeDraft3Loop_simR (cfg : Cfg) (inst : Json) {k k' : Bool → List Err → Gen}
    (hk : ∀ m acc acc', acc.map eraseDeep = acc'.map eraseDeep → SimR SR (k m acc) (k' m acc'))
    {xs xs' : List (Nat × Json)} (h : All₂ (EntG d G) xs xs') :
    ∀ acc acc', acc.map eraseDeep = acc'.map eraseDeep →
      SimR SR (typeDraft3Loop cfg rec inst k xs acc) (typeDraft3Loop cfg rec' inst k' xs' acc') := by
  induction h with
  | nil => intro acc acc' hacc; unfold typeDraft3Loop; exact hk _ _ _ hacc
  | @cons x y xs ys hxy hrest ih =>
    intro acc acc' hacc
    obtain ⟨i, s, s', rfl, rfl, hs⟩ := entG_elim (d := d) (G := G) hxy
    unfold typeDraft3Loop
    rw [isTypeS_ins cfg hs.1]
    refine SimR.withRes _ fun isObj => ?_
    cases isObj
    · rw [isType_name_ins cfg inst hs.1]
      refine SimR.withRes _ fun ok => ?_
      cases ok
      · exact ih _ _ hacc
      · exact hk _ _ _ hacc
    · refine SimR.inner _ (SimR.descendG _ _ (hrec _ _ _ hs)) fun es es' he => ?_
      rw [map_eraseDeep_isEmpty he]
      cases es'.isEmpty
      · exact ih _ _ (by rw [List.map_append, List.map_append, hacc, he])
      · exact hk _ _ _ hacc

theorem kwTypeDraft3_simR (cfg : Cfg) {v v' : Json} (hv : InsArrG d G v v') (inst : Json) :
    SimR SR (kwTypeDraft3 cfg rec v inst) (kwTypeDraft3 cfg rec' v' inst) := by
  unfold kwTypeDraft3
  have key : ∀ {ts ts' : List Json}, All₂ (InsG d G) ts ts' →
      SimR SR (typeDraft3Loop cfg rec inst (fun matched acc =>
              if matched then nothing else emit [Err.fresh "type" [inst, .arr ts] acc]) (enumFrom 0 ts) [])
           (typeDraft3Loop cfg rec' inst (fun matched acc =>
              if matched then nothing else emit [Err.fresh "type" [inst, .arr ts'] acc]) (enumFrom 0 ts') []) := by
    intro ts ts' hall
    refine typeDraft3Loop_simR hrec cfg inst (fun m acc acc' hacc => ?_) (all₂_enumFrom hall 0) _ _ rfl
    cases m
    · exact SimR.emit_fresh _ _ _ _ _ _ _ hacc
    · simr_refl
  cases hv with
  | arr hall => exact key hall
  | other v hna =>
    cases v <;> try (simr_refl; done)
    exact key (.cons (InsG.refl (fun _ h => nomatch h)) .nil)

theorem kwDisallowDraft3_simR {v v' : Json} (inst : Json)
    (hv : v = v' ∨ ∃ vs vs', v = .arr vs ∧ v' = .arr vs' ∧
      All₂ (fun a b => InsG d G (.obj [(skey "type", .arr [a])]) (.obj [(skey "type", .arr [b])])) vs vs')
    (hn : RefsIn G v') :
    SimR SR (kwDisallowDraft3 rec v inst) (kwDisallowDraft3 rec' v' inst) := by
  unfold kwDisallowDraft3
  have key : ∀ {ds ds' : List Json},
      All₂ (fun a b => InsG d G (.obj [(skey "type", .arr [a])]) (.obj [(skey "type", .arr [b])])) ds ds' →
      SimR SR (seqG (fun (d : Json) =>
              innerValid (rec inst (.obj [(skey "type", .arr [d])])) fun ok =>
                if ok then emit [Err.fresh "disallow" [d, inst]] else nothing) ds)
           (seqG (fun (d : Json) =>
              innerValid (rec' inst (.obj [(skey "type", .arr [d])])) fun ok =>
                if ok then emit [Err.fresh "disallow" [d, inst]] else nothing) ds') := by
    intro ds ds' hall
    refine SimR.seqG₂ (fun a b hab => ?_) hall
    refine SimR.innerValid (hrec _ _ _ hab) fun ok => ?_
    cases ok
    · simr_refl
    · exact SimR.emit_fresh _ _ _ _ _ _ _ rfl
  have hobj : ∀ a, RefsIn G a → RefsIn G (.obj [(skey "type", .arr [a])]) := fun a ha => ha.typeObj
  rcases hv with rfl | ⟨vs, vs', rfl, rfl, hall⟩
  · cases v <;> try (simr_refl; done)
    · exact key (.cons (InsG.refl (hobj _ hn)) .nil)
    · rename_i xs
      exact key (All₂.refl xs fun x hx => InsG.refl (hobj _ (hn.arr_mem x hx)))
  · exact key hall

/-! maps from names to subschemas -/

inductive InsMapG (d : Draft) (G : Str → Prop) : Json → Json → Prop
  | map {ms ms' : List (Str × Json)} : All₂ (EntG d G) ms ms' → InsMapG d G (.obj ms) (.obj ms')
  | other (v : Json) : v.isObj = false → InsMapG d G v v

theorem kwProperties_simR (cfg : Cfg) {v v' : Json} (hv : InsMapG d G v v') (inst : Json) :
    SimR SR (kwProperties cfg rec v inst) (kwProperties cfg rec' v' inst) := by
  unfold kwProperties
  refine SimR.gate _ _ _ ?_
  cases hv with
  | map hall =>
    cases inst <;> try (simr_refl; done)
    refine SimR.seqG₂ (fun x x' hx => ?_) hall
    obtain ⟨a, b, b', rfl, rfl, hb⟩ := entG_elim (d := d) (G := G) hx
    dsimp only
    split
    · exact SimR.descendG _ _ (hrec _ _ _ hb)
    · simr_refl
  | other v hno => cases v <;> simr_refl

theorem kwPatternProperties_simR (env : Env) (cfg : Cfg) {v v' : Json} (hv : InsMapG d G v v') (inst : Json) :
    SimR SR (kwPatternProperties env cfg rec v inst) (kwPatternProperties env cfg rec' v' inst) := by
  unfold kwPatternProperties
  refine SimR.gate _ _ _ ?_
  cases hv with
  | map hall =>
    cases inst <;> try (simr_refl; done)
    refine SimR.seqG₂ (fun x x' hx => ?_) hall
    obtain ⟨a, b, b', rfl, rfl, hb⟩ := entG_elim (d := d) (G := G) hx
    refine SimR.seqG _ fun kx _ => SimR.withRes _ fun m => ?_
    cases m
    · simr_refl
    · simd_red
      exact SimR.descendG _ _ (hrec _ _ _ hb)
  | other v hno => cases v <;> simr_refl

theorem kwDependencies_simR (cfg : Cfg) {v v' : Json} (hv : InsMapG d G v v') (inst : Json) :
    SimR SR (kwDependencies cfg rec v inst) (kwDependencies cfg rec' v' inst) := by
  unfold kwDependencies
  refine SimR.gate _ _ _ ?_
  cases hv with
  | map hall =>
    cases inst <;> try (simr_refl; done)
    refine SimR.seqG₂ (fun x x' hx => ?_) hall
    obtain ⟨a, b, b', rfl, rfl, hb⟩ := entG_elim (d := d) (G := G) hx
    dsimp only
    split
    · simr_refl
    · rw [isTypeS_ins cfg hb.1]
      refine SimR.withRes _ fun isArr => ?_
      cases isArr
      · simd_red
        exact SimR.descendG _ _ (hrec _ _ _ hb)
      · obtain ⟨hi, _⟩ := hb
        cases hi with
        | same => simr_refl
        | obj _ => simr_refl
  | other v hno => cases v <;> simr_refl

theorem kwDependenciesDraft3_simR (cfg : Cfg) (hty : TyOK cfg) {v v' : Json} (hv : InsMapG d G v v') (inst : Json) :
    SimR SR (kwDependenciesDraft3 cfg rec v inst) (kwDependenciesDraft3 cfg rec' v' inst) := by
  unfold kwDependenciesDraft3
  refine SimR.gate _ _ _ ?_
  cases hv with
  | map hall =>
    cases inst <;> try (simr_refl; done)
    refine SimR.seqG₂ (fun x x' hx => ?_) hall
    obtain ⟨a, b, b', rfl, rfl, hb⟩ := entG_elim (d := d) (G := G) hx
    dsimp only
    split
    · simr_refl
    · rw [hty.obj, hty.obj, isObj_insG hb]
      cases hio : b.isObj
      · have := ins_truthy_nonobj hb.1 hio
        subst this
        simr_refl
      · simd_red
        exact SimR.descendG _ _ (hrec _ _ _ hb)
  | other v hno => cases v <;> simr_refl

theorem kwPropertiesDraft3_simR (cfg : Cfg) {v v' : Json} (hv : InsMapG d G v v') (inst s s' : Json) :
    SimR SR (kwPropertiesDraft3 cfg rec v inst s) (kwPropertiesDraft3 cfg rec' v' inst s') := by
  unfold kwPropertiesDraft3
  refine SimR.gate _ _ _ ?_
  have hreq : ∀ (prop : Str) (skvs : List (Str × Json)),
      SimR SR (match Json.lookup (skey "required") skvs with
            | some r => if truthy r then emit [requiredDraft3Err prop r inst s] else nothing
            | none => nothing)
           (match Json.lookup (skey "required") skvs with
            | some r => if truthy r then emit [requiredDraft3Err prop r inst s'] else nothing
            | none => nothing) := by
    intro prop skvs
    cases Json.lookup (skey "required") skvs with
    | none => simr_refl
    | some r =>
      dsimp only
      cases truthy r
      · simr_refl
      · exact SimR.emit rfl
  cases hv with
  | map hall =>
    cases inst <;> try (simr_refl; done)
    refine SimR.seqG₂ (fun x x' hx => ?_) hall
    obtain ⟨a, b, b', rfl, rfl, hb⟩ := entG_elim (d := d) (G := G) hx
    dsimp only
    split
    · exact SimR.descendG _ _ (hrec _ _ _ hb)
    · obtain ⟨hi, _⟩ := hb
      cases hi with
      | same =>
        cases b <;> simr_refl
      | obj hm =>
        dsimp only
        rw [lookup_insMembers_eq (not_inert_required d) (required_not_keys d).1 (required_not_keys d).2.1
          (required_not_keys d).2.2 hm]
        exact hreq _ _
  | other v hno => cases v <;> simr_refl

end Kw


/-! ### keyword functions that do not recurse: both sides are the same state-passive generator -/

theorem kwBound_refl (cfg : Cfg) (t : String) (f : Num → Num → Bool) (v inst : Json) :
    SimR SR (kwBound cfg t f v inst) (kwBound cfg t f v inst) := by
  unfold kwBound; simr_refl

theorem kwLenBound_refl (cfg : Cfg) (ty t : String) (lt : Bool) (len : Json → Option Nat) (v inst : Json) :
    SimR SR (kwLenBound cfg ty t lt len v inst) (kwLenBound cfg ty t lt len v inst) := by
  unfold kwLenBound; simr_refl

theorem kwConst_refl (v inst : Json) : SimR SR (kwConst v inst) (kwConst v inst) := by
  unfold kwConst; simr_refl

theorem kwMultipleOf_refl (cfg : Cfg) (v inst : Json) : SimR SR (kwMultipleOf cfg v inst) (kwMultipleOf cfg v inst) := by
  unfold kwMultipleOf; simr_refl

theorem kwUniqueItems_refl (cfg : Cfg) (v inst : Json) :
    SimR SR (kwUniqueItems cfg v inst) (kwUniqueItems cfg v inst) := by
  unfold kwUniqueItems; simr_refl

theorem kwPattern_refl (env : Env) (cfg : Cfg) (v inst : Json) :
    SimR SR (kwPattern env cfg v inst) (kwPattern env cfg v inst) := by
  unfold kwPattern; simr_refl

theorem kwFormat_refl (env : Env) (impl : FmtImpl) (cfg : Cfg) (v inst : Json) :
    SimR SR (kwFormat env impl cfg v inst) (kwFormat env impl cfg v inst) := by
  unfold kwFormat; simr_refl

theorem kwEnum_refl (v inst : Json) : SimR SR (kwEnum v inst) (kwEnum v inst) := by
  unfold kwEnum; simr_refl

theorem kwType_refl (cfg : Cfg) (v inst : Json) : SimR SR (kwType cfg v inst) (kwType cfg v inst) := by
  unfold kwType; simr_refl

theorem kwRequired_refl (cfg : Cfg) (v inst : Json) : SimR SR (kwRequired cfg v inst) (kwRequired cfg v inst) := by
  unfold kwRequired; simr_refl

theorem kwMinimumDraft3Draft4_simR (cfg : Cfg) (v inst : Json) {s s' : Json}
    (h : s.get? (skey "exclusiveMinimum") = s'.get? (skey "exclusiveMinimum")) :
    SimR SR (kwMinimumDraft3Draft4 cfg v inst s) (kwMinimumDraft3Draft4 cfg v inst s') := by
  unfold kwMinimumDraft3Draft4
  rw [h]
  split <;> exact kwBound_refl _ _ _ _ _

theorem kwMaximumDraft3Draft4_simR (cfg : Cfg) (v inst : Json) {s s' : Json}
    (h : s.get? (skey "exclusiveMaximum") = s'.get? (skey "exclusiveMaximum")) :
    SimR SR (kwMaximumDraft3Draft4 cfg v inst s) (kwMaximumDraft3Draft4 cfg v inst s') := by
  unfold kwMaximumDraft3Draft4
  rw [h]
  split <;> exact kwBound_refl _ _ _ _ _

/-! ### what the enclosing schema looks like to the keyword functions -/

theorem OptRel.and_right {α β : Type} {P : α → β → Prop} {o : Option α} {o' : Option β} (h : OptRel P o o')
    {Q : β → Prop} (hq : ∀ b, o' = Option.some b → Q b) : OptRel (fun a b => P a b ∧ Q b) o o' := by
  cases h with
  | none => exact .none
  | some h => exact .some ⟨h, hq _ rfl⟩

/-- the consulted siblings of two schema objects look the same to every keyword function -/
structure SibRel (d : Draft) (G : Str → Prop) (s s' : Json) : Prop where
  then_ : OptRel (InsG d G) (s.get? (skey "then")) (s'.get? (skey "then"))
  else_ : OptRel (InsG d G) (s.get? (skey "else")) (s'.get? (skey "else"))
  props : SameKeys (s.get? (skey "properties")) (s'.get? (skey "properties"))
  pprops : SameKeys (s.get? (skey "patternProperties")) (s'.get? (skey "patternProperties"))
  items : ItemsRel (s.get? (skey "items")) (s'.get? (skey "items"))
  exMin : s.get? (skey "exclusiveMinimum") = s'.get? (skey "exclusiveMinimum")
  exMax : s.get? (skey "exclusiveMaximum") = s'.get? (skey "exclusiveMaximum")

theorem sibRel_of_insMembers {kvs kvs' : List (Str × Json)} (h : InsMembers d kvs kvs')
    (hn : RefsIn G (.obj kvs')) : SibRel d G (.obj kvs) (.obj kvs') := by
  have hc := consulted_keys d
  have hm := consulted_mem
  have L := fun (c : Str) (hc : c ∈ consulted) => lookup_insMembers (not_inert_consulted d hc) kvs' kvs h
  have toN : ∀ c, c ∈ consulted → c ∉ schemaArrayKeys d → c ∉ schemaMapKeys d →
      OptRel (InsG d G) (Json.lookup c kvs) (Json.lookup c kvs') := by
    intro c hcm h2 h3
    refine OptRel.imp (fun a b hab => ?_) (OptRel.and_right (L c hcm) (Q := fun b => RefsIn G b)
      (fun b hb => hn.lookup hb))
    exact ⟨insVal_ins hab.1 h2 h3, hab.2⟩
  exact
    { then_ := toN _ hm.1 hc.1 hc.2.1
      else_ := toN _ hm.2.1 hc.2.2.1 hc.2.2.2.1
      props := sameKeys_of_insVal hc.2.2.2.2.1 hc.2.2.2.2.2.1 (L _ hm.2.2.1)
      pprops := sameKeys_of_insVal hc.2.2.2.2.2.2.1 hc.2.2.2.2.2.2.2.1 (L _ hm.2.2.2.1)
      items := itemsRel_of_insVal hc.2.2.2.2.2.2.2.2 (L _ hm.2.2.2.2.1)
      exMin := (lookup_insMembers_eq (not_inert_consulted d hm.2.2.2.2.2.1) (exclusive_not_keys d).1.1
        (exclusive_not_keys d).1.2.1 (exclusive_not_keys d).1.2.2 h).symm
      exMax := (lookup_insMembers_eq (not_inert_consulted d hm.2.2.2.2.2.2) (exclusive_not_keys d).2.1
        (exclusive_not_keys d).2.2.1 (exclusive_not_keys d).2.2.2 h).symm }

/-! ### the dispatcher -/

theorem valCase_sch {f : KwFn} {v v' : Json} (h2 : f.okArr = false)
    (h3 : f.okMap = false) (h : ValCase d f v v') (hn : RefsIn G v') : InsG d G v v' := by
  rcases h with h | ⟨_, h⟩ | ⟨h, _⟩ | ⟨h, _⟩
  · subst h; exact InsG.refl hn
  · exact ⟨h, hn⟩
  · rw [h2] at h; cases h
  · rw [h3] at h; cases h

theorem valCase_items {f : KwFn} {v v' : Json}
    (h3 : f.okMap = false) (h : ValCase d f v v') (hn : RefsIn G v') : ItemsVal d G v v' := by
  rcases h with h | ⟨_, h⟩ | ⟨_, _, vs, vs', rfl, rfl, h⟩ | ⟨h, _⟩
  · subst h; exact .inl (InsG.refl hn)
  · exact .inl ⟨h, hn⟩
  · exact .inr ⟨vs, vs', rfl, rfl, insList_all₂ vs vs' h hn⟩
  · rw [h3] at h; cases h

theorem insArrG_refl {v : Json} (hn : RefsIn G v) : InsArrG d G v v := by
  cases v
  case arr vs => exact .arr (all₂_insG_refl hn)
  all_goals exact .other _ rfl

theorem insMapG_refl {v : Json} (hn : RefsIn G v) : InsMapG d G v v := by
  cases v
  case obj ms => exact .map (all₂_entG_refl hn)
  all_goals exact .other _ rfl

theorem valCase_arr {f : KwFn} {v v' : Json} (h1 : f.okSchema = false)
    (h3 : f.okMap = false) (h : ValCase d f v v') (hn : RefsIn G v') : InsArrG d G v v' := by
  rcases h with h | ⟨h, _⟩ | ⟨_, _, vs, vs', rfl, rfl, h⟩ | ⟨h, _⟩
  · subst h; exact insArrG_refl hn
  · rw [h1] at h; cases h
  · exact .arr (insList_all₂ vs vs' h hn)
  · rw [h3] at h; cases h

theorem valCase_map {f : KwFn} {v v' : Json} (h1 : f.okSchema = false)
    (h2 : f.okArr = false) (h : ValCase d f v v') (hn : RefsIn G v') : InsMapG d G v v' := by
  rcases h with h | ⟨h, _⟩ | ⟨h, _⟩ | ⟨_, ms, ms', rfl, rfl, h⟩
  · subst h; exact insMapG_refl hn
  · rw [h1] at h; cases h
  · rw [h2] at h; cases h
  · exact .map (insMap_all₂ ms ms' h hn)

theorem valCase_disallow {v v' : Json} (h : ValCase d .disallow_draft3 v v') (hn : RefsIn G v') :
    v = v' ∨ ∃ vs vs', v = .arr vs ∧ v' = .arr vs' ∧
      All₂ (fun a b => InsG d G (.obj [(skey "type", .arr [a])]) (.obj [(skey "type", .arr [b])])) vs vs' := by
  rcases h with h | ⟨h, _⟩ | ⟨_, ht, vs, vs', rfl, rfl, h⟩ | ⟨h, _⟩
  · exact .inl h
  · cases h
  · refine .inr ⟨vs, vs', rfl, rfl, ?_⟩
    refine All₂.imp (fun a b hab => ?_) (insList_all₂ vs vs' h hn)
    exact ⟨.obj (.keep _ _ _ (.schemas _ _ _ (ht rfl) (.cons _ _ hab.1 .nil)) .nil), hab.2.typeObj⟩
  · cases h

/-- what the proof needs of the `$ref` keyword function, for the two behaviours of the subschemas -/
def RefOK (SR : RState → RState → Prop) (G : Str → Prop) (env : Env) (rec rec' : Rec) : Prop :=
  ∀ ref inst, (∀ r, ref = .str r → G r) → SimR SR (kwRef env rec ref inst) (kwRef env rec' ref inst)

theorem applyKw_simR {rec rec' : Rec} (hrec : RecRelR SR d G rec rec') (env : Env)
    (href : RefOK SR G env rec rec') (impl : FmtImpl)
    (cfg : Cfg) (hty : TyOK cfg) (f : KwFn) {v v' : Json} (hv : ValCase d f v v')
    (hn : RefsIn G v') (hvG : f = .ref → ∀ r, v' = .str r → G r) (inst : Json) {s s' : Json} (hs : SibRel d G s s') :
    SimR SR (applyKw env impl cfg rec f v inst s) (applyKw env impl cfg rec' f v' inst s') := by
  cases f
  case ref =>
    cases valCase_data rfl rfl rfl hv
    exact href v inst (hvG rfl)
  case additionalItems => exact kwAdditionalItems_simR hrec cfg hty (valCase_sch rfl rfl hv hn) inst hs.items
  case additionalProperties =>
    exact kwAdditionalProperties_simR hrec env cfg hty (valCase_sch rfl rfl hv hn) inst hs.props hs.pprops
  case contains => exact kwContains_simR hrec cfg (valCase_sch rfl rfl hv hn) inst
  case not_ => exact kwNot_simR hrec (valCase_sch rfl rfl hv hn) inst
  case if_ => exact kwIf_simR hrec (valCase_sch rfl rfl hv hn) inst hs.then_ hs.else_
  case propertyNames => exact kwPropertyNames_simR hrec cfg (valCase_sch rfl rfl hv hn) inst
  case items => exact kwItems_simR hrec cfg hty (valCase_items rfl hv hn) inst
  case items_draft3_draft4 => exact kwItemsDraft3Draft4_simR hrec cfg hty (valCase_items rfl hv hn) inst
  case extends_draft3 => exact kwExtendsDraft3_simR hrec cfg hty (valCase_items rfl hv hn) inst
  case allOf => exact kwAllOf_simR hrec (valCase_arr rfl rfl hv hn) inst
  case anyOf => exact kwAnyOf_simR hrec (valCase_arr rfl rfl hv hn) inst
  case oneOf => exact kwOneOf_simR hrec (valCase_arr rfl rfl hv hn) inst
  case type_draft3 => exact kwTypeDraft3_simR hrec cfg (valCase_arr rfl rfl hv hn) inst
  case disallow_draft3 => exact kwDisallowDraft3_simR hrec inst (valCase_disallow hv hn) hn
  case properties => exact kwProperties_simR hrec cfg (valCase_map rfl rfl hv hn) inst
  case patternProperties => exact kwPatternProperties_simR hrec env cfg (valCase_map rfl rfl hv hn) inst
  case dependencies => exact kwDependencies_simR hrec cfg (valCase_map rfl rfl hv hn) inst
  case dependencies_draft3 => exact kwDependenciesDraft3_simR hrec cfg hty (valCase_map rfl rfl hv hn) inst
  case properties_draft3 => exact kwPropertiesDraft3_simR hrec cfg (valCase_map rfl rfl hv hn) inst s s'
  case minimum_draft3_draft4 =>
    cases valCase_data rfl rfl rfl hv
    exact kwMinimumDraft3Draft4_simR cfg v inst hs.exMin
  case maximum_draft3_draft4 =>
    cases valCase_data rfl rfl rfl hv
    exact kwMaximumDraft3Draft4_simR cfg v inst hs.exMax
  case const => cases valCase_data rfl rfl rfl hv; exact kwConst_refl _ _
  case exclusiveMinimum => cases valCase_data rfl rfl rfl hv; exact kwBound_refl _ _ _ _ _
  case exclusiveMaximum => cases valCase_data rfl rfl rfl hv; exact kwBound_refl _ _ _ _ _
  case minimum => cases valCase_data rfl rfl rfl hv; exact kwBound_refl _ _ _ _ _
  case maximum => cases valCase_data rfl rfl rfl hv; exact kwBound_refl _ _ _ _ _
  case multipleOf => cases valCase_data rfl rfl rfl hv; exact kwMultipleOf_refl _ _ _
  case minItems => cases valCase_data rfl rfl rfl hv; exact kwLenBound_refl _ _ _ _ _ _ _
  case maxItems => cases valCase_data rfl rfl rfl hv; exact kwLenBound_refl _ _ _ _ _ _ _
  case uniqueItems => cases valCase_data rfl rfl rfl hv; exact kwUniqueItems_refl _ _ _
  case pattern => cases valCase_data rfl rfl rfl hv; exact kwPattern_refl _ _ _ _
  case format => cases valCase_data rfl rfl rfl hv; exact kwFormat_refl _ _ _ _ _
  case minLength => cases valCase_data rfl rfl rfl hv; exact kwLenBound_refl _ _ _ _ _ _ _
  case maxLength => cases valCase_data rfl rfl rfl hv; exact kwLenBound_refl _ _ _ _ _ _ _
  case enum => cases valCase_data rfl rfl rfl hv; exact kwEnum_refl _ _
  case type => cases valCase_data rfl rfl rfl hv; exact kwType_refl _ _ _
  case required => cases valCase_data rfl rfl rfl hv; exact kwRequired_refl _ _ _
  case minProperties => cases valCase_data rfl rfl rfl hv; exact kwLenBound_refl _ _ _ _ _ _ _
  case maxProperties => cases valCase_data rfl rfl rfl hv; exact kwLenBound_refl _ _ _ _ _ _ _
  case alwaysFail => exact SimR.emit rfl
  case never => exact SimR.nothing
  case foreign => exact SimR.crashG _

/-! ### the keyword loop, one layer, the whole evaluation -/

section Loop
variable {rec rec' : Rec} (hrec : RecRelR SR d G rec rec') (env : Env) (href : RefOK SR G env rec rec')
  (impl : FmtImpl) (fc : Option FormatChecker) (inst : Json)
include hrec href

theorem runKeyword_simR {key : Str} {v v' : Json} (hv : InsVal d key v v') (hn : RefsIn G v')
    (hkG : key = skey "$ref" → ∀ r, v' = .str r → G r) {s s' : Json} (hs : SibRel d G s s') :
    SimR SR (runKeyword env impl (d.cfg fc) rec inst s (key, v))
         (runKeyword env impl (d.cfg fc) rec' inst s' (key, v')) := by
  unfold runKeyword
  show SimR SR (match lookupS key d.keywords with | none => _ | some f => _)
            (match lookupS key d.keywords with | none => _ | some f => _)
  cases hl : lookupS key d.keywords with
  | none => exact SimR.nothing
  | some f =>
    have hfr : f = .ref → key = skey "$ref" := by
      intro e
      have := List.all_eq_true.mp (tbl_ref d) _ (lookupS_mem hl)
      simp only [decide_eq_true_eq] at this
      exact this e
    exact SimR.mapErrs (applyKw_simR hrec env href impl (d.cfg fc) (tyOK_draft d fc) f
      (valCase_of_insVal hl hv) hn (fun e => hkG (hfr e)) inst hs) (fun e e' h => eraseDeep_stamp _ _ _ _ _ _ e e' h)

theorem seqG_insMembers {s s' : Json} (hs : SibRel d G s s') :
    ∀ (kvs' kvs : List (Str × Json)), InsMembers d kvs kvs' → RefsIn G (.obj kvs') →
      SimR SR (seqG (runKeyword env impl (d.cfg fc) rec inst s) kvs)
           (seqG (runKeyword env impl (d.cfg fc) rec' inst s') kvs')
  | [], _, h, _ => by cases h; exact SimR.nothing
  | (k, v') :: kvs', kvs, h, hn => by
    cases h with
    | insert _ _ hin hrest =>
      show SimR SR _ (andThen (runKeyword env impl (d.cfg fc) rec' inst s' (k, v')) (seqG _ kvs'))
      rw [runKeyword_unknown env impl (d.cfg fc) rec' inst s' k v' hin.1, andThen_nothing_left]
      exact seqG_insMembers hs kvs' kvs hrest hn.obj_tail
    | @keep kvs0 _ _ v _ hval hrest =>
      refine SimR.andThen (runKeyword_simR hrec env href impl fc inst hval
        (hn.obj_mem (k, v') (List.mem_cons_self ..)) (fun hk r hr => ?_) hs)
        (seqG_insMembers hs kvs' kvs0 hrest hn.obj_tail)
      subst hk hr
      exact hn.obj_ref (List.mem_cons_self ..)

end Loop

theorem evalStep_simR (hc : ScopeCompat SR) {rec rec' : Rec} (hrec : RecRelR SR d G rec rec') (env : Env)
    (href : RefOK SR G env rec rec') (impl : FmtImpl) (fc : Option FormatChecker) :
    RecRelR SR d G (evalStep env impl (d.cfg fc) rec) (evalStep env impl (d.cfg fc) rec') := by
  intro inst s s' hss
  obtain ⟨hi, hn⟩ := hss
  have main : ∀ kvs kvs', InsMembers d kvs kvs' → RefsIn G (.obj kvs') →
      SimR SR (evalStep env impl (d.cfg fc) rec inst (.obj kvs)) (evalStep env impl (d.cfg fc) rec' inst (.obj kvs')) := by
    intro kvs kvs' hm hn
    show SimR SR (match scopeOf (d.cfg fc) kvs with
               | .ok scope => withScopeOpt env scope (schemaBody env impl (d.cfg fc) rec inst kvs)
               | .error cls => crashG cls)
              (match scopeOf (d.cfg fc) kvs' with
               | .ok scope => withScopeOpt env scope (schemaBody env impl (d.cfg fc) rec' inst kvs')
               | .error cls => crashG cls)
    rw [scopeOf_insMembers d fc hm]
    cases scopeOf (d.cfg fc) kvs with
    | error cls => exact SimR.crashG _
    | ok scope =>
      refine SimR.withScopeOpt hc env scope ?_
      have hr' : Json.lookup (skey "$ref") kvs' = Json.lookup (skey "$ref") kvs :=
        lookup_insMembers_eq (not_inert_ref d) (ref_not_keys d).1 (ref_not_keys d).2.1 (ref_not_keys d).2.2 hm
      have hloop := seqG_insMembers hrec env href impl fc inst (sibRel_of_insMembers hm hn) kvs' kvs hm hn
      unfold schemaBody
      rw [hr']
      cases hl : Json.lookup (skey "$ref") kvs with
      | none => exact hloop
      | some ref =>
        rw [hl] at hr'
        have href : SimR SR (runKeyword env impl (d.cfg fc) rec inst (.obj kvs) (skey "$ref", ref))
            (runKeyword env impl (d.cfg fc) rec' inst (.obj kvs') (skey "$ref", ref)) :=
          runKeyword_simR hrec env href impl fc inst (.same _ _) (hn.lookup hr')
            (fun _ r hr => by subst hr; exact hn.obj_ref (lookup_mem hr')) (sibRel_of_insMembers hm hn)
        cases ref <;> first | exact hloop | exact href
  cases hi with
  | same =>
    cases s
    case obj kvs => exact main _ _ (insMembers_refl d _) hn
    case bool b =>
      cases b
      · exact SimR.emit rfl
      · exact SimR.nothing
    all_goals exact SimR.crashG _
  | obj hm => exact main _ _ hm hn

end Port

/-- the whole evaluation, on two related states -/
theorem eval_recRelR (d : Draft) (env : Env) (G : Str → Prop) (hw : WorldCovered env G) (hE : G [])
    (impl : FmtImpl) (fc : Option FormatChecker) :
    ∀ fuel, RecRelR (StR d env G) d G (eval env impl (d.cfg fc) fuel) (eval env impl (d.cfg fc) fuel)
  | 0 => fun _ _ _ _ => SimR.stopG _
  | n + 1 =>
    evalStep_simR scopeCompat_StR (eval_recRelR d env G hw hE impl fc n) env
      (fun ref inst hG => kwRef_simR hw hE (fun i s s' h h' => eval_recRelR d env G hw hE impl fc n i s s' ⟨h, h'⟩)
        ref inst hG) impl fc

/-! ### pointer navigation commutes with insertion (a way to establish `Spec.Lands`) -/

section Pointer
variable {d : Draft}

theorem lookup_key_mem {c : Str} {u : Json} {kvs : List (Str × Json)} (h : Json.lookup c kvs = some u) :
    c ∈ kvs.map (·.1) :=
  List.mem_map.2 ⟨(c, u), lookup_mem h, rfl⟩

/-- a member of the unprimed object is found again, under the same key, in the primed object —
    provided the primed object has no duplicate keys (an inserted member could otherwise shadow a
    kept foreign member of the same name) -/
theorem lookup_insMembers_nodup : ∀ (kvs' kvs : List (Str × Json)), InsMembers d kvs kvs' →
    (kvs'.map (·.1)).Nodup → ∀ c u, Json.lookup c kvs = some u →
      ∃ u', Json.lookup c kvs' = some u' ∧ InsVal d c u u'
  | [], _, h, _, c, u, hl => by cases h; cases hl
  | (key, v') :: kvs', kvs, h, hnd, c, u, hl => by
    rw [List.map_cons, List.nodup_cons] at hnd
    cases h with
    | insert _ _ _ hrest =>
      obtain ⟨u', hl', hv⟩ := lookup_insMembers_nodup kvs' kvs hrest hnd.2 c u hl
      refine ⟨u', ?_, hv⟩
      have hk : key ≠ c := fun e => hnd.1 (e ▸ lookup_key_mem hl')
      show (if key = c then some v' else Json.lookup c kvs') = some u'
      rw [if_neg hk]
      exact hl'
    | @keep kvs0 _ _ v _ hval hrest =>
      have hl0 : (if key = c then some v else Json.lookup c kvs0) = some u := hl
      show ∃ u', (if key = c then some v' else Json.lookup c kvs') = some u' ∧ _
      by_cases hk : key = c
      · rw [if_pos hk] at hl0
        rw [if_pos hk]
        cases hl0
        subst hk
        exact ⟨v', rfl, hval⟩
      · rw [if_neg hk] at hl0
        rw [if_neg hk]
        exact lookup_insMembers_nodup kvs' kvs0 hrest hnd.2 c u hl0

theorem insList_get : ∀ {vs vs' : List Json}, InsList d vs vs' → ∀ (n : Nat) (u : Json), vs[n]? = some u →
    ∃ u', vs'[n]? = some u' ∧ Ins d u u'
  | _, _, .nil, n, u, h => by simp at h
  | _, _, .cons v v' hv hrest, 0, u, h => by
    simp only [List.getElem?_cons_zero, Option.some.injEq] at h
    subst h
    exact ⟨v', by simp, hv⟩
  | _, _, .cons v v' hv hrest, n + 1, u, h => by
    simp only [List.getElem?_cons_succ] at h
    obtain ⟨u', h', hu⟩ := insList_get hrest n u h
    exact ⟨u', by simpa using h', hu⟩

theorem posRel_of_insVal {c : Str} {u u' : Json} (h : InsVal d c u u') : PosRel d u u' := by
  cases h with
  | same => exact .ins (.same _)
  | schema _ _ _ _ hi => exact .ins hi
  | schemas _ _ _ _ hl => exact .list hl
  | schemaMap _ _ _ _ hm => exact .map hm

theorem noDupKeysList_mem : ∀ {xs : List Json}, NoDupKeys.NoDupKeysList xs → ∀ x ∈ xs, NoDupKeys x
  | y :: ys, h, x, hx => by
    simp only [NoDupKeys.NoDupKeysList] at h
    cases hx with
    | head => exact h.1
    | tail _ hx => exact noDupKeysList_mem h.2 x hx

theorem noDupKeysKvs_mem : ∀ {kvs : List (Str × Json)}, NoDupKeys.NoDupKeysKvs kvs → ∀ kv ∈ kvs, NoDupKeys kv.2
  | (c, w) :: rest, h, kv, hx => by
    simp only [NoDupKeys.NoDupKeysKvs] at h
    cases hx with
    | head => exact h.1
    | tail _ hx => exact noDupKeysKvs_mem h.2 kv hx

theorem noDupKeys_ptrStep {doc u : Json} {tok : Str} (h : NoDupKeys doc) (hs : ptrStep doc tok = some u) :
    NoDupKeys u := by
  unfold JS.ptrStep at hs
  cases doc with
  | obj kvs =>
    unfold NoDupKeys at h
    exact noDupKeysKvs_mem h.2 _ (lookup_mem hs)
  | arr xs =>
    unfold NoDupKeys at h
    dsimp only at hs
    cases hi : arrayIndex? tok with
    | none => rw [hi] at hs; cases hs
    | some n =>
      rw [hi] at hs
      exact noDupKeysList_mem h u (List.mem_of_getElem? hs)
  | _ => cases hs

/-- one step of the pointer walk -/
theorem ptrStep_posRel {t t' u : Json} {tok : Str} (h : PosRel d t t') (hnd : NoDupKeys t')
    (hs : ptrStep t tok = some u) : ∃ u', ptrStep t' tok = some u' ∧ PosRel d u u' := by
  cases h with
  | ins hi =>
    cases hi with
    | same => exact ⟨u, hs, .ins (.same _)⟩
    | obj hm =>
      unfold NoDupKeys at hnd
      obtain ⟨u', hl', hv⟩ := lookup_insMembers_nodup _ _ hm hnd.1 tok u hs
      exact ⟨u', hl', posRel_of_insVal hv⟩
  | list hl =>
    unfold JS.ptrStep at hs ⊢
    dsimp only at hs ⊢
    cases hi : arrayIndex? tok with
    | none => rw [hi] at hs; cases hs
    | some n =>
      rw [hi] at hs
      obtain ⟨u', h', hu⟩ := insList_get hl n u hs
      exact ⟨u', h', .ins hu⟩
  | map hm =>
    have := insMap_lookup (c := tok) hm
    unfold JS.ptrStep at hs ⊢
    dsimp only at hs ⊢
    rw [hs] at this
    revert this
    generalize Json.lookup tok _ = o'
    intro this
    cases this with
    | some hu => exact ⟨_, rfl, .ins hu⟩

theorem ptrWalk_posRel (toks : List Str) : ∀ {t t' u : Json}, PosRel d t t' → NoDupKeys t' →
    ptrWalk t toks = some u → ∃ u', ptrWalk t' toks = some u' ∧ PosRel d u u' := by
  induction toks with
  | nil =>
    intro t t' u h _ hw
    unfold JS.ptrWalk at hw
    cases hw
    exact ⟨t', rfl, h⟩
  | cons tok toks ih =>
    intro t t' u h hnd hw
    unfold JS.ptrWalk at hw ⊢
    cases hs : JS.ptrStep t tok with
    | none => rw [hs] at hw; cases hw
    | some m =>
      rw [hs] at hw
      obtain ⟨m', hs', hm⟩ := ptrStep_posRel h hnd hs
      rw [hs']
      exact ih hm (noDupKeys_ptrStep hnd hs') hw

/-- **pointer navigation commutes with insertion**: a fragment that resolves in the unprimed
    document resolves in the primed one (which has no duplicate keys), to a value at a corresponding
    position -/
theorem resolveFragment_posRel {doc doc' t : Json} (h : Ins d doc doc') (hnd : NoDupKeys doc') (frag : Str)
    (hr : resolveFragment doc frag = some t) : ∃ t', resolveFragment doc' frag = some t' ∧ PosRel d t t' :=
  ptrWalk_posRel _ (.ins h) hnd hr

end Pointer

end NestedRefs
end JS
