/- Helper lemmas for knowledge transparency (C15 `cache_transparent`, C07 `history_independent`).

  Two resolver states over the same caller-supplied store `base` and the same stable world behave
  alike.  One-sided formulation: a state that is *faithful* to `base` and the world (`Know`) answers
  every `resolve` like the state-independent function `ideal` (`resolve_know`), up to the attempt
  number inside an oracle miss `Stop.miss (.fetch n u)` (the model's `resolveRemote` reports the
  resolver's own clock there, and two resolvers that know different things have different clocks).
  `RK` is the binary relation on generators built from this; it is `Closed₂`, so it passes through
  the evaluator (`eval_RK`), the operations on one validator (`stepOp_sim`) and histories
  (`runHist_sim`).

  `StableFetchS`, `StoreFaithfulS`, `MemoFaithfulS`, `SameWorldS` are the same propositions as
  `JS.Props.C15.StableFetch` etc. (this file may not import the Props files). -/
import JS.Proofs.Store
import JS.Proofs.Framework2
import JS.Proofs.Ref
namespace JS
namespace Knowledge

/-! ### the state invariant -/

/-- retrieval is stable (the same proposition as `JS.Props.C15.StableFetch`) -/
def StableFetchS (env : Env) : Prop :=
  (∀ n m u, env.fetch n u = env.fetch m u)
  ∧ (∀ n u u' k, env.urinorm u = some k → env.urinorm u' = some k → env.fetch n u = env.fetch n u')

/-- (the same proposition as `JS.Props.C15.StoreFaithful`) -/
def StoreFaithfulS (env : Env) (base : List (Str × Json)) (st : RState) : Prop :=
  ∀ k v, Json.lookup k st.store = some v →
    Json.lookup k base = some v ∨ (Json.lookup k base = none ∧ ∃ u, env.urinorm u = some k ∧ env.fetch 0 u = some (some v))

/-- what `MemoFaithful` says of one memo entry -/
def EntryOK (env : Env) (base : List (Str × Json)) (url : Str) (v : Json) : Prop :=
  ∃ u frag k doc, env.urldefrag url = some (u, frag) ∧ env.urinorm u = some k ∧ resolveFragment doc frag = some v
    ∧ (Json.lookup k base = some doc ∨ (Json.lookup k base = none ∧ env.fetch 0 u = some (some doc)))

/-- (the same proposition as `JS.Props.C15.MemoFaithful`) -/
def MemoFaithfulS (env : Env) (base : List (Str × Json)) (st : RState) : Prop :=
  ∀ url v, Json.lookup url st.memo = some v → EntryOK env base url v

/-- one side of `SameWorld`: the state holds `base` and is faithful to it and to the world -/
structure Know (env : Env) (base : List (Str × Json)) (st : RState) : Prop where
  holds : ∀ k v, Json.lookup k base = some v → Json.lookup k st.store = some v
  store : StoreFaithfulS env base st
  memo : MemoFaithfulS env base st

/-- (the same proposition as `JS.Props.C15.SameWorld`) -/
structure SameWorldS (env : Env) (base : List (Str × Json)) (st st' : RState) : Prop where
  scopes : st.scopes = st'.scopes
  left : Know env base st
  right : Know env base st'

theorem SameWorldS.top {env : Env} {base : List (Str × Json)} {st st' : RState}
    (h : SameWorldS env base st st') : st.top = st'.top := by
  unfold RState.top
  rw [h.scopes]

theorem Know.base_none {env : Env} {base : List (Str × Json)} {st : RState} (hk : Know env base st)
    {k : Str} (hs : Json.lookup k st.store = none) : Json.lookup k base = none := by
  cases hb : Json.lookup k base with
  | none => rfl
  | some d =>
    have := hk.holds k d hb
    rw [hs] at this
    cases this

/-- `Know` does not look at the scope stack -/
theorem Know.setScopes {env : Env} {base : List (Str × Json)} {st : RState} (hk : Know env base st)
    (x : List Str) : Know env base { st with scopes := x } :=
  ⟨hk.holds, hk.store, hk.memo⟩

/-! ### the document a URI stands for, and the state-independent `resolve` -/

/-- the document the URI `u` with key `k` stands for: the caller's, else what retrieval yields -/
def trueDoc (env : Env) (base : List (Str × Json)) (u k : Str) : Option (Option Json) :=
  match Json.lookup k base with
  | some d => some (some d)
  | none => env.fetch 0 u

theorem trueDoc_iff {env : Env} {base : List (Str × Json)} {u k : Str} {doc : Json} :
    (Json.lookup k base = some doc ∨ (Json.lookup k base = none ∧ env.fetch 0 u = some (some doc)))
      ↔ trueDoc env base u k = some (some doc) := by
  unfold trueDoc
  cases hb : Json.lookup k base with
  | none => simp
  | some d => simp

theorem trueDoc_of_store {env : Env} {base : List (Str × Json)} (hf : StableFetchS env) {st : RState}
    (hk : Know env base st) {u k : Str} {doc : Json} (hn : env.urinorm u = some k)
    (hs : Json.lookup k st.store = some doc) : trueDoc env base u k = some (some doc) := by
  apply trueDoc_iff.1
  rcases hk.store k doc hs with h | ⟨hb, u1, hn1, hf1⟩
  · exact Or.inl h
  · exact Or.inr ⟨hb, by rw [hf.2 0 u u1 k hn hn1]; exact hf1⟩

theorem trueDoc_of_miss {env : Env} {base : List (Str × Json)} {st : RState}
    (hk : Know env base st) {u k : Str} (hs : Json.lookup k st.store = none) :
    trueDoc env base u k = env.fetch 0 u := by
  unfold trueDoc
  rw [hk.base_none hs]

def fromDoc (q : Query) (frag : Str) : Option (Option Json) → Res Json
  | none => .miss q
  | some none => .raise .refResolution
  | some (some doc) => fragRes doc frag

/-- `resolve_from_url` of a resolver that knows exactly `base` and has made no attempt yet -/
def idealFrom (env : Env) (base : List (Str × Json)) (url : Str) : Res Json :=
  match env.urldefrag url with
  | none => .miss (.urldefrag url)
  | some (u, frag) =>
    match env.urinorm u with
    | none => .miss (.urinorm u)
    | some k => fromDoc (.fetch 0 u) frag (trueDoc env base u k)

def ideal (env : Env) (base : List (Str × Json)) (top ref : Str) : Res (Str × Json) :=
  match env.urljoin top ref with
  | none => .miss (.urljoin top ref)
  | some url =>
    match idealFrom env base url with
    | .ok v => .ok (url, v)
    | .raise e => .raise e
    | .miss q => .miss q

theorem fragRes_ok {doc : Json} {frag : Str} {v : Json} :
    fragRes doc frag = .ok v ↔ resolveFragment doc frag = some v := by
  unfold fragRes
  cases resolveFragment doc frag <;> simp

/-- equal, or both the oracle's "no answer" for a retrieval of the same URI (the attempt numbers
    may differ; the witness says that the oracle really has no answer) -/
def ResSim (env : Env) {α : Type} (r i : Res α) : Prop :=
  r = i ∨ ∃ n u, r = .miss (.fetch n u) ∧ i = .miss (.fetch 0 u) ∧ env.fetch 0 u = none

theorem resSim_join {env : Env} {α : Type} {r r' i : Res α} (h : ResSim env r i) (h' : ResSim env r' i) :
    r = r' ∨ ∃ n m u, r = .miss (.fetch n u) ∧ r' = .miss (.fetch m u) ∧ env.fetch 0 u = none := by
  rcases h with rfl | ⟨n, u, rfl, rfl, hn⟩
  · rcases h' with rfl | ⟨m, u', rfl, rfl, hm⟩
    · exact Or.inl rfl
    · exact Or.inr ⟨0, m, u', rfl, rfl, hm⟩
  · rcases h' with rfl | ⟨m, u', rfl, hi, hm⟩
    · exact Or.inr ⟨n, 0, u, rfl, rfl, hn⟩
    · cases hi
      exact Or.inr ⟨n, m, u, rfl, rfl, hn⟩

/-! ### `resolve` on a faithful state -/

theorem know_fetched {env : Env} {base : List (Str × Json)} {st : RState} (hk : Know env base st)
    {u key : Str} {doc : Json} (hn : env.urinorm u = some key) (hs : Json.lookup key st.store = none)
    (hfe : env.fetch 0 u = some (some doc)) (c : Nat) (l : List (Str × Bool)) :
    Know env base { st with clock := c, fetchLog := l,
                            store := if st.cacheRemote then storeSet key doc st.store else st.store } := by
  refine ⟨fun k v h => ?_, fun k v h => ?_, hk.memo⟩
  · dsimp only
    split
    · exact lookup_storeSet_fresh hs (hk.holds k v h)
    · exact hk.holds k v h
  · dsimp only at h
    split at h
    · by_cases he : k = key
      · subst he
        rw [lookup_storeSet_self] at h
        cases h
        exact Or.inr ⟨hk.base_none hs, u, hn, hfe⟩
      · rw [lookup_storeSet_ne he] at h
        exact hk.store k v h
    · exact hk.store k v h

theorem resolveFromUrl_know {env : Env} {base : List (Str × Json)} (hf : StableFetchS env) {st : RState}
    (hk : Know env base st) (url : Str) :
    ResSim env (resolveFromUrl env url st).1 (idealFrom env base url)
    ∧ Know env base (resolveFromUrl env url st).2
    ∧ ∀ v, (resolveFromUrl env url st).1 = .ok v → EntryOK env base url v := by
  unfold resolveFromUrl idealFrom
  cases hd : env.urldefrag url with
  | none => exact ⟨Or.inl rfl, hk, fun v h => by cases h⟩
  | some p =>
    obtain ⟨u, frag⟩ := p
    dsimp only
    cases hn : env.urinorm u with
    | none => exact ⟨Or.inl rfl, hk, fun v h => by cases h⟩
    | some key =>
      dsimp only
      cases hs : Json.lookup key st.store with
      | some doc =>
        dsimp only
        have ht := trueDoc_of_store hf hk hn hs
        rw [ht]
        refine ⟨Or.inl rfl, hk, fun v h => ?_⟩
        exact ⟨u, frag, key, doc, hd, hn, fragRes_ok.1 h, trueDoc_iff.2 ht⟩
      | none =>
        dsimp only
        have ht := trueDoc_of_miss (u := u) hk hs
        rw [ht, hf.1 0 st.clock u]
        unfold resolveRemote
        cases hfe : env.fetch st.clock u with
        | none =>
          refine ⟨Or.inr ⟨st.clock, u, rfl, rfl, ?_⟩, hk, fun v h => by cases h⟩
          rw [hf.1 0 st.clock u]
          exact hfe
        | some o =>
          cases o with
          | none => exact ⟨Or.inl rfl, ⟨hk.holds, hk.store, hk.memo⟩, fun v h => by cases h⟩
          | some doc =>
            have hfe0 : env.fetch 0 u = some (some doc) := by
              rw [hf.1 0 st.clock u]
              exact hfe
            refine ⟨Or.inl rfl, know_fetched hk hn hs hfe0 _ _, fun v h => ?_⟩
            exact ⟨u, frag, key, doc, hd, hn, fragRes_ok.1 h, Or.inr ⟨hk.base_none hs, hfe0⟩⟩

/-- **one `resolve` on a faithful state**: it answers like `ideal` (which does not look at what the
    state has learnt) and leaves a faithful state -/
theorem resolve_know {env : Env} {base : List (Str × Json)} (hf : StableFetchS env) {st : RState}
    (hk : Know env base st) (ref : Str) :
    ResSim env (resolve env ref st).1 (ideal env base st.top ref)
    ∧ Know env base (resolve env ref st).2 := by
  unfold resolve ideal
  cases hj : env.urljoin st.top ref with
  | none => exact ⟨Or.inl rfl, hk⟩
  | some url =>
    dsimp only
    cases hl : Json.lookup url st.memo with
    | some v =>
      rw [memoLookup_of_some hl]
      dsimp only
      obtain ⟨u, frag, k, doc, hd, hn, hfr, hdoc⟩ := hk.memo url v hl
      have hi : idealFrom env base url = .ok v := by
        unfold idealFrom
        rw [hd]
        dsimp only
        rw [hn]
        dsimp only
        rw [trueDoc_iff.1 hdoc]
        exact fragRes_ok.2 hfr
      rw [hi]
      exact ⟨Or.inl rfl, ⟨hk.holds, hk.store, fun k w h => hk.memo k w (lookup_memo_hit hl h)⟩⟩
    | none =>
      rw [memoLookup_of_none hl]
      dsimp only
      obtain ⟨h1, h2, h3⟩ := resolveFromUrl_know hf hk url
      rcases hr : resolveFromUrl env url st with ⟨r, st1⟩
      rw [hr] at h1 h2 h3
      dsimp only at h1 h2 h3
      rcases h1 with h1 | ⟨n, u, h1, hi, hnone⟩
      · rw [← h1]
        cases r with
        | ok v =>
          refine ⟨Or.inl rfl, ⟨h2.holds, h2.store, fun k w h => ?_⟩⟩
          rcases lookup_memoInsert h with ⟨rfl, rfl⟩ | hold
          · exact h3 _ rfl
          · exact h2.memo k w hold
        | raise e => exact ⟨Or.inl rfl, h2⟩
        | miss q => exact ⟨Or.inl rfl, h2⟩
      · subst h1
        rw [hi]
        exact ⟨Or.inr ⟨n, u, rfl, rfl, hnone⟩, h2⟩

/-- two faithful states with the same scope stack: `resolve` gives the same result (up to the attempt
    number inside an oracle miss) and leaves two faithful states with the same scope stack -/
theorem resolve_sim {env : Env} {base : List (Str × Json)} (hf : StableFetchS env) {st st' : RState}
    (hw : SameWorldS env base st st') (ref : Str) :
    ((resolve env ref st).1 = (resolve env ref st').1
      ∨ ∃ n m u, (resolve env ref st).1 = .miss (.fetch n u) ∧ (resolve env ref st').1 = .miss (.fetch m u)
          ∧ env.fetch 0 u = none)
    ∧ SameWorldS env base (resolve env ref st).2 (resolve env ref st').2 := by
  obtain ⟨h1, k1⟩ := resolve_know hf hw.left ref
  obtain ⟨h2, k2⟩ := resolve_know hf hw.right ref
  rw [← hw.top] at h2
  refine ⟨resSim_join h1 h2, ?_, k1, k2⟩
  rw [resolve_scopes, resolve_scopes]
  exact hw.scopes

/-! ### the relation on generators -/

/-- equal, or both the oracle's "no answer" for a retrieval of the same URI -/
def StopSim (env : Env) (s s' : Stop) : Prop :=
  s = s' ∨ ∃ n m u, s = .miss (.fetch n u) ∧ s' = .miss (.fetch m u) ∧ env.fetch 0 u = none

theorem StopSim.eq {env : Env} {s s' : Stop} (h : StopSim env s s') (hans : ∀ n u, env.fetch n u ≠ none) :
    s = s' := by
  rcases h with h | ⟨_, _, u, _, _, hn⟩
  · exact h
  · exact absurd hn (hans 0 u)

/-- related states in, same errors, same stop (up to `StopSim`) and related states out -/
def RK (env : Env) (base : List (Str × Json)) (g g' : Gen) : Prop :=
  ∀ b st st', SameWorldS env base st st' →
    (g b st).errs = (g' b st').errs ∧ StopSim env (g b st).stop (g' b st').stop
      ∧ SameWorldS env base (g b st).st (g' b st').st

section
variable {env : Env} {base : List (Str × Json)}

theorem RK.emit (es : List Err) : RK env base (emit es) (emit es) := by
  intro b st st' hw
  unfold JS.emit
  cases b with
  | none => exact ⟨rfl, Or.inl rfl, hw⟩
  | some k =>
    dsimp only
    by_cases hlt : es.length < k
    · rw [if_pos hlt, if_pos hlt]
      exact ⟨rfl, Or.inl rfl, hw⟩
    · rw [if_neg hlt, if_neg hlt]
      exact ⟨rfl, Or.inl rfl, hw⟩

theorem RK.stop (s : Stop) : RK env base (stopG s) (stopG s) :=
  fun _ _ _ hw => ⟨rfl, Or.inl rfl, hw⟩

theorem RK.andThen {g g' h h' : Gen} (hg : RK env base g g') (hh : RK env base h h') :
    RK env base (andThen g h) (andThen g' h') := by
  intro b st st' hw
  unfold JS.andThen
  have h1 := hg b st st' hw
  rcases hgo : g b st with ⟨es, s, st1⟩
  rcases hgo' : g' b st' with ⟨es', s', st1'⟩
  rw [hgo, hgo'] at h1
  obtain ⟨he, hs, hw1⟩ := h1
  dsimp only at he hs hw1
  subst he
  rcases hs with rfl | ⟨n, m, u, rfl, rfl, hn⟩
  · cases s with
    | done =>
      dsimp only
      have h2 := hh (budgetSub b es.length) st1 st1' hw1
      rcases hho : h (budgetSub b es.length) st1 with ⟨es2, s2, st2⟩
      rcases hho' : h' (budgetSub b es.length) st1' with ⟨es2', s2', st2'⟩
      rw [hho, hho'] at h2
      obtain ⟨he2, hs2, hw2⟩ := h2
      dsimp only at he2 hs2 hw2 ⊢
      subst he2
      exact ⟨rfl, hs2, hw2⟩
    | budget => exact ⟨rfl, Or.inl rfl, hw1⟩
    | raised e => exact ⟨rfl, Or.inl rfl, hw1⟩
    | fuel => exact ⟨rfl, Or.inl rfl, hw1⟩
    | miss q => exact ⟨rfl, Or.inl rfl, hw1⟩
  · exact ⟨rfl, Or.inr ⟨n, m, u, rfl, rfl, hn⟩, hw1⟩

theorem RK.mapErrs (f : Err → Err) {g g' : Gen} (hg : RK env base g g') :
    RK env base (mapErrs f g) (mapErrs f g') := by
  intro b st st' hw
  unfold JS.mapErrs
  have h1 := hg b st st' hw
  rcases hgo : g b st with ⟨es, s, st1⟩
  rcases hgo' : g' b st' with ⟨es', s', st1'⟩
  rw [hgo, hgo'] at h1
  obtain ⟨he, hs, hw1⟩ := h1
  dsimp only at he hs hw1 ⊢
  subst he
  exact ⟨rfl, hs, hw1⟩

theorem RK.inner {g g' : Gen} (b' : Option Nat) (k k' : List Err → Gen) (hg : RK env base g g')
    (hk : ∀ es, RK env base (k es) (k' es)) : RK env base (inner g b' k) (inner g' b' k') := by
  intro b st st' hw
  unfold JS.inner
  have h1 := hg b' st st' hw
  rcases hgo : g b' st with ⟨es, s, st1⟩
  rcases hgo' : g' b' st' with ⟨es', s', st1'⟩
  rw [hgo, hgo'] at h1
  obtain ⟨he, hs, hw1⟩ := h1
  dsimp only at he hs hw1
  subst he
  rcases hs with rfl | ⟨n, m, u, rfl, rfl, hn⟩
  · cases s with
    | done => exact hk es b st1 st1' hw1
    | budget => exact hk es b st1 st1' hw1
    | raised e => exact ⟨rfl, Or.inl rfl, hw1⟩
    | fuel => exact ⟨rfl, Or.inl rfl, hw1⟩
    | miss q => exact ⟨rfl, Or.inl rfl, hw1⟩
  · exact ⟨rfl, Or.inr ⟨n, m, u, rfl, rfl, hn⟩, hw1⟩

theorem RK.withScope (scope : Str) {g g' : Gen} (hg : RK env base g g') :
    RK env base (withScope env scope g) (withScope env scope g') := by
  intro b st st' hw
  unfold JS.withScope
  rw [← hw.top]
  cases env.urljoin st.top scope with
  | none => exact ⟨rfl, Or.inl rfl, hw⟩
  | some u =>
    dsimp only
    have hw0 : SameWorldS env base { st with scopes := u :: st.scopes } { st' with scopes := u :: st'.scopes } :=
      ⟨by dsimp only; rw [hw.scopes], hw.left.setScopes _, hw.right.setScopes _⟩
    have h1 := hg b _ _ hw0
    rcases hgo : g b { st with scopes := u :: st.scopes } with ⟨es, s, st1⟩
    rcases hgo' : g' b { st' with scopes := u :: st'.scopes } with ⟨es', s', st1'⟩
    rw [hgo, hgo'] at h1
    obtain ⟨he, hs, hw1⟩ := h1
    dsimp only at he hs hw1 ⊢
    exact ⟨he, hs, by dsimp only; rw [hw1.scopes], hw1.left.setScopes _, hw1.right.setScopes _⟩

theorem RK.kwRef (hf : StableFetchS env) {rec rec' : Rec}
    (hrec : ∀ i s, RK env base (rec i s) (rec' i s)) (ref inst : Json) :
    RK env base (kwRef env rec ref inst) (kwRef env rec' ref inst) := by
  refine kwRef_cases₂ (R := RK env base) (fun hg hh => ?_) (fun r => ?_)
    (fun _ _ _ hw => ⟨rfl, Or.inl rfl, hw⟩) (fun _ _ _ hw => ⟨rfl, Or.inl rfl, hw⟩) ref
  · intro b st st' hw
    unfold ifTopEmpty
    rw [← hw.top]
    split
    · exact hg b st st' hw
    · exact hh b st st' hw
  intro b st st' hw
  rw [kwRef_str, kwRef_str]
  obtain ⟨h1, hw1⟩ := resolve_sim hf hw r
  rcases hr : resolve env r st with ⟨r1, st1⟩
  rcases hr' : resolve env r st' with ⟨r2, st2⟩
  rw [hr, hr'] at h1 hw1
  dsimp only at h1 hw1
  rcases h1 with rfl | ⟨n, m, u, rfl, rfl, hnone⟩
  · cases r1 with
    | ok p =>
      obtain ⟨url, target⟩ := p
      exact RK.withScope url (hrec inst target) b st1 st2 hw1
    | raise e => exact ⟨rfl, Or.inl rfl, hw1⟩
    | miss q => exact ⟨rfl, Or.inl rfl, hw1⟩
  · exact ⟨rfl, Or.inr ⟨n, m, u, rfl, rfl, hnone⟩, hw1⟩

theorem closed₂_RK (hf : StableFetchS env) : Closed₂ env (RK env base) where
  emit := RK.emit
  nothing := fun _ _ _ hw => ⟨rfl, Or.inl rfl, hw⟩
  stop := fun s _ => RK.stop s
  andThen := RK.andThen
  mapErrs := RK.mapErrs
  inner := RK.inner
  withScope := RK.withScope
  kwRef := RK.kwRef hf

/-- the evaluator respects `RK`, for every fuel -/
theorem eval_RK (hf : StableFetchS env) (impl : FmtImpl) (cfg : Cfg) :
    ∀ fuel i s, RK env base (eval env impl cfg fuel i s) (eval env impl cfg fuel i s)
  | 0 => fun _ _ => RK.stop .fuel
  | n + 1 => R_evalStep (closed₂_RK hf) impl cfg (eval_RK hf impl cfg n)

/-- knowledge is transparent, up to the attempt number inside an oracle miss -/
theorem eval_sim (hf : StableFetchS env) (impl : FmtImpl) (cfg : Cfg) (fuel : Nat) (i s : Json)
    (b : Option Nat) {st st' : RState} (hw : SameWorldS env base st st') :
    (eval env impl cfg fuel i s b st).errs = (eval env impl cfg fuel i s b st').errs
    ∧ StopSim env (eval env impl cfg fuel i s b st).stop (eval env impl cfg fuel i s b st').stop
    ∧ SameWorldS env base (eval env impl cfg fuel i s b st).st (eval env impl cfg fuel i s b st').st :=
  eval_RK hf impl cfg fuel i s b st st' hw

/-- … exactly, when the oracle answers every retrieval -/
theorem eval_sim_eq (hf : StableFetchS env) (hans : ∀ n u, env.fetch n u ≠ none) (impl : FmtImpl) (cfg : Cfg)
    (fuel : Nat) (i s : Json) (b : Option Nat) {st st' : RState} (hw : SameWorldS env base st st') :
    (eval env impl cfg fuel i s b st).errs = (eval env impl cfg fuel i s b st').errs
    ∧ (eval env impl cfg fuel i s b st).stop = (eval env impl cfg fuel i s b st').stop
    ∧ SameWorldS env base (eval env impl cfg fuel i s b st).st (eval env impl cfg fuel i s b st').st := by
  obtain ⟨h1, h2, h3⟩ := eval_sim hf impl cfg fuel i s b hw
  exact ⟨h1, h2.eq hans, h3⟩

theorem resolve_sim_eq (hf : StableFetchS env) (hans : ∀ n u, env.fetch n u ≠ none) {st st' : RState}
    (hw : SameWorldS env base st st') (ref : Str) :
    (resolve env ref st).1 = (resolve env ref st').1
    ∧ SameWorldS env base (resolve env ref st).2 (resolve env ref st').2 := by
  obtain ⟨h1, h2⟩ := resolve_sim hf hw ref
  refine ⟨?_, h2⟩
  rcases h1 with h1 | ⟨_, _, u, _, _, hn⟩
  · exact h1
  · exact absurd hn (hans 0 u)

/-! ### operations and histories -/

theorem isValid_congr {g g' : Gen} {st st' : RState}
    (he : (g (some 1) st).errs = (g' (some 1) st').errs) (hs : (g (some 1) st).stop = (g' (some 1) st').stop) :
    (isValid g st).1 = (isValid g' st').1 := by
  unfold isValid
  rcases hx : g (some 1) st with ⟨es, s, st1⟩
  rcases hx' : g' (some 1) st' with ⟨es', s', st1'⟩
  rw [hx, hx'] at he hs
  dsimp only at he hs
  subst he hs
  cases es with
  | nil => cases s <;> rfl
  | cons e es => rfl

theorem validateM_congr {g g' : Gen} {st st' : RState}
    (he : (g (some 1) st).errs = (g' (some 1) st').errs) (hs : (g (some 1) st).stop = (g' (some 1) st').stop) :
    (validateM g st).1 = (validateM g' st').1 := by
  unfold validateM
  rcases hx : g (some 1) st with ⟨es, s, st1⟩
  rcases hx' : g' (some 1) st' with ⟨es', s', st1'⟩
  rw [hx, hx'] at he hs
  dsimp only at he hs
  subst he hs
  cases es with
  | nil => cases s <;> rfl
  | cons e es => rfl

/-- one operation on two related states: the same observable result, related states -/
theorem stepOp_sim (hf : StableFetchS env) (hans : ∀ n u, env.fetch n u ≠ none) (impl : FmtImpl) (cfg : Cfg)
    (fuel : Nat) (schema : Json) {st st' : RState} (hw : SameWorldS env base st st') (op : Op) :
    (stepOp env impl cfg fuel schema st op).1 = (stepOp env impl cfg fuel schema st' op).1
    ∧ SameWorldS env base (stepOp env impl cfg fuel schema st op).2 (stepOp env impl cfg fuel schema st' op).2 := by
  cases op with
  | isValid i =>
    obtain ⟨h1, h2, h3⟩ := eval_sim_eq hf hans impl cfg fuel i schema (some 1) hw
    have hv := isValid_congr h1 h2
    have hs1 := isValid_st (eval env impl cfg fuel i schema) st
    have hs2 := isValid_st (eval env impl cfg fuel i schema) st'
    simp only [stepOp]
    rcases hx : isValid (eval env impl cfg fuel i schema) st with ⟨o, s1⟩
    rcases hx' : isValid (eval env impl cfg fuel i schema) st' with ⟨o', s2⟩
    rw [hx] at hv hs1
    rw [hx'] at hv hs2
    dsimp only at hv hs1 hs2
    subst hv hs1 hs2
    cases o <;> exact ⟨rfl, h3⟩
  | exhaust i =>
    obtain ⟨h1, h2, h3⟩ := eval_sim_eq hf hans impl cfg fuel i schema none hw
    simp only [stepOp]
    rcases hx : eval env impl cfg fuel i schema none st with ⟨es, s, st1⟩
    rcases hx' : eval env impl cfg fuel i schema none st' with ⟨es', s', st2⟩
    rw [hx, hx'] at h1 h2 h3
    dsimp only at h1 h2 h3 ⊢
    subst h1 h2
    exact ⟨rfl, h3⟩
  | validate i =>
    obtain ⟨h1, h2, h3⟩ := eval_sim_eq hf hans impl cfg fuel i schema (some 1) hw
    have hv := validateM_congr h1 h2
    have hs1 := validateM_st (eval env impl cfg fuel i schema) st
    have hs2 := validateM_st (eval env impl cfg fuel i schema) st'
    simp only [stepOp]
    rcases hx : validateM (eval env impl cfg fuel i schema) st with ⟨o, s1⟩
    rcases hx' : validateM (eval env impl cfg fuel i schema) st' with ⟨o', s2⟩
    rw [hx] at hv hs1
    rw [hx'] at hv hs2
    dsimp only at hv hs1 hs2
    subst hv hs1 hs2
    cases o <;> exact ⟨rfl, h3⟩
  | take k i =>
    simp only [stepOp]
    by_cases hk : k = 0
    · simp only [hk, if_true, true_and]
      exact hw
    · simp only [hk, if_false]
      obtain ⟨h1, h2, h3⟩ := eval_sim_eq hf hans impl cfg fuel i schema (some k) hw
      rcases hx : eval env impl cfg fuel i schema (some k) st with ⟨es, s, st1⟩
      rcases hx' : eval env impl cfg fuel i schema (some k) st' with ⟨es', s', st2⟩
      rw [hx, hx'] at h1 h2 h3
      dsimp only at h1 h2 h3 ⊢
      subst h1 h2
      exact ⟨rfl, h3⟩
  | resolve ref =>
    obtain ⟨h1, h2⟩ := resolve_sim_eq hf hans hw ref
    simp only [stepOp]
    rcases hx : resolve env ref st with ⟨r, s1⟩
    rcases hx' : resolve env ref st' with ⟨r', s2⟩
    rw [hx, hx'] at h1 h2
    dsimp only at h1 h2
    subst h1
    cases r with
    | ok p => obtain ⟨url, doc⟩ := p; exact ⟨rfl, h2⟩
    | raise e => exact ⟨rfl, h2⟩
    | miss q => exact ⟨rfl, h2⟩

end

/-- no operation changes the scope stack -/
theorem stepOp_scopes (env : Env) (impl : FmtImpl) (cfg : Cfg) (fuel : Nat) (schema : Json)
    (st : RState) (op : Op) : (stepOp env impl cfg fuel schema st op).2.scopes = st.scopes := by
  rcases stepOp_cases env impl cfg fuel schema st op with h | ⟨i, b, h⟩ | ⟨ref, h⟩
  · rw [h]
  · rw [h]; exact (scopeOK_eval env impl cfg fuel i schema).restore b st
  · rw [h]; exact resolve_scopes env ref st

theorem runHist_cons (env : Env) (impl : FmtImpl) (cfg : Cfg) (fuel : Nat) (schema : Json) (st : RState)
    (op : Op) (ops : List Op) :
    (runHist env impl cfg fuel schema st (op :: ops)).2
      = (runHist env impl cfg fuel schema (stepOp env impl cfg fuel schema st op).2 ops).2 := by
  rw [runHist]

/-- … nor does a history of operations -/
theorem runHist_scopes (env : Env) (impl : FmtImpl) (cfg : Cfg) (fuel : Nat) (schema : Json)
    (ops : List Op) : ∀ st, (runHist env impl cfg fuel schema st ops).2.scopes = st.scopes := by
  induction ops with
  | nil => intro st; rfl
  | cons op ops ih =>
    intro st
    rw [runHist_cons, ih, stepOp_scopes]

/-- every state a history reaches from a state related to `st₀` is related to `st₀` -/
theorem runHist_sim {env : Env} {base : List (Str × Json)} (hf : StableFetchS env)
    (hans : ∀ n u, env.fetch n u ≠ none) (impl : FmtImpl) (cfg : Cfg) (fuel : Nat) (schema : Json)
    (st₀ : RState) (ops : List Op) :
    ∀ σ, SameWorldS env base σ st₀ → SameWorldS env base (runHist env impl cfg fuel schema σ ops).2 st₀ := by
  induction ops with
  | nil => intro σ h; exact h
  | cons op ops ih =>
    intro σ h
    rw [runHist_cons]
    apply ih
    have h1 := (stepOp_sim hf hans impl cfg fuel schema h op).2
    exact ⟨by rw [stepOp_scopes]; exact h.scopes, h1.left, h.right⟩

/-- history independence on the model -/
theorem hist_indep {env : Env} (hf : StableFetchS env) (hans : ∀ n u, env.fetch n u ≠ none)
    (impl : FmtImpl) (cfg : Cfg) (fuel : Nat) (schema : Json) (st₀ : RState)
    (h₀ : SameWorldS env st₀.store st₀ st₀) (ops : List Op) (op : Op) :
    (stepOp env impl cfg fuel schema (runHist env impl cfg fuel schema st₀ ops).2 op).1
      = (stepOp env impl cfg fuel schema st₀ op).1 :=
  (stepOp_sim hf hans impl cfg fuel schema (runHist_sim hf hans impl cfg fuel schema st₀ ops st₀ h₀) op).1

/-! ### counterexamples to the exact statements: when the oracle lacks an answer for a retrieval,
    the stop `Stop.miss (.fetch n u)` shows the resolver's attempt counter `n`, and two resolvers that
    know different things have made different numbers of attempts -/
namespace Cex

/-- `urljoin` returns the reference, `urldefrag` splits at `#`, `urinorm` is the identity; the
    URI `a` is retrievable (the schema `true`), for every other URI the oracle has no answer -/
def env : Env :=
  ⟨fun _ _ => none, fun _ r => some r,
   fun u => some (u.takeWhile (· != '#'), (u.dropWhile (· != '#')).drop 1),
   fun u => some u, fun _ => none, fun _ => none, fun _ => none,
   fun _ u => if u = ['a'] then some (some (.bool true)) else none, fun _ _ => none⟩

theorem stable : StableFetchS env :=
  ⟨fun _ _ _ => rfl, fun _ u u' k h h' => by
    have e1 : u = k := Option.some.inj h
    have e2 : u' = k := Option.some.inj h'
    rw [e1, e2]⟩

def cfg : Cfg := ⟨[(skey "$ref", .ref), (skey "allOf", .allOf)], [], skey "id", none⟩
def impl : FmtImpl := ⟨fun _ _ => none⟩

/-- a fresh resolver with an empty store, after `clock` attempts -/
def st (cr : Bool) (clock : Nat) : RState :=
  { scopes := [], store := [], memo := [], memoCap := none, cacheRemote := cr, clock := clock, fetchLog := [] }

theorem know (cr : Bool) (c : Nat) : Know env [] (st cr c) :=
  ⟨fun _ _ h => (nomatch h), fun _ _ h => (nomatch h), fun _ _ h => (nomatch h)⟩

theorem sameWorld (cr cr' : Bool) (c c' : Nat) : SameWorldS env [] (st cr c) (st cr' c') :=
  ⟨rfl, know cr c, know cr' c'⟩

def missClock : Stop → Option Nat
  | .miss (.fetch n _) => some n
  | _ => none

def opClock : OpResult → Option Nat
  | .other s => missClock s
  | .errors _ s => missClock s
  | _ => none

def refTo (u : Str) : Json := .obj [(skey "$ref", .str u)]
def three : Json := .obj [(skey "allOf", .arr [refTo ['a'], refTo ['a', '#'], refTo ['b']])]

theorem kt_left : missClock (eval env impl cfg 1 .null (refTo ['b']) none (st true 0)).stop = some 0 := by
  decide +kernel
theorem kt_right : missClock (eval env impl cfg 1 .null (refTo ['b']) none (st true 1)).stop = some 1 := by
  decide +kernel

/-- with `cache_remote` on, `a` is retrieved once; with it off, once per reference -/
theorem ct_left : missClock (eval env impl cfg 3 .null three none (st true 0)).stop = some 1 := by
  decide +kernel
theorem ct_right : missClock (eval env impl cfg 3 .null three none
    { st true 0 with cacheRemote := false, memoCap := none, memo := [] }).stop = some 2 := by
  decide +kernel

theorem hi_left : opClock (stepOp env impl cfg 0 .null
    (runHist env impl cfg 0 .null (st true 0) [.resolve ['a']]).2 (.resolve ['b'])).1 = some 1 := by
  decide +kernel
theorem hi_right : opClock (stepOp env impl cfg 0 .null (st true 0) (.resolve ['b'])).1 = some 0 := by
  decide +kernel

end Cex

end Knowledge
end JS
