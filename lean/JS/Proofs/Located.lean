/- Helper lemmas for C06: locatedness is preserved by `descendG` along addressing path elements and by `stamp`. -/
import JS.Proofs.Framework
import JS.Spec.Located
import JS.Drafts
namespace JS
namespace Located

/-! ### a predicate on every error a generator yields -/

/-- every error the generator yields (under every budget, from every state) satisfies `Q` -/
def AllE (Q : Err → Prop) (g : Gen) : Prop := ∀ b st, ∀ e ∈ (g b st).errs, Q e

section AllE
variable {Q : Err → Prop}

theorem AllE_nothing : AllE Q nothing := by
  intro b st e he; simp [nothing] at he

theorem AllE_stopG (s : Stop) : AllE Q (stopG s) := by
  intro b st e he; simp [stopG] at he

theorem AllE_raiseG (x : Exc) : AllE Q (raiseG x) := AllE_stopG _
theorem AllE_crashG (c : String) : AllE Q (crashG c) := AllE_stopG _

theorem AllE_emit {es : List Err} (h : ∀ e ∈ es, Q e) : AllE Q (emit es) := by
  intro b st e he
  unfold emit at he
  split at he
  · exact h e he
  · split at he
    · exact h e he
    · exact h e (List.mem_of_mem_take he)

theorem AllE_andThen {g h : Gen} (hg : AllE Q g) (hh : AllE Q h) : AllE Q (andThen g h) := by
  intro b st e he
  unfold andThen at he
  split at he
  · rename_i es st' heq
    dsimp only at he
    rcases List.mem_append.mp he with h1 | h1
    · have := hg b st e; rw [heq] at this; exact this h1
    · exact hh _ _ e h1
  · exact hg b st e he

theorem AllE_seqG {α : Type} {f : α → Gen} {xs : List α} (hf : ∀ x ∈ xs, AllE Q (f x)) :
    AllE Q (seqG f xs) := by
  induction xs with
  | nil => exact AllE_nothing
  | cons x xs ih =>
    exact AllE_andThen (hf x (List.mem_cons_self ..))
      (ih (fun y hy => hf y (List.mem_cons_of_mem _ hy)))

theorem AllE_mapErrs {Q' : Err → Prop} {f : Err → Err} {g : Gen} (hg : AllE Q' g)
    (hf : ∀ e, Q' e → Q (f e)) : AllE Q (mapErrs f g) := by
  intro b st e he
  unfold mapErrs at he
  dsimp only at he
  obtain ⟨e0, h0, rfl⟩ := List.mem_map.mp he
  exact hf _ (hg b st e0 h0)

theorem AllE_inner {Q' : Err → Prop} {g : Gen} {b' : Option Nat} {k : List Err → Gen}
    (hg : AllE Q' g) (hk : ∀ es, (∀ e ∈ es, Q' e) → AllE Q (k es)) : AllE Q (inner g b' k) := by
  intro b st e he
  unfold inner at he
  split at he
  · rename_i es st' heq
    refine hk es ?_ b st' e he
    intro x hx; have := hg b' st x; rw [heq] at this; exact this hx
  · rename_i es st' heq
    refine hk es ?_ b st' e he
    intro x hx; have := hg b' st x; rw [heq] at this; exact this hx
  · simp at he

theorem AllE_innerValid {g : Gen} {k : Bool → Gen} (hk : ∀ v, AllE Q (k v)) :
    AllE Q (innerValid g k) :=
  AllE_inner (Q' := fun _ => True) (fun _ _ _ _ => trivial) (fun _ _ => hk _)

theorem AllE_withScope {env : Env} {scope : Str} {g : Gen} (hg : AllE Q g) :
    AllE Q (withScope env scope g) := by
  intro b st e he
  unfold withScope at he
  split at he
  · simp at he
  · exact hg _ _ e he

theorem AllE_withScopeOpt {env : Env} {scope : Option Str} {g : Gen} (hg : AllE Q g) :
    AllE Q (withScopeOpt env scope g) := by
  unfold withScopeOpt
  cases scope with
  | none => exact hg
  | some s => exact AllE_withScope hg

theorem AllE_withRes {α : Type} {r : Res α} {k : α → Gen} (hk : ∀ a, r = .ok a → AllE Q (k a)) :
    AllE Q (withRes r k) := by
  unfold withRes
  cases r with
  | ok a => exact hk a rfl
  | raise e => exact AllE_raiseG _
  | miss q => exact AllE_stopG _

theorem AllE_gate {cfg : Cfg} {inst : Json} {name : String} {k : Gen} (hk : AllE Q k) :
    AllE Q (gate cfg inst name k) := by
  unfold gate
  apply AllE_withRes
  intro ok _
  split
  · exact hk
  · exact AllE_nothing

theorem AllE_kwRef {env : Env} {rec : Rec} {ref inst : Json} (h : ∀ t, AllE Q (rec inst t)) :
    AllE Q (kwRef env rec ref inst) := by
  refine kwRef_cases (P := AllE Q) (fun hg hh b st e he => ?_) (fun r b st e he => ?_)
    (fun _ _ _ he => by simp [stopG] at he) (fun _ _ _ he => by simp [stopG] at he) ref
  · unfold ifTopEmpty at he
    split at he
    · exact hg b st e he
    · exact hh b st e he
  · rw [kwRef_str] at he
    split at he
    · exact AllE_withScope (h _) _ _ e he
    · simp at he
    · simp at he

theorem AllE_mono {Q' : Err → Prop} {g : Gen} (hg : AllE Q' g) (h : ∀ e, Q' e → Q e) : AllE Q g :=
  fun b st e he => h e (hg b st e he)

end AllE

/-! ### `Err.closure`, `info` -/


mutual
theorem closure_paths_aux (pp psp : List PathElem) : (e : Err) →
    ∀ t ∈ Err.closure pp psp e, ∃ rel relS, t.1 = pp ++ rel ∧ t.2.1 = psp ++ relS
  | .mk m i p sp ctx c => by
    intro t ht
    rw [Err.closure] at ht
    rcases List.mem_cons.mp ht with h | h
    · subst h; exact ⟨p, sp, rfl, rfl⟩
    · obtain ⟨r, rs, h1, h2⟩ := closureList_paths_aux (pp ++ p) (psp ++ sp) ctx t h
      exact ⟨p ++ r, sp ++ rs, by rw [h1, List.append_assoc], by rw [h2, List.append_assoc]⟩
theorem closureList_paths_aux (pp psp : List PathElem) : (es : List Err) →
    ∀ t ∈ Err.closureList pp psp es, ∃ rel relS, t.1 = pp ++ rel ∧ t.2.1 = psp ++ relS
  | [] => by intro t ht; simp [Err.closureList] at ht
  | e :: es => by
    intro t ht
    rw [Err.closureList] at ht
    rcases List.mem_append.mp ht with h | h
    · exact closure_paths_aux pp psp e t h
    · exact closureList_paths_aux pp psp es t h
end

theorem closure_head_aux (pp psp : List PathElem) (e : Err) :
    (Err.closure pp psp e).head? = some (pp ++ e.path, psp ++ e.schemaPath, e) := by
  cases e with
  | mk m i p sp ctx c => rw [Err.closure]; rfl

theorem stamp_info (k : Str) (v inst schema : Json) (e : Err) :
    (stamp k v inst schema e).info.isSome = true := by
  cases e with
  | mk m i p sp ctx c =>
    unfold stamp
    dsimp only
    split <;> cases i <;> rfl

theorem info_runKeyword (env : Env) (impl : FmtImpl) (cfg : Cfg) (rec : Rec) (inst schema : Json)
    (kv : Str × Json) :
    AllE (fun e => e.info.isSome = true) (runKeyword env impl cfg rec inst schema kv) := by
  unfold runKeyword
  split
  · exact AllE_nothing
  · exact AllE_mapErrs (Q' := fun _ => True) (fun _ _ _ _ => trivial) (fun e _ => stamp_info ..)

theorem info_evalStep (env : Env) (impl : FmtImpl) (cfg : Cfg) (rec : Rec) (inst schema : Json) :
    AllE (fun e => e.info.isSome = true) (evalStep env impl cfg rec inst schema) := by
  unfold evalStep
  split
  · exact AllE_nothing
  · exact AllE_emit (by intro e he; simp at he; subst he; rfl)
  · split
    · apply AllE_withScopeOpt
      unfold schemaBody
      split
      · exact AllE_seqG (fun kv _ => info_runKeyword env impl cfg rec inst _ kv)
      · exact info_runKeyword env impl cfg rec inst _ _
      · exact AllE_seqG (fun kv _ => info_runKeyword env impl cfg rec inst _ kv)
    · exact AllE_crashG _
  · exact AllE_crashG _
  · exact AllE_crashG _

theorem info_eval (env : Env) (impl : FmtImpl) (cfg : Cfg) (fuel : Nat) (i s : Json) :
    AllE (fun e => e.info.isSome = true) (eval env impl cfg fuel i s) := by
  cases fuel with
  | zero => exact AllE_stopG _
  | succ n => exact info_evalStep env impl cfg _ i s


open Spec

/-! ### the instance side: `Spec.instLocated` along `consPath`, `consSchemaPath`, `stamp` -/


theorem ptrGet_append (d : Json) (p q : List PathElem) :
    ptrGet d (p ++ q) = (ptrGet d p).bind (fun x => ptrGet x q) := by
  induction p generalizing d with
  | nil => simp [ptrGet]
  | cons a p ih =>
    cases a with
    | key k =>
      cases d <;> simp [ptrGet]
      rename_i kvs
      cases Json.lookup k kvs <;> simp [ih]
    | idx n =>
      cases d <;> simp [ptrGet]
      rename_i xs
      cases xs[n]? <;> simp [ih]

theorem ptrGet_cons {i x : Json} {p : PathElem} (h : ptrGet i [p] = some x) (ps : List PathElem) :
    ptrGet i (p :: ps) = ptrGet x ps := by
  have := ptrGet_append i [p] ps
  simpa [h] using this

theorem instLocated_consPath {i x : Json} {p : PathElem} {e : Err}
    (h : instLocated x e = true) (hp : ptrGet i [p] = some x) :
    instLocated i (e.consPath p) = true := by
  obtain ⟨msg, info, path, sp, ctx, c⟩ := e
  cases info with
  | none => simp [instLocated] at h
  | some m =>
    simp only [Err.consPath, instLocated] at h ⊢
    split
    · rfl
    · rename_i hsp
      simp only [hsp] at h
      rw [ptrGet_cons hp]
      cases path with
      | nil =>
        simp at h
        simp [h]
      | cons a rest =>
        have h1 : (p :: a :: rest).getLast? = (a :: rest).getLast? := by simp [List.getLast?_cons_cons]
        have h2 : (p :: a :: rest).dropLast = p :: (a :: rest).dropLast := by simp
        rw [h1, h2, ptrGet_cons hp]
        simpa using h

theorem instLocated_consSchemaPath {i : Json} {q : PathElem} {e : Err}
    (h : instLocated i e = true) : instLocated i (e.consSchemaPath q) = true := by
  obtain ⟨msg, info, path, sp, ctx, c⟩ := e
  cases info with
  | none => simp [instLocated] at h
  | some m =>
    simp only [Err.consSchemaPath, instLocated] at h ⊢
    split
    · rfl
    · rename_i hsp
      have : ¬ sp.contains (PathElem.key kPN) = true := by
        intro hc; apply hsp; simp at hc ⊢; exact .inr hc
      rw [if_neg this] at h
      simpa using h

/-- what `descendG _ p q` does to one error -/
def dmap (p q : Option PathElem) (e : Err) : Err :=
  let e := match p with | some p => e.consPath p | none => e
  match q with | some p => e.consSchemaPath p | none => e

theorem descendG_eq (g : Gen) (p q : Option PathElem) : descendG g p q = mapErrs (dmap p q) g := rfl

theorem instLocated_dmap {i x : Json} {p q : Option PathElem} {e : Err}
    (h : instLocated x e = true) (hp : ptrGet i p.toList = some x) :
    instLocated i (dmap p q e) = true := by
  cases p with
  | none =>
    simp [ptrGet] at hp; subst hp
    cases q with
    | none => exact h
    | some q => exact instLocated_consSchemaPath h
  | some p =>
    have h1 := instLocated_consPath h hp
    cases q with
    | none => exact h1
    | some q => exact instLocated_consSchemaPath h1

theorem instLocatedList_iff {i : Json} {es : List Err} :
    instLocatedList i es = true ↔ ∀ e ∈ es, instLocated i e = true := by
  induction es with
  | nil => simp [instLocatedList]
  | cons e es ih => simp [instLocatedList, ih]

theorem instLocated_info {i : Json} {e : Err} (h : instLocated i e = true) : e.info.isSome = true := by
  obtain ⟨msg, info, path, sp, ctx, c⟩ := e
  cases info with
  | none => simp [instLocated] at h
  | some m => rfl

theorem stamp_of_info {k : Str} {v inst schema : Json} {e : Err} (h : e.info.isSome = true) :
    stamp k v inst schema e = e ∨ stamp k v inst schema e = e.consSchemaPath (.key k) := by
  obtain ⟨msg, info, path, sp, ctx, c⟩ := e
  cases info with
  | none => simp [Err.info] at h
  | some m =>
    unfold stamp
    dsimp only
    split
    · left; rfl
    · right; rfl

theorem instLocated_stamp {i : Json} {k : Str} {v inst schema : Json} {e : Err}
    (h : instLocated i e = true) : instLocated i (stamp k v inst schema e) = true := by
  rcases stamp_of_info (k := k) (v := v) (inst := inst) (schema := schema) (instLocated_info h) with h1 | h1
  · rw [h1]; exact h
  · rw [h1]; exact instLocated_consSchemaPath h

theorem instLocated_stamp_fresh {k : Str} {v inst schema : Json} (t : String) (args : List Json)
    (ctx : List Err) (cause : Option String) (h : ∀ c ∈ ctx, instLocated inst c = true) :
    instLocated inst (stamp k v inst schema (Err.fresh t args ctx cause)) = true := by
  have hl := instLocatedList_iff.mpr h
  unfold stamp Err.fresh
  dsimp only [Err.setInfo]
  split
  · simp [instLocated, ptrGet, hl]
  · simp [Err.consSchemaPath, instLocated, ptrGet, hl]

theorem instLocated_stamp_pn {i : Json} {v inst schema : Json} {e : Err} (h : e.info.isSome = true) :
    instLocated i (stamp kPN v inst schema e) = true := by
  obtain ⟨msg, info, path, sp, ctx, c⟩ := e
  cases info with
  | none => simp [Err.info] at h
  | some m =>
    have : ¬ (kPN = skey "if" ∨ kPN = skey "$ref") := by decide
    unfold stamp
    simp only [this, if_false]
    simp [Err.setInfo, Err.consSchemaPath, instLocated]

theorem instLocated_required {ikvs : List (Str × Json)} {prop : Str} (r schema : Json)
    (h : Json.lookup prop ikvs = none) :
    instLocated (.obj ikvs) (requiredDraft3Err prop r (.obj ikvs) schema) = true := by
  unfold requiredDraft3Err
  simp only [instLocated]
  split
  · rfl
  · have : skey "required" = kReq := rfl
    simp [ptrGet, h, this, Json.hasKey, instLocatedList]


/-! ### the schema side: re-rooting `Spec.schemaLocated` -/


theorem ptrGet_reroot {s sub : Json} {q : List PathElem} (h : ptrGet s q = some sub) (r : List PathElem) :
    ptrGet s (q ++ r) = ptrGet sub r := by
  rw [ptrGet_append, h]; rfl

mutual
theorem schemaLocated_reroot {s sub : Json} {q : List PathElem} (hq : ptrGet s q = some sub)
    (pre : List PathElem) : (e : Err) → schemaLocated sub pre e = true → schemaLocated s (q ++ pre) e = true
  | .mk msg info path sp ctx c => by
    intro h
    cases info with
    | none => simp [schemaLocated] at h
    | some m =>
      simp only [schemaLocated, Bool.and_eq_true] at h ⊢
      refine ⟨?_, ?_⟩
      · rw [List.append_assoc, ptrGet_reroot hq]; exact h.1
      · rw [List.append_assoc]; exact schemaLocatedList_reroot hq _ ctx h.2
theorem schemaLocatedList_reroot {s sub : Json} {q : List PathElem} (hq : ptrGet s q = some sub)
    (pre : List PathElem) : (es : List Err) → schemaLocatedList sub pre es = true →
      schemaLocatedList s (q ++ pre) es = true
  | [] => by intro _; simp [schemaLocatedList]
  | e :: es => by
    intro h
    simp only [schemaLocatedList, Bool.and_eq_true] at h ⊢
    exact ⟨schemaLocated_reroot hq pre e h.1, schemaLocatedList_reroot hq pre es h.2⟩
end

theorem schemaLocated_shift {s : Json} {pre q : List PathElem} {e e' : Err}
    (hi : e'.info = e.info) (hc : e'.context = e.context) (hs : e'.schemaPath = q ++ e.schemaPath)
    (h : schemaLocated s (pre ++ q) e = true) : schemaLocated s pre e' = true := by
  obtain ⟨msg, info, path, sp, ctx, c⟩ := e
  obtain ⟨msg', info', path', sp', ctx', c'⟩ := e'
  simp only [Err.info, Err.context, Err.schemaPath] at hi hc hs
  subst hi hc hs
  cases info' with
  | none => simp [schemaLocated] at h
  | some m =>
    simp only [schemaLocated, Bool.and_eq_true] at h ⊢
    rw [List.append_assoc] at h
    refine ⟨?_, h.2⟩
    have h1 := h.1
    split at h1
    · simpa using h1
    · rename_i k hk
      simp only [Bool.and_eq_true, beq_iff_eq] at h1 ⊢
      obtain ⟨⟨ha, hb⟩, hc⟩ := h1
      have hne : sp ≠ [] := by intro h0; subst h0; simp at ha
      refine ⟨⟨?_, hb⟩, ?_⟩
      · rw [List.getLast?_append, ha]; rfl
      · simp only [Bool.or_eq_true, beq_iff_eq, Bool.and_eq_true, decide_eq_true_eq] at hc ⊢
        rcases hc with hc | hc
        · exact .inl hc
        · exact .inr ⟨hc.1, by simp; omega⟩



/-! ### where the errors of a keyword function come from -/

/-- `e` was produced by a `descend(x, sub, p, q)` with `R p q x sub` -/
def Desc (rec : Rec) (R : Option PathElem → Option PathElem → Json → Json → Prop) (e : Err) : Prop :=
  ∃ p q x sub b st e0, R p q x sub ∧ e0 ∈ (rec x sub b st).errs ∧ e = dmap p q e0

/-- an error of a keyword function is created there (its context holding errors of descents), or is
    the error of a descent, or is special (`S`: the pre-filled Draft 3 `required` error) -/
inductive Prov (rec : Rec) (R : Option PathElem → Option PathElem → Json → Json → Prop)
    (F : Prop) (S : Err → Prop) : Err → Prop
  | fresh (t : String) (args : List Json) (ctx : List Err) (cause : Option String) :
      F → (∀ c ∈ ctx, Desc rec R c) → Prov rec R F S (Err.fresh t args ctx cause)
  | desc {e : Err} : Desc rec R e → Prov rec R F S e
  | special {e : Err} : S e → Prov rec R F S e

section Prov
variable {rec : Rec} {R : Option PathElem → Option PathElem → Json → Json → Prop} {F : Prop}
  {S : Err → Prop}

theorem AllE_descD {p q : Option PathElem} {x sub : Json} (h : R p q x sub) :
    AllE (Desc rec R) (descendG (rec x sub) p q) := by
  intro b st e he
  rw [descendG_eq] at he
  unfold mapErrs at he
  dsimp only at he
  obtain ⟨e0, h0, rfl⟩ := List.mem_map.mp he
  exact ⟨p, q, x, sub, b, st, e0, h, h0, rfl⟩

theorem AllE_desc {p q : Option PathElem} {x sub : Json} (h : R p q x sub) :
    AllE (Prov rec R F S) (descendG (rec x sub) p q) :=
  AllE_mono (AllE_descD h) (fun _ he => .desc he)

theorem AllE_desc0 {x sub : Json} (h : R none none x sub) : AllE (Prov rec R F S) (rec x sub) := by
  intro b st e he
  exact .desc ⟨none, none, x, sub, b, st, e, h, he, rfl⟩

theorem AllE_fresh (hF : F) {t : String} {args : List Json} {ctx : List Err} {cause : Option String}
    (h : ∀ c ∈ ctx, Desc rec R c) : AllE (Prov rec R F S) (emit [Err.fresh t args ctx cause]) :=
  AllE_emit (by intro e he; simp at he; subst he; exact .fresh _ _ _ _ hF h)

theorem AllE_fresh0 (hF : F) {t : String} {args : List Json} {cause : Option String} :
    AllE (Prov rec R F S) (emit [Err.fresh t args [] cause]) :=
  AllE_fresh hF (by simp)

theorem prov_firstValid {Q : Err → Prop} (inst : Json)
    (k : Option (Json × List (Nat × Json)) → List Err → Gen)
    (hk : ∀ r acc, (∀ c ∈ acc, Desc rec R c) → AllE Q (k r acc)) (xs : List (Nat × Json))
    (hxs : ∀ t ∈ xs, R none (some (.idx t.1)) inst t.2) (acc : List Err)
    (hacc : ∀ c ∈ acc, Desc rec R c) : AllE Q (firstValid rec inst k xs acc) := by
  induction xs generalizing acc with
  | nil => unfold firstValid; exact hk _ _ hacc
  | cons x xs ih =>
    obtain ⟨i, s⟩ := x
    unfold firstValid
    refine AllE_inner (AllE_descD (hxs (i, s) (List.mem_cons_self ..))) ?_
    intro es hes
    split
    · exact hk _ _ hacc
    · refine ih (fun t ht => hxs t (List.mem_cons_of_mem _ ht)) _ ?_
      intro c hc
      rcases List.mem_append.mp hc with h | h
      · exact hacc c h
      · exact hes c h

theorem prov_moreValid {Q : Err → Prop} (inst : Json) (k : List Json → Gen) (hk : ∀ acc, AllE Q (k acc))
    (xs : List (Nat × Json)) (acc : List Json) : AllE Q (moreValid rec inst k xs acc) := by
  induction xs generalizing acc with
  | nil => unfold moreValid; exact hk _
  | cons x xs ih =>
    obtain ⟨i, s⟩ := x
    unfold moreValid
    exact AllE_innerValid (fun _ => ih _)

theorem prov_typeDraft3Loop {Q : Err → Prop} (cfg : Cfg) (inst : Json) (k : Bool → List Err → Gen)
    (hk : ∀ m acc, (∀ c ∈ acc, Desc rec R c) → AllE Q (k m acc)) (xs : List (Nat × Json))
    (hxs : ∀ t ∈ xs, isTypeS cfg t.2 "object" = .ok true → R none (some (.idx t.1)) inst t.2)
    (acc : List Err) (hacc : ∀ c ∈ acc, Desc rec R c) :
    AllE Q (typeDraft3Loop cfg rec inst k xs acc) := by
  induction xs generalizing acc with
  | nil => unfold typeDraft3Loop; exact hk _ _ hacc
  | cons x xs ih =>
    obtain ⟨i, t⟩ := x
    have ih' := ih (fun t ht => hxs t (List.mem_cons_of_mem _ ht))
    unfold typeDraft3Loop
    apply AllE_withRes
    intro isObj hobj
    split
    · rename_i htrue
      subst htrue
      refine AllE_inner (AllE_descD (hxs (i, t) (List.mem_cons_self ..) hobj)) ?_
      intro es hes
      split
      · exact hk _ _ hacc
      · refine ih' _ ?_
        intro c hc
        rcases List.mem_append.mp hc with h | h
        · exact hacc c h
        · exact hes c h
    · apply AllE_withRes
      intro ok _
      split
      · exact hk _ _ hacc
      · exact ih' _ hacc

end Prov


/-! ### data facts: members, indices, well-formedness -/

theorem lookup_of_mem {kvs : List (Str × Json)} (hd : keysDistinct kvs = true) {k : Str} {x : Json}
    (h : (k, x) ∈ kvs) : Json.lookup k kvs = some x := by
  induction kvs with
  | nil => cases h
  | cons p rest ih =>
    obtain ⟨k', x'⟩ := p
    simp only [keysDistinct, Bool.and_eq_true, Bool.not_eq_true', List.any_eq_false, beq_iff_eq] at hd
    unfold Json.lookup
    rcases List.mem_cons.mp h with h1 | h1
    · cases h1; simp
    · have : k' ≠ k := fun hk => hd.1 (k, x) h1 (by simp [hk])
      simp only [this, if_false]
      exact ih hd.2 h1

theorem lookup_of_mem_WF {kvs : List (Str × Json)} (hw : WF (.obj kvs) = true) {p : Str × Json}
    (h : p ∈ kvs) : Json.lookup p.1 kvs = some p.2 := by
  simp only [WF, Bool.and_eq_true] at hw
  exact lookup_of_mem hw.1 h

theorem mem_enumFrom {α : Type} : ∀ (xs : List α) (n : Nat) (p : Nat × α), p ∈ enumFrom n xs →
    n ≤ p.1 ∧ xs[p.1 - n]? = some p.2
  | [], _, _, h => by cases h
  | x :: xs, n, p, h => by
    unfold enumFrom at h
    rcases List.mem_cons.mp h with h1 | h1
    · subst h1; simp
    · obtain ⟨h2, h3⟩ := mem_enumFrom xs (n + 1) p h1
      refine ⟨by omega, ?_⟩
      have : p.1 - n = (p.1 - (n + 1)) + 1 := by omega
      rw [this]; simpa using h3

theorem mem_enumFrom_zip {α β : Type} : ∀ (xs : List α) (ys : List β) (n : Nat) (t : (Nat × α) × β),
    t ∈ (enumFrom n xs).zip ys → n ≤ t.1.1 ∧ xs[t.1.1 - n]? = some t.1.2 ∧ ys[t.1.1 - n]? = some t.2
  | [], _, _, _, h => by simp [enumFrom] at h
  | _ :: _, [], _, _, h => by simp [enumFrom] at h
  | x :: xs, y :: ys, n, t, h => by
    unfold enumFrom at h
    rw [List.zip_cons_cons] at h
    rcases List.mem_cons.mp h with h1 | h1
    · subst h1; simp
    · obtain ⟨h2, h3, h4⟩ := mem_enumFrom_zip xs ys (n + 1) t h1
      refine ⟨by omega, ?_⟩
      have : t.1.1 - n = (t.1.1 - (n + 1)) + 1 := by omega
      rw [this]; simpa using ⟨h3, h4⟩

theorem WF_lookup {kvs : List (Str × Json)} (hw : WFKvs kvs = true) {k : Str} {x : Json}
    (h : Json.lookup k kvs = some x) : WF x = true := by
  induction kvs with
  | nil => cases h
  | cons p rest ih =>
    obtain ⟨k', x'⟩ := p
    simp only [WFKvs, Bool.and_eq_true] at hw
    unfold Json.lookup at h
    split at h
    · cases h; exact hw.1
    · exact ih hw.2 h

theorem WF_getElem {xs : List Json} (hw : WFList xs = true) {n : Nat} {x : Json}
    (h : xs[n]? = some x) : WF x = true := by
  induction xs generalizing n with
  | nil => simp at h
  | cons y ys ih =>
    simp only [WFList, Bool.and_eq_true] at hw
    cases n with
    | zero => simp at h; subst h; exact hw.1
    | succ n => simp at h; exact ih hw.2 h

theorem WF_ptrGet {i x : Json} {ps : List PathElem} (hw : WF i = true) (h : ptrGet i ps = some x) :
    WF x = true := by
  induction ps generalizing i with
  | nil => simp [ptrGet] at h; subst h; exact hw
  | cons p ps ih =>
    cases p with
    | key k =>
      cases i with
      | obj kvs => ?_
      | _ => simp [ptrGet] at h
      rw [ptrGet] at h
      obtain ⟨y, hy, h2⟩ := Option.bind_eq_some_iff.mp h
      simp only [WF, Bool.and_eq_true] at hw
      exact ih (WF_lookup hw.2 hy) h2
    | idx n =>
      cases i with
      | arr xs => ?_
      | _ => simp [ptrGet] at h
      rw [ptrGet] at h
      obtain ⟨y, hy, h2⟩ := Option.bind_eq_some_iff.mp h
      simp only [WF] at hw
      exact ih (WF_getElem hw hy) h2

theorem noRef_lookup {kvs : List (Str × Json)} (hw : noRef.noRefKvs kvs = true) {k : Str} {x : Json}
    (h : Json.lookup k kvs = some x) : noRef x = true := by
  induction kvs with
  | nil => cases h
  | cons p rest ih =>
    obtain ⟨k', x'⟩ := p
    simp only [noRef.noRefKvs, Bool.and_eq_true] at hw
    unfold Json.lookup at h
    split at h
    · cases h; exact hw.1.2
    · exact ih hw.2 h

theorem noRef_getElem {xs : List Json} (hw : noRef.noRefList xs = true) {n : Nat} {x : Json}
    (h : xs[n]? = some x) : noRef x = true := by
  induction xs generalizing n with
  | nil => simp at h
  | cons y ys ih =>
    simp only [noRef.noRefList, Bool.and_eq_true] at hw
    cases n with
    | zero => simp at h; subst h; exact hw.1
    | succ n => simp at h; exact ih hw.2 h

theorem noRef_ptrGet {i x : Json} {ps : List PathElem} (hw : noRef i = true) (h : ptrGet i ps = some x) :
    noRef x = true := by
  induction ps generalizing i with
  | nil => simp [ptrGet] at h; subst h; exact hw
  | cons p ps ih =>
    cases p with
    | key k =>
      cases i with
      | obj kvs => ?_
      | _ => simp [ptrGet] at h
      rw [ptrGet] at h
      obtain ⟨y, hy, h2⟩ := Option.bind_eq_some_iff.mp h
      simp only [noRef] at hw
      exact ih (noRef_lookup hw hy) h2
    | idx n =>
      cases i with
      | arr xs => ?_
      | _ => simp [ptrGet] at h
      rw [ptrGet] at h
      obtain ⟨y, hy, h2⟩ := Option.bind_eq_some_iff.mp h
      simp only [noRef] at hw
      exact ih (noRef_getElem hw hy) h2

theorem noRef_no_ref {kvs : List (Str × Json)} (h : noRef.noRefKvs kvs = true) :
    Json.lookup (skey "$ref") kvs = none ∧ ∀ p ∈ kvs, p.1 ≠ skey "$ref" := by
  induction kvs with
  | nil => simp [Json.lookup]
  | cons p rest ih =>
    obtain ⟨k', x'⟩ := p
    simp only [noRef.noRefKvs, Bool.and_eq_true, bne_iff_ne, ne_eq] at h
    have hk : k' ≠ skey "$ref" := h.1.1
    obtain ⟨h1, h2⟩ := ih h.2
    refine ⟨by unfold Json.lookup; simp [hk, h1], ?_⟩
    intro p hp
    rcases List.mem_cons.mp hp with h3 | h3
    · subst h3; exact hk
    · exact h2 p h3


/-! ### which descents a keyword function makes -/

/-- the instance-path element passed to `descend` addresses the sub-instance descended into —
    except under the `propertyNames` function, which descends into a property *name* -/
def IRel (f : KwFn) (inst : Json) (p : Option PathElem) (x : Json) : Prop :=
  ptrGet inst p.toList = some x ∨ (f = .propertyNames ∧ p = none ∧ ∃ key, x = .str key)

/-- the schema-path element passed to `descend` addresses the sub-schema inside the keyword's value —
    except under `if` (the siblings `then`/`else` of the same schema object) and `$ref` -/
def SRel (f : KwFn) (v schema : Json) (q : Option PathElem) (sub : Json) : Prop :=
  (f ≠ .if_ ∧ ptrGet v q.toList = some sub)
  ∨ (f = .if_ ∧ ∃ k, q = some (.key k) ∧ schema.get? k = some sub)
  ∨ f = .ref

/-- the validator class calls only objects "object" -/
def ObjTyped (cfg : Cfg) : Prop := ∀ x, isTypeS cfg x "object" = .ok true → x.isObj = true

def Rel (f : KwFn) (cfg : Cfg) (v inst schema : Json) (p q : Option PathElem) (x sub : Json) : Prop :=
  (WF inst = true → IRel f inst p x) ∧ (WF v = true → ObjTyped cfg → SRel f v schema q sub)

/-- the pre-filled error of Draft 3 `properties` for a missing required property -/
def Special (v inst schema : Json) (e : Err) : Prop :=
  ∃ prop r ikvs, e = requiredDraft3Err prop r inst schema ∧ inst = .obj ikvs ∧
    Json.lookup prop ikvs = none ∧
    (WF v = true → ∃ skvs, ptrGet v [.key prop] = some (.obj skvs) ∧
      Json.lookup (skey "required") skvs = some r)

/-- provenance of the errors of the keyword function `f` called on `(v, inst, schema)` -/
abbrev PV (f : KwFn) (cfg : Cfg) (rec : Rec) (v inst schema : Json) : Err → Prop :=
  Prov rec (Rel f cfg v inst schema) (f ≠ .if_ ∧ f ≠ .propertyNames)
    (fun e => f = .properties_draft3 ∧ Special v inst schema e)

theorem irel_same {f : KwFn} {inst : Json} : IRel f inst none inst := .inl rfl

theorem irel_lookup {f : KwFn} {ikvs : List (Str × Json)} {k : Str} {x : Json}
    (h : Json.lookup k ikvs = some x) : IRel f (.obj ikvs) (some (.key k)) x := by
  left; simp [ptrGet, h]

theorem irel_idx {f : KwFn} {xs : List Json} {n : Nat} {x : Json}
    (h : xs[n]? = some x) : IRel f (.arr xs) (some (.idx n)) x := by
  left; simp [ptrGet, h]

theorem srel_same {f : KwFn} {v schema : Json} (hf : f ≠ .if_ := by exact nofun) :
    SRel f v schema none v := .inl ⟨hf, rfl⟩

theorem srel_mem {f : KwFn} {pkvs : List (Str × Json)} {schema : Json} {ps : Str × Json}
    (h : ps ∈ pkvs) (hw : WF (.obj pkvs) = true) (hf : f ≠ .if_ := by exact nofun) :
    SRel f (.obj pkvs) schema (some (.key ps.1)) ps.2 := by
  left; simp [ptrGet, lookup_of_mem_WF hw h, hf]

theorem srel_idx {f : KwFn} {ss : List Json} {schema : Json} {n : Nat} {t : Json}
    (h : ss[n]? = some t) (hf : f ≠ .if_ := by exact nofun) :
    SRel f (.arr ss) schema (some (.idx n)) t := by
  left; simp [ptrGet, h, hf]

section Kw
variable {env : Env} {cfg : Cfg} {rec : Rec}

theorem prov_kwPatternProperties (v inst schema : Json) :
    AllE (PV .patternProperties cfg rec v inst schema) (kwPatternProperties env cfg rec v inst) := by
  unfold kwPatternProperties
  apply AllE_gate
  split
  · rename_i pkvs ikvs
    apply AllE_seqG; intro ps hps
    apply AllE_seqG; intro kx hkx
    apply AllE_withRes; intro m _
    split
    · apply AllE_desc
      exact ⟨fun hwi => irel_lookup (lookup_of_mem_WF hwi hkx), fun hwv _ => srel_mem hps hwv⟩
    · exact AllE_nothing
  · exact AllE_crashG _

theorem prov_kwPropertyNames (v inst schema : Json) :
    AllE (PV .propertyNames cfg rec v inst schema) (kwPropertyNames cfg rec v inst) := by
  unfold kwPropertyNames
  apply AllE_gate
  split
  · apply AllE_seqG; intro kx hkx
    apply AllE_desc
    exact ⟨fun _ => .inr ⟨rfl, rfl, _, rfl⟩, fun _ _ => srel_same⟩
  · exact AllE_crashG _

theorem prov_kwAdditionalProperties (v inst schema : Json) :
    AllE (PV .additionalProperties cfg rec v inst schema)
      (kwAdditionalProperties env cfg rec v inst schema) := by
  unfold kwAdditionalProperties
  apply AllE_gate
  split
  · apply AllE_withRes; intro extras0 _
    apply AllE_withRes; intro extras _
    apply AllE_withRes; intro aPobj _
    split
    · apply AllE_seqG; intro extra _
      split
      · rename_i x hx
        apply AllE_desc
        exact ⟨fun _ => irel_lookup hx, fun _ _ => srel_same⟩
      · exact AllE_crashG _
    · split
      · split
        · exact AllE_fresh0 ⟨nofun, nofun⟩
        · exact AllE_fresh0 ⟨nofun, nofun⟩
      · exact AllE_nothing
  · exact AllE_crashG _

theorem rel_zip {f : KwFn} {xs subs : List Json} {schema : Json} {t : (Nat × Json) × Json}
    (ht : t ∈ (enumFrom 0 xs).zip subs) (hf : f ≠ .if_ := by exact nofun) :
    Rel f cfg (.arr subs) (.arr xs) schema (some (.idx t.1.1)) (some (.idx t.1.1)) t.1.2 t.2 := by
  obtain ⟨_, h1, h2⟩ := mem_enumFrom_zip _ _ _ _ ht
  exact ⟨fun _ => irel_idx (by simpa using h1), fun _ _ => srel_idx (by simpa using h2) hf⟩

theorem rel_enum {f : KwFn} {xs : List Json} {v schema : Json} {t : Nat × Json}
    (ht : t ∈ enumFrom 0 xs) (hf : f ≠ .if_ := by exact nofun) :
    Rel f cfg v (.arr xs) schema (some (.idx t.1)) none t.2 v := by
  obtain ⟨_, h1⟩ := mem_enumFrom _ _ _ ht
  exact ⟨fun _ => irel_idx (by simpa using h1), fun _ _ => srel_same hf⟩

theorem rel_enum_s {f : KwFn} {ss : List Json} {inst schema : Json} {t : Nat × Json}
    (ht : t ∈ enumFrom 0 ss) (hf : f ≠ .if_ := by exact nofun) :
    Rel f cfg (.arr ss) inst schema none (some (.idx t.1)) inst t.2 := by
  obtain ⟨_, h1⟩ := mem_enumFrom _ _ _ ht
  exact ⟨fun _ => irel_same, fun _ _ => srel_idx (by simpa using h1) hf⟩

theorem prov_kwItems (v inst schema : Json) :
    AllE (PV .items cfg rec v inst schema) (kwItems cfg rec v inst) := by
  unfold kwItems
  apply AllE_gate
  split
  · apply AllE_withRes; intro isArr _
    split
    · split
      · apply AllE_seqG; intro t ht
        exact AllE_desc (rel_zip ht)
      · exact AllE_crashG _
    · apply AllE_seqG; intro t ht
      exact AllE_desc (rel_enum ht)
  · exact AllE_crashG _

theorem prov_kwItemsDraft3Draft4 (v inst schema : Json) :
    AllE (PV .items_draft3_draft4 cfg rec v inst schema) (kwItemsDraft3Draft4 cfg rec v inst) := by
  unfold kwItemsDraft3Draft4
  apply AllE_gate
  split
  · apply AllE_withRes; intro isObj _
    split
    · apply AllE_seqG; intro t ht
      exact AllE_desc (rel_enum ht)
    · split
      · apply AllE_seqG; intro t ht
        exact AllE_desc (rel_zip ht)
      · exact AllE_crashG _
  · exact AllE_crashG _

theorem prov_kwAdditionalItems (v inst schema : Json) :
    AllE (PV .additionalItems cfg rec v inst schema) (kwAdditionalItems cfg rec v inst schema) := by
  unfold kwAdditionalItems
  apply AllE_withRes; intro instArr _
  split
  · exact AllE_nothing
  apply AllE_withRes; intro itemsArr _
  split
  · exact AllE_nothing
  split
  · rename_i xs subs _ _
    apply AllE_withRes; intro aIobj _
    split
    · apply AllE_seqG; intro t ht
      apply AllE_desc
      obtain ⟨h0, h1⟩ := mem_enumFrom _ _ _ ht
      refine ⟨fun _ => irel_idx ?_, fun _ _ => srel_same⟩
      rw [List.getElem?_drop] at h1
      have : subs.length + (t.1 - subs.length) = t.1 := by omega
      rw [this] at h1; exact h1
    · split
      · exact AllE_fresh0 ⟨nofun, nofun⟩
      · exact AllE_nothing
  · exact AllE_crashG _

theorem prov_containsLoop (f : KwFn) (hf : f ≠ .if_ ∧ f ≠ .propertyNames) (v inst schema sub whole : Json)
    (xs : List Json) : AllE (PV f cfg rec v inst schema) (containsLoop rec sub whole xs) := by
  induction xs with
  | nil => unfold containsLoop; exact AllE_fresh0 hf
  | cons x xs ih =>
    unfold containsLoop
    apply AllE_innerValid; intro ok
    split
    · exact AllE_nothing
    · exact ih

theorem prov_kwContains (v inst schema : Json) :
    AllE (PV .contains cfg rec v inst schema) (kwContains cfg rec v inst) := by
  unfold kwContains
  apply AllE_gate
  split
  · exact prov_containsLoop .contains ⟨nofun, nofun⟩ _ _ _ _ _ _
  · exact AllE_crashG _

theorem prov_depArray (f : KwFn) (hf : f ≠ .if_ ∧ f ≠ .propertyNames) (v inst schema : Json)
    (ikvs : List (Str × Json)) (prop : Str) (ds : List Json) :
    AllE (PV f cfg rec v inst schema) (depArray ikvs prop ds) := by
  unfold depArray
  apply AllE_seqG; intro each _
  apply AllE_withRes; intro miss _
  split
  · exact AllE_fresh0 hf
  · exact AllE_nothing

theorem prov_kwDependencies (v inst schema : Json) :
    AllE (PV .dependencies cfg rec v inst schema) (kwDependencies cfg rec v inst) := by
  unfold kwDependencies
  apply AllE_gate
  split
  · apply AllE_seqG; intro pd hpd
    split
    · exact AllE_nothing
    apply AllE_withRes; intro isArr _
    split
    · split
      · exact prov_depArray .dependencies ⟨nofun, nofun⟩ _ _ _ _ _ _
      · exact AllE_crashG _
    · apply AllE_desc
      exact ⟨fun _ => irel_same, fun hwv _ => srel_mem hpd hwv⟩
  · exact AllE_crashG _

theorem prov_kwProperties (v inst schema : Json) :
    AllE (PV .properties cfg rec v inst schema) (kwProperties cfg rec v inst) := by
  unfold kwProperties
  apply AllE_gate
  split
  · apply AllE_seqG; intro ps hps
    split
    · rename_i x hx
      apply AllE_desc
      exact ⟨fun _ => irel_lookup hx, fun hwv _ => srel_mem hps hwv⟩
    · exact AllE_nothing
  · exact AllE_crashG _

theorem prov_kwAllOf (v inst schema : Json) :
    AllE (PV .allOf cfg rec v inst schema) (kwAllOf rec v inst) := by
  unfold kwAllOf
  split
  · apply AllE_seqG; intro t ht
    exact AllE_desc (rel_enum_s ht)
  · exact AllE_crashG _

theorem prov_kwAnyOf (v inst schema : Json) :
    AllE (PV .anyOf cfg rec v inst schema) (kwAnyOf rec v inst) := by
  unfold kwAnyOf
  split
  · rename_i ss
    refine prov_firstValid (R := Rel .anyOf cfg (.arr ss) inst schema) _ _ ?_ _ ?_ _ ?_
    · intro r acc hacc
      split
      · exact AllE_nothing
      · exact AllE_fresh ⟨nofun, nofun⟩ hacc
    · intro t ht; exact rel_enum_s ht
    · simp
  · exact AllE_crashG _

theorem prov_kwOneOf (v inst schema : Json) :
    AllE (PV .oneOf cfg rec v inst schema) (kwOneOf rec v inst) := by
  unfold kwOneOf
  split
  · rename_i ss
    refine prov_firstValid (R := Rel .oneOf cfg (.arr ss) inst schema) _ _ ?_ _ ?_ _ ?_
    · intro r acc hacc
      split
      · exact AllE_fresh ⟨nofun, nofun⟩ hacc
      · refine prov_moreValid _ _ ?_ _ _
        intro more
        split
        · exact AllE_nothing
        · exact AllE_fresh0 ⟨nofun, nofun⟩
    · intro t ht; exact rel_enum_s ht
    · simp
  · exact AllE_crashG _

theorem prov_kwNot (v inst schema : Json) :
    AllE (PV .not_ cfg rec v inst schema) (kwNot rec v inst) := by
  unfold kwNot
  apply AllE_innerValid; intro ok
  split
  · exact AllE_fresh0 ⟨nofun, nofun⟩
  · exact AllE_nothing

theorem prov_kwIf (v inst schema : Json) :
    AllE (PV .if_ cfg rec v inst schema) (kwIf rec v inst schema) := by
  unfold kwIf
  apply AllE_innerValid; intro ok
  split
  · split
    · rename_i t ht
      apply AllE_desc
      exact ⟨fun _ => irel_same, fun _ _ => .inr (.inl ⟨rfl, _, rfl, ht⟩)⟩
    · exact AllE_nothing
  · split
    · rename_i t ht
      apply AllE_desc
      exact ⟨fun _ => irel_same, fun _ _ => .inr (.inl ⟨rfl, _, rfl, ht⟩)⟩
    · exact AllE_nothing

theorem prov_kwDependenciesDraft3 (v inst schema : Json) :
    AllE (PV .dependencies_draft3 cfg rec v inst schema) (kwDependenciesDraft3 cfg rec v inst) := by
  unfold kwDependenciesDraft3
  apply AllE_gate
  split
  · apply AllE_seqG; intro pd hpd
    split
    · exact AllE_nothing
    apply AllE_withRes; intro isObj _
    split
    · apply AllE_desc
      exact ⟨fun _ => irel_same, fun hwv _ => srel_mem hpd hwv⟩
    · apply AllE_withRes; intro isStr _
      split
      · apply AllE_withRes; intro miss _
        split
        · exact AllE_fresh0 ⟨nofun, nofun⟩
        · exact AllE_nothing
      · split
        · exact prov_depArray .dependencies_draft3 ⟨nofun, nofun⟩ _ _ _ _ _ _
        · exact AllE_crashG _
  · exact AllE_crashG _

theorem prov_kwDisallowDraft3 (v inst schema : Json) :
    AllE (PV .disallow_draft3 cfg rec v inst schema) (kwDisallowDraft3 rec v inst) := by
  unfold kwDisallowDraft3
  split
  · exact AllE_crashG _
  · apply AllE_seqG; intro d _
    apply AllE_innerValid; intro ok
    split
    · exact AllE_fresh0 ⟨nofun, nofun⟩
    · exact AllE_nothing

theorem prov_kwExtendsDraft3 (v inst schema : Json) :
    AllE (PV .extends_draft3 cfg rec v inst schema) (kwExtendsDraft3 cfg rec v inst) := by
  unfold kwExtendsDraft3
  apply AllE_withRes; intro isObj _
  split
  · apply AllE_desc
    exact ⟨fun _ => irel_same, fun _ _ => srel_same⟩
  · split
    · apply AllE_seqG; intro t ht
      exact AllE_desc (rel_enum_s ht)
    · exact AllE_crashG _

theorem prov_kwPropertiesDraft3 (v inst schema : Json) :
    AllE (PV .properties_draft3 cfg rec v inst schema) (kwPropertiesDraft3 cfg rec v inst schema) := by
  unfold kwPropertiesDraft3
  apply AllE_gate
  split
  · rename_i pkvs ikvs
    apply AllE_seqG; intro ps hps
    split
    · rename_i x hx
      apply AllE_desc
      exact ⟨fun _ => irel_lookup hx, fun hwv _ => srel_mem hps hwv⟩
    · rename_i hnone
      split
      · rename_i skvs hskvs
        split
        · rename_i r hr
          split
          · apply AllE_emit
            intro e he
            simp only [List.mem_singleton] at he
            subst he
            refine .special ⟨rfl, ps.1, r, ikvs, rfl, rfl, hnone, fun hwv => ⟨skvs, ?_, hr⟩⟩
            simp [ptrGet, lookup_of_mem_WF hwv hps, hskvs]
          · exact AllE_nothing
        · exact AllE_nothing
      · exact AllE_crashG _
  · exact AllE_crashG _

theorem prov_kwTypeDraft3 (v inst schema : Json) :
    AllE (PV .type_draft3 cfg rec v inst schema) (kwTypeDraft3 cfg rec v inst) := by
  unfold kwTypeDraft3
  split
  · exact AllE_crashG _
  · rename_i ts hts
    refine prov_typeDraft3Loop (R := Rel .type_draft3 cfg v inst schema) _ _ _ ?_ _ ?_ _ ?_
    · intro m acc hacc
      split
      · exact AllE_nothing
      · exact AllE_fresh ⟨nofun, nofun⟩ hacc
    · intro t ht hobj
      obtain ⟨_, h1⟩ := mem_enumFrom _ _ _ ht
      refine ⟨fun _ => irel_same, fun hwv hty => ?_⟩
      have hisobj := hty _ hobj
      unfold ensureList at hts
      split at hts
      · cases hts
        rename_i s
        simp only [Nat.sub_zero] at h1
        have : t.2 = .str s := by
          cases hn : t.1 with
          | zero => rw [hn] at h1; simpa using h1.symm
          | succ n => rw [hn] at h1; simp at h1
        rw [this] at hisobj; simp [Json.isObj] at hisobj
      · cases hts
        exact srel_idx (by simpa using h1)
      · cases hts
    · simp

theorem prov_kwRef (v inst schema : Json) :
    AllE (PV .ref cfg rec v inst schema) (kwRef env rec v inst) := by
  apply AllE_kwRef
  intro t
  apply AllE_desc0
  exact ⟨fun _ => irel_same, fun _ _ => .inr (.inr rfl)⟩

end Kw


/-! ### keyword functions that only create errors -/

section Leaf
variable {Q : Err → Prop} (hQ : ∀ t args cause, Q (Err.fresh t args [] cause))
include hQ

theorem leaf_emit {t : String} {args : List Json} {cause : Option String} :
    AllE Q (emit [Err.fresh t args [] cause]) :=
  AllE_emit (by intro e he; simp at he; subst he; exact hQ _ _ _)

theorem leaf_kwBound {cfg : Cfg} {t : String} {f : Num → Num → Bool} {v inst : Json} :
    AllE Q (kwBound cfg t f v inst) := by
  unfold kwBound
  apply AllE_gate
  split
  · split
    · exact leaf_emit hQ
    · exact AllE_nothing
  · exact AllE_crashG _

theorem leaf_kwLenBound {cfg : Cfg} {ty t : String} {lt : Bool} {len : Json → Option Nat} {v inst : Json} :
    AllE Q (kwLenBound cfg ty t lt len v inst) := by
  unfold kwLenBound
  apply AllE_withRes; intro ok _
  split
  · exact AllE_nothing
  split
  · exact AllE_crashG _
  · apply AllE_withRes; intro fails _
    split
    · exact leaf_emit hQ
    · exact AllE_nothing

theorem leaf_kwConst {v inst : Json} : AllE Q (kwConst v inst) := by
  unfold kwConst
  split
  · exact AllE_nothing
  · exact leaf_emit hQ

theorem leaf_kwMultipleOf {cfg : Cfg} {v inst : Json} : AllE Q (kwMultipleOf cfg v inst) := by
  unfold kwMultipleOf
  apply AllE_gate
  split
  · split
    · exact leaf_emit hQ
    · exact AllE_nothing
    · exact AllE_crashG _
  · exact AllE_crashG _

theorem leaf_kwUniqueItems {cfg : Cfg} {v inst : Json} : AllE Q (kwUniqueItems cfg v inst) := by
  unfold kwUniqueItems
  split
  · exact AllE_nothing
  apply AllE_withRes; intro ok _
  split
  · exact AllE_nothing
  split
  · split
    · exact AllE_nothing
    · exact leaf_emit hQ
  · exact AllE_crashG _

theorem leaf_kwPattern {env : Env} {cfg : Cfg} {v inst : Json} : AllE Q (kwPattern env cfg v inst) := by
  unfold kwPattern
  apply AllE_withRes; intro ok _
  split
  · exact AllE_nothing
  split
  · apply AllE_withRes; intro m _
    split
    · exact AllE_nothing
    · exact leaf_emit hQ
  · exact AllE_crashG _

theorem leaf_kwFormat {env : Env} {impl : FmtImpl} {cfg : Cfg} {v inst : Json} :
    AllE Q (kwFormat env impl cfg v inst) := by
  unfold kwFormat
  split
  · exact AllE_nothing
  · split
    · apply AllE_withRes; intro r _
      split
      · exact AllE_nothing
      · exact leaf_emit hQ
    · exact AllE_crashG _
    · exact AllE_crashG _
    · exact AllE_nothing

theorem leaf_kwEnum {v inst : Json} : AllE Q (kwEnum v inst) := by
  unfold kwEnum
  split
  · split
    · exact leaf_emit hQ
    · exact AllE_nothing
  · exact AllE_crashG _

theorem leaf_kwType {cfg : Cfg} {v inst : Json} : AllE Q (kwType cfg v inst) := by
  unfold kwType
  split
  · exact AllE_crashG _
  · apply AllE_withRes; intro ok _
    split
    · exact AllE_nothing
    · exact leaf_emit hQ

theorem leaf_kwRequired {cfg : Cfg} {v inst : Json} : AllE Q (kwRequired cfg v inst) := by
  unfold kwRequired
  apply AllE_gate
  split
  · apply AllE_seqG; intro p _
    apply AllE_withRes; intro miss _
    split
    · exact leaf_emit hQ
    · exact AllE_nothing
  · exact AllE_crashG _

theorem leaf_kwMinimumDraft3Draft4 {cfg : Cfg} {v inst schema : Json} :
    AllE Q (kwMinimumDraft3Draft4 cfg v inst schema) := by
  unfold kwMinimumDraft3Draft4
  split <;> exact leaf_kwBound hQ

theorem leaf_kwMaximumDraft3Draft4 {cfg : Cfg} {v inst schema : Json} :
    AllE Q (kwMaximumDraft3Draft4 cfg v inst schema) := by
  unfold kwMaximumDraft3Draft4
  split <;> exact leaf_kwBound hQ

end Leaf

/-! ### the dispatcher -/

theorem prov_applyKw (env : Env) (impl : FmtImpl) (cfg : Cfg) (rec : Rec) (f : KwFn)
    (v inst schema : Json) :
    AllE (PV f cfg rec v inst schema) (applyKw env impl cfg rec f v inst schema) := by
  have hQ : ∀ (f : KwFn), (f ≠ .if_ ∧ f ≠ .propertyNames) → ∀ t args cause,
      PV f cfg rec v inst schema (Err.fresh t args [] cause) :=
    fun f hf t args cause => .fresh _ _ _ _ hf (by simp)
  cases f <;> unfold applyKw <;> dsimp only
  case ref => exact prov_kwRef v inst schema
  case additionalItems => exact prov_kwAdditionalItems v inst schema
  case additionalProperties => exact prov_kwAdditionalProperties v inst schema
  case const => exact leaf_kwConst (hQ _ (by exact ⟨nofun, nofun⟩))
  case contains => exact prov_kwContains v inst schema
  case exclusiveMinimum => exact leaf_kwBound (hQ _ (by exact ⟨nofun, nofun⟩))
  case exclusiveMaximum => exact leaf_kwBound (hQ _ (by exact ⟨nofun, nofun⟩))
  case minimum => exact leaf_kwBound (hQ _ (by exact ⟨nofun, nofun⟩))
  case maximum => exact leaf_kwBound (hQ _ (by exact ⟨nofun, nofun⟩))
  case multipleOf => exact leaf_kwMultipleOf (hQ _ (by exact ⟨nofun, nofun⟩))
  case minItems => exact leaf_kwLenBound (hQ _ (by exact ⟨nofun, nofun⟩))
  case maxItems => exact leaf_kwLenBound (hQ _ (by exact ⟨nofun, nofun⟩))
  case uniqueItems => exact leaf_kwUniqueItems (hQ _ (by exact ⟨nofun, nofun⟩))
  case pattern => exact leaf_kwPattern (hQ _ (by exact ⟨nofun, nofun⟩))
  case format => exact leaf_kwFormat (hQ _ (by exact ⟨nofun, nofun⟩))
  case minLength => exact leaf_kwLenBound (hQ _ (by exact ⟨nofun, nofun⟩))
  case maxLength => exact leaf_kwLenBound (hQ _ (by exact ⟨nofun, nofun⟩))
  case dependencies => exact prov_kwDependencies v inst schema
  case enum => exact leaf_kwEnum (hQ _ (by exact ⟨nofun, nofun⟩))
  case type => exact leaf_kwType (hQ _ (by exact ⟨nofun, nofun⟩))
  case properties => exact prov_kwProperties v inst schema
  case required => exact leaf_kwRequired (hQ _ (by exact ⟨nofun, nofun⟩))
  case minProperties => exact leaf_kwLenBound (hQ _ (by exact ⟨nofun, nofun⟩))
  case maxProperties => exact leaf_kwLenBound (hQ _ (by exact ⟨nofun, nofun⟩))
  case allOf => exact prov_kwAllOf v inst schema
  case anyOf => exact prov_kwAnyOf v inst schema
  case oneOf => exact prov_kwOneOf v inst schema
  case not_ => exact prov_kwNot v inst schema
  case if_ => exact prov_kwIf v inst schema
  case items => exact prov_kwItems v inst schema
  case patternProperties => exact prov_kwPatternProperties v inst schema
  case propertyNames => exact prov_kwPropertyNames v inst schema
  case dependencies_draft3 => exact prov_kwDependenciesDraft3 v inst schema
  case disallow_draft3 => exact prov_kwDisallowDraft3 v inst schema
  case extends_draft3 => exact prov_kwExtendsDraft3 v inst schema
  case items_draft3_draft4 => exact prov_kwItemsDraft3Draft4 v inst schema
  case minimum_draft3_draft4 => exact leaf_kwMinimumDraft3Draft4 (hQ _ (by exact ⟨nofun, nofun⟩))
  case maximum_draft3_draft4 => exact leaf_kwMaximumDraft3Draft4 (hQ _ (by exact ⟨nofun, nofun⟩))
  case properties_draft3 => exact prov_kwPropertiesDraft3 v inst schema
  case type_draft3 => exact prov_kwTypeDraft3 v inst schema
  case alwaysFail => exact leaf_emit (hQ _ (by exact ⟨nofun, nofun⟩))
  case never => exact AllE_nothing
  case foreign => exact AllE_crashG _


/-! ### what `descend` and `stamp` leave alone -/

theorem dmap_info (p q : Option PathElem) (e : Err) : (dmap p q e).info = e.info := by
  obtain ⟨msg, info, path, sp, ctx, c⟩ := e
  cases p <;> cases q <;> rfl

theorem dmap_context (p q : Option PathElem) (e : Err) : (dmap p q e).context = e.context := by
  obtain ⟨msg, info, path, sp, ctx, c⟩ := e
  cases p <;> cases q <;> rfl

theorem dmap_schemaPath (p q : Option PathElem) (e : Err) :
    (dmap p q e).schemaPath = q.toList ++ e.schemaPath := by
  obtain ⟨msg, info, path, sp, ctx, c⟩ := e
  cases p <;> cases q <;> rfl

theorem stamp_info_set {k : Str} {v inst schema : Json} {e : Err} (h : e.info.isSome = true) :
    (stamp k v inst schema e).info = e.info := by
  obtain ⟨msg, info, path, sp, ctx, c⟩ := e
  cases info with
  | none => simp [Err.info] at h
  | some m => unfold stamp; dsimp only; split <;> rfl

theorem stamp_context (k : Str) (v inst schema : Json) (e : Err) :
    (stamp k v inst schema e).context = e.context := by
  obtain ⟨msg, info, path, sp, ctx, c⟩ := e
  unfold stamp; dsimp only; split <;> rfl

theorem stamp_schemaPath_cons {k : Str} (v inst schema : Json) (e : Err)
    (h1 : k ≠ skey "if") (h2 : k ≠ skey "$ref") :
    (stamp k v inst schema e).schemaPath = .key k :: e.schemaPath := by
  obtain ⟨msg, info, path, sp, ctx, c⟩ := e
  unfold stamp; dsimp only
  rw [if_neg (by simp [h1, h2])]; rfl

theorem stamp_schemaPath_if (v inst schema : Json) (e : Err) :
    (stamp (skey "if") v inst schema e).schemaPath = e.schemaPath := by
  obtain ⟨msg, info, path, sp, ctx, c⟩ := e
  unfold stamp; dsimp only
  rw [if_pos (.inl rfl)]; rfl

theorem schemaLocated_info {s : Json} {pre : List PathElem} {e : Err}
    (h : schemaLocated s pre e = true) : e.info.isSome = true := by
  obtain ⟨msg, info, path, sp, ctx, c⟩ := e
  cases info with
  | none => simp [schemaLocated] at h
  | some m => rfl

theorem schemaLocatedList_iff {s : Json} {pre : List PathElem} {es : List Err} :
    schemaLocatedList s pre es = true ↔ ∀ e ∈ es, schemaLocated s pre e = true := by
  induction es with
  | nil => simp [schemaLocatedList]
  | cons e es ih => simp [schemaLocatedList, ih]

/-- an error located in `sub`, seen from `s` where `pre ++ q` addresses `sub`, after `q` was prepended
    to its schema path -/
theorem schemaLocated_of_desc {s sub : Json} {pre q : List PathElem} {e e' : Err}
    (h : schemaLocated sub [] e = true) (hp : ptrGet s (pre ++ q) = some sub)
    (hi : e'.info = e.info) (hc : e'.context = e.context) (hs : e'.schemaPath = q ++ e.schemaPath) :
    schemaLocated s pre e' = true :=
  schemaLocated_shift hi hc hs (by simpa using schemaLocated_reroot hp [] e h)

/-! ### the instance side: from provenance to `Spec.instLocated` -/

/-- the hypothesis on the recursive call -/
def InstRec (rec : Rec) : Prop :=
  ∀ x sub, WF x = true → AllE (fun e => instLocated x e = true) (rec x sub)

theorem inst_of_prov {rec : Rec} {cfg : Cfg} {f : KwFn} {k : Str} {v inst schema : Json} {e : Err}
    (hpn : f = .propertyNames → k = kPN) (hwi : WF inst = true) (hrec : InstRec rec)
    (h : PV f cfg rec v inst schema e) : instLocated inst (stamp k v inst schema e) = true := by
  cases h with
  | fresh t args ctx cause hF hctx =>
    apply instLocated_stamp_fresh
    intro c hc
    obtain ⟨p, q, x, sub, b, st, e0, hR, he0, rfl⟩ := hctx c hc
    rcases hR.1 hwi with hp | ⟨hfpn, _⟩
    · exact instLocated_dmap (hrec x sub (WF_ptrGet hwi hp) b st e0 he0) hp
    · exact absurd hfpn hF.2
  | desc hd =>
    obtain ⟨p, q, x, sub, b, st, e0, hR, he0, rfl⟩ := hd
    rcases hR.1 hwi with hp | ⟨hfpn, rfl, key, rfl⟩
    · exact instLocated_stamp (instLocated_dmap (hrec x sub (WF_ptrGet hwi hp) b st e0 he0) hp)
    · rw [hpn hfpn]
      apply instLocated_stamp_pn
      rw [dmap_info]
      exact instLocated_info (hrec (.str key) sub rfl b st e0 he0)
  | special hs =>
    obtain ⟨_, prop, r, ikvs, rfl, rfl, hnone, _⟩ := hs
    exact instLocated_stamp (instLocated_required r schema hnone)

theorem instLocated_falseErr (inst : Json) : instLocated inst (falseErr inst) = true := by
  simp [falseErr, instLocated, ptrGet, instLocatedList]

theorem lookupS_mem {α : Type} {k : Str} {l : List (Str × α)} {a : α} (h : lookupS k l = some a) :
    (k, a) ∈ l := by
  induction l with
  | nil => cases h
  | cons p l ih =>
    obtain ⟨k', a'⟩ := p
    unfold lookupS at h
    split at h
    · cases h; subst k'; exact List.mem_cons_self ..
    · exact List.mem_cons_of_mem _ (ih h)

/-- every key the validator class binds to the `propertyNames` function is `propertyNames` -/
def PNKey (cfg : Cfg) : Prop := ∀ k, lookupS k cfg.keywords = some KwFn.propertyNames → k = kPN

theorem inst_runKeyword (env : Env) (impl : FmtImpl) {cfg : Cfg} (hpn : PNKey cfg) {rec : Rec}
    (hrec : InstRec rec) {inst : Json} (hwi : WF inst = true) (schema : Json) (kv : Str × Json) :
    AllE (fun e => instLocated inst e = true) (runKeyword env impl cfg rec inst schema kv) := by
  unfold runKeyword
  split
  · exact AllE_nothing
  · rename_i f hf
    refine AllE_mapErrs (prov_applyKw env impl cfg rec f kv.2 inst schema) ?_
    intro e he
    exact inst_of_prov (fun h => hpn _ (h ▸ hf)) hwi hrec he

theorem inst_evalStep (env : Env) (impl : FmtImpl) {cfg : Cfg} (hpn : PNKey cfg) {rec : Rec}
    (hrec : InstRec rec) : InstRec (evalStep env impl cfg rec) := by
  intro inst schema hwi
  unfold evalStep
  split
  · exact AllE_nothing
  · exact AllE_emit (by intro e he; simp at he; subst he; exact instLocated_falseErr _)
  · split
    · apply AllE_withScopeOpt
      unfold schemaBody
      split
      · exact AllE_seqG (fun kv _ => inst_runKeyword env impl hpn hrec hwi _ kv)
      · exact inst_runKeyword env impl hpn hrec hwi _ _
      · exact AllE_seqG (fun kv _ => inst_runKeyword env impl hpn hrec hwi _ kv)
    · exact AllE_crashG _
  · exact AllE_crashG _
  · exact AllE_crashG _

theorem inst_eval (env : Env) (impl : FmtImpl) {cfg : Cfg} (hpn : PNKey cfg) (fuel : Nat) :
    InstRec (eval env impl cfg fuel) := by
  induction fuel with
  | zero => intro _ _ _; exact AllE_stopG _
  | succ n ih => exact inst_evalStep env impl hpn ih

theorem pnKey_draft (d : Draft) (fc : Option FormatChecker) : PNKey (d.cfg fc) := by
  have h : ∀ p ∈ d.keywords, p.2 = KwFn.propertyNames → p.1 = kPN := by
    cases d <;> decide +kernel
  intro k hk
  exact h (k, _) (lookupS_mem hk) rfl


/-! ### the schema side: from provenance to `Spec.schemaLocated` -/

/-- the hypothesis on the recursive call -/
def SchemaRec (rec : Rec) : Prop :=
  ∀ x sub, WF sub = true → noRef sub = true → AllE (fun e => schemaLocated sub [] e = true) (rec x sub)

theorem ptrGet_key_cons {kvs : List (Str × Json)} {k : Str} {v : Json} (h : Json.lookup k kvs = some v)
    (ps : List PathElem) : ptrGet (.obj kvs) (.key k :: ps) = ptrGet v ps := by
  simp [ptrGet, h]

theorem schema_of_prov {rec : Rec} {cfg : Cfg} {f : KwFn} {k : Str} {v inst : Json}
    {kvs : List (Str × Json)} {e : Err}
    (hws : WF (.obj kvs) = true) (hnr : noRef (.obj kvs) = true) (hkv : Json.lookup k kvs = some v)
    (hty : ObjTyped cfg) (hif : f = .if_ ↔ k = skey "if") (href : f ≠ .ref) (hkref : k ≠ skey "$ref")
    (hrec : SchemaRec rec) (h : PV f cfg rec v inst (.obj kvs) e) :
    schemaLocated (.obj kvs) [] (stamp k v inst (.obj kvs) e) = true := by
  have hwv : WF v = true := by
    simp only [WF, Bool.and_eq_true] at hws; exact WF_lookup hws.2 hkv
  have hnv : noRef v = true := by
    simp only [noRef] at hnr; exact noRef_lookup hnr hkv
  cases h with
  | fresh t args ctx cause hF hctx =>
    have hk1 : k ≠ skey "if" := fun h => hF.1 (hif.mpr h)
    have hl : schemaLocatedList (.obj kvs) [.key k] ctx = true := by
      rw [schemaLocatedList_iff]
      intro c hc
      obtain ⟨p, q, x, sub, b, st, e0, hR, he0, rfl⟩ := hctx c hc
      rcases hR.2 hwv hty with ⟨_, hp⟩ | ⟨hf, _⟩ | hf
      · have h0 := hrec x sub (WF_ptrGet hwv hp) (noRef_ptrGet hnv hp) b st e0 he0
        refine schemaLocated_of_desc (q := q.toList) h0 ?_ (dmap_info ..) (dmap_context ..)
          (dmap_schemaPath ..)
        simpa [ptrGet_key_cons hkv] using hp
      · exact absurd hf hF.1
      · exact absurd hf href
    unfold stamp Err.fresh
    dsimp only [Err.setInfo]
    rw [if_neg (by simp [hk1, hkref])]
    simp [Err.consSchemaPath, schemaLocated, ptrGet, hkv, Json.get?, hl]
  | desc hd =>
    obtain ⟨p, q, x, sub, b, st, e0, hR, he0, rfl⟩ := hd
    rcases hR.2 hwv hty with ⟨hf, hp⟩ | ⟨hf, k', rfl, hk'⟩ | hf
    · have hk1 : k ≠ skey "if" := fun h => hf (hif.mpr h)
      have h0 := hrec x sub (WF_ptrGet hwv hp) (noRef_ptrGet hnv hp) b st e0 he0
      have hi0 := schemaLocated_info h0
      refine schemaLocated_of_desc (q := .key k :: q.toList) h0 ?_ ?_ ?_ ?_
      · simpa [ptrGet_key_cons hkv] using hp
      · rw [stamp_info_set (by rw [dmap_info]; exact hi0), dmap_info]
      · rw [stamp_context, dmap_context]
      · rw [stamp_schemaPath_cons _ _ _ _ hk1 hkref, dmap_schemaPath]; rfl
    · have hk1 : k = skey "if" := hif.mp hf
      subst hk1
      have hp : ptrGet (.obj kvs) [.key k'] = some sub := by
        simp only [Json.get?] at hk'
        simp [ptrGet, hk']
      have h0 := hrec x sub (WF_ptrGet hws hp) (noRef_ptrGet hnr hp) b st e0 he0
      have hi0 := schemaLocated_info h0
      refine schemaLocated_of_desc (q := [.key k']) h0 (by simpa using hp) ?_ ?_ ?_
      · rw [stamp_info_set (by rw [dmap_info]; exact hi0), dmap_info]
      · rw [stamp_context, dmap_context]
      · rw [stamp_schemaPath_if, dmap_schemaPath]; rfl
    · exact absurd hf href
  | special hs =>
    obtain ⟨hf, prop, r, ikvs, rfl, rfl, hnone, hv⟩ := hs
    obtain ⟨skvs, hp, hr⟩ := hv hwv
    have hk1 : k ≠ skey "if" := fun h => by rw [hif.mpr h] at hf; cases hf
    unfold stamp requiredDraft3Err
    dsimp only [Err.setInfo]
    rw [if_neg (by simp [hk1, hkref])]
    have hp' : ptrGet v [.key prop, .key (skey "required")] = some r := by
      have := ptrGet_append v [.key prop] [.key (skey "required")]
      simp only [List.singleton_append] at this
      rw [this, hp]
      simp [ptrGet, hr]
    have hreq : skey "required" = kReq := rfl
    rw [hreq] at hp'
    simp [Err.consSchemaPath, schemaLocated, ptrGet_key_cons hkv, hp', hreq, schemaLocatedList]

theorem schemaLocated_falseErr (inst : Json) :
    schemaLocated (.bool false) [] (falseErr inst) = true := by
  simp [falseErr, schemaLocated, ptrGet, schemaLocatedList]

theorem objTyped_draft (d : Draft) (fc : Option FormatChecker) : ObjTyped (d.cfg fc) := by
  have h : lookupS "object".toList (d.cfg fc).types = some .isObject := by
    show lookupS "object".toList d.types = some .isObject
    cases d <;> decide +kernel
  intro x hx
  unfold isTypeS isType at hx
  simp only [h, TyFn.apply] at hx
  injection hx

theorem table_if_ref (d : Draft) :
    ∀ p ∈ d.keywords, (p.2 = KwFn.if_ ↔ p.1 = skey "if") ∧ (p.2 = KwFn.ref → p.1 = skey "$ref") := by
  cases d <;> decide +kernel

theorem schema_runKeyword (env : Env) (impl : FmtImpl) (d : Draft) (fc : Option FormatChecker)
    {rec : Rec} (hrec : SchemaRec rec) (inst : Json) {kvs : List (Str × Json)}
    (hws : WF (.obj kvs) = true) (hnr : noRef (.obj kvs) = true) {kv : Str × Json} (hkv : kv ∈ kvs) :
    AllE (fun e => schemaLocated (.obj kvs) [] e = true)
      (runKeyword env impl (d.cfg fc) rec inst (.obj kvs) kv) := by
  unfold runKeyword
  split
  · exact AllE_nothing
  · rename_i f hf
    have hmem := table_if_ref d (kv.1, f) (lookupS_mem hf)
    have hne : kv.1 ≠ skey "$ref" := by
      simp only [noRef] at hnr
      exact (noRef_no_ref hnr).2 kv hkv
    refine AllE_mapErrs (prov_applyKw env impl (d.cfg fc) rec f kv.2 inst (.obj kvs)) ?_
    intro e he
    exact schema_of_prov hws hnr (lookup_of_mem_WF hws hkv) (objTyped_draft d fc) hmem.1
      (fun h => hne (hmem.2 h)) hne hrec he

theorem schema_evalStep (env : Env) (impl : FmtImpl) (d : Draft) (fc : Option FormatChecker)
    {rec : Rec} (hrec : SchemaRec rec) : SchemaRec (evalStep env impl (d.cfg fc) rec) := by
  intro inst schema hws hnr
  unfold evalStep
  split
  · exact AllE_nothing
  · exact AllE_emit (by intro e he; simp at he; subst he; exact schemaLocated_falseErr _)
  · rename_i kvs
    split
    · apply AllE_withScopeOpt
      have hno : Json.lookup (skey "$ref") kvs = none := by
        simp only [noRef] at hnr
        exact (noRef_no_ref hnr).1
      unfold schemaBody
      rw [hno]
      exact AllE_seqG (fun kv hkv => schema_runKeyword env impl d fc hrec inst hws hnr hkv)
    · exact AllE_crashG _
  · exact AllE_crashG _
  · exact AllE_crashG _

theorem schema_eval (env : Env) (impl : FmtImpl) (d : Draft) (fc : Option FormatChecker) (fuel : Nat) :
    SchemaRec (eval env impl (d.cfg fc) fuel) := by
  induction fuel with
  | zero => intro _ _ _ _; exact AllE_stopG _
  | succ n ih => exact schema_evalStep env impl d fc ih


/-! ### why the instance side needs `PNKey`: a validator class binding the `propertyNames` function
    under another name reports errors whose instance is a property name, with nothing in the schema
    path saying so -/
namespace CE
def env : Env :=
  ⟨fun _ _ => none, fun _ _ => none, fun _ => none, fun _ => none, fun _ => none, fun _ => none,
   fun _ => none, fun _ _ => none, fun _ _ => none⟩
def impl : FmtImpl := ⟨fun _ _ => none⟩
def st : RState := ⟨[], [], [], none, false, 0, []⟩
/-- `validators.extend(Draft7Validator, {"names": _validators.propertyNames})`, reduced -/
def cfg : Cfg := ⟨[("names".toList, .propertyNames)], [("object".toList, .isObject)], "$id".toList, none⟩
def schema : Json := .obj [("names".toList, .bool false)]
def inst : Json := .obj [("a".toList, .null)]

theorem wf : WF inst = true := by decide +kernel
theorem fails :
    ¬ ∀ e ∈ (eval env impl cfg 2 inst schema none st).errs, instLocated inst e = true := by
  decide +kernel
end CE

end Located
end JS
