/- Helper lemmas for C06 `schema_located_refs`: truthful schema locations in schemas WITH references,
   from every resolver state that lives in a well-formed world.

   The reference-free proof (JS/Proofs/Located.lean) describes where the errors of a keyword function
   come from (`Prov`) whatever the resolver state. With references the state matters — the base URI
   in effect is the top of the scope stack, and `resolve` finds the designated schema only from a
   state that is faithful to the world — so the provenance is redone here relative to a state
   invariant `J` (`AllS`, `ProvS`), and records moreover whether a descent steps through a map of
   subschemas (`SRel`). -/
import JS.Proofs.Located
import JS.Proofs.ValidRef
import JS.Spec.LocatedRef
namespace JS
namespace LocatedRef
open Spec Knowledge Located

/-! ### a predicate on every error a generator yields from a state of `J`, `J` being preserved -/

def AllS (J : RState → Prop) (Q : Err → Prop) (g : Gen) : Prop :=
  ∀ b st, J st → J (g b st).st ∧ ∀ e ∈ (g b st).errs, Q e

section AllS
variable {J : RState → Prop} {Q : Err → Prop}

theorem AllS_nothing : AllS J Q nothing := by
  intro b st hj; exact ⟨hj, by intro e he; simp [nothing] at he⟩

theorem AllS_stopG (s : Stop) : AllS J Q (stopG s) := by
  intro b st hj; exact ⟨hj, by intro e he; simp [stopG] at he⟩

theorem AllS_raiseG (x : Exc) : AllS J Q (raiseG x) := AllS_stopG _
theorem AllS_crashG (c : String) : AllS J Q (crashG c) := AllS_stopG _

theorem AllS_emit {es : List Err} (h : ∀ e ∈ es, Q e) : AllS J Q (emit es) := by
  intro b st hj
  unfold emit
  split
  · exact ⟨hj, h⟩
  · split
    · exact ⟨hj, h⟩
    · exact ⟨hj, fun e he => h e (List.mem_of_mem_take he)⟩

theorem AllS_andThen {g h : Gen} (hg : AllS J Q g) (hh : AllS J Q h) : AllS J Q (andThen g h) := by
  intro b st hj
  have h1 := hg b st hj
  unfold andThen
  split
  · rename_i es st' heq
    rw [heq] at h1
    have h2 := hh (budgetSub b es.length) st' h1.1
    dsimp only
    refine ⟨h2.1, ?_⟩
    intro e he
    rcases List.mem_append.mp he with h3 | h3
    · exact h1.2 e h3
    · exact h2.2 e h3
  · exact h1

theorem AllS_seqG {α : Type} {f : α → Gen} {xs : List α} (hf : ∀ x ∈ xs, AllS J Q (f x)) :
    AllS J Q (seqG f xs) := by
  induction xs with
  | nil => exact AllS_nothing
  | cons x xs ih =>
    exact AllS_andThen (hf x (List.mem_cons_self ..))
      (ih (fun y hy => hf y (List.mem_cons_of_mem _ hy)))

theorem AllS_mapErrs {Q' : Err → Prop} {f : Err → Err} {g : Gen} (hg : AllS J Q' g)
    (hf : ∀ e, Q' e → Q (f e)) : AllS J Q (mapErrs f g) := by
  intro b st hj
  have h1 := hg b st hj
  unfold mapErrs
  dsimp only
  refine ⟨h1.1, ?_⟩
  intro e he
  obtain ⟨e0, h0, rfl⟩ := List.mem_map.mp he
  exact hf _ (h1.2 e0 h0)

theorem AllS_inner {Q' : Err → Prop} {g : Gen} {b' : Option Nat} {k : List Err → Gen}
    (hg : AllS J Q' g) (hk : ∀ es, (∀ e ∈ es, Q' e) → AllS J Q (k es)) : AllS J Q (inner g b' k) := by
  intro b st hj
  have h1 := hg b' st hj
  unfold inner
  rcases hgo : g b' st with ⟨es, s, st'⟩
  rw [hgo] at h1
  cases s <;> first
    | exact hk es h1.2 b st' h1.1
    | exact ⟨h1.1, by intro e he; simp at he⟩

theorem AllS_innerValid {Q' : Err → Prop} {g : Gen} {k : Bool → Gen} (hg : AllS J Q' g)
    (hk : ∀ v, AllS J Q (k v)) : AllS J Q (innerValid g k) :=
  AllS_inner hg (fun _ _ => hk _)

theorem AllS_withRes {α : Type} {r : Res α} {k : α → Gen} (hk : ∀ a, r = .ok a → AllS J Q (k a)) :
    AllS J Q (withRes r k) := by
  unfold withRes
  cases r with
  | ok a => exact hk a rfl
  | raise e => exact AllS_raiseG _
  | miss q => exact AllS_stopG _

theorem AllS_gate {cfg : Cfg} {inst : Json} {name : String} {k : Gen} (hk : AllS J Q k) :
    AllS J Q (gate cfg inst name k) := by
  unfold gate
  apply AllS_withRes
  intro ok _
  split
  · exact hk
  · exact AllS_nothing

theorem AllS_mono {Q' : Err → Prop} {g : Gen} (hg : AllS J Q' g) (h : ∀ e, Q' e → Q e) : AllS J Q g :=
  fun b st hj => ⟨(hg b st hj).1, fun e he => h e ((hg b st hj).2 e he)⟩

end AllS

theorem AllS_of_AllE {J : RState → Prop} {Q : Err → Prop} {g : Gen}
    (hp : ∀ b st, J st → J (g b st).st) (h : AllE Q g) : AllS J Q g :=
  fun b st hj => ⟨hp b st hj, h b st⟩

/-! ### where the errors of a keyword function come from, and from which state -/

/-- the recursive call preserves the state invariant -/
def RecPres (J : RState → Prop) (rec : Rec) : Prop := ∀ x sub b st, J st → J (rec x sub b st).st

/-- `e` was produced by a `descend(x, sub, p, q)` with `R q sub`, called in a state of `J` -/
def DescS (rec : Rec) (J : RState → Prop) (R : Option PathElem → Json → Prop) (e : Err) : Prop :=
  ∃ p q x sub b st e0, J st ∧ R q sub ∧ e0 ∈ (rec x sub b st).errs ∧ e = dmap p q e0

inductive ProvS (rec : Rec) (J : RState → Prop) (R : Option PathElem → Json → Prop)
    (F : Prop) (S : Err → Prop) : Err → Prop
  | fresh (t : String) (args : List Json) (ctx : List Err) (cause : Option String) :
      F → (∀ c ∈ ctx, DescS rec J R c) → ProvS rec J R F S (Err.fresh t args ctx cause)
  | desc {e : Err} : DescS rec J R e → ProvS rec J R F S e
  | special {e : Err} : S e → ProvS rec J R F S e

section Prov
variable {rec : Rec} {J : RState → Prop} {R : Option PathElem → Json → Prop} {F : Prop}
  {S : Err → Prop} (hrec : RecPres J rec)
include hrec

theorem AllS_rec (x sub : Json) : AllS J (fun _ => True) (rec x sub) :=
  fun b st hj => ⟨hrec x sub b st hj, fun _ _ => trivial⟩

theorem AllS_descD {p q : Option PathElem} {x sub : Json} (h : R q sub) :
    AllS J (DescS rec J R) (descendG (rec x sub) p q) := by
  intro b st hj
  rw [descendG_eq]
  unfold mapErrs
  dsimp only
  refine ⟨hrec x sub b st hj, ?_⟩
  intro e he
  obtain ⟨e0, h0, rfl⟩ := List.mem_map.mp he
  exact ⟨p, q, x, sub, b, st, e0, hj, h, h0, rfl⟩

theorem AllS_desc {p q : Option PathElem} {x sub : Json} (h : R q sub) :
    AllS J (ProvS rec J R F S) (descendG (rec x sub) p q) :=
  AllS_mono (AllS_descD hrec h) (fun _ he => .desc he)

omit hrec in
theorem AllS_fresh (hF : F) {t : String} {args : List Json} {ctx : List Err} {cause : Option String}
    (h : ∀ c ∈ ctx, DescS rec J R c) : AllS J (ProvS rec J R F S) (emit [Err.fresh t args ctx cause]) :=
  AllS_emit (by intro e he; simp at he; subst he; exact .fresh _ _ _ _ hF h)

omit hrec in
theorem AllS_fresh0 (hF : F) {t : String} {args : List Json} {cause : Option String} :
    AllS J (ProvS rec J R F S) (emit [Err.fresh t args [] cause]) :=
  AllS_fresh hF (by simp)

theorem provS_firstValid {Q : Err → Prop} (inst : Json)
    (k : Option (Json × List (Nat × Json)) → List Err → Gen)
    (hk : ∀ r acc, (∀ c ∈ acc, DescS rec J R c) → AllS J Q (k r acc)) (xs : List (Nat × Json))
    (hxs : ∀ t ∈ xs, R (some (.idx t.1)) t.2) (acc : List Err)
    (hacc : ∀ c ∈ acc, DescS rec J R c) : AllS J Q (firstValid rec inst k xs acc) := by
  induction xs generalizing acc with
  | nil => unfold firstValid; exact hk _ _ hacc
  | cons x xs ih =>
    obtain ⟨i, s⟩ := x
    unfold firstValid
    refine AllS_inner (AllS_descD hrec (hxs (i, s) (List.mem_cons_self ..))) ?_
    intro es hes
    split
    · exact hk _ _ hacc
    · refine ih (fun t ht => hxs t (List.mem_cons_of_mem _ ht)) _ ?_
      intro c hc
      rcases List.mem_append.mp hc with h | h
      · exact hacc c h
      · exact hes c h

theorem provS_moreValid {Q : Err → Prop} (inst : Json) (k : List Json → Gen)
    (hk : ∀ acc, AllS J Q (k acc))
    (xs : List (Nat × Json)) (acc : List Json) : AllS J Q (moreValid rec inst k xs acc) := by
  induction xs generalizing acc with
  | nil => unfold moreValid; exact hk _
  | cons x xs ih =>
    obtain ⟨i, s⟩ := x
    unfold moreValid
    exact AllS_innerValid (AllS_rec hrec _ _) (fun _ => ih _)

theorem provS_typeDraft3Loop {Q : Err → Prop} (cfg : Cfg) (inst : Json) (k : Bool → List Err → Gen)
    (hk : ∀ m acc, (∀ c ∈ acc, DescS rec J R c) → AllS J Q (k m acc)) (xs : List (Nat × Json))
    (hxs : ∀ t ∈ xs, isTypeS cfg t.2 "object" = .ok true → R (some (.idx t.1)) t.2)
    (acc : List Err) (hacc : ∀ c ∈ acc, DescS rec J R c) :
    AllS J Q (typeDraft3Loop cfg rec inst k xs acc) := by
  induction xs generalizing acc with
  | nil => unfold typeDraft3Loop; exact hk _ _ hacc
  | cons x xs ih =>
    obtain ⟨i, t⟩ := x
    have ih' := ih (fun t ht => hxs t (List.mem_cons_of_mem _ ht))
    unfold typeDraft3Loop
    apply AllS_withRes
    intro isObj hobj
    split
    · rename_i htrue
      subst htrue
      refine AllS_inner (AllS_descD hrec (hxs (i, t) (List.mem_cons_self ..) hobj)) ?_
      intro es hes
      split
      · exact hk _ _ hacc
      · refine ih' _ ?_
        intro c hc
        rcases List.mem_append.mp hc with h | h
        · exact hacc c h
        · exact hes c h
    · apply AllS_withRes
      intro ok _
      split
      · exact hk _ _ hacc
      · exact ih' _ hacc

end Prov

/-! ### which descents a keyword function makes (the schema side only) -/

/-- the keyword functions whose value is a map from names to subschemas -/
def isCF : KwFn → Bool
  | .properties | .patternProperties | .dependencies | .properties_draft3 | .dependencies_draft3 => true
  | _ => false

/-- the schema-path element passed to `descend` addresses the sub-schema inside the keyword's value:
    a name exactly under the functions of `isCF`; under `if` the siblings `then`/`else` -/
def SRelR (f : KwFn) (v schema : Json) (q : Option PathElem) (sub : Json) : Prop :=
  (f ≠ .if_ ∧ ptrGet v q.toList = some sub ∧ (isCF f = true ↔ ∃ name, q = some (.key name)))
  ∨ (f = .if_ ∧ ∃ k, q = some (.key k) ∧ containerKw k = false ∧ schema.get? k = some sub)

def RelR (f : KwFn) (cfg : Cfg) (v schema : Json) (q : Option PathElem) (sub : Json) : Prop :=
  WF v = true → ObjTyped cfg → SRelR f v schema q sub

def SpecialR (v schema : Json) (e : Err) : Prop :=
  ∃ prop r inst, e = requiredDraft3Err prop r inst schema ∧
    (WF v = true → ∃ skvs, ptrGet v [.key prop] = some (.obj skvs) ∧
      Json.lookup (skey "required") skvs = some r)

abbrev PVS (f : KwFn) (cfg : Cfg) (rec : Rec) (J : RState → Prop) (v schema : Json) : Err → Prop :=
  ProvS rec J (RelR f cfg v schema) (f ≠ .if_) (fun e => f = .properties_draft3 ∧ SpecialR v schema e)

theorem srelR_same {f : KwFn} {v schema : Json} (hf : f ≠ .if_ := by exact nofun)
    (hc : isCF f = false := by rfl) : SRelR f v schema none v :=
  .inl ⟨hf, rfl, by rw [hc]; simp⟩

theorem srelR_mem {f : KwFn} {pkvs : List (Str × Json)} {schema : Json} {ps : Str × Json}
    (h : ps ∈ pkvs) (hw : WF (.obj pkvs) = true) (hf : f ≠ .if_ := by exact nofun)
    (hc : isCF f = true := by rfl) :
    SRelR f (.obj pkvs) schema (some (.key ps.1)) ps.2 := by
  left; refine ⟨hf, by simp [ptrGet, lookup_of_mem_WF hw h], by rw [hc]; simp⟩

theorem srelR_idx {f : KwFn} {ss : List Json} {schema : Json} {n : Nat} {t : Json}
    (h : ss[n]? = some t) (hf : f ≠ .if_ := by exact nofun) (hc : isCF f = false := by rfl) :
    SRelR f (.arr ss) schema (some (.idx n)) t := by
  left; refine ⟨hf, by simp [ptrGet, h], by rw [hc]; simp⟩

section Kw
variable {env : Env} {cfg : Cfg} {rec : Rec} {J : RState → Prop} (hrec : RecPres J rec)
include hrec

theorem provS_kwPatternProperties (v inst schema : Json) :
    AllS J (PVS .patternProperties cfg rec J v schema) (kwPatternProperties env cfg rec v inst) := by
  unfold kwPatternProperties
  apply AllS_gate
  split
  · rename_i pkvs ikvs
    apply AllS_seqG; intro ps hps
    apply AllS_seqG; intro kx hkx
    apply AllS_withRes; intro m _
    split
    · apply AllS_desc hrec
      exact fun hwv _ => srelR_mem hps hwv
    · exact AllS_nothing
  · exact AllS_crashG _

theorem provS_kwPropertyNames (v inst schema : Json) :
    AllS J (PVS .propertyNames cfg rec J v schema) (kwPropertyNames cfg rec v inst) := by
  unfold kwPropertyNames
  apply AllS_gate
  split
  · apply AllS_seqG; intro kx hkx
    apply AllS_desc hrec
    exact fun _ _ => srelR_same
  · exact AllS_crashG _

theorem provS_kwAdditionalProperties (v inst schema : Json) :
    AllS J (PVS .additionalProperties cfg rec J v schema)
      (kwAdditionalProperties env cfg rec v inst schema) := by
  unfold kwAdditionalProperties
  apply AllS_gate
  split
  · apply AllS_withRes; intro extras0 _
    apply AllS_withRes; intro extras _
    apply AllS_withRes; intro aPobj _
    split
    · apply AllS_seqG; intro extra _
      split
      · rename_i x hx
        apply AllS_desc hrec
        exact fun _ _ => srelR_same
      · exact AllS_crashG _
    · split
      · split
        · exact AllS_fresh0 nofun
        · exact AllS_fresh0 nofun
      · exact AllS_nothing
  · exact AllS_crashG _

omit hrec in
theorem relR_zip {f : KwFn} {xs subs : List Json} {schema : Json} {t : (Nat × Json) × Json}
    (ht : t ∈ (enumFrom 0 xs).zip subs) (hf : f ≠ .if_ := by exact nofun)
    (hc : isCF f = false := by rfl) :
    RelR f cfg (.arr subs) schema (some (.idx t.1.1)) t.2 := by
  obtain ⟨_, h1, h2⟩ := mem_enumFrom_zip _ _ _ _ ht
  exact fun _ _ => srelR_idx (by simpa using h2) hf hc

omit hrec in
theorem relR_enum_s {f : KwFn} {ss : List Json} {schema : Json} {t : Nat × Json}
    (ht : t ∈ enumFrom 0 ss) (hf : f ≠ .if_ := by exact nofun) (hc : isCF f = false := by rfl) :
    RelR f cfg (.arr ss) schema (some (.idx t.1)) t.2 := by
  obtain ⟨_, h1⟩ := Located.mem_enumFrom _ _ _ ht
  exact fun _ _ => srelR_idx (by simpa using h1) hf hc

theorem provS_kwItems (v inst schema : Json) :
    AllS J (PVS .items cfg rec J v schema) (kwItems cfg rec v inst) := by
  unfold kwItems
  apply AllS_gate
  split
  · apply AllS_withRes; intro isArr _
    split
    · split
      · apply AllS_seqG; intro t ht
        exact AllS_desc hrec (relR_zip ht)
      · exact AllS_crashG _
    · apply AllS_seqG; intro t ht
      exact AllS_desc hrec (fun _ _ => srelR_same)
  · exact AllS_crashG _

theorem provS_kwItemsDraft3Draft4 (v inst schema : Json) :
    AllS J (PVS .items_draft3_draft4 cfg rec J v schema) (kwItemsDraft3Draft4 cfg rec v inst) := by
  unfold kwItemsDraft3Draft4
  apply AllS_gate
  split
  · apply AllS_withRes; intro isObj _
    split
    · apply AllS_seqG; intro t ht
      exact AllS_desc hrec (fun _ _ => srelR_same)
    · split
      · apply AllS_seqG; intro t ht
        exact AllS_desc hrec (relR_zip ht)
      · exact AllS_crashG _
  · exact AllS_crashG _

theorem provS_kwAdditionalItems (v inst schema : Json) :
    AllS J (PVS .additionalItems cfg rec J v schema) (kwAdditionalItems cfg rec v inst schema) := by
  unfold kwAdditionalItems
  apply AllS_withRes; intro instArr _
  split
  · exact AllS_nothing
  apply AllS_withRes; intro itemsArr _
  split
  · exact AllS_nothing
  split
  · rename_i xs subs _ _
    apply AllS_withRes; intro aIobj _
    split
    · apply AllS_seqG; intro t ht
      apply AllS_desc hrec
      exact fun _ _ => srelR_same
    · split
      · exact AllS_fresh0 nofun
      · exact AllS_nothing
  · exact AllS_crashG _

theorem provS_containsLoop (f : KwFn) (hf : f ≠ .if_) (v schema sub whole : Json)
    (xs : List Json) : AllS J (PVS f cfg rec J v schema) (containsLoop rec sub whole xs) := by
  induction xs with
  | nil => unfold containsLoop; exact AllS_fresh0 hf
  | cons x xs ih =>
    unfold containsLoop
    apply AllS_innerValid (AllS_rec hrec _ _); intro ok
    split
    · exact AllS_nothing
    · exact ih

theorem provS_kwContains (v inst schema : Json) :
    AllS J (PVS .contains cfg rec J v schema) (kwContains cfg rec v inst) := by
  unfold kwContains
  apply AllS_gate
  split
  · exact provS_containsLoop hrec .contains nofun _ _ _ _ _
  · exact AllS_crashG _

omit hrec in
theorem provS_depArray (f : KwFn) (hf : f ≠ .if_) (v schema : Json)
    (ikvs : List (Str × Json)) (prop : Str) (ds : List Json) :
    AllS J (PVS f cfg rec J v schema) (depArray ikvs prop ds) := by
  unfold depArray
  apply AllS_seqG; intro each _
  apply AllS_withRes; intro miss _
  split
  · exact AllS_fresh0 hf
  · exact AllS_nothing

theorem provS_kwDependencies (v inst schema : Json) :
    AllS J (PVS .dependencies cfg rec J v schema) (kwDependencies cfg rec v inst) := by
  unfold kwDependencies
  apply AllS_gate
  split
  · apply AllS_seqG; intro pd hpd
    split
    · exact AllS_nothing
    apply AllS_withRes; intro isArr _
    split
    · split
      · exact provS_depArray .dependencies nofun _ _ _ _ _
      · exact AllS_crashG _
    · apply AllS_desc hrec
      exact fun hwv _ => srelR_mem hpd hwv
  · exact AllS_crashG _

theorem provS_kwProperties (v inst schema : Json) :
    AllS J (PVS .properties cfg rec J v schema) (kwProperties cfg rec v inst) := by
  unfold kwProperties
  apply AllS_gate
  split
  · apply AllS_seqG; intro ps hps
    split
    · rename_i x hx
      apply AllS_desc hrec
      exact fun hwv _ => srelR_mem hps hwv
    · exact AllS_nothing
  · exact AllS_crashG _

theorem provS_kwAllOf (v inst schema : Json) :
    AllS J (PVS .allOf cfg rec J v schema) (kwAllOf rec v inst) := by
  unfold kwAllOf
  split
  · apply AllS_seqG; intro t ht
    exact AllS_desc hrec (relR_enum_s ht)
  · exact AllS_crashG _

theorem provS_kwAnyOf (v inst schema : Json) :
    AllS J (PVS .anyOf cfg rec J v schema) (kwAnyOf rec v inst) := by
  unfold kwAnyOf
  split
  · rename_i ss
    refine provS_firstValid hrec (R := RelR .anyOf cfg (.arr ss) schema) _ _ ?_ _ ?_ _ ?_
    · intro r acc hacc
      split
      · exact AllS_nothing
      · exact AllS_fresh nofun hacc
    · intro t ht; exact relR_enum_s ht
    · simp
  · exact AllS_crashG _

theorem provS_kwOneOf (v inst schema : Json) :
    AllS J (PVS .oneOf cfg rec J v schema) (kwOneOf rec v inst) := by
  unfold kwOneOf
  split
  · rename_i ss
    refine provS_firstValid hrec (R := RelR .oneOf cfg (.arr ss) schema) _ _ ?_ _ ?_ _ ?_
    · intro r acc hacc
      split
      · exact AllS_fresh nofun hacc
      · refine provS_moreValid hrec _ _ ?_ _ _
        intro more
        split
        · exact AllS_nothing
        · exact AllS_fresh0 nofun
    · intro t ht; exact relR_enum_s ht
    · simp
  · exact AllS_crashG _

theorem provS_kwNot (v inst schema : Json) :
    AllS J (PVS .not_ cfg rec J v schema) (kwNot rec v inst) := by
  unfold kwNot
  apply AllS_innerValid (AllS_rec hrec _ _); intro ok
  split
  · exact AllS_fresh0 nofun
  · exact AllS_nothing

theorem provS_kwIf (v inst schema : Json) :
    AllS J (PVS .if_ cfg rec J v schema) (kwIf rec v inst schema) := by
  unfold kwIf
  apply AllS_innerValid (AllS_rec hrec _ _); intro ok
  split
  · split
    · rename_i t ht
      apply AllS_desc hrec
      exact fun _ _ => .inr ⟨rfl, _, rfl, by decide, ht⟩
    · exact AllS_nothing
  · split
    · rename_i t ht
      apply AllS_desc hrec
      exact fun _ _ => .inr ⟨rfl, _, rfl, by decide, ht⟩
    · exact AllS_nothing

theorem provS_kwDependenciesDraft3 (v inst schema : Json) :
    AllS J (PVS .dependencies_draft3 cfg rec J v schema) (kwDependenciesDraft3 cfg rec v inst) := by
  unfold kwDependenciesDraft3
  apply AllS_gate
  split
  · apply AllS_seqG; intro pd hpd
    split
    · exact AllS_nothing
    apply AllS_withRes; intro isObj _
    split
    · apply AllS_desc hrec
      exact fun hwv _ => srelR_mem hpd hwv
    · apply AllS_withRes; intro isStr _
      split
      · apply AllS_withRes; intro miss _
        split
        · exact AllS_fresh0 nofun
        · exact AllS_nothing
      · split
        · exact provS_depArray .dependencies_draft3 nofun _ _ _ _ _
        · exact AllS_crashG _
  · exact AllS_crashG _

theorem provS_kwDisallowDraft3 (v inst schema : Json) :
    AllS J (PVS .disallow_draft3 cfg rec J v schema) (kwDisallowDraft3 rec v inst) := by
  unfold kwDisallowDraft3
  split
  · exact AllS_crashG _
  · apply AllS_seqG; intro d _
    apply AllS_innerValid (AllS_rec hrec _ _); intro ok
    split
    · exact AllS_fresh0 nofun
    · exact AllS_nothing

theorem provS_kwExtendsDraft3 (v inst schema : Json) :
    AllS J (PVS .extends_draft3 cfg rec J v schema) (kwExtendsDraft3 cfg rec v inst) := by
  unfold kwExtendsDraft3
  apply AllS_withRes; intro isObj _
  split
  · apply AllS_desc hrec
    exact fun _ _ => srelR_same
  · split
    · apply AllS_seqG; intro t ht
      exact AllS_desc hrec (relR_enum_s ht)
    · exact AllS_crashG _

theorem provS_kwPropertiesDraft3 (v inst schema : Json) :
    AllS J (PVS .properties_draft3 cfg rec J v schema) (kwPropertiesDraft3 cfg rec v inst schema) := by
  unfold kwPropertiesDraft3
  apply AllS_gate
  split
  · rename_i pkvs ikvs
    apply AllS_seqG; intro ps hps
    split
    · rename_i x hx
      apply AllS_desc hrec
      exact fun hwv _ => srelR_mem hps hwv
    · rename_i hnone
      split
      · rename_i skvs hskvs
        split
        · rename_i r hr
          split
          · apply AllS_emit
            intro e he
            simp only [List.mem_singleton] at he
            subst he
            refine .special ⟨rfl, ps.1, r, _, rfl, fun hwv => ⟨skvs, ?_, hr⟩⟩
            simp [ptrGet, lookup_of_mem_WF hwv hps, hskvs]
          · exact AllS_nothing
        · exact AllS_nothing
      · exact AllS_crashG _
  · exact AllS_crashG _

theorem provS_kwTypeDraft3 (v inst schema : Json) :
    AllS J (PVS .type_draft3 cfg rec J v schema) (kwTypeDraft3 cfg rec v inst) := by
  unfold kwTypeDraft3
  split
  · exact AllS_crashG _
  · rename_i ts hts
    refine provS_typeDraft3Loop hrec (R := RelR .type_draft3 cfg v schema) _ _ _ ?_ _ ?_ _ ?_
    · intro m acc hacc
      split
      · exact AllS_nothing
      · exact AllS_fresh nofun hacc
    · intro t ht hobj
      obtain ⟨_, h1⟩ := Located.mem_enumFrom _ _ _ ht
      intro hwv hty
      have hisobj := hty _ hobj
      unfold ensureList at hts
      split at hts
      · cases hts
        rename_i s
        simp only [Nat.sub_zero] at h1
        have : t.2 = .str s := by
          cases hn : t.1 with
          | zero => rw [hn] at h1; simpa using h1.symm
          | succ n => rw [hn] at h1; simp at h1
        rw [this] at hisobj; simp [Json.isObj] at hisobj
      · cases hts
        exact srelR_idx (by simpa using h1)
      · cases hts
    · simp

end Kw

/-! ### the walk `Spec.navR` -/

section Nav
variable {env : Env} {d : Draft} {base : List (Str × Json)}

/-- the reference hop at a schema object -/
def hopOf (env : Env) (base : List (Str × Json)) (top : Str) (kvs : List (Str × Json)) :
    Option (Str × Json) :=
  match lookupJ "$ref" kvs with
  | some (.str r) => designated env base top r
  | _ => none

theorem navR_succ_obj (last : Bool) (n : Nat) (top : Str) (kvs : List (Str × Json)) (path : List PathElem) :
    navR env d base last (n + 1) top (.obj kvs) path =
      match path with
      | [] =>
        (match hopOf env base top kvs with
         | some (url, t) => if last then navR env d base last n url t [] else some (.obj kvs)
         | none => some (.obj kvs))
      | p :: ps =>
        (match hopOf env base top kvs with
         | some (url, t) => navR env d base last n url t (p :: ps)
         | none =>
           match p with
           | .key k =>
             (Json.lookup k kvs).bind fun v =>
               navIn (navR env d base last n (baseIn env d top kvs)) last (containerKw k) v ps
           | .idx _ => none) := by
  rfl

theorem navR_hop {last : Bool} {n : Nat} {top : Str} {kvs : List (Str × Json)} {url : Str} {t : Json}
    {path : List PathElem} (hh : hopOf env base top kvs = some (url, t)) (hp : path ≠ [] ∨ last = true) :
    navR env d base last (n + 1) top (.obj kvs) path = navR env d base last n url t path := by
  rw [navR_succ_obj]
  cases path with
  | nil =>
    rcases hp with hp | hp
    · exact absurd rfl hp
    · subst hp; simp only [hh, if_true]
  | cons p ps => simp only [hh]

theorem navR_key {last : Bool} {n : Nat} {top : Str} {kvs : List (Str × Json)} {k : Str} {v : Json}
    {ps : List PathElem} (hh : hopOf env base top kvs = none) (hk : Json.lookup k kvs = some v) :
    navR env d base last (n + 1) top (.obj kvs) (.key k :: ps)
      = navIn (navR env d base last n (baseIn env d top kvs)) last (containerKw k) v ps := by
  rw [navR_succ_obj]
  simp only [hh, hk, Option.bind_some]

theorem navR_obj_nil_false {n : Nat} {top : Str} {kvs : List (Str × Json)} :
    navR env d base false (n + 1) top (.obj kvs) [] = some (.obj kvs) := by
  rw [navR_succ_obj]
  dsimp only
  split
  · rfl
  · rfl

theorem navR_nonobj {last : Bool} {top : Str} {cur : Json} {path : List PathElem}
    (hc : cur.isObj = false) (hp : path ≠ []) : ∀ n, navR env d base last n top cur path = none
  | 0 => rfl
  | n + 1 => by
    cases path with
    | nil => exact absurd rfl hp
    | cons p ps => cases cur <;> first | rfl | (simp [Json.isObj] at hc)

theorem navR_nonobj_nil {last : Bool} {top : Str} {cur : Json} (hc : cur.isObj = false) (n : Nat) :
    navR env d base last (n + 1) top cur [] = some cur := by
  cases cur <;> first | rfl | (simp [Json.isObj] at hc)

/-- what the schema-path element `q` of a descent and the sub-schema `sub` have to do with the
    keyword's value `v` (`cont`: the keyword's value is a map of subschemas) -/
def InOK (cont : Bool) (v : Json) (q : Option PathElem) (sub : Json) : Prop :=
  match q with
  | none => sub = v ∧ (cont = false ∨ v.isObj = false)
  | some (.idx j) => ∃ xs, v = .arr xs ∧ xs[j]? = some sub
  | some (.key name) => cont = true ∧ ∃ pkvs, v = .obj pkvs ∧ Json.lookup name pkvs = some sub

theorem navIn_ok {last cont : Bool} {n : Nat} {B : Str} {v sub w : Json} {q : Option PathElem}
    {path : List PathElem} (hin : InOK cont v q sub) (hp : path ≠ [] ∨ last = true)
    (hn : navR env d base last n B sub path = some w) :
    navIn (navR env d base last n B) last cont v (q.toList ++ path) = some w := by
  cases q with
  | none =>
    obtain ⟨rfl, hc⟩ := hin
    simp only [Option.toList_none, List.nil_append]
    cases path with
    | nil =>
      rcases hp with hp | hp
      · exact absurd rfl hp
      · subst hp; simpa [navIn] using hn
    | cons p ps =>
      cases hs : sub with
      | obj pkvs =>
        subst hs
        have hcf : cont = false := by
          rcases hc with hc | hc
          · exact hc
          · simp [Json.isObj] at hc
        subst hcf
        cases p <;> simpa [navIn] using hn
      | arr xs =>
        subst hs
        rw [navR_nonobj (by rfl) (by simp)] at hn
        cases hn
      | null => subst hs; rw [navR_nonobj (by rfl) (by simp)] at hn; cases hn
      | bool _ => subst hs; rw [navR_nonobj (by rfl) (by simp)] at hn; cases hn
      | num _ => subst hs; rw [navR_nonobj (by rfl) (by simp)] at hn; cases hn
      | str _ => subst hs; rw [navR_nonobj (by rfl) (by simp)] at hn; cases hn
  | some p =>
    cases p with
    | idx j =>
      obtain ⟨xs, rfl, hx⟩ := hin
      simp [navIn, hx, hn]
    | key name =>
      obtain ⟨rfl, pkvs, rfl, hl⟩ := hin
      simp [navIn, hl, hn]

/-- walks from `(top', s')` continue walks from `(top, s)` along `q` -/
def Lift (env : Env) (d : Draft) (base : List (Str × Json)) (top : Str) (s : Json) (top' : Str)
    (s' : Json) (q : List PathElem) : Prop :=
  ∀ last path v, (path ≠ [] ∨ last = true) → NavR env d base last top' s' path v →
    NavR env d base last top s (q ++ path) v

theorem lift_hop {top : Str} {kvs : List (Str × Json)} {url : Str} {t : Json}
    (hh : hopOf env base top kvs = some (url, t)) : Lift env d base top (.obj kvs) url t [] := by
  intro last path v hp ⟨n, hn⟩
  exact ⟨n + 1, by rw [List.nil_append, navR_hop hh hp]; exact hn⟩

theorem lift_key {top : Str} {kvs : List (Str × Json)} {k : Str} {v sub : Json} {q : Option PathElem}
    (hh : hopOf env base top kvs = none) (hk : Json.lookup k kvs = some v)
    (hin : InOK (containerKw k) v q sub) :
    Lift env d base top (.obj kvs) (baseIn env d top kvs) sub (.key k :: q.toList) := by
  intro last path w hp ⟨n, hn⟩
  exact ⟨n + 1, by rw [List.cons_append, navR_key hh hk]; exact navIn_ok hin hp hn⟩

mutual
theorem schemaLocatedR_reroot {top : Str} {s : Json} {top' : Str} {s' : Json} {q : List PathElem}
    (hL : Lift env d base top s top' s' q) (pre : List PathElem) :
    (e : Err) → schemaLocatedR env d base top' s' pre e → schemaLocatedR env d base top s (q ++ pre) e
  | .mk msg info path sp ctx c => by
    intro h
    cases info with
    | none => simp [schemaLocatedR] at h
    | some m =>
      obtain ⟨kw, kwVal, inst, schema⟩ := m
      cases kw with
      | none =>
        simp only [schemaLocatedR] at h ⊢
        refine ⟨⟨?_, h.1.2⟩, ?_⟩
        · rw [List.append_assoc]; exact hL true _ _ (.inr rfl) h.1.1
        · rw [List.append_assoc]; exact schemaLocatedRList_reroot hL _ ctx h.2
      | some k =>
        simp only [schemaLocatedR] at h ⊢
        obtain ⟨⟨hlast, hnav, hsch⟩, hctx⟩ := h
        have hne : sp ≠ [] := by intro h0; subst h0; simp at hlast
        refine ⟨⟨hlast, ?_, hsch⟩, ?_⟩
        · rcases hnav with hnav | ⟨hk, hlen, skvs, hnav, hl⟩
          · left; rw [List.append_assoc]; exact hL false _ _ (.inl (by simp [hne])) hnav
          · right
            refine ⟨hk, hlen, skvs, ?_, hl⟩
            rw [List.append_assoc]
            refine hL false _ _ (.inl ?_) hnav
            intro h0
            have := congrArg List.length h0
            simp at this
            omega
        · rw [List.append_assoc]; exact schemaLocatedRList_reroot hL _ ctx hctx
theorem schemaLocatedRList_reroot {top : Str} {s : Json} {top' : Str} {s' : Json} {q : List PathElem}
    (hL : Lift env d base top s top' s' q) (pre : List PathElem) :
    (es : List Err) → schemaLocatedRList env d base top' s' pre es →
      schemaLocatedRList env d base top s (q ++ pre) es
  | [] => by intro _; simp [schemaLocatedRList]
  | e :: es => by
    intro h
    simp only [schemaLocatedRList] at h ⊢
    exact ⟨schemaLocatedR_reroot hL pre e h.1, schemaLocatedRList_reroot hL pre es h.2⟩
end

theorem schemaLocatedR_shift {top : Str} {s : Json} {pre q : List PathElem} {e e' : Err}
    (hi : e'.info = e.info) (hc : e'.context = e.context) (hs : e'.schemaPath = q ++ e.schemaPath)
    (h : schemaLocatedR env d base top s (pre ++ q) e) : schemaLocatedR env d base top s pre e' := by
  obtain ⟨msg, info, path, sp, ctx, c⟩ := e
  obtain ⟨msg', info', path', sp', ctx', c'⟩ := e'
  simp only [Err.info, Err.context, Err.schemaPath] at hi hc hs
  subst hi hc hs
  cases info' with
  | none => simp [schemaLocatedR] at h
  | some m =>
    obtain ⟨kw, kwVal, inst, schema⟩ := m
    cases kw with
    | none =>
      simp only [schemaLocatedR] at h ⊢
      rw [List.append_assoc] at h
      exact h
    | some k =>
      simp only [schemaLocatedR] at h ⊢
      rw [List.append_assoc] at h
      obtain ⟨⟨hlast, hnav, hsch⟩, hctx⟩ := h
      have hne : sp ≠ [] := by intro h0; subst h0; simp at hlast
      refine ⟨⟨?_, ?_, ?_⟩, hctx⟩
      · rw [List.getLast?_append, hlast]; rfl
      · rcases hnav with hnav | ⟨hk, hlen, skvs, hnav, hl⟩
        · exact .inl hnav
        · right
          refine ⟨hk, by simp; omega, skvs, ?_, hl⟩
          rw [List.dropLast_append_of_ne_nil hne, ← List.append_assoc]
          exact hnav
      · rcases hsch with hsch | ⟨hk, hlen⟩
        · exact .inl hsch
        · exact .inr ⟨hk, by simp; omega⟩

theorem schemaLocatedRList_iff {top : Str} {s : Json} {pre : List PathElem} {es : List Err} :
    schemaLocatedRList env d base top s pre es ↔ ∀ e ∈ es, schemaLocatedR env d base top s pre e := by
  induction es with
  | nil => simp [schemaLocatedRList]
  | cons e es ih => simp [schemaLocatedRList, ih]

theorem schemaLocatedR_info {top : Str} {s : Json} {pre : List PathElem} {e : Err}
    (h : schemaLocatedR env d base top s pre e) : e.info.isSome = true := by
  obtain ⟨msg, info, path, sp, ctx, c⟩ := e
  cases info with
  | none => simp [schemaLocatedR] at h
  | some m => rfl

/-- an error located in `sub` (base `top'`), seen from `s` where walks from `sub` continue walks
    along `pre ++ q`, after `q` was prepended to its schema path -/
theorem schemaLocatedR_of_desc {top : Str} {s : Json} {top' : Str} {sub : Json} {pre q : List PathElem}
    {e e' : Err} (h : schemaLocatedR env d base top' sub [] e)
    (hL : Lift env d base top s top' sub (pre ++ q))
    (hi : e'.info = e.info) (hc : e'.context = e.context) (hs : e'.schemaPath = q ++ e.schemaPath) :
    schemaLocatedR env d base top s pre e' :=
  schemaLocatedR_shift hi hc hs (by simpa using schemaLocatedR_reroot hL [] e h)

end Nav

/-! ### from provenance to `Spec.schemaLocatedR` -/

section Main
variable {env : Env} {d : Draft} {base : List (Str × Json)}

theorem inOK_of_srel {f : KwFn} {k : Str} {v sub : Json} {q : Option PathElem}
    (hcont : containerKw k = isCF f) (hp : ptrGet v q.toList = some sub)
    (hq : isCF f = true ↔ ∃ name, q = some (.key name)) : InOK (containerKw k) v q sub := by
  cases q with
  | none =>
    simp only [Option.toList_none, ptrGet, Option.some.injEq] at hp
    refine ⟨hp.symm, .inl ?_⟩
    rw [hcont]
    cases hf : isCF f with
    | false => rfl
    | true => obtain ⟨name, hn⟩ := hq.mp hf; cases hn
  | some p =>
    cases p with
    | idx j =>
      cases v with
      | arr xs =>
        refine ⟨xs, rfl, ?_⟩
        simpa [ptrGet] using hp
      | _ => simp [ptrGet] at hp
    | key name =>
      have hc : isCF f = true := hq.mpr ⟨name, rfl⟩
      cases v with
      | obj pkvs =>
        refine ⟨by rw [hcont, hc], pkvs, rfl, ?_⟩
        simpa [ptrGet] using hp
      | _ => simp [ptrGet] at hp

theorem refsProper_ptrGet {i x : Json} {ps : List PathElem} (hw : refsProper i = true)
    (h : ptrGet i ps = some x) : refsProper x = true := by
  induction ps generalizing i with
  | nil => simp [ptrGet] at h; subst h; exact hw
  | cons p ps ih =>
    cases p with
    | key k =>
      cases i with
      | obj kvs => ?_
      | _ => simp [ptrGet] at h
      rw [ptrGet] at h
      obtain ⟨y, hy, h2⟩ := Option.bind_eq_some_iff.mp h
      simp only [refsProper] at hw
      exact ih (refsProper_lookup hw hy) h2
    | idx n =>
      cases i with
      | arr xs => ?_
      | _ => simp [ptrGet] at h
      rw [ptrGet] at h
      obtain ⟨y, hy, h2⟩ := Option.bind_eq_some_iff.mp h
      simp only [refsProper] at hw
      exact ih (refsProper_getElem hw hy) h2

theorem stamp_schemaPath_ref (v inst schema : Json) (e : Err) :
    (stamp (skey "$ref") v inst schema e).schemaPath = e.schemaPath := by
  obtain ⟨msg, info, path, sp, ctx, c⟩ := e
  unfold stamp; dsimp only
  rw [if_pos (.inr rfl)]; rfl

theorem schemaR_of_prov {rec : Rec} {cfg : Cfg} {f : KwFn} {k : Str} {v inst : Json}
    {kvs : List (Str × Json)} {e : Err} {top : Str} {sc : List Str}
    (hws : WF (.obj kvs) = true) (hrp : refsProper (.obj kvs) = true) (hkv : Json.lookup k kvs = some v)
    (hh : hopOf env base top kvs = none)
    (hty : ObjTyped cfg) (hif : f = .if_ ↔ k = skey "if") (hkref : k ≠ skey "$ref")
    (hcont : containerKw k = isCF f)
    (hrec : ∀ x sub b σ, WF sub = true → refsProper sub = true → PK env base sc σ →
      ∀ e0 ∈ (rec x sub b σ).errs, schemaLocatedR env d base (baseIn env d top kvs) sub [] e0)
    (h : PVS f cfg rec (PK env base sc) v (.obj kvs) e) :
    schemaLocatedR env d base top (.obj kvs) [] (stamp k v inst (.obj kvs) e) := by
  have hwv : WF v = true := by
    simp only [WF, Bool.and_eq_true] at hws; exact WF_lookup hws.2 hkv
  have hrv : refsProper v = true := by
    simp only [refsProper] at hrp; exact refsProper_lookup hrp hkv
  cases h with
  | fresh t args ctx cause hF hctx =>
    have hk1 : k ≠ skey "if" := fun h => hF (hif.mpr h)
    have hl : schemaLocatedRList env d base top (.obj kvs) [.key k] ctx := by
      rw [schemaLocatedRList_iff]
      intro c hc
      obtain ⟨p, q, x, sub, b, st, e0, hj, hR, he0, rfl⟩ := hctx c hc
      rcases hR hwv hty with ⟨_, hp, hq⟩ | ⟨hf, _⟩
      · have h0 := hrec x sub b st (WF_ptrGet hwv hp) (refsProper_ptrGet hrv hp) hj e0 he0
        exact schemaLocatedR_of_desc (q := q.toList) h0
          (lift_key hh hkv (inOK_of_srel hcont hp hq)) (dmap_info ..) (dmap_context ..)
          (dmap_schemaPath ..)
      · exact absurd hf hF
    unfold stamp Err.fresh
    dsimp only [Err.setInfo]
    rw [if_neg (by simp [hk1, hkref])]
    simp only [Err.consSchemaPath, schemaLocatedR, Option.orElse, List.nil_append]
    refine ⟨⟨rfl, .inl ⟨1, ?_⟩, .inl (by simpa [Json.get?] using hkv)⟩, hl⟩
    rw [navR_key hh hkv]
    rfl
  | desc hd =>
    obtain ⟨p, q, x, sub, b, st, e0, hj, hR, he0, rfl⟩ := hd
    rcases hR hwv hty with ⟨hf, hp, hq⟩ | ⟨hf, k', rfl, hck', hk'⟩
    · have hk1 : k ≠ skey "if" := fun h => hf (hif.mpr h)
      have h0 := hrec x sub b st (WF_ptrGet hwv hp) (refsProper_ptrGet hrv hp) hj e0 he0
      have hi0 := schemaLocatedR_info h0
      refine schemaLocatedR_of_desc (pre := []) (q := .key k :: q.toList) h0
        (lift_key hh hkv (inOK_of_srel hcont hp hq)) ?_ ?_ ?_
      · rw [stamp_info_set (by rw [dmap_info]; exact hi0), dmap_info]
      · rw [stamp_context, dmap_context]
      · rw [stamp_schemaPath_cons _ _ _ _ hk1 hkref, dmap_schemaPath]; rfl
    · have hk1 : k = skey "if" := hif.mp hf
      subst hk1
      have hk'' : Json.lookup k' kvs = some sub := by simpa [Json.get?] using hk'
      have hwsub : WF sub = true := by
        simp only [WF, Bool.and_eq_true] at hws; exact WF_lookup hws.2 hk''
      have hrsub : refsProper sub = true := by
        simp only [refsProper] at hrp; exact refsProper_lookup hrp hk''
      have h0 := hrec x sub b st hwsub hrsub hj e0 he0
      have hi0 := schemaLocatedR_info h0
      refine schemaLocatedR_of_desc (pre := []) (q := [.key k']) h0
        (lift_key (q := none) hh hk'' ⟨rfl, .inl hck'⟩) ?_ ?_ ?_
      · rw [stamp_info_set (by rw [dmap_info]; exact hi0), dmap_info]
      · rw [stamp_context, dmap_context]
      · rw [stamp_schemaPath_if, dmap_schemaPath]; rfl
  | special hs =>
    obtain ⟨hf, prop, r, inst', rfl, hv⟩ := hs
    obtain ⟨skvs, hp, hr⟩ := hv hwv
    have hk1 : k ≠ skey "if" := fun h => by rw [hif.mpr h] at hf; cases hf
    have hc : containerKw k = true := by rw [hcont, hf]; rfl
    unfold stamp requiredDraft3Err
    dsimp only [Err.setInfo]
    rw [if_neg (by simp [hk1, hkref])]
    have hreq : skey "required" = kReq := rfl
    cases v with
    | obj pkvs =>
      have hl : Json.lookup prop pkvs = some (.obj skvs) := by simpa [ptrGet] using hp
      simp only [Err.consSchemaPath, schemaLocatedR, Option.orElse, List.nil_append, schemaLocatedRList,
        and_true]
      refine ⟨by simp [hreq], .inr ⟨hreq, by simp, skvs, ⟨2, ?_⟩, by rw [← hreq]; exact hr⟩,
        .inr ⟨hreq, by simp⟩⟩
      show navR env d base false 2 top (.obj kvs) [.key k, .key prop] = some (.obj skvs)
      rw [navR_key hh hkv, hc]
      simp only [navIn, if_true, hl, Option.bind_some]
      exact navR_obj_nil_false
    | _ => simp [ptrGet] at hp

end Main

/-! ### the dispatcher, from states that live in the world -/

section Dispatch
variable {env : Env} {base : List (Str × Json)}

/-- what the induction on the fuel knows of the recursive call besides locatedness: knowledge
    transparency and scope restoration (both hold of `eval` at every fuel) -/
structure RecOK (env : Env) (base : List (Str × Json)) (rec : Rec) : Prop where
  rk : ∀ i s, RK env base (rec i s) (rec i s)
  sc : RecScopeOK rec

theorem pk_of_RK {g : Gen} (hr : RK env base g g) (hs : ScopeOK g) {sc : List Str} (b : Option Nat)
    (st : RState) (hp : PK env base sc st) : PK env base sc (g b st).st := by
  obtain ⟨_, _, hw⟩ := hr b st st ⟨rfl, hp.1, hp.1⟩
  exact ⟨hw.left, by rw [hs.restore]; exact hp.2⟩

theorem RecOK.pres {rec : Rec} (h : RecOK env base rec) (sc : List Str) : RecPres (PK env base sc) rec :=
  fun x sub b st hp => pk_of_RK (h.rk x sub) (h.sc x sub) b st hp

theorem recOK_eval (hf : StableFetchS env) (impl : FmtImpl) (cfg : Cfg) (fuel : Nat) :
    RecOK env base (eval env impl cfg fuel) :=
  ⟨eval_RK hf impl cfg fuel, scopeOK_eval env impl cfg fuel⟩

theorem pk_applyKw (hf : StableFetchS env) (impl : FmtImpl) (cfg : Cfg) {rec : Rec}
    (hok : RecOK env base rec) (f : KwFn) (v inst schema : Json) (sc : List Str) (b : Option Nat)
    (st : RState) (hp : PK env base sc st) :
    PK env base sc (applyKw env impl cfg rec f v inst schema b st).st :=
  pk_of_RK (R_applyKw (closed₂_RK hf) impl cfg hok.rk f v inst schema)
    (P_applyKw (scopeClosed env) impl cfg hok.sc f v inst schema) b st hp

theorem provS_applyKw (hf : StableFetchS env) (impl : FmtImpl) (cfg : Cfg) {rec : Rec}
    (hok : RecOK env base rec) (sc : List Str) (f : KwFn) (hfr : f ≠ .ref) (v inst schema : Json) :
    AllS (PK env base sc) (PVS f cfg rec (PK env base sc) v schema)
      (applyKw env impl cfg rec f v inst schema) := by
  have hrec := hok.pres sc
  have hpk : ∀ f, ∀ b st, PK env base sc st →
      PK env base sc (applyKw env impl cfg rec f v inst schema b st).st :=
    fun f b st hp => pk_applyKw hf impl cfg hok f v inst schema sc b st hp
  have hQ : ∀ (f : KwFn), f ≠ .if_ → ∀ t args cause,
      PVS f cfg rec (PK env base sc) v schema (Err.fresh t args [] cause) :=
    fun f hf t args cause => .fresh _ _ _ _ hf (by simp)
  cases f
  case ref => exact absurd rfl hfr
  case additionalItems => exact provS_kwAdditionalItems hrec v inst schema
  case additionalProperties => exact provS_kwAdditionalProperties hrec v inst schema
  case const => exact AllS_of_AllE (hpk .const) (leaf_kwConst (hQ .const nofun))
  case contains => exact provS_kwContains hrec v inst schema
  case exclusiveMinimum => exact AllS_of_AllE (hpk .exclusiveMinimum) (leaf_kwBound (hQ .exclusiveMinimum nofun))
  case exclusiveMaximum => exact AllS_of_AllE (hpk .exclusiveMaximum) (leaf_kwBound (hQ .exclusiveMaximum nofun))
  case minimum => exact AllS_of_AllE (hpk .minimum) (leaf_kwBound (hQ .minimum nofun))
  case maximum => exact AllS_of_AllE (hpk .maximum) (leaf_kwBound (hQ .maximum nofun))
  case multipleOf => exact AllS_of_AllE (hpk .multipleOf) (leaf_kwMultipleOf (hQ .multipleOf nofun))
  case minItems => exact AllS_of_AllE (hpk .minItems) (leaf_kwLenBound (hQ .minItems nofun))
  case maxItems => exact AllS_of_AllE (hpk .maxItems) (leaf_kwLenBound (hQ .maxItems nofun))
  case uniqueItems => exact AllS_of_AllE (hpk .uniqueItems) (leaf_kwUniqueItems (hQ .uniqueItems nofun))
  case pattern => exact AllS_of_AllE (hpk .pattern) (leaf_kwPattern (hQ .pattern nofun))
  case format => exact AllS_of_AllE (hpk .format) (leaf_kwFormat (hQ .format nofun))
  case minLength => exact AllS_of_AllE (hpk .minLength) (leaf_kwLenBound (hQ .minLength nofun))
  case maxLength => exact AllS_of_AllE (hpk .maxLength) (leaf_kwLenBound (hQ .maxLength nofun))
  case dependencies => exact provS_kwDependencies hrec v inst schema
  case enum => exact AllS_of_AllE (hpk .enum) (leaf_kwEnum (hQ .enum nofun))
  case type => exact AllS_of_AllE (hpk .type) (leaf_kwType (hQ .type nofun))
  case properties => exact provS_kwProperties hrec v inst schema
  case required => exact AllS_of_AllE (hpk .required) (leaf_kwRequired (hQ .required nofun))
  case minProperties => exact AllS_of_AllE (hpk .minProperties) (leaf_kwLenBound (hQ .minProperties nofun))
  case maxProperties => exact AllS_of_AllE (hpk .maxProperties) (leaf_kwLenBound (hQ .maxProperties nofun))
  case allOf => exact provS_kwAllOf hrec v inst schema
  case anyOf => exact provS_kwAnyOf hrec v inst schema
  case oneOf => exact provS_kwOneOf hrec v inst schema
  case not_ => exact provS_kwNot hrec v inst schema
  case if_ => exact provS_kwIf hrec v inst schema
  case items => exact provS_kwItems hrec v inst schema
  case patternProperties => exact provS_kwPatternProperties hrec v inst schema
  case propertyNames => exact provS_kwPropertyNames hrec v inst schema
  case dependencies_draft3 => exact provS_kwDependenciesDraft3 hrec v inst schema
  case disallow_draft3 => exact provS_kwDisallowDraft3 hrec v inst schema
  case extends_draft3 => exact provS_kwExtendsDraft3 hrec v inst schema
  case items_draft3_draft4 => exact provS_kwItemsDraft3Draft4 hrec v inst schema
  case minimum_draft3_draft4 =>
    exact AllS_of_AllE (hpk .minimum_draft3_draft4) (leaf_kwMinimumDraft3Draft4 (hQ .minimum_draft3_draft4 nofun))
  case maximum_draft3_draft4 =>
    exact AllS_of_AllE (hpk .maximum_draft3_draft4) (leaf_kwMaximumDraft3Draft4 (hQ .maximum_draft3_draft4 nofun))
  case properties_draft3 => exact provS_kwPropertiesDraft3 hrec v inst schema
  case type_draft3 => exact provS_kwTypeDraft3 hrec v inst schema
  case alwaysFail tag => exact AllS_of_AllE (hpk (.alwaysFail tag)) (leaf_emit (hQ (.alwaysFail tag) nofun))
  case never => exact AllS_nothing
  case foreign => exact AllS_crashG _

end Dispatch

/-! ### the draft tables, the world -/

theorem table_cont (d : Draft) : ∀ p ∈ d.keywords, containerKw p.1 = isCF p.2 := by
  cases d <;> decide +kernel

theorem lookupS_ref (d : Draft) (fc : Option FormatChecker) :
    lookupS (skey "$ref") (d.cfg fc).keywords = some .ref := by
  cases d <;> rfl

theorem idKey_cfg (d : Draft) (fc : Option FormatChecker) :
    (d.cfg fc).idKey = ks (if (d = .d6 || d = .d7) then "$id" else "id") := by
  cases d <;> rfl

/-- `id_of(schema)` of a schema object without a `$ref` key is the identifier the specification reads -/
theorem scopeOf_noref (d : Draft) (fc : Option FormatChecker) {kvs : List (Str × Json)}
    (hnr : Json.lookup (skey "$ref") kvs = none) {s : Option Str}
    (h : scopeOf (d.cfg fc) kvs = .ok s) : s = idOf d kvs := by
  have hk : Json.hasKey (skey "$ref") kvs = false := by unfold Json.hasKey; rw [hnr]; rfl
  unfold scopeOf at h
  rw [hk, idKey_cfg] at h
  simp only [Bool.false_eq_true, if_false] at h
  unfold idOf lookupJ
  cases hl : Json.lookup (ks (if (d = .d6 || d = .d7) = true then "$id" else "id")) kvs with
  | none => rw [hl] at h; cases h; rfl
  | some v =>
    rw [hl] at h
    cases v with
    | str x => cases h; rfl
    | _ =>
      dsimp only at h ⊢
      split at h
      · cases h
      · cases h; rfl

/-- next to a `$ref` key nothing is pushed -/
theorem scopeOf_ref (cfg : Cfg) {kvs : List (Str × Json)} {r : Json}
    (hr : Json.lookup (skey "$ref") kvs = some r) : scopeOf cfg kvs = .ok none := by
  have hk : Json.hasKey (skey "$ref") kvs = true := by unfold Json.hasKey; rw [hr]; rfl
  unfold scopeOf
  rw [hk]
  rfl

theorem WF_ptrWalk : ∀ (toks : List Str) {doc t : Json}, WF doc = true → ptrWalk doc toks = some t →
    WF t = true
  | [], doc, t, hw, h => by simp only [ptrWalk, Option.some.injEq] at h; subst h; exact hw
  | tok :: toks, doc, t, hw, h => by
    unfold ptrWalk at h
    cases hs : ptrStep doc tok with
    | none => rw [hs] at h; cases h
    | some d1 =>
      rw [hs] at h
      dsimp only at h
      refine WF_ptrWalk toks ?_ h
      unfold ptrStep at hs
      cases doc with
      | obj kvs =>
        simp only [WF, Bool.and_eq_true] at hw
        exact WF_lookup hw.2 hs
      | arr xs =>
        dsimp only at hs
        split at hs
        · simp only [WF] at hw
          exact WF_getElem hw hs
        · cases hs
      | _ => cases hs

/-- in a well-formed world every designated schema has distinct keys -/
theorem wf_designated {env : Env} {base : List (Str × Json)} (hw : WorldOK env base) {top r url : Str}
    {t : Json} (h : designated env base top r = some (url, t)) : WF t = true := by
  unfold designated at h
  cases hj : env.urljoin top r with
  | none => rw [hj] at h; cases h
  | some url' =>
    rw [hj] at h
    dsimp only at h
    cases hd : env.urldefrag url' with
    | none => rw [hd] at h; cases h
    | some p =>
      obtain ⟨u, frag⟩ := p
      rw [hd] at h
      dsimp only at h
      cases hn : env.urinorm u with
      | none => rw [hn] at h; cases h
      | some k =>
        rw [hn] at h
        dsimp only at h
        cases hb : Json.lookup k base with
        | some doc =>
          rw [hb] at h
          dsimp only at h
          cases hr : resolveFragment doc frag with
          | none => rw [hr] at h; cases h
          | some t' =>
            rw [hr] at h
            cases h
            exact WF_ptrWalk _ (hw.wfBase k doc hb) hr
        | none =>
          rw [hb] at h
          dsimp only at h
          cases hfe : env.fetch 0 u with
          | none => rw [hfe] at h; cases h
          | some o =>
            rw [hfe] at h
            cases o with
            | none => cases h
            | some doc =>
              dsimp only at h
              cases hr : resolveFragment doc frag with
              | none => rw [hr] at h; cases h
              | some t' =>
                rw [hr] at h
                cases h
                exact WF_ptrWalk _ (hw.wfFetch 0 u doc hfe) hr

/-- no document of the world — supplied by the caller or retrieved — has a `$ref` member with a
    falsy scalar value (`None`, `0`, `0.0`, `false`): such a member is followed as the empty
    reference when the base URI in effect is non-empty (`refReading`), which `Spec.navR` — hopping at
    STRING references only — does not do -/
structure RefsProperWorld (env : Env) (base : List (Str × Json)) : Prop where
  rpBase : ∀ k doc, Json.lookup k base = some doc → refsProper doc = true
  rpFetch : ∀ n u doc, env.fetch n u = some (some doc) → refsProper doc = true

/-- … then no designated schema has one -/
theorem rp_designated {env : Env} {base : List (Str × Json)} (hw : RefsProperWorld env base) {top r url : Str}
    {t : Json} (h : designated env base top r = some (url, t)) : refsProper t = true := by
  unfold designated at h
  cases hj : env.urljoin top r with
  | none => rw [hj] at h; cases h
  | some url' =>
    rw [hj] at h
    dsimp only at h
    cases hd : env.urldefrag url' with
    | none => rw [hd] at h; cases h
    | some p =>
      obtain ⟨u, frag⟩ := p
      rw [hd] at h
      dsimp only at h
      cases hn : env.urinorm u with
      | none => rw [hn] at h; cases h
      | some k =>
        rw [hn] at h
        dsimp only at h
        cases hb : Json.lookup k base with
        | some doc =>
          rw [hb] at h
          dsimp only at h
          cases hr : resolveFragment doc frag with
          | none => rw [hr] at h; cases h
          | some t' =>
            rw [hr] at h
            cases h
            exact refsProper_ptrWalk _ (hw.rpBase k doc hb) hr
        | none =>
          rw [hb] at h
          dsimp only at h
          cases hfe : env.fetch 0 u with
          | none => rw [hfe] at h; cases h
          | some o =>
            rw [hfe] at h
            cases o with
            | none => cases h
            | some doc =>
              dsimp only at h
              cases hr : resolveFragment doc frag with
              | none => rw [hr] at h; cases h
              | some t' =>
                rw [hr] at h
                cases h
                exact refsProper_ptrWalk _ (hw.rpFetch 0 u doc hfe) hr

/-! ### one layer of the evaluator, the induction on the fuel -/

section Assembly
variable {env : Env} {d : Draft} {base : List (Str × Json)}

/-- the hypothesis on the recursive call: from every state that lives in the world, every error
    is located in the schema it was reported under, the base URI in effect being the top of the
    scope stack -/
def SchemaRecR (env : Env) (d : Draft) (base : List (Str × Json)) (rec : Rec) : Prop :=
  ∀ x sub sc b σ, WF sub = true → refsProper sub = true → PK env base sc σ → ∀ e ∈ (rec x sub b σ).errs,
    schemaLocatedR env d base (sc.headD []) sub [] e

/-- an iteration of the keyword loop of a schema object that is not a reference -/
theorem schemaR_runKeyword (hf : StableFetchS env) (impl : FmtImpl) (fc : Option FormatChecker)
    {rec : Rec} (hok : RecOK env base rec) (hrec : SchemaRecR env d base rec) (inst : Json)
    {kvs : List (Str × Json)} (hws : WF (.obj kvs) = true) (hrp : refsProper (.obj kvs) = true)
    {top : Str} {sc : List Str}
    (hh : hopOf env base top kvs = none)
    (hnull : ∀ r, Json.lookup (skey "$ref") kvs = some r → r = .null)
    (hsc : sc.headD [] = baseIn env d top kvs) {kv : Str × Json} (hkv : kv ∈ kvs) :
    AllS (PK env base sc) (fun e => schemaLocatedR env d base top (.obj kvs) [] e)
      (runKeyword env impl (d.cfg fc) rec inst (.obj kvs) kv) := by
  unfold runKeyword
  split
  · exact AllS_nothing
  · rename_i f hfk
    have hl := lookup_of_mem_WF hws hkv
    have hmem := table_if_ref d (kv.1, f) (lookupS_mem hfk)
    have hcont := table_cont d (kv.1, f) (lookupS_mem hfk)
    by_cases hfr : f = .ref
    · subst hfr
      have hk : kv.1 = skey "$ref" := hmem.2 rfl
      have hl' : Json.lookup (skey "$ref") kvs = some kv.2 := by rw [← hk]; exact hl
      have hv : kv.2 = .null := hnull _ hl'
      -- a `$ref` member with the value `null` is read as the empty reference: excluded by `hrp`
      have hpr := refsProper_ref hrp hl'
      rw [hv] at hpr
      cases hpr
    · refine AllS_mapErrs (provS_applyKw hf impl (d.cfg fc) hok sc f hfr kv.2 inst (.obj kvs)) ?_
      intro e he
      have hne : kv.1 ≠ skey "$ref" := by
        intro hk
        have hv : kv.2 = .null := hnull _ (by rw [← hk]; exact hl)
        rw [hk, lookupS_ref] at hfk
        exact hfr (Option.some.inj hfk).symm
      refine schemaR_of_prov hws hrp hl hh (objTyped_draft d fc) hmem.1 hne hcont ?_ he
      intro x sub b σ hwsub hrsub hp e0 he0
      rw [← hsc]
      exact hrec x sub sc b σ hwsub hrsub hp e0 he0

/-- the keyword loop of a schema object that is not a reference, run from a state whose top of
    stack is the base URI in effect inside the object -/
theorem schemaR_loop (hf : StableFetchS env) (impl : FmtImpl) (fc : Option FormatChecker)
    {rec : Rec} (hok : RecOK env base rec) (hrec : SchemaRecR env d base rec) (inst : Json)
    {kvs : List (Str × Json)} (hws : WF (.obj kvs) = true) (hrp : refsProper (.obj kvs) = true)
    {top : Str} {sc : List Str}
    (hh : hopOf env base top kvs = none)
    (hnull : ∀ r, Json.lookup (skey "$ref") kvs = some r → r = .null)
    (hsc : sc.headD [] = baseIn env d top kvs) (b : Option Nat) {σ : RState}
    (hp : PK env base sc σ) :
    ∀ e ∈ (seqG (runKeyword env impl (d.cfg fc) rec inst (.obj kvs)) kvs b σ).errs,
      schemaLocatedR env d base top (.obj kvs) [] e :=
  ((AllS_seqG (fun _ hkv => schemaR_runKeyword hf impl fc hok hrec inst hws hrp hh hnull hsc hkv))
    b σ hp).2

theorem schemaLocatedR_falseErr (top : Str) (inst : Json) :
    schemaLocatedR env d base top (.bool false) [] (falseErr inst) := by
  simp only [falseErr, schemaLocatedR, schemaLocatedRList, List.nil_append, and_true]
  exact ⟨1, rfl⟩

theorem schemaR_evalStep (hf : StableFetchS env) (hw : WorldOK env base) (hrw : RefsProperWorld env base)
    (impl : FmtImpl)
    (fc : Option FormatChecker) {rec : Rec} (hok : RecOK env base rec)
    (hrec : SchemaRecR env d base rec) :
    SchemaRecR env d base (evalStep env impl (d.cfg fc) rec) := by
  intro x sub sc b σ hws hrp hp
  have htop : σ.top = sc.headD [] := hp.top
  cases sub with
  | bool bb =>
    cases bb with
    | true => intro e he; simp [evalStep, nothing] at he
    | false =>
      intro e he
      have h1 : AllE (fun e => e = falseErr x) (emit [falseErr x]) :=
        AllE_emit (by intro e he; simpa using he)
      rw [h1 b σ e he]
      exact schemaLocatedR_falseErr _ _
  | null => intro e he; simp [evalStep, crashG, raiseG, stopG] at he
  | num _ => intro e he; simp [evalStep, crashG, raiseG, stopG] at he
  | str _ => intro e he; simp [evalStep, crashG, raiseG, stopG] at he
  | arr _ => intro e he; simp [evalStep, crashG, raiseG, stopG] at he
  | obj kvs =>
    intro e he
    unfold evalStep at he
    dsimp only at he
    cases href : Json.lookup (skey "$ref") kvs with
    | some ref =>
      have hrefJ : lookupJ "$ref" kvs = some ref := href
      rw [scopeOf_ref _ href] at he
      dsimp only [withScopeOpt] at he
      unfold schemaBody at he
      rw [href] at he
      -- no falsy scalar `$ref` (`hrp`): a non-string `$ref` makes the resolution raise `TypeError`
      have hpr : properRef ref = true := refsProper_ref hrp href
      have hcrash : ∀ (ref : Json), (∀ r, ref ≠ .str r) → properRef ref = true →
          ∀ e, e ∉ (runKeyword env impl (d.cfg fc) rec x (.obj kvs) (skey "$ref", ref) b σ).errs := by
        intro ref h1 h2 e he
        unfold runKeyword at he
        dsimp only at he
        rw [lookupS_ref] at he
        dsimp only at he
        unfold mapErrs applyKw at he
        dsimp only at he
        rw [kwRef_typeError (refReading_of_proper h1 h2)] at he
        simp [stopG] at he
      cases ref with
      | null => cases hpr
      | str r =>
        dsimp only at he
        unfold runKeyword at he
        dsimp only at he
        rw [lookupS_ref] at he
        dsimp only at he
        unfold mapErrs applyKw at he
        dsimp only at he
        obtain ⟨e0, he0, rfl⟩ := List.mem_map.mp he
        obtain ⟨hsim, hk1⟩ := resolve_know hf hp.1 r
        have hsc1 := resolve_scopes env r σ
        rw [kwRef_str] at he0
        rcases hres : resolve env r σ with ⟨res, st1⟩
        rw [hres] at he0 hsim hk1 hsc1
        dsimp only at he0 hsim hk1 hsc1
        cases res with
        | ok pr =>
          obtain ⟨url, target⟩ := pr
          dsimp only at he0
          have hideal : ideal env base σ.top r = .ok (url, target) := by
            rcases hsim with h | ⟨_, _, h, _, _⟩
            · exact h.symm
            · cases h
          have hdes : designated env base (sc.headD []) r = some (url, target) := by
            rw [← htop]; exact designated_of_ideal hideal
          have hjoin := hw.joinIdem _ _ _ _ hdes
          have htop1 : st1.top = sc.headD [] := by
            unfold RState.top; rw [hsc1, hp.2]
          unfold withScope at he0
          rw [htop1, hjoin] at he0
          dsimp only at he0
          have hp' : PK env base (url :: sc) { st1 with scopes := url :: st1.scopes } :=
            ⟨hk1.setScopes _, by dsimp only; rw [hsc1, hp.2]⟩
          have h0 := hrec x target (url :: sc) b _ (wf_designated hw hdes) (rp_designated hrw hdes) hp' e0 he0
          have hh : hopOf env base (sc.headD []) kvs = some (url, target) := by
            unfold hopOf; rw [hrefJ]; exact hdes
          exact schemaLocatedR_of_desc (pre := []) (q := []) h0 (lift_hop hh)
            (stamp_info_set (schemaLocatedR_info h0)) (stamp_context ..) (stamp_schemaPath_ref ..)
        | raise _ => simp at he0
        | miss _ => simp at he0
      | bool v' => dsimp only at he; exact absurd he (hcrash (.bool v') nofun hpr e)
      | num v' => dsimp only at he; exact absurd he (hcrash (.num v') nofun hpr e)
      | arr v' => dsimp only at he; exact absurd he (hcrash (.arr v') nofun hpr e)
      | obj v' => dsimp only at he; exact absurd he (hcrash (.obj v') nofun hpr e)
    | none =>
      have hrefJ : lookupJ "$ref" kvs = none := href
      have hh : hopOf env base (sc.headD []) kvs = none := by unfold hopOf; rw [hrefJ]
      have hb : baseIn env d (sc.headD []) kvs = baseInside env d (sc.headD []) kvs := by
        unfold baseIn; rw [hrefJ]
      have hnull : ∀ r, Json.lookup (skey "$ref") kvs = some r → r = .null := by
        intro r hr; rw [href] at hr; cases hr
      cases hsco : scopeOf (d.cfg fc) kvs with
      | error cls => rw [hsco] at he; simp [crashG, raiseG, stopG] at he
      | ok scope =>
        rw [hsco] at he
        dsimp only at he
        have hscope := scopeOf_noref d fc href hsco
        unfold schemaBody at he
        rw [href] at he
        dsimp only at he
        cases hid : idOf d kvs with
        | none =>
          rw [hscope, hid] at he
          dsimp only [withScopeOpt] at he
          have hb' : sc.headD [] = baseIn env d (sc.headD []) kvs := by
            rw [hb]; unfold baseInside; rw [hid]
          exact schemaR_loop hf impl fc hok hrec x hws hrp hh hnull hb' b hp e he
        | some id =>
          rw [hscope, hid] at he
          dsimp only [withScopeOpt] at he
          unfold withScope at he
          rw [htop] at he
          cases hu : env.urljoin (sc.headD []) id with
          | none => rw [hu] at he; simp at he
          | some u =>
            rw [hu] at he
            dsimp only at he
            have hp' : PK env base (u :: sc) { σ with scopes := u :: σ.scopes } :=
              ⟨hp.1.setScopes _, by dsimp only; rw [hp.2]⟩
            have hb' : (u :: sc).headD [] = baseIn env d (sc.headD []) kvs := by
              rw [hb]; unfold baseInside; rw [hid]; dsimp only; rw [hu]; rfl
            exact schemaR_loop hf impl fc hok hrec x hws hrp hh hnull hb' b hp' e he

theorem schemaR_eval (hf : StableFetchS env) (hw : WorldOK env base) (hrw : RefsProperWorld env base)
    (impl : FmtImpl) (fc : Option FormatChecker) (fuel : Nat) :
    SchemaRecR env d base (eval env impl (d.cfg fc) fuel) := by
  induction fuel with
  | zero => intro _ _ _ _ _ _ _ _ e he; simp [eval, stopG] at he
  | succ n ih => exact schemaR_evalStep hf hw hrw impl fc (recOK_eval hf impl _ n) ih

end Assembly

/-! ### a concrete world (non-vacuity of `schema_located_refs`, counterexamples to the first
    version of the specification) -/

namespace Ex

/-- `urljoin` returns the reference, `urldefrag` splits at `#`, `urinorm` is the identity; every
    retrieval fails (the handler raises) -/
def env : Env :=
  ⟨fun _ _ => none, fun _ r => some r,
   fun u => some (u.takeWhile (· != '#'), (u.dropWhile (· != '#')).drop 1),
   fun u => some u, fun _ => none, fun _ => none, fun xs => some xs,
   fun _ _ => some none, fun _ _ => none⟩

def impl : FmtImpl := ⟨fun _ _ => none⟩

theorem stable : StableFetchS env :=
  ⟨fun _ _ _ => rfl, fun _ _ _ _ _ _ => rfl⟩

/-- a fresh resolver whose store holds `doc` under the base URI `""` -/
def st (doc : Json) : RState :=
  { scopes := [[]], store := [([], doc)], memo := [], memoCap := none, cacheRemote := true,
    clock := 0, fetchLog := [] }

theorem know (doc : Json) : Know env [([], doc)] (st doc) :=
  ⟨fun _ _ h => h, fun _ _ h => .inl h, fun _ _ h => (nomatch h)⟩

theorem sameWorld (doc : Json) : SameWorldS env [([], doc)] (st doc) (st doc) :=
  ⟨rfl, know doc, know doc⟩

theorem worldOK (doc : Json) (h : WF doc = true) : WorldOK env [([], doc)] where
  wfBase := by
    intro k d hl
    unfold Json.lookup at hl
    split at hl
    · cases hl; exact h
    · cases hl
  wfFetch := fun _ _ _ hfe => nomatch hfe
  joinIdem := fun _ _ _ _ _ => rfl

/-- `{"definitions": {"a": {"type": "string"}}, "properties": {"x": {"$ref": "#/definitions/a"}}}` -/
def schema : Json :=
  .obj [(skey "definitions", .obj [(skey "a", .obj [(skey "type", .str (skey "string"))])]),
        (skey "properties", .obj [(skey "x", .obj [(skey "$ref", .str (skey "#/definitions/a"))])])]

/-- `{"x": 1}` -/
def inst : Json := .obj [(skey "x", .num (.int 1))]

theorem wf_schema : WF schema = true := by decide +kernel

/-- the run yields exactly one error, that of `type` in the designated schema: its schema path
    names `properties`, `x`, `type` — not the reference, not `definitions/a` -/
theorem paths :
    (eval env impl (Draft.d7.cfg none) 3 inst schema none (st schema)).errs.map
        (fun e => (e.schemaPath, e.info.map (·.kwVal)))
      = [([.key (skey "properties"), .key (skey "x"), .key (skey "type")],
          some (.str (skey "string")))] := by
  decide +kernel

end Ex

/-! ### the specification as first given, and why it had to change

`Given.navR` is the walk of the first version of JS/Spec/LocatedRef.lean, verbatim: it treats EVERY
object on the path as a schema (so a `properties` map with a member named `$ref` is taken for a
reference, a `dependencies` map with a member named `id` for an identifier), and it follows the
reference of a Draft 3 property subschema before reading `required` off it (the enclosing
`properties` reads it off the subschema itself). With it `schema_located_refs` is false. -/

namespace Given

def navR (env : Env) (d : Draft) (base : List (Str × Json)) (last : Bool) :
    Nat → Str → Json → List PathElem → Option Json
  | 0, _, _, _ => none
  | n + 1, top, cur, path =>
    match cur with
    | .obj kvs =>
      let hop : Option (Str × Json) :=
        match lookupJ "$ref" kvs with
        | some (.str r) => designated env base top r
        | _ => none
      match path with
      | [] =>
        (match hop with
         | some (url, t) => if last then navR env d base last n url t [] else some cur
         | none => some cur)
      | p :: ps =>
        (match hop with
         | some (url, t) => navR env d base last n url t (p :: ps)
         | none =>
           match p with
           | .key k => (Json.lookup k kvs).bind fun v => navR env d base last n (baseInside env d top kvs) v ps
           | .idx _ => none)
    | .arr xs =>
      (match path with
       | [] => some cur
       | .idx j :: ps => (xs[j]?).bind fun v => navR env d base last n top v ps
       | .key _ :: _ => none)
    | other => if path.isEmpty then some other else none

def NavR (env : Env) (d : Draft) (base : List (Str × Json)) (last : Bool) (top : Str) (s : Json)
    (path : List PathElem) (v : Json) : Prop :=
  ∃ n, navR env d base last n top s path = some v

mutual
def schemaLocatedR (env : Env) (d : Draft) (base : List (Str × Json)) (top : Str) (s : Json)
    (pre : List PathElem) : Err → Prop
  | .mk _ info _ sp ctx _ =>
    match info with
    | none => False
    | some m =>
      (match m.kw with
       | none => NavR env d base true top s (pre ++ sp) (.bool false) ∧ m.schema = .bool false
       | some k =>
         sp.getLast? = some (.key k)
         ∧ NavR env d base false top s (pre ++ sp) m.kwVal
         ∧ (m.schema.get? k = some m.kwVal ∨ (k = kReq ∧ sp.length ≥ 3)))
      ∧ schemaLocatedRList env d base top s (pre ++ sp) ctx
def schemaLocatedRList (env : Env) (d : Draft) (base : List (Str × Json)) (top : Str) (s : Json)
    (pre : List PathElem) : List Err → Prop
  | [] => True
  | e :: es => schemaLocatedR env d base top s pre e ∧ schemaLocatedRList env d base top s pre es
end

/-- what the first version claims of an error that carries a keyword: the walk along its schema
    path arrives somewhere -/
theorem nav_of_located {env : Env} {d : Draft} {base : List (Str × Json)} {top : Str} {s : Json}
    {e : Err} (h : schemaLocatedR env d base top s [] e) (hk : (e.info.bind (·.kw)).isSome = true) :
    ∃ v n, navR env d base false n top s e.schemaPath = some v := by
  obtain ⟨msg, info, path, sp, ctx, c⟩ := e
  cases info with
  | none => simp [schemaLocatedR] at h
  | some m =>
    obtain ⟨kw, kwVal, inst, schema⟩ := m
    cases kw with
    | none => simp [Err.info] at hk
    | some k =>
      simp only [schemaLocatedR, List.nil_append] at h
      obtain ⟨n, hn⟩ := h.1.2.1
      exact ⟨kwVal, n, hn⟩

/-- Draft 3: `{"properties": {"a": {"$ref": "#/definitions/x", "required": true}},
    "definitions": {"x": {}}}` -/
def schema3 : Json :=
  .obj [(skey "properties", .obj [(skey "a",
          .obj [(skey "$ref", .str (skey "#/definitions/x")), (skey "required", .bool true)])]),
        (skey "definitions", .obj [(skey "x", .obj [])])]

theorem wf_schema3 : WF schema3 = true := by decide +kernel

/-- the empty object lacks `a`: one error, keyword `required`, schema path `properties/a/required` -/
theorem paths3 :
    (eval Ex.env Ex.impl (Draft.d3.cfg none) 3 (.obj []) schema3 none (Ex.st schema3)).errs.map
        (fun e => (e.schemaPath, (e.info.bind (·.kw)).isSome))
      = [([.key (skey "properties"), .key (skey "a"), .key (skey "required")], true)] := by
  decide +kernel

/-- the walk of the first version hops to `{}` before `required` and finds nothing there -/
theorem nav3 (n : Nat) : navR Ex.env .d3 [([], schema3)] false n [] schema3
    [.key (skey "properties"), .key (skey "a"), .key (skey "required")] = none := by
  match n with
  | 0 => rfl
  | 1 => rfl
  | 2 => rfl
  | 3 => rfl
  | n + 4 => rfl

/-- Draft 7: `{"properties": {"$ref": "#/definitions/a", "x": {"type": "string"}},
    "definitions": {"a": {}}}` — a property NAMED `$ref` -/
def schema7 : Json :=
  .obj [(skey "properties", .obj [(skey "$ref", .str (skey "#/definitions/a")),
          (skey "x", .obj [(skey "type", .str (skey "string"))])]),
        (skey "definitions", .obj [(skey "a", .obj [])])]

theorem wf_schema7 : WF schema7 = true := by decide +kernel

theorem paths7 :
    (eval Ex.env Ex.impl (Draft.d7.cfg none) 3 Ex.inst schema7 none (Ex.st schema7)).errs.map
        (fun e => (e.schemaPath, (e.info.bind (·.kw)).isSome))
      = [([.key (skey "properties"), .key (skey "x"), .key (skey "type")], true)] := by
  decide +kernel

/-- the walk of the first version takes the `properties` map for a reference -/
theorem nav7 (n : Nat) : navR Ex.env .d7 [([], schema7)] false n [] schema7
    [.key (skey "properties"), .key (skey "x"), .key (skey "type")] = none := by
  match n with
  | 0 => rfl
  | 1 => rfl
  | 2 => rfl
  | n + 3 => rfl

/-- a run with exactly one error, which carries a keyword and whose schema path the walk of the
    first version cannot follow, refutes the first version's claim about that run -/
theorem refute {d : Draft} {i s : Json} {P : List PathElem}
    (hp : (eval Ex.env Ex.impl (d.cfg none) 3 i s none (Ex.st s)).errs.map
        (fun e => (e.schemaPath, (e.info.bind (·.kw)).isSome)) = [(P, true)])
    (hn : ∀ n, navR Ex.env d [([], s)] false n [] s P = none) :
    ¬ ∀ e ∈ (eval Ex.env Ex.impl (d.cfg none) 3 i s none (Ex.st s)).errs,
        schemaLocatedR Ex.env d [([], s)] (Ex.st s).top s [] e := by
  intro h
  cases hes : (eval Ex.env Ex.impl (d.cfg none) 3 i s none (Ex.st s)).errs with
  | nil => rw [hes] at hp; cases hp
  | cons e es =>
    rw [hes] at hp h
    simp only [List.map_cons, List.cons.injEq, Prod.mk.injEq] at hp
    obtain ⟨v, n, hv⟩ := nav_of_located (h e (List.mem_cons_self ..)) hp.1.2
    rw [hp.1.1] at hv
    have : (Ex.st s).top = [] := rfl
    rw [this, hn n] at hv
    cases hv

end Given

/-! ### a `$ref` with a falsy scalar value is followed, as the empty reference

Drafts 3 and 4 do not constrain `$ref`, and `urljoin(base, url)` — for a non-empty base — continues with
`if not url: return base`: `{"$ref": 0}` (or `None`, `0.0`, `false`) is evaluated as `{"$ref": ""}` — the
document under the base URI in effect — when that base is non-empty (`refReading`), while `Spec.navR`
hops at STRING references only. So `schema_located_refs` needs the proviso `refsProper` (no such
member in the schema, `RefsProperWorld`: nor in the world). -/

namespace Falsy

/-- every string reference is a proper reference: C03's proviso `Spec.refsAreStrings` implies `refsProper` -/
theorem refsProper_of_refsAreStrings : ∀ (j : Json), refsAreStrings j = true → refsProper j = true
  | .null, _ | .bool _, _ | .num _, _ | .str _, _ => rfl
  | .arr xs, h => by
    simp only [refsAreStrings] at h
    simp only [refsProper]
    exact list xs h
  | .obj kvs, h => by
    simp only [refsAreStrings] at h
    simp only [refsProper]
    exact kvs' kvs h
where
  list : ∀ (xs : List Json), refsAreStrings.refsAreStringsList xs = true → refsProperList xs = true
    | [], _ => rfl
    | x :: xs, h => by
      simp only [refsAreStrings.refsAreStringsList, Bool.and_eq_true] at h
      simp only [refsProperList, Bool.and_eq_true]
      exact ⟨refsProper_of_refsAreStrings x h.1, list xs h.2⟩
  kvs' : ∀ (kvs : List (Str × Json)), refsAreStrings.refsAreStringsKvs kvs = true → refsProperKvs kvs = true
    | [], _ => rfl
    | (k, v) :: rest, h => by
      simp only [refsAreStrings.refsAreStringsKvs, Bool.and_eq_true] at h
      simp only [refsProperKvs, Bool.and_eq_true]
      refine ⟨⟨?_, refsProper_of_refsAreStrings v h.1.2⟩, kvs' rest h.2⟩
      have h1 := h.1.1
      have e : ks "$ref" = "$ref".toList := rfl
      rw [e] at h1
      split
      · rename_i hk
        rw [if_pos hk] at h1
        cases v <;> first | rfl | cases h1
      · rfl

theorem refsProperWorld (doc : Json) (h : refsProper doc = true) : RefsProperWorld Ex.env [([], doc)] where
  rpBase := by
    intro k d hl
    unfold Json.lookup at hl
    split at hl
    · cases hl; exact h
    · cases hl
  rpFetch := fun _ _ _ hfe => nomatch hfe

theorem rp_schema : refsProper Ex.schema = true := by decide +kernel

/-- Draft 4 (whose metaschema does not describe `$ref`): `{"id": "urn:root", "type": "object",
    "properties": {"x": {"$ref": 0}}}` — the root identifier makes the base URI in effect non-empty -/
def schema4 : Json :=
  .obj [(skey "id", .str (skey "urn:root")), (skey "type", .str (skey "object")),
        (skey "properties", .obj [(skey "x", .obj [(skey "$ref", .num (.int 0))])])]

theorem wf_schema4 : WF schema4 = true := by decide +kernel

/-- `{"x": 1}`: the property `x` is validated against the document under the base URI — the root
    schema itself — which `1` violates: one error, keyword `type`, schema path `properties/x/type` -/
theorem paths4 :
    (eval Ex.env Ex.impl (Draft.d4.cfg none) 3 Ex.inst schema4 none (Ex.st schema4)).errs.map
        (fun e => (e.schemaPath, e.info.bind (·.kw)))
      = [([.key (skey "properties"), .key (skey "x"), .key (skey "type")], some (skey "type"))] := by
  decide +kernel

/-- the walk does not hop at `{"$ref": 0}`, which has no member `type` -/
theorem nav4 (n : Nat) : Spec.navR Ex.env .d4 [([], schema4)] false n [] schema4
    [.key (skey "properties"), .key (skey "x"), .key (skey "type")] = none := by
  match n with
  | 0 => rfl
  | 1 => rfl
  | n + 2 => rfl

/-- a run with exactly one error, which carries a keyword other than `required` and whose schema
    path the walk cannot follow, refutes the claim about that run -/
theorem refute {d : Draft} {i s : Json} {P : List PathElem} {k : Str} (hk : k ≠ kReq)
    (hp : (eval Ex.env Ex.impl (d.cfg none) 3 i s none (Ex.st s)).errs.map
        (fun e => (e.schemaPath, e.info.bind (·.kw))) = [(P, some k)])
    (hn : ∀ n, Spec.navR Ex.env d [([], s)] false n [] s P = none) :
    ¬ ∀ e ∈ (eval Ex.env Ex.impl (d.cfg none) 3 i s none (Ex.st s)).errs,
        Spec.schemaLocatedR Ex.env d [([], s)] (Ex.st s).top s [] e := by
  intro h
  cases hes : (eval Ex.env Ex.impl (d.cfg none) 3 i s none (Ex.st s)).errs with
  | nil => rw [hes] at hp; cases hp
  | cons e es =>
    rw [hes] at hp h
    simp only [List.map_cons, List.cons.injEq, Prod.mk.injEq] at hp
    have he := h e (List.mem_cons_self ..)
    obtain ⟨msg, info, path, sp, ctx, c⟩ := e
    cases info with
    | none => simp [Spec.schemaLocatedR] at he
    | some m =>
      obtain ⟨kw, kwVal, inst, schema⟩ := m
      obtain ⟨⟨hsp, hkw⟩, _⟩ := hp
      dsimp only [Err.schemaPath, Err.info, Option.bind] at hsp hkw
      subst hsp hkw
      simp only [Spec.schemaLocatedR, List.nil_append] at he
      have : (Ex.st s).top = [] := rfl
      rw [this] at he
      rcases he.1.2.1 with ⟨n, hv⟩ | ⟨hk', _⟩
      · rw [hn n] at hv; cases hv
      · exact hk hk'

end Falsy

end LocatedRef
end JS
