/- Helper lemmas for C03: the guard relation `RU` (closed under the combinators, binary framework),
   generators whose stops lie in a set (`SI`), `Spec.shapedN` as a branch table, no-crash per keyword
   function, one layer of `iter_errors` on a shaped schema (`evalStep_good`), fuel bounds. -/
import JS.Proofs.Framework2
import JS.Proofs.Numeric
import JS.Spec.Valid
import JS.Spec.Domain
namespace JS
namespace NoCrash

/-! ### the guard relation: "the left generator raised the marker, or both agree" -/

/-- `g` raised the marker `M`, or `g` and `g'` produce the same result -/
def RU (M : Exc) (g g' : Gen) : Prop := ∀ b st, (g b st).stop = .raised M ∨ g b st = g' b st

theorem RU.refl (M : Exc) (g : Gen) : RU M g g := fun _ _ => .inr rfl

theorem RU.andThen {M : Exc} {g g' h h' : Gen} (hg : RU M g g') (hh : RU M h h') :
    RU M (andThen g h) (andThen g' h') := by
  intro b st
  rcases hg b st with h1 | h1
  · left
    unfold JS.andThen
    rcases hgo : g b st with ⟨es, s, st1⟩
    rw [hgo] at h1
    dsimp only at h1
    subst h1
    rfl
  · unfold JS.andThen
    rw [← h1]
    rcases g b st with ⟨es, s, st1⟩
    cases s with
    | done =>
      dsimp only
      rcases hh (budgetSub b es.length) st1 with h2 | h2
      · left
        rcases hho : h (budgetSub b es.length) st1 with ⟨es', s', st2⟩
        rw [hho] at h2
        exact h2
      · right; rw [h2]
    | budget => right; rfl
    | raised e => right; rfl
    | fuel => right; rfl
    | miss q => right; rfl

theorem RU.mapErrs {M : Exc} (f : Err → Err) {g g' : Gen} (hg : RU M g g') :
    RU M (mapErrs f g) (mapErrs f g') := by
  intro b st
  unfold JS.mapErrs
  rcases hg b st with h1 | h1
  · left
    rcases hgo : g b st with ⟨es, s, st1⟩
    rw [hgo] at h1
    exact h1
  · right; rw [h1]

theorem RU.inner {M : Exc} {g g' : Gen} (b' : Option Nat) (k k' : List Err → Gen) (hg : RU M g g')
    (hk : ∀ es, RU M (k es) (k' es)) : RU M (inner g b' k) (inner g' b' k') := by
  intro b st
  unfold JS.inner
  rcases hg b' st with h1 | h1
  · left
    rcases hgo : g b' st with ⟨es, s, st1⟩
    rw [hgo] at h1
    dsimp only at h1
    subst h1
    rfl
  · rw [← h1]
    rcases g b' st with ⟨es, s, st1⟩
    cases s with
    | done => exact hk es b st1
    | budget => exact hk es b st1
    | raised e => right; rfl
    | fuel => right; rfl
    | miss q => right; rfl

theorem RU.withScope {M : Exc} (env : Env) (scope : Str) {g g' : Gen} (hg : RU M g g') :
    RU M (withScope env scope g) (withScope env scope g') := by
  intro b st
  unfold JS.withScope
  cases env.urljoin st.top scope with
  | none => right; rfl
  | some u =>
    dsimp only
    rcases hg b { st with scopes := u :: st.scopes } with h1 | h1
    · left
      rcases hgo : g b { st with scopes := u :: st.scopes } with ⟨es, s, st1⟩
      rw [hgo] at h1
      exact h1
    · right; rw [h1]

theorem RU.kwRef {M : Exc} (env : Env) {rec rec' : Rec} (hrec : ∀ i s, RU M (rec i s) (rec' i s))
    (ref inst : Json) : RU M (kwRef env rec ref inst) (kwRef env rec' ref inst) := by
  refine kwRef_cases₂ (R := RU M) (fun hg hh => ?_) (fun r => ?_) (RU.refl _ _) (RU.refl _ _) ref
  · intro b st
    unfold ifTopEmpty
    split
    · exact hg b st
    · exact hh b st
  intro b st
  rw [kwRef_str, kwRef_str]
  rcases resolve env r st with ⟨r1, st1⟩
  cases r1 with
  | ok p =>
    obtain ⟨url, target⟩ := p
    exact RU.withScope env url (hrec inst target) b st1
  | raise e => right; rfl
  | miss q => right; rfl

theorem closed₂_RU (env : Env) (M : Exc) : Closed₂ env (RU M) where
  emit := fun _ => RU.refl _ _
  nothing := RU.refl _ _
  stop := fun _ _ => RU.refl _ _
  andThen := RU.andThen
  mapErrs := RU.mapErrs
  inner := RU.inner
  withScope := RU.withScope env
  kwRef := RU.kwRef env

/-! ### generators all of whose stops lie in a set -/

/-- every stop of `g` satisfies `A` -/
def SI (A : Stop → Prop) (g : Gen) : Prop := ∀ b st, A (g b st).stop

/-- `SetOrderOk` is used only through this consequence -/
def SetOrderMem (env : Env) : Prop := ∀ xs ys, env.setOrder xs = some ys → ∀ y ∈ ys, y ∈ xs

theorem SetOrderMem.of_ok {env : Env} (h : Spec.SetOrderOk env) : SetOrderMem env := by
  intro xs ys hxs y hy
  obtain ⟨ys', h1, h2⟩ := h xs
  rw [hxs] at h1
  cases h1
  exact h2.mem_iff.mp hy

/-- the set `A` of stops contains every way a keyword function may legitimately end -/
structure Stops (env : Env) (d : Draft) (fcOn : Bool) (A : Stop → Prop) : Prop where
  done : A .done
  budget : A .budget
  miss : ∀ q, A (.miss q)
  refRes : A (.raised .refResolution)
  unknownType : d = .d3 → ∀ t, A (.raised (.unknownType t))
  custom : fcOn = true → ∀ c, A (.raised (.custom c))
  reErr : ∀ p s, env.reSearch p s = some none → A (.raised (.crash "re.error"))
  keyErr : SetOrderMem env ∨ A (.raised (.crash "KeyError"))

section SI
variable {env : Env} {d : Draft} {fcOn : Bool} {A : Stop → Prop} (hA : Stops env d fcOn A)
include hA

theorem SI_emit (es : List Err) : SI A (emit es) := by
  intro b st
  unfold emit
  cases b with
  | none => exact hA.done
  | some k =>
    dsimp only
    split
    · exact hA.done
    · exact hA.budget

theorem SI_nothing : SI A nothing := fun _ _ => hA.done

theorem SI_miss (q : Query) : SI A (stopG (.miss q)) := fun _ _ => hA.miss q

omit hA in
theorem SI_andThen {g h : Gen} (hg : SI A g) (hh : SI A h) : SI A (andThen g h) := by
  intro b st
  unfold andThen
  have h1 := hg b st
  rcases hgo : g b st with ⟨es, s, st1⟩
  rw [hgo] at h1
  cases s with
  | done =>
    dsimp only
    have h2 := hh (budgetSub b es.length) st1
    rcases hho : h (budgetSub b es.length) st1 with ⟨es', s', st2⟩
    rw [hho] at h2
    exact h2
  | budget => exact h1
  | raised e => exact h1
  | fuel => exact h1
  | miss q => exact h1

theorem SI_seqG {α : Type} (f : α → Gen) (xs : List α) (hf : ∀ x ∈ xs, SI A (f x)) :
    SI A (seqG f xs) := by
  induction xs with
  | nil => exact SI_nothing hA
  | cons x xs ih =>
    exact SI_andThen (hf x (List.mem_cons_self ..)) (ih fun y hy => hf y (List.mem_cons_of_mem _ hy))

omit hA in
theorem SI_mapErrs (f : Err → Err) {g : Gen} (hg : SI A g) : SI A (mapErrs f g) := by
  intro b st
  unfold mapErrs
  have h1 := hg b st
  rcases hgo : g b st with ⟨es, s, st1⟩
  rw [hgo] at h1
  exact h1

omit hA in
theorem SI_descendG {g : Gen} (p sp : Option PathElem) (hg : SI A g) : SI A (descendG g p sp) :=
  SI_mapErrs _ hg

omit hA in
theorem SI_inner {g : Gen} (b' : Option Nat) (k : List Err → Gen) (hg : SI A g)
    (hk : ∀ es, SI A (k es)) : SI A (inner g b' k) := by
  intro b st
  unfold inner
  have h1 := hg b' st
  rcases hgo : g b' st with ⟨es, s, st1⟩
  rw [hgo] at h1
  cases s with
  | done => exact hk es b st1
  | budget => exact hk es b st1
  | raised e => exact h1
  | fuel => exact h1
  | miss q => exact h1

omit hA in
theorem SI_innerValid {g : Gen} (k : Bool → Gen) (hg : SI A g) (hk : ∀ v, SI A (k v)) :
    SI A (innerValid g k) :=
  SI_inner _ _ hg (fun _ => hk _)

theorem SI_withScope (scope : Str) {g : Gen} (hg : SI A g) : SI A (withScope env scope g) := by
  intro b st
  unfold withScope
  cases env.urljoin st.top scope with
  | none => exact hA.miss _
  | some u =>
    dsimp only
    have h1 := hg b { st with scopes := u :: st.scopes }
    rcases hgo : g b { st with scopes := u :: st.scopes } with ⟨es, s, st1⟩
    rw [hgo] at h1
    exact h1

theorem SI_withScopeOpt (scope : Option Str) {g : Gen} (hg : SI A g) :
    SI A (withScopeOpt env scope g) := by
  unfold withScopeOpt
  cases scope with
  | none => exact hg
  | some s => exact SI_withScope hA s hg

theorem SI_withRes {α : Type} (r : Res α) (k : α → Gen) (hk : ∀ a, r = .ok a → SI A (k a))
    (he : ∀ e, r = .raise e → A (.raised e)) : SI A (withRes r k) := by
  unfold withRes
  cases r with
  | ok a => exact hk a rfl
  | raise e => exact fun _ _ => he e rfl
  | miss q => exact fun _ _ => hA.miss q

omit hA in
theorem SI_ite (c : Prop) [Decidable c] {g h : Gen} (hg : c → SI A g) (hh : ¬c → SI A h) :
    SI A (if c then g else h) := by
  split
  · exact hg ‹_›
  · exact hh ‹_›

end SI

/-! ### `Spec.shapedN` on an object, as a table: key ↦ branch ↦ shape of the value -/
section Table
open Spec

inductive Branch where
  | type4 | type3 | extends3 | enum | xOf | sub1 | num | excl | mult | nonNeg | strv | items | addl
  | boolv | props | req4 | deps | other
deriving DecidableEq, Repr

def branchOf (d : Draft) (k : Str) : Branch :=
  if k = ks "type" ∧ d ≠ Draft.d3 then .type4
  else if (k = ks "type" ∨ k = ks "disallow") ∧ d = Draft.d3 then .type3
  else if k = ks "extends" ∧ d = Draft.d3 then .extends3
  else if k = ks "enum" then .enum
  else if (k = ks "allOf" ∨ k = ks "anyOf" ∨ k = ks "oneOf") ∧ d ≠ Draft.d3 then .xOf
  else if k = ks "not" ∧ d ≠ Draft.d3 then .sub1
  else if k = ks "if" ∧ d = Draft.d7 then .sub1
  else if (k = ks "then" ∨ k = ks "else") ∧ d = Draft.d7 then .sub1
  else if k = ks "minimum" ∨ k = ks "maximum" then .num
  else if k = ks "exclusiveMinimum" ∨ k = ks "exclusiveMaximum" then .excl
  else if k = ks "multipleOf" ∧ d ≠ Draft.d3 ∨ k = ks "divisibleBy" ∧ d = Draft.d3 then .mult
  else if k = ks "minLength" ∨ k = ks "maxLength" ∨ k = ks "minItems" ∨ k = ks "maxItems" then .nonNeg
  else if (k = ks "minProperties" ∨ k = ks "maxProperties") ∧ d ≠ Draft.d3 then .nonNeg
  else if k = ks "pattern" ∨ k = ks "format" then .strv
  else if k = ks "items" then .items
  else if k = ks "additionalItems" ∨ k = ks "additionalProperties" then .addl
  else if k = ks "uniqueItems" then .boolv
  else if k = ks "contains" ∧ (d = Draft.d6 || d = Draft.d7) = true then .sub1
  else if k = ks "propertyNames" ∧ (d = Draft.d6 || d = Draft.d7) = true then .sub1
  else if k = ks "properties" then .props
  else if k = ks "patternProperties" then .props
  else if k = ks "required" ∧ d ≠ Draft.d3 then .req4
  else if k = ks "required" ∧ d = Draft.d3 then .boolv
  else if k = ks "dependencies" then .deps
  else .other

def interp (refs : Bool) (d : Draft) (n : Nat) (b : Branch) (v : Json) : Bool :=
  match b with
  | .type4 =>
    (match v with
     | .str t => (typeNames d).contains t
     | .arr ts => ts.all (fun t => match t with | .str t => (typeNames d).contains t | _ => false)
     | _ => false)
  | .type3 =>
    (match v with
     | .str _ => true
     | .arr ts => ts.all (fun t => match t with | .str _ => true | .obj _ => shapedN refs d n t | _ => false)
     | _ => false)
  | .extends3 =>
    (match v with
     | .obj _ => shapedN refs d n v
     | .arr ss => ss.all (fun s => s.isObj && shapedN refs d n s)
     | _ => false)
  | .enum => v.isArr
  | .xOf => (match v with | .arr ss => !ss.isEmpty && ss.all (shapedN refs d n) | _ => false)
  | .sub1 => shapedN refs d n v
  | .num => v.isNumJ
  | .excl => if (d = Draft.d6 || d = Draft.d7) = true then v.isNumJ else isBoolV v
  | .mult => (match v with | .num m => decide (0 < val m) | _ => false)
  | .nonNeg => isNonNegInt d v
  | .strv => isStrJ v
  | .items =>
    (match v with
     | .arr ss => ss.all (shapedN refs d n)
     | .obj _ => shapedN refs d n v
     | .bool _ => (d = Draft.d6 || d = Draft.d7)
     | _ => false)
  | .addl => (match v with | .bool _ => true | .obj _ => shapedN refs d n v | _ => false)
  | .boolv => isBoolV v
  | .props =>
    (match v with
     | .obj ps => ps.all (fun p => ((d = Draft.d6 || d = Draft.d7) || p.2.isObj) && shapedN refs d n p.2)
     | _ => false)
  | .req4 => (match v with | .arr rs => rs.all isStrJ | _ => false)
  | .deps =>
    (match v with
     | .obj ds => ds.all (fun dp =>
         match dp.2 with
         | .arr names => names.all isStrJ
         | .str _ => d = Draft.d3
         | .obj _ => shapedN refs d n dp.2
         | .bool _ => (d = Draft.d6 || d = Draft.d7)
         | _ => false)
     | _ => false)
  | .other => true

theorem shapedN_obj (refs : Bool) (d : Draft) (n : Nat) (kvs : List (Str × Json)) :
    shapedN refs d (n + 1) (.obj kvs) =
      ((match lookupJ (if (d = Draft.d6 || d = Draft.d7) = true then "$id" else "id") kvs with
        | some v => isStrJ v
        | none => true) &&
       match lookupJ "$ref" kvs with
       | some r => refs && isStrJ r
       | none => kvs.all fun x => interp refs d n (branchOf d x.1) x.2) := by
  unfold shapedN
  dsimp only
  congr 1
  cases lookupJ "$ref" kvs with
  | some r => rfl
  | none =>
    dsimp only
    congr 1
    funext x
    unfold branchOf
    simp only [apply_ite (fun b => interp refs d n b x.2)]
    rfl


/-- the branch of `shapedN` that the key of each keyword function falls into (and the drafts in
    which the function is bound) -/
def expected (d : Draft) : KwFn → Option Branch
  | .ref => some .other
  | .additionalItems | .additionalProperties => some .addl
  | .const => some .other
  | .contains | .propertyNames => if d = .d6 ∨ d = .d7 then some .sub1 else none
  | .not_ => some .sub1
  | .if_ => if d = .d7 then some .sub1 else none
  | .exclusiveMinimum | .exclusiveMaximum => if d = .d6 ∨ d = .d7 then some .excl else none
  | .minimum | .maximum | .minimum_draft3_draft4 | .maximum_draft3_draft4 => some .num
  | .multipleOf => some .mult
  | .minItems | .maxItems | .minLength | .maxLength | .minProperties | .maxProperties => some .nonNeg
  | .uniqueItems => some .boolv
  | .pattern | .format => some .strv
  | .dependencies => if d = .d3 then none else some .deps
  | .dependencies_draft3 => if d = .d3 then some .deps else none
  | .enum => some .enum
  | .type => some .type4
  | .type_draft3 | .disallow_draft3 => if d = .d3 then some .type3 else none
  | .extends_draft3 => some .extends3
  | .properties | .patternProperties => some .props
  | .properties_draft3 => if d = .d3 then some .props else none
  | .required => some .req4
  | .allOf | .anyOf | .oneOf => some .xOf
  | .items => if d = .d6 ∨ d = .d7 then some .items else none
  | .items_draft3_draft4 => if d = .d3 ∨ d = .d4 then some .items else none
  | .alwaysFail _ | .never | .foreign _ => none

/-- the generated keyword tables against the branches of `Spec.shapedN` -/
theorem table_ok (d : Draft) : ∀ p ∈ d.keywords, expected d p.2 = some (branchOf d p.1) := by
  cases d <;> decide +kernel

theorem table_ref (d : Draft) : ∀ p ∈ d.keywords, p.2 = KwFn.ref → p.1 = ks "$ref" := by
  cases d <;> decide +kernel

theorem table_disallow (d : Draft) :
    ∀ p ∈ d.keywords, p.2 = KwFn.disallow_draft3 → p.1 = ks "disallow" := by
  cases d <;> decide +kernel

theorem lookupS_mem {α : Type} (k : Str) (l : List (Str × α)) (a : α) (h : lookupS k l = some a) :
    (k, a) ∈ l := by
  induction l with
  | nil => cases h
  | cons p l ih =>
    obtain ⟨k', a'⟩ := p
    unfold lookupS at h
    split at h
    · cases h; subst k'; exact List.mem_cons_self ..
    · exact List.mem_cons_of_mem _ (ih h)

theorem expected_of_lookup {d : Draft} {k : Str} {f : KwFn} (h : lookupS k d.keywords = some f) :
    expected d f = some (branchOf d k) :=
  table_ok d (k, f) (lookupS_mem _ _ _ h)

theorem lookup_mem (k : Str) (l : List (Str × Json)) (v : Json) (h : Json.lookup k l = some v) :
    (k, v) ∈ l := by
  induction l with
  | nil => cases h
  | cons p l ih =>
    obtain ⟨k', a'⟩ := p
    unfold Json.lookup at h
    split at h
    · cases h; subst k'; exact List.mem_cons_self ..
    · exact List.mem_cons_of_mem _ (ih h)

theorem lookup_none_not_mem (k : Str) (l : List (Str × Json)) (h : Json.lookup k l = none) (v : Json) :
    (k, v) ∉ l := by
  induction l with
  | nil => simp
  | cons p l ih =>
    obtain ⟨k', a'⟩ := p
    unfold Json.lookup at h
    split at h
    · cases h
    · rename_i hne
      intro hm
      rcases List.mem_cons.mp hm with h1 | h1
      · cases h1; exact hne rfl
      · exact ih h h1

end Table

/-! ### the type tables of the four drafts -/

section Types
variable (d : Draft) (fc : Option FormatChecker)

theorem isTypeS_object (x : Json) : isTypeS (d.cfg fc) x "object" = .ok x.isObj := by
  have h : lookupS "object".toList (d.cfg fc).types = some .isObject := by
    show lookupS "object".toList d.types = some .isObject
    cases d <;> decide +kernel
  unfold isTypeS isType
  simp only [h, TyFn.apply]

theorem isTypeS_array (x : Json) : isTypeS (d.cfg fc) x "array" = .ok x.isArr := by
  have h : lookupS "array".toList (d.cfg fc).types = some .isArray := by
    show lookupS "array".toList d.types = some .isArray
    cases d <;> decide +kernel
  unfold isTypeS isType
  simp only [h, TyFn.apply]

theorem isTypeS_string (x : Json) : isTypeS (d.cfg fc) x "string" = .ok x.isStr := by
  have h : lookupS "string".toList (d.cfg fc).types = some .isString := by
    show lookupS "string".toList d.types = some .isString
    cases d <;> decide +kernel
  unfold isTypeS isType
  simp only [h, TyFn.apply]

theorem isTypeS_number (x : Json) : isTypeS (d.cfg fc) x "number" = .ok x.isNumJ := by
  have h : lookupS "number".toList (d.cfg fc).types = some .isNumber := by
    show lookupS "number".toList d.types = some .isNumber
    cases d <;> decide +kernel
  unfold isTypeS isType
  simp only [h, TyFn.apply]

/-- every type name the drafts define is bound in the draft's type table -/
theorem typeNames_known : ∀ t ∈ Spec.typeNames d, (lookupS t (d.cfg fc).types).isSome = true := by
  show ∀ t ∈ Spec.typeNames d, (lookupS t d.types).isSome = true
  cases d <;> decide +kernel

theorem idKey_eq : (d.cfg fc).idKey = Spec.ks (if (d = Draft.d6 || d = Draft.d7) = true then "$id" else "id") := by
  cases d <;> rfl

theorem ref_bound : lookupS (skey "$ref") (d.cfg fc).keywords = some .ref := by
  show lookupS (skey "$ref") d.keywords = some .ref
  cases d <;> decide +kernel

end Types


theorem withRes_ok {α : Type} (a : α) (k : α → Gen) : withRes (.ok a) k = k a := rfl

/-- a regular-expression error -/
def ReRaise (env : Env) (e : Exc) : Prop := e = .crash "re.error" ∧ ∃ p s, env.reSearch p s = some none

theorem search_raise {env : Env} {p s : Str} {e : Exc} (h : search env p s = .raise e) : ReRaise env e := by
  unfold search at h
  split at h
  · cases h
  · cases h; exact ⟨rfl, _, _, ‹_›⟩
  · cases h

theorem anySearch_raise {env : Env} {prop : Str} {e : Exc} :
    ∀ ps, anySearch env prop ps = .raise e → ReRaise env e
  | [], h => by cases h
  | p :: ps, h => by
    unfold anySearch at h
    split at h
    · cases h
    · exact anySearch_raise ps h
    · cases h; exact search_raise ‹_›
    · cases h

theorem findAdditional_raise {env : Env} {props : List (Str × Json)} {pats : List Str} {e : Exc} :
    ∀ ikvs, findAdditional env props pats ikvs = .raise e → ReRaise env e
  | [], h => by cases h
  | (k, v) :: rest, h => by
    unfold findAdditional at h
    split at h
    · exact findAdditional_raise rest h
    · split at h
      · exact findAdditional_raise rest h
      · split at h
        · cases h
        · exact findAdditional_raise rest h
      · cases h; exact anySearch_raise _ ‹_›
      · cases h

theorem lookup_cons_ne_none {k k' : Str} {v : Json} {rest : List (Str × Json)}
    (h : k' = k ∨ Json.lookup k' rest ≠ none) : Json.lookup k' ((k, v) :: rest) ≠ none := by
  unfold Json.lookup
  split
  · simp
  · rcases h with h | h
    · exact absurd h.symm ‹_›
    · exact h

theorem findAdditional_mem {env : Env} {props : List (Str × Json)} {pats : List Str} :
    ∀ ikvs ks, findAdditional env props pats ikvs = .ok ks → ∀ k ∈ ks, Json.lookup k ikvs ≠ none
  | [], ks, h, k, hk => by
    unfold findAdditional at h
    cases h
    cases hk
  | (k0, v) :: rest, ks, h, k, hk => by
    unfold findAdditional at h
    split at h
    · exact lookup_cons_ne_none (.inr (findAdditional_mem rest ks h k hk))
    · split at h
      · exact lookup_cons_ne_none (.inr (findAdditional_mem rest ks h k hk))
      · split at h
        · rename_i ks' hks'
          cases h
          rcases List.mem_cons.mp hk with h1 | h1
          · exact lookup_cons_ne_none (.inl h1)
          · exact lookup_cons_ne_none (.inr (findAdditional_mem rest ks' hks' k h1))
        · rename_i hno
          exact absurd h (by intro h'; exact hno _ h')
      · cases h
      · cases h


/-! ### keyword functions: no crash branch is taken when the value has the prescribed shape.
    `T` is the set of schemas on which the recursive call is known to behave. -/

set_option linter.unusedSectionVars false
section Kw
variable {env : Env} {d : Draft} {fc : Option FormatChecker} {A : Stop → Prop}
  (hA : Stops env d fc.isSome A)
include hA

theorem SI_gate_object (inst : Json) (k : Gen) (hk : ∀ ikvs, inst = .obj ikvs → SI A k) :
    SI A (gate (d.cfg fc) inst "object" k) := by
  unfold gate
  rw [isTypeS_object]
  cases inst with
  | obj ikvs => exact hk ikvs rfl
  | _ => exact SI_nothing hA

theorem SI_gate_array (inst : Json) (k : Gen) (hk : ∀ xs, inst = .arr xs → SI A k) :
    SI A (gate (d.cfg fc) inst "array" k) := by
  unfold gate
  rw [isTypeS_array]
  cases inst with
  | arr xs => exact hk xs rfl
  | _ => exact SI_nothing hA

theorem SI_gate_number (inst : Json) (k : Gen) (hk : ∀ x, inst = .num x → SI A k) :
    SI A (gate (d.cfg fc) inst "number" k) := by
  unfold gate
  rw [isTypeS_number]
  cases inst with
  | num x => exact hk x rfl
  | _ => exact SI_nothing hA

theorem SI_search (p s : Str) (k : Bool → Gen) (hk : ∀ m, SI A (k m)) :
    SI A (withRes (search env p s) k) := by
  apply SI_withRes hA
  · intro a _; exact hk a
  · intro e he
    unfold search at he
    split at he
    · cases he
    · cases he; exact hA.reErr _ _ ‹_›
    · cases he

theorem SI_crash_re {e : Exc} (h : ReRaise env e) : A (.raised e) := by
  obtain ⟨rfl, p, s, hps⟩ := h
  exact hA.reErr p s hps

variable {rec : Rec} {T : Json → Prop} (hrec : ∀ i t, T t → SI A (rec i t))
include hrec

theorem G_kwPatternProperties (pkvs : List (Str × Json)) (inst : Json) (hT : ∀ p ∈ pkvs, T p.2) :
    SI A (kwPatternProperties env (d.cfg fc) rec (.obj pkvs) inst) := by
  unfold kwPatternProperties
  apply SI_gate_object hA
  intro ikvs hi
  subst hi
  dsimp only
  apply SI_seqG hA
  intro ps hps
  apply SI_seqG hA
  intro kx _
  apply SI_search hA
  intro m
  split
  · exact SI_descendG _ _ (hrec _ _ (hT ps hps))
  · exact SI_nothing hA

theorem G_kwPropertyNames (v inst : Json) (hT : T v) :
    SI A (kwPropertyNames (d.cfg fc) rec v inst) := by
  unfold kwPropertyNames
  apply SI_gate_object hA
  intro ikvs hi
  subst hi
  dsimp only
  apply SI_seqG hA
  intro kx _
  exact SI_descendG _ _ (hrec _ _ hT)

theorem G_kwAdditionalProperties (aP inst schema : Json)
    (hp : ∃ props, objKvs (schema.get? (skey "properties")) = some props)
    (hpp : ∃ pats, objKvs (schema.get? (skey "patternProperties")) = some pats)
    (hT : aP.isObj = true → T aP) :
    SI A (kwAdditionalProperties env (d.cfg fc) rec aP inst schema) := by
  unfold kwAdditionalProperties
  apply SI_gate_object hA
  intro ikvs hi
  subst hi
  obtain ⟨props, hp⟩ := hp
  obtain ⟨pats, hpp⟩ := hpp
  rw [hp, hpp]
  dsimp only
  apply SI_withRes hA
  · intro extras0 h0
    apply SI_withRes hA
    · intro extras hex
      rw [isTypeS_object, withRes_ok]
      split
      · rename_i hobj
        apply SI_seqG hA
        intro extra hmem
        split
        · exact SI_descendG _ _ (hrec _ _ (hT hobj))
        · rename_i hnone
          rcases hA.keyErr with hso | hk
          · exfalso
            have hset : env.setOrder extras0 = some extras := by
              unfold askOpt at hex
              split at hex
              · cases hex; assumption
              · cases hex
            exact findAdditional_mem ikvs extras0 h0 extra (hso _ _ hset extra hmem) hnone
          · exact fun _ _ => hk
      · split
        · split
          · exact SI_emit hA _
          · exact SI_emit hA _
        · exact SI_nothing hA
    · intro e he
      unfold askOpt at he
      split at he <;> cases he
  · intro e he
    exact SI_crash_re hA (findAdditional_raise _ he)

omit hA hrec in
theorem mem_enumFrom {α : Type} : ∀ (xs : List α) (n : Nat) (p : Nat × α), p ∈ enumFrom n xs → p.2 ∈ xs
  | [], _, _, h => by cases h
  | x :: xs, n, p, h => by
    unfold enumFrom at h
    rcases List.mem_cons.mp h with h1 | h1
    · subst h1; exact List.mem_cons_self ..
    · exact List.mem_cons_of_mem _ (mem_enumFrom xs (n + 1) p h1)

theorem G_kwItems (v inst : Json) (hT1 : ∀ ss, v = .arr ss → ∀ t ∈ ss, T t)
    (hT2 : v.isArr = false → T v) : SI A (kwItems (d.cfg fc) rec v inst) := by
  unfold kwItems
  apply SI_gate_array hA
  intro xs hi
  subst hi
  dsimp only
  rw [isTypeS_array, withRes_ok]
  by_cases h1 : v.isArr = true
  · rw [if_pos h1]
    cases v <;> try cases h1
    rename_i subs
    dsimp only
    apply SI_seqG hA
    intro t ht
    exact SI_descendG _ _ (hrec _ _ (hT1 subs rfl _ (List.of_mem_zip ht).2))
  · rw [if_neg h1]
    apply SI_seqG hA
    intro t _
    exact SI_descendG _ _ (hrec _ _ (hT2 (by simpa using h1)))

theorem G_kwItemsDraft3Draft4 (v inst : Json) (hT1 : v.isObj = true → T v)
    (hT2 : v.isObj = false → ∃ ss, v = .arr ss ∧ ∀ t ∈ ss, T t) :
    SI A (kwItemsDraft3Draft4 (d.cfg fc) rec v inst) := by
  unfold kwItemsDraft3Draft4
  apply SI_gate_array hA
  intro xs hi
  subst hi
  dsimp only
  rw [isTypeS_object, withRes_ok]
  split
  · rename_i h1
    apply SI_seqG hA
    intro t _
    exact SI_descendG _ _ (hrec _ _ (hT1 h1))
  · rename_i h1
    obtain ⟨ss, rfl, hss⟩ := hT2 (by simpa using h1)
    dsimp only
    apply SI_seqG hA
    intro t ht
    exact SI_descendG _ _ (hrec _ _ (hss _ (List.of_mem_zip ht).2))

theorem G_kwAdditionalItems (aI inst schema : Json) (hT : aI.isObj = true → T aI) :
    SI A (kwAdditionalItems (d.cfg fc) rec aI inst schema) := by
  unfold kwAdditionalItems
  rw [isTypeS_array, withRes_ok]
  split
  · exact SI_nothing hA
  · rw [isTypeS_array, withRes_ok]
    split
    · exact SI_nothing hA
    · rename_i h1 h2
      cases inst <;> first | exact absurd rfl h1 | skip
      rename_i xs
      cases hit : schema.get? (skey "items") with
      | none => rw [hit] at h2; exact absurd rfl h2
      | some j =>
        rw [hit] at h2
        cases j <;> first | exact absurd rfl h2 | skip
        rename_i subs
        dsimp only
        rw [isTypeS_object, withRes_ok]
        split
        · rename_i h3
          apply SI_seqG hA
          intro t _
          exact SI_descendG _ _ (hrec _ _ (hT h3))
        · split
          · exact SI_emit hA _
          · exact SI_nothing hA

theorem G_containsLoop (sub whole : Json) (hT : T sub) (xs : List Json) :
    SI A (containsLoop rec sub whole xs) := by
  induction xs with
  | nil => unfold containsLoop; exact SI_emit hA _
  | cons x xs ih =>
    unfold containsLoop
    apply SI_innerValid _ (hrec _ _ hT)
    intro ok
    split
    · exact SI_nothing hA
    · exact ih

theorem G_kwContains (v inst : Json) (hT : T v) : SI A (kwContains (d.cfg fc) rec v inst) := by
  unfold kwContains
  apply SI_gate_array hA
  intro xs hi
  subst hi
  exact G_containsLoop hA hrec _ _ hT _

omit hrec in
theorem G_kwBound (tmpl : String) (fails : Num → Num → Bool) (bound inst : Json)
    (hb : bound.isNumJ = true) : SI A (kwBound (d.cfg fc) tmpl fails bound inst) := by
  unfold kwBound
  apply SI_gate_number hA
  intro x hi
  subst hi
  cases bound <;> try cases hb
  dsimp only [asNum]
  split
  · exact SI_emit hA _
  · exact SI_nothing hA

omit hrec in
theorem G_kwMinimumDraft3Draft4 (bound inst schema : Json) (hb : bound.isNumJ = true) :
    SI A (kwMinimumDraft3Draft4 (d.cfg fc) bound inst schema) := by
  unfold kwMinimumDraft3Draft4
  split <;> exact G_kwBound hA _ _ _ _ hb

omit hrec in
theorem G_kwMaximumDraft3Draft4 (bound inst schema : Json) (hb : bound.isNumJ = true) :
    SI A (kwMaximumDraft3Draft4 (d.cfg fc) bound inst schema) := by
  unfold kwMaximumDraft3Draft4
  split <;> exact G_kwBound hA _ _ _ _ hb

omit hrec in
theorem G_kwMultipleOf (m : Num) (inst : Json) (hm : 0 < Spec.val m) :
    SI A (kwMultipleOf (d.cfg fc) (.num m) inst) := by
  unfold kwMultipleOf
  apply SI_gate_number hA
  intro x hi
  subst hi
  obtain ⟨failed, hf⟩ := multipleOfFailed_ok x m ((Num.isZero_false_iff m).mpr (ne_of_gt hm))
  dsimp only [asNum]
  rw [hf]
  cases failed
  · exact SI_nothing hA
  · exact SI_emit hA _

omit hrec in
theorem G_kwLenBound (ty tmpl : String) (lt : Bool) (len : Json → Option Nat) (p : Json → Bool)
    (hty : ∀ x, isTypeS (d.cfg fc) x ty = .ok (p x)) (hlen : ∀ x, p x = true → ∃ n, len x = some n)
    (m inst : Json) (hm : m.isNumJ = true) :
    SI A (kwLenBound (d.cfg fc) ty tmpl lt len m inst) := by
  unfold kwLenBound
  rw [hty, withRes_ok]
  by_cases h1 : p inst = true
  · rw [if_neg (by simp [h1])]
    obtain ⟨n, hn⟩ := hlen inst h1
    rw [hn]
    cases m <;> try cases hm
    dsimp only [lenCmp]
    rw [withRes_ok]
    exact SI_ite _ (fun _ => SI_emit hA _) (fun _ => SI_nothing hA)
  · rw [if_pos (by simpa using h1)]
    exact SI_nothing hA

omit hrec in
theorem G_lenBounds (m inst : Json) (hm : m.isNumJ = true) :
    SI A (kwMinItems (d.cfg fc) m inst) ∧ SI A (kwMaxItems (d.cfg fc) m inst)
    ∧ SI A (kwMinLength (d.cfg fc) m inst) ∧ SI A (kwMaxLength (d.cfg fc) m inst)
    ∧ SI A (kwMinProperties (d.cfg fc) m inst) ∧ SI A (kwMaxProperties (d.cfg fc) m inst) := by
  have harr : ∀ x : Json, x.isArr = true → ∃ n, arrLen x = some n := by
    intro x hx; cases x <;> first | exact ⟨_, rfl⟩ | cases hx
  have hstr : ∀ x : Json, x.isStr = true → ∃ n, strLen x = some n := by
    intro x hx; cases x <;> first | exact ⟨_, rfl⟩ | cases hx
  have hobj : ∀ x : Json, x.isObj = true → ∃ n, objLen x = some n := by
    intro x hx; cases x <;> first | exact ⟨_, rfl⟩ | cases hx
  exact ⟨G_kwLenBound hA _ _ _ _ _ (isTypeS_array d fc) harr _ _ hm,
    G_kwLenBound hA _ _ _ _ _ (isTypeS_array d fc) harr _ _ hm,
    G_kwLenBound hA _ _ _ _ _ (isTypeS_string d fc) hstr _ _ hm,
    G_kwLenBound hA _ _ _ _ _ (isTypeS_string d fc) hstr _ _ hm,
    G_kwLenBound hA _ _ _ _ _ (isTypeS_object d fc) hobj _ _ hm,
    G_kwLenBound hA _ _ _ _ _ (isTypeS_object d fc) hobj _ _ hm⟩

omit hrec in
theorem G_kwUniqueItems (uI inst : Json) : SI A (kwUniqueItems (d.cfg fc) uI inst) := by
  unfold kwUniqueItems
  split
  · exact SI_nothing hA
  · rw [isTypeS_array, withRes_ok]
    cases inst <;> first | exact SI_nothing hA | skip
    rw [if_neg (by intro h; cases h)]
    dsimp only
    split
    · exact SI_nothing hA
    · exact SI_emit hA _

omit hrec in
theorem G_kwPattern (ps : Str) (inst : Json) : SI A (kwPattern env (d.cfg fc) (.str ps) inst) := by
  unfold kwPattern
  rw [isTypeS_string, withRes_ok]
  cases inst <;> first | exact SI_nothing hA | skip
  rw [if_neg (by intro h; cases h)]
  dsimp only
  apply SI_search hA
  intro m
  split
  · exact SI_nothing hA
  · exact SI_emit hA _

omit hA hrec in
theorem fmtCheck_raise {impl : FmtImpl} {fc' : FormatChecker} {inst : Json} {name : Str} {e : Exc}
    (h : fmtCheck env impl fc' inst name = .raise e) : ∃ c, e = .custom c := by
  unfold fmtCheck at h
  split at h
  · cases h
  · split at h
    · cases h
    · split at h
      · cases h
      · cases h; exact ⟨_, rfl⟩
    · rename_i x hx
      unfold runFmt at hx
      split at hx
      · cases hx
      · unfold askOpt at hx
        split at hx <;> cases hx
    · cases h

omit hrec in
theorem G_kwFormat (impl : FmtImpl) (name : Str) (inst : Json) :
    SI A (kwFormat env impl (d.cfg fc) (.str name) inst) := by
  unfold kwFormat
  split
  · exact SI_nothing hA
  · rename_i fc' hfc
    dsimp only
    apply SI_withRes hA
    · intro r _
      split
      · exact SI_nothing hA
      · exact SI_emit hA _
    · intro e he
      obtain ⟨c, rfl⟩ := fmtCheck_raise he
      refine hA.custom ?_ c
      have : fc = some fc' := hfc
      rw [this]; rfl

omit hrec in
theorem G_depArray (ikvs : List (Str × Json)) (prop : Str) (names : List Json)
    (hn : ∀ x ∈ names, ∃ s, x = .str s) : SI A (depArray ikvs prop names) := by
  unfold depArray
  apply SI_seqG hA
  intro each he
  obtain ⟨s, rfl⟩ := hn each he
  dsimp only [missingKey]
  rw [withRes_ok]
  split
  · exact SI_emit hA _
  · exact SI_nothing hA

theorem G_kwDependencies (dkvs : List (Str × Json)) (inst : Json)
    (hd : ∀ pd ∈ dkvs, (∃ names, pd.2 = .arr names ∧ ∀ x ∈ names, ∃ s, x = .str s)
      ∨ (pd.2.isArr = false ∧ T pd.2)) :
    SI A (kwDependencies (d.cfg fc) rec (.obj dkvs) inst) := by
  unfold kwDependencies
  apply SI_gate_object hA
  intro ikvs hi
  subst hi
  dsimp only
  apply SI_seqG hA
  intro pd hpd
  split
  · exact SI_nothing hA
  · rw [isTypeS_array, withRes_ok]
    rcases hd pd hpd with ⟨names, h1, h2⟩ | ⟨h1, h2⟩
    · rw [h1, if_pos (show (Json.arr names).isArr = true from rfl)]
      exact G_depArray hA _ _ _ h2
    · rw [h1, if_neg (by decide)]
      exact SI_descendG _ _ (hrec _ _ h2)

omit hrec in
theorem G_kwEnum (es : List Json) (inst : Json) : SI A (kwEnum (.arr es) inst) := by
  unfold kwEnum
  dsimp only
  split
  · exact SI_emit hA _
  · exact SI_nothing hA

omit hrec in
theorem G_anyType (inst : Json) (ts : List Json)
    (hts : ∀ t ∈ ts, ∃ n, t = .str n ∧ (lookupS n (d.cfg fc).types).isSome = true) (k : Bool → Gen)
    (hk : ∀ b, SI A (k b)) : SI A (withRes (anyType (d.cfg fc) inst ts) k) := by
  apply SI_withRes hA
  · intro a _; exact hk a
  · intro e he
    exfalso
    induction ts with
    | nil => cases he
    | cons t ts ih =>
      obtain ⟨n, rfl, hn⟩ := hts t (List.mem_cons_self ..)
      unfold anyType at he
      have : ∃ b, isType (d.cfg fc) inst (.str n) = .ok b := by
        unfold isType
        dsimp only
        cases hl : lookupS n (d.cfg fc).types with
        | none => rw [hl] at hn; cases hn
        | some f => exact ⟨_, rfl⟩
      obtain ⟨b, hb⟩ := this
      rw [hb] at he
      cases b
      · exact ih (fun t ht => hts t (List.mem_cons_of_mem _ ht)) he
      · cases he

omit hrec in
theorem G_kwType (v inst : Json) (ts : List Json) (he : ensureList v = some ts)
    (hts : ∀ t ∈ ts, ∃ n, t = .str n ∧ (lookupS n (d.cfg fc).types).isSome = true) :
    SI A (kwType (d.cfg fc) v inst) := by
  unfold kwType
  rw [he]
  dsimp only
  apply G_anyType hA _ _ hts
  intro b
  split
  · exact SI_nothing hA
  · exact SI_emit hA _

theorem G_kwProperties (pkvs : List (Str × Json)) (inst : Json) (hT : ∀ p ∈ pkvs, T p.2) :
    SI A (kwProperties (d.cfg fc) rec (.obj pkvs) inst) := by
  unfold kwProperties
  apply SI_gate_object hA
  intro ikvs hi
  subst hi
  dsimp only
  apply SI_seqG hA
  intro ps hps
  split
  · exact SI_descendG _ _ (hrec _ _ (hT ps hps))
  · exact SI_nothing hA

omit hrec in
theorem G_kwRequired (rs : List Json) (inst : Json) (hr : ∀ x ∈ rs, ∃ s, x = .str s) :
    SI A (kwRequired (d.cfg fc) (.arr rs) inst) := by
  unfold kwRequired
  apply SI_gate_object hA
  intro ikvs hi
  subst hi
  dsimp only
  apply SI_seqG hA
  intro p hp
  obtain ⟨s, rfl⟩ := hr p hp
  dsimp only [missingKey]
  rw [withRes_ok]
  split
  · exact SI_emit hA _
  · exact SI_nothing hA

theorem G_kwAllOf (ss : List Json) (inst : Json) (hT : ∀ t ∈ ss, T t) :
    SI A (kwAllOf rec (.arr ss) inst) := by
  unfold kwAllOf
  dsimp only
  apply SI_seqG hA
  intro t ht
  exact SI_descendG _ _ (hrec _ _ (hT _ (mem_enumFrom _ _ _ ht)))

theorem G_firstValid (inst : Json) (k : Option (Json × List (Nat × Json)) → List Err → Gen)
    (hk : ∀ r acc, SI A (k r acc)) (xs : List (Nat × Json)) (hxs : ∀ p ∈ xs, T p.2) (acc : List Err) :
    SI A (firstValid rec inst k xs acc) := by
  induction xs generalizing acc with
  | nil => unfold firstValid; exact hk _ _
  | cons x xs ih =>
    obtain ⟨i, s⟩ := x
    unfold firstValid
    apply SI_inner _ _ (SI_descendG _ _ (hrec _ _ (hxs (i, s) (List.mem_cons_self ..))))
    intro errs
    split
    · exact hk _ _
    · exact ih (fun p hp => hxs p (List.mem_cons_of_mem _ hp)) _

theorem G_moreValid (inst : Json) (k : List Json → Gen) (hk : ∀ acc, SI A (k acc))
    (xs : List (Nat × Json)) (hxs : ∀ p ∈ xs, T p.2) (acc : List Json) :
    SI A (moreValid rec inst k xs acc) := by
  induction xs generalizing acc with
  | nil => unfold moreValid; exact hk _
  | cons x xs ih =>
    obtain ⟨i, s⟩ := x
    unfold moreValid
    apply SI_innerValid _ (hrec _ _ (hxs (i, s) (List.mem_cons_self ..)))
    intro ok
    exact ih (fun p hp => hxs p (List.mem_cons_of_mem _ hp)) _

theorem G_kwAnyOf (ss : List Json) (inst : Json) (hT : ∀ t ∈ ss, T t) :
    SI A (kwAnyOf rec (.arr ss) inst) := by
  unfold kwAnyOf
  dsimp only
  apply G_firstValid hA hrec
  · intro r acc
    split
    · exact SI_nothing hA
    · exact SI_emit hA _
  · intro p hp; exact hT _ (mem_enumFrom _ _ _ hp)

theorem G_kwOneOf (ss : List Json) (inst : Json) (hT : ∀ t ∈ ss, T t) :
    SI A (kwOneOf rec (.arr ss) inst) := by
  unfold kwOneOf
  dsimp only
  have hmem : ∀ (n : Nat) (l : List Json), (∀ t ∈ l, T t) → ∀ p ∈ enumFrom n l, T p.2 :=
    fun n l hl p hp => hl _ (mem_enumFrom _ _ _ hp)
  -- the branches after the first valid one are a suffix of the enumeration
  suffices h : ∀ (xs : List (Nat × Json)) (hxs : ∀ p ∈ xs, T p.2) (acc : List Err),
      SI A (firstValid rec inst (fun r acc =>
        match r with
        | none => emit [Err.fresh "anyOf" [inst] acc]
        | some (first, rest) =>
          moreValid rec inst (fun more =>
            if more.isEmpty then nothing
            else emit [Err.fresh "oneOfMore" [inst, .arr (more ++ [first])]]) rest []) xs acc) from
    h _ (hmem 0 ss hT) []
  intro xs
  induction xs with
  | nil =>
    intro _ acc
    unfold firstValid
    exact SI_emit hA _
  | cons x xs ih =>
    intro hxs acc
    obtain ⟨i, s⟩ := x
    unfold firstValid
    apply SI_inner _ _ (SI_descendG _ _ (hrec _ _ (hxs (i, s) (List.mem_cons_self ..))))
    intro errs
    split
    · dsimp only
      apply G_moreValid hA hrec
      · intro more
        split
        · exact SI_nothing hA
        · exact SI_emit hA _
      · exact fun p hp => hxs p (List.mem_cons_of_mem _ hp)
    · exact ih (fun p hp => hxs p (List.mem_cons_of_mem _ hp)) _

theorem G_kwNot (v inst : Json) (hT : T v) : SI A (kwNot rec v inst) := by
  unfold kwNot
  apply SI_innerValid _ (hrec _ _ hT)
  intro ok
  split
  · exact SI_emit hA _
  · exact SI_nothing hA

theorem G_kwIf (v inst schema : Json) (hT : T v)
    (ht : ∀ t, schema.get? (skey "then") = some t → T t)
    (he : ∀ t, schema.get? (skey "else") = some t → T t) : SI A (kwIf rec v inst schema) := by
  unfold kwIf
  apply SI_innerValid _ (hrec _ _ hT)
  intro ok
  split
  · split
    · exact SI_descendG _ _ (hrec _ _ (ht _ ‹_›))
    · exact SI_nothing hA
  · split
    · exact SI_descendG _ _ (hrec _ _ (he _ ‹_›))
    · exact SI_nothing hA

/-- the schema `kwDisallowDraft3` synthesizes for the entry `x` -/
def synth (x : Json) : Json := .obj [(skey "type", .arr [x])]

theorem G_kwDependenciesDraft3 (dkvs : List (Str × Json)) (inst : Json)
    (hd : ∀ pd ∈ dkvs, (pd.2.isObj = true ∧ T pd.2) ∨ (∃ s, pd.2 = .str s)
      ∨ (∃ names, pd.2 = .arr names ∧ ∀ x ∈ names, ∃ s, x = .str s)) :
    SI A (kwDependenciesDraft3 (d.cfg fc) rec (.obj dkvs) inst) := by
  unfold kwDependenciesDraft3
  apply SI_gate_object hA
  intro ikvs hi
  subst hi
  dsimp only
  apply SI_seqG hA
  intro pd hpd
  split
  · exact SI_nothing hA
  · rw [isTypeS_object, withRes_ok, isTypeS_string, withRes_ok]
    rcases hd pd hpd with ⟨h1, h2⟩ | ⟨s, h1⟩ | ⟨names, h1, h2⟩
    · rw [if_pos h1]
      exact SI_descendG _ _ (hrec _ _ h2)
    · rw [h1, if_neg (by intro h; cases h), if_pos (show (Json.str s).isStr = true from rfl)]
      dsimp only [missingKey]
      rw [withRes_ok]
      exact SI_ite _ (fun _ => SI_emit hA _) (fun _ => SI_nothing hA)
    · rw [h1, if_neg (by intro h; cases h), if_neg (by intro h; cases h)]
      exact G_depArray hA _ _ _ h2

theorem G_kwDisallowDraft3 (v inst : Json) (ds : List Json) (he : ensureList v = some ds)
    (hT : ∀ x ∈ ds, T (synth x)) : SI A (kwDisallowDraft3 rec v inst) := by
  unfold kwDisallowDraft3
  rw [he]
  dsimp only
  apply SI_seqG hA
  intro x hx
  apply SI_innerValid _ (hrec _ _ (hT x hx))
  intro ok
  split
  · exact SI_emit hA _
  · exact SI_nothing hA

theorem G_kwExtendsDraft3 (v inst : Json) (hT1 : v.isObj = true → T v)
    (hT2 : v.isObj = false → ∃ ss, v = .arr ss ∧ ∀ t ∈ ss, T t) :
    SI A (kwExtendsDraft3 (d.cfg fc) rec v inst) := by
  unfold kwExtendsDraft3
  rw [isTypeS_object, withRes_ok]
  by_cases h1 : v.isObj = true
  · rw [if_pos h1]
    exact SI_descendG _ _ (hrec _ _ (hT1 h1))
  · rw [if_neg h1]
    obtain ⟨ss, rfl, hss⟩ := hT2 (by simpa using h1)
    dsimp only
    apply SI_seqG hA
    intro t ht
    exact SI_descendG _ _ (hrec _ _ (hss _ (mem_enumFrom _ _ _ ht)))

theorem G_kwPropertiesDraft3 (pkvs : List (Str × Json)) (inst schema : Json)
    (hT : ∀ p ∈ pkvs, p.2.isObj = true ∧ T p.2) :
    SI A (kwPropertiesDraft3 (d.cfg fc) rec (.obj pkvs) inst schema) := by
  unfold kwPropertiesDraft3
  apply SI_gate_object hA
  intro ikvs hi
  subst hi
  dsimp only
  apply SI_seqG hA
  intro ps hps
  split
  · exact SI_descendG _ _ (hrec _ _ (hT ps hps).2)
  · have h1 := (hT ps hps).1
    cases h2 : ps.2 <;> rw [h2] at h1 <;> try cases h1
    dsimp only
    split
    · exact SI_ite _ (fun _ => SI_emit hA _) (fun _ => SI_nothing hA)
    · exact SI_nothing hA

theorem G_typeDraft3Loop (hd3 : d = .d3) (inst : Json) (k : Bool → List Err → Gen)
    (hk : ∀ m acc, SI A (k m acc)) (xs : List (Nat × Json))
    (hxs : ∀ p ∈ xs, (∃ s, p.2 = .str s) ∨ (p.2.isObj = true ∧ T p.2)) (acc : List Err) :
    SI A (typeDraft3Loop (d.cfg fc) rec inst k xs acc) := by
  induction xs generalizing acc with
  | nil => unfold typeDraft3Loop; exact hk _ _
  | cons x xs ih =>
    obtain ⟨i, t⟩ := x
    have ih' := ih (fun p hp => hxs p (List.mem_cons_of_mem _ hp))
    unfold typeDraft3Loop
    rw [isTypeS_object, withRes_ok]
    rcases hxs (i, t) (List.mem_cons_self ..) with ⟨s, h1⟩ | ⟨h1, h2⟩
    · dsimp only at h1
      subst h1
      rw [if_neg (by intro h; cases h)]
      apply SI_withRes hA
      · intro ok _
        split
        · exact hk _ _
        · exact ih' _
      · intro e he
        unfold isType at he
        dsimp only at he
        split at he
        · cases he
        · cases he; exact hA.unknownType hd3 _
    · dsimp only at h1 h2
      rw [if_pos h1]
      apply SI_inner _ _ (SI_descendG _ _ (hrec _ _ h2))
      intro errs
      split
      · exact hk _ _
      · exact ih' _

theorem G_kwTypeDraft3 (hd3 : d = .d3) (v inst : Json) (ts : List Json) (he : ensureList v = some ts)
    (hts : ∀ t ∈ ts, (∃ s, t = .str s) ∨ (t.isObj = true ∧ T t)) :
    SI A (kwTypeDraft3 (d.cfg fc) rec v inst) := by
  unfold kwTypeDraft3
  rw [he]
  dsimp only
  apply G_typeDraft3Loop hA hrec hd3
  · intro m acc
    split
    · exact SI_nothing hA
    · exact SI_emit hA _
  · intro p hp
    exact hts _ (mem_enumFrom _ _ _ hp)

omit hrec in
theorem resolveFromUrl_raise {url : Str} {st st' : RState} {e : Exc}
    (h : resolveFromUrl env url st = (.raise e, st')) : e = .refResolution := by
  have hfrag : ∀ doc frag, fragRes doc frag = .raise e → e = .refResolution := by
    intro doc frag h
    unfold fragRes at h
    split at h <;> cases h
    rfl
  unfold resolveFromUrl at h
  split at h
  · cases h
  · split at h
    · cases h
    · split at h
      · exact hfrag _ _ (Prod.mk.inj h).1
      · split at h
        · exact hfrag _ _ (Prod.mk.inj h).1
        · cases h
          rename_i hr
          unfold resolveRemote at hr
          split at hr
          · cases hr
          · cases hr; rfl
          · cases hr

omit hrec in
theorem resolve_raise {ref : Str} {st st' : RState} {e : Exc}
    (h : resolve env ref st = (.raise e, st')) : e = .refResolution := by
  unfold resolve at h
  split at h
  · cases h
  · split at h
    · cases h
    · split at h
      · cases h
      · cases h; exact resolveFromUrl_raise hA ‹_›
      · cases h

omit hrec in
theorem G_kwRef {rec : Rec} (hall : ∀ i t, SI A (rec i t)) (r : Str) (inst : Json) :
    SI A (kwRef env rec (.str r) inst) := by
  intro b st
  rw [kwRef_str]
  split
  · exact SI_withScope hA _ (hall _ _) _ _
  · rename_i e st1 hr
    rw [resolve_raise hA hr]
    exact hA.refRes
  · exact hA.miss _

end Kw

section Assembly
open Spec

/-! ### the schemas one layer of `iter_errors` passes to the recursive call -/

/-- the members of a keyword value -/
def elems : Json → List Json
  | .arr xs => xs
  | .obj kvs => kvs.map (·.2)
  | _ => []

/-- (an over-approximation of) the schemas `evalStep … (.obj kvs)` passes to the recursive call:
    a keyword value, a member of a keyword value, or the schema synthesized by `disallow` -/
inductive Reach (kvs : List (Str × Json)) : Json → Prop
  | val {k : Str} {v : Json} : (k, v) ∈ kvs → Reach kvs v
  | elem {k : Str} {v t : Json} : (k, v) ∈ kvs → t ∈ elems v → Reach kvs t
  | syn {v x : Json} : (ks "disallow", v) ∈ kvs → (x = v ∨ x ∈ elems v) → Reach kvs (synth x)

/-- shaped at some depth -/
def Good (refs : Bool) (d : Draft) (t : Json) : Prop := ∃ m, shapedN refs d m t = true

theorem all_isStrJ {rs : List Json} (h : rs.all isStrJ = true) : ∀ x ∈ rs, ∃ s, x = .str s := by
  intro x hx
  have := List.all_eq_true.mp h x hx
  cases x <;> first | exact ⟨_, rfl⟩ | cases this

theorem isStrJ_str {v : Json} (h : isStrJ v = true) : ∃ s, v = .str s := by
  cases v <;> first | exact ⟨_, rfl⟩ | cases h

theorem isNonNegInt_num {d : Draft} {v : Json} (h : isNonNegInt d v = true) : v.isNumJ = true := by
  cases v <;> first | rfl | (unfold isNonNegInt at h; cases h)

theorem good_bool {refs : Bool} {d : Draft} (b : Bool) (h : (d = Draft.d6 || d = Draft.d7) = true) :
    Good refs d (.bool b) := ⟨1, by unfold shapedN; exact h⟩

theorem branchOf_properties (d : Draft) : branchOf d (ks "properties") = .props := by
  cases d <;> decide +kernel
theorem branchOf_patternProperties (d : Draft) : branchOf d (ks "patternProperties") = .props := by
  cases d <;> decide +kernel
theorem branchOf_then : branchOf .d7 (ks "then") = .sub1 := by decide +kernel
theorem branchOf_else : branchOf .d7 (ks "else") = .sub1 := by decide +kernel
theorem branchOf_type3 : branchOf .d3 (ks "type") = .type3 := by decide +kernel

theorem synth_good {refs : Bool} {m : Nat} {x : Json}
    (hx : (∃ s, x = .str s) ∨ (x.isObj = true ∧ shapedN refs .d3 m x = true)) :
    shapedN refs .d3 (m + 1) (synth x) = true := by
  rw [synth, shapedN_obj]
  have h1 : lookupJ (if (Draft.d3 = Draft.d6 || Draft.d3 = Draft.d7) = true then "$id" else "id")
      [(skey "type", Json.arr [x])] = none := by
    unfold lookupJ Json.lookup
    rw [if_neg (by decide +kernel)]
    rfl
  have h2 : lookupJ "$ref" [(skey "type", Json.arr [x])] = none := by
    unfold lookupJ Json.lookup
    rw [if_neg (by decide +kernel)]
    rfl
  rw [h1, h2]
  dsimp only
  rw [List.all_cons, List.all_nil, Bool.and_true, Bool.true_and]
  dsimp only
  rw [show branchOf Draft.d3 (skey "type") = .type3 from branchOf_type3]
  unfold interp
  dsimp only
  rw [List.all_cons, List.all_nil, Bool.and_true]
  rcases hx with ⟨s, rfl⟩ | ⟨h1, h2⟩
  · rfl
  · cases x <;> first | exact h2 | cases h1

/-! ### the dispatcher on a shaped schema object -/

set_option linter.unusedSectionVars false
section Apply
variable {env : Env} {d : Draft} {fc : Option FormatChecker} {A : Stop → Prop}
  (hA : Stops env d fc.isSome A)
include hA

theorem G_kwConst (v inst : Json) : SI A (kwConst v inst) := by
  unfold kwConst
  split
  · exact SI_nothing hA
  · exact SI_emit hA _

variable {refs : Bool} {n : Nat} {kvs : List (Str × Json)} {rec : Rec}
  (hrec : ∀ i t, Good refs d t ∧ Reach kvs t → SI A (rec i t))
  (hall : ∀ p ∈ kvs, interp refs d n (branchOf d p.1) p.2 = true)
include hrec hall

theorem sibling_obj (key : String) (hbr : branchOf d (ks key) = .props) :
    ∃ ps, objKvs ((Json.obj kvs).get? (skey key)) = some ps := by
  show ∃ ps, objKvs (Json.lookup (skey key) kvs) = some ps
  cases hl : Json.lookup (skey key) kvs with
  | none => exact ⟨[], rfl⟩
  | some j =>
    have h := hall _ (lookup_mem _ _ _ hl)
    dsimp only at h
    rw [show skey key = ks key from rfl, hbr] at h
    unfold interp at h
    cases j <;> first | exact ⟨_, rfl⟩ | cases h

theorem applyKw_good (impl : FmtImpl) (hnoref : Json.lookup (ks "$ref") kvs = none)
    (k : Str) (v : Json) (hkv : (k, v) ∈ kvs) (f : KwFn) (hf : lookupS k d.keywords = some f)
    (inst : Json) : SI A (applyKw env impl (d.cfg fc) rec f v inst (.obj kvs)) := by
  have hb := expected_of_lookup hf
  have hv := hall (k, v) hkv
  dsimp only at hv
  have hmem := lookupS_mem _ _ _ hf
  have mkT : ∀ t, shapedN refs d n t = true → Reach kvs t → Good refs d t ∧ Reach kvs t :=
    fun t h r => ⟨⟨n, h⟩, r⟩
  have rv : Reach kvs v := .val hkv
  have re : ∀ t, t ∈ elems v → Reach kvs t := fun t ht => .elem hkv ht
  cases f <;> unfold applyKw <;> dsimp only <;> simp only [expected] at hb
  case ref =>
    have := table_ref d _ hmem rfl
    dsimp only at this
    subst this
    exact absurd hkv (lookup_none_not_mem _ _ hnoref v)
  case additionalItems =>
    rw [← Option.some.inj hb] at hv
    apply G_kwAdditionalItems hA hrec
    intro ho
    cases v <;> try cases ho
    exact mkT _ hv rv
  case additionalProperties =>
    rw [← Option.some.inj hb] at hv
    apply G_kwAdditionalProperties hA hrec
    · exact sibling_obj hA hrec hall "properties" (branchOf_properties d)
    · exact sibling_obj hA hrec hall "patternProperties" (branchOf_patternProperties d)
    · intro ho
      cases v <;> try cases ho
      exact mkT _ hv rv
  case const => exact G_kwConst hA _ _
  case contains =>
    split at hb <;> try cases hb
    rw [← Option.some.inj hb] at hv
    exact G_kwContains hA hrec _ _ (mkT _ hv rv)
  case propertyNames =>
    split at hb <;> try cases hb
    rw [← Option.some.inj hb] at hv
    exact G_kwPropertyNames hA hrec _ _ (mkT _ hv rv)
  case not_ =>
    rw [← Option.some.inj hb] at hv
    exact G_kwNot hA hrec _ _ (mkT _ hv rv)
  case if_ =>
    split at hb <;> try cases hb
    rename_i hd7
    subst hd7
    rw [← Option.some.inj hb] at hv
    apply G_kwIf hA hrec _ _ _ (mkT _ hv rv)
    · intro t ht
      have hm := lookup_mem _ _ _ (show Json.lookup (skey "then") kvs = some t from ht)
      have h := hall _ hm
      dsimp only at h
      rw [show skey "then" = ks "then" from rfl, branchOf_then] at h
      exact mkT _ h (.val hm)
    · intro t ht
      have hm := lookup_mem _ _ _ (show Json.lookup (skey "else") kvs = some t from ht)
      have h := hall _ hm
      dsimp only at h
      rw [show skey "else" = ks "else" from rfl, branchOf_else] at h
      exact mkT _ h (.val hm)
  case exclusiveMinimum =>
    split at hb <;> try cases hb
    rename_i hd
    rw [← Option.some.inj hb] at hv
    have hv' : v.isNumJ = true := by
      unfold interp at hv
      rw [if_pos (by rcases hd with rfl | rfl <;> rfl)] at hv
      exact hv
    exact G_kwBound hA _ _ _ _ hv'
  case exclusiveMaximum =>
    split at hb <;> try cases hb
    rename_i hd
    rw [← Option.some.inj hb] at hv
    have hv' : v.isNumJ = true := by
      unfold interp at hv
      rw [if_pos (by rcases hd with rfl | rfl <;> rfl)] at hv
      exact hv
    exact G_kwBound hA _ _ _ _ hv'
  case minimum =>
    rw [← Option.some.inj hb] at hv
    exact G_kwBound hA _ _ _ _ hv
  case maximum =>
    rw [← Option.some.inj hb] at hv
    exact G_kwBound hA _ _ _ _ hv
  case minimum_draft3_draft4 =>
    rw [← Option.some.inj hb] at hv
    exact G_kwMinimumDraft3Draft4 hA _ _ _ hv
  case maximum_draft3_draft4 =>
    rw [← Option.some.inj hb] at hv
    exact G_kwMaximumDraft3Draft4 hA _ _ _ hv
  case multipleOf =>
    rw [← Option.some.inj hb] at hv
    unfold interp at hv
    cases v <;> try cases hv
    exact G_kwMultipleOf hA _ _ (of_decide_eq_true hv)
  case minItems =>
    rw [← Option.some.inj hb] at hv
    exact (G_lenBounds hA v inst (isNonNegInt_num hv)).1
  case maxItems =>
    rw [← Option.some.inj hb] at hv
    exact (G_lenBounds hA v inst (isNonNegInt_num hv)).2.1
  case minLength =>
    rw [← Option.some.inj hb] at hv
    exact (G_lenBounds hA v inst (isNonNegInt_num hv)).2.2.1
  case maxLength =>
    rw [← Option.some.inj hb] at hv
    exact (G_lenBounds hA v inst (isNonNegInt_num hv)).2.2.2.1
  case minProperties =>
    rw [← Option.some.inj hb] at hv
    exact (G_lenBounds hA v inst (isNonNegInt_num hv)).2.2.2.2.1
  case maxProperties =>
    rw [← Option.some.inj hb] at hv
    exact (G_lenBounds hA v inst (isNonNegInt_num hv)).2.2.2.2.2
  case uniqueItems => exact G_kwUniqueItems hA _ _
  case pattern =>
    rw [← Option.some.inj hb] at hv
    obtain ⟨s, rfl⟩ := isStrJ_str hv
    exact G_kwPattern hA _ _
  case format =>
    rw [← Option.some.inj hb] at hv
    obtain ⟨s, rfl⟩ := isStrJ_str hv
    exact G_kwFormat hA _ _ _
  case enum =>
    rw [← Option.some.inj hb] at hv
    unfold interp at hv
    cases v <;> try cases hv
    exact G_kwEnum hA _ _
  case dependencies =>
    split at hb <;> try cases hb
    rename_i hd
    rw [← Option.some.inj hb] at hv
    unfold interp at hv
    cases v <;> try cases hv
    rename_i ds
    try dsimp only at hv
    apply G_kwDependencies hA hrec
    intro pd hpd
    have h := List.all_eq_true.mp hv pd hpd
    have hr : Reach kvs pd.2 := re _ (List.mem_map_of_mem hpd)
    try dsimp only at h
    cases h2 : pd.2 <;> rw [h2] at h hr <;> try dsimp only at h
    · cases h
    · exact .inr ⟨rfl, good_bool _ h, hr⟩
    · cases h
    · exact absurd (of_decide_eq_true h) hd
    · exact .inl ⟨_, rfl, all_isStrJ h⟩
    · exact .inr ⟨rfl, mkT _ h hr⟩
  case dependencies_draft3 =>
    split at hb <;> try cases hb
    rename_i hd
    subst hd
    rw [← Option.some.inj hb] at hv
    unfold interp at hv
    cases v <;> try cases hv
    rename_i ds
    try dsimp only at hv
    apply G_kwDependenciesDraft3 hA hrec
    intro pd hpd
    have h := List.all_eq_true.mp hv pd hpd
    have hr : Reach kvs pd.2 := re _ (List.mem_map_of_mem hpd)
    try dsimp only at h
    cases h2 : pd.2 <;> rw [h2] at h hr <;> try dsimp only at h
    · cases h
    · cases h
    · cases h
    · exact .inr (.inl ⟨_, rfl⟩)
    · exact .inr (.inr ⟨_, rfl, all_isStrJ h⟩)
    · exact .inl ⟨rfl, mkT _ h hr⟩
  case type =>
    rw [← Option.some.inj hb] at hv
    unfold interp at hv
    cases v <;> try cases hv
    · rename_i t
      refine G_kwType hA _ _ [.str t] rfl ?_
      intro x hx
      rw [List.mem_singleton.mp hx]
      exact ⟨t, rfl, typeNames_known d fc t (by simpa using hv)⟩
    · rename_i ts
      refine G_kwType hA _ _ ts rfl ?_
      intro x hx
      have h := List.all_eq_true.mp hv x hx
      try dsimp only at h
      cases x <;> try cases h
      rename_i t
      exact ⟨t, rfl, typeNames_known d fc t (by simpa using h)⟩
  case type_draft3 =>
    split at hb <;> try cases hb
    rename_i hd
    rw [← Option.some.inj hb] at hv
    unfold interp at hv
    cases v <;> try cases hv
    · rename_i t
      refine G_kwTypeDraft3 hA hrec hd _ _ [.str t] rfl ?_
      intro x hx
      rw [List.mem_singleton.mp hx]
      exact .inl ⟨t, rfl⟩
    · rename_i ts
      refine G_kwTypeDraft3 hA hrec hd _ _ ts rfl ?_
      intro x hx
      have h := List.all_eq_true.mp hv x hx
      try dsimp only at h
      have hr : Reach kvs x := re _ hx
      cases x <;> try cases h
      · exact .inl ⟨_, rfl⟩
      · exact .inr ⟨rfl, mkT _ h hr⟩
  case disallow_draft3 =>
    split at hb <;> try cases hb
    rename_i hd
    subst hd
    have hk := table_disallow .d3 _ hmem rfl
    dsimp only at hk
    subst hk
    rw [← Option.some.inj hb] at hv
    unfold interp at hv
    cases v <;> try cases hv
    · rename_i t
      refine G_kwDisallowDraft3 hA hrec _ _ [.str t] rfl ?_
      intro x hx
      rw [List.mem_singleton.mp hx]
      exact ⟨⟨1, synth_good (.inl ⟨t, rfl⟩)⟩, .syn hkv (.inl rfl)⟩
    · rename_i ts
      refine G_kwDisallowDraft3 hA hrec _ _ ts rfl ?_
      intro x hx
      have h := List.all_eq_true.mp hv x hx
      try dsimp only at h
      refine ⟨⟨n + 1, synth_good ?_⟩, .syn hkv (.inr hx)⟩
      cases x <;> try cases h
      · exact .inl ⟨_, rfl⟩
      · exact .inr ⟨rfl, h⟩
  case extends_draft3 =>
    rw [← Option.some.inj hb] at hv
    unfold interp at hv
    apply G_kwExtendsDraft3 hA hrec
    · intro ho
      cases v <;> try cases ho
      exact mkT _ hv rv
    · intro ho
      cases v <;> try cases ho
      all_goals try cases hv
      rename_i ss
      refine ⟨ss, rfl, ?_⟩
      intro t ht
      have h := List.all_eq_true.mp hv t ht
      rw [Bool.and_eq_true] at h
      exact mkT _ h.2 (re _ ht)
  case properties =>
    rw [← Option.some.inj hb] at hv
    unfold interp at hv
    cases v <;> try cases hv
    rename_i ps
    apply G_kwProperties hA hrec
    intro p hp
    have h := List.all_eq_true.mp hv p hp
    rw [Bool.and_eq_true] at h
    exact mkT _ h.2 (re _ (List.mem_map_of_mem hp))
  case patternProperties =>
    rw [← Option.some.inj hb] at hv
    unfold interp at hv
    cases v <;> try cases hv
    rename_i ps
    apply G_kwPatternProperties hA hrec
    intro p hp
    have h := List.all_eq_true.mp hv p hp
    rw [Bool.and_eq_true] at h
    exact mkT _ h.2 (re _ (List.mem_map_of_mem hp))
  case properties_draft3 =>
    split at hb <;> try cases hb
    rename_i hd
    subst hd
    rw [← Option.some.inj hb] at hv
    unfold interp at hv
    cases v <;> try cases hv
    rename_i ps
    apply G_kwPropertiesDraft3 hA hrec
    intro p hp
    have h := List.all_eq_true.mp hv p hp
    rw [Bool.and_eq_true] at h
    exact ⟨by simpa using h.1, mkT _ h.2 (re _ (List.mem_map_of_mem hp))⟩
  case required =>
    rw [← Option.some.inj hb] at hv
    unfold interp at hv
    cases v <;> try cases hv
    exact G_kwRequired hA _ _ (all_isStrJ hv)
  case allOf =>
    rw [← Option.some.inj hb] at hv
    unfold interp at hv
    cases v <;> try cases hv
    rw [Bool.and_eq_true] at hv
    exact G_kwAllOf hA hrec _ _ fun t ht => mkT _ (List.all_eq_true.mp hv.2 t ht) (re _ ht)
  case anyOf =>
    rw [← Option.some.inj hb] at hv
    unfold interp at hv
    cases v <;> try cases hv
    rw [Bool.and_eq_true] at hv
    exact G_kwAnyOf hA hrec _ _ fun t ht => mkT _ (List.all_eq_true.mp hv.2 t ht) (re _ ht)
  case oneOf =>
    rw [← Option.some.inj hb] at hv
    unfold interp at hv
    cases v <;> try cases hv
    rw [Bool.and_eq_true] at hv
    exact G_kwOneOf hA hrec _ _ fun t ht => mkT _ (List.all_eq_true.mp hv.2 t ht) (re _ ht)
  case items =>
    split at hb <;> try cases hb
    rename_i hd
    rw [← Option.some.inj hb] at hv
    unfold interp at hv
    apply G_kwItems hA hrec
    · intro ss hss
      subst hss
      exact fun t ht => mkT _ (List.all_eq_true.mp hv t ht) (re _ ht)
    · intro ha
      cases v <;> try cases ha
      all_goals try cases hv
      · exact ⟨good_bool _ hv, rv⟩
      · exact mkT _ hv rv
  case items_draft3_draft4 =>
    split at hb <;> try cases hb
    rename_i hd
    rw [← Option.some.inj hb] at hv
    unfold interp at hv
    apply G_kwItemsDraft3Draft4 hA hrec
    · intro ho
      cases v <;> try cases ho
      exact mkT _ hv rv
    · intro ho
      cases v <;> try cases ho
      all_goals try cases hv
      · rcases hd with rfl | rfl <;> cases hv
      · rename_i ss
        exact ⟨ss, rfl, fun t ht => mkT _ (List.all_eq_true.mp hv t ht) (re _ ht)⟩
  case alwaysFail => cases hb
  case never => cases hb
  case foreign => cases hb

end Apply

/-! ### one layer of `iter_errors` on a shaped schema -/

section Step
variable {env : Env} {d : Draft} {fc : Option FormatChecker} {A : Stop → Prop}
  (hA : Stops env d fc.isSome A)
include hA

theorem scopeOf_ok (kvs : List (Str × Json))
    (h : (match lookupJ (if (d = Draft.d6 || d = Draft.d7) = true then "$id" else "id") kvs with
          | some v => isStrJ v
          | none => true) = true) : ∃ scope, scopeOf (d.cfg fc) kvs = .ok scope := by
  unfold scopeOf
  split
  · exact ⟨_, rfl⟩
  rw [idKey_eq]
  unfold lookupJ at h
  cases hl : Json.lookup (ks (if (d = Draft.d6 || d = Draft.d7) = true then "$id" else "id")) kvs with
  | none => exact ⟨_, rfl⟩
  | some j =>
    rw [hl] at h
    obtain ⟨s, rfl⟩ := isStrJ_str h
    exact ⟨_, rfl⟩

theorem evalStep_good (impl : FmtImpl) (refs : Bool) (n : Nat) (rec : Rec) (i s : Json)
    (hs : shapedN refs d (n + 1) s = true)
    (hrec : ∀ kvs, s = .obj kvs → ∀ i t, Good refs d t ∧ Reach kvs t → SI A (rec i t))
    (href : refs = true → ∀ i t, SI A (rec i t)) :
    SI A (evalStep env impl (d.cfg fc) rec i s) := by
  cases s with
  | bool b =>
    cases b
    · exact SI_emit hA _
    · exact SI_nothing hA
  | obj kvs =>
    rw [shapedN_obj, Bool.and_eq_true] at hs
    obtain ⟨hid, hbody⟩ := hs
    obtain ⟨scope, hscope⟩ := scopeOf_ok hA kvs hid
    unfold evalStep
    dsimp only
    rw [hscope]
    dsimp only
    apply SI_withScopeOpt hA
    unfold schemaBody
    unfold lookupJ at hbody
    cases hl : Json.lookup (skey "$ref") kvs with
    | some r =>
      rw [show ks "$ref" = skey "$ref" from rfl, hl] at hbody
      dsimp only at hbody
      rw [Bool.and_eq_true] at hbody
      obtain ⟨s, rfl⟩ := isStrJ_str hbody.2
      dsimp only
      unfold runKeyword
      dsimp only
      rw [ref_bound]
      dsimp only
      apply SI_mapErrs
      unfold applyKw
      exact G_kwRef hA (href hbody.1) _ _
    | none =>
      rw [show ks "$ref" = skey "$ref" from rfl, hl] at hbody
      dsimp only at hbody
      have hall := List.all_eq_true.mp hbody
      dsimp only
      apply SI_seqG hA
      intro kv hkv
      unfold runKeyword
      split
      · exact SI_nothing hA
      · rename_i f hf
        apply SI_mapErrs
        exact applyKw_good hA (hrec kvs rfl) hall impl hl kv.1 kv.2 hkv f hf i
  | null => cases hs
  | num x => cases hs
  | str x => cases hs
  | arr x => cases hs

end Step

end Assembly

section Fuel
open Spec

/-! ### sizes of reachable schemas -/

theorem size_mem_kvs {k : Str} {v : Json} : ∀ {kvs : List (Str × Json)}, (k, v) ∈ kvs →
    1 + v.size ≤ Json.size.sizeKvs kvs
  | [], h => by cases h
  | (k', v') :: rest, h => by
    unfold Json.size.sizeKvs
    rcases List.mem_cons.mp h with h1 | h1
    · cases h1; omega
    · have := size_mem_kvs h1; omega

theorem size_mem_list {t : Json} : ∀ {xs : List Json}, t ∈ xs → t.size ≤ Json.size.sizeList xs
  | [], h => by cases h
  | x :: xs, h => by
    unfold Json.size.sizeList
    rcases List.mem_cons.mp h with h1 | h1
    · cases h1; omega
    · have := size_mem_list h1; omega

theorem size_val {k : Str} {v : Json} {kvs : List (Str × Json)} (h : (k, v) ∈ kvs) :
    v.size + 2 ≤ (Json.obj kvs).size := by
  have := size_mem_kvs h
  show v.size + 2 ≤ 1 + Json.size.sizeKvs kvs
  omega

theorem size_elem {v t : Json} (h : t ∈ elems v) : t.size + 1 ≤ v.size := by
  cases v with
  | arr xs =>
    have := size_mem_list (show t ∈ xs from h)
    show t.size + 1 ≤ 1 + Json.size.sizeList xs
    omega
  | obj kvs =>
    obtain ⟨p, hp, rfl⟩ := List.mem_map.mp (show t ∈ kvs.map (·.2) from h)
    have := size_mem_kvs (show (p.1, p.2) ∈ kvs from hp)
    show p.2.size + 1 ≤ 1 + Json.size.sizeKvs kvs
    omega
  | null => cases h
  | bool _ => cases h
  | num _ => cases h
  | str _ => cases h

theorem size_synth (x : Json) : (synth x).size = x.size + 3 := by
  simp only [synth, Json.size, Json.size.sizeKvs, Json.size.sizeList]
  omega

/-! ### reference-free shaped schemas, every fuel -/

section Top
variable {env : Env} {d : Draft} {fc : Option FormatChecker} {A : Stop → Prop}

theorem eval_good_reffree (hA : Stops env d fc.isSome A) (hfuel : A .fuel) (impl : FmtImpl) :
    ∀ (n : Nat) (i s : Json), Good false d s → SI A (eval env impl (d.cfg fc) n i s) := by
  intro n
  induction n with
  | zero => intro i s _ b st; exact hfuel
  | succ n ih =>
    intro i s ⟨m, hm⟩
    cases m with
    | zero => unfold shapedN at hm; cases hm
    | succ m =>
      exact evalStep_good hA impl false m _ i s hm (fun kvs _ i t ht => ih i t ht.1) (fun h => nomatch h)

/-- stops other than running out of fuel -/
theorem stops_noFuel (env : Env) (d : Draft) (fcOn : Bool) : Stops env d fcOn (· ≠ .fuel) where
  done := nofun
  budget := nofun
  miss := fun _ => nofun
  refRes := nofun
  unknownType := fun _ _ => nofun
  custom := fun _ _ => nofun
  reErr := fun _ _ _ => nofun
  keyErr := .inr nofun

theorem eval_terminates (impl : FmtImpl) :
    ∀ (n : Nat) (s : Json), Good false d s → 2 * s.size + 2 ≤ n →
      ∀ i, SI (· ≠ .fuel) (eval env impl (d.cfg fc) n i s) := by
  intro n
  induction n using Nat.strong_induction_on with
  | _ n ih =>
    intro s ⟨m, hm⟩ hn i
    have hA := stops_noFuel env d fc.isSome
    cases n with
    | zero => omega
    | succ n' =>
      cases m with
      | zero => unfold shapedN at hm; cases hm
      | succ m =>
        refine evalStep_good hA impl false m _ i s hm ?_ (fun h => nomatch h)
        intro kvs hkvs i' t ⟨ht, hreach⟩
        subst hkvs
        cases hreach with
        | val hmem =>
          have := size_val hmem
          exact ih n' (Nat.lt_succ_self _) t ht (by omega) i'
        | elem hmem hel =>
          have := size_val hmem
          have := size_elem hel
          exact ih n' (Nat.lt_succ_self _) t ht (by omega) i'
        | @syn v x hmem hx =>
          have hxs : x.size + 2 ≤ (Json.obj kvs).size := by
            have := size_val hmem
            rcases hx with rfl | hx
            · exact this
            · have := size_elem hx; omega
          obtain ⟨m2, hm2⟩ := ht
          cases n' with
          | zero => omega
          | succ n'' =>
            cases m2 with
            | zero => unfold shapedN at hm2; cases hm2
            | succ m2 =>
              refine evalStep_good hA impl false m2 _ i' _ hm2 ?_ (fun h => nomatch h)
              intro kvs2 hkvs2 i2 t2 ⟨ht2, hreach2⟩
              have hsz := size_synth x
              rw [hkvs2] at hsz
              cases hreach2 with
              | val hmem2 =>
                have := size_val hmem2
                exact ih n'' (by omega) t2 ht2 (by omega) i2
              | elem hmem2 hel2 =>
                have := size_val hmem2
                have := size_elem hel2
                exact ih n'' (by omega) t2 ht2 (by omega) i2
              | syn hmem2 _ =>
                exfalso
                unfold synth at hkvs2
                cases hkvs2
                rcases List.mem_singleton.mp hmem2 with h
                have : ks "disallow" = skey "type" := (Prod.mk.inj h).1
                revert this
                decide +kernel

end Top
end Fuel

/-! ### why the set-iteration oracle must answer with elements of the set

`additionalProperties` iterates over `set(extras)` in the order given by the oracle `env.setOrder` and
looks each key up in the instance (`instance[extra]`).  With an oracle that answers with a key that is
not in the set, the model stops with `KeyError` on the shaped, reference-free Draft 7 schema
`{"additionalProperties": {}}` and the instance `{"a": null}` — although every regular expression
compiles.  Hence the hypothesis `Spec.SetOrderOk` (used through `SetOrderMem`) of the C03 theorems. -/
namespace SetOrderCex
def env : Env :=
  ⟨fun _ _ => some (some false), fun _ _ => none, fun _ => none, fun _ => none, fun _ => none,
   fun _ => none, fun _ => some ["b".toList], fun _ _ => none, fun _ _ => none⟩
def impl : FmtImpl := ⟨fun _ _ => none⟩
def st : RState := ⟨[], [], [], none, false, 0, []⟩
def schema : Json := .obj [("additionalProperties".toList, .obj [])]
def inst : Json := .obj [("a".toList, .null)]

theorem regexOk : ∀ p s, env.reSearch p s ≠ some none := by intro p s h; cases h
theorem schema_shaped : Spec.shaped .d7 schema = true := by decide +kernel
theorem crashes :
    (match (eval env impl (Draft.d7.cfg none) 1 inst schema none st).stop with
     | .raised (.crash cls) => cls == "KeyError"
     | _ => false) = true := by decide +kernel
end SetOrderCex

end NoCrash
end JS
