/- Helper lemmas for C09 (numerics). May import single Mathlib modules. -/
import JS.Keywords
import JS.Spec.Numeric
namespace JS
end JS
