/- Helper lemmas for C09 (numerics). May import single Mathlib modules.

   Contents: dyadic arithmetic (`twoAdic`, `bitlen`), `exactDouble?` is sound and complete for
   `Spec.isDouble`, `roundInexact`/`roundToDouble` overflow, `Spec.val` against `Num.scaled`
   (comparisons, `exactMultiple`, `isIntegral`, `isZero`), `toDouble`/`fdiv` on the exact
   sub-domain, the number gate of the bound keywords and `multipleOfFailed`. -/
import JS.Keywords
import JS.Spec.Numeric
import Mathlib.Algebra.Order.Field.Rat
import Mathlib.Algebra.Order.Field.Power
import Mathlib.Tactic.Ring
import Mathlib.Tactic.Linarith
import Mathlib.Tactic.Positivity
import Mathlib.Tactic.FieldSimp
import Mathlib.Data.Nat.Prime.Basic
namespace JS

/-! ### powers of two, `twoAdic`, `bitlen` -/

theorem exists_odd_mul_two_pow (n : Nat) (hn : n ≠ 0) : ∃ m t, m % 2 = 1 ∧ n = m * 2 ^ t := by
  induction n using Nat.strong_induction_on with
  | _ n ih =>
    by_cases h : n % 2 = 1
    · exact ⟨n, 0, h, by simp⟩
    · obtain ⟨m, t, hm, ht⟩ := ih (n / 2) (by omega) (by omega)
      refine ⟨m, t + 1, hm, ?_⟩
      rw [Nat.pow_succ, ← Nat.mul_assoc, ← ht]; omega

theorem Num.twoAdic_eq (fuel : Nat) : ∀ (n m t : Nat), m % 2 = 1 → n = m * 2 ^ t → n ≤ fuel →
    Num.twoAdic fuel n = t := by
  induction fuel with
  | zero =>
    intro n m t hm hn hf
    have : n = 0 := by omega
    subst this
    have h2 : 0 < 2 ^ t := Nat.two_pow_pos t
    rcases Nat.mul_eq_zero.mp hn.symm with h | h <;> omega
  | succ fuel ih =>
    intro n m t hm hn hf
    cases t with
    | zero =>
      simp only [Nat.pow_zero, Nat.mul_one] at hn
      subst hn
      simp [Num.twoAdic, hm]
    | succ t =>
      have hn' : n = 2 * (m * 2 ^ t) := by rw [hn, Nat.pow_succ]; ring
      have hpos : 0 < m * 2 ^ t := Nat.mul_pos (by omega) (Nat.two_pow_pos t)
      have h1 : n ≠ 0 ∧ n % 2 = 0 := by omega
      have h2 : n / 2 = m * 2 ^ t := by omega
      rw [Num.twoAdic, if_pos h1, ih (n / 2) m t hm h2 (by omega)]

theorem Num.bitlen_le_iff (m b : Nat) : Num.bitlen m ≤ b ↔ m < 2 ^ b := by
  unfold Num.bitlen
  by_cases h : m = 0
  · subst h; simp
  · rw [if_neg h, Nat.succ_le_iff, Nat.log2_lt h]

theorem Num.lt_two_pow_bitlen (m : Nat) : m < 2 ^ Num.bitlen m :=
  (Num.bitlen_le_iff m _).mp (Nat.le_refl _)

theorem Num.two_pow_bitlen_le (m : Nat) (h : m ≠ 0) : 2 ^ (Num.bitlen m - 1) ≤ m := by
  unfold Num.bitlen
  rw [if_neg h, Nat.add_sub_cancel]
  exact Nat.log2_self_le h

/-! ### `exactDouble?` -/

/-- `exactDouble?` computed from the reduced fraction `n/d`, `n = m·2^t` with `m` odd -/
theorem Num.exactDouble?_reduced (num den g n d m t : Nat) (hg : 0 < g) (hnum : num = n * g)
    (hden : den = d * g) (hcop : Nat.Coprime n d) (hm : m % 2 = 1) (hn : n = m * 2 ^ t) :
    Num.exactDouble? num den =
      if d ≠ 2 ^ Num.twoAdic d d then none else
      if m < 2 ^ 53 ∧ -1074 ≤ (t : Int) - (Num.twoAdic d d : Int)
          ∧ (Num.bitlen m : Int) + ((t : Int) - (Num.twoAdic d d : Int)) ≤ 1024
      then some (m, (t : Int) - (Num.twoAdic d d : Int)) else none := by
  have hmpos : 0 < m := by omega
  have hnpos : 0 < n := by rw [hn]; exact Nat.mul_pos hmpos (Nat.two_pow_pos t)
  have hnum0 : num ≠ 0 := by rw [hnum]; exact Nat.ne_of_gt (Nat.mul_pos hnpos hg)
  have hgcd : Nat.gcd num den = g := by
    rw [hnum, hden, Nat.gcd_mul_right, hcop, Nat.one_mul]
  have hn' : num / g = n := by rw [hnum]; exact Nat.mul_div_cancel _ hg
  have hd' : den / g = d := by rw [hden]; exact Nat.mul_div_cancel _ hg
  have ht : Num.twoAdic n n = t := Num.twoAdic_eq n n m t hm hn (Nat.le_refl _)
  have hm' : n / 2 ^ t = m := by rw [hn]; exact Nat.mul_div_cancel _ (Nat.two_pow_pos t)
  unfold Num.exactDouble?
  simp only [if_neg hnum0, hgcd, hn', hd', ht, hm']

/-- a reduced fraction equal to an odd number times a power of two -/
theorem dyadic_coprime (n d m : Nat) (E : Int) (hd : 0 < d) (hcop : Nat.Coprime n d)
    (hm : m % 2 = 1) (h : (n : Rat) / (d : Rat) = (m : Rat) * (2 : Rat) ^ E) :
    ∃ j t : Nat, d = 2 ^ j ∧ n = m * 2 ^ t ∧ (t : Int) - (j : Int) = E := by
  have hd' : (d : Rat) ≠ 0 := by exact_mod_cast (Nat.ne_of_gt hd)
  rw [div_eq_iff hd'] at h
  by_cases hE : 0 ≤ E
  · obtain ⟨k, rfl⟩ := Int.eq_ofNat_of_zero_le hE
    rw [zpow_natCast] at h
    have h' : n = m * 2 ^ k * d := by exact_mod_cast h
    have hd1 : d = 1 := Nat.Coprime.eq_one_of_dvd hcop.symm ⟨m * 2 ^ k, by rw [h']; ring⟩
    refine ⟨0, k, by simpa using hd1, ?_, by simp⟩
    rw [h', hd1]; ring
  · obtain ⟨k, hk⟩ := Int.eq_ofNat_of_zero_le (show 0 ≤ -E by omega)
    have hE' : E = -(k : Int) := by omega
    rw [hE', zpow_neg, zpow_natCast] at h
    have h2 : (n : Rat) * 2 ^ k = m * d := by
      rw [h]; field_simp
    have h' : n * 2 ^ k = m * d := by exact_mod_cast h2
    have hdvd : d ∣ 2 ^ k := hcop.symm.dvd_of_dvd_mul_left ⟨m, by rw [h']; ring⟩
    obtain ⟨j, hjk, hj⟩ := (Nat.dvd_prime_pow Nat.prime_two).mp hdvd
    have hsplit : 2 ^ k = 2 ^ (k - j) * 2 ^ j := by rw [← Nat.pow_add]; congr 1; omega
    rw [hj, hsplit, ← Nat.mul_assoc] at h'
    have h3 : n * 2 ^ (k - j) = m := Nat.eq_of_mul_eq_mul_right (Nat.two_pow_pos j) h'
    have hkj : k - j = 0 := by
      by_contra hne
      obtain ⟨r, hr⟩ : ∃ r, k - j = r + 1 := ⟨k - j - 1, by omega⟩
      rw [hr, Nat.pow_succ] at h3
      have : m % 2 = 0 := by rw [← h3, ← Nat.mul_assoc]; simp
      omega
    rw [hkj] at h3
    refine ⟨j, 0, hj, by simpa using h3, ?_⟩
    have : j = k := by omega
    subst this; simp [hE']


theorem reduce_fraction (num den : Nat) (hden : 0 < den) :
    ∃ g n d, 0 < g ∧ 0 < d ∧ num = n * g ∧ den = d * g ∧ Nat.Coprime n d
      ∧ (num : Rat) / (den : Rat) = (n : Rat) / (d : Rat) := by
  have hg : 0 < Nat.gcd num den := Nat.gcd_pos_of_pos_right _ hden
  have h1 : num = num / Nat.gcd num den * Nat.gcd num den :=
    (Nat.div_mul_cancel (Nat.gcd_dvd_left _ _)).symm
  have h2 : den = den / Nat.gcd num den * Nat.gcd num den :=
    (Nat.div_mul_cancel (Nat.gcd_dvd_right _ _)).symm
  have hd : 0 < den / Nat.gcd num den := by
    rcases Nat.eq_zero_or_pos (den / Nat.gcd num den) with h | h
    · rw [h] at h2; omega
    · exact h
  refine ⟨Nat.gcd num den, num / Nat.gcd num den, den / Nat.gcd num den, hg, hd, h1, h2,
    Nat.coprime_div_gcd_div_gcd hg, ?_⟩
  have hg' : ((Nat.gcd num den : Nat) : Rat) ≠ 0 := by exact_mod_cast (Nat.ne_of_gt hg)
  have e1 : (num : Rat) = ((num / Nat.gcd num den : Nat) : Rat) * ((Nat.gcd num den : Nat) : Rat) := by
    exact_mod_cast h1
  have e2 : (den : Rat) = ((den / Nat.gcd num den : Nat) : Rat) * ((Nat.gcd num den : Nat) : Rat) := by
    exact_mod_cast h2
  conv_lhs => rw [e1, e2]
  rw [mul_div_mul_right _ _ hg']

theorem Num.exactDouble?_sound (num den m : Nat) (e : Int) (hden : 0 < den)
    (h : Num.exactDouble? num den = some (m, e)) :
    (num : Rat) / (den : Rat) = (m : Rat) * (2 : Rat) ^ e
      ∧ m < 2 ^ 53 ∧ -1074 ≤ e ∧ (Num.bitlen m : Int) + e ≤ 1024 := by
  by_cases hnum : num = 0
  · subst hnum
    simp only [Num.exactDouble?, if_true, Option.some.injEq, Prod.mk.injEq] at h
    obtain ⟨rfl, rfl⟩ := h
    simp [Num.bitlen]
  · obtain ⟨g, n, d, hg, hd, hn, hdn, hcop, hq⟩ := reduce_fraction num den hden
    have hn0 : n ≠ 0 := by rintro rfl; simp at hn; exact hnum hn
    obtain ⟨m0, t, hm0, hnt⟩ := exists_odd_mul_two_pow n hn0
    rw [Num.exactDouble?_reduced num den g n d m0 t hg hn hdn hcop hm0 hnt] at h
    split at h
    · cases h
    · rename_i hdj
      have hdj' : d = 2 ^ Num.twoAdic d d := by simpa using hdj
      split at h
      · rename_i hc
        simp only [Option.some.injEq, Prod.mk.injEq] at h
        obtain ⟨rfl, rfl⟩ := h
        refine ⟨?_, hc.1, hc.2.1, hc.2.2⟩
        rw [hq, hnt]
        conv_lhs => rw [hdj']
        rw [zpow_sub₀ (by norm_num), zpow_natCast, zpow_natCast]
        push_cast
        rw [mul_div_assoc]
      · cases h

theorem Num.exactDouble?_complete (num den m' : Nat) (e' : Int) (hden : 0 < den)
    (hm' : m' < 2 ^ 53) (he1 : -1074 ≤ e') (he2 : e' ≤ 971)
    (h : (num : Rat) / (den : Rat) = (m' : Rat) * (2 : Rat) ^ e') :
    ∃ m e, Num.exactDouble? num den = some (m, e) := by
  by_cases hnum : num = 0
  · subst hnum
    exact ⟨0, 0, by simp [Num.exactDouble?]⟩
  · obtain ⟨g, n, d, hg, hd, hn, hdn, hcop, hq⟩ := reduce_fraction num den hden
    have hn0 : n ≠ 0 := by rintro rfl; simp at hn; exact hnum hn
    have hm0 : m' ≠ 0 := by
      rintro rfl
      have hden' : (den : Rat) ≠ 0 := by exact_mod_cast (Nat.ne_of_gt hden)
      have hnum' : (num : Rat) ≠ 0 := by exact_mod_cast hnum
      simp only [Nat.cast_zero, zero_mul] at h
      exact (div_ne_zero hnum' hden') h
    obtain ⟨m, s, hm, hms⟩ := exists_odd_mul_two_pow m' hm0
    have hq' : (n : Rat) / (d : Rat) = (m : Rat) * (2 : Rat) ^ ((s : Int) + e') := by
      rw [← hq, h, hms, zpow_add₀ (by norm_num), zpow_natCast]; push_cast; ring
    obtain ⟨j, t, hdj, hnt, hE⟩ := dyadic_coprime n d m _ hd hcop hm hq'
    have hj : Num.twoAdic d d = j :=
      Num.twoAdic_eq d d 1 j (by norm_num) (by rw [hdj]; simp) (Nat.le_refl _)
    have hmlt : m < 2 ^ 53 := by
      have : m ≤ m' := by rw [hms]; exact Nat.le_mul_of_pos_right _ (Nat.two_pow_pos s)
      omega
    have hs : s ≤ 53 := by
      by_contra hs
      have h1 : 2 ^ 53 < 2 ^ s := Nat.pow_lt_pow_right (by norm_num) (by omega)
      have h2 : 2 ^ s ≤ m' := by rw [hms]; exact Nat.le_mul_of_pos_left _ (by omega)
      omega
    have hbl : Num.bitlen m ≤ 53 - s := by
      rw [Num.bitlen_le_iff]
      have h53 : 2 ^ 53 = 2 ^ (53 - s) * 2 ^ s := by rw [← Nat.pow_add]; congr 1; omega
      rw [hms, h53] at hm'
      exact Nat.lt_of_mul_lt_mul_right hm'
    rw [Num.exactDouble?_reduced num den g n d m t hg hn hdn hcop hm hnt, hj, if_neg (by simp [hdj]),
      if_pos ⟨hmlt, by omega, by omega⟩]
    exact ⟨_, _, rfl⟩


/-! ### overflow of `roundInexact` -/

theorem Num.bitlen_gap (num den k : Nat) (hden : 0 < den) (h : den * 2 ^ k ≤ num) :
    Num.bitlen den - 1 + k < Num.bitlen num ∧ 1 ≤ Num.bitlen den := by
  have hbn := Num.lt_two_pow_bitlen num
  have hbd := Num.two_pow_bitlen_le den (Nat.ne_of_gt hden)
  have hbd1 : 1 ≤ Num.bitlen den := by
    by_contra hc
    have : Num.bitlen den ≤ 0 := by omega
    rw [Num.bitlen_le_iff] at this
    omega
  have h1 : 2 ^ (Num.bitlen den - 1) * 2 ^ k ≤ den * 2 ^ k := Nat.mul_le_mul_right _ hbd
  have hlt : 2 ^ (Num.bitlen den - 1 + k) < 2 ^ Num.bitlen num := by
    rw [Nat.pow_add]; exact Nat.lt_of_le_of_lt (Nat.le_trans h1 h) hbn
  exact ⟨(Nat.pow_lt_pow_iff_right (by norm_num)).mp hlt, hbd1⟩

theorem two_pow_mul_mul (den a b : Nat) : 2 ^ a * (den * 2 ^ b) = den * 2 ^ (a + b) := by
  rw [Nat.pow_add]; ring

set_option exponentiation.threshold 2048 in
theorem Num.roundInexact_overflow (num den : Nat) (hden : 0 < den) (h : den * 2 ^ 1024 ≤ num) :
    Num.roundInexact num den = none := by
  obtain ⟨hbits, hbd1⟩ := Num.bitlen_gap num den 1024 hden h
  unfold Num.roundInexact
  extract_lets e0 quo e1 e2
  have he0 : 971 ≤ e0 := by simp only [e0]; omega
  have he1 : 972 ≤ e1 := by
    by_cases h972 : 972 ≤ e0
    · simp only [e1]; split <;> omega
    · have h971 : e0 = 971 := by omega
      have hq : (quo e0).1 ≥ 2 ^ 53 := by
        simp only [quo, h971]
        rw [if_neg (by norm_num)]
        dsimp only
        rw [show (971 : Int).toNat = 971 from rfl, ge_iff_le, Nat.le_div_iff_mul_le (by positivity)]
        rw [two_pow_mul_mul den 53 971]; exact h
      simp only [e1]; rw [if_pos hq]; omega
  have he2 : 972 ≤ e2 := by simp only [e2]; omega
  clear_value e2
  generalize quo e2 = x
  obtain ⟨q, r, d⟩ := x
  dsimp only
  split_ifs <;> first | rfl | (rename_i hc; dsimp only at hc; omega)


/-! ### `Spec.isDouble` -/

theorem Spec.isDouble_neg (q : Rat) (h : Spec.isDouble q) : Spec.isDouble (-q) := by
  obtain ⟨m, e, hm, he1, he2, h | h⟩ := h
  · exact ⟨m, e, hm, he1, he2, Or.inr (by rw [h])⟩
  · exact ⟨m, e, hm, he1, he2, Or.inl (by rw [h, neg_neg])⟩

theorem Spec.isDouble_abs (q : Rat) (h : Spec.isDouble q) : Spec.isDouble |q| := by
  rcases abs_choice q with h' | h' <;> rw [h']
  · exact h
  · exact Spec.isDouble_neg q h

theorem Spec.isDouble_nonneg (q : Rat) (hq : 0 ≤ q) (h : Spec.isDouble q) :
    ∃ (m : Nat) (e : Int), m < 2 ^ 53 ∧ -1074 ≤ e ∧ e ≤ 971 ∧ q = (m : Rat) * (2 : Rat) ^ e := by
  obtain ⟨m, e, hm, he1, he2, h | h⟩ := h
  · exact ⟨m, e, hm, he1, he2, h⟩
  · refine ⟨m, e, hm, he1, he2, ?_⟩
    have hpos : (0 : Rat) ≤ (m : Rat) * (2 : Rat) ^ e := by positivity
    have : (m : Rat) * (2 : Rat) ^ e = 0 := by linarith
    rw [h, this, neg_zero]

theorem Spec.isDouble_of_bounds (m : Nat) (e : Int) (hm : m < 2 ^ 53) (he : -1074 ≤ e)
    (hb : (Num.bitlen m : Int) + e ≤ 1024) : Spec.isDouble ((m : Rat) * (2 : Rat) ^ e) := by
  by_cases h971 : e ≤ 971
  · exact ⟨m, e, hm, he, h971, Or.inl rfl⟩
  · obtain ⟨k, hk⟩ := Int.eq_ofNat_of_zero_le (show 0 ≤ e - 971 by omega)
    have hbl : Num.bitlen m ≤ 53 - k := by omega
    have hk53 : k ≤ 53 := by omega
    rw [Num.bitlen_le_iff] at hbl
    refine ⟨m * 2 ^ k, 971, ?_, by norm_num, le_refl _, Or.inl ?_⟩
    · have h53 : 2 ^ 53 = 2 ^ (53 - k) * 2 ^ k := by rw [← Nat.pow_add]; congr 1; omega
      rw [h53]
      exact Nat.mul_lt_mul_of_pos_right hbl (Nat.two_pow_pos k)
    · have he' : e = (k : Int) + 971 := by omega
      rw [he', zpow_add₀ (by norm_num), zpow_natCast, Nat.cast_mul, Nat.cast_pow, Nat.cast_ofNat,
        mul_assoc]

theorem Num.exactDouble?_iff (num den : Nat) (hden : 0 < den) :
    (∃ m e, Num.exactDouble? num den = some (m, e)
        ∧ (num : Rat) / (den : Rat) = (m : Rat) * (2 : Rat) ^ e)
      ↔ Spec.isDouble ((num : Rat) / (den : Rat)) := by
  constructor
  · rintro ⟨m, e, h, heq⟩
    obtain ⟨_, hm, he, hb⟩ := Num.exactDouble?_sound num den m e hden h
    rw [heq]
    exact Spec.isDouble_of_bounds m e hm he hb
  · intro h
    obtain ⟨m', e', hm', he1, he2, heq⟩ := Spec.isDouble_nonneg _ (by positivity) h
    obtain ⟨m, e, hme⟩ := Num.exactDouble?_complete num den m' e' hden hm' he1 he2 heq
    exact ⟨m, e, hme, (Num.exactDouble?_sound num den m e hden hme).1⟩

theorem Num.roundToDouble_exact (num den : Nat) (hden : 0 < den)
    (h : Spec.isDouble ((num : Rat) / (den : Rat))) :
    ∃ m e, Num.roundToDouble num den = some (m, e)
      ∧ (num : Rat) / (den : Rat) = (m : Rat) * (2 : Rat) ^ e := by
  obtain ⟨m, e, hme, heq⟩ := (Num.exactDouble?_iff num den hden).mpr h
  exact ⟨m, e, by simp [Num.roundToDouble, hme], heq⟩


/-! ### `roundToDouble` -/

theorem Num.exactDouble?_lt (num den m : Nat) (e : Int) (hden : 0 < den)
    (h : Num.exactDouble? num den = some (m, e)) :
    (num : Rat) / (den : Rat) < (2 : Rat) ^ (1024 : Nat) := by
  obtain ⟨heq, _, _, hb⟩ := Num.exactDouble?_sound num den m e hden h
  have h1 : (m : Rat) < (2 : Rat) ^ (Num.bitlen m : Int) := by
    rw [zpow_natCast]; exact_mod_cast Num.lt_two_pow_bitlen m
  have h2 : (m : Rat) * (2 : Rat) ^ e < (2 : Rat) ^ (Num.bitlen m : Int) * (2 : Rat) ^ e :=
    mul_lt_mul_of_pos_right h1 (by positivity)
  rw [← zpow_add₀ (by norm_num)] at h2
  have h3 : (2 : Rat) ^ ((Num.bitlen m : Int) + e) ≤ (2 : Rat) ^ ((1024 : Nat) : Int) :=
    zpow_le_zpow_right₀ (by norm_num) (by exact_mod_cast hb)
  rw [zpow_natCast] at h3
  rw [heq]
  exact lt_of_lt_of_le h2 h3

theorem Num.roundToDouble_overflow (num den : Nat) (hden : 0 < den)
    (h : (2 : Rat) ^ (1024 : Nat) ≤ (num : Rat) / (den : Rat)) :
    Num.roundToDouble num den = none := by
  have hden' : (0 : Rat) < (den : Rat) := by exact_mod_cast hden
  have hnat : den * 2 ^ 1024 ≤ num := by
    rw [le_div_iff₀ hden'] at h
    have : ((den * 2 ^ 1024 : Nat) : Rat) ≤ (num : Rat) := by
      rw [Nat.cast_mul, Nat.cast_pow, Nat.cast_ofNat, mul_comm]; exact h
    exact_mod_cast this
  unfold Num.roundToDouble
  cases hx : Num.exactDouble? num den with
  | none => exact Num.roundInexact_overflow num den hden hnat
  | some r =>
    obtain ⟨m, e⟩ := r
    exact absurd (Num.exactDouble?_lt num den m e hden hx) (not_lt.mpr h)

/-! ### `Spec.val` against the scaled integers -/

theorem Spec.val_eq_sm (a : Num) : Spec.val a = (a.sm : Rat) * (2 : Rat) ^ a.ex := by
  cases a with
  | int v => simp [Spec.val, Num.sm, Num.ex]
  | flt neg m e => cases neg <;> simp [Spec.val, Num.sm, Num.ex]

theorem Spec.val_eq_scaled (a : Num) (e0 : Int) (h : e0 ≤ a.ex) :
    Spec.val a = (a.scaled e0 : Rat) * (2 : Rat) ^ e0 := by
  rw [Spec.val_eq_sm, Num.scaled]
  have h2 : a.ex = ((a.ex - e0).toNat : Int) + e0 := by omega
  conv_lhs => rw [h2]
  rw [zpow_add₀ (by norm_num), zpow_natCast]
  push_cast
  ring

theorem two_zpow_pos (e : Int) : (0 : Rat) < (2 : Rat) ^ e := by positivity

theorem Num.lt_iff (a b : Num) : Num.lt a b = true ↔ Spec.val a < Spec.val b := by
  have ha := Spec.val_eq_scaled a (min a.ex b.ex) (min_le_left _ _)
  have hb := Spec.val_eq_scaled b (min a.ex b.ex) (min_le_right _ _)
  rw [ha, hb, Num.lt, decide_eq_true_eq, mul_lt_mul_iff_left₀ (two_zpow_pos _), Int.cast_lt]

theorem Num.le_iff (a b : Num) : Num.le a b = true ↔ Spec.val a ≤ Spec.val b := by
  have ha := Spec.val_eq_scaled a (min a.ex b.ex) (min_le_left _ _)
  have hb := Spec.val_eq_scaled b (min a.ex b.ex) (min_le_right _ _)
  rw [ha, hb, Num.le, decide_eq_true_eq, mul_le_mul_iff_left₀ (two_zpow_pos _), Int.cast_le]

theorem Num.eq_iff (a b : Num) : Num.eq a b = true ↔ Spec.val a = Spec.val b := by
  have ha := Spec.val_eq_scaled a (min a.ex b.ex) (min_le_left _ _)
  have hb := Spec.val_eq_scaled b (min a.ex b.ex) (min_le_right _ _)
  rw [ha, hb, Num.eq, decide_eq_true_eq, mul_left_inj' (ne_of_gt (two_zpow_pos _)), Int.cast_inj]

theorem multipleOfFailed_int (i d : Int) (hd : d ≠ 0) :
    multipleOfFailed (.int i) (.int d) = .ok (decide (¬ d ∣ i)) := by
  simp [multipleOfFailed, hd, Int.dvd_iff_fmod_eq_zero]

theorem multipleOfFailed_ok (i d : Num) (hd : d.isZero = false) :
    ∃ failed, multipleOfFailed i d = .ok failed := by
  cases d with
  | int dv =>
    have hdv : dv ≠ 0 := by
      simp only [Num.isZero, Num.sm] at hd; exact of_decide_eq_false hd
    cases i with
    | int iv => simp only [multipleOfFailed, hdv, if_false]; exact ⟨_, rfl⟩
    | flt n m e =>
      simp only [multipleOfFailed, hdv, if_false]
      cases Num.intToDouble dv <;> exact ⟨_, rfl⟩
  | flt n m e =>
    simp only [multipleOfFailed, hd]
    cases i.toDouble with
    | none => exact ⟨_, rfl⟩
    | some fi =>
      dsimp only
      cases Num.fdiv fi (.flt n m e) <;> exact ⟨_, rfl⟩

theorem Num.isZero_iff (a : Num) : a.isZero = true ↔ Spec.val a = 0 := by
  rw [Spec.val_eq_sm, Num.isZero, decide_eq_true_eq]
  have := two_zpow_pos a.ex
  constructor
  · intro h; simp [h]
  · intro h
    rcases mul_eq_zero.mp h with h | h
    · exact_mod_cast h
    · exact absurd h (ne_of_gt this)

theorem Num.isZero_false_iff (a : Num) : a.isZero = false ↔ Spec.val a ≠ 0 := by
  rw [Ne, ← Num.isZero_iff]; cases a.isZero <;> simp

/-- a quotient of integers is an integer iff the denominator divides the numerator -/
theorem isInt_div_iff (p q : Int) (hq : q ≠ 0) :
    Spec.isInt ((p : Rat) / (q : Rat)) ↔ q ∣ p := by
  have hq' : (q : Rat) ≠ 0 := by exact_mod_cast hq
  constructor
  · rintro ⟨n, hn⟩
    refine ⟨n, ?_⟩
    rw [div_eq_iff hq'] at hn
    have : (p : Rat) = ((q * n : Int) : Rat) := by rw [hn]; push_cast; ring
    exact_mod_cast this
  · rintro ⟨n, rfl⟩
    exact ⟨n, by push_cast; field_simp⟩

theorem Num.exactMultiple_iff (a b : Num) (hb : b.isZero = false) :
    Num.exactMultiple a b = true ↔ Spec.isInt (Spec.val a / Spec.val b) := by
  have ha' := Spec.val_eq_scaled a (min a.ex b.ex) (min_le_left _ _)
  have hb' := Spec.val_eq_scaled b (min a.ex b.ex) (min_le_right _ _)
  have hbz := (Num.isZero_false_iff b).mp hb
  have hpos := two_zpow_pos (min a.ex b.ex)
  have hsb : b.scaled (min a.ex b.ex) ≠ 0 := by
    intro h; apply hbz; rw [hb', h]; simp
  have hq : Spec.val a / Spec.val b
      = (a.scaled (min a.ex b.ex) : Rat) / (b.scaled (min a.ex b.ex) : Rat) := by
    rw [ha', hb']
    rw [mul_div_mul_right _ _ (ne_of_gt hpos)]
  rw [hq, isInt_div_iff _ _ hsb, Num.exactMultiple]
  simp only [decide_eq_true_eq]
  exact (Int.dvd_iff_emod_eq_zero ..).symm


/-! ### conversions and float division on the exact sub-domain -/

theorem Num.intToDouble_exact (v : Int) (h : Spec.isDouble (v : Rat)) :
    ∃ m e, Num.intToDouble v = some (.flt (decide (v < 0)) m e)
      ∧ Spec.val (.flt (decide (v < 0)) m e) = (v : Rat) := by
  have habs : ((v.natAbs : Nat) : Rat) / ((1 : Nat) : Rat) = |(v : Rat)| := by
    rw [Nat.cast_one, div_one, Nat.cast_natAbs, Int.cast_abs]
  have h' : Spec.isDouble (((v.natAbs : Nat) : Rat) / ((1 : Nat) : Rat)) := by
    rw [habs]; exact Spec.isDouble_abs _ h
  obtain ⟨m, e, hr, heq⟩ := Num.roundToDouble_exact v.natAbs 1 Nat.one_pos h'
  refine ⟨m, e, by simp [Num.intToDouble, hr], ?_⟩
  rw [habs] at heq
  unfold Spec.val
  by_cases hv : v < 0
  · have hv' : (v : Rat) < 0 := by exact_mod_cast hv
    rw [abs_of_neg hv'] at heq
    simp only [hv, decide_true, if_true]
    rw [mul_assoc, ← heq]; ring
  · have hv' : (0 : Rat) ≤ (v : Rat) := by exact_mod_cast (not_lt.mp hv)
    rw [abs_of_nonneg hv'] at heq
    simp only [hv, decide_false, Bool.false_eq_true, if_false]
    rw [mul_assoc, ← heq]; ring

theorem Num.toDouble_exact (i : Num) (h : Spec.isDouble (Spec.val i)) :
    ∃ na ma ea, i.toDouble = some (.flt na ma ea) ∧ Spec.val (.flt na ma ea) = Spec.val i := by
  cases i with
  | int v =>
    obtain ⟨m, e, h1, h2⟩ := Num.intToDouble_exact v h
    exact ⟨_, m, e, h1, h2⟩
  | flt n m e => exact ⟨n, m, e, rfl, rfl⟩

/-- numerator and denominator handed to `roundToDouble` by `fdiv` -/
def Num.fnum (ma : Nat) (ea eb : Int) : Nat := if 0 ≤ ea - eb then ma * 2 ^ (ea - eb).toNat else ma
def Num.fden (mb : Nat) (ea eb : Int) : Nat := if 0 ≤ ea - eb then mb else mb * 2 ^ (-(ea - eb)).toNat

theorem Num.fdiv_eq (na nb : Bool) (ma mb : Nat) (ea eb : Int) :
    Num.fdiv (.flt na ma ea) (.flt nb mb eb) =
      match Num.roundToDouble (Num.fnum ma ea eb) (Num.fden mb ea eb) with
      | none => .inf
      | some (m, e) => .fin (.flt (na != nb) m e) := rfl

theorem Num.fden_pos (mb : Nat) (ea eb : Int) (hmb : mb ≠ 0) : 0 < Num.fden mb ea eb := by
  unfold Num.fden
  split
  · omega
  · exact Nat.mul_pos (by omega) (Nat.two_pow_pos _)

theorem Num.fnum_div_fden (ma mb : Nat) (ea eb : Int) (hmb : mb ≠ 0) :
    (Num.fnum ma ea eb : Rat) / (Num.fden mb ea eb : Rat)
      = ((ma : Rat) * (2 : Rat) ^ ea) / ((mb : Rat) * (2 : Rat) ^ eb) := by
  have hmb' : (mb : Rat) ≠ 0 := by exact_mod_cast hmb
  have h2 : ∀ x : Int, (2 : Rat) ^ x ≠ 0 := fun x => ne_of_gt (two_zpow_pos x)
  unfold Num.fnum Num.fden
  by_cases hd : 0 ≤ ea - eb
  · rw [if_pos hd, if_pos hd]
    have hea : ea = ((ea - eb).toNat : Int) + eb := by omega
    conv_rhs => rw [hea, zpow_add₀ (by norm_num), zpow_natCast]
    push_cast
    have := h2 eb
    field_simp
  · rw [if_neg hd, if_neg hd]
    have heb : eb = ((-(ea - eb)).toNat : Int) + ea := by omega
    conv_rhs => rw [heb, zpow_add₀ (by norm_num), zpow_natCast]
    push_cast
    have := h2 ea
    field_simp

theorem Spec.val_flt_div (na nb : Bool) (ma mb : Nat) (ea eb : Int) :
    Spec.val (.flt na ma ea) / Spec.val (.flt nb mb eb)
      = (if (na != nb) = true then -1 else 1)
          * (((ma : Rat) * (2 : Rat) ^ ea) / ((mb : Rat) * (2 : Rat) ^ eb)) := by
  cases na <;> cases nb <;> simp [Spec.val] <;> ring

theorem Spec.abs_val_flt_div (na nb : Bool) (ma mb : Nat) (ea eb : Int) :
    |Spec.val (.flt na ma ea) / Spec.val (.flt nb mb eb)|
      = ((ma : Rat) * (2 : Rat) ^ ea) / ((mb : Rat) * (2 : Rat) ^ eb) := by
  rw [Spec.val_flt_div, abs_mul]
  have h1 : |(if (na != nb) = true then (-1 : Rat) else 1)| = 1 := by
    split <;> simp
  have h2 : (0 : Rat) ≤ ((ma : Rat) * (2 : Rat) ^ ea) / ((mb : Rat) * (2 : Rat) ^ eb) := by positivity
  rw [h1, one_mul, abs_of_nonneg h2]

theorem Num.isIntegral_iff (q : Num) : q.isIntegral = true ↔ Spec.isInt (Spec.val q) := by
  cases q with
  | int v => simp only [Num.isIntegral, true_iff]; exact ⟨v, rfl⟩
  | flt n m e =>
    unfold Num.isIntegral
    dsimp only
    by_cases he : 0 ≤ e
    · rw [if_pos he]
      simp only [true_iff]
      obtain ⟨k, rfl⟩ := Int.eq_ofNat_of_zero_le he
      refine ⟨(if n then -1 else 1) * (m : Int) * 2 ^ k, ?_⟩
      simp only [Spec.val]
      rw [zpow_natCast]
      cases n <;> simp
    · rw [if_neg he, decide_eq_true_eq]
      obtain ⟨k, hk⟩ := Int.eq_ofNat_of_zero_le (show 0 ≤ -e by omega)
      have hk' : (-e).toNat = k := by omega
      have he' : e = -(k : Int) := by omega
      rw [hk']
      have hv : Spec.val (.flt n m e)
          = (((if n then -1 else 1) * (m : Int) : Int) : Rat) / (((2 : Int) ^ k : Int) : Rat) := by
        simp only [Spec.val]
        rw [he', zpow_neg, zpow_natCast]
        cases n <;> simp [div_eq_mul_inv]
      rw [hv, isInt_div_iff _ _ (by positivity)]
      have hdvd : ((2 : Int) ^ k ∣ (if n then -1 else 1) * (m : Int)) ↔ (2 : Int) ^ k ∣ (m : Int) := by
        cases n <;> simp
      rw [hdvd, ← Nat.dvd_iff_mod_eq_zero]
      constructor
      · intro h; exact_mod_cast h
      · intro h; exact_mod_cast h


/-! ### the number gate and the keywords -/

theorem isTypeS_number (cfg : Cfg) (hg : lookupS (skey "number") cfg.types = some .isNumber)
    (inst : Json) : isTypeS cfg inst "number" = .ok inst.isNumJ := by
  unfold isTypeS isType
  unfold skey at hg
  simp only [hg, TyFn.apply]

theorem kwBound_num (cfg : Cfg) (hg : lookupS (skey "number") cfg.types = some .isNumber)
    (t : String) (f : Num → Num → Bool) (b i : Num) :
    kwBound cfg t f (.num b) (.num i)
      = if f i b then emit [Err.fresh t [.num i, .num b]] else nothing := by
  unfold kwBound gate
  rw [isTypeS_number cfg hg]
  simp [withRes, Json.isNumJ, asNum]

theorem kwBound_nonnum (cfg : Cfg) (hg : lookupS (skey "number") cfg.types = some .isNumber)
    (t : String) (f : Num → Num → Bool) (bound inst : Json) (h : inst.isNumJ = false) :
    kwBound cfg t f bound inst = nothing := by
  unfold kwBound gate
  rw [isTypeS_number cfg hg, h]
  simp [withRes]

theorem kwBound_errs_nil (cfg : Cfg) (hg : lookupS (skey "number") cfg.types = some .isNumber)
    (t : String) (f : Num → Num → Bool) (b i : Num) (st : RState) :
    (kwBound cfg t f (.num b) (.num i) none st).errs = [] ↔ f i b = false := by
  rw [kwBound_num cfg hg]
  cases f i b <;> simp [emit, nothing]

theorem kwBounds_d67 (cfg : Cfg) (hg : lookupS (skey "number") cfg.types = some .isNumber)
    (i b : Num) (st : RState) :
    ((kwMinimum cfg (.num b) (.num i) none st).errs = [] ↔ Spec.val b ≤ Spec.val i)
    ∧ ((kwMaximum cfg (.num b) (.num i) none st).errs = [] ↔ Spec.val i ≤ Spec.val b)
    ∧ ((kwExclusiveMinimum cfg (.num b) (.num i) none st).errs = [] ↔ Spec.val b < Spec.val i)
    ∧ ((kwExclusiveMaximum cfg (.num b) (.num i) none st).errs = [] ↔ Spec.val i < Spec.val b) := by
  unfold kwMinimum kwMaximum kwExclusiveMinimum kwExclusiveMaximum
  simp only [kwBound_errs_nil cfg hg, Bool.eq_false_iff, ne_eq, Num.lt_iff, Num.le_iff, not_lt,
    not_le, and_self]

theorem kwBounds_d34 (cfg : Cfg) (hg : lookupS (skey "number") cfg.types = some .isNumber)
    (i b : Num) (kvs : List (Str × Json)) (st : RState) :
    ((kwMinimumDraft3Draft4 cfg (.num b) (.num i) (.obj kvs) none st).errs = [] ↔
        if truthy ((Json.lookup (skey "exclusiveMinimum") kvs).getD (.bool false))
        then Spec.val b < Spec.val i else Spec.val b ≤ Spec.val i)
    ∧ ((kwMaximumDraft3Draft4 cfg (.num b) (.num i) (.obj kvs) none st).errs = [] ↔
        if truthy ((Json.lookup (skey "exclusiveMaximum") kvs).getD (.bool false))
        then Spec.val i < Spec.val b else Spec.val i ≤ Spec.val b) := by
  have hget : ∀ k, (Json.obj kvs).get? k = Json.lookup k kvs := fun _ => rfl
  unfold kwMinimumDraft3Draft4 kwMaximumDraft3Draft4
  rw [hget, hget]
  constructor
  · cases truthy ((Json.lookup (skey "exclusiveMinimum") kvs).getD (.bool false)) <;>
      simp only [kwBound_errs_nil cfg hg, Bool.eq_false_iff, ne_eq, Num.lt_iff, Num.le_iff, not_lt,
        not_le, if_true, if_false, Bool.false_eq_true]
  · cases truthy ((Json.lookup (skey "exclusiveMaximum") kvs).getD (.bool false)) <;>
      simp only [kwBound_errs_nil cfg hg, Bool.eq_false_iff, ne_eq, Num.lt_iff, Num.le_iff, not_lt,
        not_le, if_true, if_false, Bool.false_eq_true]
theorem nothing_out (b : Option Nat) (st : RState) :
    (nothing b st).errs = [] ∧ (nothing b st).stop = .done ∨ (nothing b st).stop = .budget := by
  left; exact ⟨rfl, rfl⟩


theorem multipleOfFailed_float_divisor (i d : Num) (hdf : d.isFloat = true) (hd : d.isZero = false)
    (hi : Spec.isDouble (Spec.val i))
    (hq : Spec.isDouble (Spec.val i / Spec.val d) ∨ (2 : Rat) ^ (1024 : Nat) ≤ Spec.val i / Spec.val d
        ∨ Spec.val i / Spec.val d ≤ -(2 : Rat) ^ (1024 : Nat)) :
    multipleOfFailed i d = .ok (decide (¬ Num.exactMultiple i d = true)) := by
  cases d with
  | int _ => simp [Num.isFloat] at hdf
  | flt nb mb eb =>
    have hmb : mb ≠ 0 := by
      rintro rfl
      simp [Num.isZero, Num.sm] at hd
    obtain ⟨na, ma, ea, hfi, hval⟩ := Num.toDouble_exact i hi
    have hpos := Num.fden_pos mb ea eb hmb
    have hfrac := Num.fnum_div_fden ma mb ea eb hmb
    have habs : |Spec.val i / Spec.val (.flt nb mb eb)|
        = (Num.fnum ma ea eb : Rat) / (Num.fden mb ea eb : Rat) := by
      rw [← hval, Spec.abs_val_flt_div, hfrac]
    simp only [multipleOfFailed, hd, hfi, Bool.false_eq_true, if_false]
    rw [Num.fdiv_eq]
    rcases hq with hq | hq
    · have hq' := Spec.isDouble_abs _ hq
      rw [habs] at hq'
      obtain ⟨m, e, hr, heq⟩ := Num.roundToDouble_exact _ _ hpos hq'
      rw [hr]
      dsimp only
      have hvq : Spec.val (.flt (na != nb) m e) = Spec.val i / Spec.val (.flt nb mb eb) := by
        rw [← hval, Spec.val_flt_div, ← hfrac, heq]
        simp only [Spec.val]; ring
      have hb : (Num.flt (na != nb) m e).isIntegral = Num.exactMultiple i (.flt nb mb eb) := by
        rw [Bool.eq_iff_iff, Num.isIntegral_iff, Num.exactMultiple_iff _ _ hd, hvq]
      rw [hb]
      cases Num.exactMultiple i (.flt nb mb eb) <;> rfl
    · have hq' : (2 : Rat) ^ (1024 : Nat) ≤ (Num.fnum ma ea eb : Rat) / (Num.fden mb ea eb : Rat) := by
        rw [← habs]
        rcases hq with hq | hq
        · exact le_trans hq (le_abs_self _)
        · exact le_trans (le_neg_of_le_neg hq) (neg_le_abs _)
      rw [Num.roundToDouble_overflow _ _ hpos hq']
      dsimp only
      cases Num.exactMultiple i (.flt nb mb eb) <;> rfl

theorem multipleOfFailed_int_divisor (x : Num) (m : Int) (hx : x.isFloat = true) (hm : m ≠ 0)
    (hconv : Spec.isDouble (m : Rat)) :
    multipleOfFailed x (.int m) = .ok (decide (¬ Num.exactMultiple x (.int m) = true)) := by
  cases x with
  | int _ => simp [Num.isFloat] at hx
  | flt n mx e =>
    obtain ⟨mm, ee, hfd, hval⟩ := Num.intToDouble_exact m hconv
    simp only [multipleOfFailed, hm, hfd, if_false]
    have hz1 : (Num.int m).isZero = false := by simp [Num.isZero, Num.sm, hm]
    have hz2 : (Num.flt (decide (m < 0)) mm ee).isZero = false := by
      rw [Num.isZero_false_iff, hval]; exact_mod_cast hm
    have hb : Num.exactMultiple (.flt n mx e) (.flt (decide (m < 0)) mm ee)
        = Num.exactMultiple (.flt n mx e) (.int m) := by
      rw [Bool.eq_iff_iff, Num.exactMultiple_iff _ _ hz1, Num.exactMultiple_iff _ _ hz2, hval]
      rfl
    rw [hb]
    cases Num.exactMultiple (.flt n mx e) (.int m) <;> rfl

theorem kwMultipleOf_no_raise (cfg : Cfg) (hg : lookupS (skey "number") cfg.types = some .isNumber)
    (i d : Num) (hd : d.isZero = false) (b : Option Nat) (st : RState) :
    ∀ e, (kwMultipleOf cfg (.num d) (.num i) b st).stop ≠ .raised e := by
  intro e
  obtain ⟨failed, hf⟩ := multipleOfFailed_ok i d hd
  unfold kwMultipleOf gate
  rw [isTypeS_number cfg hg]
  simp only [withRes, Json.isNumJ, asNum, hf]
  cases failed <;> cases b <;> simp [emit, nothing] <;> split <;> simp

end JS
