/- Helper lemmas for C14 (JSON Pointer): `repl2`, `splitOn`, `unquote`, UTF-8 round trip. -/
import JS.Pointer
import JS.Spec.Pointer
namespace JS
end JS
