/- Helper lemmas for C14 (JSON Pointer): `repl2`, `splitOn`, `unquote`, UTF-8 round trip. -/
import JS.Pointer
import JS.Spec.Pointer
import Mathlib.Tactic.IntervalCases
import Mathlib.Data.List.Induction
namespace JS
namespace PointerProofs

/-! ### (c) `unescapeToken` inverts `escapeToken` -/

theorem repl2_cons_ne (a b r x : Char) (rest : Str) (h : x ≠ a) :
    repl2 a b r (x :: rest) = x :: repl2 a b r rest := by
  cases rest with
  | nil => simp [repl2]
  | cons y rest => simp [repl2, h]

theorem repl2_hit (a b r : Char) (rest : Str) :
    repl2 a b r (a :: b :: rest) = r :: repl2 a b r rest := by
  simp [repl2]

theorem repl2_miss (a b r y : Char) (rest : Str) (h : y ≠ b) :
    repl2 a b r (a :: y :: rest) = a :: repl2 a b r (y :: rest) := by
  simp [repl2, h]

/-- the intermediate string: only `~` escaped -/
def esc0 (s : Str) : Str := s.flatMap fun c => if c = '~' then ['~', '0'] else [c]

theorem repl2_escapeToken (k : Str) : repl2 '~' '1' '/' (Spec.escapeToken k) = esc0 k := by
  induction k with
  | nil => simp [Spec.escapeToken, esc0, repl2]
  | cons c k ih =>
    have hc : Spec.escapeToken (c :: k) =
        (if c = '~' then ['~', '0'] else if c = '/' then ['~', '1'] else [c]) ++ Spec.escapeToken k := by
      simp [Spec.escapeToken]
    have hc' : esc0 (c :: k) = (if c = '~' then ['~', '0'] else [c]) ++ esc0 k := by
      simp [esc0]
    rw [hc, hc']
    by_cases h1 : c = '~'
    · subst h1
      simp only [if_true, List.cons_append, List.nil_append]
      rw [repl2_miss _ _ _ _ _ (by decide), repl2_cons_ne _ _ _ _ _ (by decide), ih]
    · by_cases h2 : c = '/'
      · subst h2
        have e1 : (if '/' = '~' then ['~', '0'] else if '/' = '/' then ['~', '1'] else ['/']) = ['~', '1'] := by
          decide
        have e2 : (if '/' = '~' then ['~', '0'] else ['/']) = ['/'] := by decide
        rw [e1, e2]
        simp only [List.cons_append, List.nil_append]
        rw [repl2_hit, ih]
      · simp only [if_neg h1, if_neg h2, List.cons_append, List.nil_append]
        rw [repl2_cons_ne _ _ _ _ _ h1, ih]

theorem repl2_esc0 (k : Str) : repl2 '~' '0' '~' (esc0 k) = k := by
  induction k with
  | nil => simp [esc0, repl2]
  | cons c k ih =>
    have hc' : esc0 (c :: k) = (if c = '~' then ['~', '0'] else [c]) ++ esc0 k := by
      simp [esc0]
    rw [hc']
    by_cases h1 : c = '~'
    · subst h1
      simp only [if_true, List.cons_append, List.nil_append]
      rw [repl2_hit, ih]
    · simp only [if_neg h1, List.cons_append, List.nil_append]
      rw [repl2_cons_ne _ _ _ _ _ h1, ih]

theorem unescape_escape (k : Str) : unescapeToken (Spec.escapeToken k) = k := by
  unfold unescapeToken
  rw [repl2_escapeToken, repl2_esc0]

/-! ### (b) `splitOn` inverts the join -/

theorem slash_not_mem_escapeToken (k : Str) : '/' ∉ Spec.escapeToken k := by
  unfold Spec.escapeToken
  simp only [List.mem_flatMap, not_exists, not_and]
  intro c _
  by_cases h1 : c = '~'
  · subst h1; simp
  · by_cases h2 : c = '/'
    · subst h2; simp
    · simp only [if_neg h1, if_neg h2, List.mem_singleton]
      exact fun h => h2 h.symm

theorem splitOn_no_sep (c : Char) (t : Str) (h : c ∉ t) : splitOn c t = [t] := by
  induction t with
  | nil => simp [splitOn]
  | cons x t ih =>
    have hx : x ≠ c := fun e => h (by simp [e])
    have ht : c ∉ t := fun e => h (by simp [e])
    simp [splitOn, hx, ih ht]

theorem splitOn_append_sep (c : Char) (t rest : Str) (h : c ∉ t) :
    splitOn c (t ++ c :: rest) = t :: splitOn c rest := by
  induction t with
  | nil => simp [splitOn]
  | cons x t ih =>
    have hx : x ≠ c := fun e => h (by simp [e])
    have ht : c ∉ t := fun e => h (by simp [e])
    simp [splitOn, hx, ih ht]

theorem pointerString_cons (t : Str) (ts : List Str) :
    Spec.pointerString (t :: ts) = '/' :: (Spec.escapeToken t ++ Spec.pointerString ts) := by
  simp [Spec.pointerString]

theorem splitOn_pointerString (t : Str) (ts : List Str) :
    splitOn '/' (Spec.escapeToken t ++ Spec.pointerString ts)
      = Spec.escapeToken t :: ts.map Spec.escapeToken := by
  induction ts generalizing t with
  | nil =>
    simp only [Spec.pointerString, List.flatMap_nil, List.append_nil, List.map_nil]
    exact splitOn_no_sep _ _ (slash_not_mem_escapeToken t)
  | cons u ts ih =>
    rw [pointerString_cons, splitOn_append_sep _ _ _ (slash_not_mem_escapeToken t), ih]
    rfl

theorem fragmentTokens_of_unquote (fragment : Str) (toks : List Str)
    (h : unquote fragment = Spec.pointerString toks) : fragmentTokens fragment = toks := by
  unfold fragmentTokens
  rw [h]
  cases toks with
  | nil => simp [Spec.pointerString]
  | cons t ts =>
    rw [pointerString_cons]
    simp only [splitOn_pointerString, List.map_cons, List.map_map]
    rw [unescape_escape]
    congr 1
    have : (unescapeToken ∘ Spec.escapeToken) = id := funext unescape_escape
    rw [this, List.map_id]

/-! ### (d) array indices: `arrayIndex?` recognises exactly the canonical decimals -/

theorem char_le_iff (a b : Char) : a ≤ b ↔ a.toNat ≤ b.toNat := by
  rw [Char.le_def, UInt32.le_iff_toNat_le]; rfl

theorem digitChar_facts (d : Nat) (h : d < 10) :
    isDigit (Nat.digitChar d) = true ∧ (Nat.digitChar d).toNat - '0'.toNat = d
      ∧ (0 < d → '1' ≤ Nat.digitChar d ∧ Nat.digitChar d ≤ '9') := by
  interval_cases d <;> decide

theorem digit_char_eq (c : Char) (h : isDigit c = true) :
    Nat.digitChar (c.toNat - '0'.toNat) = c ∧ c.toNat - '0'.toNat < 10 := by
  simp only [isDigit, Bool.and_eq_true, decide_eq_true_eq, char_le_iff] at h
  have h0 : '0'.toNat = 48 := by decide
  have h9 : '9'.toNat = 57 := by decide
  rw [h0, h9] at h
  rw [h0]
  obtain ⟨k, hk⟩ : ∃ k, c.toNat = k := ⟨_, rfl⟩
  rw [hk] at h ⊢
  have : c = Char.ofNat k := by rw [← hk]; simp
  subst this
  obtain ⟨h1, h2⟩ := h
  interval_cases k <;> decide

theorem digitsVal_snoc (s : Str) (c : Char) :
    digitsVal (s ++ [c]) = digitsVal s * 10 + (c.toNat - '0'.toNat) := by
  simp [digitsVal, List.foldl_append]

/-- properties of the decimal rendering -/
theorem toDigits_props (n : Nat) :
    (Nat.toDigits 10 n).all isDigit = true ∧ digitsVal (Nat.toDigits 10 n) = n ∧
      (0 < n → ∃ c rest, Nat.toDigits 10 n = c :: rest ∧ '1' ≤ c ∧ c ≤ '9') := by
  induction n using Nat.strongRecOn with
  | _ n ih =>
    rw [Nat.toDigits_eq_if (by decide)]
    by_cases hn : n < 10
    · rw [if_pos hn]
      obtain ⟨f1, f2, f3⟩ := digitChar_facts n hn
      refine ⟨by simp [f1], by simpa [digitsVal] using f2, fun hp => ⟨_, _, rfl, f3 hp⟩⟩
    · rw [if_neg hn]
      obtain ⟨i1, i2, i3⟩ := ih (n / 10) (by omega)
      obtain ⟨f1, f2, _⟩ := digitChar_facts (n % 10) (by omega)
      refine ⟨by simp [i1, f1], ?_, fun _ => ?_⟩
      · rw [digitsVal_snoc, i2, f2]; omega
      · obtain ⟨c, rest, e, hc⟩ := i3 (by omega)
        exact ⟨c, rest ++ [Nat.digitChar (n % 10)], by rw [e]; rfl, hc⟩

theorem arrayIndex_cons (c : Char) (rest : Str) (h1 : '1' ≤ c) :
    arrayIndex? (c :: rest) =
      if '1' ≤ c ∧ c ≤ '9' ∧ rest.all isDigit then some (digitsVal (c :: rest)) else none := by
  have hc : c ≠ '0' := by
    rintro rfl; exact absurd h1 (by decide)
  unfold arrayIndex?
  split
  · simp_all
  · simp_all
  · rename_i c' rest' heq; cases heq; rfl

theorem arrayIndex_decimal (n : Nat) : arrayIndex? (Spec.decimal n) = some n := by
  unfold Spec.decimal
  by_cases hn : n = 0
  · subst hn; decide
  · obtain ⟨p1, p2, p3⟩ := toDigits_props n
    obtain ⟨c, rest, e, hc1, hc2⟩ := p3 (by omega)
    rw [e] at p1 p2 ⊢
    rw [arrayIndex_cons c rest hc1, p2]
    simp only [List.all_cons, Bool.and_eq_true] at p1
    rw [if_pos ⟨hc1, hc2, p1.2⟩]

/-- a canonical digit string is the rendering of its value -/
theorem toDigits_digitsVal (s : Str) :
    s.all isDigit = true → ∀ c rest, s = c :: rest → '1' ≤ c →
      Nat.toDigits 10 (digitsVal s) = s ∧ 0 < digitsVal s := by
  induction s using List.reverseRecOn with
  | nil => intro _ c rest h; cases h
  | append_singleton s d ih =>
    intro hall c rest hs hc
    simp only [List.all_append, List.all_cons, List.all_nil, Bool.and_true, Bool.and_eq_true] at hall
    obtain ⟨g1, g2⟩ := digit_char_eq d hall.2
    rw [digitsVal_snoc]
    cases s with
    | nil =>
      simp only [List.nil_append, List.cons.injEq] at hs
      obtain ⟨rfl, _⟩ := hs
      have : 0 < d.toNat - '0'.toNat := by
        rw [char_le_iff] at hc
        have : '1'.toNat = 49 := by decide
        have : '0'.toNat = 48 := by decide
        omega
      refine ⟨?_, by omega⟩
      simp only [digitsVal, List.foldl_nil, Nat.zero_mul, Nat.zero_add, List.nil_append]
      rw [Nat.toDigits_of_lt_base g2, g1]
    | cons x s' =>
      simp only [List.cons_append, List.cons.injEq] at hs
      obtain ⟨rfl, _⟩ := hs
      obtain ⟨i1, i2⟩ := ih hall.1 x s' rfl hc
      refine ⟨?_, by omega⟩
      rw [Nat.mul_comm, ← Nat.toDigits_append_toDigits (by decide) i2 g2, i1,
        Nat.toDigits_of_lt_base g2, g1]

theorem arrayIndex_eq_some (s : Str) (n : Nat) (h : arrayIndex? s = some n) : s = Spec.decimal n := by
  unfold Spec.decimal
  unfold arrayIndex? at h
  split at h
  · cases h
  · cases h; decide
  · rename_i c rest _
    split at h
    · rename_i hc
      cases h
      have hd : isDigit c = true := by
        have h1 := hc.1
        have h2 := hc.2.1
        simp only [isDigit, Bool.and_eq_true, decide_eq_true_eq, char_le_iff] at h1 h2 ⊢
        have : '1'.toNat = 49 := by decide
        have : '0'.toNat = 48 := by decide
        omega
      exact ((toDigits_digitsVal (c :: rest) (by simp [hd, hc.2.2]) c rest rfl hc.1).1).symm
    · cases h

theorem arrayIndex_iff (s : Str) (n : Nat) : arrayIndex? s = some n ↔ s = Spec.decimal n :=
  ⟨arrayIndex_eq_some s n, fun h => h ▸ arrayIndex_decimal n⟩

theorem find_range_eq (k n : Nat) :
    (List.range k).find? (fun m => decide (m = n)) = if n < k then some n else none := by
  induction k with
  | zero => simp
  | succ k ih =>
    rw [List.range_succ, List.find?_append, ih]
    by_cases h : n < k
    · simp [h, Nat.lt_succ_of_lt h]
    · by_cases h' : n = k
      · subst h'; simp
      · have : ¬ n < k + 1 := by omega
        simp [h, this, Ne.symm h']

theorem spec_arr_step (xs : List Json) (tok : Str) :
    Spec.ptrStep (.arr xs) tok = match arrayIndex? tok with
      | some n => xs[n]?
      | none => none := by
  unfold Spec.ptrStep
  cases h : arrayIndex? tok with
  | none =>
    have : (List.range xs.length).find? (fun n => decide (Spec.decimal n = tok)) = none := by
      rw [List.find?_eq_none]
      intro n _
      simp only [decide_eq_true_eq]
      intro e
      rw [← e, arrayIndex_decimal] at h
      cases h
    simp [this]
  | some n =>
    have hf : (fun m => decide (Spec.decimal m = tok)) = (fun m => decide (m = n)) := by
      funext m
      have : Spec.decimal m = tok ↔ m = n := by
        constructor
        · intro e
          rw [← e, arrayIndex_decimal] at h
          exact Option.some.inj h
        · intro e
          rw [e]; exact (arrayIndex_eq_some tok n h).symm
      simp [this]
    simp only [hf, find_range_eq]
    by_cases hn : n < xs.length
    · simp [hn]
    · simp [hn]

theorem ptrStep_eq_spec (doc : Json) (tok : Str) : ptrStep doc tok = Spec.ptrStep doc tok := by
  cases doc with
  | arr xs => rw [spec_arr_step]; rfl
  | _ => rfl

theorem ptrWalk_eq_spec (doc : Json) (toks : List Str) : ptrWalk doc toks = Spec.ptrEval doc toks := by
  induction toks generalizing doc with
  | nil => rfl
  | cons t ts ih =>
    simp only [ptrWalk, Spec.ptrEval, ptrStep_eq_spec]
    cases Spec.ptrStep doc t with
    | none => rfl
    | some d => simp [ih]

/-! ### (a) `unquote` inverts `pctEncode` -/

theorem hex_facts (n : Nat) (h : n < 16) :
    hexVal (Spec.hexDigit n) = some n ∧ isAscii (Spec.hexDigit n) = true ∧ Spec.hexDigit n ≠ '%' := by
  interval_cases n <;> decide

theorem mk_toArray_eq (l : List UInt8) : ByteArray.mk l.toArray = l.toByteArray := by
  rw [← List.data_toByteArray]

theorem decodeUtf8_encode (t : Str) : decodeUtf8 (t.flatMap String.utf8EncodeChar) = t := by
  unfold decodeUtf8
  rw [mk_toArray_eq]
  have := List.utf8Decode?_utf8Encode (l := t)
  rw [List.utf8Encode] at this
  rw [this]

/-- the encoding of one character -/
def enc (keep : Char → Bool) (c : Char) : Str :=
  if keep c && c != '%' then [c] else (String.utf8EncodeChar c).flatMap Spec.pctByte

theorem pctEncode_nil (keep : Char → Bool) : Spec.pctEncode keep [] = [] := rfl

theorem pctEncode_cons (keep : Char → Bool) (c : Char) (s : Str) :
    Spec.pctEncode keep (c :: s) = enc keep c ++ Spec.pctEncode keep s := by
  simp [Spec.pctEncode, enc]

/-- a kept non-ASCII character: the only characters whose encoding is not ASCII -/
def isN (keep : Char → Bool) (c : Char) : Bool := (keep c && c != '%') && !isAscii c

theorem enc_of_isN (keep : Char → Bool) (c : Char) (h : isN keep c = true) :
    enc keep c = [c] ∧ isAscii c = false := by
  simp only [isN, Bool.and_eq_true, Bool.not_eq_true'] at h
  refine ⟨?_, h.2⟩
  simp only [enc]
  rw [if_pos (by simpa using h.1)]

theorem pctByte_eq (b : UInt8) :
    Spec.pctByte b = ['%', Spec.hexDigit (b.toNat / 16), Spec.hexDigit (b.toNat % 16)] := rfl

theorem flatMap_pctByte_ascii (bs : List UInt8) : ∀ c ∈ bs.flatMap Spec.pctByte, isAscii c = true := by
  intro c hc
  simp only [List.mem_flatMap, pctByte_eq, List.mem_cons, List.not_mem_nil, or_false] at hc
  obtain ⟨b, _, hb⟩ := hc
  have hlt : b.toNat < 256 := b.toNat_lt
  rcases hb with rfl | rfl | rfl
  · decide
  · exact (hex_facts _ (by omega)).2.1
  · exact (hex_facts _ (by omega)).2.1

theorem utf8EncodeChar_cons (c : Char) : ∃ b bs, String.utf8EncodeChar c = b :: bs := by
  cases h : String.utf8EncodeChar c with
  | nil => exact absurd h String.utf8EncodeChar_ne_nil
  | cons b bs => exact ⟨b, bs, rfl⟩

/-- the encoding of a character that is not a kept non-ASCII character is a non-empty ASCII string -/
theorem enc_ascii (keep : Char → Bool) (c : Char) (h : isN keep c = false) :
    enc keep c ≠ [] ∧ ∀ x ∈ enc keep c, isAscii x = true := by
  unfold enc
  by_cases hk : (keep c && c != '%') = true
  · rw [if_pos hk]
    simp only [isN, hk, Bool.true_and, Bool.not_eq_false'] at h
    simp [h]
  · rw [if_neg hk]
    refine ⟨?_, flatMap_pctByte_ascii _⟩
    obtain ⟨b, bs, e⟩ := utf8EncodeChar_cons c
    rw [e]; simp [pctByte_eq]

/-! #### percent-decoding to bytes -/

theorem unquoteBytes_cons_ne (c : Char) (rest : Str) (h : c ≠ '%') :
    unquoteBytes (c :: rest) = byteOf c :: unquoteBytes rest := by
  match rest with
  | [] => simp [unquoteBytes]
  | [d] => simp [unquoteBytes]
  | d :: e :: rest' => simp [unquoteBytes, h]

theorem unquoteBytes_pctByte (b : UInt8) (rest : Str) :
    unquoteBytes (Spec.pctByte b ++ rest) = b :: unquoteBytes rest := by
  have hlt : b.toNat < 256 := b.toNat_lt
  have h1 := (hex_facts (b.toNat / 16) (by omega)).1
  have h2 := (hex_facts (b.toNat % 16) (by omega)).1
  rw [pctByte_eq]
  simp only [List.cons_append, List.nil_append, unquoteBytes, if_true, h1, h2]
  congr 1
  have : b.toNat / 16 * 16 + b.toNat % 16 = b.toNat := by omega
  rw [this, UInt8.ofNat_toNat]

theorem unquoteBytes_flatMap_pctByte (bs : List UInt8) (rest : Str) :
    unquoteBytes (bs.flatMap Spec.pctByte ++ rest) = bs ++ unquoteBytes rest := by
  induction bs with
  | nil => simp
  | cons b bs ih =>
    rw [List.flatMap_cons, List.append_assoc, unquoteBytes_pctByte, ih]; rfl

theorem utf8EncodeChar_ascii (c : Char) (h : isAscii c = true) :
    String.utf8EncodeChar c = [byteOf c] := by
  simp only [isAscii, decide_eq_true_eq, Char.toNat] at h
  simp only [String.utf8EncodeChar, byteOf, Char.toNat]
  rw [if_pos (by omega)]

theorem unquoteBytes_enc (keep : Char → Bool) (c : Char) (h : isN keep c = false) (rest : Str) :
    unquoteBytes (enc keep c ++ rest) = String.utf8EncodeChar c ++ unquoteBytes rest := by
  unfold enc
  by_cases hk : (keep c && c != '%') = true
  · rw [if_pos hk]
    simp only [isN, hk, Bool.true_and, Bool.not_eq_false'] at h
    simp only [Bool.and_eq_true, bne_iff_ne, ne_eq] at hk
    rw [utf8EncodeChar_ascii c h]
    exact unquoteBytes_cons_ne c rest hk.2
  · rw [if_neg hk, unquoteBytes_flatMap_pctByte]

theorem unquoteBytes_pctEncode (keep : Char → Bool) (t : Str) (hA : ∀ c ∈ t, isN keep c = false) :
    unquoteBytes (Spec.pctEncode keep t) = t.flatMap String.utf8EncodeChar := by
  induction t with
  | nil => simp [pctEncode_nil, unquoteBytes]
  | cons c t ih =>
    rw [pctEncode_cons, unquoteBytes_enc keep c (hA c (by simp)), ih (fun x hx => hA x (by simp [hx]))]
    rfl

/-- an all-ASCII-encoded block decodes to its source -/
theorem decode_block (keep : Char → Bool) (t : Str) (hA : ∀ c ∈ t, isN keep c = false) :
    decodeUtf8 (unquoteBytes (Spec.pctEncode keep t)) = t := by
  rw [unquoteBytes_pctEncode keep t hA, decodeUtf8_encode]

/-- what `unquote` does with one run -/
def runDec : Bool × Str → Str := fun (a, run) => if a then decodeUtf8 (unquoteBytes run) else run

theorem asciiRuns_cons_nonascii (c : Char) (h : isAscii c = false) (l : Str) :
    ∃ run more, asciiRuns (c :: l) = (false, run) :: more ∧
      (asciiRuns (c :: l)).flatMap runDec = c :: (asciiRuns l).flatMap runDec := by
  rw [asciiRuns]
  cases hl : asciiRuns l with
  | nil => exact ⟨[c], [], by simp [h], by simp [h, runDec]⟩
  | cons p more =>
    obtain ⟨a, run⟩ := p
    cases a with
    | false => exact ⟨c :: run, more, by simp [h], by simp [h, runDec]⟩
    | true => exact ⟨[c], (true, run) :: more, by simp [h], by simp [h, runDec]⟩

/-- prepend an ASCII block to a run list -/
def pushRun (w : Str) : List (Bool × Str) → List (Bool × Str)
  | [] => [(true, w)]
  | (true, run) :: more => (true, w ++ run) :: more
  | (false, run) :: more => (true, w) :: (false, run) :: more

theorem asciiRuns_cons_ascii (c : Char) (h : isAscii c = true) (l : Str) :
    asciiRuns (c :: l) = pushRun [c] (asciiRuns l) := by
  rw [asciiRuns]
  cases hl : asciiRuns l with
  | nil => simp [h, pushRun]
  | cons p more =>
    obtain ⟨a, run⟩ := p
    cases a <;> simp [h, pushRun]

theorem pushRun_pushRun (w w' : Str) (rs : List (Bool × Str)) :
    pushRun w (pushRun w' rs) = pushRun (w ++ w') rs := by
  match rs with
  | [] => simp [pushRun]
  | (true, run) :: more => simp [pushRun]
  | (false, run) :: more => simp [pushRun]

theorem asciiRuns_ascii_append (w : Str) (hw : w ≠ []) (hall : ∀ c ∈ w, isAscii c = true) (l : Str) :
    asciiRuns (w ++ l) = pushRun w (asciiRuns l) := by
  induction w with
  | nil => exact absurd rfl hw
  | cons c w ih =>
    rw [List.cons_append, asciiRuns_cons_ascii c (hall c (by simp))]
    by_cases hw' : w = []
    · subst hw'; rfl
    · rw [ih hw' (fun x hx => hall x (by simp [hx])), pushRun_pushRun]; rfl

/-- invariant relating a source string and the run list of its encoding -/
def Inv (keep : Char → Bool) (s : Str) : List (Bool × Str) → Prop
  | [] => s = []
  | (false, run) :: more => ((false, run) :: more).flatMap runDec = s
  | (true, run) :: more => ∃ s1 s2, s = s1 ++ s2 ∧ (∀ c ∈ s1, isN keep c = false) ∧
      run = Spec.pctEncode keep s1 ∧ more.flatMap runDec = s2

theorem Inv_flat (keep : Char → Bool) (s : Str) (rs : List (Bool × Str)) (h : Inv keep s rs) :
    rs.flatMap runDec = s := by
  match rs, h with
  | [], h => simpa [Inv] using h.symm
  | (false, run) :: more, h => exact h
  | (true, run) :: more, h =>
    obtain ⟨s1, s2, rfl, hA, rfl, rfl⟩ := h
    simp [runDec, decode_block keep s1 hA]

theorem inv_asciiRuns (keep : Char → Bool) (s : Str) : Inv keep s (asciiRuns (Spec.pctEncode keep s)) := by
  induction s with
  | nil => simp [pctEncode_nil, asciiRuns, Inv]
  | cons c s ih =>
    rw [pctEncode_cons]
    cases hN : isN keep c with
    | true =>
      obtain ⟨e, hna⟩ := enc_of_isN keep c hN
      rw [e, List.singleton_append]
      obtain ⟨run, more, h1, h2⟩ := asciiRuns_cons_nonascii c hna (Spec.pctEncode keep s)
      rw [Inv_flat keep s _ ih] at h2
      rw [h1] at h2 ⊢
      exact h2
    | false =>
      obtain ⟨hne, hall⟩ := enc_ascii keep c hN
      rw [asciiRuns_ascii_append _ hne hall]
      have hone : Spec.pctEncode keep [c] = enc keep c := by
        rw [pctEncode_cons, pctEncode_nil, List.append_nil]
      have hc : ∀ x ∈ [c], isN keep x = false := by simp [hN]
      match hrs : asciiRuns (Spec.pctEncode keep s), ih with
      | [], ih =>
        simp only [Inv] at ih
        subst ih
        exact ⟨[c], [], rfl, hc, hone.symm, rfl⟩
      | (false, run) :: more, ih =>
        exact ⟨[c], s, rfl, hc, hone.symm, ih⟩
      | (true, run) :: more, ih =>
        obtain ⟨s1, s2, rfl, hA, rfl, rfl⟩ := ih
        refine ⟨c :: s1, _, rfl, ?_, ?_, rfl⟩
        · intro x hx
          rcases List.mem_cons.mp hx with rfl | hx
          · exact hN
          · exact hA x hx
        · rw [pctEncode_cons]


theorem pctEncode_no_pct (keep : Char → Bool) (s : Str) (h : '%' ∉ Spec.pctEncode keep s) :
    Spec.pctEncode keep s = s := by
  induction s with
  | nil => rfl
  | cons c s ih =>
    rw [pctEncode_cons] at h ⊢
    rw [List.mem_append, not_or] at h
    rw [ih h.2]
    have : enc keep c = [c] := by
      unfold enc at h ⊢
      by_cases hk : (keep c && c != '%') = true
      · rw [if_pos hk]
      · rw [if_neg hk] at h
        obtain ⟨b, bs, e⟩ := utf8EncodeChar_cons c
        rw [e] at h
        exact absurd (by simp [pctByte_eq]) h.1
    rw [this]; rfl

theorem unquote_pctEncode (keep : Char → Bool) (s : Str) : unquote (Spec.pctEncode keep s) = s := by
  unfold unquote
  split
  · exact Inv_flat keep s _ (inv_asciiRuns keep s)
  · rename_i h
    exact pctEncode_no_pct keep s (by simpa using h)

/-! ### the main theorem -/

theorem fragmentTokens_fragmentOf (keep : Char → Bool) (toks : List Str) :
    fragmentTokens (Spec.fragmentOf keep toks) = toks :=
  fragmentTokens_of_unquote _ _ (unquote_pctEncode keep _)

theorem resolve_eq_spec (keep : Char → Bool) (doc : Json) (toks : List Str) :
    resolveFragment doc (Spec.fragmentOf keep toks) = Spec.ptrEval doc toks := by
  unfold resolveFragment
  rw [fragmentTokens_fragmentOf, ptrWalk_eq_spec]

/-! ### consequences in terms of the specification -/

theorem spec_arr_step_decimal (xs : List Json) (n : Nat) :
    Spec.ptrStep (.arr xs) (Spec.decimal n) = xs[n]? := by
  rw [spec_arr_step, arrayIndex_decimal]

theorem ptrEval_of_ptrGet (doc : Json) (path : List PathElem) (v : Json)
    (h : Spec.ptrGet doc path = some v) : Spec.ptrEval doc (path.map Spec.tokenOf) = some v := by
  induction path generalizing doc with
  | nil => simpa [Spec.ptrGet, Spec.ptrEval] using h
  | cons p ps ih =>
    cases p with
    | key k =>
      cases doc with
      | obj kvs =>
        simp only [Spec.ptrGet] at h
        simp only [List.map_cons, Spec.ptrEval, Spec.tokenOf, Spec.ptrStep]
        cases hl : Json.lookup k kvs with
        | none => rw [hl] at h; cases h
        | some d => rw [hl] at h; exact ih d h
      | _ => simp [Spec.ptrGet] at h
    | idx n =>
      cases doc with
      | arr xs =>
        simp only [Spec.ptrGet] at h
        simp only [List.map_cons, Spec.ptrEval, Spec.tokenOf, spec_arr_step_decimal]
        cases hl : xs[n]? with
        | none => rw [hl] at h; cases h
        | some d => rw [hl] at h; exact ih d h
      | _ => simp [Spec.ptrGet] at h

theorem ptrEval_append (doc : Json) (a b : List Str) :
    Spec.ptrEval doc (a ++ b) = (Spec.ptrEval doc a).bind (Spec.ptrEval · b) := by
  induction a generalizing doc with
  | nil => rfl
  | cons t ts ih =>
    simp only [List.cons_append, Spec.ptrEval]
    cases Spec.ptrStep doc t with
    | none => rfl
    | some d => exact ih d

theorem ptrEval_bad (doc : Json) (pre : List Str) (tok : Str) (post : List Str) (d : Json)
    (hpre : Spec.ptrEval doc pre = some d) (hbad : Spec.ptrStep d tok = none) :
    Spec.ptrEval doc (pre ++ tok :: post) = none := by
  rw [ptrEval_append, hpre]
  simp [Spec.ptrEval, hbad]

theorem array_token_spec (xs : List Json) (tok : Str) (v : Json) :
    Spec.ptrStep (.arr xs) tok = some v ↔
      ∃ n, n < xs.length ∧ tok = Spec.decimal n ∧ xs[n]? = some v := by
  rw [spec_arr_step]
  cases h : arrayIndex? tok with
  | none =>
    constructor
    · intro h'; cases h'
    · rintro ⟨n, _, rfl, _⟩
      rw [arrayIndex_decimal] at h; cases h
  | some n =>
    have e := arrayIndex_eq_some tok n h
    show xs[n]? = some v ↔ _
    constructor
    · intro h'
      refine ⟨n, ?_, e, h'⟩
      by_contra hn
      rw [List.getElem?_eq_none (l := xs) (i := n) (by omega)] at h'
      cases h'
    · rintro ⟨m, _, rfl, hv⟩
      rw [arrayIndex_decimal] at h
      cases h
      exact hv

theorem scalar_token_spec (doc : Json) (tok : Str) (h : doc.isObj = false) (h' : doc.isArr = false) :
    Spec.ptrStep doc tok = none := by
  cases doc <;> simp_all [Json.isObj, Json.isArr, Spec.ptrStep]

theorem empty_fragment (doc : Json) : resolveFragment doc [] = some doc := by
  rfl

end PointerProofs
end JS
