/- Helper lemmas for C14 (JSON Pointer): `repl2`, `splitOn`, `unquote`, UTF-8 round trip. -/
import JS.Pointer
import JS.Spec.Pointer
import Mathlib.Tactic.IntervalCases
namespace JS
namespace PointerProofs

/-! ### (c) `unescapeToken` inverts `escapeToken` -/

theorem repl2_cons_ne (a b r x : Char) (rest : Str) (h : x ≠ a) :
    repl2 a b r (x :: rest) = x :: repl2 a b r rest := by
  cases rest with
  | nil => simp [repl2]
  | cons y rest => simp [repl2, h]

theorem repl2_hit (a b r : Char) (rest : Str) :
    repl2 a b r (a :: b :: rest) = r :: repl2 a b r rest := by
  simp [repl2]

theorem repl2_miss (a b r y : Char) (rest : Str) (h : y ≠ b) :
    repl2 a b r (a :: y :: rest) = a :: repl2 a b r (y :: rest) := by
  simp [repl2, h]

/-- the intermediate string: only `~` escaped -/
def esc0 (s : Str) : Str := s.flatMap fun c => if c = '~' then ['~', '0'] else [c]

theorem repl2_escapeToken (k : Str) : repl2 '~' '1' '/' (Spec.escapeToken k) = esc0 k := by
  induction k with
  | nil => simp [Spec.escapeToken, esc0, repl2]
  | cons c k ih =>
    have hc : Spec.escapeToken (c :: k) =
        (if c = '~' then ['~', '0'] else if c = '/' then ['~', '1'] else [c]) ++ Spec.escapeToken k := by
      simp [Spec.escapeToken]
    have hc' : esc0 (c :: k) = (if c = '~' then ['~', '0'] else [c]) ++ esc0 k := by
      simp [esc0]
    rw [hc, hc']
    by_cases h1 : c = '~'
    · subst h1
      simp only [if_true, List.cons_append, List.nil_append]
      rw [repl2_miss _ _ _ _ _ (by decide), repl2_cons_ne _ _ _ _ _ (by decide), ih]
    · by_cases h2 : c = '/'
      · subst h2
        have e1 : (if '/' = '~' then ['~', '0'] else if '/' = '/' then ['~', '1'] else ['/']) = ['~', '1'] := by
          decide
        have e2 : (if '/' = '~' then ['~', '0'] else ['/']) = ['/'] := by decide
        rw [e1, e2]
        simp only [List.cons_append, List.nil_append]
        rw [repl2_hit, ih]
      · simp only [if_neg h1, if_neg h2, List.cons_append, List.nil_append]
        rw [repl2_cons_ne _ _ _ _ _ h1, ih]

theorem repl2_esc0 (k : Str) : repl2 '~' '0' '~' (esc0 k) = k := by
  induction k with
  | nil => simp [esc0, repl2]
  | cons c k ih =>
    have hc' : esc0 (c :: k) = (if c = '~' then ['~', '0'] else [c]) ++ esc0 k := by
      simp [esc0]
    rw [hc']
    by_cases h1 : c = '~'
    · subst h1
      simp only [if_true, List.cons_append, List.nil_append]
      rw [repl2_hit, ih]
    · simp only [if_neg h1, List.cons_append, List.nil_append]
      rw [repl2_cons_ne _ _ _ _ _ h1, ih]

theorem unescape_escape (k : Str) : unescapeToken (Spec.escapeToken k) = k := by
  unfold unescapeToken
  rw [repl2_escapeToken, repl2_esc0]

/-! ### (b) `splitOn` inverts the join -/

theorem slash_not_mem_escapeToken (k : Str) : '/' ∉ Spec.escapeToken k := by
  unfold Spec.escapeToken
  simp only [List.mem_flatMap, not_exists, not_and]
  intro c _
  by_cases h1 : c = '~'
  · subst h1; simp
  · by_cases h2 : c = '/'
    · subst h2; simp
    · simp only [if_neg h1, if_neg h2, List.mem_singleton]
      exact fun h => h2 h.symm

theorem splitOn_no_sep (c : Char) (t : Str) (h : c ∉ t) : splitOn c t = [t] := by
  induction t with
  | nil => simp [splitOn]
  | cons x t ih =>
    have hx : x ≠ c := fun e => h (by simp [e])
    have ht : c ∉ t := fun e => h (by simp [e])
    simp [splitOn, hx, ih ht]

theorem splitOn_append_sep (c : Char) (t rest : Str) (h : c ∉ t) :
    splitOn c (t ++ c :: rest) = t :: splitOn c rest := by
  induction t with
  | nil => simp [splitOn]
  | cons x t ih =>
    have hx : x ≠ c := fun e => h (by simp [e])
    have ht : c ∉ t := fun e => h (by simp [e])
    simp [splitOn, hx, ih ht]

theorem pointerString_cons (t : Str) (ts : List Str) :
    Spec.pointerString (t :: ts) = '/' :: (Spec.escapeToken t ++ Spec.pointerString ts) := by
  simp [Spec.pointerString]

theorem splitOn_pointerString (t : Str) (ts : List Str) :
    splitOn '/' (Spec.escapeToken t ++ Spec.pointerString ts)
      = Spec.escapeToken t :: ts.map Spec.escapeToken := by
  induction ts generalizing t with
  | nil =>
    simp only [Spec.pointerString, List.flatMap_nil, List.append_nil, List.map_nil]
    exact splitOn_no_sep _ _ (slash_not_mem_escapeToken t)
  | cons u ts ih =>
    rw [pointerString_cons, splitOn_append_sep _ _ _ (slash_not_mem_escapeToken t), ih]
    rfl

theorem fragmentTokens_of_unquote (fragment : Str) (toks : List Str)
    (h : unquote fragment = Spec.pointerString toks) : fragmentTokens fragment = toks := by
  unfold fragmentTokens
  rw [h]
  cases toks with
  | nil => simp [Spec.pointerString]
  | cons t ts =>
    rw [pointerString_cons]
    simp only [splitOn_pointerString, List.map_cons, List.map_map]
    rw [unescape_escape]
    congr 1
    have : (unescapeToken ∘ Spec.escapeToken) = id := funext unescape_escape
    rw [this, List.map_id]

end PointerProofs
end JS
