/-
  The budget-prefix law (C04, C07, C18): what a consumer that pulls `k` errors and then closes
  the iterator sees is exactly the first `k` errors of the exhaustive run.

  `Lawful` is closed under the generator combinators (`lawfulClosed`), hence holds of the whole
  evaluator (`lawful_eval`, via JS.Proofs.Framework).  `Closed.stop` is restricted to
  `s ≠ .budget`: `stopG .budget` violates `nobudget` (`not_lawful_stopG_budget`) and is never
  built by the model.

  `PrefixLaw` (fields `short`, `long`) and `NoBudget` (field `nobudget`) are the two halves of
  `Lawful` (`lawful_iff`); each is closed on its own, `PrefixLaw` even under `stopG .budget`.
-/
import JS.Proofs.Framework
namespace JS

/-- the budget-prefix law for one generator -/
structure Lawful (g : Gen) : Prop where
  /-- an exhaustive run never stops "because the consumer stopped" -/
  nobudget : ∀ st, (g none st).stop ≠ .budget
  /-- a consumer willing to take more errors than there are sees the exhaustive run -/
  short : ∀ st k, (g none st).errs.length < k → g (some k) st = g none st
  /-- a consumer that takes `k ≥ 1` errors, of which there are at least `k`, sees the first `k`
      and the generator is closed at the `k`-th `yield` -/
  long : ∀ st k, 0 < k → k ≤ (g none st).errs.length →
      (g (some k) st).errs = (g none st).errs.take k ∧ (g (some k) st).stop = .budget

/-- `Lawful` without `nobudget`: the part that is closed under all combinators -/
structure PrefixLaw (g : Gen) : Prop where
  short : ∀ st k, (g none st).errs.length < k → g (some k) st = g none st
  long : ∀ st k, 0 < k → k ≤ (g none st).errs.length →
      (g (some k) st).errs = (g none st).errs.take k ∧ (g (some k) st).stop = .budget

/-- the field `nobudget` of `Lawful` on its own -/
structure NoBudget (g : Gen) : Prop where
  nobudget : ∀ st, (g none st).stop ≠ .budget

theorem lawful_iff {g : Gen} : Lawful g ↔ NoBudget g ∧ PrefixLaw g :=
  ⟨fun h => ⟨⟨h.nobudget⟩, ⟨h.short, h.long⟩⟩, fun h => ⟨h.1.nobudget, h.2.short, h.2.long⟩⟩

theorem Lawful.prefixLaw {g : Gen} (h : Lawful g) : PrefixLaw g := (lawful_iff.1 h).2

/-! ### equations for the combinators -/

theorem andThen_done {g h : Gen} {b : Option Nat} {st st' : RState} {es : List Err}
    (heq : g b st = ⟨es, .done, st'⟩) :
    andThen g h b st =
      ⟨es ++ (h (budgetSub b es.length) st').errs, (h (budgetSub b es.length) st').stop,
        (h (budgetSub b es.length) st').st⟩ := by
  unfold andThen
  rw [heq]

theorem andThen_notDone {g h : Gen} {b : Option Nat} {st : RState}
    (hne : (g b st).stop ≠ .done) : andThen g h b st = g b st := by
  unfold andThen
  split
  · rename_i heq
    rw [heq] at hne
    exact absurd rfl hne
  · rfl

theorem mapErrs_eq (f : Err → Err) (g : Gen) (b : Option Nat) (st : RState) :
    mapErrs f g b st = ⟨(g b st).errs.map f, (g b st).stop, (g b st).st⟩ := rfl

theorem withScope_none {env : Env} {scope : Str} {g : Gen} {b : Option Nat} {st : RState}
    (hu : env.urljoin st.top scope = none) :
    withScope env scope g b st = ⟨[], .miss (.urljoin st.top scope), st⟩ := by
  unfold withScope
  rw [hu]

theorem withScope_some {env : Env} {scope : Str} {g : Gen} {b : Option Nat} {st : RState} {u : Str}
    (hu : env.urljoin st.top scope = some u) :
    withScope env scope g b st =
      ⟨(g b { st with scopes := u :: st.scopes }).errs,
       (g b { st with scopes := u :: st.scopes }).stop,
       { (g b { st with scopes := u :: st.scopes }).st with
          scopes := (g b { st with scopes := u :: st.scopes }).st.scopes.tail }⟩ := by
  unfold withScope
  rw [hu]

/-- at every state, `g` behaves (for every budget) like a generator satisfying the law, started
    in some state that does not depend on the budget -/
theorem PrefixLaw.of_pointwise {g : Gen}
    (h : ∀ st, ∃ (g' : Gen) (st' : RState), PrefixLaw g' ∧ ∀ b, g b st = g' b st') :
    PrefixLaw g := by
  refine ⟨fun st k hk => ?_, fun st k h0 hk => ?_⟩
  · obtain ⟨g', st', hl, he⟩ := h st
    rw [he none] at hk
    rw [he none, he (some k)]
    exact hl.short st' k hk
  · obtain ⟨g', st', hl, he⟩ := h st
    rw [he none] at hk
    rw [he none, he (some k)]
    exact hl.long st' k h0 hk

theorem NoBudget.of_pointwise {g : Gen}
    (h : ∀ st, ∃ (g' : Gen) (st' : RState), NoBudget g' ∧ ∀ b, g b st = g' b st') :
    NoBudget g := by
  refine ⟨fun st => ?_⟩
  obtain ⟨g', st', hl, he⟩ := h st
  rw [he none]
  exact hl.nobudget st'

/-! ### `PrefixLaw` is closed under every combinator -/

theorem prefixLaw_emit (es : List Err) : PrefixLaw (emit es) := by
  refine ⟨fun st k hk => ?_, fun st k h0 hk => ?_⟩
  · simp only [emit] at hk ⊢
    rw [if_pos hk]
  · simp only [emit] at hk ⊢
    rw [if_neg (by omega)]
    exact ⟨rfl, rfl⟩

theorem prefixLaw_stopG (s : Stop) : PrefixLaw (stopG s) := by
  refine ⟨fun st k _ => rfl, fun st k h0 hk => ?_⟩
  simp only [stopG, List.length_nil] at hk
  omega

theorem prefixLaw_andThen {g h : Gen} (hg : PrefixLaw g) (hh : PrefixLaw h) :
    PrefixLaw (andThen g h) := by
  refine ⟨fun st k hk => ?_, fun st k h0 hk => ?_⟩
  · rcases hgn : g none st with ⟨es, s, st'⟩
    by_cases hs : s = .done
    · subst hs
      have hb : budgetSub (some k) es.length = some (k - es.length) := rfl
      have hb' : budgetSub none es.length = none := rfl
      rw [andThen_done hgn, hb'] at hk ⊢
      simp only [List.length_append] at hk
      have hgk : g (some k) st = ⟨es, .done, st'⟩ := by
        rw [hg.short st k (by rw [hgn]; dsimp only; omega), hgn]
      rw [andThen_done hgk, hb]
      rw [hh.short st' (k - es.length) (by omega)]
    · have hne : (g none st).stop ≠ .done := by rw [hgn]; exact hs
      rw [andThen_notDone hne] at hk ⊢
      have hgk := hg.short st k hk
      rw [andThen_notDone (by rw [hgk]; exact hne)]
      exact hgk
  · rcases hgn : g none st with ⟨es, s, st'⟩
    by_cases hs : s = .done
    · subst hs
      rw [andThen_done hgn] at hk ⊢
      have hb' : budgetSub none es.length = none := rfl
      rw [hb'] at hk ⊢
      simp only [List.length_append] at hk
      dsimp only
      by_cases hle : k ≤ es.length
      · obtain ⟨h1, h2⟩ := hg.long st k h0 (by rw [hgn]; exact hle)
        rw [andThen_notDone (by rw [h2]; nofun)]
        refine ⟨?_, h2⟩
        rw [h1, hgn]
        dsimp only
        rw [List.take_append_of_le_length hle]
      · have hgk : g (some k) st = ⟨es, .done, st'⟩ := by
          rw [hg.short st k (by rw [hgn]; dsimp only; omega), hgn]
        rw [andThen_done hgk]
        have hb : budgetSub (some k) es.length = some (k - es.length) := rfl
        rw [hb]
        dsimp only
        obtain ⟨h1, h2⟩ := hh.long st' (k - es.length) (by omega) (by omega)
        refine ⟨?_, h2⟩
        rw [h1, List.take_append, List.take_of_length_le (l := es) (i := k) (by omega)]
    · have hne : (g none st).stop ≠ .done := by rw [hgn]; exact hs
      rw [andThen_notDone hne] at hk ⊢
      obtain ⟨h1, h2⟩ := hg.long st k h0 hk
      rw [andThen_notDone (by rw [h2]; nofun)]
      exact ⟨h1, h2⟩

theorem prefixLaw_mapErrs (f : Err → Err) {g : Gen} (hg : PrefixLaw g) :
    PrefixLaw (mapErrs f g) := by
  refine ⟨fun st k hk => ?_, fun st k h0 hk => ?_⟩
  · rw [mapErrs_eq] at hk
    simp only [List.length_map] at hk
    rw [mapErrs_eq, mapErrs_eq, hg.short st k hk]
  · rw [mapErrs_eq] at hk
    simp only [List.length_map] at hk
    obtain ⟨h1, h2⟩ := hg.long st k h0 hk
    rw [mapErrs_eq, mapErrs_eq]
    dsimp only
    rw [h1, h2, List.map_take]
    exact ⟨rfl, rfl⟩

/-- `inner` runs `g` with its own budget: nothing is needed of `g` -/
theorem prefixLaw_inner {g : Gen} (b' : Option Nat) (k : List Err → Gen)
    (hk : ∀ es, PrefixLaw (k es)) : PrefixLaw (inner g b' k) := by
  apply PrefixLaw.of_pointwise
  intro st
  rcases hg : g b' st with ⟨es, s, st'⟩
  cases s with
  | done => exact ⟨k es, st', hk es, fun b => by unfold inner; rw [hg]⟩
  | budget => exact ⟨k es, st', hk es, fun b => by unfold inner; rw [hg]⟩
  | raised e => exact ⟨stopG (.raised e), st', prefixLaw_stopG _, fun b => by unfold inner; rw [hg]; rfl⟩
  | fuel => exact ⟨stopG .fuel, st', prefixLaw_stopG _, fun b => by unfold inner; rw [hg]; rfl⟩
  | miss q => exact ⟨stopG (.miss q), st', prefixLaw_stopG _, fun b => by unfold inner; rw [hg]; rfl⟩

theorem prefixLaw_withScope (env : Env) (scope : Str) {g : Gen} (hg : PrefixLaw g) :
    PrefixLaw (withScope env scope g) := by
  refine ⟨fun st k hk => ?_, fun st k h0 hk => ?_⟩
  · cases hu : env.urljoin st.top scope with
    | none => rw [withScope_none hu, withScope_none hu]
    | some u =>
      rw [withScope_some hu] at hk ⊢
      dsimp only at hk
      rw [withScope_some hu, hg.short _ k hk]
  · cases hu : env.urljoin st.top scope with
    | none =>
      rw [withScope_none hu] at hk
      simp only [List.length_nil] at hk
      omega
    | some u =>
      rw [withScope_some hu] at hk ⊢
      dsimp only at hk ⊢
      rw [withScope_some hu]
      exact hg.long _ k h0 hk

theorem prefixLaw_kwRef (env : Env) {rec : Rec} (hrec : ∀ i s, PrefixLaw (rec i s))
    (ref inst : Json) : PrefixLaw (kwRef env rec ref inst) := by
  refine kwRef_cases (P := PrefixLaw) (fun {g h} hg hh => ?_) (fun r => ?_) (prefixLaw_stopG _) (prefixLaw_stopG _) ref
  · refine PrefixLaw.of_pointwise (fun st => ?_)
    by_cases e : st.top.isEmpty
    · exact ⟨g, st, hg, fun b => by unfold ifTopEmpty; rw [if_pos e]⟩
    · exact ⟨h, st, hh, fun b => by unfold ifTopEmpty; rw [if_neg e]⟩
  apply PrefixLaw.of_pointwise
  intro st
  rcases hr : resolve env r st with ⟨res, st1⟩
  cases res with
  | ok p =>
    obtain ⟨url, target⟩ := p
    exact ⟨withScope env url (rec inst target), st1, prefixLaw_withScope env url (hrec inst target),
      fun b => by rw [kwRef_str]; simp only [hr]⟩
  | raise e =>
    exact ⟨stopG (.raised e), st1, prefixLaw_stopG _, fun b => by rw [kwRef_str]; simp only [hr]; rfl⟩
  | miss q =>
    exact ⟨stopG (.miss q), st1, prefixLaw_stopG _, fun b => by rw [kwRef_str]; simp only [hr]; rfl⟩

theorem prefixLawClosed (env : Env) : Closed env PrefixLaw where
  emit := prefixLaw_emit
  nothing := ⟨fun _ _ _ => rfl, fun st k hk hle => by simp [nothing] at hle; omega⟩
  stop := fun s _ => prefixLaw_stopG s
  andThen := prefixLaw_andThen
  mapErrs := prefixLaw_mapErrs
  inner := fun b' k _ hk => prefixLaw_inner b' k hk
  withScope := prefixLaw_withScope env
  kwRef := fun hrec ref inst => prefixLaw_kwRef env hrec ref inst

/-- the budget-prefix law (`short` and `long`) for the whole evaluator, every fuel -/
theorem prefixLaw_eval (env : Env) (impl : FmtImpl) (cfg : Cfg) (fuel : Nat) :
    ∀ i s, PrefixLaw (eval env impl cfg fuel i s) :=
  P_eval (prefixLawClosed env) impl cfg fuel

/-! ### `nobudget`: closed under every combinator (`stopG s` for `s ≠ .budget`) -/

theorem noBudget_emit (es : List Err) : NoBudget (emit es) := ⟨fun _ => nofun⟩

theorem noBudget_stopG {s : Stop} (hs : s ≠ .budget) : NoBudget (stopG s) := ⟨fun _ => hs⟩

theorem noBudget_andThen {g h : Gen} (hg : NoBudget g) (hh : NoBudget h) :
    NoBudget (andThen g h) := by
  refine ⟨fun st => ?_⟩
  rcases hgn : g none st with ⟨es, s, st'⟩
  by_cases hs : s = .done
  · subst hs
    rw [andThen_done hgn]
    exact hh.nobudget st'
  · have hne : (g none st).stop ≠ .done := by rw [hgn]; exact hs
    rw [andThen_notDone hne]
    exact hg.nobudget st

theorem noBudget_mapErrs (f : Err → Err) {g : Gen} (hg : NoBudget g) : NoBudget (mapErrs f g) :=
  ⟨fun st => hg.nobudget st⟩

theorem noBudget_inner {g : Gen} (b' : Option Nat) (k : List Err → Gen)
    (hk : ∀ es, NoBudget (k es)) : NoBudget (inner g b' k) := by
  apply NoBudget.of_pointwise
  intro st
  rcases hg : g b' st with ⟨es, s, st'⟩
  cases s with
  | done => exact ⟨k es, st', hk es, fun b => by unfold inner; rw [hg]⟩
  | budget => exact ⟨k es, st', hk es, fun b => by unfold inner; rw [hg]⟩
  | raised e => exact ⟨stopG (.raised e), st', noBudget_stopG nofun, fun b => by unfold inner; rw [hg]; rfl⟩
  | fuel => exact ⟨stopG .fuel, st', noBudget_stopG nofun, fun b => by unfold inner; rw [hg]; rfl⟩
  | miss q => exact ⟨stopG (.miss q), st', noBudget_stopG nofun, fun b => by unfold inner; rw [hg]; rfl⟩

theorem noBudget_withScope (env : Env) (scope : Str) {g : Gen} (hg : NoBudget g) :
    NoBudget (withScope env scope g) := by
  refine ⟨fun st => ?_⟩
  cases hu : env.urljoin st.top scope with
  | none => rw [withScope_none hu]; nofun
  | some u => rw [withScope_some hu]; exact hg.nobudget _

theorem noBudget_kwRef (env : Env) {rec : Rec} (hrec : ∀ i s, NoBudget (rec i s))
    (ref inst : Json) : NoBudget (kwRef env rec ref inst) := by
  refine kwRef_cases (P := NoBudget) (fun {g h} hg hh => ?_) (fun r => ?_) (noBudget_stopG nofun) (noBudget_stopG nofun) ref
  · refine NoBudget.of_pointwise (fun st => ?_)
    by_cases e : st.top.isEmpty
    · exact ⟨g, st, hg, fun b => by unfold ifTopEmpty; rw [if_pos e]⟩
    · exact ⟨h, st, hh, fun b => by unfold ifTopEmpty; rw [if_neg e]⟩
  apply NoBudget.of_pointwise
  intro st
  rcases hr : resolve env r st with ⟨res, st1⟩
  cases res with
  | ok p =>
    obtain ⟨url, target⟩ := p
    exact ⟨withScope env url (rec inst target), st1, noBudget_withScope env url (hrec inst target),
      fun b => by rw [kwRef_str]; simp only [hr]⟩
  | raise e =>
    exact ⟨stopG (.raised e), st1, noBudget_stopG nofun, fun b => by rw [kwRef_str]; simp only [hr]; rfl⟩
  | miss q =>
    exact ⟨stopG (.miss q), st1, noBudget_stopG nofun, fun b => by rw [kwRef_str]; simp only [hr]; rfl⟩

/-! ### `Lawful`: one lemma per combinator -/

theorem lawful_emit (es : List Err) : Lawful (emit es) :=
  lawful_iff.2 ⟨noBudget_emit es, prefixLaw_emit es⟩

theorem lawful_stopG {s : Stop} (hs : s ≠ .budget) : Lawful (stopG s) :=
  lawful_iff.2 ⟨noBudget_stopG hs, prefixLaw_stopG s⟩

theorem lawful_andThen {g h : Gen} (hg : Lawful g) (hh : Lawful h) : Lawful (andThen g h) :=
  lawful_iff.2 ⟨noBudget_andThen (lawful_iff.1 hg).1 (lawful_iff.1 hh).1,
    prefixLaw_andThen hg.prefixLaw hh.prefixLaw⟩

theorem lawful_mapErrs (f : Err → Err) {g : Gen} (hg : Lawful g) : Lawful (mapErrs f g) :=
  lawful_iff.2 ⟨noBudget_mapErrs f (lawful_iff.1 hg).1, prefixLaw_mapErrs f hg.prefixLaw⟩

theorem lawful_inner {g : Gen} (b' : Option Nat) (k : List Err → Gen)
    (hk : ∀ es, Lawful (k es)) : Lawful (inner g b' k) :=
  lawful_iff.2 ⟨noBudget_inner b' k (fun es => (lawful_iff.1 (hk es)).1),
    prefixLaw_inner b' k (fun es => (hk es).prefixLaw)⟩

theorem lawful_withScope (env : Env) (scope : Str) {g : Gen} (hg : Lawful g) :
    Lawful (withScope env scope g) :=
  lawful_iff.2 ⟨noBudget_withScope env scope (lawful_iff.1 hg).1,
    prefixLaw_withScope env scope hg.prefixLaw⟩

theorem lawful_kwRef (env : Env) {rec : Rec} (hrec : ∀ i s, Lawful (rec i s))
    (ref inst : Json) : Lawful (kwRef env rec ref inst) :=
  lawful_iff.2 ⟨noBudget_kwRef env (fun i s => (lawful_iff.1 (hrec i s)).1) ref inst,
    prefixLaw_kwRef env (fun i s => (hrec i s).prefixLaw) ref inst⟩

/-- `stopG .budget` violates `nobudget`: its exhaustive run stops with `.budget`
    (this is why `Closed.stop` is restricted to `s ≠ .budget`) -/
theorem not_lawful_stopG_budget : ¬ Lawful (stopG .budget) :=
  fun h => h.nobudget default rfl

/-- `Lawful` is closed under the generator combinators -/
theorem lawfulClosed (env : Env) : Closed env Lawful where
  emit := lawful_emit
  nothing := ⟨fun _ h => by simp [nothing] at h, fun _ _ _ => rfl, fun st k hk hle => by simp [nothing] at hle; omega⟩
  stop := fun _ hs => lawful_stopG hs
  andThen := lawful_andThen
  mapErrs := lawful_mapErrs
  inner := fun b' k _ hk => lawful_inner b' k hk
  withScope := lawful_withScope env
  kwRef := fun hrec ref inst => lawful_kwRef env hrec ref inst

/-- **the budget-prefix law** for the whole evaluator, every fuel -/
theorem lawful_eval (env : Env) (impl : FmtImpl) (cfg : Cfg) (fuel : Nat) :
    ∀ i s, Lawful (eval env impl cfg fuel i s) :=
  P_eval (lawfulClosed env) impl cfg fuel

/-! ### consequences for the entry points (C04) -/

theorem PrefixLaw.isValid_spec {g : Gen} (L : PrefixLaw g) (st : RState) :
    (isValid g st).1 =
      match (g none st).errs, (g none st).stop with
      | [], .done => .ok true
      | [], .raised e => .raise e
      | [], s => .other s
      | _ :: _, _ => .ok false := by
  rcases hn : g none st with ⟨es, s, st'⟩
  cases es with
  | nil =>
    have h1 := L.short st 1 (by rw [hn]; exact Nat.zero_lt_one)
    unfold isValid
    rw [h1, hn]
    cases s <;> rfl
  | cons e es =>
    obtain ⟨h1, _⟩ := L.long st 1 Nat.zero_lt_one (by rw [hn]; simp)
    rw [hn] at h1
    unfold isValid
    rcases h1k : g (some 1) st with ⟨es1, s1, st1⟩
    rw [h1k] at h1
    simp only [List.take_succ_cons, List.take_zero] at h1
    subst h1
    rfl

theorem PrefixLaw.validate_spec {g : Gen} (L : PrefixLaw g) (st : RState) :
    (validateM g st).1 =
      match (g none st).errs, (g none st).stop with
      | [], .done => .ok ()
      | [], .raised e => .raise e
      | [], s => .other s
      | e :: _, _ => .invalid e := by
  rcases hn : g none st with ⟨es, s, st'⟩
  cases es with
  | nil =>
    have h1 := L.short st 1 (by rw [hn]; exact Nat.zero_lt_one)
    unfold validateM
    rw [h1, hn]
    cases s <;> rfl
  | cons e es =>
    obtain ⟨h1, _⟩ := L.long st 1 Nat.zero_lt_one (by rw [hn]; simp)
    rw [hn] at h1
    unfold validateM
    rcases h1k : g (some 1) st with ⟨es1, s1, st1⟩
    rw [h1k] at h1
    simp only [List.take_succ_cons, List.take_zero] at h1
    subst h1
    rfl

theorem PrefixLaw.take_prefix {g : Gen} (L : PrefixLaw g) (st : RState) (k : Nat) (hk : 0 < k) :
    (g (some k) st).errs = (g none st).errs.take k := by
  by_cases h : k ≤ (g none st).errs.length
  · exact (L.long st k hk h).1
  · rw [L.short st k (by omega), List.take_of_length_le (by omega)]

theorem PrefixLaw.entry_points_agree {g : Gen} (L : PrefixLaw g) (st : RState)
    (hdone : (g none st).stop = .done) :
    ((isValid g st).1 = .ok true ↔ (g none st).errs = [])
    ∧ ((validateM g st).1 = .ok () ↔ (g none st).errs = []) := by
  rw [L.isValid_spec st, L.validate_spec st, hdone]
  cases (g none st).errs with
  | nil => exact ⟨⟨fun _ => rfl, fun _ => rfl⟩, ⟨fun _ => rfl, fun _ => rfl⟩⟩
  | cons e es => exact ⟨⟨nofun, nofun⟩, ⟨nofun, nofun⟩⟩

end JS
