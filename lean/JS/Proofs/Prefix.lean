/-
  The budget-prefix law (C04, C07, C18): what a consumer that pulls `k` errors and then closes
  the iterator sees is exactly the first `k` errors of the exhaustive run.
  `Lawful` is closed under the generator combinators, hence holds of the whole evaluator
  (JS.Proofs.Framework).
-/
import JS.Proofs.Framework
namespace JS

/-- the budget-prefix law for one generator -/
structure Lawful (g : Gen) : Prop where
  /-- an exhaustive run never stops "because the consumer stopped" -/
  nobudget : ∀ st, (g none st).stop ≠ .budget
  /-- a consumer willing to take more errors than there are sees the exhaustive run -/
  short : ∀ st k, (g none st).errs.length < k → g (some k) st = g none st
  /-- a consumer that takes `k ≥ 1` errors, of which there are at least `k`, sees the first `k`
      and the generator is closed at the `k`-th `yield` -/
  long : ∀ st k, 0 < k → k ≤ (g none st).errs.length →
      (g (some k) st).errs = (g none st).errs.take k ∧ (g (some k) st).stop = .budget

-- TO PROVE (proof development): `theorem lawfulClosed (env : Env) : Closed env Lawful`
-- and `theorem lawful_eval (env impl cfg fuel) : ∀ i s, Lawful (eval env impl cfg fuel i s)`.

end JS
