/- Helper lemmas for C02: what the `$ref` keyword does to a schema object (`evalStep_ref`), the
   exact shape of one `resolve` (`RStep`, a refinement of C15's `Step` that also says what is
   written to the memo), and state invariants of the evaluator that only depend on `resolve`
   (`Keeps`, `StInv`) with the two memo invariants `MemoSoundS` (memo entries are backed by the
   store) and `MemoBackedS` (… by the store or by a document this resolver fetched). -/
import JS.Proofs.Pointer
import JS.Proofs.Scope
import JS.Proofs.Store
import JS.Proofs.Inert
import JS.Drafts
import JS.Spec.Pointer
namespace JS

/-! ### lookups in the memo -/

theorem memoLookup_of_none {k : Str} {memo : List (Str × Json)} (h : Json.lookup k memo = none) :
    memoLookup k memo = none := by
  simp only [memoLookup, h]

theorem memoLookup_of_some {k : Str} {v : Json} {memo : List (Str × Json)}
    (h : Json.lookup k memo = some v) :
    memoLookup k memo = some (v, (k, v) :: memo.filter (fun p => p.1 ≠ k)) := by
  simp only [memoLookup, h]

theorem lookup_filter_ne {k k' : Str} (hne : k' ≠ k) (l : List (Str × Json)) :
    Json.lookup k' (l.filter (fun p => p.1 ≠ k)) = Json.lookup k' l := by
  induction l with
  | nil => rfl
  | cons p rest ih =>
    obtain ⟨k1, v1⟩ := p
    by_cases h1 : k1 = k
    · subst h1
      have h2 : ¬ k1 = k' := fun h => hne h.symm
      rw [List.filter_cons_of_neg (by simp), ih]
      simp only [Json.lookup, h2, if_false]
    · rw [List.filter_cons_of_pos (by simpa using h1)]
      by_cases h2 : k1 = k'
      · simp only [Json.lookup, h2, if_true]
      · simp only [Json.lookup, h2, if_false, ih]

/-- a hit reorders the memo, it does not change what it holds -/
theorem lookup_memo_hit {url k : Str} {v w : Json} {memo : List (Str × Json)}
    (hl : Json.lookup url memo = some v)
    (h : Json.lookup k ((url, v) :: memo.filter (fun p => p.1 ≠ url)) = some w) :
    Json.lookup k memo = some w := by
  by_cases he : url = k
  · subst he
    simp only [Json.lookup, if_true] at h
    rw [hl, ← h]
  · have hne : k ≠ url := fun h' => he h'.symm
    simp only [Json.lookup, he, if_false] at h
    rw [lookup_filter_ne hne] at h
    exact h

theorem lookup_take {k : Str} {w : Json} :
    ∀ (n : Nat) (l : List (Str × Json)), Json.lookup k (l.take n) = some w → Json.lookup k l = some w
  | 0, l, h => by simp [Json.lookup] at h
  | _ + 1, [], h => by simp [Json.lookup] at h
  | n + 1, (k1, v1) :: rest, h => by
    rw [List.take_succ_cons] at h
    by_cases h1 : k1 = k
    · simp only [Json.lookup, h1, if_true] at h ⊢
      exact h
    · simp only [Json.lookup, h1, if_false] at h ⊢
      exact lookup_take n rest h

/-- an entry of the memo after an insertion is the inserted one or was there before -/
theorem lookup_memoInsert {cap : Option Nat} {url k : Str} {v w : Json} {memo : List (Str × Json)}
    (h : Json.lookup k (memoInsert cap url v memo) = some w) :
    (k = url ∧ w = v) ∨ Json.lookup k memo = some w := by
  have h' : Json.lookup k ((url, v) :: memo) = some w := by
    unfold memoInsert at h
    cases cap with
    | none => exact h
    | some n => exact lookup_take n _ h
  by_cases he : url = k
  · left
    simp only [Json.lookup, he, if_true] at h'
    exact ⟨he.symm, (Option.some.inj h').symm⟩
  · right
    simp only [Json.lookup, he, if_false] at h'
    exact h'

/-! ### one `resolve`, exactly -/

/-- what one call of `resolve` does to the resolver state, including what it writes to the memo:
    nothing (an oracle miss, or a fragment that addresses nothing in a stored document); a memo hit
    (reordering); a store hit (the value the fragment addresses in the stored document is
    memoised); a failed retrieval; a successful retrieval of a document whose key was not in the
    store (memoised value = what the fragment addresses in the *fetched* document, if anything) -/
inductive RStep (env : Env) (st : RState) : RState → Prop
  | same : RStep env st st
  | hit (url : Str) (v : Json) : Json.lookup url st.memo = some v →
      RStep env st { st with memo := (url, v) :: st.memo.filter (fun p => p.1 ≠ url) }
  | loc (url u frag key : Str) (doc v : Json) :
      env.urldefrag url = some (u, frag) → env.urinorm u = some key →
      Json.lookup key st.store = some doc → resolveFragment doc frag = some v →
      RStep env st { st with memo := memoInsert st.memoCap url v st.memo }
  | fail (u : Str) :
      RStep env st { st with clock := st.clock + 1, fetchLog := st.fetchLog ++ [(u, false)] }
  | fetched (url u frag key : Str) (doc : Json) (m : List (Str × Json)) :
      env.urldefrag url = some (u, frag) → env.urinorm u = some key →
      Json.lookup key st.store = none → env.fetch st.clock u = some (some doc) →
      (m = st.memo ∨ ∃ v, resolveFragment doc frag = some v ∧ m = memoInsert st.memoCap url v st.memo) →
      RStep env st { st with memo := m, clock := st.clock + 1, fetchLog := st.fetchLog ++ [(u, true)],
                             store := if st.cacheRemote then storeSet key doc st.store else st.store }

theorem resolve_rstep (env : Env) (ref : Str) (st : RState) : RStep env st (resolve env ref st).2 := by
  unfold resolve
  cases hj : env.urljoin st.top ref with
  | none => exact RStep.same
  | some url =>
    dsimp only
    cases hl : Json.lookup url st.memo with
    | some v =>
      rw [memoLookup_of_some hl]
      exact RStep.hit url v hl
    | none =>
      rw [memoLookup_of_none hl]
      dsimp only
      unfold resolveFromUrl
      cases hd : env.urldefrag url with
      | none => exact RStep.same
      | some p =>
        obtain ⟨u, frag⟩ := p
        dsimp only
        cases hn : env.urinorm u with
        | none => exact RStep.same
        | some key =>
          dsimp only
          cases hs : Json.lookup key st.store with
          | some doc =>
            dsimp only [fragRes]
            cases hf : resolveFragment doc frag with
            | none => exact RStep.same
            | some v => exact RStep.loc url u frag key doc v hd hn hs hf
          | none =>
            dsimp only
            unfold resolveRemote
            cases hfe : env.fetch st.clock u with
            | none => exact RStep.same
            | some o =>
              cases o with
              | none => exact RStep.fail u
              | some doc =>
                dsimp only [fragRes]
                cases hf : resolveFragment doc frag with
                | none => exact RStep.fetched url u frag key doc st.memo hd hn hs hfe (Or.inl rfl)
                | some v =>
                  exact RStep.fetched url u frag key doc _ hd hn hs hfe (Or.inr ⟨v, hf, rfl⟩)

/-! ### state invariants of the evaluator that only depend on `resolve` -/

/-- the generator keeps the state predicate `I` -/
structure Keeps (I : RState → Prop) (g : Gen) : Prop where
  keeps : ∀ b st, I st → I (g b st).st

/-- a predicate on resolver states that ignores the scope stack and that `resolve` keeps -/
structure StInv (env : Env) (I : RState → Prop) : Prop where
  scopes : ∀ {st : RState} (x : List Str), I st → I { st with scopes := x }
  resolve : ∀ ref st, I st → I (resolve env ref st).2

section
variable {env : Env} {I : RState → Prop} (H : StInv env I)

theorem keeps_emit (es : List Err) : Keeps I (emit es) := by
  refine ⟨fun b st h => ?_⟩
  have : (emit es b st).st = st := by
    unfold emit
    cases b with
    | none => rfl
    | some k => dsimp only; split <;> rfl
  rw [this]
  exact h

theorem keeps_andThen {g h : Gen} (hg : Keeps I g) (hh : Keeps I h) : Keeps I (andThen g h) := by
  refine ⟨fun b st hi => ?_⟩
  have h1 := hg.keeps b st hi
  unfold andThen
  split
  · rename_i es st' heq
    rw [heq] at h1
    exact hh.keeps (budgetSub b es.length) st' h1
  · exact h1

theorem keeps_inner {g : Gen} (b' : Option Nat) (k : List Err → Gen)
    (hg : Keeps I g) (hk : ∀ es, Keeps I (k es)) : Keeps I (inner g b' k) := by
  refine ⟨fun b st hi => ?_⟩
  have h1 := hg.keeps b' st hi
  unfold inner
  split
  · rename_i es st' heq
    rw [heq] at h1
    exact (hk es).keeps b st' h1
  · rename_i es st' heq
    rw [heq] at h1
    exact (hk es).keeps b st' h1
  · rename_i s st' _ _ heq
    rw [heq] at h1
    exact h1

include H

theorem keeps_withScope (scope : Str) {g : Gen} (hg : Keeps I g) :
    Keeps I (withScope env scope g) := by
  refine ⟨fun b st hi => ?_⟩
  unfold withScope
  split
  · exact hi
  · rename_i u _
    have h1 := hg.keeps b { st with scopes := u :: st.scopes } (H.scopes _ hi)
    exact H.scopes (g b { st with scopes := u :: st.scopes }).st.scopes.tail h1

theorem keeps_kwRef {rec : Rec} (hrec : ∀ i s, Keeps I (rec i s)) (ref inst : Json) :
    Keeps I (kwRef env rec ref inst) := by
  refine kwRef_cases (P := Keeps I) (fun hg hh => ⟨fun b st hi => ?_⟩) (fun r => ⟨fun b st hi => ?_⟩)
    ⟨fun _ _ hi => hi⟩ ⟨fun _ _ hi => hi⟩ ref
  · unfold ifTopEmpty; split
    · exact hg.keeps b st hi
    · exact hh.keeps b st hi
  rw [kwRef_str]
  have h := H.resolve r st hi
  split
  · rename_i url target st1 heq
    rw [heq] at h
    exact (keeps_withScope H url (hrec inst target)).keeps b st1 h
  · rename_i heq; rw [heq] at h; exact h
  · rename_i heq; rw [heq] at h; exact h

theorem keepsClosed : Closed env (Keeps I) where
  emit := keeps_emit
  nothing := ⟨fun _ _ h => h⟩
  stop := fun _ _ => ⟨fun _ _ h => h⟩
  andThen := keeps_andThen
  mapErrs := fun _ _ hg => ⟨fun b st h => hg.keeps b st h⟩
  inner := keeps_inner
  withScope := keeps_withScope H
  kwRef := fun hrec ref inst => keeps_kwRef H hrec ref inst

theorem keeps_eval (impl : FmtImpl) (cfg : Cfg) (fuel : Nat) (i s : Json) (b : Option Nat) (st : RState)
    (h : I st) : I (eval env impl cfg fuel i s b st).st :=
  (P_eval (keepsClosed H) impl cfg fuel i s).keeps b st h

theorem keeps_stepOp (impl : FmtImpl) (cfg : Cfg) (fuel : Nat) (schema : Json) (st : RState) (op : Op)
    (h : I st) : I (stepOp env impl cfg fuel schema st op).2 := by
  rcases stepOp_cases env impl cfg fuel schema st op with h' | ⟨i, b, h'⟩ | ⟨ref, h'⟩
  · rw [h']; exact h
  · rw [h']; exact keeps_eval H impl cfg fuel i schema b st h
  · rw [h']; exact H.resolve ref st h

theorem keeps_runHist (impl : FmtImpl) (cfg : Cfg) (fuel : Nat) (schema : Json) (ops : List Op) :
    ∀ st, I st → I (runHist env impl cfg fuel schema st ops).2 := by
  induction ops with
  | nil => intro st h; exact h
  | cons op ops ih =>
    intro st h
    have h1 := keeps_stepOp H impl cfg fuel schema st op h
    have h2 := ih (stepOp env impl cfg fuel schema st op).2 h1
    have : (runHist env impl cfg fuel schema st (op :: ops)).2
        = (runHist env impl cfg fuel schema (stepOp env impl cfg fuel schema st op).2 ops).2 := by
      rw [runHist]
    rw [this]
    exact h2

end

/-! ### the memo invariants -/

/-- every memo entry is what `resolve_from_url` computes from the store as it is now
    (the same proposition as `JS.Props.C02.MemoSound`) -/
def MemoSoundS (env : Env) (st : RState) : Prop :=
  ∀ url v, Json.lookup url st.memo = some v →
    ∃ u frag k doc, env.urldefrag url = some (u, frag) ∧ env.urinorm u = some k
      ∧ Json.lookup k st.store = some doc ∧ resolveFragment doc frag = some v

/-- every memo entry is what `resolve_from_url` computed from a document that is in the store now
    or that this resolver retrieved for the entry's defragmented URI at an earlier attempt
    (the same proposition as `JS.Props.C02.MemoBacked`) -/
def MemoBackedS (env : Env) (st : RState) : Prop :=
  ∀ url v, Json.lookup url st.memo = some v →
    ∃ u frag k doc, env.urldefrag url = some (u, frag) ∧ env.urinorm u = some k
      ∧ (Json.lookup k st.store = some doc ∨ ∃ n, n < st.clock ∧ env.fetch n u = some (some doc))
      ∧ resolveFragment doc frag = some v

theorem memoBackedS_of_sound {env : Env} {st : RState} (h : MemoSoundS env st) : MemoBackedS env st := by
  intro url v hl
  obtain ⟨u, frag, k, doc, hd, hn, hs, hf⟩ := h url v hl
  exact ⟨u, frag, k, doc, hd, hn, Or.inl hs, hf⟩

theorem memoSoundS_nil (env : Env) (st : RState) (h : st.memo = []) : MemoSoundS env st := by
  intro url v hl
  rw [h] at hl
  cases hl

/-- with `cache_remote` on, one `resolve` keeps the memo sound (and the switch on) -/
theorem memoSoundS_rstep {env : Env} {st st' : RState} (hr : RStep env st st')
    (hc : st.cacheRemote = true) (hs : MemoSoundS env st) :
    st'.cacheRemote = true ∧ MemoSoundS env st' := by
  cases hr with
  | same => exact ⟨hc, hs⟩
  | hit url v hl =>
    refine ⟨hc, fun k w hk => ?_⟩
    exact hs k w (lookup_memo_hit hl hk)
  | loc url u frag key doc v hd hn hst hf =>
    refine ⟨hc, fun k w hk => ?_⟩
    rcases lookup_memoInsert hk with ⟨rfl, rfl⟩ | hold
    · exact ⟨u, frag, key, doc, hd, hn, hst, hf⟩
    · exact hs k w hold
  | fail u => exact ⟨hc, hs⟩
  | fetched url u frag key doc m hd hn hst hfe hm =>
    refine ⟨hc, fun k w hk => ?_⟩
    dsimp only at hk ⊢
    simp only [hc, if_true]
    have old : ∀ k w, Json.lookup k st.memo = some w →
        ∃ u frag k' doc', env.urldefrag k = some (u, frag) ∧ env.urinorm u = some k'
          ∧ Json.lookup k' (storeSet key doc st.store) = some doc' ∧ resolveFragment doc' frag = some w := by
      intro k w hk
      obtain ⟨u', frag', k', doc', hd', hn', hs', hf'⟩ := hs k w hk
      exact ⟨u', frag', k', doc', hd', hn', lookup_storeSet_fresh hst hs', hf'⟩
    rcases hm with rfl | ⟨v, hf, rfl⟩
    · exact old k w hk
    · rcases lookup_memoInsert hk with ⟨rfl, rfl⟩ | hold
      · exact ⟨u, frag, key, doc, hd, hn, lookup_storeSet_self key doc st.store, hf⟩
      · exact old k w hold

/-- one `resolve` keeps the memo backed, whatever `cache_remote` is -/
theorem memoBackedS_rstep {env : Env} {st st' : RState} (hr : RStep env st st')
    (hs : MemoBackedS env st) : MemoBackedS env st' := by
  cases hr with
  | same => exact hs
  | hit url v hl => exact fun k w hk => hs k w (lookup_memo_hit hl hk)
  | loc url u frag key doc v hd hn hst hf =>
    intro k w hk
    rcases lookup_memoInsert hk with ⟨rfl, rfl⟩ | hold
    · exact ⟨u, frag, key, doc, hd, hn, Or.inl hst, hf⟩
    · exact hs k w hold
  | fail u =>
    intro k w hk
    obtain ⟨u', frag', k', doc', hd', hn', hs', hf'⟩ := hs k w hk
    refine ⟨u', frag', k', doc', hd', hn', ?_, hf'⟩
    rcases hs' with h1 | ⟨n, hn1, hn2⟩
    · exact Or.inl h1
    · exact Or.inr ⟨n, Nat.lt_succ_of_lt hn1, hn2⟩
  | fetched url u frag key doc m hd hn hst hfe hm =>
    intro k w hk
    dsimp only at hk ⊢
    have old : ∀ k w, Json.lookup k st.memo = some w →
        ∃ u frag k' doc', env.urldefrag k = some (u, frag) ∧ env.urinorm u = some k'
          ∧ (Json.lookup k' (if st.cacheRemote then storeSet key doc st.store else st.store) = some doc'
              ∨ ∃ n, n < st.clock + 1 ∧ env.fetch n u = some (some doc'))
          ∧ resolveFragment doc' frag = some w := by
      intro k w hk
      obtain ⟨u', frag', k', doc', hd', hn', hs', hf'⟩ := hs k w hk
      refine ⟨u', frag', k', doc', hd', hn', ?_, hf'⟩
      rcases hs' with h1 | ⟨n, hn1, hn2⟩
      · left
        split
        · exact lookup_storeSet_fresh hst h1
        · exact h1
      · exact Or.inr ⟨n, Nat.lt_succ_of_lt hn1, hn2⟩
    rcases hm with rfl | ⟨v, hf, rfl⟩
    · exact old k w hk
    · rcases lookup_memoInsert hk with ⟨rfl, rfl⟩ | hold
      · exact ⟨u, frag, key, doc, hd, hn, Or.inr ⟨st.clock, Nat.lt_succ_self _, hfe⟩, hf⟩
      · exact old k w hold

theorem memoSoundInv (env : Env) :
    StInv env (fun st => st.cacheRemote = true ∧ MemoSoundS env st) where
  scopes := fun _ h => h
  resolve := fun ref st h => memoSoundS_rstep (resolve_rstep env ref st) h.1 h.2

theorem memoBackedInv (env : Env) : StInv env (MemoBackedS env) where
  scopes := fun _ h => h
  resolve := fun ref st h => memoBackedS_rstep (resolve_rstep env ref st) h

/-! ### with `cache_remote` off the memo outlives the store: `MemoSoundS` is not an invariant -/

namespace MemoCex
def env : Env :=
  ⟨fun _ _ => none, fun _ r => some r, fun u => some (u, []), fun u => some u, fun _ => none,
   fun _ => none, fun _ => none, fun _ _ => some (some .null), fun _ _ => none⟩
def st : RState :=
  { scopes := [], store := [], memo := [], memoCap := none, cacheRemote := false, clock := 0, fetchLog := [] }

theorem sound_before : MemoSoundS env st := memoSoundS_nil env st rfl

theorem unsound_after : ¬ MemoSoundS env (resolve env [] st).2 := by
  intro h
  have hm : Json.lookup [] (resolve env [] st).2.memo = some .null := by decide +kernel
  obtain ⟨u, frag, k, doc, _, _, hs, _⟩ := h [] .null hm
  have hst : (resolve env [] st).2.store = [] := by decide +kernel
  rw [hst] at hs
  cases hs
end MemoCex

/-! ### a reference object -/

theorem stamp_ref_of_info (r inst schema : Json) (e : Err) (h : e.info.isSome = true) :
    stamp (skey "$ref") r inst schema e = e := by
  obtain ⟨m, i, p, sp, c, ca⟩ := e
  cases i with
  | none => cases h
  | some mt =>
    unfold stamp
    rw [if_pos (Or.inr rfl)]
    rfl

/-- no scope without an id — or next to a `$ref` key -/
theorem scopeOf_none {cfg : Cfg} {kvs : List (Str × Json)}
    (h : Json.lookup cfg.idKey kvs = none ∨ Json.hasKey (skey "$ref") kvs = true) :
    scopeOf cfg kvs = .ok none := by
  unfold scopeOf
  split
  · rfl
  · rcases h with h | h
    · rw [h]
    · contradiction

theorem scopeOf_str {cfg : Cfg} {kvs : List (Str × Json)} {ident : Str}
    (h : Json.lookup cfg.idKey kvs = some (.str ident)) (hne : ident ≠ [])
    (hnr : Json.hasKey (skey "$ref") kvs = false) :
    scopeOf cfg kvs = .ok (some ident) := by
  simp only [scopeOf, h, hnr]
  cases ident with
  | nil => exact absurd rfl hne
  | cons c cs => rfl

theorem evalStep_obj_noId (env : Env) (impl : FmtImpl) (cfg : Cfg) (rec : Rec)
    (kvs : List (Str × Json)) (inst : Json)
    (hid : Json.lookup cfg.idKey kvs = none ∨ Json.hasKey (skey "$ref") kvs = true) :
    evalStep env impl cfg rec inst (.obj kvs) = schemaBody env impl cfg rec inst kvs := by
  simp only [evalStep, scopeOf_none hid, withScopeOpt]

theorem evalStep_obj_id (env : Env) (impl : FmtImpl) (cfg : Cfg) (rec : Rec)
    (kvs : List (Str × Json)) (ident : Str) (inst : Json)
    (hid : Json.lookup cfg.idKey kvs = some (.str ident)) (hne : ident ≠ [])
    (hnr : Json.hasKey (skey "$ref") kvs = false) :
    evalStep env impl cfg rec inst (.obj kvs) = withScope env ident (schemaBody env impl cfg rec inst kvs) := by
  simp only [evalStep, scopeOf_str hid hne hnr, withScopeOpt]

theorem schemaBody_ref (env : Env) (impl : FmtImpl) (d : Draft) (fc : Option FormatChecker) (rec : Rec)
    (kvs : List (Str × Json)) (r : Str) (inst : Json)
    (href : Json.lookup (skey "$ref") kvs = some (.str r)) :
    schemaBody env impl (d.cfg fc) rec inst kvs =
      mapErrs (stamp (skey "$ref") (.str r) inst (.obj kvs)) (kwRef env rec (.str r) inst) := by
  have hk : lookupS (skey "$ref") (d.cfg fc).keywords = some .ref := draft_ref_bound d
  simp only [schemaBody, href, runKeyword, hk, applyKw]

end JS
