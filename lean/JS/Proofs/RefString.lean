/-
  JS.Proofs.RefString — how the `$ref` keyword function reads its value (`refReading`): a string is
  itself; a list or dict is unhashable and a truthy scalar makes `urljoin` raise (TypeError); a falsy
  scalar is the empty reference when the base URI in effect is non-empty, and unresolvable
  (RefResolutionError, state unchanged) when it is empty.
  Every fact about `kwRef env rec ref inst` for an arbitrary `ref` follows from the fact for a string
  `ref`, the facts for the generators that just raise `RefResolutionError` / `TypeError`, and closure
  under the choice by the top of the scope stack (`ifTopEmpty`, `kwRef_cases`).
-/
import JS.Resolver
namespace JS

@[simp] theorem refReading_str (r : Str) : refReading (.str r) = .ref r := rfl

/-- only a string is read as a reference string -/
theorem refReading_ref {ref : Json} {q : Str} (h : refReading ref = .ref q) : ref = .str q := by
  cases ref with
  | str r => cases h; rfl
  | arr _ | obj _ => cases h
  | null | bool _ | num _ =>
    simp only [refReading] at h
    split at h <;> cases h

/-- only a falsy scalar is read as "the empty reference, or unresolvable" -/
theorem refReading_falsy {ref : Json} (h : refReading ref = .emptyOrUnresolvable) :
    (∀ r, ref ≠ .str r) ∧ truthy ref = false := by
  cases ref with
  | str r => cases h
  | arr _ | obj _ => cases h
  | null | bool _ | num _ =>
    refine ⟨nofun, ?_⟩
    simp only [refReading] at h
    split at h
    · cases h
    · rename_i ht; simpa using ht

/-- choose between two generators by the top of the scope stack (the base URI in effect) -/
def ifTopEmpty (g h : Gen) : Gen := fun b st => if st.top.isEmpty then g b st else h b st

/-- the `$ref` keyword function at a string is `kwRefStr` -/
theorem kwRef_str_eq (env : Env) (rec : Rec) (r : Str) (inst : Json) :
    kwRef env rec (.str r) inst = kwRefStr env rec r inst := rfl

/-- a `$ref` value read as the reference string `r` behaves as the string `r` -/
theorem kwRef_ref {env : Env} {rec : Rec} {ref inst : Json} {r : Str} (h : refReading ref = .ref r) :
    kwRef env rec ref inst = kwRef env rec (.str r) inst := by
  rw [refReading_ref h]

/-- a falsy scalar `$ref`: `RefResolutionError` (nothing pushed, state unchanged) when the base URI in
    effect is empty, the empty reference otherwise -/
theorem kwRef_falsy {env : Env} {rec : Rec} {ref inst : Json} (h : refReading ref = .emptyOrUnresolvable) :
    kwRef env rec ref inst = ifTopEmpty (stopG (.raised .refResolution)) (kwRef env rec (.str []) inst) := by
  funext b st
  unfold kwRef ifTopEmpty
  rw [h]
  rfl

/-- a `$ref` value that is unhashable or makes `urljoin` raise -/
theorem kwRef_typeError {env : Env} {rec : Rec} {ref inst : Json} (h : refReading ref = .typeError) :
    kwRef env rec ref inst = stopG (.raised (.crash "TypeError")) := by
  funext b st
  unfold kwRef
  rw [h]
  rfl

/-- the `$ref` keyword function at a string -/
theorem kwRef_str (env : Env) (rec : Rec) (r : Str) (inst : Json) (b : Option Nat) (st : RState) :
    kwRef env rec (.str r) inst b st =
      match resolve env r st with
      | (.ok (url, target), st1) => withScope env url (rec inst target) b st1
      | (.raise e, st1) => ⟨[], .raised e, st1⟩
      | (.miss q, st1) => ⟨[], .miss q, st1⟩ := rfl

/-- case principle: a property of generators that is closed under the choice by the top of the
    scope stack, holds of `kwRef` at every string and of the two raising generators, holds of
    `kwRef` at every value -/
theorem kwRef_cases {env : Env} {rec : Rec} {inst : Json} {P : Gen → Prop}
    (hif : ∀ {g h : Gen}, P g → P h → P (ifTopEmpty g h))
    (hs : ∀ r, P (kwRef env rec (.str r) inst)) (hr : P (stopG (.raised .refResolution)))
    (hn : P (stopG (.raised (.crash "TypeError"))))
    (ref : Json) : P (kwRef env rec ref inst) := by
  cases h : refReading ref with
  | ref r => rw [kwRef_ref h]; exact hs r
  | emptyOrUnresolvable => rw [kwRef_falsy h]; exact hif hr (hs [])
  | typeError => rw [kwRef_typeError h]; exact hn

/-- the same for a relation between two runs of `kwRef` on the same value -/
theorem kwRef_cases₂ {env env' : Env} {rec rec' : Rec} {inst inst' : Json} {R : Gen → Gen → Prop}
    (hif : ∀ {g h g' h' : Gen}, R g g' → R h h' → R (ifTopEmpty g h) (ifTopEmpty g' h'))
    (hs : ∀ r, R (kwRef env rec (.str r) inst) (kwRef env' rec' (.str r) inst'))
    (hr : R (stopG (.raised .refResolution)) (stopG (.raised .refResolution)))
    (hn : R (stopG (.raised (.crash "TypeError"))) (stopG (.raised (.crash "TypeError"))))
    (ref : Json) : R (kwRef env rec ref inst) (kwRef env' rec' ref inst') := by
  cases h : refReading ref with
  | ref r => rw [kwRef_ref h, kwRef_ref h]; exact hs r
  | emptyOrUnresolvable => rw [kwRef_falsy h, kwRef_falsy h]; exact hif hr (hs [])
  | typeError => rw [kwRef_typeError h, kwRef_typeError h]; exact hn

/-! ### `$ref` members that are not the empty reference in disguise

`Spec.navR`, `Spec.refsOf`, … recognise a reference object by a STRING `$ref`.  A falsy scalar
`$ref` (`None`, `0`, `0.0`, `false`) is followed too — as the empty reference, when the base URI in
effect is non-empty — so statements that say where references lead need the proviso that no such
member occurs. -/

/-- a `$ref` value that is NOT a falsy scalar (which `urljoin` reads as the empty reference): a
    string, or a value on which the resolution raises `TypeError` (a list, a dict, a truthy scalar) -/
def properRef (v : Json) : Bool :=
  match refReading v with
  | .emptyOrUnresolvable => false
  | _ => true

mutual
/-- no `$ref` member, at any depth, has a falsy scalar value -/
def refsProper : Json → Bool
  | .arr xs => refsProperList xs
  | .obj kvs => refsProperKvs kvs
  | _ => true
def refsProperList : List Json → Bool
  | [] => true
  | x :: xs => refsProper x && refsProperList xs
def refsProperKvs : List (Str × Json) → Bool
  | [] => true
  | (k, v) :: rest =>
    (if k = "$ref".toList then properRef v else true) && refsProper v && refsProperKvs rest
end

theorem properRef_null : properRef .null = false := rfl

theorem properRef_str (r : Str) : properRef (.str r) = true := rfl

/-- a proper non-string `$ref` value makes the resolution raise `TypeError` -/
theorem refReading_of_proper {ref : Json} (hs : ∀ r, ref ≠ .str r) (hp : properRef ref = true) :
    refReading ref = .typeError := by
  unfold properRef at hp
  cases h : refReading ref with
  | ref q => exact absurd (refReading_ref h) (hs q)
  | emptyOrUnresolvable => rw [h] at hp; cases hp
  | typeError => rfl

theorem refsProper_lookup {kvs : List (Str × Json)} (h : refsProperKvs kvs = true) {k : Str} {x : Json}
    (hl : Json.lookup k kvs = some x) : refsProper x = true := by
  induction kvs with
  | nil => cases hl
  | cons p rest ih =>
    obtain ⟨k', x'⟩ := p
    simp only [refsProperKvs, Bool.and_eq_true] at h
    unfold Json.lookup at hl
    split at hl
    · cases hl; exact h.1.2
    · exact ih h.2 hl

theorem refsProper_getElem {xs : List Json} (h : refsProperList xs = true) {n : Nat} {x : Json}
    (hl : xs[n]? = some x) : refsProper x = true := by
  induction xs generalizing n with
  | nil => simp at hl
  | cons y ys ih =>
    simp only [refsProperList, Bool.and_eq_true] at h
    cases n with
    | zero => simp at hl; subst hl; exact h.1
    | succ n => simp at hl; exact ih h.2 hl

/-- the value of the `$ref` member of an object without falsy scalar references -/
theorem refsProper_ref {kvs : List (Str × Json)} (h : refsProper (.obj kvs) = true) {v : Json}
    (hl : Json.lookup "$ref".toList kvs = some v) : properRef v = true := by
  simp only [refsProper] at h
  induction kvs with
  | nil => cases hl
  | cons p rest ih =>
    obtain ⟨k', x'⟩ := p
    simp only [refsProperKvs, Bool.and_eq_true] at h
    unfold Json.lookup at hl
    split at hl
    · rename_i hk
      cases hl
      have h1 := h.1.1
      rw [if_pos (by simpa using hk)] at h1
      exact h1
    · exact ih h.2 hl

theorem refsProper_ptrWalk : ∀ (toks : List Str) {doc t : Json}, refsProper doc = true →
    ptrWalk doc toks = some t → refsProper t = true
  | [], doc, t, hw, h => by simp only [ptrWalk, Option.some.injEq] at h; subst h; exact hw
  | tok :: toks, doc, t, hw, h => by
    unfold ptrWalk at h
    cases hs : ptrStep doc tok with
    | none => rw [hs] at h; cases h
    | some d1 =>
      rw [hs] at h
      dsimp only at h
      refine refsProper_ptrWalk toks ?_ h
      unfold ptrStep at hs
      cases doc with
      | obj kvs =>
        simp only [refsProper] at hw
        exact refsProper_lookup hw hs
      | arr xs =>
        dsimp only at hs
        split at hs
        · simp only [refsProper] at hw
          exact refsProper_getElem hw hs
        · cases hs
      | _ => cases hs

end JS
