/-
  Scope restoration (C07): every generator of the evaluator leaves the resolver's scope
  stack exactly as it found it — for every budget (so also when the consumer closes the
  iterator early) and every way of stopping (done, budget, raised, fuel, miss).
-/
import JS.Proofs.Framework
namespace JS

/-- a generator restores the scope stack -/
structure ScopeOK (g : Gen) : Prop where
  restore : ∀ b st, (g b st).st.scopes = st.scopes

def RecScopeOK (rec : Rec) : Prop := ∀ i s, ScopeOK (rec i s)

theorem scopeOK_emit (es : List Err) : ScopeOK (emit es) := by
  refine ⟨fun b st => ?_⟩
  unfold emit
  cases b with
  | none => rfl
  | some k => dsimp only; split <;> rfl

theorem scopeOK_nothing : ScopeOK nothing := ⟨fun _ _ => rfl⟩

theorem scopeOK_stopG (s : Stop) : ScopeOK (stopG s) := ⟨fun _ _ => rfl⟩
theorem scopeOK_raiseG (e : Exc) : ScopeOK (raiseG e) := ⟨fun _ _ => rfl⟩
theorem scopeOK_crashG (c : String) : ScopeOK (crashG c) := ⟨fun _ _ => rfl⟩

theorem scopeOK_andThen {g h : Gen} (hg : ScopeOK g) (hh : ScopeOK h) : ScopeOK (andThen g h) := by
  refine ⟨fun b st => ?_⟩
  have h1 := hg.restore b st
  unfold andThen
  split
  · rename_i es st' heq
    rw [heq] at h1
    have h2 := hh.restore (budgetSub b es.length) st'
    dsimp only at h1 ⊢
    rw [h2, h1]
  · exact h1

theorem scopeOK_seqG {α : Type} (f : α → Gen) (xs : List α) (hf : ∀ x, ScopeOK (f x)) :
    ScopeOK (seqG f xs) := by
  induction xs with
  | nil => exact scopeOK_nothing
  | cons x xs ih => exact scopeOK_andThen (hf x) ih

theorem scopeOK_mapErrs (f : Err → Err) {g : Gen} (hg : ScopeOK g) : ScopeOK (mapErrs f g) := by
  refine ⟨fun b st => ?_⟩
  have h1 := hg.restore b st
  unfold mapErrs
  split
  rename_i es s st' heq
  rw [heq] at h1
  exact h1

theorem scopeOK_descendG {g : Gen} (p sp : Option PathElem) (hg : ScopeOK g) : ScopeOK (descendG g p sp) :=
  scopeOK_mapErrs _ hg

theorem scopeOK_inner {g : Gen} (b' : Option Nat) (k : List Err → Gen)
    (hg : ScopeOK g) (hk : ∀ es, ScopeOK (k es)) : ScopeOK (inner g b' k) := by
  refine ⟨fun b st => ?_⟩
  have h1 := hg.restore b' st
  unfold inner
  split
  · rename_i es st' heq
    rw [heq] at h1
    dsimp only at h1
    rw [(hk es).restore b st', h1]
  · rename_i es st' heq
    rw [heq] at h1
    dsimp only at h1
    rw [(hk es).restore b st', h1]
  · rename_i s st' _ _ heq
    rw [heq] at h1
    exact h1

theorem scopeOK_innerValid {g : Gen} (k : Bool → Gen)
    (hg : ScopeOK g) (hk : ∀ v, ScopeOK (k v)) : ScopeOK (innerValid g k) :=
  scopeOK_inner _ _ hg (fun _ => hk _)

theorem scopeOK_withScope (env : Env) (scope : Str) {g : Gen} (hg : ScopeOK g) :
    ScopeOK (withScope env scope g) := by
  refine ⟨fun b st => ?_⟩
  unfold withScope
  split
  · rfl
  · rename_i u _
    have h1 := hg.restore b { st with scopes := u :: st.scopes }
    dsimp only at h1 ⊢
    rw [h1]
    rfl

theorem scopeOK_withScopeOpt (env : Env) (scope : Option Str) {g : Gen} (hg : ScopeOK g) :
    ScopeOK (withScopeOpt env scope g) := by
  unfold withScopeOpt
  cases scope with
  | none => exact hg
  | some s => exact scopeOK_withScope env s hg

theorem scopeOK_withRes {α : Type} (r : Res α) (k : α → Gen) (hk : ∀ a, ScopeOK (k a)) :
    ScopeOK (withRes r k) := by
  unfold withRes
  cases r with
  | ok a => exact hk a
  | raise e => exact scopeOK_raiseG e
  | miss q => exact scopeOK_stopG _

theorem scopeOK_gate (cfg : Cfg) (inst : Json) (name : String) {k : Gen} (hk : ScopeOK k) :
    ScopeOK (gate cfg inst name k) := by
  unfold gate
  apply scopeOK_withRes
  intro ok
  split
  · exact hk
  · exact scopeOK_nothing

theorem scopeOK_ite {c : Prop} [Decidable c] {g h : Gen} (hg : ScopeOK g) (hh : ScopeOK h) :
    ScopeOK (if c then g else h) := by
  split
  · exact hg
  · exact hh

/-! ### the resolver never touches the scope stack -/

theorem resolveRemote_scopes (env : Env) (uri key : Str) (st : RState) :
    (resolveRemote env uri key st).2.scopes = st.scopes := by
  unfold resolveRemote
  split <;> rfl

theorem resolveFromUrl_scopes (env : Env) (url : Str) (st : RState) :
    (resolveFromUrl env url st).2.scopes = st.scopes := by
  unfold resolveFromUrl
  split
  · rfl
  · split
    · rfl
    · split
      · rfl
      · rename_i u _ _ _ key _ _ _
        have h := resolveRemote_scopes env u key st
        split
        · rename_i heq; rw [heq] at h; exact h
        · rename_i heq; rw [heq] at h; exact h

theorem resolve_scopes (env : Env) (ref : Str) (st : RState) :
    (resolve env ref st).2.scopes = st.scopes := by
  unfold resolve
  split
  · rfl
  · split
    · rfl
    · have h := resolveFromUrl_scopes env ‹_› st
      split
      · rename_i heq; rw [heq] at h; exact h
      · rename_i heq; rw [heq] at h; exact h
      · rename_i heq; rw [heq] at h; exact h

theorem scopeOK_kwRef (env : Env) {rec : Rec} (hrec : RecScopeOK rec) (ref inst : Json) :
    ScopeOK (kwRef env rec ref inst) := by
  refine kwRef_cases (P := ScopeOK) (fun hg hh => ⟨fun b st => ?_⟩) (fun r => ⟨fun b st => ?_⟩)
    ⟨fun _ _ => rfl⟩ ⟨fun _ _ => rfl⟩ ref
  · unfold ifTopEmpty; split
    · exact hg.restore b st
    · exact hh.restore b st
  rw [kwRef_str]
  have h := resolve_scopes env r st
  split
  · rename_i url target st1 heq
    rw [heq] at h
    rw [(scopeOK_withScope env url (hrec inst target)).restore b st1]
    exact h
  · rename_i heq; rw [heq] at h; exact h
  · rename_i heq; rw [heq] at h; exact h

end JS

namespace JS

theorem scopeClosed (env : Env) : Closed env ScopeOK where
  emit := scopeOK_emit
  nothing := scopeOK_nothing
  stop := fun s _ => scopeOK_stopG s
  andThen := scopeOK_andThen
  mapErrs := scopeOK_mapErrs
  inner := scopeOK_inner
  withScope := scopeOK_withScope env
  kwRef := fun hrec ref inst => scopeOK_kwRef env hrec ref inst

/-- **Scope restoration** for the whole evaluator: every fuel, every budget (so also when the
    consumer closes the iterator early), every way of stopping. -/
theorem scopeOK_eval (env : Env) (impl : FmtImpl) (cfg : Cfg) (fuel : Nat) :
    RecScopeOK (eval env impl cfg fuel) :=
  P_eval (scopeClosed env) impl cfg fuel

end JS
