/- Helper lemmas for C20 (draft selection, registries). -/
import JS.Module
namespace JS

/-! ### `lookupS` over the list operations `validates` uses -/

theorem lookupS_append {α : Type} (k : Str) (l1 l2 : List (Str × α)) :
    lookupS k (l1 ++ l2) = match lookupS k l1 with | some v => some v | none => lookupS k l2 := by
  induction l1 with
  | nil => rfl
  | cons p rest ih =>
    obtain ⟨k', v⟩ := p
    simp only [List.cons_append, lookupS]
    by_cases hk : k' = k
    · simp only [hk, if_true]
    · simp only [hk, if_false]
      exact ih

theorem lookupS_filter_self {α : Type} (k : Str) (l : List (Str × α)) :
    lookupS k (l.filter (·.1 ≠ k)) = none := by
  induction l with
  | nil => rfl
  | cons p rest ih =>
    obtain ⟨k', v⟩ := p
    by_cases hk : k' = k
    · simp only [List.filter, hk, ne_eq, not_true_eq_false, decide_false]
      exact ih
    · simp only [List.filter, hk, ne_eq, not_false_eq_true, decide_true, lookupS, if_false]
      exact ih

theorem lookupS_filter_other {α : Type} (k k' : Str) (h : k' ≠ k) (l : List (Str × α)) :
    lookupS k' (l.filter (·.1 ≠ k)) = lookupS k' l := by
  induction l with
  | nil => rfl
  | cons p rest ih =>
    obtain ⟨k'', v⟩ := p
    by_cases hk : k'' = k
    · subst hk
      have hk' : ¬ k'' = k' := fun e => h e.symm
      simp only [List.filter, ne_eq, not_true_eq_false, decide_false, lookupS, hk', if_false]
      exact ih
    · simp only [List.filter, hk, ne_eq, not_false_eq_true, decide_true, lookupS]
      by_cases hk' : k'' = k'
      · simp only [hk', if_true]
      · simp only [hk', if_false]
        exact ih

/-- the registry after `(filter (≠ k)) ++ [(k, c)]` -/
theorem lookupS_replace_self {α : Type} (k : Str) (c : α) (l : List (Str × α)) :
    lookupS k (l.filter (·.1 ≠ k) ++ [(k, c)]) = some c := by
  rw [lookupS_append, lookupS_filter_self]
  simp only [lookupS, if_true]

theorem lookupS_replace_other {α : Type} (k k' : Str) (c c' : α) (l : List (Str × α))
    (hne : k' ≠ k) (h : lookupS k' l = some c') :
    lookupS k' (l.filter (·.1 ≠ k) ++ [(k, c)]) = some c' := by
  rw [lookupS_append, lookupS_filter_other k k' hne, h]

/-! ### `validates` -/

theorem validates_with_id (env : Env) (g : Globals) (version : Str) (c : ClassDef)
    (kvs : List (Str × Json)) (u k : Str)
    (hm : c.metaSchema = .obj kvs) (hid : Json.lookup c.cfg.idKey kvs = some (.str u)) (hne : u ≠ [])
    (hnr : Json.hasKey (skey "$ref") kvs = false)
    (hn : env.urinorm u = some k) :
    validates env version c g = .ok
      { metaSchemas := (g.metaSchemas.filter (·.1 ≠ k)) ++ [(k, c)]
        validators := (g.validators.filter (·.1 ≠ version)) ++ [(version, c)]
        latest := g.latest } := by
  have he : u.isEmpty = false := by
    cases u with
    | nil => exact absurd rfl hne
    | cons _ _ => rfl
  unfold validates
  simp only [hm, hid, he, hn, hnr]
  rfl

/-- next to a `$ref` key the metaschema has no id (`ID_OF`): only the version name is registered -/
theorem validates_with_ref (env : Env) (g : Globals) (version : Str) (c : ClassDef)
    (kvs : List (Str × Json)) (hm : c.metaSchema = .obj kvs)
    (hr : Json.hasKey (skey "$ref") kvs = true) :
    validates env version c g = .ok
      { metaSchemas := g.metaSchemas
        validators := (g.validators.filter (·.1 ≠ version)) ++ [(version, c)]
        latest := g.latest } := by
  unfold validates
  simp only [hm, hr]
  rfl

/-! a metaschema with an id next to a `$ref` key: the class is not registered by that id -/
namespace RegCex
def env : Env := { (default : Env) with urinorm := fun u => some u }
def kvs : List (Str × Json) := [(skey "$ref", .str (skey "#")), (skey "id", .str (skey "urn:x"))]
def cls : ClassDef := ⟨"c", { (default : Cfg) with idKey := skey "id" }, .obj kvs⟩
def g : Globals := ⟨[], [], cls⟩
def g' : Globals := ⟨[], [(skey "v", cls)], cls⟩

theorem hv : validates env (skey "v") cls g = .ok g' :=
  validates_with_ref env g (skey "v") cls kvs rfl (by decide +kernel)
theorem hid : Json.lookup cls.cfg.idKey kvs = some (.str (skey "urn:x")) := by decide +kernel
theorem hne : skey "urn:x" ≠ [] := by decide +kernel
end RegCex

/-! ### `freshResolver`, `checkSchema` read the registry only through the metaschemas -/

theorem freshResolver_congr (env : Env) (g g' : Globals) (c : ClassDef) (schema : Json)
    (hm : g.metaSchemas.map (fun p => (p.1, p.2.metaSchema)) = g'.metaSchemas.map (fun p => (p.1, p.2.metaSchema))) :
    freshResolver env g c schema = freshResolver env g' c schema := by
  unfold freshResolver
  rw [hm]

theorem checkSchema_congr (env : Env) (impl : FmtImpl) (g g' : Globals) (c : ClassDef) (fuel : Nat)
    (schema : Json)
    (hm : g.metaSchemas.map (fun p => (p.1, p.2.metaSchema)) = g'.metaSchemas.map (fun p => (p.1, p.2.metaSchema))) :
    checkSchema env impl g c fuel schema = checkSchema env impl g' c fuel schema := by
  unfold checkSchema
  rw [freshResolver_congr env g g' c c.metaSchema hm]

/-! ### `moduleValidate` -/

/-- what `jsonschema.validate` does once the class is known -/
def moduleBody (env : Env) (impl : FmtImpl) (g : Globals) (fuel : Nat) (weak strong : List Str)
    (fc : Option FormatChecker) (inst schema : Json) (c : ClassDef) (warned : Bool) : ModResult × Bool :=
  match checkSchema env impl g c fuel schema with
  | .schemaError e => (.schemaError e, warned)
  | .raise e => (.raise e, warned)
  | .other s => (.other s, warned)
  | .ok =>
    match freshResolver env g c schema with
    | .miss q => (.other (.miss q), warned)
    | .raise e => (.raise e, warned)
    | .ok st =>
      match eval env impl { c.cfg with formatChecker := fc } fuel inst schema none st with
      | ⟨es, .done, _⟩ =>
        (match bestMatch weak strong es with
         | none => .ok
         | some b => .validationError b, warned)
      | ⟨_, .raised e, _⟩ => (.raise e, warned)
      | ⟨_, s, _⟩ => (.other s, warned)

theorem moduleValidate_some (env : Env) (impl : FmtImpl) (g : Globals) (fuel : Nat) (weak strong : List Str)
    (fc : Option FormatChecker) (inst schema : Json) (c : ClassDef) :
    moduleValidate env impl g fuel weak strong (some c) fc inst schema
      = moduleBody env impl g fuel weak strong fc inst schema c false := rfl

theorem moduleValidate_none (env : Env) (impl : FmtImpl) (g : Globals) (fuel : Nat) (weak strong : List Str)
    (fc : Option FormatChecker) (inst schema : Json) (c : ClassDef) (w : Bool)
    (h : validatorFor env g g.latest schema = .ok (c, w)) :
    moduleValidate env impl g fuel weak strong none fc inst schema
      = moduleBody env impl g fuel weak strong fc inst schema c w := by
  unfold moduleValidate
  simp only [h]
  rfl

/-- the warning flag is carried along and influences nothing else -/
theorem moduleBody_fst (env : Env) (impl : FmtImpl) (g : Globals) (fuel : Nat) (weak strong : List Str)
    (fc : Option FormatChecker) (inst schema : Json) (c : ClassDef) (w w' : Bool) :
    (moduleBody env impl g fuel weak strong fc inst schema c w).1
      = (moduleBody env impl g fuel weak strong fc inst schema c w').1 := by
  unfold moduleBody
  cases checkSchema env impl g c fuel schema with
  | schemaError e => rfl
  | raise e => rfl
  | other s => rfl
  | ok =>
    dsimp only
    cases freshResolver env g c schema with
    | miss q => rfl
    | raise e => rfl
    | ok st =>
      dsimp only
      split <;> rfl

theorem moduleBody_congr (env : Env) (impl : FmtImpl) (g g' : Globals) (fuel : Nat) (weak strong : List Str)
    (fc : Option FormatChecker) (inst schema : Json) (c : ClassDef) (w : Bool)
    (hm : g.metaSchemas.map (fun p => (p.1, p.2.metaSchema)) = g'.metaSchemas.map (fun p => (p.1, p.2.metaSchema))) :
    moduleBody env impl g fuel weak strong fc inst schema c w
      = moduleBody env impl g' fuel weak strong fc inst schema c w := by
  unfold moduleBody
  rw [checkSchema_congr env impl g g' c fuel schema hm, freshResolver_congr env g g' c schema hm]

/-! ### the regenerated tables -/

theorem initial_metaSchemas_names :
    (Globals.initial.metaSchemas.map fun p => (p.1, p.2.name))
      = [ ("http://json-schema.org/draft-03/schema".toList, "d3"), ("http://json-schema.org/draft-04/schema".toList, "d4"),
          ("http://json-schema.org/draft-06/schema".toList, "d6"), ("http://json-schema.org/draft-07/schema".toList, "d7") ] := by
  decide +kernel

theorem initial_latest_name : Globals.initial.latest.name = "d7" := by
  decide +kernel

end JS
