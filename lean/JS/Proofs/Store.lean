/- Helper lemmas for C15 (store, retrieval log, memo): invariants as `Closed` predicates.

  Every evaluator-wide statement of C15 is "the final resolver state is `R`-related to the initial
  one" for a reflexive, transitive relation `R` on resolver states that ignores the scope stack and
  contains every elementary move of the resolver (`Step`).  `presClosed` shows once and for all that
  such an `R` gives a `Closed` predicate `Pres R`; `pres_eval`, `pres_stepOp`, `pres_runHist` are the
  consequences for the evaluator and for histories of operations on one validator. -/
import JS.Proofs.Framework
import JS.History
namespace JS

/-! ### `Json.lookup` and `storeSet` -/

theorem lookup_storeSet_self (k : Str) (v : Json) (s : List (Str × Json)) :
    Json.lookup k (storeSet k v s) = some v := by
  induction s with
  | nil => simp [storeSet, Json.lookup]
  | cons p rest ih =>
    obtain ⟨k', v'⟩ := p
    unfold storeSet
    split
    · simp [Json.lookup]
    · rename_i hne
      simp [Json.lookup, hne, ih]

theorem lookup_storeSet_ne {k k' : Str} (hne : k' ≠ k) (v : Json) (s : List (Str × Json)) :
    Json.lookup k' (storeSet k v s) = Json.lookup k' s := by
  induction s with
  | nil =>
    have : ¬ k = k' := fun h => hne h.symm
    simp [storeSet, Json.lookup, this]
  | cons p rest ih =>
    obtain ⟨k1, v1⟩ := p
    unfold storeSet
    split
    · rename_i heq
      subst heq
      have : ¬ k1 = k' := fun h => hne h.symm
      simp [Json.lookup, this]
    · by_cases h1 : k1 = k'
      · simp [Json.lookup, h1]
      · simp [Json.lookup, h1, ih]

/-- writing a fresh key keeps every existing binding -/
theorem lookup_storeSet_fresh {key k : Str} {v doc : Json} {s : List (Str × Json)}
    (hfresh : Json.lookup key s = none) (h : Json.lookup k s = some v) :
    Json.lookup k (storeSet key doc s) = some v := by
  have hne : k ≠ key := by
    intro he
    subst he
    rw [hfresh] at h
    cases h
  rw [lookup_storeSet_ne hne]
  exact h

theorem lookup_storeSet_isSome {key k : Str} {doc : Json} {s : List (Str × Json)}
    (h : (Json.lookup k s).isSome = true) : (Json.lookup k (storeSet key doc s)).isSome = true := by
  by_cases he : k = key
  · subst he
    rw [lookup_storeSet_self]
    rfl
  · rw [lookup_storeSet_ne he]
    exact h

/-! ### elementary moves of the resolver -/

/-- what one call of `resolve` can do to the resolver state: touch the memo only; a failed
    retrieval; a successful retrieval of a document whose normalised key was not in the store -/
inductive Step (env : Env) (st : RState) : RState → Prop
  | memo (m : List (Str × Json)) : Step env st { st with memo := m }
  | fail (u : Str) (m : List (Str × Json)) :
      Step env st { st with memo := m, clock := st.clock + 1, fetchLog := st.fetchLog ++ [(u, false)] }
  | ok (u key : Str) (doc : Json) (m : List (Str × Json)) :
      env.urinorm u = some key → Json.lookup key st.store = none →
      Step env st { st with memo := m, clock := st.clock + 1, fetchLog := st.fetchLog ++ [(u, true)],
                            store := if st.cacheRemote then storeSet key doc st.store else st.store }

theorem Step.same (env : Env) (st : RState) : Step env st st := Step.memo st.memo

theorem Step.setMemo {env : Env} {st st' : RState} (h : Step env st st') (m : List (Str × Json)) :
    Step env st { st' with memo := m } := by
  cases h with
  | memo _ => exact Step.memo m
  | fail u _ => exact Step.fail u m
  | ok u key doc _ hn hs => exact Step.ok u key doc m hn hs

theorem resolveRemote_step (env : Env) (u key : Str) (st : RState)
    (hn : env.urinorm u = some key) (hs : Json.lookup key st.store = none) :
    Step env st (resolveRemote env u key st).2 := by
  unfold resolveRemote
  split
  · exact Step.same env st
  · exact Step.fail u st.memo
  · rename_i doc _
    exact Step.ok u key doc st.memo hn hs

theorem resolveFromUrl_step (env : Env) (url : Str) (st : RState) :
    Step env st (resolveFromUrl env url st).2 := by
  unfold resolveFromUrl
  split
  · exact Step.same env st
  · split
    · exact Step.same env st
    · split
      · exact Step.same env st
      · rename_i u _ _ _ key hn _ hs
        have h := resolveRemote_step env u key st hn hs
        split
        · rename_i heq; rw [heq] at h; exact h
        · rename_i heq; rw [heq] at h; exact h

theorem resolve_step (env : Env) (ref : Str) (st : RState) :
    Step env st (resolve env ref st).2 := by
  unfold resolve
  split
  · exact Step.same env st
  · split
    · exact Step.memo _
    · have h := resolveFromUrl_step env ‹_› st
      split
      · rename_i heq; rw [heq] at h; exact h.setMemo _
      · rename_i heq; rw [heq] at h; exact h
      · rename_i heq; rw [heq] at h; exact h

/-! ### the generic invariant -/

/-- the generator leaves the resolver in a state `R`-related to the one it found -/
structure Pres (R : RState → RState → Prop) (g : Gen) : Prop where
  pres : ∀ b st, R st (g b st).st

/-- a relation on resolver states that every run of the evaluator respects -/
structure StRel (env : Env) (R : RState → RState → Prop) : Prop where
  refl : ∀ st, R st st
  trans : ∀ {a b c}, R a b → R b c → R a c
  /-- `R` ignores the scope stack -/
  scopes : ∀ {st st' : RState} (x y : List Str),
    R st st' → R { st with scopes := x } { st' with scopes := y }
  step : ∀ {st st'}, Step env st st' → R st st'

section
variable {env : Env} {R : RState → RState → Prop} (H : StRel env R)
include H

theorem StRel.resolve (ref : Str) (st : RState) : R st (resolve env ref st).2 :=
  H.step (resolve_step env ref st)

theorem pres_emit (es : List Err) : Pres R (emit es) := by
  refine ⟨fun b st => ?_⟩
  have : (emit es b st).st = st := by
    unfold emit
    cases b with
    | none => rfl
    | some k => dsimp only; split <;> rfl
  rw [this]
  exact H.refl st

theorem pres_stopG (s : Stop) : Pres R (stopG s) := ⟨fun _ st => H.refl st⟩

theorem pres_andThen {g h : Gen} (hg : Pres R g) (hh : Pres R h) : Pres R (andThen g h) := by
  refine ⟨fun b st => ?_⟩
  have h1 := hg.pres b st
  unfold andThen
  split
  · rename_i es st' heq
    rw [heq] at h1
    exact H.trans h1 (hh.pres (budgetSub b es.length) st')
  · exact h1

omit H in
theorem pres_mapErrs (f : Err → Err) {g : Gen} (hg : Pres R g) : Pres R (mapErrs f g) :=
  ⟨fun b st => hg.pres b st⟩

theorem pres_inner {g : Gen} (b' : Option Nat) (k : List Err → Gen)
    (hg : Pres R g) (hk : ∀ es, Pres R (k es)) : Pres R (inner g b' k) := by
  refine ⟨fun b st => ?_⟩
  have h1 := hg.pres b' st
  unfold inner
  split
  · rename_i es st' heq
    rw [heq] at h1
    exact H.trans h1 ((hk es).pres b st')
  · rename_i es st' heq
    rw [heq] at h1
    exact H.trans h1 ((hk es).pres b st')
  · rename_i s st' _ _ heq
    rw [heq] at h1
    exact h1

theorem pres_withScope (scope : Str) {g : Gen} (hg : Pres R g) :
    Pres R (withScope env scope g) := by
  refine ⟨fun b st => ?_⟩
  unfold withScope
  split
  · exact H.refl st
  · rename_i u _
    have h1 := hg.pres b { st with scopes := u :: st.scopes }
    have h2 := H.scopes st.scopes (g b { st with scopes := u :: st.scopes }).st.scopes.tail h1
    exact h2

theorem pres_kwRef {rec : Rec} (hrec : ∀ i s, Pres R (rec i s)) (ref inst : Json) :
    Pres R (kwRef env rec ref inst) := by
  refine kwRef_cases (P := Pres R) (fun hg hh => ⟨fun b st => ?_⟩) (fun r => ⟨fun b st => ?_⟩)
    ⟨fun _ st => H.refl st⟩ ⟨fun _ st => H.refl st⟩ ref
  · unfold ifTopEmpty; split
    · exact hg.pres b st
    · exact hh.pres b st
  rw [kwRef_str]
  have h := H.resolve r st
  split
  · rename_i url target st1 heq
    rw [heq] at h
    exact H.trans h ((pres_withScope H url (hrec inst target)).pres b st1)
  · rename_i heq; rw [heq] at h; exact h
  · rename_i heq; rw [heq] at h; exact h

/-- **the generic lemma**: a reflexive, transitive relation that ignores the scope stack and
    contains the resolver's elementary moves gives a `Closed` predicate -/
theorem presClosed : Closed env (Pres R) where
  emit := pres_emit H
  nothing := ⟨fun _ st => H.refl st⟩
  stop := fun s _ => pres_stopG H s
  andThen := pres_andThen H
  mapErrs := pres_mapErrs
  inner := pres_inner H
  withScope := pres_withScope H
  kwRef := fun hrec ref inst => pres_kwRef H hrec ref inst

theorem pres_eval (impl : FmtImpl) (cfg : Cfg) (fuel : Nat) (i s : Json) (b : Option Nat) (st : RState) :
    R st (eval env impl cfg fuel i s b st).st :=
  (P_eval (presClosed H) impl cfg fuel i s).pres b st

end

/-! ### histories -/

theorem isValid_st (g : Gen) (st : RState) : (isValid g st).2 = (g (some 1) st).st := by
  unfold isValid
  split <;> (rename_i heq; rw [heq])

theorem validateM_st (g : Gen) (st : RState) : (validateM g st).2 = (g (some 1) st).st := by
  unfold validateM
  split <;> (rename_i heq; rw [heq])

/-- each operation on a validator is the identity, one run of the evaluator, or one `resolve` -/
theorem stepOp_cases (env : Env) (impl : FmtImpl) (cfg : Cfg) (fuel : Nat) (schema : Json)
    (st : RState) (op : Op) :
    (stepOp env impl cfg fuel schema st op).2 = st
    ∨ (∃ i b, (stepOp env impl cfg fuel schema st op).2 = (eval env impl cfg fuel i schema b st).st)
    ∨ (∃ ref, (stepOp env impl cfg fuel schema st op).2 = (resolve env ref st).2) := by
  cases op with
  | isValid i =>
    refine Or.inr (Or.inl ⟨i, some 1, ?_⟩)
    rw [← isValid_st]
    simp only [stepOp]
    split <;> (rename_i heq; rw [heq])
  | exhaust i =>
    exact Or.inr (Or.inl ⟨i, none, rfl⟩)
  | validate i =>
    refine Or.inr (Or.inl ⟨i, some 1, ?_⟩)
    rw [← validateM_st]
    simp only [stepOp]
    split <;> (rename_i heq; rw [heq])
  | take k i =>
    simp only [stepOp]
    by_cases hk : k = 0
    · left; simp only [hk, if_true]
    · right; left
      refine ⟨i, some k, ?_⟩
      simp only [hk, if_false]
  | resolve ref =>
    refine Or.inr (Or.inr ⟨ref, ?_⟩)
    simp only [stepOp]
    split <;> (rename_i heq; rw [heq])

section
variable {env : Env} {R : RState → RState → Prop} (H : StRel env R)
include H

theorem pres_stepOp (impl : FmtImpl) (cfg : Cfg) (fuel : Nat) (schema : Json) (st : RState) (op : Op) :
    R st (stepOp env impl cfg fuel schema st op).2 := by
  rcases stepOp_cases env impl cfg fuel schema st op with h | ⟨i, b, h⟩ | ⟨ref, h⟩
  · rw [h]; exact H.refl st
  · rw [h]; exact pres_eval H impl cfg fuel i schema b st
  · rw [h]; exact H.resolve ref st

theorem pres_runHist (impl : FmtImpl) (cfg : Cfg) (fuel : Nat) (schema : Json) (ops : List Op) :
    ∀ st, R st (runHist env impl cfg fuel schema st ops).2 := by
  induction ops with
  | nil => intro st; exact H.refl st
  | cons op ops ih =>
    intro st
    have h1 := pres_stepOp H impl cfg fuel schema st op
    have h2 := ih (stepOp env impl cfg fuel schema st op).2
    have : (runHist env impl cfg fuel schema st (op :: ops)).2
        = (runHist env impl cfg fuel schema (stepOp env impl cfg fuel schema st op).2 ops).2 := by
      rw [runHist]
    rw [this]
    exact H.trans h1 h2

end

/-! ### instance 1: with `cache_remote` off the store is never written -/

def ROff (st st' : RState) : Prop :=
  st.cacheRemote = false → st'.store = st.store ∧ st'.cacheRemote = false

theorem rOff (env : Env) : StRel env ROff where
  refl := fun st h => ⟨rfl, h⟩
  trans := fun h1 h2 h => by
    obtain ⟨a, b⟩ := h1 h
    obtain ⟨c, d⟩ := h2 b
    exact ⟨c.trans a, d⟩
  scopes := fun _ _ h hc => h hc
  step := fun hs hc => by
    cases hs with
    | memo m => exact ⟨rfl, hc⟩
    | fail u m => exact ⟨rfl, hc⟩
    | ok u key doc m hn hl =>
      refine ⟨?_, hc⟩
      simp only [hc]
      rfl

/-! ### instance 2: the store only grows -/

def RGrow (st st' : RState) : Prop :=
  ∀ k v, Json.lookup k st.store = some v → Json.lookup k st'.store = some v

theorem rGrow (env : Env) : StRel env RGrow where
  refl := fun _ _ _ h => h
  trans := fun h1 h2 k v h => h2 k v (h1 k v h)
  scopes := fun _ _ h => h
  step := fun hs k v h => by
    cases hs with
    | memo m => exact h
    | fail u m => exact h
    | ok u key doc m hn hl =>
      dsimp only
      split
      · exact lookup_storeSet_fresh hl h
      · exact h

/-! ### instance 3: the retrieval log only grows, the clock counts it -/

def RLog (st st' : RState) : Prop :=
  ∃ l, st'.fetchLog = st.fetchLog ++ l ∧ st'.clock = st.clock + l.length
    ∧ st'.cacheRemote = st.cacheRemote ∧ st'.memoCap = st.memoCap

theorem rLog (env : Env) : StRel env RLog where
  refl := fun st => ⟨[], by simp⟩
  trans := fun h1 h2 => by
    obtain ⟨l1, a1, b1, c1, d1⟩ := h1
    obtain ⟨l2, a2, b2, c2, d2⟩ := h2
    refine ⟨l1 ++ l2, ?_, ?_, c2.trans c1, d2.trans d1⟩
    · rw [a2, a1, List.append_assoc]
    · rw [b2, b1, List.length_append, Nat.add_assoc]
  scopes := fun _ _ h => h
  step := fun hs => by
    cases hs with
    | memo m => exact ⟨[], by simp⟩
    | fail u m => exact ⟨[(u, false)], rfl, rfl, rfl, rfl⟩
    | ok u key doc m hn hl => exact ⟨[(u, true)], rfl, rfl, rfl, rfl⟩

/-! ### instance 4: "fetched at most once" -/

/-- the invariant behind "fetched at most once" (the same proposition as `JS.Props.C15.FetchInv`) -/
def FetchInvS (env : Env) (st : RState) : Prop :=
  (∀ u, (u, true) ∈ st.fetchLog → ∃ k, env.urinorm u = some k ∧ (Json.lookup k st.store).isSome = true)
  ∧ ((st.fetchLog.filter (·.2)).map (fun p => env.urinorm p.1)).Nodup

def RInv (env : Env) (st st' : RState) : Prop :=
  st.cacheRemote = true → FetchInvS env st → (FetchInvS env st' ∧ st'.cacheRemote = true)

theorem fetchInvS_fresh (env : Env) (st : RState) (h : st.fetchLog = []) : FetchInvS env st := by
  unfold FetchInvS
  rw [h]
  exact ⟨fun u hu => (by cases hu), List.nodup_nil⟩

theorem fetchInvS_fail (env : Env) (st : RState) (u : Str) (m : List (Str × Json))
    (h : FetchInvS env st) :
    FetchInvS env { st with memo := m, clock := st.clock + 1, fetchLog := st.fetchLog ++ [(u, false)] } := by
  obtain ⟨h1, h2⟩ := h
  refine ⟨fun u' hu' => ?_, ?_⟩
  · dsimp only at hu' ⊢
    rcases List.mem_append.1 hu' with hm | hm
    · exact h1 u' hm
    · simp at hm
  · dsimp only
    simpa using h2

theorem fetchInvS_ok (env : Env) (st : RState) (u key : Str) (doc : Json) (m : List (Str × Json))
    (hn : env.urinorm u = some key) (hl : Json.lookup key st.store = none)
    (h : FetchInvS env st) :
    FetchInvS env { st with memo := m, clock := st.clock + 1, fetchLog := st.fetchLog ++ [(u, true)],
                            store := storeSet key doc st.store } := by
  obtain ⟨h1, h2⟩ := h
  refine ⟨fun u' hu' => ?_, ?_⟩
  · dsimp only at hu' ⊢
    rcases List.mem_append.1 hu' with hm | hm
    · obtain ⟨k, hk, hs⟩ := h1 u' hm
      exact ⟨k, hk, lookup_storeSet_isSome hs⟩
    · have : u' = u := by simpa using hm
      subst this
      exact ⟨key, hn, by rw [lookup_storeSet_self]; rfl⟩
  · dsimp only
    have hnew : env.urinorm u ∉ (st.fetchLog.filter (·.2)).map (fun p => env.urinorm p.1) := by
      intro hmem
      obtain ⟨p, hp, hpe⟩ := List.mem_map.1 hmem
      obtain ⟨hp1, hp2⟩ := List.mem_filter.1 hp
      obtain ⟨u', b'⟩ := p
      dsimp only at hp2 hpe
      have hb : b' = true := by simpa using hp2
      subst hb
      obtain ⟨k, hk, hs⟩ := h1 u' hp1
      rw [hpe, hn] at hk
      cases hk
      rw [hl] at hs
      cases hs
    rw [List.filter_append, List.map_append]
    simp only [List.filter_cons_of_pos, List.filter_nil, List.map_cons, List.map_nil]
    rw [List.nodup_append]
    refine ⟨h2, by simp, ?_⟩
    intro a ha b hb
    have : b = env.urinorm u := by simpa using hb
    subst this
    intro hab
    subst hab
    exact hnew ha

theorem rInv (env : Env) : StRel env (RInv env) where
  refl := fun _ hc hi => ⟨hi, hc⟩
  trans := fun h1 h2 hc hi => by
    obtain ⟨a, b⟩ := h1 hc hi
    exact h2 b a
  scopes := fun _ _ h hc hi => h hc hi
  step := fun hs hc hi => by
    cases hs with
    | memo m => exact ⟨hi, hc⟩
    | fail u m => exact ⟨fetchInvS_fail env _ u m hi, hc⟩
    | ok u key doc m hn hl =>
      refine ⟨?_, hc⟩
      have := fetchInvS_ok env _ u key doc m hn hl hi
      simpa only [hc, if_true] using this

/-! ### the memo is written only by a successful `resolve` -/

theorem resolveRemote_memo (env : Env) (uri key : Str) (st : RState) :
    (resolveRemote env uri key st).2.memo = st.memo := by
  unfold resolveRemote
  split <;> rfl

theorem resolveFromUrl_memo (env : Env) (url : Str) (st : RState) :
    (resolveFromUrl env url st).2.memo = st.memo := by
  unfold resolveFromUrl
  split
  · rfl
  · split
    · rfl
    · split
      · rfl
      · rename_i u _ _ _ key _ _ _
        have h := resolveRemote_memo env u key st
        split
        · rename_i heq; rw [heq] at h; exact h
        · rename_i heq; rw [heq] at h; exact h

theorem resolve_raise_memo (env : Env) (ref : Str) (st : RState) (e : Exc)
    (h : (resolve env ref st).1 = .raise e) : (resolve env ref st).2.memo = st.memo := by
  unfold resolve at h ⊢
  cases hu : env.urljoin st.top ref with
  | none => rfl
  | some url =>
    simp only [hu] at h ⊢
    cases hm : memoLookup url st.memo with
    | some p => simp only [hm] at h; cases h
    | none =>
      simp only [hm] at h ⊢
      have hmemo := resolveFromUrl_memo env url st
      rcases hr : resolveFromUrl env url st with ⟨r, st'⟩
      rw [hr] at h hmemo
      cases r with
      | ok v => cases h
      | raise e' => exact hmemo
      | miss q => exact hmemo

end JS
