/- Helper lemmas for C15 (store, retrieval log, memo): invariants as `Closed` predicates. -/
import JS.Proofs.Framework
import JS.History
namespace JS
end JS
