/-
  Helper lemmas for C18 (independence under interleaving): the frame property of a scheduled
  `next()`, the projection of a run of the system onto one validator, and what the `next()` calls
  on one generator show in terms of its exhaustive run (from the budget-prefix law).
-/
import JS.System
import JS.Proofs.Prefix
namespace JS

variable (env : Env) (impl : FmtImpl)

/-! ### `pull` and the exhaustive run -/

/-- The recomputing model of `next()` is well defined: under the budget-prefix law the `(k+1)`-th
    `next()` returns the `k`-th error of the exhaustive run, and when there is none it ends the
    way the exhaustive run ends, leaving the exhaustive run's state. -/
theorem pull_spec {g : Gen} (L : PrefixLaw g) (st₀ : RState) (k : Nat) :
    pull g st₀ k =
      match (g none st₀).errs[k]? with
      | some e => .inl e
      | none => .inr ((g none st₀).stop, (g none st₀).st) := by
  unfold pull
  by_cases h : k < (g none st₀).errs.length
  · have ht := L.take_prefix st₀ (k + 1) (Nat.succ_pos k)
    have h1 : (g (some (k + 1)) st₀).errs[k]? = (g none st₀).errs[k]? := by
      rw [ht, List.getElem?_take_of_succ]
    have h2 : (g none st₀).errs[k]? = some ((g none st₀).errs[k]) := List.getElem?_eq_getElem h
    simp only [h1, h2]
  · rw [L.short st₀ (k + 1) (by omega)]
    cases (g none st₀).errs[k]? <;> rfl

/-! ### frame -/

theorem System.step_of_some {σ : System} {s : Nat × Nat} {v : VState} (h : σ.vals[s.1]? = some v) :
    System.step env impl σ s =
      ((VState.next env impl σ.globals v s.2).1,
       { σ with vals := σ.vals.set s.1 (VState.next env impl σ.globals v s.2).2 }) := by
  unfold System.step
  rw [h]

theorem System.step_of_none {σ : System} {s : Nat × Nat} (h : σ.vals[s.1]? = none) :
    System.step env impl σ s = (.noIter, σ) := by
  unfold System.step
  rw [h]

/-- a scheduled `next()` of validator `s.1` leaves every other validator's state as it was -/
theorem System.step_frame' (σ : System) (s : Nat × Nat) (b : Nat) (hb : b ≠ s.1) :
    (System.step env impl σ s).2.vals[b]? = σ.vals[b]? := by
  cases h : σ.vals[s.1]? with
  | none => rw [System.step_of_none env impl h]
  | some v =>
    rw [System.step_of_some env impl h]
    exact List.getElem?_set_ne (fun e => hb e.symm)

/-- … and never writes the module globals -/
theorem System.step_globals' (σ : System) (s : Nat × Nat) :
    (System.step env impl σ s).2.globals = σ.globals := by
  cases h : σ.vals[s.1]? with
  | none => rw [System.step_of_none env impl h]
  | some v => rw [System.step_of_some env impl h]

/-- the slot it does write receives exactly what `VState.next` returns for that validator alone -/
theorem System.step_self {σ : System} {s : Nat × Nat} {v : VState} (h : σ.vals[s.1]? = some v) :
    (System.step env impl σ s).1 = (VState.next env impl σ.globals v s.2).1
    ∧ (System.step env impl σ s).2.vals[s.1]? = some (VState.next env impl σ.globals v s.2).2 := by
  rw [System.step_of_some env impl h]
  refine ⟨rfl, ?_⟩
  show (σ.vals.set s.1 _)[s.1]? = _
  rw [List.getElem?_set_self', h]
  rfl

theorem runSched_globals (sched : Schedule) : ∀ σ : System,
    (runSched env impl σ sched).2.globals = σ.globals := by
  induction sched with
  | nil => intro σ; rfl
  | cons s rest ih =>
    intro σ
    show (runSched env impl (System.step env impl σ s).2 rest).2.globals = _
    rw [ih, System.step_globals']

/-! ### projection of a run onto one validator -/

theorem Schedule.proj_cons_self (a : Nat) (s : Nat × Nat) (rest : Schedule) (h : s.1 = a) :
    Schedule.proj a (s :: rest) = s.2 :: Schedule.proj a rest := by
  unfold Schedule.proj Schedule.only
  rw [List.filter_cons_of_pos (by simpa using h)]
  rfl

theorem Schedule.proj_cons_other (a : Nat) (s : Nat × Nat) (rest : Schedule) (h : s.1 ≠ a) :
    Schedule.proj a (s :: rest) = Schedule.proj a rest := by
  unfold Schedule.proj Schedule.only
  rw [List.filter_cons_of_neg (by simpa using h)]

theorem Schedule.only_only (a : Nat) (sched : Schedule) :
    Schedule.only a (Schedule.only a sched) = Schedule.only a sched := by
  unfold Schedule.only
  rw [List.filter_filter]
  congr 1
  funext s
  exact Bool.and_self _

theorem Schedule.proj_only (a : Nat) (sched : Schedule) :
    Schedule.proj a (Schedule.only a sched) = Schedule.proj a sched := by
  show (Schedule.only a (Schedule.only a sched)).map (·.2) = (Schedule.only a sched).map (·.2)
  rw [Schedule.only_only]

/-- **projection.**  In any run of the system the events of validator `a`, and the state it ends
    in, are those of `a` driven alone through its own subsequence of the schedule. -/
theorem runSched_proj (a : Nat) (sched : Schedule) : ∀ (σ : System) (v : VState), σ.vals[a]? = some v →
    outputsOf a sched (runSched env impl σ sched).1
        = (VState.runAlone env impl σ.globals v (Schedule.proj a sched)).1
    ∧ (runSched env impl σ sched).2.vals[a]?
        = some (VState.runAlone env impl σ.globals v (Schedule.proj a sched)).2 := by
  induction sched with
  | nil => intro σ v hv; exact ⟨rfl, hv⟩
  | cons s rest ih =>
    intro σ v hv
    by_cases hs : s.1 = a
    · have hv' : σ.vals[s.1]? = some v := by rw [hs]; exact hv
      obtain ⟨he, hst⟩ := System.step_self env impl hv'
      rw [hs] at hst
      obtain ⟨ih1, ih2⟩ := ih (System.step env impl σ s).2 _ hst
      rw [System.step_globals'] at ih1 ih2
      rw [Schedule.proj_cons_self a s rest hs]
      refine ⟨?_, ih2⟩
      show (if s.1 = a then _ :: outputsOf a rest _ else outputsOf a rest _) = _
      rw [if_pos hs, ih1, he]
      rfl
    · have hst : (System.step env impl σ s).2.vals[a]? = some v := by
        rw [System.step_frame' env impl σ s a (fun e => hs e.symm)]; exact hv
      obtain ⟨ih1, ih2⟩ := ih (System.step env impl σ s).2 v hst
      rw [System.step_globals'] at ih1 ih2
      rw [Schedule.proj_cons_other a s rest hs]
      refine ⟨?_, ih2⟩
      show (if s.1 = a then _ :: outputsOf a rest _ else outputsOf a rest _) = _
      rw [if_neg hs, ih1]

/-- the same when there is no validator number `a`: every step addressed to it answers `noIter` -/
theorem runSched_proj_none (a : Nat) (sched : Schedule) : ∀ (σ : System), σ.vals[a]? = none →
    outputsOf a sched (runSched env impl σ sched).1 = (Schedule.proj a sched).map (fun _ => Event.noIter) := by
  induction sched with
  | nil => intro σ _; rfl
  | cons s rest ih =>
    intro σ hv
    by_cases hs : s.1 = a
    · have hv' : σ.vals[s.1]? = none := by rw [hs]; exact hv
      have hstep := System.step_of_none env impl hv'
      rw [Schedule.proj_cons_self a s rest hs]
      show (if s.1 = a then _ :: outputsOf a rest _ else outputsOf a rest _) = _
      rw [if_pos hs, hstep]
      show Event.noIter :: outputsOf a rest (runSched env impl σ rest).1 = _
      rw [ih σ hv]
      rfl
    · have hst : (System.step env impl σ s).2.vals[a]? = none := by
        rw [System.step_frame' env impl σ s a (fun e => hs e.symm)]; exact hv
      rw [Schedule.proj_cons_other a s rest hs]
      show (if s.1 = a then _ :: outputsOf a rest _ else outputsOf a rest _) = _
      rw [if_neg hs, ih _ hst]

/-! ### one validator alone: `next()` against the exhaustive run -/

variable (g : Globals)

theorem VState.next_closed {v : VState} {j : Nat} {it : Iter} (hj : v.iters[j]? = some it)
    (hc : it.closed = true) : VState.next env impl g v j = (.done, v) := by
  unfold VState.next
  rw [hj]
  simp only [hc, if_true]

/-- a generator that has ended answers StopIteration for ever and changes nothing -/
theorem VState.runAlone_closed {v : VState} {j : Nat} {it : Iter} (hj : v.iters[j]? = some it)
    (hc : it.closed = true) (n : Nat) :
    VState.runAlone env impl g v (List.replicate n j) = (List.replicate n .done, v) := by
  induction n with
  | zero => rfl
  | succ n ih =>
    show (_ :: _, _) = _
    rw [VState.next_closed env impl g hj hc, ih]
    rfl

/-- a `next()` on generator `j`, not ended, no other generator of the validator suspended -/
theorem VState.next_open {v : VState} {j : Nat} {it : Iter} (hj : v.iters[j]? = some it)
    (hc : it.closed = false) (hb : v.busyExcept j = false) :
    VState.next env impl g v j =
      match pull (v.gen env impl it.inst) (v.startOf it) it.pulled with
      | .inl e =>
        (.error e,
         { v with iters := v.iters.set j { it with st₀ := some (v.startOf it), pulled := it.pulled + 1 } })
      | .inr (s, st') =>
        (Event.ofStop s,
         { v with rstate := st',
                  iters := v.iters.set j { it with st₀ := some (v.startOf it), closed := true } }) := by
  unfold VState.next
  rw [hj]
  simp only [hc, hb, Bool.false_eq_true, if_false]
  cases pull (v.gen env impl it.inst) (v.startOf it) it.pulled <;> rfl

theorem busyExcept_set (v : VState) (j : Nat) (x : Iter) (r : RState) :
    VState.busyExcept { v with rstate := r, iters := v.iters.set j x } j = v.busyExcept j := by
  unfold VState.busyExcept
  show ((v.iters.set j x).eraseIdx j).any Iter.live = _
  rw [List.eraseIdx_set_eq]

/-- generator `j` of `v` (instance `inst`, body `G` started in `st₀`) has handed out `k` errors and
    nothing else of `v` is suspended: the next `n` calls of `next()` show the errors `k, k+1, …` of
    the exhaustive run, then how it ended, then StopIteration -/
theorem VState.runAlone_suspended (G : Gen) (L : PrefixLaw G) (inst : Json) (st₀ : RState) (j : Nat) :
    ∀ (n : Nat) (v : VState) (k : Nat) (s : Option RState),
      v.iters[j]? = some ⟨inst, s, k, false⟩ → s.getD v.rstate = st₀ → v.busyExcept j = false →
      v.gen env impl inst = G → k ≤ (G none st₀).errs.length →
      (VState.runAlone env impl g v (List.replicate n j)).1 =
        (((G none st₀).errs.drop k).take n).map Event.error ++
          (if k + n ≤ (G none st₀).errs.length then []
           else Event.ofStop (G none st₀).stop
                  :: List.replicate (k + n - (G none st₀).errs.length - 1) .done) := by
  intro n
  induction n with
  | zero =>
    intro v k s _ _ _ _ hk
    simp only [Nat.add_zero, hk, if_true, List.take_zero, List.map_nil, List.append_nil]
    rfl
  | succ n ih =>
    intro v k s hj hs hb hG hk
    have hnext := VState.next_open env impl g hj rfl hb
    have hstart : v.startOf ⟨inst, s, k, false⟩ = st₀ := hs
    simp only [hstart, hG] at hnext
    rw [pull_spec L st₀ k] at hnext
    show (VState.next env impl g v j).1 :: (VState.runAlone env impl g (VState.next env impl g v j).2 (List.replicate n j)).1 = _
    by_cases hlt : k < (G none st₀).errs.length
    · have h2 : (G none st₀).errs[k]? = some ((G none st₀).errs[k]) := List.getElem?_eq_getElem hlt
      simp only [h2] at hnext
      rw [hnext]
      have hj' : (VState.mk v.cfg v.schema v.fuel v.handlers v.formats v.rstate
            (v.iters.set j ⟨inst, some st₀, k + 1, false⟩)).iters[j]?
            = some ⟨inst, some st₀, k + 1, false⟩ := by
        show (v.iters.set j _)[j]? = _
        rw [List.getElem?_set_self', hj]
        rfl
      have hb' := (busyExcept_set v j ⟨inst, some st₀, k + 1, false⟩ v.rstate).trans hb
      have := ih _ (k + 1) (some st₀) hj' rfl hb' hG (by omega)
      dsimp only
      rw [this, List.drop_eq_getElem_cons hlt, List.take_succ_cons, List.map_cons]
      have e1 : k + (n + 1) = k + 1 + n := by omega
      rw [e1]
      rfl
    · have hk' : k = (G none st₀).errs.length := by omega
      have h2 : (G none st₀).errs[k]? = none := List.getElem?_eq_none (by omega)
      simp only [h2] at hnext
      rw [hnext]
      have hj' : (VState.mk v.cfg v.schema v.fuel v.handlers v.formats (G none st₀).st
            (v.iters.set j ⟨inst, some st₀, k, true⟩)).iters[j]?
            = some ⟨inst, some st₀, k, true⟩ := by
        show (v.iters.set j _)[j]? = _
        rw [List.getElem?_set_self', hj]
        rfl
      dsimp only
      rw [VState.runAlone_closed env impl g hj' rfl n]
      have e0 : List.drop k (G none st₀).errs = [] := List.drop_eq_nil_of_le (by omega)
      have e1 : ¬ (k + (n + 1) ≤ (G none st₀).errs.length) := by omega
      have e2 : k + (n + 1) - (G none st₀).errs.length - 1 = n := by omega
      rw [e0, if_neg e1, e2]
      rfl

/-- a fresh generator, nothing else suspended, `n` calls of `next()`: `pullsOf` of the exhaustive run -/
theorem VState.runAlone_fresh (G : Gen) (L : PrefixLaw G) (v : VState) (j n : Nat) (inst : Json)
    (hj : v.iters[j]? = some (Iter.fresh inst)) (hidle : v.busyExcept j = false)
    (hG : v.gen env impl inst = G) :
    (VState.runAlone env impl g v (List.replicate n j)).1 = pullsOf (G none v.rstate) n := by
  have h := VState.runAlone_suspended env impl g G L inst v.rstate j n v 0 none hj rfl hidle hG (Nat.zero_le _)
  rw [h]
  unfold pullsOf
  simp only [List.drop_zero, Nat.zero_add]

/-- if every step addressed to `a` advances its generator `j`, `a`'s subsequence is `j, j, …` -/
theorem Schedule.proj_eq_replicate (a j : Nat) (sched : Schedule) (h : ∀ s ∈ sched, s.1 = a → s.2 = j) :
    Schedule.proj a sched = List.replicate (Schedule.only a sched).length j := by
  unfold Schedule.proj
  apply List.eq_replicate_iff.2
  refine ⟨by rw [List.length_map], ?_⟩
  intro x hx
  obtain ⟨s, hs, rfl⟩ := List.mem_map.1 hx
  unfold Schedule.only at hs
  obtain ⟨hmem, hp⟩ := List.mem_filter.1 hs
  exact h s hmem (by simpa using hp)

theorem errorsOf_map_error (es : List Err) (rest : List Event) :
    errorsOf (es.map Event.error ++ rest) = es ++ errorsOf rest := by
  induction es with
  | nil => rfl
  | cons e es ih =>
    show e :: errorsOf (es.map Event.error ++ rest) = _
    rw [ih]
    rfl

theorem errorsOf_replicate_done (n : Nat) : errorsOf (List.replicate n Event.done) = [] := by
  induction n with
  | zero => rfl
  | succ n ih => exact ih

theorem errorsOf_ofStop (s : Stop) (rest : List Event) : errorsOf (Event.ofStop s :: rest) = errorsOf rest := by
  cases s <;> rfl

/-- the errors a consumer collects from `n` calls are the first `n` errors of the exhaustive run -/
theorem errorsOf_pullsOf (full : Out) (n : Nat) : errorsOf (pullsOf full n) = full.errs.take n := by
  unfold pullsOf
  rw [errorsOf_map_error]
  split
  · exact List.append_nil _
  · rw [errorsOf_ofStop, errorsOf_replicate_done, List.append_nil]

end JS
