/-
  JS.Proofs.Terminate — termination of the evaluator on schemas WITH references, from a rank
  certificate (C03 `terminates_ranked`); the instances for the four bundled metaschemas (C11) are
  in JS.Proofs.TerminateMeta.

  Three parts.
  (1) `NF P g`: from every resolver state satisfying `P`, the generator `g` does not stop for lack
      of fuel, and leaves a state satisfying `P`. One lemma per keyword function that says WHICH
      recursive calls it makes: on the SAME instance (`sameTargets`) or on a STRICT PART of the
      instance (`subTargets`). With a rank on the (base URI, schema) pairs of a world `D` that
      strictly decreases along the same-instance edges (`Ranked`), induction on the fuel gives:
      `eval` with fuel `≥ i.size * (R + 1) + rank s + 1` never stops with `.fuel` (`eval_nf`).
      No assumption on the shape of the schemas is needed for this part.
  (2) The OPTIMISTIC evaluator `evalT` — the same tower of `evalStep`s over the base "accept"
      instead of "out of fuel" (this is the reading of `Spec.validRN`: out of steps it answers
      `true`) — ends normally (or is closed by its consumer) on every member of a `RefDomainL`,
      for every well-formed instance, with the verdict `Spec.validRN n` (`evalT_vd`): the induction
      of JS.Proofs.ValidRef with "termination is guaranteed".
  (3) `eval n` and `evalT n` agree wherever `eval n` does not run out of fuel (`eval_evalT`).
  Hence (`eval_done`): on a ranked `RefDomainL`, with enough fuel, the exhaustive run ends with
  `.done`.
-/
import JS.Proofs.ValidRef
import JS.Proofs.NoCrash
namespace JS
namespace Terminate
open Spec Knowledge

/-! ### (1) never out of fuel -/

/-- from every state satisfying `P`: not out of fuel, and `P` again afterwards (however it ends) -/
structure NF (P : RState → Prop) (g : Gen) : Prop where
  run : ∀ b st, P st → (g b st).stop ≠ .fuel ∧ P (g b st).st

section Comb
variable {P : RState → Prop}

theorem nf_nothing : NF P nothing := ⟨fun _ _ hp => ⟨nofun, hp⟩⟩

theorem nf_stopG {s : Stop} (hs : s ≠ .fuel) : NF P (stopG s) := ⟨fun _ _ hp => ⟨hs, hp⟩⟩

theorem nf_miss (q : Query) : NF P (stopG (.miss q)) := nf_stopG nofun
theorem nf_raiseG (e : Exc) : NF P (raiseG e) := nf_stopG nofun
theorem nf_crashG (c : String) : NF P (crashG c) := nf_stopG nofun

theorem nf_emit (es : List Err) : NF P (emit es) := by
  refine ⟨fun b st hp => ?_⟩
  unfold emit
  cases b with
  | none => exact ⟨nofun, hp⟩
  | some k =>
    dsimp only
    split
    · exact ⟨nofun, hp⟩
    · exact ⟨nofun, hp⟩

theorem nf_andThen {g h : Gen} (hg : NF P g) (hh : NF P h) : NF P (andThen g h) := by
  refine ⟨fun b st hp => ?_⟩
  unfold andThen
  have h1 := hg.run b st hp
  rcases hgo : g b st with ⟨es, s, st1⟩
  rw [hgo] at h1
  cases s with
  | done =>
    dsimp only
    have h2 := hh.run (budgetSub b es.length) st1 h1.2
    rcases hho : h (budgetSub b es.length) st1 with ⟨es', s', st2⟩
    rw [hho] at h2
    exact h2
  | budget => exact h1
  | raised e => exact h1
  | fuel => exact h1
  | miss q => exact h1

theorem nf_seqG {α : Type} (f : α → Gen) (xs : List α) (hf : ∀ x ∈ xs, NF P (f x)) :
    NF P (seqG f xs) := by
  induction xs with
  | nil => exact nf_nothing
  | cons x xs ih =>
    exact nf_andThen (hf x (List.mem_cons_self ..)) (ih fun y hy => hf y (List.mem_cons_of_mem _ hy))

theorem nf_seqG' {α : Type} (f : α → Gen) (xs : List α) (hf : ∀ x, NF P (f x)) :
    NF P (seqG f xs) := nf_seqG f xs (fun x _ => hf x)

theorem nf_mapErrs (f : Err → Err) {g : Gen} (hg : NF P g) : NF P (mapErrs f g) := by
  exact ⟨fun b st hp => hg.run b st hp⟩

theorem nf_descendG {g : Gen} (p sp : Option PathElem) (hg : NF P g) : NF P (descendG g p sp) :=
  nf_mapErrs _ hg

theorem nf_inner {g : Gen} (b' : Option Nat) (k : List Err → Gen) (hg : NF P g)
    (hk : ∀ es, NF P (k es)) : NF P (inner g b' k) := by
  refine ⟨fun b st hp => ?_⟩
  unfold inner
  have h1 := hg.run b' st hp
  rcases hgo : g b' st with ⟨es, s, st1⟩
  rw [hgo] at h1
  cases s with
  | done => exact (hk es).run b st1 h1.2
  | budget => exact (hk es).run b st1 h1.2
  | raised e => exact h1
  | fuel => exact h1
  | miss q => exact h1

theorem nf_innerValid {g : Gen} (k : Bool → Gen) (hg : NF P g) (hk : ∀ v, NF P (k v)) :
    NF P (innerValid g k) :=
  nf_inner _ _ hg (fun _ => hk _)

theorem nf_withRes {α : Type} (r : Res α) (k : α → Gen) (hk : ∀ a, NF P (k a)) :
    NF P (withRes r k) := by
  unfold withRes
  cases r with
  | ok a => exact hk a
  | raise e => exact nf_raiseG e
  | miss q => exact nf_miss q

theorem nf_gate (cfg : Cfg) (inst : Json) (name : String) {k : Gen} (hk : NF P k) :
    NF P (gate cfg inst name k) := by
  unfold gate
  apply nf_withRes
  intro ok
  split
  · exact hk
  · exact nf_nothing

/-- `withScope` between two state predicates -/
theorem nf_withScope (env : Env) (scope : Str) {P' : RState → Prop} {g : Gen}
    (hin : ∀ st, P st → ∀ u, env.urljoin st.top scope = some u → P' { st with scopes := u :: st.scopes })
    (hout : ∀ st', P' st' → P { st' with scopes := st'.scopes.tail })
    (h : NF P' g) : NF P (withScope env scope g) := by
  refine ⟨fun b st hp => ?_⟩
  unfold withScope
  cases hu : env.urljoin st.top scope with
  | none => exact ⟨nofun, hp⟩
  | some u =>
    dsimp only
    have h1 := h.run b _ (hin st hp u hu)
    rcases hgo : g b { st with scopes := u :: st.scopes } with ⟨es, s, st1⟩
    rw [hgo] at h1
    exact ⟨h1.1, hout _ h1.2⟩

end Comb

/-- one step of the syntax-directed proof that a keyword function never runs out of fuel -/
syntax "nf_step" : tactic
macro_rules | `(tactic| nf_step) => `(tactic| first
  | with_reducible exact nf_nothing
  | with_reducible exact nf_emit _
  | with_reducible exact nf_crashG _
  | with_reducible exact nf_miss _
  | with_reducible exact nf_raiseG _
  | with_reducible assumption
  | with_reducible apply nf_descendG
  | with_reducible apply nf_gate
  | with_reducible apply nf_withRes
  | with_reducible apply nf_seqG'
  | with_reducible apply nf_innerValid
  | with_reducible apply nf_inner
  | with_reducible apply nf_mapErrs
  | intro _
  | split)

syntax "nf_tac" : tactic
macro_rules | `(tactic| nf_tac) => `(tactic| repeat nf_step)

/-! #### keyword functions that do not recurse -/

section Leaf
variable {P : RState → Prop}

theorem nf_kwBound (cfg : Cfg) (t : String) (f : Num → Num → Bool) (v inst : Json) :
    NF P (kwBound cfg t f v inst) := by
  unfold kwBound; nf_tac

theorem nf_kwLenBound (cfg : Cfg) (ty t : String) (lt : Bool) (len : Json → Option Nat) (v inst : Json) :
    NF P (kwLenBound cfg ty t lt len v inst) := by
  unfold kwLenBound; nf_tac

theorem nf_leaf (env : Env) (impl : FmtImpl) (cfg : Cfg) (v inst schema : Json) :
    NF P (kwConst v inst) ∧ NF P (kwMultipleOf cfg v inst) ∧ NF P (kwUniqueItems cfg v inst)
    ∧ NF P (kwPattern env cfg v inst) ∧ NF P (kwFormat env impl cfg v inst) ∧ NF P (kwEnum v inst)
    ∧ NF P (kwType cfg v inst) ∧ NF P (kwRequired cfg v inst)
    ∧ NF P (kwMinimumDraft3Draft4 cfg v inst schema) ∧ NF P (kwMaximumDraft3Draft4 cfg v inst schema) := by
  refine ⟨?_, ?_, ?_, ?_, ?_, ?_, ?_, ?_, ?_, ?_⟩
  · unfold kwConst; nf_tac
  · unfold kwMultipleOf; nf_tac
  · unfold kwUniqueItems; nf_tac
  · unfold kwPattern; nf_tac
  · unfold kwFormat; nf_tac
  · unfold kwEnum; nf_tac
  · unfold kwType; nf_tac
  · unfold kwRequired; nf_tac
  · unfold kwMinimumDraft3Draft4; split <;> exact nf_kwBound _ _ _ _ _
  · unfold kwMaximumDraft3Draft4; split <;> exact nf_kwBound _ _ _ _ _

end Leaf

/-! #### keyword functions that recurse: which calls they make

`hsame`: the calls on the instance itself; `hsub`: the calls on strict parts of the instance. -/

/-- the elements of an array value -/
def arrElems : Json → List Json
  | .arr xs => xs
  | _ => []

/-- the values of an object value -/
def objVals : Json → List Json
  | .obj kvs => kvs.map (·.2)
  | _ => []

/-- the schema draft 3 `disallow` synthesises for one entry -/
def synth (x : Json) : Json := .obj [(skey "type", .arr [x])]

section Kw
variable {env : Env} {d : Draft} {fc : Option FormatChecker} {P : RState → Prop} {rec : Rec}

theorem nf_gate_object (inst : Json) (k : Gen) (hk : ∀ ikvs, inst = .obj ikvs → NF P k) :
    NF P (gate (d.cfg fc) inst "object" k) := by
  unfold gate
  rw [NoCrash.isTypeS_object]
  cases inst with
  | obj ikvs => exact hk ikvs rfl
  | _ => exact nf_nothing

theorem nf_gate_array (inst : Json) (k : Gen) (hk : ∀ xs, inst = .arr xs → NF P k) :
    NF P (gate (d.cfg fc) inst "array" k) := by
  unfold gate
  rw [NoCrash.isTypeS_array]
  cases inst with
  | arr xs => exact hk xs rfl
  | _ => exact nf_nothing

theorem T_kwPatternProperties (v inst : Json)
    (hsub : ∀ t ∈ objVals v, ∀ x, x.size < inst.size → NF P (rec x t)) :
    NF P (kwPatternProperties env (d.cfg fc) rec v inst) := by
  unfold kwPatternProperties
  apply nf_gate_object
  intro ikvs hi
  subst hi
  cases v <;> first | exact nf_crashG _ | skip
  rename_i pkvs
  dsimp only
  apply nf_seqG
  intro ps hps
  apply nf_seqG
  intro kx hkx
  apply nf_withRes
  intro m
  split
  · apply nf_descendG
    refine hsub ps.2 (List.mem_map_of_mem hps) kx.2 ?_
    have := size_lt_of_mem_obj (k := kx.1) (v := kx.2) hkx
    omega
  · exact nf_nothing

theorem T_kwPropertyNames (v inst : Json)
    (hsub : ∀ x, x.size < inst.size → NF P (rec x v)) :
    NF P (kwPropertyNames (d.cfg fc) rec v inst) := by
  unfold kwPropertyNames
  apply nf_gate_object
  intro ikvs hi
  subst hi
  dsimp only
  apply nf_seqG
  intro kx hkx
  apply nf_descendG
  refine hsub _ ?_
  have := size_lt_of_mem_obj (k := kx.1) (v := kx.2) hkx
  have : (Json.str kx.1).size = 1 := rfl
  omega

theorem T_kwAdditionalProperties (aP inst schema : Json)
    (hsub : aP.isObj = true → ∀ x, x.size < inst.size → NF P (rec x aP)) :
    NF P (kwAdditionalProperties env (d.cfg fc) rec aP inst schema) := by
  unfold kwAdditionalProperties
  apply nf_gate_object
  intro ikvs hi
  subst hi
  split
  · rename_i ikvs' props pats hi _ _
    cases hi
    apply nf_withRes
    intro extras0
    apply nf_withRes
    intro extras
    rw [NoCrash.isTypeS_object, NoCrash.withRes_ok]
    split
    · rename_i hobj
      apply nf_seqG
      intro extra _
      split
      · rename_i x hx
        apply nf_descendG
        refine hsub hobj x ?_
        have := size_lt_of_mem_obj (lookup_mem hx)
        omega
      · exact nf_crashG _
    · nf_tac
  · exact nf_crashG _

theorem T_kwItems (v inst : Json)
    (hsub : ∀ t ∈ (match v with | .arr ss => ss | _ => [v]), ∀ x, x.size < inst.size → NF P (rec x t)) :
    NF P (kwItems (d.cfg fc) rec v inst) := by
  unfold kwItems
  apply nf_gate_array
  intro xs hi
  subst hi
  dsimp only
  rw [NoCrash.isTypeS_array, NoCrash.withRes_ok]
  split
  · rename_i h1
    cases v <;> try cases h1
    rename_i subs
    dsimp only
    apply nf_seqG
    intro t ht
    apply nf_descendG
    have hz := List.of_mem_zip ht
    exact hsub _ hz.2 _ (size_lt_of_mem_arr (mem_enumFrom hz.1))
  · rename_i h1
    apply nf_seqG
    intro t ht
    apply nf_descendG
    refine hsub _ ?_ _ (size_lt_of_mem_arr (mem_enumFrom ht))
    cases v <;> first | exact List.mem_singleton.mpr rfl | exact absurd rfl h1

theorem T_kwItemsDraft3Draft4 (v inst : Json)
    (hsub : ∀ t ∈ (match v with | .obj _ => [v] | .arr ss => ss | _ => []), ∀ x, x.size < inst.size →
      NF P (rec x t)) :
    NF P (kwItemsDraft3Draft4 (d.cfg fc) rec v inst) := by
  unfold kwItemsDraft3Draft4
  apply nf_gate_array
  intro xs hi
  subst hi
  dsimp only
  rw [NoCrash.isTypeS_object, NoCrash.withRes_ok]
  split
  · rename_i h1
    apply nf_seqG
    intro t ht
    apply nf_descendG
    refine hsub _ ?_ _ (size_lt_of_mem_arr (mem_enumFrom ht))
    cases v <;> first | exact List.mem_singleton.mpr rfl | cases h1
  · split
    · rename_i subs
      apply nf_seqG
      intro t ht
      apply nf_descendG
      have hz := List.of_mem_zip ht
      exact hsub _ hz.2 _ (size_lt_of_mem_arr (mem_enumFrom hz.1))
    · exact nf_crashG _

theorem T_kwAdditionalItems (aI inst schema : Json)
    (hsub : aI.isObj = true → ∀ x, x.size < inst.size → NF P (rec x aI)) :
    NF P (kwAdditionalItems (d.cfg fc) rec aI inst schema) := by
  unfold kwAdditionalItems
  apply nf_withRes
  intro instArr
  split
  · exact nf_nothing
  apply nf_withRes
  intro itemsArr
  split
  · exact nf_nothing
  split
  · rename_i xs subs
    rw [NoCrash.isTypeS_object, NoCrash.withRes_ok]
    split
    · rename_i h3
      apply nf_seqG
      intro t ht
      apply nf_descendG
      exact hsub h3 _ (size_lt_of_mem_arr (List.mem_of_mem_drop (mem_enumFrom ht)))
    · nf_tac
  · exact nf_crashG _

theorem T_containsLoop (sub whole : Json) (xs : List Json)
    (hsub : ∀ x ∈ xs, NF P (rec x sub)) : NF P (containsLoop rec sub whole xs) := by
  induction xs with
  | nil => unfold containsLoop; exact nf_emit _
  | cons x xs ih =>
    unfold containsLoop
    apply nf_innerValid _ (hsub x (List.mem_cons_self ..))
    intro ok
    split
    · exact nf_nothing
    · exact ih (fun y hy => hsub y (List.mem_cons_of_mem _ hy))

theorem T_kwContains (v inst : Json) (hsub : ∀ x, x.size < inst.size → NF P (rec x v)) :
    NF P (kwContains (d.cfg fc) rec v inst) := by
  unfold kwContains
  apply nf_gate_array
  intro xs hi
  subst hi
  exact T_containsLoop _ _ _ (fun x hx => hsub x (size_lt_of_mem_arr hx))

theorem T_kwDependencies (v inst : Json)
    (hsame : ∀ t ∈ (objVals v).filter (fun t => !t.isArr), NF P (rec inst t)) :
    NF P (kwDependencies (d.cfg fc) rec v inst) := by
  unfold kwDependencies depArray
  apply nf_gate_object
  intro ikvs hi
  subst hi
  cases v <;> first | exact nf_crashG _ | skip
  rename_i dkvs
  dsimp only
  apply nf_seqG
  intro pd hpd
  split
  · exact nf_nothing
  rw [NoCrash.isTypeS_array, NoCrash.withRes_ok]
  split
  · nf_tac
  · rename_i h1
    apply nf_descendG
    refine hsame _ (List.mem_filter.mpr ⟨List.mem_map_of_mem hpd, ?_⟩)
    simpa using h1

theorem T_kwProperties (v inst : Json)
    (hsub : ∀ t ∈ objVals v, ∀ x, x.size < inst.size → NF P (rec x t)) :
    NF P (kwProperties (d.cfg fc) rec v inst) := by
  unfold kwProperties
  apply nf_gate_object
  intro ikvs hi
  subst hi
  cases v <;> first | exact nf_crashG _ | skip
  rename_i pkvs
  dsimp only
  apply nf_seqG
  intro ps hps
  split
  · rename_i x hx
    apply nf_descendG
    refine hsub ps.2 (List.mem_map_of_mem hps) x ?_
    have := size_lt_of_mem_obj (lookup_mem hx)
    omega
  · exact nf_nothing

theorem T_kwPropertiesDraft3 (v inst schema : Json)
    (hsub : ∀ t ∈ objVals v, ∀ x, x.size < inst.size → NF P (rec x t)) :
    NF P (kwPropertiesDraft3 (d.cfg fc) rec v inst schema) := by
  unfold kwPropertiesDraft3
  apply nf_gate_object
  intro ikvs hi
  subst hi
  cases v <;> first | exact nf_crashG _ | skip
  rename_i pkvs
  dsimp only
  apply nf_seqG
  intro ps hps
  split
  · rename_i x hx
    apply nf_descendG
    refine hsub ps.2 (List.mem_map_of_mem hps) x ?_
    have := size_lt_of_mem_obj (lookup_mem hx)
    omega
  · nf_tac

theorem T_kwAllOf (v inst : Json) (hsame : ∀ t ∈ arrElems v, NF P (rec inst t)) :
    NF P (kwAllOf rec v inst) := by
  unfold kwAllOf
  cases v <;> first | exact nf_crashG _ | skip
  rename_i ss
  dsimp only
  apply nf_seqG
  intro t ht
  apply nf_descendG
  exact hsame _ (mem_enumFrom ht)

theorem T_firstValid {xs0 : List (Nat × Json)} (inst : Json)
    (k : Option (Json × List (Nat × Json)) → List Err → Gen)
    (hk : ∀ r acc, (∀ rest s, r = some (s, rest) → ∀ p ∈ rest, p ∈ xs0) → NF P (k r acc))
    (xs : List (Nat × Json)) (hxs : ∀ p ∈ xs, p ∈ xs0)
    (hsame : ∀ p ∈ xs0, NF P (rec inst p.2)) (acc : List Err) :
    NF P (firstValid rec inst k xs acc) := by
  induction xs generalizing acc with
  | nil => unfold firstValid; exact hk _ _ (fun _ _ h => nomatch h)
  | cons x xs ih =>
    obtain ⟨i, s⟩ := x
    unfold firstValid
    apply nf_inner
    · apply nf_descendG
      exact hsame (i, s) (hxs _ (List.mem_cons_self ..))
    · intro errs
      split
      · refine hk _ _ (fun rest s' h p hp => ?_)
        cases h
        exact hxs p (List.mem_cons_of_mem _ hp)
      · exact ih (fun p hp => hxs p (List.mem_cons_of_mem _ hp)) _

theorem T_moreValid (inst : Json) (k : List Json → Gen) (hk : ∀ acc, NF P (k acc))
    (xs : List (Nat × Json)) (hsame : ∀ p ∈ xs, NF P (rec inst p.2)) (acc : List Json) :
    NF P (moreValid rec inst k xs acc) := by
  induction xs generalizing acc with
  | nil => unfold moreValid; exact hk _
  | cons x xs ih =>
    obtain ⟨i, s⟩ := x
    unfold moreValid
    apply nf_innerValid _ (hsame (i, s) (List.mem_cons_self ..))
    intro ok
    exact ih (fun p hp => hsame p (List.mem_cons_of_mem _ hp)) _

theorem T_kwAnyOf (v inst : Json) (hsame : ∀ t ∈ arrElems v, NF P (rec inst t)) :
    NF P (kwAnyOf rec v inst) := by
  unfold kwAnyOf
  cases v <;> first | exact nf_crashG _ | skip
  rename_i ss
  dsimp only
  refine T_firstValid (xs0 := enumFrom 0 ss) inst _ ?_ _ (fun p hp => hp)
    (fun p hp => hsame _ (mem_enumFrom hp)) _
  intro r acc _
  nf_tac

theorem T_kwOneOf (v inst : Json) (hsame : ∀ t ∈ arrElems v, NF P (rec inst t)) :
    NF P (kwOneOf rec v inst) := by
  unfold kwOneOf
  cases v <;> first | exact nf_crashG _ | skip
  rename_i ss
  dsimp only
  refine T_firstValid (xs0 := enumFrom 0 ss) inst _ ?_ _ (fun p hp => hp)
    (fun p hp => hsame _ (mem_enumFrom hp)) _
  intro r acc hr
  split
  · exact nf_emit _
  · rename_i first rest
    apply T_moreValid
    · intro more; nf_tac
    · intro p hp
      exact hsame _ (mem_enumFrom (hr rest first rfl p hp))

theorem T_kwNot (v inst : Json) (hsame : NF P (rec inst v)) : NF P (kwNot rec v inst) := by
  unfold kwNot
  apply nf_innerValid _ hsame
  intro ok
  nf_tac

theorem T_kwIf (v inst schema : Json) (hsame : NF P (rec inst v))
    (hthen : ∀ t, schema.get? (skey "then") = some t → NF P (rec inst t))
    (helse : ∀ t, schema.get? (skey "else") = some t → NF P (rec inst t)) :
    NF P (kwIf rec v inst schema) := by
  unfold kwIf
  apply nf_innerValid _ hsame
  intro ok
  split
  · split
    · rename_i t ht
      exact nf_descendG _ _ (hthen t ht)
    · exact nf_nothing
  · split
    · rename_i t ht
      exact nf_descendG _ _ (helse t ht)
    · exact nf_nothing

theorem T_kwDependenciesDraft3 (v inst : Json)
    (hsame : ∀ t ∈ (objVals v).filter (fun t => t.isObj), NF P (rec inst t)) :
    NF P (kwDependenciesDraft3 (d.cfg fc) rec v inst) := by
  unfold kwDependenciesDraft3 depArray
  apply nf_gate_object
  intro ikvs hi
  subst hi
  cases v <;> first | exact nf_crashG _ | skip
  rename_i dkvs
  dsimp only
  apply nf_seqG
  intro pd hpd
  split
  · exact nf_nothing
  rw [NoCrash.isTypeS_object, NoCrash.withRes_ok]
  split
  · rename_i h1
    apply nf_descendG
    exact hsame _ (List.mem_filter.mpr ⟨List.mem_map_of_mem hpd, h1⟩)
  · nf_tac

theorem T_kwDisallowDraft3 (v inst : Json)
    (hsame : ∀ t ∈ ((ensureList v).getD []).map synth, NF P (rec inst t)) :
    NF P (kwDisallowDraft3 rec v inst) := by
  unfold kwDisallowDraft3
  split
  · exact nf_crashG _
  · rename_i ds hds
    rw [hds] at hsame
    apply nf_seqG
    intro x hx
    apply nf_innerValid _ (hsame _ (List.mem_map_of_mem hx))
    intro ok
    nf_tac

theorem T_kwExtendsDraft3 (v inst : Json)
    (hsame : ∀ t ∈ (if v.isObj then [v] else arrElems v), NF P (rec inst t)) :
    NF P (kwExtendsDraft3 (d.cfg fc) rec v inst) := by
  unfold kwExtendsDraft3
  rw [NoCrash.isTypeS_object, NoCrash.withRes_ok]
  split
  · rename_i h1
    rw [if_pos h1] at hsame
    exact nf_descendG _ _ (hsame _ (List.mem_singleton.mpr rfl))
  · rename_i h1
    rw [if_neg h1] at hsame
    split
    · rename_i ss
      apply nf_seqG
      intro t ht
      apply nf_descendG
      exact hsame _ (mem_enumFrom ht)
    · exact nf_crashG _

theorem T_typeDraft3Loop (inst : Json) (k : Bool → List Err → Gen)
    (hk : ∀ m acc, NF P (k m acc)) (xs : List (Nat × Json))
    (hsame : ∀ p ∈ xs, p.2.isObj = true → NF P (rec inst p.2)) (acc : List Err) :
    NF P (typeDraft3Loop (d.cfg fc) rec inst k xs acc) := by
  induction xs generalizing acc with
  | nil => unfold typeDraft3Loop; exact hk _ _
  | cons x xs ih =>
    obtain ⟨i, t⟩ := x
    unfold typeDraft3Loop
    rw [NoCrash.isTypeS_object, NoCrash.withRes_ok]
    have ih' := ih (fun p hp => hsame p (List.mem_cons_of_mem _ hp))
    split
    · rename_i h1
      apply nf_inner
      · exact nf_descendG _ _ (hsame (i, t) (List.mem_cons_self ..) h1)
      · intro errs
        split
        · exact hk _ _
        · exact ih' _
    · apply nf_withRes
      intro ok
      split
      · exact hk _ _
      · exact ih' _

theorem T_kwTypeDraft3 (v inst : Json)
    (hsame : ∀ t ∈ ((ensureList v).getD []).filter (fun t => t.isObj), NF P (rec inst t)) :
    NF P (kwTypeDraft3 (d.cfg fc) rec v inst) := by
  unfold kwTypeDraft3
  split
  · exact nf_crashG _
  · rename_i ts hts
    rw [hts] at hsame
    apply T_typeDraft3Loop
    · intro m acc; nf_tac
    · intro p hp hobj
      exact hsame _ (List.mem_filter.mpr ⟨mem_enumFrom hp, hobj⟩)

end Kw

/-! #### the dispatcher -/

/-- the schemas a keyword function evaluates THE INSTANCE ITSELF against (`f` bound to a member
    with value `v` of the schema object `kvs`); `$ref` is treated separately -/
def sameTargets (f : KwFn) (v : Json) (kvs : List (Str × Json)) : List Json :=
  match f with
  | .allOf => arrElems v
  | .anyOf => arrElems v
  | .oneOf => arrElems v
  | .not_ => [v]
  | .if_ => v :: ((Json.lookup (skey "then") kvs).toList ++ (Json.lookup (skey "else") kvs).toList)
  | .dependencies => (objVals v).filter (fun t => !t.isArr)
  | .dependencies_draft3 => (objVals v).filter (fun t => t.isObj)
  | .disallow_draft3 => ((ensureList v).getD []).map synth
  | .extends_draft3 => if v.isObj then [v] else arrElems v
  | .type_draft3 => ((ensureList v).getD []).filter (fun t => t.isObj)
  | _ => []

/-- the schemas a keyword function evaluates STRICT PARTS of the instance against -/
def subTargets (f : KwFn) (v : Json) : List Json :=
  match f with
  | .patternProperties => objVals v
  | .properties => objVals v
  | .properties_draft3 => objVals v
  | .propertyNames => [v]
  | .contains => [v]
  | .additionalProperties => if v.isObj then [v] else []
  | .additionalItems => if v.isObj then [v] else []
  | .items => (match v with | .arr ss => ss | _ => [v])
  | .items_draft3_draft4 => (match v with | .obj _ => [v] | .arr ss => ss | _ => [])
  | _ => []

section Dispatch
variable {env : Env} {d : Draft} {fc : Option FormatChecker} {P : RState → Prop} {rec : Rec}

theorem applyKw_nf (impl : FmtImpl) (f : KwFn) (hf : f ≠ .ref) (v inst : Json) (kvs : List (Str × Json))
    (hsame : ∀ t ∈ sameTargets f v kvs, NF P (rec inst t))
    (hsub : ∀ t ∈ subTargets f v, ∀ x, x.size < inst.size → NF P (rec x t)) :
    NF P (applyKw env impl (d.cfg fc) rec f v inst (.obj kvs)) := by
  have leaf := nf_leaf (P := P) env impl (d.cfg fc) v inst (.obj kvs)
  cases f <;> unfold applyKw <;> dsimp only
  case ref => exact absurd rfl hf
  case additionalItems => exact T_kwAdditionalItems _ _ _ (fun h => hsub _ (by simp [subTargets, h]))
  case additionalProperties =>
    exact T_kwAdditionalProperties _ _ _ (fun h => hsub _ (by simp [subTargets, h]))
  case const => exact leaf.1
  case contains => exact T_kwContains _ _ (hsub _ (by simp [subTargets]))
  case exclusiveMinimum => exact nf_kwBound ..
  case exclusiveMaximum => exact nf_kwBound ..
  case minimum => exact nf_kwBound ..
  case maximum => exact nf_kwBound ..
  case multipleOf => exact leaf.2.1
  case minItems => exact nf_kwLenBound ..
  case maxItems => exact nf_kwLenBound ..
  case uniqueItems => exact leaf.2.2.1
  case pattern => exact leaf.2.2.2.1
  case format => exact leaf.2.2.2.2.1
  case minLength => exact nf_kwLenBound ..
  case maxLength => exact nf_kwLenBound ..
  case dependencies => exact T_kwDependencies _ _ hsame
  case enum => exact leaf.2.2.2.2.2.1
  case type => exact leaf.2.2.2.2.2.2.1
  case properties => exact T_kwProperties _ _ hsub
  case required => exact leaf.2.2.2.2.2.2.2.1
  case minProperties => exact nf_kwLenBound ..
  case maxProperties => exact nf_kwLenBound ..
  case allOf => exact T_kwAllOf _ _ hsame
  case anyOf => exact T_kwAnyOf _ _ hsame
  case oneOf => exact T_kwOneOf _ _ hsame
  case not_ => exact T_kwNot _ _ (hsame _ (by simp [sameTargets]))
  case if_ =>
    refine T_kwIf _ _ _ (hsame _ (by simp [sameTargets])) (fun t ht => hsame _ ?_) (fun t ht => hsame _ ?_)
    · have ht' : Json.lookup (skey "then") kvs = some t := ht
      simp [sameTargets, ht']
    · have ht' : Json.lookup (skey "else") kvs = some t := ht
      simp [sameTargets, ht']
  case items => exact T_kwItems _ _ hsub
  case patternProperties => exact T_kwPatternProperties _ _ hsub
  case propertyNames => exact T_kwPropertyNames _ _ (hsub _ (by simp [subTargets]))
  case dependencies_draft3 => exact T_kwDependenciesDraft3 _ _ hsame
  case disallow_draft3 => exact T_kwDisallowDraft3 _ _ hsame
  case extends_draft3 => exact T_kwExtendsDraft3 _ _ hsame
  case items_draft3_draft4 => exact T_kwItemsDraft3Draft4 _ _ hsub
  case minimum_draft3_draft4 => exact leaf.2.2.2.2.2.2.2.2.1
  case maximum_draft3_draft4 => exact leaf.2.2.2.2.2.2.2.2.2
  case properties_draft3 => exact T_kwPropertiesDraft3 _ _ _ hsub
  case type_draft3 => exact T_kwTypeDraft3 _ _ hsame
  case alwaysFail => exact nf_emit _
  case never => exact nf_nothing
  case foreign => exact nf_crashG _

end Dispatch

/-! #### `$ref`, and one layer of `iter_errors`, relative to the faithful states with a given scope stack -/

section Ref
variable {env : Env} {base : List (Str × Json)}

theorem nf_withScope_PK (sc : List Str) (scope : Str) {g : Gen}
    (h : ∀ u, env.urljoin (sc.headD []) scope = some u → NF (PK env base (u :: sc)) g) :
    NF (PK env base sc) (withScope env scope g) := by
  cases hu : env.urljoin (sc.headD []) scope with
  | none =>
    refine ⟨fun b st hp => ?_⟩
    rw [withScope_none (by rw [hp.top]; exact hu)]
    exact ⟨nofun, hp⟩
  | some u =>
    refine nf_withScope env scope (P' := PK env base (u :: sc)) (fun st hp u' hu' => ?_)
      (fun st' hp' => hp'.pop) (h u hu)
    rw [hp.top, hu] at hu'
    cases hu'
    exact hp.push u

/-- **the `$ref` keyword**: the only recursive call is on the same instance, against the
    designated schema, in the scope of the resolved URL -/
theorem nf_kwRef (hf : StableFetchS env) (sc : List Str) {rec : Rec} (r inst : Json)
    (hpr : properRef r = true)
    (h : ∀ rs, r = .str rs → ∀ url t, designated env base (sc.headD []) rs = some (url, t) →
      ∀ u, env.urljoin (sc.headD []) url = some u → NF (PK env base (u :: sc)) (rec inst t)) :
    NF (PK env base sc) (kwRef env rec r inst) := by
  refine ⟨fun b st hp => ?_⟩
  cases hq : refReading r with
  | ref rs =>
    cases refReading_ref hq
    rw [kwRef_str]
    obtain ⟨h1, h2⟩ := resolve_know hf hp.1 rs
    have hsc := resolve_scopes env rs st
    rcases hr : resolve env rs st with ⟨res, st1⟩
    rw [hr] at h1 h2 hsc
    dsimp only at h1 h2 hsc
    have hp1 : PK env base sc st1 := ⟨h2, hsc.trans hp.2⟩
    cases res with
    | ok p =>
      obtain ⟨url, t⟩ := p
      dsimp only
      rcases h1 with h1 | ⟨n, u, h1, _, _⟩
      · rw [hp.top] at h1
        have hdes := designated_of_ideal h1.symm
        exact (nf_withScope_PK sc url (fun u hu => h rs rfl url t hdes u hu)).run b st1 hp1
      · cases h1
    | raise e => exact ⟨nofun, hp1⟩
    | miss q => exact ⟨nofun, hp1⟩
  | emptyOrUnresolvable =>
    -- a falsy scalar would be followed as the empty reference: excluded by `hpr`
    unfold properRef at hpr
    rw [hq] at hpr
    cases hpr
  | typeError => rw [kwRef_typeError hq]; exact ⟨nofun, hp⟩

/-- the base URIs that can be in effect inside a schema object without `$ref`, the one in effect
    outside being `top`: `top` itself, or its join with the object's identifier -/
def insideTops (env : Env) (d : Draft) (top : Str) (kvs : List (Str × Json)) : List Str :=
  match scopeOf (d.cfg none) kvs with
  | .ok none => [top]
  | .ok (some id) => (env.urljoin top id).toList
  | .error _ => []

theorem scopeOf_fc (d : Draft) (fc : Option FormatChecker) (kvs : List (Str × Json)) :
    scopeOf (d.cfg fc) kvs = scopeOf (d.cfg none) kvs := rfl

/-- **one layer of `iter_errors` on a schema object** -/
theorem evalStep_obj_nf (hf : StableFetchS env) (impl : FmtImpl) (d : Draft) (fc : Option FormatChecker)
    (rec : Rec) (sc : List Str) (inst : Json) (kvs : List (Str × Json))
    (hproper : ∀ v, Json.lookup (skey "$ref") kvs = some v → properRef v = true)
    (href : ∀ rs, Json.lookup (skey "$ref") kvs = some (.str rs) →
      ∀ url t, designated env base (sc.headD []) rs = some (url, t) →
      ∀ u, env.urljoin (sc.headD []) url = some u → NF (PK env base (u :: sc)) (rec inst t))
    (hbody : Json.lookup (skey "$ref") kvs = none →
      ∀ top' ∈ insideTops env d (sc.headD []) kvs, ∀ sc', sc'.headD [] = top' → (sc' = sc ∨ sc' = top' :: sc) →
      ∀ k v f, (k, v) ∈ kvs → lookupS k d.keywords = some f →
        (∀ t ∈ sameTargets f v kvs, NF (PK env base sc') (rec inst t))
        ∧ (∀ t ∈ subTargets f v, ∀ x, x.size < inst.size → NF (PK env base sc') (rec x t))) :
    NF (PK env base sc) (evalStep env impl (d.cfg fc) rec inst (.obj kvs)) := by
  unfold evalStep
  dsimp only
  cases hl : Json.lookup (skey "$ref") kvs with
  | some r =>
    have hk : Json.hasKey (skey "$ref") kvs = true := by
      unfold Json.hasKey; rw [hl]; rfl
    have hs : scopeOf (d.cfg fc) kvs = .ok none := by
      unfold scopeOf; rw [if_pos hk]
    rw [hs]
    dsimp only
    unfold withScopeOpt schemaBody
    dsimp only
    rw [hl]
    have hpr := hproper r hl
    cases r <;> first | exact absurd hpr (by decide) | skip
    all_goals
      dsimp only
      unfold runKeyword
      dsimp only
      rw [NoCrash.ref_bound]
      dsimp only
      apply nf_mapErrs
      unfold applyKw
      dsimp only
    · exact nf_kwRef hf sc _ _ hpr (fun rs h => nomatch h)
    · exact nf_kwRef hf sc _ _ hpr (fun rs h => nomatch h)
    · rename_i rs
      exact nf_kwRef hf sc _ _ hpr (fun rs' h => by cases h; exact href rs hl)
    · exact nf_kwRef hf sc _ _ hpr (fun rs h => nomatch h)
    · exact nf_kwRef hf sc _ _ hpr (fun rs h => nomatch h)
  | none =>
    -- the keyword loop, in the scope stack `sc'`
    have body : ∀ top' ∈ insideTops env d (sc.headD []) kvs, ∀ sc', sc'.headD [] = top' →
        (sc' = sc ∨ sc' = top' :: sc) →
        NF (PK env base sc') (schemaBody env impl (d.cfg fc) rec inst kvs) := by
      intro top' htop' sc' hsc' hsc''
      unfold schemaBody
      rw [hl]
      dsimp only
      apply nf_seqG
      intro kv hkv
      unfold runKeyword
      split
      · exact nf_nothing
      · rename_i f hfk
        apply nf_mapErrs
        have hfk' : lookupS kv.1 d.keywords = some f := hfk
        obtain ⟨h1, h2⟩ := hbody hl top' htop' sc' hsc' hsc'' kv.1 kv.2 f hkv hfk'
        refine applyKw_nf impl f ?_ kv.2 inst kvs h1 h2
        intro hfr
        subst hfr
        have := NoCrash.table_ref d _ (NoCrash.lookupS_mem _ _ _ hfk') rfl
        dsimp only at this
        have hm : (ks "$ref", kv.2) ∈ kvs := by rw [← this]; exact hkv
        exact NoCrash.lookup_none_not_mem _ _ hl kv.2 hm
    rw [scopeOf_fc]
    cases hs : scopeOf (d.cfg none) kvs with
    | error cls => exact nf_crashG _
    | ok scope =>
      dsimp only
      cases scope with
      | none =>
        unfold withScopeOpt
        refine body (sc.headD []) ?_ sc rfl (Or.inl rfl)
        unfold insideTops; rw [hs]; exact List.mem_singleton.mpr rfl
      | some id =>
        unfold withScopeOpt
        dsimp only
        refine nf_withScope_PK sc id (fun u hu => body u ?_ (u :: sc) rfl (Or.inr rfl))
        unfold insideTops; rw [hs]; dsimp only; rw [hu]; exact List.mem_singleton.mpr rfl

end Ref

/-! #### the rank certificate and the induction -/

/-- **a rank certificate** for the world `D` of (base URI in effect, schema object) pairs: every
    schema the evaluator evaluates THE SAME instance against — the members of `allOf`/`anyOf`/`oneOf`,
    `not`, `if`/`then`/`else`, schema-valued `dependencies`, draft 3 `extends`, the schemas in a
    draft 3 `type`/`disallow`, and the schema a `$ref` designates — is a member of strictly smaller
    rank (or is not an object at all: a boolean schema, or something that is not a schema, on
    which the evaluator stops at once); every schema it evaluates a strict part of the instance
    against — `properties`, `items`, `additionalProperties`, … — is a member again. -/
structure Ranked (env : Env) (d : Draft) (base : List (Str × Json)) (D : Str → Json → Bool)
    (rank : Str → Json → Nat) : Prop where
  /-- no member has a `$ref` whose value is a falsy scalar (`null`, `0`, `0.0`, `false`): with `null`
      the keyword loop runs over all members, and any of them is followed as the EMPTY reference when
      the base URI in effect is non-empty (`refReading`) — a reference the field `ref`, which speaks of
      string references, does not cover -/
  proper : ∀ top kvs, D top (.obj kvs) = true → ∀ v, Json.lookup (skey "$ref") kvs = some v →
    properRef v = true
  ref : ∀ top kvs rs, D top (.obj kvs) = true → Json.lookup (skey "$ref") kvs = some (.str rs) →
    ∀ url t, designated env base top rs = some (url, t) → ∀ u, env.urljoin top url = some u →
      t.isObj = false ∨ (D u t = true ∧ rank u t < rank top (.obj kvs))
  body : ∀ top kvs, D top (.obj kvs) = true → Json.lookup (skey "$ref") kvs = none →
    ∀ top' ∈ insideTops env d top kvs, ∀ k v f, (k, v) ∈ kvs → lookupS k d.keywords = some f →
      (∀ t ∈ sameTargets f v kvs,
        t.isObj = false ∨ (D top' t = true ∧ rank top' t < rank top (.obj kvs)))
      ∧ (∀ t ∈ subTargets f v, t.isObj = false ∨ D top' t = true)

section Induction
variable {env : Env} {d : Draft} {base : List (Str × Json)} {D : Str → Json → Bool}
  {rank : Str → Json → Nat}

/-- **never out of fuel**: lexicographic induction on (size of the instance, rank of the schema),
    carried out as an induction on the fuel -/
theorem eval_nf (hf : StableFetchS env) (hR : Ranked env d base D rank) (R : Nat)
    (hRb : ∀ top s, D top s = true → rank top s ≤ R) (impl : FmtImpl) (fc : Option FormatChecker) :
    ∀ (n : Nat) (i : Json) (top : Str) (s : Json),
      ((s.isObj = false ∧ 1 ≤ n) ∨ (D top s = true ∧ i.size * (R + 1) + rank top s + 1 ≤ n)) →
      ∀ sc : List Str, sc.headD [] = top → NF (PK env base sc) (eval env impl (d.cfg fc) n i s) := by
  intro n
  induction n with
  | zero => intro i top s h; rcases h with ⟨_, h⟩ | ⟨_, h⟩ <;> omega
  | succ n ih =>
    intro i top s h sc hsc
    show NF _ (evalStep env impl (d.cfg fc) (eval env impl (d.cfg fc) n) i s)
    cases s with
    | obj kvs =>
      rcases h with ⟨h, _⟩ | ⟨hD, hn⟩
      · cases h
      subst hsc
      have hi := size_pos i
      have hr := hRb _ _ hD
      have hmul : 1 * (R + 1) ≤ i.size * (R + 1) := Nat.mul_le_mul_right _ hi
      refine evalStep_obj_nf hf impl d fc _ sc i kvs (hR.proper _ kvs hD) ?_ ?_
      · intro rs hl url t hdes u hu
        rcases hR.ref _ kvs rs hD hl url t hdes u hu with ht | ⟨hDt, hlt⟩
        · exact ih i u t (Or.inl ⟨ht, by omega⟩) (u :: sc) rfl
        · exact ih i u t (Or.inr ⟨hDt, by omega⟩) (u :: sc) rfl
      · intro hl top' htop' sc' hsc' _ k v f hkv hfk
        obtain ⟨h1, h2⟩ := hR.body _ kvs hD hl top' htop' k v f hkv hfk
        refine ⟨fun t ht => ?_, fun t ht x hx => ?_⟩
        · rcases h1 t ht with ht' | ⟨hDt, hlt⟩
          · exact ih i top' t (Or.inl ⟨ht', by omega⟩) sc' hsc'
          · exact ih i top' t (Or.inr ⟨hDt, by omega⟩) sc' hsc'
        · rcases h2 t ht with ht' | hDt
          · exact ih x top' t (Or.inl ⟨ht', by omega⟩) sc' hsc'
          · have hrt := hRb _ _ hDt
            have hm : (x.size + 1) * (R + 1) ≤ i.size * (R + 1) := Nat.mul_le_mul_right _ hx
            rw [Nat.add_mul] at hm
            exact ih x top' t (Or.inr ⟨hDt, by omega⟩) sc' hsc'
    | bool b =>
      unfold evalStep
      cases b
      · exact nf_emit _
      · exact nf_nothing
    | null => exact nf_crashG _
    | num x => exact nf_crashG _
    | str x => exact nf_crashG _
    | arr x => exact nf_crashG _

end Induction

/-! ### (2) the optimistic evaluator: out of fuel means "accept"

`Spec.validRN` answers `true` when it is out of steps. `evalT` is the evaluator read the same way:
the same tower of `evalStep`s, over the base that yields nothing. On a reference domain it ends
normally, for every number of layers, with the verdict `validRN n` — the induction of
JS.Proofs.ValidRef (`evalRL_vd`), now WITH the termination clause of `Vd`, which the base
"out of fuel" does not have. -/

/-- the evaluator over the base "accept" -/
def evalT (env : Env) (impl : FmtImpl) (cfg : Cfg) : Nat → Rec
  | 0 => fun _ _ => nothing
  | n + 1 => evalStep env impl cfg (evalT env impl cfg n)

section Optimistic
variable {T : Prop}

/-- `vd_kwRef` (JS.Proofs.ValidRef) with the termination clause -/
theorem vd_kwRefT {env : Env} {base : List (Str × Json)} (hf : StableFetchS env) {sc : List Str}
    {rec : Rec} {r url : Str} {t i : Json} {v : Bool}
    (hdes : designated env base (sc.headD []) r = some (url, t))
    (hjoin : env.urljoin (sc.headD []) url = some url)
    (h : Vd T (PK env base (url :: sc)) (rec i t) v) :
    Vd T (PK env base sc) (kwRef env rec (.str r) i) v := by
  have hw : Vd T (PK env base sc) (withScope env url (rec i t)) v := by
    refine vd_withScope env url (fun st hp => ⟨url, ?_, hp.push url⟩) (fun st' hp' => hp'.pop) h
    rw [hp.top]
    exact hjoin
  refine vd_of_pointwise hw (fun st hp => ?_)
  obtain ⟨h1, h2⟩ := resolve_PK hf hp hdes
  refine ⟨(resolve env r st).2, h2, fun b => ?_⟩
  rw [kwRef_str]
  rcases hr : resolve env r st with ⟨res, st1⟩
  rw [hr] at h1
  dsimp only at h1
  subst h1
  rfl

/-- `evalStep_noref_vd` (JS.Proofs.ValidRef) with the termination clause -/
theorem evalStep_noref_vdT {env : Env} {base : List (Str × Json)} {impl : FmtImpl} {d : Draft}
    {rec : Rec} {kvs : List (Str × Json)} {sc : List Str} {i : Json} {v : Bool}
    (hid : (match lookupJ (if (d = .d6 || d = .d7) then "$id" else "id") kvs with
          | some v => isStrJ v | none => true) = true)
    (hjoin : ∀ id, idOf d kvs = some id → (env.urljoin (sc.headD []) id).isSome = true)
    (hnr : lookupJ "$ref" kvs = none)
    (hbody : Vd T (PK env base (scInside env d sc kvs))
      (schemaBody env impl (d.cfg none) rec i kvs) v) :
    Vd T (PK env base sc) (evalStep env impl (d.cfg none) rec i (.obj kvs)) v := by
  unfold evalStep
  dsimp only
  rw [scopeOf_idOf d kvs hid hnr]
  dsimp only
  unfold scInside at hbody
  cases hidof : idOf d kvs with
  | none =>
    rw [hidof] at hbody
    exact hbody
  | some id =>
    rw [hidof] at hbody
    dsimp only at hbody
    have hj := hjoin id hidof
    cases hu : env.urljoin (sc.headD []) id with
    | none => rw [hu] at hj; cases hj
    | some u =>
      rw [hu] at hbody
      refine vd_withScope env id (fun st hp => ⟨u, ?_, hp.push u⟩) (fun st' hp' => hp'.pop) hbody
      rw [hp.top]
      exact hu

end Optimistic

/-- what the induction on the number of layers provides -/
def RecOKT (env : Env) (impl : FmtImpl) (d : Draft) (base : List (Str × Json)) (D : Str → Json → Bool)
    (n : Nat) : Prop :=
  ∀ top s, D top s = true → ∀ i, WF i = true → ∀ sc : List Str, sc.headD [] = top →
    Vd True (PK env base sc) (evalT env impl (d.cfg none) n i s) (validRN env d base n top s i)

section OptInduction
variable {env : Env} {impl : FmtImpl} {d : Draft} {base : List (Str × Json)} {D : Str → Json → Bool}

/-- boolean schemas -/
theorem boolT_vd (n : Nat) (top : Str) (b : Bool) (i : Json) (sc : List Str) :
    Vd True (PK env base sc) (evalT env impl (d.cfg none) n i (.bool b))
      (validRN env d base n top (.bool b) i) := by
  cases n with
  | zero => exact ex_nothing
  | succ n =>
    rw [validRN_succ_bool]
    cases b
    · exact ex_emit_one _
    · exact ex_nothing

/-- **the step of the induction** (`recOK_succ` of JS.Proofs.ValidRef, with termination). Draft 3
    `disallow` at a schema position is excluded: the schema `{"type": [t]}` it synthesises costs the
    evaluator one more layer than the specification counts. -/
theorem recOKT_succ (hre : RegexTotal env) (hset : SetOrderOk env) (hf : StableFetchS env)
    (hD : RefDomainL env d base D)
    (hnodis : d = .d3 → ∀ top kvs, D top (.obj kvs) = true → lookupJ "disallow" kvs = none)
    (n : Nat) (ih : RecOKT env impl d base D n) : RecOKT env impl d base D (n + 1) := by
  intro top s hs i hi sc hsc
  rcases hD.kind top s hs with hobj | ⟨_, b, rfl⟩
  · obtain ⟨kvs, rfl⟩ : ∃ kvs, s = .obj kvs := by
      cases s <;> first | exact ⟨_, rfl⟩ | cases hobj
    show Vd True _ (evalStep env impl (d.cfg none) (evalT env impl (d.cfg none) n) i (.obj kvs)) _
    cases hr : lookupJ "$ref" kvs with
    | some r =>
      obtain ⟨rs, url, t, rfl, hdes, hj, hDt⟩ := hD.ref top kvs r hs hr
      have hk : Json.hasKey (skey "$ref") kvs = true := by
        unfold Json.hasKey
        have : Json.lookup (skey "$ref") kvs = some (.str rs) := hr
        rw [this]
        rfl
      rw [validRN_succ_ref env d base n top kvs i hr hdes,
        evalStep_obj_noId _ _ _ _ _ _ (.inr hk), schemaBody_ref env impl d none _ kvs rs i hr]
      subst hsc
      exact ex_mapErrs _ (vd_kwRefT hf hdes hj (ih url t hDt i hi (url :: sc) rfl))
    | none =>
      rw [validRN_succ_noref env d base n top kvs i hr]
      subst hsc
      obtain ⟨hid, hjoin⟩ := hD.ident _ kvs hs
      refine evalStep_noref_vdT hid hjoin hr ?_
      have hh := scInside_head env d sc kvs
      refine schemaBody_vd hre hset (shp := D (baseInside env d (sc.headD []) kvs)) ?_ i hi
      exact
        { hv := fun _ v _ hs' i' hi' => ih _ v hs' i' hi' _ hh
          helem := fun _ _ _ s' _ hs' i' hi' => ih _ s' hs' i' hi' _ hh
          hval := fun _ _ _ p _ hs' i' hi' => ih _ p.2 hs' i' hi' _ hh
          hsyn := fun hd dv hmem => by
            have := hnodis hd _ kvs hs
            rw [← ks_disallow] at hmem
            exact absurd hmem (NoCrash.lookup_none_not_mem _ _ this dv)
          hbool := fun _ _ _ _ b i' => boolT_vd n _ b i' _
          shape := List.all_eq_true.mp (hD.shape _ kvs hs hr)
          req3 := fun hd pk hpk r hr' => hD.req3 hd _ pk hpk r hr'
          rest := hD.restL hs
          noref := hr }
  · exact boolT_vd (n + 1) top b i sc

/-- **the optimistic evaluator ends normally** on every member of a reference domain, for every
    well-formed instance, from every faithful state, for every budget — with the verdict of
    `Spec.validRN` at the same number of steps -/
theorem evalT_vd (hre : RegexTotal env) (hset : SetOrderOk env) (hf : StableFetchS env)
    (hD : RefDomainL env d base D)
    (hnodis : d = .d3 → ∀ top kvs, D top (.obj kvs) = true → lookupJ "disallow" kvs = none) :
    ∀ n, RecOKT env impl d base D n := by
  intro n
  induction n with
  | zero => exact fun _ _ _ _ _ _ _ => ex_nothing
  | succ n ih => exact recOKT_succ hre hset hf hD hnodis n ih

end OptInduction

/-! ### (3) the evaluator and the optimistic evaluator agree wherever the first has fuel left -/

/-- wherever `g` does not run out of fuel, `g'` does exactly what `g` does -/
def FR (g g' : Gen) : Prop := ∀ b st, (g b st).stop ≠ .fuel → g' b st = g b st

theorem FR.refl (g : Gen) : FR g g := fun _ _ _ => rfl

theorem FR.andThen {g g' h h' : Gen} (hg : FR g g') (hh : FR h h') :
    FR (andThen g h) (andThen g' h') := by
  intro b st hne
  unfold JS.andThen at hne ⊢
  rcases hgo : g b st with ⟨es, s, st1⟩
  rw [hgo] at hne
  cases s with
  | done =>
    dsimp only at hne ⊢
    rw [hg b st (by rw [hgo]; nofun), hgo]
    dsimp only
    rcases hho : h (budgetSub b es.length) st1 with ⟨es', s', st2⟩
    rw [hho] at hne
    rw [hh _ st1 (by rw [hho]; exact hne), hho]
  | budget => rw [hg b st (by rw [hgo]; nofun), hgo]
  | raised e => rw [hg b st (by rw [hgo]; nofun), hgo]
  | fuel => exact absurd rfl hne
  | miss q => rw [hg b st (by rw [hgo]; nofun), hgo]

theorem FR.mapErrs (f : Err → Err) {g g' : Gen} (hg : FR g g') : FR (mapErrs f g) (mapErrs f g') := by
  intro b st hne
  rw [mapErrs_eq] at hne
  rw [mapErrs_eq, mapErrs_eq, hg b st hne]

theorem FR.inner {g g' : Gen} (b' : Option Nat) (k k' : List Err → Gen) (hg : FR g g')
    (hk : ∀ es, FR (k es) (k' es)) : FR (inner g b' k) (inner g' b' k') := by
  intro b st hne
  unfold JS.inner at hne ⊢
  rcases hgo : g b' st with ⟨es, s, st1⟩
  rw [hgo] at hne
  cases s with
  | done =>
    rw [hg b' st (by rw [hgo]; nofun), hgo]
    exact hk es b st1 hne
  | budget =>
    rw [hg b' st (by rw [hgo]; nofun), hgo]
    exact hk es b st1 hne
  | raised e => rw [hg b' st (by rw [hgo]; nofun), hgo]
  | fuel => exact absurd rfl hne
  | miss q => rw [hg b' st (by rw [hgo]; nofun), hgo]

theorem FR.withScope (env : Env) (scope : Str) {g g' : Gen} (hg : FR g g') :
    FR (withScope env scope g) (withScope env scope g') := by
  intro b st hne
  unfold JS.withScope at hne ⊢
  cases hu : env.urljoin st.top scope with
  | none => rfl
  | some u =>
    rw [hu] at hne
    dsimp only at hne ⊢
    rw [hg b _ hne]

theorem FR.kwRef (env : Env) {rec rec' : Rec} (hrec : ∀ i s, FR (rec i s) (rec' i s))
    (ref inst : Json) : FR (kwRef env rec ref inst) (kwRef env rec' ref inst) := by
  refine kwRef_cases₂ (R := FR) (fun hg hh b st hne => ?_) (fun r b st hne => ?_) (FR.refl _) (FR.refl _) ref
  · unfold ifTopEmpty at hne ⊢
    split
    · rename_i e; rw [if_pos e] at hne; exact hg b st hne
    · rename_i e; rw [if_neg e] at hne; exact hh b st hne
  · rw [kwRef_str] at hne
    rw [kwRef_str, kwRef_str]
    rcases hr : resolve env r st with ⟨r1, st1⟩
    rw [hr] at hne
    cases r1 with
    | ok p =>
      obtain ⟨url, target⟩ := p
      exact FR.withScope env url (hrec inst target) b st1 hne
    | raise e => rfl
    | miss q => rfl

theorem closed₂_FR (env : Env) : Closed₂ env FR where
  emit := fun _ => FR.refl _
  nothing := FR.refl _
  stop := fun _ _ => FR.refl _
  andThen := FR.andThen
  mapErrs := FR.mapErrs
  inner := FR.inner
  withScope := FR.withScope env
  kwRef := FR.kwRef env

/-- the optimistic evaluator does what the evaluator does, wherever the latter has fuel left -/
theorem eval_evalT (env : Env) (impl : FmtImpl) (cfg : Cfg) :
    ∀ n i s, FR (eval env impl cfg n i s) (evalT env impl cfg n i s)
  | 0 => fun _ _ _ _ h => absurd rfl h
  | n + 1 => R_evalStep (closed₂_FR env) impl cfg (eval_evalT env impl cfg n)

/-! ### together: the evaluator ends normally -/

/-- the fuel that suffices for instance `i`, where `R` bounds the ranks -/
def fuelFor (R : Nat) (i : Json) : Nat := (i.size + 1) * (R + 1)

theorem fuelFor_le {R r : Nat} (hr : r ≤ R) (i : Json) {n : Nat} (hn : fuelFor R i ≤ n) :
    i.size * (R + 1) + r + 1 ≤ n := by
  unfold fuelFor at hn
  rw [Nat.add_mul] at hn
  omega

section Together
variable {env : Env} {d : Draft} {base : List (Str × Json)} {D : Str → Json → Bool}
  {rank : Str → Json → Nat}

/-- **never out of fuel** on a ranked world, in the form used below -/
theorem eval_not_fuel (hf : StableFetchS env) (hR : Ranked env d base D rank) (R : Nat)
    (hRb : ∀ top s, D top s = true → rank top s ≤ R) (impl : FmtImpl) (fc : Option FormatChecker)
    (i : Json) (top : Str) (s : Json) (hs : D top s = true) (n : Nat) (hn : fuelFor R i ≤ n)
    (b : Option Nat) (st : RState) (hk : Know env base st) (htop : st.top = top) :
    (eval env impl (d.cfg fc) n i s b st).stop ≠ .fuel :=
  ((eval_nf hf hR R hRb impl fc n i top s (Or.inr ⟨hs, fuelFor_le (hRb _ _ hs) i hn⟩) st.scopes htop).run
    b st ⟨hk, rfl⟩).1

/-- on a reference domain, with ANY fuel: the run on a well-formed instance ends normally, is closed
    by its consumer, or is out of fuel — no exception, no oracle miss (no rank is needed for this) -/
theorem eval_done_or_fuel (hre : RegexTotal env) (hset : SetOrderOk env) (hf : StableFetchS env)
    (hD : RefDomainL env d base D)
    (hnodis : d = .d3 → ∀ top kvs, D top (.obj kvs) = true → lookupJ "disallow" kvs = none)
    (impl : FmtImpl) (i : Json) (hi : WF i = true) (top : Str) (s : Json) (hs : D top s = true) (n : Nat)
    (b : Option Nat) (hb : b ≠ some 0) (st : RState) (hk : Know env base st) (htop : st.top = top) :
    (eval env impl (d.cfg none) n i s b st).stop = .done
      ∨ ((eval env impl (d.cfg none) n i s b st).stop = .budget ∧ b ≠ none)
      ∨ (eval env impl (d.cfg none) n i s b st).stop = .fuel := by
  by_cases h1 : (eval env impl (d.cfg none) n i s b st).stop = .fuel
  · exact .inr (.inr h1)
  have h2 := eval_evalT env impl (d.cfg none) n i s b st h1
  have h3 := (evalT_vd (impl := impl) hre hset hf hD hnodis n top s hs i hi st.scopes htop).term trivial
    b st hb ⟨hk, rfl⟩
  rw [h2] at h3
  rcases h3 with h | h
  · exact .inl h
  · exact .inr (.inl h)

/-- **the evaluator ends normally** on a ranked reference domain: with fuel `(i.size + 1) * (R + 1)`
    the run on a well-formed instance `i` ends with `.done`, or is closed by its consumer -/
theorem eval_done (hre : RegexTotal env) (hset : SetOrderOk env) (hf : StableFetchS env)
    (hD : RefDomainL env d base D)
    (hnodis : d = .d3 → ∀ top kvs, D top (.obj kvs) = true → lookupJ "disallow" kvs = none)
    (hR : Ranked env d base D rank) (R : Nat)
    (hRb : ∀ top s, D top s = true → rank top s ≤ R) (impl : FmtImpl)
    (i : Json) (hi : WF i = true) (top : Str) (s : Json) (hs : D top s = true) (n : Nat)
    (hn : fuelFor R i ≤ n) (b : Option Nat) (hb : b ≠ some 0) (st : RState)
    (hk : Know env base st) (htop : st.top = top) :
    (eval env impl (d.cfg none) n i s b st).stop = .done
      ∨ ((eval env impl (d.cfg none) n i s b st).stop = .budget ∧ b ≠ none) := by
  have h1 := eval_not_fuel hf hR R hRb impl none i top s hs n hn b st hk htop
  have h2 := eval_evalT env impl (d.cfg none) n i s b st h1
  have h3 := (evalT_vd (impl := impl) hre hset hf hD hnodis n top s hs i hi st.scopes htop).term trivial
    b st hb ⟨hk, rfl⟩
  rw [h2] at h3
  exact h3

end Together

end Terminate
end JS
