/-
  JS.Proofs.TerminateMeta — the rank certificate of JS.Proofs.Terminate as a Boolean computation over
  a finite domain (`domOf`, JS.Proofs.CheckSchema), and its evaluation by the kernel for the four
  bundled metaschemas: the metaschema run never runs out of fuel (`meta_run_not_fuel`) and ends
  normally on every well-formed candidate (`meta_run_done`). (A separate file because
  JS.Proofs.CheckSchema imports JS.Props.C03, which states `terminates_ranked` from
  JS.Proofs.Terminate.)
-/
import JS.Proofs.Terminate
import JS.Proofs.CheckSchema
namespace JS
namespace Terminate
open Spec Knowledge

/-! ### the certificate as a Boolean computation over a finite domain (`domOf`, JS.Proofs.CheckSchema) -/

section Check

/-- a same-instance target: not an object, or a member of strictly smaller rank -/
def tgtSame (D : Str → Json → Bool) (rank : Str → Json → Nat) (top : Str) (kvs : List (Str × Json))
    (top' : Str) (t : Json) : Bool :=
  !t.isObj || (D top' t && decide (rank top' t < rank top (.obj kvs)))

/-- a target for strict parts of the instance: not an object, or a member -/
def tgtSub (D : Str → Json → Bool) (top' : Str) (t : Json) : Bool := !t.isObj || D top' t

/-- the fields of `Ranked` for one member, and the bound on its rank, as a Boolean -/
def rankRowOk (env : Env) (d : Draft) (base : List (Str × Json)) (D : Str → Json → Bool)
    (rank : Str → Json → Nat) (R : Nat) (top : Str) (kvs : List (Str × Json)) : Bool :=
  decide (rank top (.obj kvs) ≤ R)
  && (match Json.lookup (skey "$ref") kvs with
      | some (.str rs) =>
        (match designated env base top rs with
         | some (url, t) =>
           (match env.urljoin top url with
            | some u => tgtSame D rank top kvs u t
            | none => true)
         | none => true)
      | some v => properRef v
      | none =>
        (insideTops env d top kvs).all fun top' => kvs.all fun kv =>
          match lookupS kv.1 d.keywords with
          | none => true
          | some f => (sameTargets f kv.2 kvs).all (tgtSame D rank top kvs top')
                      && (subTargets f kv.2).all (tgtSub D top'))

def rankOk (env : Env) (d : Draft) (base : List (Str × Json)) (tops : List Str)
    (nodes : List (List (Str × Json))) (rank : Str → Json → Nat) (R : Nat) : Bool :=
  tops.all fun top => nodes.all fun kvs => rankRowOk env d base (domOf d tops nodes) rank R top kvs

variable {env : Env} {d : Draft} {base : List (Str × Json)} {tops : List Str}
  {nodes : List (List (Str × Json))} {rank : Str → Json → Nat} {R : Nat}

theorem rankRowOk_of_rankOk (h : rankOk env d base tops nodes rank R = true) {top : Str}
    {kvs : List (Str × Json)} (hs : domOf d tops nodes top (.obj kvs) = true) :
    rankRowOk env d base (domOf d tops nodes) rank R top kvs = true := by
  obtain ⟨h1, h2⟩ := domOf_obj hs
  exact List.all_eq_true.1 (List.all_eq_true.1 h top h1) kvs h2

theorem tgtSame_sound {D : Str → Json → Bool} {top top' : Str} {kvs : List (Str × Json)} {t : Json}
    (h : tgtSame D rank top kvs top' t = true) :
    t.isObj = false ∨ (D top' t = true ∧ rank top' t < rank top (.obj kvs)) := by
  unfold tgtSame at h
  rw [Bool.or_eq_true] at h
  rcases h with h | h
  · exact Or.inl (by simpa using h)
  · rw [Bool.and_eq_true] at h
    exact Or.inr ⟨h.1, of_decide_eq_true h.2⟩

theorem tgtSub_sound {D : Str → Json → Bool} {top' : Str} {t : Json}
    (h : tgtSub D top' t = true) : t.isObj = false ∨ D top' t = true := by
  unfold tgtSub at h
  rw [Bool.or_eq_true] at h
  rcases h with h | h
  · exact Or.inl (by simpa using h)
  · exact Or.inr h

/-- **the Boolean check is sound** -/
theorem ranked_of_rankOk (h : rankOk env d base tops nodes rank R = true) :
    Ranked env d base (domOf d tops nodes) rank
    ∧ ∀ top kvs, domOf d tops nodes top (.obj kvs) = true → rank top (.obj kvs) ≤ R := by
  refine ⟨⟨fun top kvs hs v hv => ?_, fun top kvs rs hs hl url t hdes u hu => ?_,
    fun top kvs hs hl top' htop' k v f hkv hfk => ?_⟩, fun top kvs hs => ?_⟩
  · have hr := rankRowOk_of_rankOk h hs
    simp only [rankRowOk, Bool.and_eq_true] at hr
    have h2 := hr.2
    rw [hv] at h2
    cases v with
    | str rs => rfl
    | _ => exact h2
  · have hr := rankRowOk_of_rankOk h hs
    simp only [rankRowOk, Bool.and_eq_true] at hr
    have h2 := hr.2
    rw [hl] at h2
    dsimp only at h2
    rw [hdes] at h2
    dsimp only at h2
    rw [hu] at h2
    exact tgtSame_sound h2
  · have hr := rankRowOk_of_rankOk h hs
    simp only [rankRowOk, Bool.and_eq_true] at hr
    have h2 := hr.2
    rw [hl] at h2
    dsimp only at h2
    have h3 := List.all_eq_true.1 (List.all_eq_true.1 h2 top' htop') (k, v) hkv
    dsimp only at h3
    rw [hfk] at h3
    dsimp only at h3
    rw [Bool.and_eq_true] at h3
    exact ⟨fun t ht => tgtSame_sound (List.all_eq_true.1 h3.1 t ht),
      fun t ht => tgtSub_sound (List.all_eq_true.1 h3.2 t ht)⟩
  · have hr := rankRowOk_of_rankOk h hs
    simp only [rankRowOk, Bool.and_eq_true] at hr
    exact of_decide_eq_true hr.1

end Check

/-! ### the four bundled metaschemas (kernel evaluation) -/

/-- the rank of a schema of a metaschema: the rank of what its reference designates plus one (by the
    spelling of the reference: every reference of a bundled metaschema is `#` or `#/definitions/…`),
    else one more than the largest rank of a schema it evaluates the same instance against -/
def rk (d : Draft) (refRank : Str → Nat) : Nat → Json → Nat
  | 0, _ => 0
  | n + 1, .obj kvs =>
    (match Json.lookup (skey "$ref") kvs with
     | some (.str r) => refRank r
     | some _ => 0
     | none =>
       1 + (kvs.map fun kv =>
              match lookupS kv.1 d.keywords with
              | some f => ((sameTargets f kv.2 kvs).map (rk d refRank n)).foldl max 0
              | none => 0).foldl max 0)
  | _ + 1, _ => 0

/-- `#/definitions/positiveIntegerDefault0` (draft 4) and `#/definitions/nonNegativeIntegerDefault0`
    (drafts 6, 7) are an `allOf` over another reference -/
def metaRefRank (r : Str) : Nat :=
  if r = skey "#/definitions/positiveIntegerDefault0" ∨ r = skey "#/definitions/nonNegativeIntegerDefault0"
  then 4 else 2

def metaRank (d : Draft) : Str → Json → Nat := fun _ s => rk d metaRefRank 6 s

/-- the largest rank in a bundled metaschema -/
def metaR : Nat := 4

def metaRankOk (d : Draft) : Bool :=
  rankOk (metaEnv d) d (freshStore d) (metaTops d) (nodesOf d.metaSchema) (metaRank d) metaR
  && (nodesOf d.metaSchema).all (fun kvs => (lookupJ "disallow" kvs).isNone)

theorem metaRankOk_d3 : metaRankOk .d3 = true := by decide +kernel
theorem metaRankOk_d4 : metaRankOk .d4 = true := by decide +kernel
theorem metaRankOk_d6 : metaRankOk .d6 = true := by decide +kernel
theorem metaRankOk_d7 : metaRankOk .d7 = true := by decide +kernel


theorem metaRankOk_all (d : Draft) : metaRankOk d = true := by
  cases d
  · exact metaRankOk_d3
  · exact metaRankOk_d4
  · exact metaRankOk_d6
  · exact metaRankOk_d7

theorem metaRank_le (d : Draft) (top : Str) (s : Json) (hs : metaDom d top s = true) :
    metaRank d top s ≤ metaR := by
  cases s with
  | obj kvs =>
    have h := metaRankOk_all d
    unfold metaRankOk at h
    rw [Bool.and_eq_true] at h
    exact (ranked_of_rankOk h.1).2 top kvs hs
  | _ => exact Nat.zero_le _

theorem meta_ranked (d : Draft) :
    Ranked (metaEnv d) d (freshStore d) (metaDom d) (metaRank d) := by
  have h := metaRankOk_all d
  unfold metaRankOk at h
  rw [Bool.and_eq_true] at h
  exact (ranked_of_rankOk h.1).1

theorem meta_nodisallow (d : Draft) (top : Str) (kvs : List (Str × Json))
    (hs : metaDom d top (.obj kvs) = true) : lookupJ "disallow" kvs = none := by
  have h := metaRankOk_all d
  unfold metaRankOk at h
  rw [Bool.and_eq_true] at h
  have := List.all_eq_true.1 h.2 kvs (domOf_obj hs).2
  cases hl : lookupJ "disallow" kvs with
  | none => rfl
  | some v => rw [hl] at this; cases this

theorem meta_refDomainL (d : Draft) :
    RefDomainL (metaEnv d) d (freshStore d) (metaDom d) ∧ metaDom d (freshTop d) d.metaSchema = true := by
  have h := metaDomOk_all d
  simp only [metaDomOk, Bool.and_eq_true] at h
  exact ⟨refDomainL_of_domainOk h.1.1, h.1.2⟩

theorem metaEnv_regexTotal (d : Draft) : RegexTotal (metaEnv d) := fun _ _ => ⟨false, rfl⟩
theorem metaEnv_setOrderOk (d : Draft) : SetOrderOk (metaEnv d) := fun xs => ⟨xs, rfl, List.Perm.refl _⟩
theorem metaEnv_stableFetch (d : Draft) : StableFetchS (metaEnv d) :=
  ⟨fun _ _ _ => rfl, fun _ _ _ _ _ _ => rfl⟩

/-- a resolver that has not resolved anything yet is faithful to its own store -/
theorem know_fresh (env : Env) (st : RState) (h : st.memo = []) : Know env st.store st :=
  ⟨fun _ _ h => h, fun _ _ h => .inl h, fun _ _ hm => by rw [h] at hm; simp [Json.lookup] at hm⟩

/-- the fuel that suffices for the metaschema run on candidate `s`: five times its size, plus five -/
def metaFuel (s : Json) : Nat := fuelFor metaR s

/-- **the metaschema run never runs out of fuel**, for every candidate (whatever it is), every
    budget, with or without a format checker -/
theorem meta_run_not_fuel (d : Draft) (impl : FmtImpl) (fc : Option FormatChecker) (s : Json) (n : Nat)
    (hn : metaFuel s ≤ n) (b : Option Nat) (st : RState)
    (hk : Know (metaEnv d) (freshStore d) st) (htop : st.top = freshTop d) :
    (eval (metaEnv d) impl (d.cfg fc) n s d.metaSchema b st).stop ≠ .fuel :=
  eval_not_fuel (metaEnv_stableFetch d) (meta_ranked d) metaR (metaRank_le d) impl fc s (freshTop d)
    d.metaSchema (meta_refDomainL d).2 n hn b st hk htop

/-- **the metaschema run ends normally** on every well-formed candidate -/
theorem meta_run_done (d : Draft) (impl : FmtImpl) (s : Json) (hs : WF s = true) (n : Nat)
    (hn : metaFuel s ≤ n) (b : Option Nat) (hb : b ≠ some 0) (st : RState)
    (hk : Know (metaEnv d) (freshStore d) st) (htop : st.top = freshTop d) :
    (eval (metaEnv d) impl (d.cfg none) n s d.metaSchema b st).stop = .done
      ∨ ((eval (metaEnv d) impl (d.cfg none) n s d.metaSchema b st).stop = .budget ∧ b ≠ none) :=
  eval_done (metaEnv_regexTotal d) (metaEnv_setOrderOk d) (metaEnv_stableFetch d) (meta_refDomainL d).1
    (fun _ top kvs h => meta_nodisallow d top kvs h) (meta_ranked d) metaR (metaRank_le d) impl s hs
    (freshTop d) d.metaSchema (meta_refDomainL d).2 n hn b hb st hk htop

/-- with ANY fuel, the metaschema run on a well-formed candidate ends normally or is out of fuel -/
theorem meta_run_done_or_fuel (d : Draft) (impl : FmtImpl) (s : Json) (hs : WF s = true) (n : Nat)
    (st : RState) (hk : Know (metaEnv d) (freshStore d) st) (htop : st.top = freshTop d) :
    (eval (metaEnv d) impl (d.cfg none) n s d.metaSchema none st).stop = .done
      ∨ (eval (metaEnv d) impl (d.cfg none) n s d.metaSchema none st).stop = .fuel := by
  rcases eval_done_or_fuel (metaEnv_regexTotal d) (metaEnv_setOrderOk d) (metaEnv_stableFetch d)
    (meta_refDomainL d).1 (fun _ top kvs h => meta_nodisallow d top kvs h) impl s hs (freshTop d)
    d.metaSchema (meta_refDomainL d).2 n none nofun st hk htop with h | ⟨_, h⟩ | h
  · exact .inl h
  · exact absurd rfl h
  · exact .inr h

/-! ### a small world that is not a metaschema (non-vacuity of the general theorem)

A recursive tree schema: the reference back to the root sits under `items` (a strict part of the
instance), so the certificate exists and every instance terminates; with the reference under `not`
(the same instance) the evaluator really runs out of every fuel. -/
namespace Toy

/-- every URI is the one document; fragments are empty -/
def env : Env where
  reSearch _ _ := some (some false)
  urljoin _ _ := some (skey "doc")
  urldefrag _ := some (skey "doc", [])
  urinorm u := some u
  scheme _ := none
  sortPerm _ := none
  setOrder xs := some xs
  fetch _ _ := some none
  fmt _ _ := none

/-- `{"type": "object", "allOf": [{"required": ["value"]}], "properties": {"value": {"type": "number"},
    "children": {"type": "array", "items": {"$ref": "#"}}}}` -/
def tree : Json :=
  .obj [(k!"type", .str (k!"object")),
        (k!"allOf", .arr [.obj [(k!"required", .arr [.str (k!"value")])]]),
        (k!"properties", .obj [
          (k!"value", .obj [(k!"type", .str (k!"number"))]),
          (k!"children", .obj [(k!"type", .str (k!"array")),
                               (k!"items", .obj [(k!"$ref", .str (k!"#"))])])])]

def base : List (Str × Json) := [(skey "doc", tree)]
def st : RState := ⟨[skey "doc"], base, [], none, false, 0, []⟩
def rank : Str → Json → Nat := fun _ s => rk .d7 (fun _ => 3) 6 s

theorem tree_rankOk : rankOk env .d7 base [skey "doc"] (nodesOf tree) rank 3 = true := by decide +kernel

/-- every instance terminates against `tree`, with four times its size (plus four) as fuel -/
theorem tree_terminates (impl : FmtImpl) (fc : Option FormatChecker) (i : Json) (n : Nat)
    (hn : (i.size + 1) * 4 ≤ n) (b : Option Nat) :
    (eval env impl (Draft.d7.cfg fc) n i tree b st).stop ≠ .fuel := by
  have h := ranked_of_rankOk tree_rankOk
  refine eval_not_fuel ⟨fun _ _ _ => rfl, fun _ _ _ _ _ _ => rfl⟩ h.1 3 (fun top s hs => ?_) impl fc i
    (skey "doc") tree (by decide +kernel) n hn b st (know_fresh env st rfl) rfl
  cases s with
  | obj kvs => exact h.2 top kvs hs
  | _ => exact Nat.zero_le _

/-- `{"not": {"$ref": "#"}}`: the reference is evaluated against the same instance -/
def cyc : Json := .obj [(k!"not", .obj [(k!"$ref", .str (k!"#"))])]

def st' : RState := ⟨[skey "doc"], [(skey "doc", cyc)], [], none, false, 0, []⟩

/-- … and the evaluator runs out of fuel (here: 64) -/
theorem cyc_hangs :
    (match (eval env ⟨fun _ _ => none⟩ (Draft.d7.cfg none) 64 .null cyc none st').stop with
     | .fuel => true | _ => false) = true := by decide +kernel

end Toy

end Terminate
end JS
