/-
  JS.Proofs.Tie2J — source-tie theorems for two keyword functions of the richer subset (`JS.Py.IR2`,
  `JS.Py.Interp2`): anyOf, type_draft3.
-/
import JS.Proofs.TieBase
namespace JS.Tie
open JS JS.Py JS.Generated.Source

set_option linter.unusedSimpArgs false
set_option linter.style.nameCheck false
set_option linter.unusedVariables false

namespace T2J

/-! ### the store -/

theorem lookup_filter_ne (n m : String) (h : n ≠ m) (l : Locals) :
    (l.filter (fun p => p.1 != m)).lookup n = l.lookup n := by
  induction l with
  | nil => rfl
  | cons p l ih =>
    obtain ⟨a, v⟩ := p
    by_cases ham : a = m
    · subst ham
      have hna : (n == a) = false := by simpa using h
      simp [List.filter, List.lookup, hna, ih]
    · have : (a != m) = true := by simpa using ham
      simp only [List.filter, this, List.lookup, ih]

/-- a binding hides only its own name -/
theorem js_lookup_ne (n m : String) (pv : PV) (σ : Store) (h : n ≠ m) :
    (Store.js ((m, pv) :: σ)).lookup n = (Store.js σ).lookup n := by
  have hnm : (n == m) = false := by simpa using h
  cases pv with
  | j v => simp only [Store.js, List.lookup, hnm]
  | errs es => simp only [Store.js]; exact lookup_filter_ne n m h _
  | err e => simp only [Store.js]; exact lookup_filter_ne n m h _
  | iter it => simp only [Store.js]; exact lookup_filter_ne n m h _

/-- a JSON binding is visible -/
theorem js_lookup_j (m : String) (v : Json) (σ : Store) :
    (Store.js ((m, .j v) :: σ)).lookup m = some v := by
  simp [Store.js, List.lookup]

theorem lookup_ne (n m : String) (pv : PV) (σ : Store) (h : n ≠ m) :
    List.lookup n ((m, pv) :: σ) = List.lookup n σ := by
  have hnm : (n == m) = false := by simpa using h
  simp only [List.lookup, hnm]

theorem lookup_eq (m : String) (pv : PV) (σ : Store) :
    List.lookup m ((m, pv) :: σ) = some pv := by
  simp [List.lookup]

/-- the accumulator `x1` holds the errors `acc`; `instance` and `value` are visible -/
structure Inv (inst val : Json) (acc : List Err) (σ : Store) : Prop where
  hinst : (Store.js σ).lookup "instance" = some inst
  hval : (Store.js σ).lookup "value" = some val
  hacc : σ.lookup "x1" = some (.errs acc) ∨ (σ.lookup "x1" = some (.j (.arr [])) ∧ acc = [])

theorem Inv.cons {inst val : Json} {acc : List Err} {σ : Store} (h : Inv inst val acc σ)
    (n : String) (pv : PV) (h1 : "instance" ≠ n) (h2 : "value" ≠ n) (h3 : "x1" ≠ n) :
    Inv inst val acc ((n, pv) :: σ) := by
  refine ⟨?_, ?_, ?_⟩
  · rw [js_lookup_ne _ _ _ _ h1]; exact h.hinst
  · rw [js_lookup_ne _ _ _ _ h2]; exact h.hval
  · rw [lookup_ne _ _ _ _ h3]; exact h.hacc

theorem Inv.setAcc {inst val : Json} {acc : List Err} {σ : Store} (h : Inv inst val acc σ)
    (acc' : List Err) : Inv inst val acc' (("x1", .errs acc') :: σ) := by
  refine ⟨?_, ?_, ?_⟩
  · rw [js_lookup_ne _ _ _ _ (by decide)]; exact h.hinst
  · rw [js_lookup_ne _ _ _ _ (by decide)]; exact h.hval
  · left; exact lookup_eq _ _ _

/-- the accumulator after `x1.extend(x4)` -/
theorem Inv.extend {inst val : Json} {acc : List Err} {σ : Store} (h : Inv inst val acc σ) (es : List Err) :
    ((Store.get σ "x1").bind fun a => pvExtend a (.errs es)) = .ok (.errs (acc ++ es)) := by
  rcases h.hacc with h1 | ⟨h1, h2⟩
  · simp only [Store.get, h1, Res.bind, pvExtend]
  · subst h2; simp only [Store.get, h1, Res.bind, pvExtend, List.nil_append]

/-- the accumulator as `context=` -/
theorem Inv.ctx {inst val : Json} {acc : List Err} {σ : Store} (h : Inv inst val acc σ) :
    (Store.get σ "x1").bind pvErrs = .ok acc := by
  rcases h.hacc with h1 | ⟨h1, h2⟩
  · simp only [Store.get, h1, Res.bind, pvErrs]
  · subst h2; simp only [Store.get, h1, Res.bind, pvErrs]

theorem pathElemOf_jnat (i : Nat) : pathElemOf (jnat i) = .ok (.idx i) := by
  simp [pathElemOf, jnat]

/-! ### wording -/
theorem mkErrCtx_anyOf (x : Json) (es : List Err) :
    mkErrCtx "%r is not valid under any of the given schemas" [x] es = Err.fresh "anyOf" [x] es := rfl
theorem helperErrCtx_types (a b : Json) (es : List Err) :
    helperErrCtx "types_msg" "" [a, b] es = Err.fresh "type" [a, b] es := rfl

/-! ### one-step unfoldings -/
section steps
variable (env : Env) (cfg : Cfg) (rec : Rec)

theorem execList2_nil (σ : Store) (k : Flow2 → Gen) : execList2 env cfg rec [] σ k = k (.next σ) := by
  rw [execList2]

theorem execList2_cons (s : St2) (rest : List St2) (σ : Store) (k : Flow2 → Gen) :
    execList2 env cfg rec (s :: rest) σ k =
      exec2 env cfg rec s σ fun fl =>
        match fl with
        | .next σ' => execList2 env cfg rec rest σ' k
        | other => k other := by
  simp only [execList2]
  rfl

theorem exec2_assign (x : String) (e : Ex) (σ : Store) (k : Flow2 → Gen) :
    exec2 env cfg rec (.assign x e) σ k = withRes (evalEx env cfg σ.js e) fun v => k (.next ((x, .j v) :: σ)) := by
  rw [exec2]

/-- the body of a `for` on one item -/
def stepOf (p : Pat) (body : List St2) : List Json → Store → (Flow2 → Gen) → Gen :=
  fun item σ' k' =>
    match bindPat2 p item σ' with
    | some σ'' => execList2 env cfg rec body σ'' k'
    | none => crashG "ValueError"

theorem exec2_forS (p : Pat) (it : Iter2) (body orelse : List St2) (σ : Store) (k : Flow2 → Gen) :
    exec2 env cfg rec (.forS p it body orelse) σ k =
      withRes (iterItems2 env cfg σ it) fun r =>
        forLoop2 r.2 (stepOf env cfg rec p body) r.1 σ fun fl =>
          match fl with
          | .next σ' => execList2 env cfg rec orelse σ' k
          | .brk σ' => k (.next σ')
          | other => k other := by
  rw [exec2]; rfl

end steps

end T2J
open T2J

/-! ### anyOf -/

def anyBody : List St2 :=
  [.assignDescendList "x4" (.var "instance") (.var "x3") none (some (.var "x2")),
   .ifS (.notC (.truthyVar "x4")) [.brk] [], .extend "x1" "x4"]

abbrev anyStep (env : Env) (cfg : Cfg) (rec : Rec) : List Json → Store → (Flow2 → Gen) → Gen :=
  stepOf env cfg rec (.two "x2" "x3") anyBody

theorem anyStep_eq (env : Env) (cfg : Cfg) (rec : Rec) (inst val : Json) (acc : List Err) (σ : Store)
    (hσ : Inv inst val acc σ) (i : Nat) (s : Json) (k' : Flow2 → Gen) :
    anyStep env cfg rec [jnat i, s] σ k' =
      inner (descendG (rec inst s) none (some (.idx i))) none fun es =>
        if es.isEmpty then k' (.brk (("x4", .errs es) :: ("x3", .j s) :: ("x2", .j (jnat i)) :: σ))
        else k' (.next (("x1", .errs (acc ++ es)) :: ("x4", .errs es) :: ("x3", .j s) :: ("x2", .j (jnat i)) :: σ)) := by
  have h2 : Inv inst val acc (("x3", .j s) :: ("x2", .j (jnat i)) :: σ) :=
    (hσ.cons "x2" _ (by decide) (by decide) (by decide)).cons "x3" _ (by decide) (by decide) (by decide)
  have hx3 : List.lookup "x3" (Store.js (("x3", PV.j s) :: ("x2", PV.j (jnat i)) :: σ)) = some s :=
    js_lookup_j _ _ _
  have hx2 : List.lookup "x2" (Store.js (("x3", PV.j s) :: ("x2", PV.j (jnat i)) :: σ)) = some (jnat i) := by
    rw [js_lookup_ne _ _ _ _ (by decide)]; exact js_lookup_j _ _ _
  simp only [anyStep, stepOf, bindPat2, anyBody, execList2, exec2, evalEx, lookupVar, optPath, h2.hinst, hx3, hx2,
    Res.bind, pathElemOf_jnat, withRes, evalCond2]
  congr 1
  funext es
  have h3 : Inv inst val acc (("x4", .errs es) :: ("x3", .j s) :: ("x2", .j (jnat i)) :: σ) :=
    h2.cons "x4" _ (by decide) (by decide) (by decide)
  have hx4 : Store.get (("x4", PV.errs es) :: ("x3", PV.j s) :: ("x2", PV.j (jnat i)) :: σ) "x4" = .ok (.errs es) := by
    simp only [Store.get, lookup_eq]
  have hext := h3.extend es
  simp only [hx4, PV.truthy, withRes]
  cases hes : es.isEmpty
  · simp only [Bool.not_false, Bool.not_true, Bool.false_eq_true, if_false]
    revert hext
    cases Store.get (("x4", PV.errs es) :: ("x3", PV.j s) :: ("x2", PV.j (jnat i)) :: σ) "x1" with
    | ok a =>
      simp only [Res.bind]
      intro hext
      simp only [hext]
    | raise e => simp [Res.bind]
    | miss q => simp [Res.bind]
  · simp only [Bool.not_true, Bool.not_false, if_true]

theorem anyOf_loop (env : Env) (cfg : Cfg) (rec : Rec) (inst val : Json) (K : Flow2 → Gen)
    (hnext : ∀ σ acc, Inv inst val acc σ → K (.next σ) = emit [Err.fresh "anyOf" [inst] acc])
    (hbrk : ∀ σ, K (.brk σ) = nothing)
    (items : List (Nat × Json)) (acc : List Err) (σ : Store) (hσ : Inv inst val acc σ) :
    forLoop2 none (anyStep env cfg rec) (items.map fun t => [jnat t.1, t.2]) σ K
      = firstValid rec inst (fun r acc =>
          match r with
          | some _ => nothing
          | none => emit [Err.fresh "anyOf" [inst] acc]) items acc := by
  induction items generalizing acc σ with
  | nil => simp only [List.map, forLoop2, firstValid, hnext σ acc hσ]
  | cons t rest ih =>
    obtain ⟨i, s⟩ := t
    simp only [List.map, forLoop2, firstValid, consume]
    rw [anyStep_eq env cfg rec inst val acc σ hσ]
    congr 1
    funext es
    cases hes : es.isEmpty
    · simp only [Bool.false_eq_true, if_false]
      apply ih
      exact (((hσ.cons "x2" _ (by decide) (by decide) (by decide)).cons "x3" _ (by decide) (by decide)
        (by decide)).cons "x4" _ (by decide) (by decide) (by decide)).setAcc _
    · simp only [if_true, hbrk]

theorem tie2_anyOf (env : Env) (d : Draft) (fc : Option FormatChecker) (rec : Rec) (v inst schema : Json)
    (hv : ∃ ss, v = .arr ss) :
    Fn2.run env (d.cfg fc) rec src2_anyOf v inst schema = kwAnyOf rec v inst := by
  obtain ⟨ss, rfl⟩ := hv
  have hσ : Inv inst (.arr ss) []
      [("x1", PV.j (Json.arr [])), ("value", PV.j (Json.arr ss)), ("instance", PV.j inst), ("schema", PV.j schema)] := by
    refine ⟨?_, ?_, Or.inr ⟨lookup_eq _ _ _, rfl⟩⟩
    · rw [js_lookup_ne _ _ _ _ (by decide), js_lookup_ne _ _ _ _ (by decide)]; exact js_lookup_j _ _ _
    · rw [js_lookup_ne _ _ _ _ (by decide)]; exact js_lookup_j _ _ _
  simp only [src2_anyOf, Fn2.run, kwAnyOf]
  rw [execList2_cons, exec2_assign]
  simp only [evalEx, withRes]
  rw [execList2_cons, exec2_forS]
  simp only [iterItems2, iterItems, evalEx, lookupVar, hσ.hval, elemsOf, Res.bind, withRes]
  refine anyOf_loop env (d.cfg fc) rec inst (.arr ss) _ ?_ ?_ _ [] _ hσ
  · intro σ acc h
    simp only [execList2_cons, execList2_nil, exec2, h.ctx]
    simp only [evalArgs, evalEx, lookupVar, h.hinst, Res.bind, withRes, mkErrCtx_anyOf, andThen_nothing]
  · intro σ
    simp only [execList2_nil]

/-- the exact extent of the agreement: everything but a string or an object (on `null`, booleans and numbers both
    sides raise `TypeError`) -/
theorem tie2_anyOf_weak (env : Env) (d : Draft) (fc : Option FormatChecker) (rec : Rec) (v inst schema : Json)
    (hs : v.isStr = false) (ho : v.isObj = false) :
    Fn2.run env (d.cfg fc) rec src2_anyOf v inst schema = kwAnyOf rec v inst := by
  have hv : List.lookup "value"
      (Store.js [("x1", PV.j (Json.arr [])), ("value", PV.j v), ("instance", PV.j inst), ("schema", PV.j schema)])
      = some v := by
    rw [js_lookup_ne _ _ _ _ (by decide)]; exact js_lookup_j _ _ _
  cases v with
  | arr ss => exact tie2_anyOf env d fc rec _ inst schema ⟨ss, rfl⟩
  | str s => simp [Json.isStr] at hs
  | obj kvs => simp [Json.isObj] at ho
  | null =>
    simp only [src2_anyOf, Fn2.run, kwAnyOf]
    rw [execList2_cons, exec2_assign]
    simp only [evalEx, withRes]
    rw [execList2_cons, exec2_forS]
    simp only [iterItems2, iterItems, evalEx, lookupVar, hv, elemsOf, Res.bind, withRes]
    rfl
  | bool b =>
    simp only [src2_anyOf, Fn2.run, kwAnyOf]
    rw [execList2_cons, exec2_assign]
    simp only [evalEx, withRes]
    rw [execList2_cons, exec2_forS]
    simp only [iterItems2, iterItems, evalEx, lookupVar, hv, elemsOf, Res.bind, withRes]
    rfl
  | num n =>
    simp only [src2_anyOf, Fn2.run, kwAnyOf]
    rw [execList2_cons, exec2_assign]
    simp only [evalEx, withRes]
    rw [execList2_cons, exec2_forS]
    simp only [iterItems2, iterItems, evalEx, lookupVar, hv, elemsOf, Res.bind, withRes]
    rfl

/-- `anyOf: ""` — Python enumerates the (zero) characters of the string and reports that no branch was valid;
    the model says `TypeError`. The metaschemas demand an array. -/
theorem tie2_anyOf_needs_shape :
    ¬ ∀ (env : Env) (d : Draft) (fc : Option FormatChecker) (rec : Rec) (v inst schema : Json),
      Fn2.run env (d.cfg fc) rec src2_anyOf v inst schema = kwAnyOf rec v inst := by
  intro h
  have h1 := congrFun (congrFun (h default .d7 none (fun _ _ => nothing) (.str []) .null .null) none) default
  exact absurd (congrArg (fun o => o.stop.isDone) h1) (by decide)

/-! ### type (Draft 3) -/

def tdBody : List St2 :=
  [.ifS (.c1 (.ex (.isType (.var "x3") (.str "object"))))
    [.assignDescendList "x4" (.var "instance") (.var "x3") none (some (.var "x2")),
     .ifS (.notC (.truthyVar "x4")) [.ret] [], .extend "x1" "x4"]
    [.ifS (.c1 (.ex (.isType (.var "instance") (.var "x3")))) [.ret] []]]

abbrev tdStep (env : Env) (cfg : Cfg) (rec : Rec) : List Json → Store → (Flow2 → Gen) → Gen :=
  stepOf env cfg rec (.two "x2" "x3") tdBody

theorem tdStep_eq (env : Env) (cfg : Cfg) (rec : Rec) (inst val : Json) (acc : List Err) (σ : Store)
    (hσ : Inv inst val acc σ) (i : Nat) (t : Json) (k' : Flow2 → Gen) :
    tdStep env cfg rec [jnat i, t] σ k' =
      withRes (isTypeS cfg t "object") fun isObj =>
        if isObj then
          inner (descendG (rec inst t) none (some (.idx i))) none fun es =>
            if es.isEmpty then k' .ret
            else k' (.next (("x1", .errs (acc ++ es)) :: ("x4", .errs es) :: ("x3", .j t) :: ("x2", .j (jnat i)) :: σ))
        else
          withRes (isType cfg inst t) fun ok =>
            if ok then k' .ret else k' (.next (("x3", .j t) :: ("x2", .j (jnat i)) :: σ)) := by
  have h2 : Inv inst val acc (("x3", .j t) :: ("x2", .j (jnat i)) :: σ) :=
    (hσ.cons "x2" _ (by decide) (by decide) (by decide)).cons "x3" _ (by decide) (by decide) (by decide)
  have hx3 : List.lookup "x3" (Store.js (("x3", PV.j t) :: ("x2", PV.j (jnat i)) :: σ)) = some t :=
    js_lookup_j _ _ _
  have hx2 : List.lookup "x2" (Store.js (("x3", PV.j t) :: ("x2", PV.j (jnat i)) :: σ)) = some (jnat i) := by
    rw [js_lookup_ne _ _ _ _ (by decide)]; exact js_lookup_j _ _ _
  simp only [tdStep, stepOf, bindPat2, tdBody, execList2, exec2, evalEx, lookupVar, optPath, h2.hinst, hx3, hx2,
    Res.bind, pathElemOf_jnat, evalCond2, evalCond, isTypeS]
  cases hobj : isType cfg t (Json.str "object".toList) with
  | raise e => simp only [withRes]
  | miss q => simp only [withRes]
  | ok isObj =>
    simp only [withRes, truthy_bool]
    cases isObj
    · simp only [Bool.false_eq_true, if_false]
      cases hok : isType cfg inst t with
      | raise e => simp only [withRes]
      | miss q => simp only [withRes]
      | ok ok => cases ok <;> simp only [withRes, truthy_bool, Bool.false_eq_true, if_false, if_true]
    · simp only [if_true]
      congr 1
      funext es
      have h3 : Inv inst val acc (("x4", .errs es) :: ("x3", .j t) :: ("x2", .j (jnat i)) :: σ) :=
        h2.cons "x4" _ (by decide) (by decide) (by decide)
      have hx4 : Store.get (("x4", PV.errs es) :: ("x3", PV.j t) :: ("x2", PV.j (jnat i)) :: σ) "x4"
          = .ok (.errs es) := by
        simp only [Store.get, lookup_eq]
      have hext := h3.extend es
      simp only [hx4, PV.truthy, withRes]
      cases hes : es.isEmpty
      · simp only [Bool.not_false, Bool.not_true, Bool.false_eq_true, if_false]
        revert hext
        cases Store.get (("x4", PV.errs es) :: ("x3", PV.j t) :: ("x2", PV.j (jnat i)) :: σ) "x1" with
        | ok a =>
          simp only [Res.bind]
          intro hext
          simp only [hext]
        | raise e => simp [Res.bind]
        | miss q => simp [Res.bind]
      · simp only [Bool.not_true, Bool.not_false, if_true]

theorem typeDraft3_loop (env : Env) (cfg : Cfg) (rec : Rec) (inst val : Json) (K : Flow2 → Gen)
    (hnext : ∀ σ acc, Inv inst val acc σ → K (.next σ) = emit [Err.fresh "type" [inst, val] acc])
    (hret : K .ret = nothing)
    (items : List (Nat × Json)) (acc : List Err) (σ : Store) (hσ : Inv inst val acc σ) :
    forLoop2 none (tdStep env cfg rec) (items.map fun t => [jnat t.1, t.2]) σ K
      = typeDraft3Loop cfg rec inst (fun matched acc =>
          if matched then nothing else emit [Err.fresh "type" [inst, val] acc]) items acc := by
  induction items generalizing acc σ with
  | nil => simp only [List.map, forLoop2, typeDraft3Loop, hnext σ acc hσ, Bool.false_eq_true, if_false]
  | cons t rest ih =>
    obtain ⟨i, t⟩ := t
    simp only [List.map, forLoop2, typeDraft3Loop, consume]
    rw [tdStep_eq env cfg rec inst val acc σ hσ]
    have h2 : Inv inst val acc (("x3", .j t) :: ("x2", .j (jnat i)) :: σ) :=
      (hσ.cons "x2" _ (by decide) (by decide) (by decide)).cons "x3" _ (by decide) (by decide) (by decide)
    congr 1
    funext isObj
    cases isObj
    · simp only [Bool.false_eq_true, if_false]
      congr 1
      funext ok
      cases ok
      · simp only [Bool.false_eq_true, if_false]
        exact ih _ _ h2
      · simp only [if_true, hret]
    · simp only [if_true]
      congr 1
      funext es
      cases hes : es.isEmpty
      · simp only [Bool.false_eq_true, if_false]
        apply ih
        exact (h2.cons "x4" _ (by decide) (by decide) (by decide)).setAcc _
      · simp only [if_true, hret]

theorem tie2_type_draft3 (env : Env) (d : Draft) (fc : Option FormatChecker) (rec : Rec) (v inst schema : Json) :
    Fn2.run env (d.cfg fc) rec src2_type_draft3 v inst schema = kwTypeDraft3 (d.cfg fc) rec v inst := by
  simp only [src2_type_draft3, Fn2.run, kwTypeDraft3]
  rw [execList2_cons, exec2_assign]
  have hv : List.lookup "value" (Store.js [("value", PV.j v), ("instance", PV.j inst), ("schema", PV.j schema)])
      = some v := js_lookup_j _ _ _
  simp only [evalEx, lookupVar, hv, Res.bind, ensureListR]
  cases hts : ensureList v with
  | none => simp only [withRes]; rfl
  | some ts =>
    have hσ : Inv inst (.arr ts) []
        [("x1", PV.j (Json.arr [])), ("value", PV.j (Json.arr ts)), ("value", PV.j v), ("instance", PV.j inst),
          ("schema", PV.j schema)] := by
      refine ⟨?_, ?_, Or.inr ⟨lookup_eq _ _ _, rfl⟩⟩
      · rw [js_lookup_ne _ _ _ _ (by decide), js_lookup_ne _ _ _ _ (by decide), js_lookup_ne _ _ _ _ (by decide)]
        exact js_lookup_j _ _ _
      · rw [js_lookup_ne _ _ _ _ (by decide)]; exact js_lookup_j _ _ _
    simp only [withRes]
    rw [execList2_cons, exec2_assign]
    simp only [evalEx, withRes]
    rw [execList2_cons, exec2_forS]
    simp only [iterItems2, iterItems, evalEx, lookupVar, hσ.hval, elemsOf, Res.bind, withRes]
    refine typeDraft3_loop env (d.cfg fc) rec inst (.arr ts) _ ?_ ?_ _ [] _ hσ
    · intro σ acc h
      simp only [execList2_cons, execList2_nil, exec2, h.ctx]
      simp only [evalArgs, evalEx, lookupVar, h.hinst, h.hval, Res.bind, withRes, helperErrCtx_types,
        andThen_nothing]
    · simp only [execList2_nil]

#print axioms tie2_anyOf
#print axioms tie2_anyOf_weak
#print axioms tie2_anyOf_needs_shape
#print axioms tie2_type_draft3

end JS.Tie
