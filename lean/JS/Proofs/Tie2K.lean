/-
  JS.Proofs.Tie2K — source-tie theorems (richer subset, `JS.Py.Interp2`) for `oneOf` and `properties_draft3`.
-/
import JS.Proofs.TieBase
import JS.Proofs.TieC
set_option linter.unusedSimpArgs false
namespace JS.Tie
open JS JS.Py JS.Generated.Source

namespace K

theorem wr_ok {α : Type} (a : α) (k : α → Gen) : withRes (.ok a) k = k a := rfl
theorem wr_raise {α : Type} (e : Exc) (k : α → Gen) : withRes (.raise e) k = raiseG e := rfl
theorem wr_miss {α : Type} (q : Query) (k : α → Gen) : withRes (.miss q) k = stopG (.miss q) := rfl
theorem rb_ok {α β : Type} (a : α) (f : α → Res β) : (Res.ok a).bind f = f a := rfl
theorem rb_raise {α β : Type} (e : Exc) (f : α → Res β) : (Res.raise e : Res α).bind f = .raise e := rfl
theorem rb_miss {α β : Type} (q : Query) (f : α → Res β) : (Res.miss q : Res α).bind f = .miss q := rfl

/-! ### the JSON-valued part of a store -/

theorem js_j (n : String) (v : Json) (σ : Store) : Store.js ((n, .j v) :: σ) = (n, v) :: Store.js σ := rfl
theorem js_errs (n : String) (es : List Err) (σ : Store) :
    Store.js ((n, .errs es) :: σ) = (Store.js σ).filter (fun p => p.1 != n) := rfl
theorem js_err (n : String) (e : Err) (σ : Store) :
    Store.js ((n, .err e) :: σ) = (Store.js σ).filter (fun p => p.1 != n) := rfl
theorem js_iter (n : String) (it : List (List Json)) (σ : Store) :
    Store.js ((n, .iter it) :: σ) = (Store.js σ).filter (fun p => p.1 != n) := rfl

theorem lookup_filter_ne (l : Locals) (n m : String) (h : (m == n) = false) :
    (l.filter (fun p => p.1 != n)).lookup m = l.lookup m := by
  induction l with
  | nil => rfl
  | cons p l ih =>
    obtain ⟨a, b⟩ := p
    by_cases ha : a = n
    · subst ha
      simp only [List.filter, bne_self_eq_false, List.lookup, ih, h]
    · have : (a != n) = true := by simpa using ha
      simp only [List.filter, this, List.lookup, ih]

/-- a binding of `n` (of any kind) does not change what the JSON-valued locals say about another name `m` -/
theorem js_lookup_ne (n : String) (pv : PV) (σ : Store) (m : String) (h : (m == n) = false) :
    (Store.js ((n, pv) :: σ)).lookup m = (Store.js σ).lookup m := by
  cases pv with
  | j v => simp only [js_j, List.lookup, h]
  | errs es => rw [js_errs, lookup_filter_ne _ _ _ h]
  | err e => rw [js_err, lookup_filter_ne _ _ _ h]
  | iter it => rw [js_iter, lookup_filter_ne _ _ _ h]

theorem js_lookup_self (n : String) (v : Json) (σ : Store) :
    (Store.js ((n, .j v) :: σ)).lookup n = some v := by
  simp only [js_j, List.lookup, beq_self_eq_true]

theorem get_cons_self (n : String) (pv : PV) (σ : Store) : Store.get ((n, pv) :: σ) n = .ok pv := by
  simp only [Store.get, List.lookup, beq_self_eq_true]

theorem lookup_cons_ne (n : String) (pv : PV) (σ : Store) (m : String) (h : (m == n) = false) :
    List.lookup m ((n, pv) :: σ) = List.lookup m σ := by
  simp only [List.lookup, h]

/-! ### a `for` over a computed iterable whose body always falls through is `seqG` -/

theorem forLoop2_map {α : Type} {P : Store → Prop} {step : List Json → Store → (Flow2 → Gen) → Gen}
    (g : α → List Json) (f : α → Gen)
    (hstep : ∀ (a : α) (σ : Store) (k : Flow2 → Gen) (K : Gen), P σ →
      (∀ σ', P σ' → k (.next σ') = K) → step (g a) σ k = andThen (f a) K)
    (as : List α) (σ : Store) (k : Flow2 → Gen) (K : Gen) (hσ : P σ)
    (hk : ∀ σ', P σ' → k (.next σ') = K) :
    forLoop2 none step (as.map g) σ k = andThen (seqG f as) K := by
  induction as generalizing σ with
  | nil => simp [forLoop2, seqG, nothing_andThen, hk σ hσ]
  | cons a as ih =>
    simp only [List.map, forLoop2, seqG, consume]
    rw [hstep a σ _ (andThen (seqG f as) K) hσ (fun σ' h' => ih σ' h')]
    rw [andThen_assoc]

theorem bindPat2_two (a b : String) (x y : Json) (σ : Store) :
    bindPat2 (.two a b) [x, y] σ = some ((b, .j y) :: (a, .j x) :: σ) := rfl

end K
open K

theorem tie2_properties_draft3 (env : Env) (d : Draft) (fc : Option FormatChecker) (rec : Rec) (v inst schema : Json) :
    Fn2.run env (d.cfg fc) rec src2_properties_draft3 v inst schema = kwPropertiesDraft3 (d.cfg fc) rec v inst schema := by
  unfold src2_properties_draft3 Fn2.run kwPropertiesDraft3 gate
  simp only [execList2, exec2, evalCond2, evalCond, iterItems2, iterItems, evalEx, lookupVar, js_j, List.lookup, rb_ok, wr_ok,
    isType_object, isTypeS, truthy_bool]
  simp only [String.reduceBEq]
  cases inst <;>
    simp only [Json.isObj, wr_ok, rb_ok, truthy_bool, Bool.not_true, Bool.not_false, Bool.false_eq_true, if_false, if_true]
  case obj ikvs =>
  cases v <;> simp only [wr_ok, wr_raise, rb_ok, rb_raise]
  case obj pkvs =>
    refine (forLoop2_map (P := fun σ => σ.js.lookup "instance" = some (.obj ikvs) ∧ σ.js.lookup "schema" = some schema)
      _ _ ?_ _ _ _ nothing ?_ ?_).trans (andThen_nothing _)
    · intro a σ k K hσ hk
      obtain ⟨p, s⟩ := a
      simp only [bindPat2_two]
      simp only [js_lookup_ne, js_lookup_self, get_cons_self, hσ.1, hσ.2, String.reduceBEq, rb_ok, wr_ok,
        optPath, evalEx, lookupVar, evalArgs, pathElems, pathElemOf, pyContains, mkErr_required]
      simp only [hk, js_lookup_ne, hσ.1, hσ.2, String.reduceBEq, and_self]
      simp only [Json.hasKey, pyIndex]
      obtain ⟨x, hl⟩ | hl : (∃ x, Json.lookup p ikvs = some x) ∨ Json.lookup p ikvs = none := by
        cases Json.lookup p ikvs <;> simp
      · simp only [hl, Option.isSome, truthy_bool, bne_self_eq_false, Bool.true_bne, Bool.not_false, if_true, wr_ok]
      · simp only [hl, Option.isSome, truthy_bool, bne_self_eq_false, Bool.false_eq_true, if_false]
        cases s <;> simp only [pyGet, wr_ok, wr_raise]
        case obj skvs =>
          have hsk : skey "required" = "required".toList := rfl
          rw [hsk]
          obtain ⟨r, hr⟩ | hr : (∃ r, Json.lookup "required".toList skvs = some r) ∨
              Json.lookup "required".toList skvs = none := by
            cases Json.lookup "required".toList skvs <;> simp
          · simp only [hr, Option.getD, wr_ok]
            cases truthy r
            · simp only [Bool.false_eq_true, if_false, nothing_andThen]
            · simp only [if_true]; rfl
          · simp only [hr, Option.getD, truthy_bool, Bool.false_eq_true, if_false, nothing_andThen]
        all_goals rfl
    · simp [Store.js, List.lookup]
    · intro σ' _; rfl
  all_goals rfl

/-! ### oneOf -/

namespace K

theorem pathElemOf_jnat (i : Nat) : pathElemOf (jnat i) = .ok (.idx i) := by
  simp [jnat, pathElemOf]

theorem mkErrCtx_anyOf (x : Json) (es : List Err) :
    mkErrCtx "%r is not valid under any of the given schemas" [x] es = Err.fresh "anyOf" [x] es := rfl
theorem mkErr_oneOfMore (x : Json) (ys : List Json) :
    mkErr "%r is valid under each of %s" [x, .arr ys] = Err.fresh "oneOfMore" [x, .arr ys] := rfl

/-- the tuple `enumerate` hands to the loop -/
def mk (t : Nat × Json) : List Json := [jnat t.1, t.2]

/-- the local holding the accumulated errors: a list of errors, or the still untouched `[]` -/
def AccRep (pv : PV) (acc : List Err) : Prop := pv = .errs acc ∨ (pv = .j (.arr []) ∧ acc = [])

theorem AccRep.extend {pv : PV} {acc : List Err} (h : AccRep pv acc) (es : List Err) :
    pvExtend pv (.errs es) = .ok (.errs (acc ++ es)) := by
  rcases h with rfl | ⟨rfl, rfl⟩ <;> rfl

theorem AccRep.errs {pv : PV} {acc : List Err} (h : AccRep pv acc) : pvErrs pv = .ok acc := by
  rcases h with rfl | ⟨rfl, rfl⟩ <;> rfl

/-- what the first loop of `oneOf` keeps true of the store: `instance` is visible, the accumulator holds
    `acc`, the iterator stored under `x1` still has the branches `l` to give -/
def Inv (inst : Json) (σ : Store) (acc : List Err) (l : List (Nat × Json)) : Prop :=
  σ.js.lookup "instance" = some inst ∧ (∃ pv, σ.lookup "x2" = some pv ∧ AccRep pv acc) ∧
    σ.lookup "x1" = some (.iter (l.map mk))

def oneOfBody : List St2 :=
  [.assignDescendList "x5" (.var "instance") (.var "x4") none (some (.var "x3")),
   .ifS (.notC (.truthyVar "x5")) [.assign "x6" (.var "x4"), .brk] [], .extend "x2" "x5"]

def oneOfStep (env : Env) (cfg : Cfg) (rec : Rec) : List Json → Store → (Flow2 → Gen) → Gen :=
  fun item σ' k' =>
    match bindPat2 (.two "x3" "x4") item σ' with
    | some σ'' => execList2 env cfg rec oneOfBody σ'' k'
    | none => crashG "ValueError"

theorem get_of_lookup {σ : Store} {x : String} {pv : PV} (h : σ.lookup x = some pv) : σ.get x = .ok pv := by
  simp only [Store.get, h]

/-- one round of the loop -/
theorem oneOfStep_eq (env : Env) (cfg : Cfg) (rec : Rec) (inst : Json) (i : Nat) (s : Json)
    (xs : List (List Json)) (σ : Store) (acc : List Err) (pv : PV)
    (hi : σ.js.lookup "instance" = some inst) (h2 : σ.lookup "x2" = some pv) (ha : AccRep pv acc)
    (k' : Flow2 → Gen) :
    oneOfStep env cfg rec [jnat i, s] (consume (some "x1") xs σ) k' =
      inner (descendG (rec inst s) none (some (.idx i))) none fun errs =>
        if errs.isEmpty then
          k' (.brk (("x6", .j s) :: ("x5", .errs errs) :: ("x4", .j s) :: ("x3", .j (jnat i)) ::
            ("x1", .iter xs) :: σ))
        else
          k' (.next (("x2", .errs (acc ++ errs)) :: ("x5", .errs errs) :: ("x4", .j s) :: ("x3", .j (jnat i)) ::
            ("x1", .iter xs) :: σ)) := by
  unfold oneOfStep oneOfBody consume
  simp only [bindPat2_two, execList2, exec2, evalCond2, evalEx, lookupVar, optPath]
  simp only [js_lookup_ne, js_lookup_self, get_cons_self, hi, String.reduceBEq, rb_ok, wr_ok, pathElemOf_jnat]
  congr 1
  funext errs
  have hg : Store.get (("x5", PV.errs errs) :: ("x4", PV.j s) :: ("x3", PV.j (jnat i)) :: ("x1", PV.iter xs) :: σ) "x2"
      = .ok pv := by
    simp only [Store.get, List.lookup, String.reduceBEq, h2]
  cases he : errs.isEmpty
  · simp only [PV.truthy, he, Bool.not_false, Bool.not_true, Bool.false_eq_true, if_false, execList2, hg, wr_ok,
      get_cons_self, ha.extend]
  · simp only [PV.truthy, he, Bool.not_false, Bool.not_true, if_true, execList2, exec2, evalEx, lookupVar,
      js_lookup_ne, js_lookup_self, String.reduceBEq, wr_ok]

/-- the first loop of `oneOf` is the model's `firstValid`, whatever comes after it -/
theorem oneOf_loop (env : Env) (cfg : Cfg) (rec : Rec) (inst : Json)
    (k : Option (Json × List (Nat × Json)) → List Err → Gen) (K : Flow2 → Gen)
    (hnext : ∀ σ acc, Inv inst σ acc [] → K (.next σ) = k none acc)
    (hbrk : ∀ σ acc s rest, Inv inst σ acc rest → σ.js.lookup "x6" = some s →
      K (.brk σ) = k (some (s, rest)) acc) :
    ∀ (l : List (Nat × Json)) (σ : Store) (acc : List Err), Inv inst σ acc l →
      forLoop2 (some "x1") (oneOfStep env cfg rec) (l.map mk) σ K = firstValid rec inst k l acc := by
  intro l
  induction l with
  | nil =>
    intro σ acc h
    simp only [List.map, forLoop2, firstValid]
    exact hnext σ acc h
  | cons t rest ih =>
    intro σ acc h
    obtain ⟨i, s⟩ := t
    obtain ⟨hi, ⟨pv, h2, ha⟩, _⟩ := h
    simp only [List.map, forLoop2, firstValid, mk]
    rw [oneOfStep_eq env cfg rec inst i s _ σ acc pv hi h2 ha]
    congr 1
    funext errs
    cases he : errs.isEmpty
    · simp only [Bool.false_eq_true, if_false]
      apply ih
      refine ⟨?_, ⟨.errs (acc ++ errs), ?_, Or.inl rfl⟩, ?_⟩
      · simp only [js_lookup_ne, String.reduceBEq, hi]
      · simp only [List.lookup, String.reduceBEq]
      · simp only [List.lookup, String.reduceBEq]
    · simp only [if_true]
      apply hbrk
      · refine ⟨?_, ⟨pv, ?_, ha⟩, ?_⟩
        · simp only [js_lookup_ne, String.reduceBEq, hi]
        · simp only [List.lookup, String.reduceBEq, h2]
        · simp only [List.lookup, String.reduceBEq]
      · simp only [js_lookup_self]

/-- the comprehension over what the loop left in the iterator is the model's `moreValid` -/
theorem validComp_moreValid (env : Env) (cfg : Cfg) (rec : Rec) (inst : Json) (σ : Store)
    (hσ : σ.js.lookup "instance" = some inst) (k : List Json → Gen) :
    ∀ (l : List (Nat × Json)) (acc : List Json),
      validComp env cfg rec (.two "x7" "x8") (.var "instance") (.var "x8") (.var "x8") σ k (l.map mk) acc =
        moreValid rec inst k l acc := by
  intro l
  induction l with
  | nil => intro acc; rfl
  | cons t rest ih =>
    intro acc
    obtain ⟨i, s⟩ := t
    simp only [List.map, mk, validComp, moreValid, bindPat2_two, evalEx, lookupVar]
    simp only [js_lookup_ne, js_lookup_self, String.reduceBEq, hσ, wr_ok]
    congr 1
    funext ok
    cases ok
    · simp only [Bool.false_eq_true, if_false]; exact ih acc
    · simp only [if_true]; exact ih (acc ++ [s])

end K

namespace K

def oneOfElse : List St2 :=
  [.yieldErrCtx "%r is not valid under any of the given schemas" [.var "instance"] "x2"]

def oneOfTail : List St2 :=
  [.assignValidComp "x9" (.two "x7" "x8") (.var "x1") (.var "instance") (.var "x8") (.var "x8"),
   .ifS (.truthyVar "x9") [.append "x9" (.var "x6"), .assignJoinReprs "x10" "x9",
     .yieldErr "%r is valid under each of %s" [.var "instance", .var "x10"]] []]

theorem src2_oneOf_eq : src2_oneOf =
    .body (.assignEnumerate "x1" (.var "value") :: .assign "x2" .emptyList ::
      .forS (.two "x3" "x4") (.var "x1") oneOfBody oneOfElse :: oneOfTail) := rfl

/-- the `else` clause of the loop -/
theorem oneOf_else (env : Env) (cfg : Cfg) (rec : Rec) (inst : Json) (σ : Store) (acc : List Err)
    (l : List (Nat × Json)) (h : Inv inst σ acc l) (k : Flow2 → Gen) :
    execList2 env cfg rec oneOfElse σ k = andThen (emit [Err.fresh "anyOf" [inst] acc]) (k (.next σ)) := by
  obtain ⟨hi, ⟨pv, h2, ha⟩, _⟩ := h
  unfold oneOfElse
  simp only [execList2, exec2, evalArgs, evalEx, lookupVar, hi, rb_ok, wr_ok, get_of_lookup h2, ha.errs,
    mkErrCtx_anyOf]

/-- what follows the loop, after a `break` -/
theorem oneOf_tail (env : Env) (cfg : Cfg) (rec : Rec) (inst : Json) (σ : Store) (acc : List Err)
    (l : List (Nat × Json)) (h : Inv inst σ acc l) (first : Json) (h6 : l = [] ∨ σ.js.lookup "x6" = some first) :
    execList2 env cfg rec oneOfTail σ (fun _ => nothing) =
      moreValid rec inst (fun more =>
        if more.isEmpty then nothing
        else emit [Err.fresh "oneOfMore" [inst, .arr (more ++ [first])]]) l [] := by
  obtain ⟨hi, _, h1⟩ := h
  unfold oneOfTail
  simp only [execList2, exec2, iterItems2, get_of_lookup h1, rb_ok, wr_ok]
  rw [validComp_moreValid env cfg rec inst σ hi]
  rcases h6 with rfl | h6
  · simp only [moreValid, List.isEmpty_nil, if_true, evalCond2, get_cons_self, wr_ok, PV.truthy, truthy]
    simp
  · congr 1
    funext more
    simp only [evalCond2, get_cons_self, wr_ok, PV.truthy, truthy, consume, evalEx, lookupVar, js_lookup_ne,
      String.reduceBEq, h6]
    obtain hm | hm : more.isEmpty = false ∨ more.isEmpty = true := by cases more.isEmpty <;> simp
    · simp only [hm, Bool.not_false, if_true, Bool.false_eq_true, if_false, wr_ok, get_cons_self, evalArgs, evalEx,
        lookupVar, js_lookup_ne, js_lookup_self, String.reduceBEq, hi, rb_ok, mkErr_oneOfMore, andThen_nothing]
    · simp only [hm, Bool.not_true, Bool.false_eq_true, if_false, if_true, execList2]

end K
open K

theorem tie2_oneOf (env : Env) (d : Draft) (fc : Option FormatChecker) (rec : Rec) (v inst schema : Json)
    (hv : ∃ ss, v = .arr ss) :
    Fn2.run env (d.cfg fc) rec src2_oneOf v inst schema = kwOneOf rec v inst := by
  obtain ⟨ss, rfl⟩ := hv
  rw [src2_oneOf_eq]
  unfold Fn2.run kwOneOf
  simp only [execList2, exec2, evalEx, lookupVar, js_j, List.lookup, String.reduceBEq, elemsOf, wr_ok, iterItems2,
    get_cons_self, Store.get, rb_ok]
  refine oneOf_loop env (d.cfg fc) rec inst _ _ ?_ ?_ (enumFrom 0 ss) _ [] ?_
  · intro σ acc h
    simp only []
    rw [oneOf_else env (d.cfg fc) rec inst σ acc [] h]
    simp only []
    rw [oneOf_tail env (d.cfg fc) rec inst σ acc [] h .null (Or.inl rfl)]
    simp only [moreValid, List.isEmpty_nil, if_true, andThen_nothing]
  · intro σ acc s rest h h6
    simp only []
    exact oneOf_tail env (d.cfg fc) rec inst σ acc rest h s (Or.inr h6)
  · refine ⟨?_, ⟨_, ?_, Or.inr ⟨rfl, rfl⟩⟩, ?_⟩
    · simp only [js_lookup_ne, js_lookup_self, String.reduceBEq]
    · simp only [List.lookup, String.reduceBEq]
    · simp only [List.lookup, String.reduceBEq]; rfl

/-- the same under the weaker hypothesis "not a string, not an object": on the other non-arrays both sides
    raise `TypeError` -/
theorem tie2_oneOf_weak (env : Env) (d : Draft) (fc : Option FormatChecker) (rec : Rec) (v inst schema : Json)
    (hs : v.isStr = false) (ho : v.isObj = false) :
    Fn2.run env (d.cfg fc) rec src2_oneOf v inst schema = kwOneOf rec v inst := by
  cases v with
  | arr ss => exact tie2_oneOf env d fc rec _ inst schema ⟨ss, rfl⟩
  | str s => simp [Json.isStr] at hs
  | obj kvs => simp [Json.isObj] at ho
  | _ =>
    rw [src2_oneOf_eq]
    unfold Fn2.run kwOneOf
    simp only [execList2, exec2, evalEx, lookupVar, js_j, List.lookup, String.reduceBEq, elemsOf, wr_ok, wr_raise]
    rfl

/-- `oneOf: {}` — Python enumerates the (zero) keys of the dict, the `else` clause of the loop reports
    "not valid under any of the given schemas"; the model says `TypeError`. Every metaschema demands an array. -/
theorem tie2_oneOf_needs_shape :
    ¬ ∀ (env : Env) (d : Draft) (fc : Option FormatChecker) (rec : Rec) (v inst schema : Json),
      Fn2.run env (d.cfg fc) rec src2_oneOf v inst schema = kwOneOf rec v inst := by
  intro h
  have h1 := congrFun (congrFun (h default .d7 none (fun _ _ => nothing) (.obj []) .null .null) none) default
  exact absurd (congrArg (fun o => o.stop.isDone) h1) (by decide)

/-- `oneOf: ""` — likewise for a string (zero characters) -/
theorem tie2_oneOf_needs_shape_str :
    ¬ ∀ (env : Env) (d : Draft) (fc : Option FormatChecker) (rec : Rec) (v inst schema : Json),
      v.isObj = false → Fn2.run env (d.cfg fc) rec src2_oneOf v inst schema = kwOneOf rec v inst := by
  intro h
  have h1 := congrFun (congrFun (h default .d7 none (fun _ _ => nothing) (.str []) .null .null rfl) none) default
  exact absurd (congrArg (fun o => o.stop.isDone) h1) (by decide)

#print axioms tie2_properties_draft3
#print axioms tie2_oneOf_needs_shape_str
#print axioms tie2_oneOf
#print axioms tie2_oneOf_weak
#print axioms tie2_oneOf_needs_shape

end JS.Tie
