/-
  JS.Proofs.Tie2M — source-tie theorem (richer subset, `JS.Py.Interp2`) for `$ref`
  (`ref` in `_validators.py`): resolve, `push_scope(url)`, descend into the target, `pop_scope()` in `finally`.
-/
import JS.Proofs.TieBase
import JS.Proofs.Tie2K
set_option linter.unusedSimpArgs false
namespace JS.Tie
open JS JS.Py JS.Generated.Source
open K

namespace M

/-- `descend(instance, schema)` without `path=`/`schema_path=` hands the errors over unchanged -/
theorem descendG_none (g : Gen) : descendG g none none = g := by
  funext b st
  unfold descendG mapErrs
  rcases g b st with ⟨es, s, st'⟩
  simp only [List.map_id']

/-- the `try … finally: pop_scope()` after a `push_scope(url)` is the model's `withScope` -/
theorem push_popAfter (env : Env) (url : Str) (g : Gen) (b : Option Nat) (st : RState) :
    (match env.urljoin st.top url with
      | none => (⟨[], .miss (.urljoin st.top url), st⟩ : Out)
      | some u => popAfter g b { st with scopes := u :: st.scopes }) = withScope env url g b st := by
  unfold withScope popAfter
  cases env.urljoin st.top url <;> rfl

/-- what follows `url, resolved = resolve(ref)` in the source: `push_scope(url)`, the guarded descent -/
def refTail : List St2 :=
  [.pushScope (.var "x1"), .tryFinallyPop [.descend (.var "instance") (.var "x2") none none]]

theorem refTail_eq (env : Env) (cfg : Cfg) (rec : Rec) (v inst schema target : Json) (url : Str)
    (k : Flow2 → Gen) (hk : ∀ σ, k (.next σ) = nothing) :
    execList2 env cfg rec refTail
      [("x2", .j target), ("x1", .j (.str url)), ("value", .j v), ("instance", .j inst), ("schema", .j schema)]
      k = withScope env url (rec inst target) := by
  unfold refTail
  simp only [execList2, exec2, evalEx, lookupVar, js_j, List.lookup, String.reduceBEq, rb_ok, wr_ok, optPath,
    hk, andThen_nothing, descendG_none]
  funext b st
  exact push_popAfter env url (rec inst target) b st

theorem src2_ref_eq : src2_ref =
    .body [.ifS .resolverLacksResolve [.unsupportedSt "with"] (.resolveRef "x1" "x2" (.var "value") :: refTail)] := rfl

/-- the interpreted source, with `resolveAny` still folded -/
theorem run_ref (env : Env) (cfg : Cfg) (rec : Rec) (v inst schema : Json) :
    Fn2.run env cfg rec src2_ref v inst schema = fun b st =>
      match resolveAny env v st with
      | (.ok (url, target), st1) => withScope env url (rec inst target) b st1
      | (.raise ex, st1) => ⟨[], .raised ex, st1⟩
      | (.miss q, st1) => ⟨[], .miss q, st1⟩ := by
  rw [src2_ref_eq]
  unfold Fn2.run
  simp only [execList2, exec2, evalCond2, Bool.false_eq_true, if_false, evalEx, lookupVar, js_j, List.lookup,
    String.reduceBEq, wr_ok]
  funext b st
  rcases resolveAny env v st with ⟨_ | _ | _, st1⟩
  · dsimp only
    rw [refTail_eq]
    intro σ; rfl
  · rfl
  · rfl

end M
open M

theorem tie2_ref (env : Env) (d : Draft) (fc : Option FormatChecker) (rec : Rec) (v inst schema : Json) :
    Fn2.run env (d.cfg fc) rec src2_ref v inst schema = kwRef env rec v inst := by
  rw [run_ref]
  funext b st
  unfold kwRef resolveAny
  cases refReading v with
  | ref r =>
    simp only [kwRefStr]
    rcases resolve env r st with ⟨_ | _ | _, st1⟩ <;> rfl
  | emptyOrUnresolvable =>
    simp only []
    cases st.top.isEmpty
    · simp only [Bool.false_eq_true, if_false, kwRefStr]
      rcases resolve env [] st with ⟨_ | _ | _, st1⟩ <;> rfl
    · simp only [if_true]
  | typeError => rfl

#print axioms tie2_ref

end JS.Tie
