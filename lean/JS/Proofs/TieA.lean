/-
  JS.Proofs.TieA — source-tie theorems (see TieBase): const, enum, the bound keywords, the length
  keywords, uniqueItems, pattern.
-/
import JS.Proofs.TieBase
namespace JS.Tie
open JS JS.Py JS.Generated.Source

set_option linter.unusedSimpArgs false

theorem tie_const (env : Env) (d : Draft) (fc : Option FormatChecker) (rec : Rec) (v inst schema : Json) :
    Fn.run env (d.cfg fc) rec src_const v inst schema = kwConst v inst := by
  unfold src_const Fn.run kwConst
  simp only [execList, exec, evalCond, evalEx, lookupVar, List.lookup, evalArgs, Res.bind,
    andThen_nothing, mkErr_const, withRes, truthy_bool]
  simp only [String.reduceBEq]
  cases equal inst v <;> simp [mkErr_const]

theorem tie_exclusiveMinimum (env : Env) (d : Draft) (fc : Option FormatChecker) (rec : Rec) (v inst schema : Json) :
    Fn.run env (d.cfg fc) rec src_exclusiveMinimum v inst schema = kwExclusiveMinimum (d.cfg fc) v inst := by
  unfold src_exclusiveMinimum Fn.run kwExclusiveMinimum kwBound gate
  simp only [execList, exec, evalCond, evalEx, lookupVar, List.lookup, evalArgs, Res.bind,
    andThen_nothing, mkErr_exclusiveMinimum, isType_number, isTypeS, withRes, truthy_bool]
  simp only [String.reduceBEq]
  cases inst <;> simp [Json.isNumJ, nothing]
  cases v <;> simp [pyCmp, asNum, numCmp, raiseG, stopG, crashG, boolNum, mkErr_exclusiveMinimum] <;> rfl

theorem tie_exclusiveMaximum (env : Env) (d : Draft) (fc : Option FormatChecker) (rec : Rec) (v inst schema : Json) :
    Fn.run env (d.cfg fc) rec src_exclusiveMaximum v inst schema = kwExclusiveMaximum (d.cfg fc) v inst := by
  unfold src_exclusiveMaximum Fn.run kwExclusiveMaximum kwBound gate
  simp only [execList, exec, evalCond, evalEx, lookupVar, List.lookup, evalArgs, Res.bind,
    andThen_nothing, isType_number, isTypeS, withRes, truthy_bool]
  simp only [String.reduceBEq]
  cases inst <;> simp [Json.isNumJ, nothing]
  cases v <;> simp [pyCmp, asNum, numCmp, raiseG, stopG, crashG, boolNum, mkErr_exclusiveMaximum] <;> rfl

theorem tie_minimum (env : Env) (d : Draft) (fc : Option FormatChecker) (rec : Rec) (v inst schema : Json) :
    Fn.run env (d.cfg fc) rec src_minimum v inst schema = kwMinimum (d.cfg fc) v inst := by
  unfold src_minimum Fn.run kwMinimum kwBound gate
  simp only [execList, exec, evalCond, evalEx, lookupVar, List.lookup, evalArgs, Res.bind,
    andThen_nothing, isType_number, isTypeS, withRes, truthy_bool]
  simp only [String.reduceBEq]
  cases inst <;> simp [Json.isNumJ, nothing]
  cases v <;> simp [pyCmp, asNum, numCmp, raiseG, stopG, crashG, boolNum, mkErr_minimum] <;> rfl

theorem tie_maximum (env : Env) (d : Draft) (fc : Option FormatChecker) (rec : Rec) (v inst schema : Json) :
    Fn.run env (d.cfg fc) rec src_maximum v inst schema = kwMaximum (d.cfg fc) v inst := by
  unfold src_maximum Fn.run kwMaximum kwBound gate
  simp only [execList, exec, evalCond, evalEx, lookupVar, List.lookup, evalArgs, Res.bind,
    andThen_nothing, isType_number, isTypeS, withRes, truthy_bool]
  simp only [String.reduceBEq]
  cases inst <;> simp [Json.isNumJ, nothing]
  cases v <;> simp [pyCmp, asNum, numCmp, raiseG, stopG, crashG, boolNum, mkErr_maximum] <;> rfl

theorem tie_maxItems (env : Env) (d : Draft) (fc : Option FormatChecker) (rec : Rec) (v inst schema : Json) :
    Fn.run env (d.cfg fc) rec src_maxItems v inst schema = kwMaxItems (d.cfg fc) v inst := by
  unfold src_maxItems Fn.run kwMaxItems kwLenBound
  simp only [execList, exec, evalCond, evalEx, lookupVar, List.lookup, evalArgs, Res.bind,
    andThen_nothing, isType_array, isTypeS, withRes, truthy_bool]
  simp only [String.reduceBEq]
  cases inst <;> simp [Json.isArr, arrLen, pyLen, nothing]
  cases v <;> simp [pyCmp, lenCmp, asNum, jnat, numCmp, raiseG, stopG, crashG, boolNum, mkErr_tooLong] <;> rfl

theorem tie_minLength (env : Env) (d : Draft) (fc : Option FormatChecker) (rec : Rec) (v inst schema : Json) :
    Fn.run env (d.cfg fc) rec src_minLength v inst schema = kwMinLength (d.cfg fc) v inst := by
  unfold src_minLength Fn.run kwMinLength kwLenBound
  simp only [execList, exec, evalCond, evalEx, lookupVar, List.lookup, evalArgs, Res.bind,
    andThen_nothing, isType_string, isTypeS, withRes, truthy_bool]
  simp only [String.reduceBEq]
  cases inst <;> simp [Json.isStr, strLen, pyLen, nothing]
  cases v <;> simp [pyCmp, lenCmp, asNum, jnat, numCmp, raiseG, stopG, crashG, boolNum, mkErr_tooShort] <;> rfl

theorem tie_maxLength (env : Env) (d : Draft) (fc : Option FormatChecker) (rec : Rec) (v inst schema : Json) :
    Fn.run env (d.cfg fc) rec src_maxLength v inst schema = kwMaxLength (d.cfg fc) v inst := by
  unfold src_maxLength Fn.run kwMaxLength kwLenBound
  simp only [execList, exec, evalCond, evalEx, lookupVar, List.lookup, evalArgs, Res.bind,
    andThen_nothing, isType_string, isTypeS, withRes, truthy_bool]
  simp only [String.reduceBEq]
  cases inst <;> simp [Json.isStr, strLen, pyLen, nothing]
  cases v <;> simp [pyCmp, lenCmp, asNum, jnat, numCmp, raiseG, stopG, crashG, boolNum, mkErr_tooLong] <;> rfl

theorem tie_minProperties (env : Env) (d : Draft) (fc : Option FormatChecker) (rec : Rec) (v inst schema : Json) :
    Fn.run env (d.cfg fc) rec src_minProperties v inst schema = kwMinProperties (d.cfg fc) v inst := by
  unfold src_minProperties Fn.run kwMinProperties kwLenBound
  simp only [execList, exec, evalCond, evalEx, lookupVar, List.lookup, evalArgs, Res.bind,
    andThen_nothing, isType_object, isTypeS, withRes, truthy_bool]
  simp only [String.reduceBEq]
  cases inst <;> simp [Json.isObj, objLen, pyLen, nothing]
  cases v <;> simp [pyCmp, lenCmp, asNum, jnat, numCmp, raiseG, stopG, crashG, boolNum, mkErr_minProperties] <;> rfl

theorem tie_maxProperties (env : Env) (d : Draft) (fc : Option FormatChecker) (rec : Rec) (v inst schema : Json) :
    Fn.run env (d.cfg fc) rec src_maxProperties v inst schema = kwMaxProperties (d.cfg fc) v inst := by
  unfold src_maxProperties Fn.run kwMaxProperties kwLenBound
  simp only [execList, exec, evalCond, evalEx, lookupVar, List.lookup, evalArgs, Res.bind,
    andThen_nothing, isType_object, isTypeS, withRes, truthy_bool]
  simp only [String.reduceBEq]
  cases inst <;> simp [Json.isObj, objLen, pyLen, nothing]
  cases v <;> simp [pyCmp, lenCmp, asNum, jnat, numCmp, raiseG, stopG, crashG, boolNum, mkErr_maxProperties] <;> rfl

theorem tie_uniqueItems (env : Env) (d : Draft) (fc : Option FormatChecker) (rec : Rec) (v inst schema : Json) :
    Fn.run env (d.cfg fc) rec src_uniqueItems v inst schema = kwUniqueItems (d.cfg fc) v inst := by
  unfold src_uniqueItems Fn.run kwUniqueItems
  simp only [execList, exec, evalCond, evalEx, lookupVar, List.lookup, evalArgs, Res.bind,
    andThen_nothing, isType_array, isTypeS, withRes, truthy_bool]
  simp only [String.reduceBEq]
  cases hv : truthy v <;> simp [hv, withRes]
  cases inst <;> simp [Json.isArr, nothing, withRes]
  rename_i xs
  cases uniq xs <;> simp [mkErr_uniqueItems]

theorem tie_pattern (env : Env) (d : Draft) (fc : Option FormatChecker) (rec : Rec) (v inst schema : Json) :
    Fn.run env (d.cfg fc) rec src_pattern v inst schema = kwPattern env (d.cfg fc) v inst := by
  unfold src_pattern Fn.run kwPattern
  simp only [execList, exec, evalCond, evalEx, lookupVar, List.lookup, evalArgs, Res.bind,
    andThen_nothing, isType_string, isTypeS, withRes, truthy_bool]
  simp only [String.reduceBEq]
  cases inst <;> simp [Json.isStr, nothing, withRes]
  rename_i s
  cases v <;> simp [raiseG, stopG, crashG]
  rename_i ps
  cases search env ps s <;> simp [Res.bind, raiseG, stopG]
  rename_i m
  cases m <;> simp [mkErr_pattern]

/-- `all(p(x) for x in xs)` with a total boolean body is `List.all` -/
theorem allLoop_bool (p : Json → Bool) (xs : List Json) :
    allLoop (fun e => Res.ok (Json.bool (p e))) xs = .ok (xs.all p) := by
  induction xs with
  | nil => rfl
  | cons x xs ih =>
    simp only [allLoop, truthy_bool, List.all_cons]
    cases p x <;> simp [ih]

theorem tie_enum (env : Env) (d : Draft) (fc : Option FormatChecker) (rec : Rec) (v inst schema : Json)
    (hv : v.isArr = true) :
    Fn.run env (d.cfg fc) rec src_enum v inst schema = kwEnum v inst := by
  cases v <;> simp [Json.isArr] at hv
  rename_i es
  unfold src_enum Fn.run kwEnum
  simp only [execList, exec, evalCond, evalEx, lookupVar, List.lookup, evalArgs, Res.bind,
    andThen_nothing, withRes, truthy_bool, elemsOf]
  simp only [String.reduceBEq]
  simp only [List.lookup, Res.bind, allLoop_bool, withRes, truthy_bool]
  cases es.all (fun each => !equal inst each) <;> simp [mkErr_enum]

/-- the exact domain of agreement for `enum`: every keyword value Python cannot iterate over raises
    `TypeError` on both sides; only strings and objects (iterable, but not arrays) tell them apart -/
theorem tie_enum_weak (env : Env) (d : Draft) (fc : Option FormatChecker) (rec : Rec) (v inst schema : Json)
    (hs : v.isStr = false) (ho : v.isObj = false) :
    Fn.run env (d.cfg fc) rec src_enum v inst schema = kwEnum v inst := by
  cases v
  case arr es => exact tie_enum env d fc rec _ inst schema rfl
  case str => simp [Json.isStr] at hs
  case obj => simp [Json.isObj] at ho
  all_goals
    unfold src_enum Fn.run kwEnum
    simp only [execList, exec, evalCond, evalEx, lookupVar, List.lookup, evalArgs, Res.bind,
      andThen_nothing, withRes, truthy_bool, elemsOf]
    simp only [String.reduceBEq]
    simp [Res.bind, withRes, crashG]

/-- the hypothesis of `tie_enum` is needed: on the (ill-shaped) keyword value `""` the source runs
    `all(… for each in "")`, which is `True`, and reports an error, where the model says `TypeError` -/
theorem tie_enum_needs_shape :
    ¬ ∀ (env : Env) (d : Draft) (fc : Option FormatChecker) (rec : Rec) (v inst schema : Json),
      Fn.run env (d.cfg fc) rec src_enum v inst schema = kwEnum v inst := by
  intro h
  have := congrFun (congrFun (h default .d7 none default (.str []) .null .null) none) default
  revert this
  unfold src_enum Fn.run kwEnum
  simp only [execList, exec, evalCond, evalEx, lookupVar, List.lookup, evalArgs, Res.bind,
    andThen_nothing, withRes, truthy_bool, elemsOf]
  simp only [String.reduceBEq]
  simp [Res.bind, allLoop, withRes, emit, crashG, raiseG, stopG]

/-! `"%r is %s the minimum of %r" % (instance, cmp, minimum)`: the spliced wording is the draft-6 one -/
theorem mkErr_min34_le (x y : Json) :
    mkErr "%r is %s the minimum of %r" [x, .str "less than or equal to".toList, y]
      = Err.fresh "exclusiveMinimum" [x, y] := rfl
theorem mkErr_min34_lt (x y : Json) :
    mkErr "%r is %s the minimum of %r" [x, .str "less than".toList, y] = Err.fresh "minimum" [x, y] := rfl
theorem mkErr_max34_ge (x y : Json) :
    mkErr "%r is %s the maximum of %r" [x, .str "greater than or equal to".toList, y]
      = Err.fresh "exclusiveMaximum" [x, y] := rfl
theorem mkErr_max34_gt (x y : Json) :
    mkErr "%r is %s the maximum of %r" [x, .str "greater than".toList, y] = Err.fresh "maximum" [x, y] := rfl

theorem tie_minimum_draft3_draft4 (env : Env) (d : Draft) (fc : Option FormatChecker) (rec : Rec)
    (v inst schema : Json) (hs : schema.isObj = true) :
    Fn.run env (d.cfg fc) rec src_minimum_draft3_draft4 v inst schema
      = kwMinimumDraft3Draft4 (d.cfg fc) v inst schema := by
  cases schema <;> simp [Json.isObj] at hs
  rename_i kvs
  unfold src_minimum_draft3_draft4 Fn.run kwMinimumDraft3Draft4 kwBound gate
  simp only [execList, exec, evalCond, evalEx, lookupVar, List.lookup, evalArgs, Res.bind,
    andThen_nothing, isType_number, isTypeS, withRes, truthy_bool]
  simp only [String.reduceBEq]
  simp only [List.lookup, Res.bind, withRes, pyGet, Json.get?, skey]
  simp only [mkErr_min34_le, mkErr_min34_lt]
  rcases Bool.eq_false_or_eq_true
      (truthy ((Json.lookup "exclusiveMinimum".toList kvs).getD (Json.bool false))) with hex | hex <;>
    simp only [hex, if_true, if_false, Bool.false_eq_true] <;>
    cases inst <;> simp [Json.isNumJ, nothing] <;>
    cases v <;> simp [pyCmp, asNum, numCmp, raiseG, stopG, crashG, boolNum] <;> rfl

theorem tie_maximum_draft3_draft4 (env : Env) (d : Draft) (fc : Option FormatChecker) (rec : Rec)
    (v inst schema : Json) (hs : schema.isObj = true) :
    Fn.run env (d.cfg fc) rec src_maximum_draft3_draft4 v inst schema
      = kwMaximumDraft3Draft4 (d.cfg fc) v inst schema := by
  cases schema <;> simp [Json.isObj] at hs
  rename_i kvs
  unfold src_maximum_draft3_draft4 Fn.run kwMaximumDraft3Draft4 kwBound gate
  simp only [execList, exec, evalCond, evalEx, lookupVar, List.lookup, evalArgs, Res.bind,
    andThen_nothing, isType_number, isTypeS, withRes, truthy_bool]
  simp only [String.reduceBEq]
  simp only [List.lookup, Res.bind, withRes, pyGet, Json.get?, skey]
  simp only [mkErr_max34_ge, mkErr_max34_gt]
  rcases Bool.eq_false_or_eq_true
      (truthy ((Json.lookup "exclusiveMaximum".toList kvs).getD (Json.bool false))) with hex | hex <;>
    simp only [hex, if_true, if_false, Bool.false_eq_true] <;>
    cases inst <;> simp [Json.isNumJ, nothing] <;>
    cases v <;> simp [pyCmp, asNum, numCmp, raiseG, stopG, crashG, boolNum] <;> rfl

/-- the hypothesis of `tie_minimum_draft3_draft4` is needed: when `schema` is not an object (which the
    evaluator never passes: keyword functions run on the members of an object) the source's
    `schema.get(…)` raises `AttributeError`, the model's `get?` answers the default -/
theorem tie_minimum_draft3_draft4_needs_shape :
    ¬ ∀ (env : Env) (d : Draft) (fc : Option FormatChecker) (rec : Rec) (v inst schema : Json),
      Fn.run env (d.cfg fc) rec src_minimum_draft3_draft4 v inst schema
        = kwMinimumDraft3Draft4 (d.cfg fc) v inst schema := by
  intro h
  have := congrFun (congrFun (h default .d4 none default (.num (.int 0)) (.num (.int 1)) .null) none) default
  revert this
  unfold src_minimum_draft3_draft4 Fn.run kwMinimumDraft3Draft4 kwBound gate
  simp only [execList, exec, evalCond, evalEx, lookupVar, List.lookup, evalArgs, Res.bind,
    andThen_nothing, isType_number, isTypeS, withRes, truthy_bool]
  simp only [String.reduceBEq]
  simp only [List.lookup, Res.bind, withRes, pyGet, Json.get?, skey]
  simp [Json.isNumJ, truthy, asNum, nothing, raiseG, stopG]
  split <;> simp [emit, nothing]

#print axioms tie_const
#print axioms tie_enum
#print axioms tie_enum_weak
#print axioms tie_enum_needs_shape
#print axioms tie_exclusiveMinimum
#print axioms tie_exclusiveMaximum
#print axioms tie_minimum
#print axioms tie_maximum
#print axioms tie_minimum_draft3_draft4
#print axioms tie_maximum_draft3_draft4
#print axioms tie_minimum_draft3_draft4_needs_shape
#print axioms tie_maxItems
#print axioms tie_minLength
#print axioms tie_maxLength
#print axioms tie_minProperties
#print axioms tie_maxProperties
#print axioms tie_uniqueItems
#print axioms tie_pattern

end JS.Tie
