/-
  JS.Proofs.TieB — source-tie theorems for the keyword functions with `for` loops and `descend`:
  required, properties, patternProperties, propertyNames, dependencies, dependencies_draft3, allOf.
-/
import JS.Proofs.TieBase
set_option linter.unusedSimpArgs false
namespace JS.Tie
open JS JS.Py JS.Generated.Source

/- helper lemmas live in `JS.Tie.B` so that they cannot clash with the helpers of the sibling files -/
namespace B

/-! ### sequencing algebra -/

theorem budgetSub_add (b : Option Nat) (m n : Nat) : budgetSub (budgetSub b m) n = budgetSub b (m + n) := by
  cases b <;> simp [budgetSub, Nat.sub_sub]

theorem andThen_assoc (a b c : Gen) : andThen (andThen a b) c = andThen a (andThen b c) := by
  funext bd st
  unfold andThen
  rcases ha : a bd st with ⟨es1, s1, st1⟩
  cases s1 <;> simp
  rcases hb : b (budgetSub bd es1.length) st1 with ⟨es2, s2, st2⟩
  cases s2 <;> simp [budgetSub_add]

theorem andThen_withRes {α : Type} (r : Res α) (g : α → Gen) (h : Gen) :
    andThen (withRes r g) h = withRes r (fun a => andThen (g a) h) := by
  cases r <;> simp [withRes] <;> rfl

theorem andThen_ite (c : Bool) (g g' h : Gen) :
    andThen (if c then g else g') h = if c then andThen g h else andThen g' h := by
  cases c <;> simp

theorem andThen_crashG (cls : String) (h : Gen) : andThen (crashG cls) h = crashG cls := rfl

theorem wr_ok {α : Type} (a : α) (k : α → Gen) : withRes (.ok a) k = k a := rfl
theorem wr_raise {α : Type} (e : Exc) (k : α → Gen) : withRes (.raise e) k = raiseG e := rfl
theorem wr_miss {α : Type} (q : Query) (k : α → Gen) : withRes (.miss q) k = stopG (.miss q) := rfl

theorem rb_ok {α β : Type} (a : α) (f : α → Res β) : (Res.ok a).bind f = f a := rfl
theorem rb_raise {α β : Type} (e : Exc) (f : α → Res β) : (Res.raise e : Res α).bind f = .raise e := rfl
theorem rb_miss {α β : Type} (q : Query) (f : α → Res β) : (Res.miss q : Res α).bind f = .miss q := rfl

/-- `if a not in instance:` for a dict instance is the model's `missingKey` -/
theorem notIn_obj (a : Json) (ikvs : List (Str × Json)) (A B : Gen) :
    withRes ((pyContains a (.obj ikvs)).bind fun r => .ok (.bool (!r)))
      (fun v => if truthy v = true then A else B) =
    withRes (missingKey ikvs a) fun m => if m = true then A else B := by
  cases a <;> simp [pyContains, missingKey, rb_ok, rb_raise, wr_ok, wr_raise]

theorem notIn_obj' (a : Json) (ikvs : List (Str × Json)) (A B : Gen) :
    withRes ((pyContains a (.obj ikvs)).bind fun r => .ok (.bool (r != true)))
      (fun v => if truthy v = true then A else B) =
    withRes (missingKey ikvs a) fun m => if m = true then A else B := by
  simpa using notIn_obj a ikvs A B

theorem pyContains_str_obj (k : Str) (kvs : List (Str × Json)) :
    pyContains (.str k) (.obj kvs) = .ok (Json.hasKey k kvs) := rfl
theorem bindPat_one (a : String) (x : Json) (σ : Locals) : bindPat (.one a) [x] σ = some ((a, x) :: σ) := rfl
theorem bindPat_two (a b : String) (x y : Json) (σ : Locals) :
    bindPat (.two a b) [x, y] σ = some ((b, y) :: (a, x) :: σ) := rfl

/-! ### locals -/

/-- the locals `σ` bind (at least) the names of `bs` to the values of `bs` -/
def Has : List (String × Json) → Locals → Prop
  | [], _ => True
  | (n, v) :: bs, σ => σ.lookup n = some v ∧ Has bs σ

/-! ### `for` loops are `seqG` -/

/-- If, on locals satisfying the invariant `P`, the body run on item `g a` is "`f a`, then the continuation"
    (for every continuation that is constant `K` on locals satisfying `P`), the loop over `as.map g` is
    `seqG f as`, then `K`. -/
theorem forLoop_map {α : Type} {P : Locals → Prop} {step : List Json → Locals → (Flow → Gen) → Gen}
    (g : α → List Json) (f : α → Gen)
    (hstep : ∀ (a : α) (σ : Locals) (k : Flow → Gen) (K : Gen), P σ →
      (∀ σ', P σ' → k (.next σ') = K) → (∀ σ', P σ' → k (.cont σ') = K) →
      step (g a) σ k = andThen (f a) K)
    (as : List α) (σ : Locals) (k : Flow → Gen) (K : Gen) (hσ : P σ)
    (hk : ∀ σ', P σ' → k (.next σ') = K) :
    forLoop step (as.map g) σ k = andThen (seqG f as) K := by
  induction as generalizing σ with
  | nil => simp [forLoop, seqG, nothing_andThen, hk σ hσ]
  | cons a as ih =>
    simp only [List.map, forLoop, seqG]
    rw [hstep a σ _ (andThen (seqG f as) K) hσ (fun σ' h' => ih σ' h') (fun σ' h' => ih σ' h')]
    rw [andThen_assoc]

end B
open B

/-! ### allOf -/

theorem tie_allOf (env : Env) (d : Draft) (fc : Option FormatChecker) (rec : Rec) (v inst schema : Json)
    (hs : v.isStr = false) (ho : v.isObj = false) :
    Fn.run env (d.cfg fc) rec src_allOf v inst schema = kwAllOf rec v inst := by
  unfold src_allOf Fn.run kwAllOf
  simp only [execList, exec, iterItems, evalEx, lookupVar, List.lookup, Res.bind, withRes]
  simp only [String.reduceBEq]
  cases v <;> simp [elemsOf, Json.isStr, Json.isObj] at hs ho ⊢
  case arr xs =>
    refine (forLoop_map (P := Has [("instance", inst)]) _
      (fun t => descendG (rec inst t.2) none (some (PathElem.idx t.1))) ?_ _ _ _ nothing ?_ ?_).trans
      (andThen_nothing _)
    · intro a σ k K hσ hk _
      simp only [Has] at hσ
      simp [bindPat, List.lookup, hσ.1, optPath, evalEx, lookupVar, Res.bind, pathElemOf, jnat, withRes]
      rw [hk _ (by simp [Has, List.lookup, hσ.1])]
    · simp [Has, List.lookup]
    · intro σ' _; rfl
  all_goals rfl

/-! ### required -/

theorem tie_required (env : Env) (d : Draft) (fc : Option FormatChecker) (rec : Rec) (v inst schema : Json)
    (hs : v.isStr = false) (ho : v.isObj = false) :
    Fn.run env (d.cfg fc) rec src_required v inst schema = kwRequired (d.cfg fc) v inst := by
  unfold src_required Fn.run kwRequired gate
  simp only [execList, exec, evalCond, iterItems, evalEx, lookupVar, List.lookup, rb_ok, wr_ok,
    isType_object, isTypeS, truthy_bool]
  simp only [String.reduceBEq]
  cases inst <;> simp [Json.isObj, wr_ok, rb_ok]
  case obj ikvs =>
  cases v <;> simp [elemsOf, Json.isStr, Json.isObj, wr_ok, wr_raise, rb_ok, rb_raise] at hs ho ⊢
  case arr xs =>
    refine (forLoop_map (P := Has [("instance", .obj ikvs)]) _ _ ?_ _ _ _ nothing ?_ ?_).trans
      (andThen_nothing _)
    · intro a σ k K hσ hk _
      simp only [Has] at hσ
      simp only [andThen_withRes, andThen_ite, nothing_andThen]
      simp [bindPat, List.lookup, hσ.1, evalArgs, evalEx, lookupVar, rb_ok, wr_ok, mkErr_required]
      rw [hk _ (by simp [Has, List.lookup, hσ.1])]
      exact notIn_obj _ _ _ _
    · simp [Has, List.lookup]
    · intro σ' _; rfl
  all_goals rfl

/-! ### propertyNames -/

theorem tie_propertyNames (env : Env) (d : Draft) (fc : Option FormatChecker) (rec : Rec) (v inst schema : Json) :
    Fn.run env (d.cfg fc) rec src_propertyNames v inst schema = kwPropertyNames (d.cfg fc) rec v inst := by
  unfold src_propertyNames Fn.run kwPropertyNames gate
  simp only [execList, exec, evalCond, iterItems, evalEx, lookupVar, List.lookup, rb_ok, wr_ok,
    isType_object, isTypeS, truthy_bool]
  simp only [String.reduceBEq]
  cases inst <;> simp [Json.isObj, wr_ok, rb_ok, elemsOf]
  case obj ikvs =>
    refine (forLoop_map (P := Has [("value", v)]) _ _ ?_ _ _ _ nothing ?_ ?_).trans
      (andThen_nothing _)
    · intro a σ k K hσ hk _
      simp only [Has] at hσ
      simp [bindPat, List.lookup, hσ.1, evalEx, lookupVar, rb_ok, wr_ok, optPath]
      rw [hk _ (by simp [Has, List.lookup, hσ.1])]
    · simp [Has, List.lookup]
    · intro σ' _; rfl

/-! ### properties -/

theorem tie_properties (env : Env) (d : Draft) (fc : Option FormatChecker) (rec : Rec) (v inst schema : Json) :
    Fn.run env (d.cfg fc) rec src_properties v inst schema = kwProperties (d.cfg fc) rec v inst := by
  unfold src_properties Fn.run kwProperties gate
  simp only [execList, exec, evalCond, iterItems, evalEx, lookupVar, List.lookup, rb_ok, wr_ok,
    isType_object, isTypeS, truthy_bool]
  simp only [String.reduceBEq]
  cases inst <;> simp [Json.isObj, wr_ok, rb_ok]
  case obj ikvs =>
  cases v <;> simp [wr_ok, wr_raise, rb_ok, rb_raise]
  case obj pkvs =>
    refine (forLoop_map (P := Has [("instance", .obj ikvs)]) _ _ ?_ _ _ _ nothing ?_ ?_).trans
      (andThen_nothing _)
    · intro a σ k K hσ hk _
      simp only [Has] at hσ
      simp [bindPat, List.lookup, hσ.1, evalEx, lookupVar, rb_ok, wr_ok, optPath, pyContains, pyIndex,
        Json.hasKey, pathElemOf]
      rw [hk _ (by simp [Has, List.lookup, hσ.1])]
      cases Json.lookup a.1 ikvs <;> simp [wr_ok, nothing_andThen]
    · simp [Has, List.lookup]
    · intro σ' _; rfl
  all_goals rfl

/-! ### patternProperties -/

theorem tie_patternProperties (env : Env) (d : Draft) (fc : Option FormatChecker) (rec : Rec) (v inst schema : Json) :
    Fn.run env (d.cfg fc) rec src_patternProperties v inst schema = kwPatternProperties env (d.cfg fc) rec v inst := by
  unfold src_patternProperties Fn.run kwPatternProperties gate
  simp only [execList, exec, evalCond, iterItems, evalEx, lookupVar, List.lookup, rb_ok, wr_ok,
    isType_object, isTypeS, truthy_bool]
  simp only [String.reduceBEq]
  cases inst <;> simp [Json.isObj, wr_ok, rb_ok]
  case obj ikvs =>
  cases v <;> simp [wr_ok, wr_raise, rb_ok, rb_raise]
  case obj pkvs =>
    refine (forLoop_map (P := Has [("instance", .obj ikvs)]) _ _ ?_ _ _ _ nothing ?_ ?_).trans
      (andThen_nothing _)
    · intro a σ k K hσ hk _
      simp only [Has] at hσ
      simp [bindPat, List.lookup, hσ.1, rb_ok, wr_ok]
      refine forLoop_map (P := Has [("instance", .obj ikvs), ("x1", .str a.1), ("x2", a.2)]) _ _ ?_ _ _ _ _ ?_ ?_
      · intro b σ2 k2 K2 hσ2 hk2 _
        simp only [Has] at hσ2
        simp only [andThen_withRes, andThen_ite, nothing_andThen]
        simp [bindPat, List.lookup, hσ2.1, hσ2.2.1, hσ2.2.2.1, evalEx, lookupVar, rb_ok, wr_ok, optPath, pathElemOf]
        rw [hk2 _ (by simp [Has, List.lookup, hσ2.1, hσ2.2.1, hσ2.2.2.1])]
        cases search env a.1 b.1 <;> simp [rb_ok, rb_raise, rb_miss, wr_ok, wr_raise, wr_miss]
        rename_i m; cases m <;> rfl
      · simp [Has, List.lookup, hσ.1]
      · intro σ' h'
        simp only [Has] at h'
        exact hk _ (by simp [Has, h'.1])
    · simp [Has, List.lookup]
    · intro σ' _; rfl
  all_goals rfl

/-! ### dependencies -/

theorem tie_dependencies (env : Env) (d : Draft) (fc : Option FormatChecker) (rec : Rec) (v inst schema : Json) :
    Fn.run env (d.cfg fc) rec src_dependencies v inst schema = kwDependencies (d.cfg fc) rec v inst := by
  unfold src_dependencies Fn.run kwDependencies gate
  simp only [execList, exec, evalCond, iterItems, evalEx, lookupVar, List.lookup, rb_ok, wr_ok,
    isType_object, isTypeS, truthy_bool]
  simp only [String.reduceBEq]
  cases inst <;>
    simp only [Json.isObj, wr_ok, rb_ok, truthy_bool, Bool.not_true, Bool.not_false, Bool.false_eq_true, if_false, if_true]
  case obj ikvs =>
  cases v <;> simp only [wr_ok, wr_raise]
  case obj pkvs =>
    refine (forLoop_map (P := Has [("instance", .obj ikvs)]) _ _ ?_ _ _ _ nothing ?_ ?_).trans
      (andThen_nothing _)
    · intro a σ k K hσ hk hkc
      simp only [Has] at hσ
      obtain ⟨p, dv⟩ := a
      simp only [bindPat_two, List.lookup, hσ.1, rb_ok, wr_ok]
      simp only [String.reduceBEq, rb_ok, wr_ok, pyContains_str_obj, isType_array, truthy_bool]
      rw [hkc _ (by simp [Has, List.lookup, hσ.1])]
      cases hh : Json.hasKey p ikvs
      · simp only [bne_iff_ne, ne_eq, Bool.false_eq_true, not_false_eq_true, if_true, Bool.not_false, nothing_andThen]
      · simp only [bne_self_eq_false, Bool.false_eq_true, if_false, Bool.not_true]
        cases dv <;> simp only [Json.isArr, Bool.false_eq_true, if_false, if_true]
        case arr ds =>
          simp only [elemsOf, rb_ok, wr_ok, depArray]
          refine forLoop_map (P := Has [("instance", .obj ikvs), ("x1", .str p)]) _ _ ?_ _ _ _ _ ?_ ?_
          · intro b σ2 k2 K2 hσ2 hk2 _
            simp only [Has] at hσ2
            simp only [andThen_withRes, andThen_ite, nothing_andThen]
            simp only [bindPat_one, List.lookup, hσ2.1, hσ2.2.1, rb_ok, wr_ok, evalArgs, evalEx, lookupVar]
            simp only [String.reduceBEq, rb_ok, wr_ok, mkErr_dependency]
            rw [hk2 _ (by simp [Has, List.lookup, hσ2.1, hσ2.2.1]), hk2 _ (by simp [Has, List.lookup, hσ2.1, hσ2.2.1])]
            exact notIn_obj' _ _ _ _
          · simp [Has, List.lookup, hσ.1]
          · intro σ' h'
            simp only [Has] at h'
            exact hk _ (by simp [Has, h'.1])
        all_goals
          simp only [optPath, evalEx, lookupVar, List.lookup, rb_ok, wr_ok]
          simp only [String.reduceBEq, rb_ok, wr_ok, pathElemOf]
          rw [hk _ (by simp [Has, List.lookup, hσ.1])]
    · simp [Has, List.lookup]
    · intro σ' _; rfl
  all_goals rfl

/-! ### dependencies (Draft 3) -/

theorem tie_dependencies_draft3 (env : Env) (d : Draft) (fc : Option FormatChecker) (rec : Rec) (v inst schema : Json) :
    Fn.run env (d.cfg fc) rec src_dependencies_draft3 v inst schema = kwDependenciesDraft3 (d.cfg fc) rec v inst := by
  unfold src_dependencies_draft3 Fn.run kwDependenciesDraft3 gate
  simp only [execList, exec, evalCond, iterItems, evalEx, lookupVar, List.lookup, rb_ok, wr_ok,
    isType_object, isType_string, isTypeS, truthy_bool]
  simp only [String.reduceBEq]
  cases inst <;>
    simp only [Json.isObj, wr_ok, rb_ok, truthy_bool, Bool.not_true, Bool.not_false, Bool.false_eq_true, if_false, if_true]
  case obj ikvs =>
  cases v <;> simp only [wr_ok, wr_raise]
  case obj pkvs =>
    refine (forLoop_map (P := Has [("instance", .obj ikvs)]) _ _ ?_ _ _ _ nothing ?_ ?_).trans
      (andThen_nothing _)
    · intro a σ k K hσ hk hkc
      simp only [Has] at hσ
      obtain ⟨p, dv⟩ := a
      simp only [bindPat_two, List.lookup, hσ.1, rb_ok, wr_ok]
      simp only [String.reduceBEq, rb_ok, wr_ok, pyContains_str_obj, isType_object, isType_string, truthy_bool]
      rw [hkc _ (by simp [Has, List.lookup, hσ.1])]
      cases hh : Json.hasKey p ikvs
      · simp only [bne_iff_ne, ne_eq, Bool.false_eq_true, not_false_eq_true, if_true, Bool.not_false, nothing_andThen]
      · simp only [bne_self_eq_false, Bool.false_eq_true, if_false, Bool.not_true]
        cases dv <;> simp only [Json.isObj, Json.isStr, Bool.false_eq_true, if_false, if_true]
        case arr ds =>
          simp only [elemsOf, rb_ok, wr_ok, depArray]
          refine forLoop_map (P := Has [("instance", .obj ikvs), ("x1", .str p)]) _ _ ?_ _ _ _ _ ?_ ?_
          · intro b σ2 k2 K2 hσ2 hk2 _
            simp only [Has] at hσ2
            simp only [andThen_withRes, andThen_ite, nothing_andThen]
            simp only [bindPat_one, List.lookup, hσ2.1, hσ2.2.1, rb_ok, wr_ok, evalArgs, evalEx, lookupVar]
            simp only [String.reduceBEq, rb_ok, wr_ok, mkErr_dependency]
            rw [hk2 _ (by simp [Has, List.lookup, hσ2.1, hσ2.2.1]), hk2 _ (by simp [Has, List.lookup, hσ2.1, hσ2.2.1])]
            exact notIn_obj' _ _ _ _
          · simp [Has, List.lookup, hσ.1]
          · intro σ' h'
            simp only [Has] at h'
            exact hk _ (by simp [Has, h'.1])
        case str s =>
          simp only [andThen_withRes, andThen_ite, nothing_andThen]
          simp only [List.lookup, rb_ok, wr_ok, evalArgs, evalEx, lookupVar]
          simp only [String.reduceBEq, rb_ok, wr_ok, mkErr_dependency]
          rw [hk _ (by simp [Has, List.lookup, hσ.1])]
          exact notIn_obj' _ _ _ _
        case obj kvs =>
          simp only [optPath, evalEx, lookupVar, List.lookup, rb_ok, wr_ok]
          simp only [String.reduceBEq, rb_ok, wr_ok, pathElemOf]
          rw [hk _ (by simp [Has, List.lookup, hσ.1])]
        all_goals rfl
    · simp [Has, List.lookup]
    · intro σ' _; rfl
  all_goals rfl

/-! ### the hypotheses of `tie_required` / `tie_allOf` are necessary -/

/-- `required: ""` — Python iterates over the (zero) characters of the string and yields nothing; the model says
    `TypeError`. The Draft 4+ metaschemas demand an array. -/
theorem tie_required_needs_shape :
    ¬ ∀ (env : Env) (d : Draft) (fc : Option FormatChecker) (rec : Rec) (v inst schema : Json),
      Fn.run env (d.cfg fc) rec src_required v inst schema = kwRequired (d.cfg fc) v inst := by
  intro h
  have h1 := congrFun (congrFun (h default .d7 none (fun _ _ => nothing) (.str []) (.obj []) .null) none) default
  exact absurd (congrArg (fun o => o.stop.isDone) h1) (by decide)

/-- `allOf: {}` — Python enumerates the (zero) keys of the dict; the model says `TypeError`. -/
theorem tie_allOf_needs_shape :
    ¬ ∀ (env : Env) (d : Draft) (fc : Option FormatChecker) (rec : Rec) (v inst schema : Json),
      Fn.run env (d.cfg fc) rec src_allOf v inst schema = kwAllOf rec v inst := by
  intro h
  have h1 := congrFun (congrFun (h default .d7 none (fun _ _ => nothing) (.obj []) .null .null) none) default
  exact absurd (congrArg (fun o => o.stop.isDone) h1) (by decide)

/-! ### the same with the shape the metaschemas demand -/

theorem tie_required_arr (env : Env) (d : Draft) (fc : Option FormatChecker) (rec : Rec) (v inst schema : Json)
    (hv : ∃ rs, v = .arr rs) :
    Fn.run env (d.cfg fc) rec src_required v inst schema = kwRequired (d.cfg fc) v inst := by
  obtain ⟨rs, rfl⟩ := hv
  exact tie_required env d fc rec _ inst schema rfl rfl

theorem tie_allOf_arr (env : Env) (d : Draft) (fc : Option FormatChecker) (rec : Rec) (v inst schema : Json)
    (hv : ∃ ss, v = .arr ss) :
    Fn.run env (d.cfg fc) rec src_allOf v inst schema = kwAllOf rec v inst := by
  obtain ⟨ss, rfl⟩ := hv
  exact tie_allOf env d fc rec _ inst schema rfl rfl

#print axioms tie_required
#print axioms tie_properties
#print axioms tie_patternProperties
#print axioms tie_propertyNames
#print axioms tie_dependencies
#print axioms tie_dependencies_draft3
#print axioms tie_allOf
#print axioms tie_required_needs_shape
#print axioms tie_allOf_needs_shape
#print axioms tie_required_arr
#print axioms tie_allOf_arr

end JS.Tie
