/-
  JS.Proofs.TieBase — shared lemmas for the source-tie theorems (JS/Props/Tie.lean): the interpreted,
  regenerated source of a keyword function (`JS.Py.Fn.run` of `JS.Generated.Source.src_*`) equals the
  hand-written model function (`JS.kw*`).
-/
import JS.Py.EvalSrc
import JS.Proofs.NoCrash
namespace JS.Tie
open JS JS.Py JS.Generated.Source

/-- `nothing` is a right unit of sequencing -/
theorem andThen_nothing (g : Gen) : andThen g nothing = g := by
  funext b st
  unfold andThen nothing
  rcases h : g b st with ⟨es, s, st'⟩
  cases s <;> simp

/-- `nothing` is a left unit of sequencing -/
theorem nothing_andThen (g : Gen) : andThen nothing g = g := by
  funext b st
  unfold andThen nothing budgetSub
  simp

/-! the wording of each message is the model's template (closed computations) -/
theorem mkErr_const (x : Json) : mkErr "%r was expected" [x] = Err.fresh "const" [x] := rfl
theorem mkErr_contains (x : Json) :
    mkErr "None of %r are valid under the given schema" [x] = Err.fresh "contains" [x] := rfl
theorem mkErr_exclusiveMinimum (x y : Json) :
    mkErr "%r is less than or equal to the minimum of %r" [x, y] = Err.fresh "exclusiveMinimum" [x, y] := rfl
theorem mkErr_exclusiveMaximum (x y : Json) :
    mkErr "%r is greater than or equal to the maximum of %r" [x, y] = Err.fresh "exclusiveMaximum" [x, y] := rfl
theorem mkErr_minimum (x y : Json) :
    mkErr "%r is less than the minimum of %r" [x, y] = Err.fresh "minimum" [x, y] := rfl
theorem mkErr_maximum (x y : Json) :
    mkErr "%r is greater than the maximum of %r" [x, y] = Err.fresh "maximum" [x, y] := rfl
theorem mkErr_tooShort (x : Json) : mkErr "%r is too short" [x] = Err.fresh "tooShort" [x] := rfl
theorem mkErr_tooLong (x : Json) : mkErr "%r is too long" [x] = Err.fresh "tooLong" [x] := rfl
theorem mkErr_uniqueItems (x : Json) :
    mkErr "%r has non-unique elements" [x] = Err.fresh "uniqueItems" [x] := rfl
theorem mkErr_pattern (x y : Json) : mkErr "%r does not match %r" [x, y] = Err.fresh "pattern" [x, y] := rfl
theorem mkErr_dependency (x y : Json) :
    mkErr "%r is a dependency of %r" [x, y] = Err.fresh "dependency" [x, y] := rfl
theorem mkErr_enum (x y : Json) : mkErr "%r is not one of %r" [x, y] = Err.fresh "enum" [x, y] := rfl
theorem mkErr_required (x : Json) : mkErr "%r is a required property" [x] = Err.fresh "required" [x] := rfl
theorem mkErr_minProperties (x : Json) :
    mkErr "%r does not have enough properties" [x] = Err.fresh "minProperties" [x] := rfl
theorem mkErr_maxProperties (x : Json) :
    mkErr "%r has too many properties" [x] = Err.fresh "maxProperties" [x] := rfl
theorem mkErr_not (x y : Json) : mkErr "%r is not allowed for %r" [x, y] = Err.fresh "not" [x, y] := rfl
theorem mkErr_disallow (x y : Json) : mkErr "%r is disallowed for %r" [x, y] = Err.fresh "disallow" [x, y] := rfl

/-- `is_type` against the four draft classes, in the form the interpreter meets it -/
theorem isType_array (d : Draft) (fc : Option FormatChecker) (x : Json) :
    isType (d.cfg fc) x (.str "array".toList) = .ok x.isArr := NoCrash.isTypeS_array (d := d) (fc := fc) x
theorem isType_object (d : Draft) (fc : Option FormatChecker) (x : Json) :
    isType (d.cfg fc) x (.str "object".toList) = .ok x.isObj := NoCrash.isTypeS_object (d := d) (fc := fc) x
theorem isType_string (d : Draft) (fc : Option FormatChecker) (x : Json) :
    isType (d.cfg fc) x (.str "string".toList) = .ok x.isStr := NoCrash.isTypeS_string (d := d) (fc := fc) x
theorem isType_number (d : Draft) (fc : Option FormatChecker) (x : Json) :
    isType (d.cfg fc) x (.str "number".toList) = .ok x.isNumJ := NoCrash.isTypeS_number (d := d) (fc := fc) x

@[simp] theorem truthy_bool (b : Bool) : truthy (.bool b) = b := rfl

/-- worked example: `minItems` (no hypothesis on the keyword's value is needed: the interpreter's
    `<` and the model's `lenCmp` raise `TypeError` on the same values) -/
theorem tie_minItems (env : Env) (d : Draft) (fc : Option FormatChecker) (rec : Rec) (v inst schema : Json) :
    Fn.run env (d.cfg fc) rec src_minItems v inst schema = kwMinItems (d.cfg fc) v inst := by
  unfold src_minItems Fn.run kwMinItems kwLenBound
  simp only [execList, exec, evalCond, evalEx, lookupVar, List.lookup, evalArgs, Res.bind,
    andThen_nothing, mkErr_tooShort, isType_array, isTypeS, withRes, truthy_bool]
  simp only [String.reduceBEq]
  cases inst <;> simp [Json.isArr, arrLen, pyLen, nothing]
  rename_i xs
  cases v <;> simp [pyCmp, lenCmp, asNum, jnat, numCmp, raiseG, stopG, crashG, boolNum, mkErr_tooShort] <;> rfl

end JS.Tie
