/-
  JS.Proofs.TieC — source-tie theorems for the keyword functions with loops over
  `enumerate` / `zip(enumerate)`, `is_valid` conditions and `descend`:
  items, items_draft3_draft4, contains, not_, if_, disallow_draft3, extends_draft3.
-/
import JS.Proofs.TieBase
namespace JS.Tie
open JS JS.Py JS.Generated.Source

set_option linter.unusedSimpArgs false
set_option linter.style.nameCheck false

/-! ### generator algebra -/

theorem andThen_assoc (a b c : Gen) : andThen (andThen a b) c = andThen a (andThen b c) := by
  funext B st
  unfold andThen
  rcases ha : a B st with ⟨es1, s1, st1⟩
  cases s1 <;> simp only []
  rcases hb : b (budgetSub B es1.length) st1 with ⟨es2, s2, st2⟩
  cases s2 <;> simp only []
  have : budgetSub B (es1 ++ es2).length = budgetSub (budgetSub B es1.length) es2.length := by
    cases B <;> simp [budgetSub, Nat.sub_sub]
  rw [this]
  rcases c (budgetSub (budgetSub B es1.length) es2.length) st2 with ⟨es3, s3, st3⟩
  simp

theorem andThen_stopG (s : Stop) (hs : s ≠ .done) (h : Gen) : andThen (stopG s) h = stopG s := by
  funext B st
  unfold andThen stopG
  cases s <;> simp at hs ⊢

theorem andThen_raiseG (e : Exc) (h : Gen) : andThen (raiseG e) h = raiseG e :=
  andThen_stopG _ (by simp) h

theorem andThen_withRes {α : Type} (r : Res α) (k : α → Gen) (h : Gen) :
    andThen (withRes r k) h = withRes r (fun a => andThen (k a) h) := by
  cases r with
  | ok a => rfl
  | raise e => exact andThen_raiseG e h
  | miss q => exact andThen_stopG _ (by simp) h

theorem andThen_inner (g : Gen) (b' : Option Nat) (k : List Err → Gen) (h : Gen) :
    andThen (inner g b' k) h = inner g b' (fun es => andThen (k es) h) := by
  funext B st
  unfold andThen inner
  rcases hg : g b' st with ⟨es, s, st'⟩
  cases s <;> simp only []

theorem andThen_innerValid (g : Gen) (k : Bool → Gen) (h : Gen) :
    andThen (innerValid g k) h = innerValid g (fun b => andThen (k b) h) := by
  unfold innerValid
  rw [andThen_inner]

/-! ### `for` loops whose body always falls through are `seqG` -/

/-- a `for` over `l.map mk` whose step, under the invariant `P` on the locals, is "run `f a`, then go
    on (with locals that satisfy `P` again)" is `seqG f l` followed by the rest -/
theorem forLoop_map_seqG {α : Type} (P : Locals → Prop)
    (step : List Json → Locals → (Flow → Gen) → Gen) (mk : α → List Json) (f : α → Gen)
    (k : Flow → Gen) (g : Gen)
    (hk : ∀ σ, P σ → k (.next σ) = g)
    (hstep : ∀ a σ k', P σ → ∃ σ', P σ' ∧ step (mk a) σ k' = andThen (f a) (k' (.next σ')))
    (l : List α) : ∀ σ, P σ → forLoop step (l.map mk) σ k = andThen (seqG f l) g := by
  induction l with
  | nil =>
    intro σ hσ
    simp only [List.map_nil, forLoop, seqG, nothing_andThen]
    exact hk σ hσ
  | cons a rest ih =>
    intro σ hσ
    obtain ⟨σ', hσ', hs⟩ := hstep a σ
      (fun fl => match fl with
        | .next σ' => forLoop step (rest.map mk) σ' k
        | .cont σ' => forLoop step (rest.map mk) σ' k
        | .ret => k .ret) hσ
    simp only [List.map_cons, forLoop, seqG]
    refine hs.trans ?_
    simp only []
    rw [andThen_assoc, ih σ' hσ']

/-- `any(validator.is_valid(x, sub) for x in xs)` followed by the error of `contains` -/
theorem anyValidLoop_contains (rec : Rec) (f : Json → Res (Json × Json)) (k : Bool → Gen)
    (sub whole : Json) (hf : ∀ x, f x = .ok (x, sub)) (hk1 : k true = nothing)
    (hk0 : k false = emit [Err.fresh "contains" [whole]]) (xs : List Json) :
    anyValidLoop rec f k xs = containsLoop rec sub whole xs := by
  induction xs with
  | nil => simp only [anyValidLoop, containsLoop, hk0]
  | cons x xs ih => simp only [anyValidLoop, containsLoop, hf, withRes, hk1, ih]

theorem tie_not_ (env : Env) (d : Draft) (fc : Option FormatChecker) (rec : Rec) (v inst schema : Json) :
    Fn.run env (d.cfg fc) rec src_not_ v inst schema = kwNot rec v inst := by
  unfold src_not_ Fn.run kwNot
  simp only [execList, exec, evalCond, evalEx, lookupVar, List.lookup, evalArgs, Res.bind,
    andThen_nothing, withRes]
  simp only [String.reduceBEq, mkErr_not]

theorem tie_contains (env : Env) (d : Draft) (fc : Option FormatChecker) (rec : Rec) (v inst schema : Json) :
    Fn.run env (d.cfg fc) rec src_contains v inst schema = kwContains (d.cfg fc) rec v inst := by
  unfold src_contains Fn.run kwContains gate
  simp only [execList, exec, evalCond, evalEx, lookupVar, List.lookup, evalArgs, Res.bind,
    andThen_nothing, isType_array, withRes, truthy_bool]
  simp only [String.reduceBEq, NoCrash.isTypeS_array]
  cases inst <;> simp [Json.isArr, nothing]
  rename_i xs
  simp only [elemsOf]
  exact anyValidLoop_contains rec _ _ v (.arr xs) (fun _ => rfl) (by simp) (by simp [mkErr_contains]) xs

theorem tie_if_ (env : Env) (d : Draft) (fc : Option FormatChecker) (rec : Rec) (v inst schema : Json)
    (hs : schema.isObj = true) :
    Fn.run env (d.cfg fc) rec src_if_ v inst schema = kwIf rec v inst schema := by
  cases schema <;> simp [Json.isObj] at hs
  rename_i kvs
  unfold src_if_ Fn.run kwIf
  simp only [execList, exec, evalCond, evalEx, lookupVar, List.lookup, evalArgs, Res.bind,
    andThen_nothing, withRes, truthy_bool]
  simp only [String.reduceBEq, pyContains, pyIndex, optPath, evalEx, Res.bind, pathElemOf, Json.get?, skey,
    Json.hasKey]
  congr 1
  funext b
  cases b
  · cases h : Json.lookup "else".toList kvs <;> simp [truthy]
  · cases h : Json.lookup "then".toList kvs <;> simp [truthy]

theorem tie_items (env : Env) (d : Draft) (fc : Option FormatChecker) (rec : Rec) (v inst schema : Json) :
    Fn.run env (d.cfg fc) rec src_items v inst schema = kwItems (d.cfg fc) rec v inst := by
  unfold src_items Fn.run kwItems gate
  simp only [execList, exec, evalCond, evalEx, lookupVar, List.lookup, evalArgs, Res.bind,
    andThen_nothing, isType_array, withRes, truthy_bool, iterItems]
  simp only [String.reduceBEq, NoCrash.isTypeS_array]
  generalize hb : v.isArr = b
  cases inst <;> simp [Json.isArr, nothing]
  rename_i xs
  simp only [elemsOf]
  cases b
  · simp
    refine (forLoop_map_seqG (fun σ => σ.lookup "value" = some v) _ (fun t : Nat × Json => [jnat t.1, t.2])
      (fun t : Nat × Json => descendG (rec t.2 v) (some (PathElem.idx t.1)) none) _ nothing
      ?_ ?_ (enumFrom 0 xs) _ ?_).trans (andThen_nothing _)
    · intro σ _; rfl
    · intro a σ k' hσ
      refine ⟨("x2", a.2) :: ("x1", jnat a.1) :: σ, ?_, ?_⟩
      · simp only [List.lookup]; simp only [String.reduceBEq]; exact hσ
      · simp only [bindPat, List.lookup, optPath, evalEx, lookupVar, Res.bind]
        simp only [String.reduceBEq, hσ, jnat, pathElemOf]
        simp
    · simp only [List.lookup]; simp only [String.reduceBEq]
  · cases v <;> simp [Json.isArr] at hb
    rename_i subs
    simp
    refine (forLoop_map_seqG (fun _ => True) _ (fun t : (Nat × Json) × Json => [jnat t.1.1, t.1.2, t.2])
      (fun t : (Nat × Json) × Json => descendG (rec t.1.2 t.2) (some (PathElem.idx t.1.1)) (some (PathElem.idx t.1.1)))
      _ nothing ?_ ?_ ((enumFrom 0 xs).zip subs) _ trivial).trans (andThen_nothing _)
    · intro σ _; rfl
    · intro a σ k' _
      refine ⟨("x3", a.2) :: ("x2", a.1.2) :: ("x1", jnat a.1.1) :: σ, trivial, ?_⟩
      simp only [bindPat, List.lookup, optPath, evalEx, lookupVar, Res.bind]
      simp only [String.reduceBEq, jnat, pathElemOf]
      simp

theorem tie_items_draft3_draft4 (env : Env) (d : Draft) (fc : Option FormatChecker) (rec : Rec)
    (v inst schema : Json) (hv : v.isStr = false) :
    Fn.run env (d.cfg fc) rec src_items_draft3_draft4 v inst schema = kwItemsDraft3Draft4 (d.cfg fc) rec v inst := by
  unfold src_items_draft3_draft4 Fn.run kwItemsDraft3Draft4 gate
  simp only [execList, exec, evalCond, evalEx, lookupVar, List.lookup, evalArgs, Res.bind,
    andThen_nothing, isType_array, isType_object, withRes, truthy_bool, iterItems]
  simp only [String.reduceBEq, NoCrash.isTypeS_array, NoCrash.isTypeS_object]
  generalize hb : v.isObj = b
  cases inst <;> simp [Json.isArr, nothing]
  rename_i xs
  simp only [elemsOf]
  cases b
  · cases v <;> simp [Json.isObj] at hb <;> simp [Json.isStr] at hv <;> simp [crashG]
    rename_i subs
    refine (forLoop_map_seqG (fun _ => True) _ (fun t : (Nat × Json) × Json => [jnat t.1.1, t.1.2, t.2])
      (fun t : (Nat × Json) × Json => descendG (rec t.1.2 t.2) (some (PathElem.idx t.1.1)) (some (PathElem.idx t.1.1)))
      _ nothing ?_ ?_ ((enumFrom 0 xs).zip subs) _ trivial).trans (andThen_nothing _)
    · intro σ _; rfl
    · intro a σ k' _
      refine ⟨("x3", a.2) :: ("x2", a.1.2) :: ("x1", jnat a.1.1) :: σ, trivial, ?_⟩
      simp only [bindPat, List.lookup, optPath, evalEx, lookupVar, Res.bind]
      simp only [String.reduceBEq, jnat, pathElemOf]
      simp
  · simp
    refine (forLoop_map_seqG (fun σ => σ.lookup "value" = some v) _ (fun t : Nat × Json => [jnat t.1, t.2])
      (fun t : Nat × Json => descendG (rec t.2 v) (some (PathElem.idx t.1)) none) _ nothing
      ?_ ?_ (enumFrom 0 xs) _ ?_).trans (andThen_nothing _)
    · intro σ _; rfl
    · intro a σ k' hσ
      refine ⟨("x2", a.2) :: ("x1", jnat a.1) :: σ, ?_, ?_⟩
      · simp only [List.lookup]; simp only [String.reduceBEq]; exact hσ
      · simp only [bindPat, List.lookup, optPath, evalEx, lookupVar, Res.bind]
        simp only [String.reduceBEq, hσ, jnat, pathElemOf]
        simp
    · simp only [List.lookup]; simp only [String.reduceBEq]

theorem tie_extends_draft3 (env : Env) (d : Draft) (fc : Option FormatChecker) (rec : Rec)
    (v inst schema : Json) (hv : v.isStr = false) :
    Fn.run env (d.cfg fc) rec src_extends_draft3 v inst schema = kwExtendsDraft3 (d.cfg fc) rec v inst := by
  unfold src_extends_draft3 Fn.run kwExtendsDraft3
  simp only [execList, exec, evalCond, evalEx, lookupVar, List.lookup, evalArgs, Res.bind,
    andThen_nothing, isType_object, withRes, truthy_bool, iterItems, optPath]
  simp only [String.reduceBEq, NoCrash.isTypeS_object]
  cases v <;> simp [Json.isStr] at hv <;> simp [Json.isObj, elemsOf, crashG]
  rename_i ss
  refine (forLoop_map_seqG (fun σ => σ.lookup "instance" = some inst) _ (fun t : Nat × Json => [jnat t.1, t.2])
    (fun t : Nat × Json => descendG (rec inst t.2) none (some (PathElem.idx t.1))) _ nothing
    ?_ ?_ (enumFrom 0 ss) _ ?_).trans (andThen_nothing _)
  · intro σ _; rfl
  · intro a σ k' hσ
    refine ⟨("x2", a.2) :: ("x1", jnat a.1) :: σ, ?_, ?_⟩
    · simp only [List.lookup]; simp only [String.reduceBEq]; exact hσ
    · simp only [bindPat, List.lookup, optPath, evalEx, lookupVar, Res.bind]
      simp only [String.reduceBEq, hσ, jnat, pathElemOf]
      simp
  · simp only [List.lookup]; simp only [String.reduceBEq]

theorem tie_disallow_draft3 (env : Env) (d : Draft) (fc : Option FormatChecker) (rec : Rec)
    (v inst schema : Json) :
    Fn.run env (d.cfg fc) rec src_disallow_draft3 v inst schema = kwDisallowDraft3 rec v inst := by
  unfold src_disallow_draft3 Fn.run kwDisallowDraft3
  simp only [execList, exec, evalCond, evalEx, lookupVar, List.lookup, evalArgs, Res.bind,
    andThen_nothing, withRes, truthy_bool, iterItems, optPath]
  simp only [String.reduceBEq, ensureListR]
  cases h : ensureList v <;> simp [crashG]
  rename_i ds
  simp only [elemsOf]
  refine (forLoop_map_seqG (fun σ => σ.lookup "instance" = some inst) _ (fun e : Json => [e])
    (fun e : Json => innerValid (rec inst (Json.obj [(skey "type", Json.arr [e])])) fun ok =>
            if ok = true then emit [Err.fresh "disallow" [e, inst]] else nothing) _ nothing
    ?_ ?_ ds _ ?_).trans (andThen_nothing _)
  · intro σ _; rfl
  · intro a σ k' hσ
    refine ⟨("x1", a) :: σ, ?_, ?_⟩
    · simp only [List.lookup]; simp only [String.reduceBEq]; exact hσ
    · simp only [bindPat, List.lookup, optPath, evalEx, lookupVar, Res.bind]
      simp only [String.reduceBEq, hσ, andThen_innerValid, skey, mkErr_disallow]
      congr 1
      funext b
      cases b <;> simp [nothing_andThen]
  · simp only [List.lookup]; simp only [String.reduceBEq]

/-! ### the hypotheses are needed -/

/-- `if` with an enclosing "schema" that is a list containing "then": Python answers `"then" in schema`
    with `True` and then fails on `schema["then"]`; the model's `get?` answers `none` -/
theorem tie_if__needs_shape :
    ¬ ∀ (env : Env) (d : Draft) (fc : Option FormatChecker) (rec : Rec) (v inst schema : Json),
      Fn.run env (d.cfg fc) rec src_if_ v inst schema = kwIf rec v inst schema := by
  intro h
  have h := h default .d7 none (fun _ _ => nothing) (.bool true) .null (.arr [.str "then".toList])
  unfold src_if_ Fn.run kwIf at h
  simp only [execList, exec, evalCond, evalEx, lookupVar, List.lookup, evalArgs, Res.bind,
    andThen_nothing, withRes, truthy_bool] at h
  simp only [String.reduceBEq, pyContains, pyIndex, optPath, evalEx, Res.bind, pathElemOf, Json.get?, skey,
    Json.hasKey] at h
  have h := congrArg Out.stop (congrFun (congrFun h none) default)
  simp [innerValid, inner, nothing, pyIn, pyEq, truthy, raiseG, stopG] at h

/-- `items` (Draft 3/4) with a string: Python zips the instance with the characters; the model
    says `TypeError` -/
theorem tie_items_draft3_draft4_needs_shape :
    ¬ ∀ (env : Env) (d : Draft) (fc : Option FormatChecker) (rec : Rec) (v inst schema : Json),
      Fn.run env (d.cfg fc) rec src_items_draft3_draft4 v inst schema
        = kwItemsDraft3Draft4 (d.cfg fc) rec v inst := by
  intro h
  have h := h default .d4 none (fun _ _ => nothing) (.str []) (.arr []) .null
  unfold src_items_draft3_draft4 Fn.run kwItemsDraft3Draft4 gate at h
  simp only [execList, exec, evalCond, evalEx, lookupVar, List.lookup, evalArgs, Res.bind,
    andThen_nothing, isType_array, isType_object, withRes, truthy_bool, iterItems] at h
  simp only [String.reduceBEq, NoCrash.isTypeS_array, NoCrash.isTypeS_object] at h
  have h := congrArg Out.stop (congrFun (congrFun h none) default)
  simp [Json.isArr, Json.isObj, elemsOf, enumFrom, forLoop, nothing, crashG, raiseG, stopG] at h

/-- `extends` (Draft 3) with a string: Python enumerates the characters; the model says `TypeError` -/
theorem tie_extends_draft3_needs_shape :
    ¬ ∀ (env : Env) (d : Draft) (fc : Option FormatChecker) (rec : Rec) (v inst schema : Json),
      Fn.run env (d.cfg fc) rec src_extends_draft3 v inst schema
        = kwExtendsDraft3 (d.cfg fc) rec v inst := by
  intro h
  have h := h default .d3 none (fun _ _ => nothing) (.str []) .null .null
  unfold src_extends_draft3 Fn.run kwExtendsDraft3 at h
  simp only [execList, exec, evalCond, evalEx, lookupVar, List.lookup, evalArgs, Res.bind,
    andThen_nothing, isType_object, withRes, truthy_bool, iterItems, optPath] at h
  simp only [String.reduceBEq, NoCrash.isTypeS_object] at h
  have h := congrArg Out.stop (congrFun (congrFun h none) default)
  simp [Json.isObj, elemsOf, enumFrom, forLoop, nothing, crashG, raiseG, stopG] at h

#print axioms tie_items
#print axioms tie_items_draft3_draft4
#print axioms tie_contains
#print axioms tie_not_
#print axioms tie_if_
#print axioms tie_disallow_draft3
#print axioms tie_extends_draft3
#print axioms tie_if__needs_shape
#print axioms tie_items_draft3_draft4_needs_shape
#print axioms tie_extends_draft3_needs_shape

end JS.Tie
