/-
  JS.Proofs.TieCompose — composition of the source-tie theorems (TieA/TieB/TieC/TieD for the first subset,
  Tie2J/Tie2K/Tie2M for the second: anyOf, oneOf, properties_draft3, type_draft3, ref): on every schema of
  the shape the draft's metaschema prescribes, the evaluator over the interpreted source
  (`JS.Py.evalSrc`) and the model's evaluator (`JS.eval`) are the same function.

  * `applyKwSrc_eq_applyKw`: one member of a shaped schema object — the tie theorem of the function
    the key is bound to (regenerated tables, `NoCrash.table_ok`), its shape hypothesis from what
    `Spec.shapedN` demands of the member (`NoCrash.interp`);
  * `evalStepSrc_eq_evalStep_N`: one layer, ANY recursive call;
  * guarded evaluators (`JS.Props.C03.guardRec`): induction on the fuel in JS/Props/Tie.lean;
  * reference-free schemas (`evalSrc_eq_eval_good`): the unguarded evaluators, by a guard that never
    fires (`NoCrash.evalStep_good` with "does not stop with the marker" as the invariant, and
    `NoCrash.closed₂_RU`).
-/
import JS.Proofs.TieA
import JS.Proofs.TieB
import JS.Proofs.TieC
import JS.Proofs.TieD
import JS.Proofs.Tie2J
import JS.Proofs.Tie2K
import JS.Proofs.Tie2M
import JS.Props.C03
namespace JS.Tie
open JS JS.Py JS.Generated.Source JS.NoCrash JS.Spec

/-- first subset: the function has a first-subset body -/
theorem applyKwSrc_body {env : Env} {impl : FmtImpl} {cfg : Cfg} {rec : Rec} {f : KwFn} {src : Fn} {b : List St}
    (h : srcOf f = some src) (hb : src = .body b) (v inst schema : Json) :
    applyKwSrc env impl cfg rec f v inst schema = Fn.run env cfg rec src v inst schema := by
  subst hb
  unfold applyKwSrc
  rw [h]

/-- second subset: no first-subset body, but a second-subset body -/
theorem applyKwSrc_body2 {env : Env} {impl : FmtImpl} {cfg : Cfg} {rec : Rec} {f : KwFn} {src : Fn} {w : String}
    {src2 : Fn2} {b : List St2}
    (h : srcOf f = some src) (hw : src = .unsupported w) (h2 : src2Of f = some src2) (hb : src2 = .body b)
    (v inst schema : Json) :
    applyKwSrc env impl cfg rec f v inst schema = Fn2.run env cfg rec src2 v inst schema := by
  subst hw hb
  unfold applyKwSrc
  rw [h, h2]

/-- neither: untranslatable in both subsets — the hand-written function -/
theorem applyKwSrc_unsupported {env : Env} {impl : FmtImpl} {cfg : Cfg} {rec : Rec} {f : KwFn} {src : Fn} {w : String}
    {src2 : Fn2} {w2 : String}
    (h : srcOf f = some src) (hw : src = .unsupported w) (h2 : src2Of f = some src2) (hw2 : src2 = .unsupported w2)
    (v inst schema : Json) :
    applyKwSrc env impl cfg rec f v inst schema = applyKw env impl cfg rec f v inst schema := by
  subst hw hw2
  unfold applyKwSrc
  rw [h, h2]

/-- neither: no source at all (functions that are not in the source files) -/
theorem applyKwSrc_none {env : Env} {impl : FmtImpl} {cfg : Cfg} {rec : Rec} {f : KwFn}
    (h : srcOf f = none) (h2 : src2Of f = none) (v inst schema : Json) :
    applyKwSrc env impl cfg rec f v inst schema = applyKw env impl cfg rec f v inst schema := by
  unfold applyKwSrc
  rw [h, h2]

/-- a member of a shaped schema object: the interpreted source of the function its key is bound to
    is the model's keyword function (any recursive call) -/
theorem applyKwSrc_eq_applyKw (env : Env) (impl : FmtImpl) (d : Draft) (fc : Option FormatChecker)
    (rec : Rec) {b : Branch} {f : KwFn} {v : Json} {refs : Bool} {n : Nat}
    (hb : NoCrash.expected d f = some b) (hv : interp refs d n b v = true)
    (inst : Json) (kvs : List (Str × Json)) :
    applyKwSrc env impl (d.cfg fc) rec f v inst (.obj kvs) = applyKw env impl (d.cfg fc) rec f v inst (.obj kvs) := by
  cases f <;> simp only [NoCrash.expected] at hb
  case ref =>
    rw [applyKwSrc_body2 (w := _) (b := _) rfl rfl rfl rfl]; exact tie2_ref ..
  case additionalProperties => exact applyKwSrc_unsupported (w := _) (w2 := _) rfl rfl rfl rfl ..
  case multipleOf => exact applyKwSrc_unsupported (w := _) (w2 := _) rfl rfl rfl rfl ..
  case format => exact applyKwSrc_unsupported (w := _) (w2 := _) rfl rfl rfl rfl ..
  case alwaysFail => exact applyKwSrc_none rfl rfl ..
  case never => exact applyKwSrc_none rfl rfl ..
  case foreign => exact applyKwSrc_none rfl rfl ..
  case properties_draft3 =>
    rw [applyKwSrc_body2 (w := _) (b := _) rfl rfl rfl rfl]; exact tie2_properties_draft3 ..
  case type_draft3 =>
    rw [applyKwSrc_body2 (w := _) (b := _) rfl rfl rfl rfl]; exact tie2_type_draft3 ..
  case anyOf =>
    rw [applyKwSrc_body2 (w := _) (b := _) rfl rfl rfl rfl]
    cases hb
    cases v <;> first | cases hv | exact tie2_anyOf _ _ _ _ _ _ _ ⟨_, rfl⟩
  case oneOf =>
    rw [applyKwSrc_body2 (w := _) (b := _) rfl rfl rfl rfl]
    cases hb
    cases v <;> first | cases hv | exact tie2_oneOf _ _ _ _ _ _ _ ⟨_, rfl⟩
  case const => rw [applyKwSrc_body (b := _) rfl rfl]; exact tie_const ..
  case contains => rw [applyKwSrc_body (b := _) rfl rfl]; exact tie_contains ..
  case exclusiveMinimum => rw [applyKwSrc_body (b := _) rfl rfl]; exact tie_exclusiveMinimum ..
  case exclusiveMaximum => rw [applyKwSrc_body (b := _) rfl rfl]; exact tie_exclusiveMaximum ..
  case minimum => rw [applyKwSrc_body (b := _) rfl rfl]; exact tie_minimum ..
  case maximum => rw [applyKwSrc_body (b := _) rfl rfl]; exact tie_maximum ..
  case minItems => rw [applyKwSrc_body (b := _) rfl rfl]; exact tie_minItems ..
  case maxItems => rw [applyKwSrc_body (b := _) rfl rfl]; exact tie_maxItems ..
  case uniqueItems => rw [applyKwSrc_body (b := _) rfl rfl]; exact tie_uniqueItems ..
  case pattern => rw [applyKwSrc_body (b := _) rfl rfl]; exact tie_pattern ..
  case minLength => rw [applyKwSrc_body (b := _) rfl rfl]; exact tie_minLength ..
  case maxLength => rw [applyKwSrc_body (b := _) rfl rfl]; exact tie_maxLength ..
  case dependencies => rw [applyKwSrc_body (b := _) rfl rfl]; exact tie_dependencies ..
  case properties => rw [applyKwSrc_body (b := _) rfl rfl]; exact tie_properties ..
  case minProperties => rw [applyKwSrc_body (b := _) rfl rfl]; exact tie_minProperties ..
  case maxProperties => rw [applyKwSrc_body (b := _) rfl rfl]; exact tie_maxProperties ..
  case not_ => rw [applyKwSrc_body (b := _) rfl rfl]; exact tie_not_ ..
  case items => rw [applyKwSrc_body (b := _) rfl rfl]; exact tie_items ..
  case patternProperties => rw [applyKwSrc_body (b := _) rfl rfl]; exact tie_patternProperties ..
  case propertyNames => rw [applyKwSrc_body (b := _) rfl rfl]; exact tie_propertyNames ..
  case dependencies_draft3 => rw [applyKwSrc_body (b := _) rfl rfl]; exact tie_dependencies_draft3 ..
  case disallow_draft3 => rw [applyKwSrc_body (b := _) rfl rfl]; exact tie_disallow_draft3 ..
  case type => rw [applyKwSrc_body (b := _) rfl rfl]; exact tie_type ..
  case if_ => rw [applyKwSrc_body (b := _) rfl rfl]; exact tie_if_ _ _ _ _ _ _ _ rfl
  case additionalItems =>
    rw [applyKwSrc_body (b := _) rfl rfl]; exact tie_additionalItems _ _ _ _ _ _ _ rfl
  case minimum_draft3_draft4 =>
    rw [applyKwSrc_body (b := _) rfl rfl]; exact tie_minimum_draft3_draft4 _ _ _ _ _ _ _ rfl
  case maximum_draft3_draft4 =>
    rw [applyKwSrc_body (b := _) rfl rfl]; exact tie_maximum_draft3_draft4 _ _ _ _ _ _ _ rfl
  case enum =>
    rw [applyKwSrc_body (b := _) rfl rfl]
    cases hb
    exact tie_enum _ _ _ _ _ _ _ hv
  case required =>
    rw [applyKwSrc_body (b := _) rfl rfl]
    cases hb
    cases v <;> first | cases hv | exact tie_required _ _ _ _ _ _ _ rfl rfl
  case allOf =>
    rw [applyKwSrc_body (b := _) rfl rfl]
    cases hb
    cases v <;> first | cases hv | exact tie_allOf _ _ _ _ _ _ _ rfl rfl
  case extends_draft3 =>
    rw [applyKwSrc_body (b := _) rfl rfl]
    cases hb
    cases v <;> first | cases hv | exact tie_extends_draft3 _ _ _ _ _ _ _ rfl
  case items_draft3_draft4 =>
    rw [applyKwSrc_body (b := _) rfl rfl]
    split at hb <;> try cases hb
    cases v <;> first | cases hv | exact tie_items_draft3_draft4 _ _ _ _ _ _ _ rfl

theorem seqG_congr {α : Type} (f g : α → Gen) : ∀ (xs : List α), (∀ x ∈ xs, f x = g x) → seqG f xs = seqG g xs
  | [], _ => rfl
  | x :: xs, h => by
    unfold seqG
    rw [h x (List.mem_cons_self ..), seqG_congr f g xs (fun y hy => h y (List.mem_cons_of_mem _ hy))]

/-- one layer, at any depth of the shape: whatever the recursive call -/
theorem evalStepSrc_eq_evalStep_N (env : Env) (impl : FmtImpl) (d : Draft) (fc : Option FormatChecker)
    (rec : Rec) (refs : Bool) (n : Nat) (i s : Json) (hs : shapedN refs d (n + 1) s = true) :
    evalStepSrc env impl (d.cfg fc) rec i s = evalStep env impl (d.cfg fc) rec i s := by
  cases s with
  | obj kvs =>
    rw [shapedN_obj, Bool.and_eq_true] at hs
    obtain ⟨_, hbody⟩ := hs
    unfold evalStepSrc evalStep
    dsimp only
    suffices h : schemaBodySrc env impl (d.cfg fc) rec i kvs = schemaBody env impl (d.cfg fc) rec i kvs by
      rw [h]; rfl
    unfold schemaBodySrc schemaBody
    unfold lookupJ at hbody
    cases hl : Json.lookup (skey "$ref") kvs with
    | some r =>
      rw [show ks "$ref" = skey "$ref" from rfl, hl] at hbody
      dsimp only at hbody
      rw [Bool.and_eq_true] at hbody
      obtain ⟨s, rfl⟩ := isStrJ_str hbody.2
      dsimp only
      unfold runKeywordSrc runKeyword
      dsimp only
      rw [ref_bound]
      dsimp only
      rw [applyKwSrc_body2 (f := .ref) (w := _) (b := _) rfl rfl rfl rfl, tie2_ref]
      rfl
    | none =>
      rw [show ks "$ref" = skey "$ref" from rfl, hl] at hbody
      dsimp only at hbody
      have hall := List.all_eq_true.mp hbody
      dsimp only
      apply seqG_congr
      intro kv hkv
      unfold runKeywordSrc runKeyword
      cases hf : lookupS kv.1 (d.cfg fc).keywords with
      | none => rfl
      | some f =>
        dsimp only
        rw [applyKwSrc_eq_applyKw env impl d fc rec (expected_of_lookup hf) (hall kv hkv)]
  | bool b => cases b <;> rfl
  | _ => rfl


/-- on a schema of the prescribed shape (references allowed), one layer of the two evaluators is the
    same generator, whatever the recursive call -/
theorem evalStepSrc_eq_evalStep (env : Env) (impl : FmtImpl) (d : Draft) (fc : Option FormatChecker)
    (rec : Rec) (i s : Json) (hs : Spec.shapedR d s = true) :
    evalStepSrc env impl (d.cfg fc) rec i s = evalStep env impl (d.cfg fc) rec i s :=
  evalStepSrc_eq_evalStep_N env impl d fc rec true s.size i s hs

/-- the two guarded recursive calls are the same function as soon as they agree on shaped schemas -/
theorem guardRec_congr (d : Draft) (r r' : Rec)
    (h : ∀ i s, Spec.shapedR d s = true → r i s = r' i s) :
    Props.C03.guardRec d r = Props.C03.guardRec d r' := by
  funext i s
  unfold Props.C03.guardRec
  split
  · exact h i s ‹_›
  · rfl

/-! ### reference-free schemas: the unguarded evaluators -/

section RefFree
local notation "unshapedTarget" => JS.Props.C03.unshapedTarget

/-- stops other than the marker -/
theorem stops_noMarker (env : Env) (d : Draft) (fcOn : Bool) :
    Stops env d fcOn (· ≠ .raised unshapedTarget) where
  done := nofun
  budget := nofun
  miss := fun _ => nofun
  refRes := by simp [Props.C03.unshapedTarget]
  unknownType := fun _ _ => by simp [Props.C03.unshapedTarget]
  custom := fun _ _ => by simp [Props.C03.unshapedTarget]
  reErr := fun _ _ _ => by simp [Props.C03.unshapedTarget]
  keyErr := .inr (by simp [Props.C03.unshapedTarget])

open Classical in
/-- a guard on reference-free shapes (a proof device: it never fires, `guardF_evalStep`) -/
noncomputable def guardF (d : Draft) (rec : Rec) : Rec :=
  fun i s => if Good false d s then rec i s else raiseG unshapedTarget

theorem guardF_RU (d : Draft) (rec : Rec) (i s : Json) :
    RU unshapedTarget (guardF d rec i s) (rec i s) := by
  intro b st
  unfold guardF
  split
  · exact .inr rfl
  · exact .inl rfl

/-- one layer over a guarded recursive call is one layer over the recursive call, provided the
    recursive call itself never stops with the marker on reference-free shaped schemas -/
theorem guardF_evalStep (env : Env) (impl : FmtImpl) (d : Draft) (fc : Option FormatChecker)
    (rec : Rec) (hrec : ∀ i t, Good false d t → SI (· ≠ .raised unshapedTarget) (guardF d rec i t))
    (m : Nat) (i s : Json) (hm : shapedN false d (m + 1) s = true) :
    evalStep env impl (d.cfg fc) (guardF d rec) i s = evalStep env impl (d.cfg fc) rec i s := by
  funext b st
  have hgood := evalStep_good (fc := fc) (stops_noMarker env d fc.isSome) impl false m (guardF d rec) i s hm
    (fun kvs _ i t ht => hrec i t ht.1) (fun h => nomatch h) b st
  rcases R_evalStep (closed₂_RU env unshapedTarget) impl (d.cfg fc) (guardF_RU d rec) i s b st with h | h
  · exact absurd h hgood
  · exact h

theorem evalSrc_eq_eval_good (env : Env) (impl : FmtImpl) (d : Draft) (fc : Option FormatChecker) :
    ∀ (n : Nat) (i s : Json), Good false d s →
      evalSrc env impl (d.cfg fc) n i s = eval env impl (d.cfg fc) n i s := by
  intro n
  induction n with
  | zero => intro i s _; rfl
  | succ n ih =>
    intro i s ⟨m, hm⟩
    cases m with
    | zero => unfold shapedN at hm; cases hm
    | succ m =>
      show evalStepSrc env impl (d.cfg fc) (evalSrc env impl (d.cfg fc) n) i s
        = evalStep env impl (d.cfg fc) (eval env impl (d.cfg fc) n) i s
      rw [evalStepSrc_eq_evalStep_N env impl d fc _ false m i s hm]
      have hg : guardF d (evalSrc env impl (d.cfg fc) n) = guardF d (eval env impl (d.cfg fc) n) := by
        funext i t
        unfold guardF
        split
        · exact ih i t ‹_›
        · rfl
      have hok : ∀ i t, Good false d t →
          SI (· ≠ .raised unshapedTarget) (guardF d (eval env impl (d.cfg fc) n) i t) := by
        intro i t ht
        unfold guardF
        rw [if_pos ht]
        exact eval_good_reffree (stops_noMarker env d fc.isSome) nofun impl n i t ht
      rw [← guardF_evalStep env impl d fc _ (hg ▸ hok) m i s hm, hg,
        guardF_evalStep env impl d fc _ hok m i s hm]

end RefFree

/-! ### with references: the unguarded evaluators, unless the guard fires -/

/-- the guarded model evaluator simulates the evaluator over the interpreted source -/
theorem evalG_RU_evalSrc (env : Env) (impl : FmtImpl) (d : Draft) (fc : Option FormatChecker) :
    ∀ (n : Nat) (i s : Json), Spec.shapedR d s = true →
      RU Props.C03.unshapedTarget (Props.C03.evalG env impl d fc n i s) (evalSrc env impl (d.cfg fc) n i s) := by
  intro n
  induction n with
  | zero => intro i s _ b st; exact .inr rfl
  | succ n ih =>
    intro i s hs
    show RU _ (evalStep env impl (d.cfg fc) (Props.C03.guardRec d (Props.C03.evalG env impl d fc n)) i s)
      (evalStepSrc env impl (d.cfg fc) (evalSrc env impl (d.cfg fc) n) i s)
    rw [evalStepSrc_eq_evalStep env impl d fc _ i s hs]
    refine R_evalStep (closed₂_RU env Props.C03.unshapedTarget) impl (d.cfg fc) ?_ i s
    intro i t b st
    unfold Props.C03.guardRec
    split
    · exact ih i t ‹_› b st
    · exact .inl rfl

end JS.Tie
