/-
  JS.Proofs.TieD — source-tie theorems for the two keyword functions whose source needs the extended
  subset (`a[n:]`, `enumerate(x, start=n)`, messages built by `_utils.types_msg` / `_utils.extras_msg`):
  type, additionalItems.
-/
import JS.Proofs.TieBase
import JS.Proofs.TieC
namespace JS.Tie
open JS JS.Py JS.Generated.Source

set_option linter.unusedSimpArgs false
set_option linter.style.nameCheck false

/-! the wording of the two helper-built messages is the model's template (closed computations) -/
theorem helperErr_types (x y : Json) : helperErr "types_msg" "" [x, y] = Err.fresh "type" [x, y] := rfl
theorem helperErr_extras (x : Json) :
    helperErr "extras_msg" "Additional items are not allowed (%s %s unexpected)" [x]
      = Err.fresh "addItems" [x] := rfl

/-- `any(validator.is_type(instance, t) for t in ts)`: the interpreter's short-circuiting loop over the
    truth values is the model's `anyType` (same exceptions, same order) -/
theorem anyLoop_isType (cfg : Cfg) (inst : Json) (ts : List Json) :
    anyLoop (fun e => (isType cfg inst e).bind fun b => Res.ok (Json.bool b)) ts = anyType cfg inst ts := by
  induction ts with
  | nil => rfl
  | cons t ts ih =>
    simp only [anyLoop, anyType]
    cases h : isType cfg inst t with
    | ok b =>
      cases b
      · simp only [Res.bind, truthy_bool] at ih ⊢
        simpa using ih
      · simp [Res.bind]
    | raise e => simp [Res.bind]
    | miss q => simp [Res.bind]

theorem tie_type (env : Env) (d : Draft) (fc : Option FormatChecker) (rec : Rec) (v inst schema : Json) :
    Fn.run env (d.cfg fc) rec src_type v inst schema = kwType (d.cfg fc) v inst := by
  unfold src_type Fn.run kwType
  simp only [execList, exec, evalCond, evalEx, lookupVar, List.lookup, evalArgs, Res.bind,
    andThen_nothing, withRes, truthy_bool]
  simp only [String.reduceBEq, ensureListR]
  cases h : ensureList v <;> simp [crashG]
  rename_i ts
  have hl := anyLoop_isType (d.cfg fc) inst ts
  simp only [Res.bind] at hl
  simp only [elemsOf, hl, helperErr_types]
  cases anyType (d.cfg fc) inst ts with
  | ok b => cases b <;> simp
  | raise e => rfl
  | miss q => rfl

/-! ### `additionalItems` -/

theorem seqG_map {α β : Type} (f : β → Gen) (h : α → β) (l : List α) :
    seqG f (l.map h) = seqG (fun a => f (h a)) l := by
  induction l with
  | nil => rfl
  | cons a l ih => simp only [List.map_cons, seqG, ih]

/-- `enumerate(xs, start=n)` is `enumerate(xs)` with `n` added to every index -/
theorem enumFrom_shift {α : Type} (n : Nat) (l : List α) :
    ∀ m, enumFrom (n + m) l = (enumFrom m l).map (fun t => (n + t.1, t.2)) := by
  induction l with
  | nil => intro m; rfl
  | cons a l ih =>
    intro m
    simp only [enumFrom, List.map_cons]
    rw [← ih (m + 1)]
    rfl

theorem Num_lt_int (a b : Int) : Num.lt (.int a) (.int b) = decide (a < b) := by
  simp [Num.lt, Num.scaled, Num.ex, Num.sm]

theorem tie_additionalItems (env : Env) (d : Draft) (fc : Option FormatChecker) (rec : Rec)
    (v inst schema : Json) (hs : schema.isObj = true) :
    Fn.run env (d.cfg fc) rec src_additionalItems v inst schema
      = kwAdditionalItems (d.cfg fc) rec v inst schema := by
  cases schema <;> simp [Json.isObj] at hs
  rename_i kvs
  unfold src_additionalItems Fn.run kwAdditionalItems
  simp only [execList, exec, evalCond, evalEx, lookupVar, List.lookup, evalArgs, Res.bind,
    andThen_nothing, isType_array, isType_object, withRes, truthy_bool, iterItems]
  simp only [String.reduceBEq, NoCrash.isTypeS_array, NoCrash.isTypeS_object, pyGet, Json.get?, skey]
  cases inst <;> simp [Json.isArr, nothing]
  rename_i xs
  cases hl : Json.lookup ['i', 't', 'e', 'm', 's'] kvs with
  | none => simp
  | some items =>
    cases items <;> simp
    rename_i subs
    simp only [pyLen, pySliceFrom, asNum, jnat, elemsOf]
    generalize hb : v.isObj = b
    cases b
    · simp only [pyCmp, asNum, numCmp, Num_lt_int, helperErr_extras]
      by_cases ht : truthy v = false <;> by_cases hlt : subs.length < xs.length <;> simp [ht, hlt]
    · simp
      rw [show subs.length = subs.length + 0 from rfl, enumFrom_shift, seqG_map]
      refine (forLoop_map_seqG (fun σ => σ.lookup "value" = some v) _
        (fun t : Nat × Json => [Json.num (Num.int ((subs.length : Int) + (t.1 : Int))), t.2])
        (fun t : Nat × Json => descendG (rec t.2 v) (some (PathElem.idx (subs.length + t.1))) none) _ nothing
        ?_ ?_ (enumFrom 0 (xs.drop subs.length)) _ ?_).trans (andThen_nothing _)
      · intro σ _; rfl
      · intro a σ k' hσ
        refine ⟨("x3", a.2) :: ("x2", Json.num (Num.int ((subs.length : Int) + (a.1 : Int)))) :: σ, ?_, ?_⟩
        · simp only [List.lookup]; simp only [String.reduceBEq]; exact hσ
        · simp only [bindPat, List.lookup, optPath, evalEx, lookupVar, Res.bind]
          simp only [String.reduceBEq, hσ, pathElemOf]
          have : (0 : Int) ≤ (subs.length : Int) + (a.1 : Int) := by omega
          simp [this]
          rfl
      · simp only [List.lookup]; simp only [String.reduceBEq]

/-! ### the hypothesis is needed -/

/-- `additionalItems` with an enclosing "schema" that is not an object (here `None`) and an array
    instance: Python fails on `schema.get` (`AttributeError`); the model's `get?` answers `none` and the
    function returns. The evaluator only ever passes a schema object (`schemaBody`). -/
theorem tie_additionalItems_needs_shape :
    ¬ ∀ (env : Env) (d : Draft) (fc : Option FormatChecker) (rec : Rec) (v inst schema : Json),
      Fn.run env (d.cfg fc) rec src_additionalItems v inst schema
        = kwAdditionalItems (d.cfg fc) rec v inst schema := by
  intro h
  have h := h default .d7 none (fun _ _ => nothing) (.bool true) (.arr []) .null
  unfold src_additionalItems Fn.run kwAdditionalItems at h
  simp only [execList, exec, evalCond, evalEx, lookupVar, List.lookup, evalArgs, Res.bind,
    andThen_nothing, isType_array, isType_object, withRes, truthy_bool, iterItems] at h
  simp only [String.reduceBEq, NoCrash.isTypeS_array, NoCrash.isTypeS_object, pyGet, Json.get?, skey] at h
  have h := congrArg Out.stop (congrFun (congrFun h none) default)
  simp [Json.isArr, nothing, raiseG, stopG] at h

#print axioms tie_type
#print axioms tie_additionalItems
#print axioms tie_additionalItems_needs_shape

end JS.Tie
