/-
  JS.Proofs.TieMethods — source tie for the two generator METHODS of the validator class:
  the interpreted, regenerated source of `iter_errors` and `descend` (`JS.Py.Method.run` of
  `JS.Generated.MethodSource.src_*`, `JS/Py/Interp3.lean`) equals the hand-written model
  (`JS.evalStep`, `JS.descendG`).
-/
import JS.Proofs.TieBase
import JS.Proofs.Tie2K
import JS.Props.C03
set_option linter.unusedSimpArgs false
namespace JS.Tie
open JS JS.Py JS.Generated.MethodSource
open K

namespace Meth

/-! ### the error body of the keyword loop is `stamp` -/

/-- the statements between `for error in errors:` and `yield error` in `iter_errors` -/
def stampBody : List ErrSt :=
  [.errSet (.e (.var "x4")) (.e (.var "x5")) (.e (.var "p1")) (.e (.var "p2")),
   .ifE (.inStrs true (.var "x4") ["if", "$ref"]) [.schemaPathAppendLeft (.e (.var "x4"))]]

theorem any_if_ref (k : Str) :
    (["if", "$ref"].any fun t => t.toList == k) = decide (k = skey "if" ∨ k = skey "$ref") := by
  simp only [List.any, Bool.or_false, skey]
  by_cases h1 : k = "if".toList
  · subst h1; simp
  · by_cases h2 : k = "$ref".toList
    · subst h2; simp
    · have h1' : ("if".toList == k) = false := by
        simp only [beq_eq_false_iff_ne, ne_eq]; exact fun h => h1 h.symm
      have h2' : ("$ref".toList == k) = false := by
        simp only [beq_eq_false_iff_ne, ne_eq]; exact fun h => h2 h.symm
      rw [h1', h2']
      simp only [h1, h2, or_self, decide_false, Bool.or_false]

theorem compile_stamp (env : Env) (cfg : Cfg) (root : Json) (σ : Locals) (k : Str) (v inst schema : Json)
    (h4 : σ.lookup "x4" = some (.str k)) (h5 : σ.lookup "x5" = some v)
    (h1 : σ.lookup "p1" = some inst) (h2 : σ.lookup "p2" = some schema) :
    compileErrBody env cfg root σ stampBody = .ok (stamp k v inst schema) := by
  unfold stampBody
  simp only [compileErrBody, evalM, evalEx, lookupVar, h4, h5, h1, h2, rb_ok, kwOf, any_if_ref, pathElemOf]
  by_cases h : k = skey "if" ∨ k = skey "$ref"
  · simp only [h, decide_true, bne_self_eq_false, truthy_bool, Bool.false_eq_true, if_false, rb_ok]
    congr 1
    funext e
    simp only [stamp, h, if_true, id]
  · have hb : (false != true) = true := rfl
    simp only [h, decide_false, hb, truthy_bool, if_true, rb_ok]
    congr 1
    funext e
    simp only [stamp, h, if_false, id]

/-! ### the keyword loop is `seqG (runKeyword …)` -/

/-- the body of `for k, v in validators:` -/
def loopBody : List St3 :=
  [.assignKw "x6" (.e (.var "x4")), .ifKwNone "x6" [.cont] [],
   .forErrorsOfKw "x6" (.e (.var "x5")) (.e (.var "p1")) (.e (.var "p2")) stampBody]

/-- one turn of the loop, as `forPairs` runs it -/
def loopStep (env : Env) (impl : FmtImpl) (cfg : Cfg) (rec : Rec) (root : Json) :
    Str × Json → Store3 → (Flow3 → Gen) → Gen :=
  fun kv σ' k' =>
    execList3 env impl cfg rec root loopBody { σ' with js := ("x5", kv.2) :: ("x4", .str kv.1) :: σ'.js } k'

theorem loop_eq (env : Env) (impl : FmtImpl) (cfg : Cfg) (rec : Rec) (root inst schema : Json)
    (k : Flow3 → Gen) (hk : ∀ σ, k (.next σ) = nothing) (kvs : List (Str × Json)) :
    ∀ σ : Store3, σ.js.lookup "p1" = some inst → σ.js.lookup "p2" = some schema →
      forPairsLoop (loopStep env impl cfg rec root) kvs σ k
        = seqG (runKeyword env impl cfg rec inst schema) kvs := by
  induction kvs with
  | nil => intro σ _ _; simp only [forPairsLoop, seqG, hk]
  | cons kv kvs ih =>
    intro σ h1 h2
    simp only [forPairsLoop, seqG, runKeyword]
    unfold loopStep loopBody
    simp only [execList3, exec3, evalM, evalEx, lookupVar, List.lookup, String.reduceBEq, rb_ok, wr_ok, kwLookup]
    cases hf : lookupS kv.1 cfg.keywords with
    | none =>
      simp only [nothing_andThen]
      exact ih _ h1 h2
    | some f =>
      simp only [h1, h2, wr_ok]
      rw [compile_stamp env cfg root _ kv.1 kv.2 inst schema (by simp only [List.lookup, String.reduceBEq])
        (by simp only [List.lookup, String.reduceBEq]) (by simp only [List.lookup, String.reduceBEq]; exact h1)
        (by simp only [List.lookup, String.reduceBEq]; exact h2)]
      simp only [wr_ok]
      congr 1
      exact ih _ h1 h2

/-! ### the guarded block is `schemaBody` -/

/-- the body of the `try:` -/
def tryBody : List St3 :=
  [.assign "x2" (.e (.get (.var "p2") (.str "$ref") (.none_))),
   .ifS (.isConst true (.var "x2") .null)
     [.assignPairs "x3" (.single (.e (.str "$ref")) (.e (.var "x2")))]
     [.assignPairs "x3" (.items (.e (.var "p2")))],
   .forPairs "x4" "x5" "x3" loopBody]

theorem jbeq_null (j : Json) : (j == Json.null) = decide (j = .null) := rfl

theorem tryBody_eq (env : Env) (impl : FmtImpl) (cfg : Cfg) (rec : Rec) (root inst : Json)
    (kvs : List (Str × Json)) (σ : Store3)
    (h1 : σ.js.lookup "p1" = some inst) (h2 : σ.js.lookup "p2" = some (.obj kvs)) :
    execList3 env impl cfg rec root tryBody σ (fun _ => nothing) = schemaBody env impl cfg rec inst kvs := by
  unfold tryBody schemaBody
  simp only [execList3, exec3, evalM, evalEx, lookupVar, List.lookup, String.reduceBEq, rb_ok, wr_ok, h2, pyGet,
    jbeq_null]
  have hkey : "$ref".toList = skey "$ref" := rfl
  rw [hkey]
  cases hr : Json.lookup (skey "$ref") kvs with
  | none =>
    simp only [Option.getD, decide_true, bne_self_eq_false, truthy_bool, Bool.false_eq_true, if_false,
      execList3, exec3, evalPairs, evalM, evalEx, lookupVar, List.lookup, String.reduceBEq, rb_ok, wr_ok, h2]
    exact loop_eq env impl cfg rec root inst (.obj kvs) _ (fun _ => rfl) kvs _
      (by simp only [List.lookup, String.reduceBEq]; exact h1) (by simp only [List.lookup, String.reduceBEq]; exact h2)
  | some r =>
    by_cases hn : r = .null
    · subst hn
      simp only [Option.getD, decide_true, bne_self_eq_false, truthy_bool, Bool.false_eq_true, if_false,
        execList3, exec3, evalPairs, evalM, evalEx, lookupVar, List.lookup, String.reduceBEq, rb_ok, wr_ok, h2]
      exact loop_eq env impl cfg rec root inst (.obj kvs) _ (fun _ => rfl) kvs _
        (by simp only [List.lookup, String.reduceBEq]; exact h1) (by simp only [List.lookup, String.reduceBEq]; exact h2)
    · have hb : (false != true) = true := rfl
      simp only [Option.getD, hn, decide_false, hb, truthy_bool, if_true,
        execList3, exec3, evalPairs, evalM, evalEx, lookupVar, List.lookup, String.reduceBEq, rb_ok, wr_ok, h2]
      have hseq : runKeyword env impl cfg rec inst (.obj kvs) (skey "$ref", r)
          = seqG (runKeyword env impl cfg rec inst (.obj kvs)) [(skey "$ref", r)] := by
        simp only [seqG, andThen_nothing]
      rw [hseq]
      exact loop_eq env impl cfg rec root inst (.obj kvs) _ (fun _ => rfl) [(skey "$ref", r)] _
        (by simp only [List.lookup, String.reduceBEq]; exact h1) (by simp only [List.lookup, String.reduceBEq]; exact h2)

/-! ### everything after `if _schema is None: _schema = self.schema` is `evalStep` -/

/-- `scope = id_of(_schema)`, the conditional push, the guarded block -/
def scopeStmts : List St3 :=
  [.assign "x1" (.idOf (.var "p2")),
   .ifS (.e (.var "x1")) [.pushScope (.e (.var "x1"))] [],
   .tryFinallyPopIf (.e (.var "x1")) tryBody]

def tailStmts : List St3 :=
  .ifS (.isConst false (.var "p2") (.bool true)) [.ret]
     [.ifS (.isConst false (.var "p2") (.bool false))
        [.yieldErrorWith "False schema does not allow %r" [.e (.var "p1")] (.e (.none_)) (.e (.none_))
           (.e (.var "p1")) (.e (.var "p2")), .ret] []] :: scopeStmts

theorem src_iter_errors_eq : src_iter_errors =
    .body ["p1", "p2"] (.ifS (.isConst false (.var "p2") .null) [.assign "p2" (.selfSchema)] [] :: tailStmts) := rfl

theorem jbeq_true (j : Json) : (j == Json.bool true) = decide (j = .bool true) := rfl
theorem jbeq_false (j : Json) : (j == Json.bool false) = decide (j = .bool false) := rfl

theorem mkErr_false (x : Json) : mkErr "False schema does not allow %r" [x] = Err.fresh "false" [x] := rfl

theorem popAfterIf_false (g : Gen) : popAfterIf false g = g := by
  funext b st
  unfold popAfterIf
  rcases g b st with ⟨es, s, st'⟩
  rfl

/-- `push_scope(scope)` followed by the `try … finally: pop_scope()` is the model's `withScope` -/
theorem push_popAfterIf (env : Env) (scope : Str) (g : Gen) (b : Option Nat) (st : RState) :
    (match env.urljoin st.top scope with
      | none => (⟨[], .miss (.urljoin st.top scope), st⟩ : Out)
      | some u => popAfterIf true g b { st with scopes := u :: st.scopes }) = withScope env scope g b st := by
  unfold withScope popAfterIf
  cases env.urljoin st.top scope <;> rfl

theorem tryBody_eq' (env : Env) (impl : FmtImpl) (cfg : Cfg) (rec : Rec) (root inst : Json)
    (kvs : List (Str × Json)) (σ : Store3)
    (h1 : σ.js.lookup "p1" = some inst) (h2 : σ.js.lookup "p2" = some (.obj kvs)) (v : Json) :
    execList3 env impl cfg rec root tryBody { js := ("x1", v) :: σ.js, pairs := σ.pairs, kws := σ.kws }
      (fun _ => nothing) = schemaBody env impl cfg rec inst kvs :=
  tryBody_eq env impl cfg rec root inst kvs _
    (by simp only [List.lookup, String.reduceBEq]; exact h1) (by simp only [List.lookup, String.reduceBEq]; exact h2)

theorem scope_eq (env : Env) (impl : FmtImpl) (cfg : Cfg) (rec : Rec) (root inst schema : Json) (σ : Store3)
    (h1 : σ.js.lookup "p1" = some inst) (h2 : σ.js.lookup "p2" = some schema) (hs : schema ≠ .null)
    (hb : ∀ b, schema ≠ .bool b) :
    execList3 env impl cfg rec root scopeStmts σ (fun _ => nothing) = evalStep env impl cfg rec inst schema := by
  unfold scopeStmts
  cases schema with
  | null => exact absurd rfl hs
  | bool b => exact absurd rfl (hb b)
  | num n =>
    simp only [execList3, exec3, evalM, evalEx, lookupVar, h2, rb_ok, idOfJ, wr_raise, evalStep]
    rfl
  | str s =>
    simp only [execList3, exec3, evalM, evalEx, lookupVar, h2, rb_ok, idOfJ, wr_raise, evalStep]
    rfl
  | arr xs =>
    simp only [execList3, exec3, evalM, evalEx, lookupVar, h2, rb_ok, idOfJ, wr_raise, evalStep]
    rfl
  | obj kvs =>
    simp only [execList3, exec3, evalM, evalEx, lookupVar, h2, rb_ok, idOfJ, wr_ok, evalStep, scopeOf,
      List.lookup, String.reduceBEq, beq_self_eq_true]
    simp only [andThen_nothing, tryBody_eq' env impl cfg rec root inst kvs σ h1 h2]
    cases hk : Json.hasKey (skey "$ref") kvs with
    | true =>
      simp only [if_true, wr_ok, truthy, List.isEmpty_nil, Bool.not_true, Bool.false_eq_true, if_false,
        popAfterIf_false, withScopeOpt]
    | false =>
      simp only [Bool.false_eq_true, if_false, wr_ok]
      cases hi : Json.lookup cfg.idKey kvs with
      | none =>
        simp only [Option.getD, truthy, List.isEmpty_nil, Bool.not_true, Bool.false_eq_true, if_false,
          popAfterIf_false, withScopeOpt]
      | some j =>
        simp only [Option.getD]
        cases j with
        | str s =>
          cases s with
          | nil =>
            simp only [truthy, List.isEmpty_nil, Bool.not_true, Bool.false_eq_true, if_false,
              popAfterIf_false, withScopeOpt, if_true]
          | cons c cs =>
            simp only [truthy, List.isEmpty_cons, Bool.not_false, if_true, Bool.false_eq_true, if_false,
              withScopeOpt]
            funext b st
            exact push_popAfterIf env (c :: cs) _ b st
        | null => simp only [truthy, Bool.false_eq_true, if_false, popAfterIf_false, withScopeOpt]
        | bool t =>
          cases t <;> simp only [truthy, Bool.false_eq_true, if_false, if_true, popAfterIf_false, withScopeOpt]
        | num n =>
          cases hn : (!n.isZero) <;>
            simp only [truthy, hn, Bool.false_eq_true, if_false, if_true, popAfterIf_false, withScopeOpt]
        | arr xs =>
          cases hn : (!xs.isEmpty) <;>
            simp only [truthy, hn, Bool.false_eq_true, if_false, if_true, popAfterIf_false, withScopeOpt]
        | obj xs =>
          cases hn : (!xs.isEmpty) <;>
            simp only [truthy, hn, Bool.false_eq_true, if_false, if_true, popAfterIf_false, withScopeOpt]

theorem tail_eq (env : Env) (impl : FmtImpl) (cfg : Cfg) (rec : Rec) (root inst schema : Json) (σ : Store3)
    (h1 : σ.js.lookup "p1" = some inst) (h2 : σ.js.lookup "p2" = some schema) (hs : schema ≠ .null) :
    execList3 env impl cfg rec root tailStmts σ (fun _ => nothing) = evalStep env impl cfg rec inst schema := by
  by_cases hb : ∀ b, schema ≠ .bool b
  · rw [← scope_eq env impl cfg rec root inst schema σ h1 h2 hs hb]
    unfold tailStmts
    have e1 : decide (schema = .bool true) = false := decide_eq_false (hb true)
    have e2 : decide (schema = .bool false) = false := decide_eq_false (hb false)
    simp only [execList3, exec3, evalM, evalEx, lookupVar, h2, rb_ok, wr_ok, jbeq_true, jbeq_false, e1, e2,
      bne_self_eq_false, truthy_bool, Bool.false_eq_true, if_false]
  · unfold tailStmts
    have : schema = .bool true ∨ schema = .bool false := by
      cases schema with
      | bool b => cases b <;> simp
      | _ => exact absurd (fun b => by simp) hb
    rcases this with rfl | rfl
    · simp only [execList3, exec3, evalM, evalEx, lookupVar, h2, rb_ok, wr_ok, jbeq_true,
        decide_true, bne, truthy_bool, evalStep]
      rfl
    · simp only [execList3, exec3, evalM, evalMs, evalEx, lookupVar, h1, h2, rb_ok, wr_ok, jbeq_true, jbeq_false,
        reduceCtorEq, decide_false, decide_true, bne, truthy_bool, kwOf, mkErr_false, evalStep]
      simp only [andThen_nothing]
      rfl

end Meth
open Meth

/-- **`iter_errors`**: the interpreted source of the method is one layer of the model's evaluator, for every
    class, every recursive callee, every instance and every schema except `None` -/
theorem tie_iter_errors (env : Env) (impl : FmtImpl) (cfg : Cfg) (rec : Rec) (root inst schema : Json)
    (hs : schema ≠ .null) :
    Method.run env impl cfg rec root src_iter_errors [inst, schema] = evalStep env impl cfg rec inst schema := by
  rw [src_iter_errors_eq]
  unfold Method.run
  have e0 : decide (schema = .null) = false := decide_eq_false hs
  simp only [List.length_cons, List.length_nil, if_true, List.zip_cons_cons, List.zip_nil_right, List.reverse_cons,
    List.reverse_nil, List.nil_append, List.cons_append, execList3, exec3, evalM, evalEx, lookupVar, List.lookup,
    String.reduceBEq, rb_ok, wr_ok, jbeq_null, e0, bne_self_eq_false, truthy_bool, Bool.false_eq_true, if_false]
  exact tail_eq env impl cfg rec root inst schema _ (by simp only [List.lookup, String.reduceBEq])
    (by simp only [List.lookup, String.reduceBEq]) hs

/-- `_schema=None` stands for `self.schema`: the call is the call on the validator's own schema … -/
theorem tie_iter_errors_null (env : Env) (impl : FmtImpl) (cfg : Cfg) (rec : Rec) (root inst : Json) :
    Method.run env impl cfg rec root src_iter_errors [inst, .null]
      = Method.run env impl cfg rec root src_iter_errors [inst, root] := by
  by_cases hr : root = .null
  · rw [hr]
  · rw [tie_iter_errors env impl cfg rec root inst root hr, src_iter_errors_eq]
    unfold Method.run
    have hb : (false != true) = true := rfl
    simp only [List.length_cons, List.length_nil, if_true, List.zip_cons_cons, List.zip_nil_right, List.reverse_cons,
      List.reverse_nil, List.nil_append, List.cons_append, execList3, exec3, evalM, evalEx, lookupVar, List.lookup,
      String.reduceBEq, rb_ok, wr_ok, jbeq_null, decide_true, bne, truthy_bool, if_true]
    exact tail_eq env impl cfg rec root inst root _ (by simp only [List.lookup, String.reduceBEq])
      (by simp only [List.lookup, String.reduceBEq]) hr

/-- … hence one layer of the model on `self.schema`, unless that is `None` too -/
theorem tie_iter_errors_default (env : Env) (impl : FmtImpl) (cfg : Cfg) (rec : Rec) (root inst : Json)
    (hr : root ≠ .null) :
    Method.run env impl cfg rec root src_iter_errors [inst, .null] = evalStep env impl cfg rec inst root := by
  rw [tie_iter_errors_null, tie_iter_errors env impl cfg rec root inst root hr]

/-- a validator whose own schema is `None`: `id_of(None)` raises `TypeError` (`"$ref" in None`) -/
theorem tie_iter_errors_null_root (env : Env) (impl : FmtImpl) (cfg : Cfg) (rec : Rec) (inst : Json) :
    Method.run env impl cfg rec .null src_iter_errors [inst, .null] = crashG "TypeError" := by
  rw [src_iter_errors_eq]
  unfold Method.run tailStmts scopeStmts
  simp only [List.length_cons, List.length_nil, if_true, List.zip_cons_cons, List.zip_nil_right, List.reverse_cons,
    List.reverse_nil, List.nil_append, List.cons_append, execList3, exec3, evalM, evalEx, lookupVar, List.lookup,
    String.reduceBEq, rb_ok, wr_ok, jbeq_null, jbeq_true, jbeq_false, decide_true, reduceCtorEq, decide_false, bne,
    truthy_bool, if_true, idOfJ, wr_raise]
  rfl

/-! ### `descend` -/

/-- a value passed as `path=` / `schema_path=` and the path element it stands for: `None` (nothing is
    prepended), a string (a property name or keyword), a non-negative integer (an index) -/
inductive PathRep : Json → Option PathElem → Prop
  | null : PathRep .null none
  | key (s : Str) : PathRep (.str s) (some (.key s))
  | idx (n : Nat) : PathRep (.num (.int n)) (some (.idx n))

theorem pathElemOf_nat (n : Nat) : pathElemOf (.num (.int n)) = .ok (.idx n) := by
  simp [pathElemOf]

theorem tie_descend_rep (env : Env) (impl : FmtImpl) (cfg : Cfg) (rec : Rec) (root i s p sp : Json)
    (op osp : Option PathElem) (hp : PathRep p op) (hsp : PathRep sp osp) :
    Method.run env impl cfg rec root src_descend [i, s, p, sp] = descendG (rec i s) op osp := by
  unfold src_descend Method.run
  have hb : (false != true) = true := rfl
  simp only [List.length_cons, List.length_nil, if_true, List.zip_cons_cons, List.zip_nil_right, List.reverse_cons,
    List.reverse_nil, List.nil_append, List.cons_append, execList3, exec3, evalM, evalEx, lookupVar, List.lookup,
    String.reduceBEq, rb_ok, wr_ok, jbeq_null, compileErrBody, andThen_nothing]
  cases hp <;> cases hsp <;>
    simp only [reduceCtorEq, decide_false, decide_true, hb, bne_self_eq_false, truthy_bool, Bool.false_eq_true,
      if_false, if_true, rb_ok, wr_ok, pathElemOf, pathElemOf_nat, descendG, id] <;> rfl

/-! ### whole evaluations: every layer the interpreted method -/

theorem evalMeth_succ (env : Env) (impl : FmtImpl) (cfg : Cfg) (root : Json) (n : Nat) (inst schema : Json)
    (hs : schema ≠ .null) :
    evalMeth env impl cfg root (n + 1) inst schema
      = evalStep env impl cfg (evalMeth env impl cfg root n) inst schema :=
  tie_iter_errors env impl cfg (evalMeth env impl cfg root n) root inst schema hs

theorem evalMeth_succ_null (env : Env) (impl : FmtImpl) (cfg : Cfg) (root : Json) (n : Nat) (inst : Json)
    (hr : root ≠ .null) :
    evalMeth env impl cfg root (n + 1) inst .null
      = evalStep env impl cfg (evalMeth env impl cfg root n) inst root :=
  tie_iter_errors_default env impl cfg (evalMeth env impl cfg root n) root inst hr

/-- `None` is not a shaped schema -/
theorem shapedR_ne_null (d : Draft) (s : Json) (h : Spec.shapedR d s = true) : s ≠ .null := by
  intro hn
  subst hn
  revert h
  cases d <;> decide

/-- the two guarded recursive calls are the same function as soon as they agree on shaped schemas -/
theorem guardRec_congr_shaped (d : Draft) (r r' : Rec)
    (h : ∀ i s, Spec.shapedR d s = true → r i s = r' i s) :
    Props.C03.guardRec d r = Props.C03.guardRec d r' := by
  funext i s
  unfold Props.C03.guardRec
  by_cases hs : Spec.shapedR d s = true
  · simp only [hs, if_true]; exact h i s hs
  · simp only [hs, Bool.false_eq_true, if_false]

end JS.Tie
