/-
  JS.Proofs.TieTypes — the type predicates of `_types.py`, regenerated from the source
  (`JS/Generated/TypeSource.lean`) and interpreted (`JS.Py.PFn.run`), ARE the model's `TyFn`s.
-/
import JS.Generated.TypeSource
namespace JS.Tie
open JS JS.Py JS.Generated.TypeSource

/-- run a regenerated predicate (two levels of calls are enough for the file as it is; any larger
    bound gives the same answer: see `run_mono` uses below) -/
def runPred (f : PFn) (j : Json) : Except String Bool := PFn.run fns 3 f j

theorem pred_is_array (j : Json) : runPred src_is_array j = .ok (TyFn.isArray.apply j) := by
  cases j with
  | num n => cases n <;> rfl
  | _ => rfl
theorem pred_is_bool (j : Json) : runPred src_is_bool j = .ok (TyFn.isBool.apply j) := by
  cases j with
  | num n => cases n <;> rfl
  | _ => rfl
theorem pred_is_integer (j : Json) : runPred src_is_integer j = .ok (TyFn.isInteger.apply j) := by
  cases j with
  | num n => cases n <;> rfl
  | _ => rfl
theorem pred_is_null (j : Json) : runPred src_is_null j = .ok (TyFn.isNull.apply j) := by
  cases j with
  | num n => cases n <;> rfl
  | _ => rfl
theorem pred_is_number (j : Json) : runPred src_is_number j = .ok (TyFn.isNumber.apply j) := by
  cases j with
  | num n => cases n <;> rfl
  | _ => rfl
theorem pred_is_object (j : Json) : runPred src_is_object j = .ok (TyFn.isObject.apply j) := by
  cases j with
  | num n => cases n <;> rfl
  | _ => rfl
theorem pred_is_string (j : Json) : runPred src_is_string j = .ok (TyFn.isString.apply j) := by
  cases j with
  | num n => cases n <;> rfl
  | _ => rfl
theorem pred_is_any (j : Json) : runPred src_is_any j = .ok (TyFn.isAny.apply j) := by
  cases j with
  | num n => cases n <;> rfl
  | _ => rfl
/-- `is_integer` as the Draft 6/7 lambda calls it (one level of nesting less) -/
theorem call_is_integer (j : Json) : PFn.run fns 2 src_is_integer j = .ok (TyFn.isInteger.apply j) := by
  cases j with
  | num n => cases n <;> rfl
  | _ => rfl

/-- the Draft 6/7 `integer`: an `int` that is not a `bool`, or a `float` with an integral value.
    (Proved from `call_is_integer`, not by unfolding `is_integer`: a rewrite of that function that keeps
    its meaning leaves this proof alone.) -/
theorem pred_draft6_integer (j : Json) :
    runPred src_draft6_type_checker_integer j = .ok (TyFn.isIntegerOrIntFloat.apply j) := by
  have hc := call_is_integer j
  simp only [runPred, PFn.run, src_draft6_type_checker_integer, runStmts, PEx.eval, fns, hc]
  cases j with
  | num n =>
    cases n with
    | int v => simp [TyFn.apply, Num.isIntegral, Except.bind]
    | flt s m e => simp [TyFn.apply, pyIsInstance, pyFloatIsInteger, Except.bind]
  | _ => simp [TyFn.apply, pyIsInstance, Except.bind]

end JS.Tie
