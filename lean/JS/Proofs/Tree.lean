/- Helper lemmas for C17 (ErrorTree): representation invariant of `Tree.insert`/`Tree.build`. -/
import JS.Errors
namespace JS
namespace Tree

/-! ### association-list primitives -/

/-- dictionary lookup in a node's `errors` (same recursion as `JS.Props.C17.lookupErr`) -/
def lookupE (k : Option Str) : List (Option Str × Err) → Option Err
  | [] => none
  | (k', e) :: rest => if k' = k then some e else lookupE k rest

theorem lookupE_setError (k k' : Option Str) (e : Err) (l : List (Option Str × Err)) :
    lookupE k (setError k' e l) = if k' = k then some e else lookupE k l := by
  induction l with
  | nil => simp [setError, lookupE]
  | cons a l ih =>
    obtain ⟨k'', e''⟩ := a
    simp only [setError]
    by_cases h1 : k'' = k'
    · subst h1
      by_cases h2 : k'' = k <;> simp [lookupE, h2]
    · by_cases h2 : k' = k
      · subst h2
        simp [lookupE, h1, ih]
      · simp [lookupE, h1, h2, ih]

theorem length_setError (k : Option Str) (e : Err) (l : List (Option Str × Err)) :
    (setError k e l).length = l.length + if (lookupE k l).isSome then 0 else 1 := by
  induction l with
  | nil => simp [setError, lookupE]
  | cons a l ih =>
    obtain ⟨k'', e''⟩ := a
    by_cases h1 : k'' = k
    · simp [setError, lookupE, h1]
    · simp [setError, lookupE, h1, ih]
      omega

theorem lookupChild_setChild (p q : PathElem) (t : Tree) (ch : List (PathElem × Tree)) :
    lookupChild q (setChild p t ch) = if p = q then some t else lookupChild q ch := by
  induction ch with
  | nil => simp [setChild, lookupChild]
  | cons a ch ih =>
    obtain ⟨r, t'⟩ := a
    simp only [setChild]
    by_cases h1 : r = p
    · subst h1
      by_cases h2 : r = q <;> simp [lookupChild, h2]
    · by_cases h2 : p = q
      · subst h2
        simp [lookupChild, h1, ih]
      · simp [lookupChild, h1, h2, ih]

theorem mem_keys_setChild (p x : PathElem) (t : Tree) (ch : List (PathElem × Tree)) :
    x ∈ (setChild p t ch).map (·.1) ↔ x = p ∨ x ∈ ch.map (·.1) := by
  induction ch with
  | nil => simp [setChild]
  | cons a ch ih =>
    obtain ⟨r, t'⟩ := a
    by_cases h1 : r = p
    · subst h1
      simp [setChild]
    · simp only [setChild, h1, if_false, List.map_cons, List.mem_cons, ih]
      constructor
      · rintro (h | h | h) <;> simp [h]
      · rintro (h | h | h) <;> simp [h]

theorem nodup_keys_setChild (p : PathElem) (t : Tree) (ch : List (PathElem × Tree))
    (h : (ch.map (·.1)).Nodup) : ((setChild p t ch).map (·.1)).Nodup := by
  induction ch with
  | nil => simp [setChild]
  | cons a ch ih =>
    obtain ⟨r, t'⟩ := a
    rw [List.map_cons, List.nodup_cons] at h
    by_cases h1 : r = p
    · subst h1
      simpa [setChild] using h
    · simp only [setChild, h1, if_false, List.map_cons, List.nodup_cons]
      refine ⟨?_, ih h.2⟩
      rw [mem_keys_setChild]
      rintro (h2 | h2)
      · exact h1 h2
      · exact h.1 h2

theorem mem_keys_iff_lookupChild (x : PathElem) (ch : List (PathElem × Tree)) :
    x ∈ ch.map (·.1) ↔ (lookupChild x ch).isSome = true := by
  induction ch with
  | nil => simp [lookupChild]
  | cons a ch ih =>
    obtain ⟨r, t'⟩ := a
    by_cases h1 : r = x
    · simp [lookupChild, h1]
    · have h2 : ¬ x = r := fun h => h1 h.symm
      simp [lookupChild, h1, h2, ih]

@[simp] theorem totalErrors_empty : totalErrors empty = 0 := by
  simp [empty, totalErrors, totalErrorsList]

theorem totalErrorsList_setChild (p : PathElem) (t : Tree) (ch : List (PathElem × Tree)) :
    totalErrorsList (setChild p t ch) + totalErrors ((lookupChild p ch).getD empty)
      = totalErrorsList ch + totalErrors t := by
  induction ch with
  | nil => simp [setChild, lookupChild, totalErrorsList]
  | cons a ch ih =>
    obtain ⟨r, t'⟩ := a
    by_cases h1 : r = p
    · simp [setChild, lookupChild, totalErrorsList, h1]
      omega
    · simp [setChild, lookupChild, totalErrorsList, h1]
      omega

/-! ### the node at a path (an absent node reads as `empty`, like `defaultdict`) -/

def walkD : Tree → List PathElem → Tree
  | t, [] => t
  | t, p :: ps => walkD ((lookupChild p t.children).getD empty) ps

@[simp] theorem walkD_nil (t : Tree) : walkD t [] = t := rfl

theorem walkD_cons (t : Tree) (x : PathElem) (ps : List PathElem) :
    walkD t (x :: ps) = walkD ((lookupChild x t.children).getD empty) ps := rfl

@[simp] theorem walkD_empty (p : List PathElem) : walkD empty p = empty := by
  induction p with
  | nil => rfl
  | cons x ps ih => simpa [walkD_cons, empty, children, lookupChild] using ih

theorem walk_eq_some_walkD {t : Tree} {p : List PathElem} {n : Tree}
    (h : walk t p = some n) : walkD t p = n := by
  induction p generalizing t with
  | nil => simpa [walk] using h
  | cons x ps ih =>
    rw [walk] at h
    rw [walkD_cons]
    split at h
    · next c hc => rw [hc]; exact ih h
    · cases h

theorem walk_empty_isSome (p : List PathElem) : (walk empty p).isSome = decide (p = []) := by
  cases p <;> simp [walk, empty, children, lookupChild]

theorem walk_append (t : Tree) (p q : List PathElem) :
    walk t (p ++ q) = (walk t p).bind (fun n => walk n q) := by
  induction p generalizing t with
  | nil => simp [walk]
  | cons x ps ih =>
    simp only [List.cons_append, walk]
    split
    · exact ih _
    · rfl

/-! ### one insertion -/

theorem walk_insert_isSome (e : Err) (i : Option Json) (path : List PathElem) (t : Tree)
    (p : List PathElem) :
    (walk (insert e i path t) p).isSome = ((walk t p).isSome || decide (p <+: path)) := by
  induction path generalizing t p with
  | nil =>
    obtain ⟨errs, ch, j⟩ := t
    cases p with
    | nil => simp [walk]
    | cons x ps => simp [insert, walk, children]
  | cons y path ih =>
    obtain ⟨errs, ch, j⟩ := t
    cases p with
    | nil => simp [walk]
    | cons x ps =>
      simp only [insert, walk, children, lookupChild_setChild]
      by_cases hxy : y = x
      · subst hxy
        simp only [if_true, ih]
        cases hl : lookupChild y ch with
        | some c => simp [List.cons_prefix_cons]
        | none =>
          simp only [Option.getD_none, walk_empty_isSome, List.cons_prefix_cons, true_and,
            Option.isSome_none, Bool.false_or]
          by_cases hps : ps = []
          · subst hps; simp
          · simp [hps]
      · have hxy' : ¬ x = y := fun h => hxy h.symm
        simp [hxy, hxy', List.cons_prefix_cons]

theorem walkD_insert_errors (e : Err) (i : Option Json) (path : List PathElem) (t : Tree)
    (p : List PathElem) :
    (walkD (insert e i path t) p).errors
      = if p = path then setError e.kw e (walkD t p).errors else (walkD t p).errors := by
  induction path generalizing t p with
  | nil =>
    obtain ⟨errs, ch, j⟩ := t
    cases p with
    | nil => simp [insert, errors]
    | cons x ps => simp [insert, walkD_cons, children]
  | cons y path ih =>
    obtain ⟨errs, ch, j⟩ := t
    cases p with
    | nil => simp [insert, errors]
    | cons x ps =>
      simp only [insert, walkD_cons, children, lookupChild_setChild]
      by_cases hxy : y = x
      · subst hxy
        simp [ih]
      · have hxy' : ¬ x = y := fun h => hxy h.symm
        simp [hxy, hxy']

theorem walkD_insert_inst (e : Err) (i : Option Json) (path : List PathElem) (t : Tree)
    (p : List PathElem) :
    (walkD (insert e i path t) p).inst = if p = path then i else (walkD t p).inst := by
  induction path generalizing t p with
  | nil =>
    obtain ⟨errs, ch, j⟩ := t
    cases p with
    | nil => simp [insert, inst]
    | cons x ps => simp [insert, walkD_cons, children]
  | cons y path ih =>
    obtain ⟨errs, ch, j⟩ := t
    cases p with
    | nil => simp [insert, inst]
    | cons x ps =>
      simp only [insert, walkD_cons, children, lookupChild_setChild]
      by_cases hxy : y = x
      · subst hxy
        simp [ih]
      · have hxy' : ¬ x = y := fun h => hxy h.symm
        simp [hxy, hxy']

theorem walkD_insert_nodup (e : Err) (i : Option Json) (path : List PathElem) (t : Tree)
    (h : ∀ p, (walkD t p).keys.Nodup) (p : List PathElem) :
    (walkD (insert e i path t) p).keys.Nodup := by
  induction path generalizing t p with
  | nil =>
    obtain ⟨errs, ch, j⟩ := t
    cases p with
    | nil => simpa [insert, keys, children] using h []
    | cons x ps => simpa [insert, walkD_cons, children] using h (x :: ps)
  | cons y path ih =>
    obtain ⟨errs, ch, j⟩ := t
    cases p with
    | nil =>
      simp only [insert, walkD_nil, keys, children]
      exact nodup_keys_setChild _ _ _ (by simpa [keys, children] using h [])
    | cons x ps =>
      simp only [insert, walkD_cons, children, lookupChild_setChild]
      by_cases hxy : y = x
      · subst hxy
        simp only [if_true, Option.getD_some]
        exact ih _ (fun q => by simpa [walkD_cons, children] using h (y :: q)) ps
      · simpa [hxy, walkD_cons, children] using h (x :: ps)

theorem totalErrors_insert (e : Err) (i : Option Json) (path : List PathElem) (t : Tree) :
    totalErrors (insert e i path t)
      = totalErrors t + if (lookupE e.kw (walkD t path).errors).isSome then 0 else 1 := by
  induction path generalizing t with
  | nil =>
    obtain ⟨errs, ch, j⟩ := t
    simp only [insert, totalErrors, length_setError, walkD_nil, errors]
    by_cases hs : (lookupE e.kw errs).isSome = true <;> simp [hs] <;> omega
  | cons y path ih =>
    obtain ⟨errs, ch, j⟩ := t
    simp only [insert, totalErrors, walkD_cons, children]
    have h1 := totalErrorsList_setChild y (insert e i path ((lookupChild y ch).getD empty)) ch
    have h2 := ih ((lookupChild y ch).getD empty)
    by_cases hs : (lookupE e.kw (((lookupChild y ch).getD empty).walkD path).errors).isSome = true <;>
      simp [hs] at h2 ⊢ <;> omega

/-! ### the whole tree -/

theorem rev_ind {α : Type _} {motive : List α → Prop} (nil : motive [])
    (append_singleton : ∀ l a, motive l → motive (l ++ [a])) (l : List α) : motive l := by
  have h : ∀ r : List α, motive r.reverse := by
    intro r
    induction r with
    | nil => exact nil
    | cons a r ih => simpa using append_singleton _ a ih
  simpa using h l.reverse

theorem build_nil : build [] = empty := rfl

theorem build_append_singleton (es : List Err) (e : Err) :
    build (es ++ [e]) = insert e (e.info.map (·.inst)) e.path (build es) := by
  simp [build, List.foldl_append]

theorem walk_build_isSome_iff (es : List Err) (p : List PathElem) :
    (walk (build es) p).isSome = true ↔ p = [] ∨ ∃ e ∈ es, p <+: e.path := by
  induction es using rev_ind with
  | nil => simp [build_nil, walk_empty_isSome]
  | append_singleton es e ih =>
    rw [build_append_singleton, walk_insert_isSome, Bool.or_eq_true, ih, decide_eq_true_iff]
    simp only [List.mem_append, List.mem_singleton]
    constructor
    · rintro ((h | ⟨e', he', h⟩) | h)
      · exact Or.inl h
      · exact Or.inr ⟨e', Or.inl he', h⟩
      · exact Or.inr ⟨e, Or.inr rfl, h⟩
    · rintro (h | ⟨e', he' | he', h⟩)
      · exact Or.inl (Or.inl h)
      · exact Or.inl (Or.inr ⟨e', he', h⟩)
      · subst he'; exact Or.inr h

theorem build_errors (es : List Err) (p : List PathElem) (k : Option Str) :
    lookupE k (walkD (build es) p).errors
      = (es.filter (fun e => decide (e.path = p) && decide (e.kw = k))).getLast? := by
  induction es using rev_ind with
  | nil => rw [build_nil, walkD_empty]; simp [empty, errors, lookupE]
  | append_singleton es e ih =>
    rw [build_append_singleton, walkD_insert_errors, List.filter_append]
    by_cases hp : p = e.path
    · subst hp
      simp only [if_true, lookupE_setError, ih]
      by_cases hk : e.kw = k
      · simp [hk]
      · simp [hk]
    · have hp' : ¬ e.path = p := fun h => hp h.symm
      simp [hp, hp', ih]

theorem build_inst (es : List Err) (p : List PathElem) :
    (walkD (build es) p).inst
      = ((es.filter (fun e => decide (e.path = p))).getLast?).bind
          (fun e => e.info.map (·.inst)) := by
  induction es using rev_ind with
  | nil => rw [build_nil, walkD_empty]; simp [empty, inst]
  | append_singleton es e ih =>
    rw [build_append_singleton, walkD_insert_inst, List.filter_append]
    by_cases hp : p = e.path
    · subst hp
      simp
    · have hp' : ¬ e.path = p := fun h => hp h.symm
      simp [hp, hp', ih]

theorem build_nodup (es : List Err) (p : List PathElem) :
    (walkD (build es) p).keys.Nodup := by
  induction es using rev_ind generalizing p with
  | nil => rw [build_nil, walkD_empty]; simp [empty, keys, children]
  | append_singleton es e ih =>
    rw [build_append_singleton]
    exact walkD_insert_nodup _ _ _ _ ih p

/-! ### counting -/

theorem nodup_eraseDups {α : Type _} [BEq α] [LawfulBEq α] (l : List α) : l.eraseDups.Nodup := by
  suffices h : ∀ n, ∀ l : List α, l.length ≤ n → l.eraseDups.Nodup from h _ l (Nat.le_refl _)
  intro n
  induction n with
  | zero =>
    intro l hl
    have : l = [] := List.length_eq_zero_iff.mp (Nat.le_zero.mp hl)
    subst this; simp
  | succ n ih =>
    intro l hl
    cases l with
    | nil => simp
    | cons a as =>
      rw [List.eraseDups_cons, List.nodup_cons]
      refine ⟨by simp, ih _ ?_⟩
      have := List.length_filter_le (fun b => !b == a) as
      simp only [List.length_cons] at hl
      omega

theorem length_eraseDups_perm {α : Type _} [BEq α] [LawfulBEq α] {l l' : List α}
    (h : l.Perm l') : l.eraseDups.length = l'.eraseDups.length := by
  apply List.Perm.length_eq
  rw [List.perm_ext_iff_of_nodup (nodup_eraseDups l) (nodup_eraseDups l')]
  intro a
  simp [h.mem_iff]

theorem build_totalErrors (es : List Err) :
    (build es).totalErrors = ((es.map fun e => (e.path, e.kw)).eraseDups).length := by
  induction es using rev_ind with
  | nil => simp [build_nil]
  | append_singleton es e ih =>
    rw [build_append_singleton, totalErrors_insert, ih, build_errors, List.map_append,
      List.eraseDups_append, List.length_append]
    congr 1
    by_cases hm : (e.path, e.kw) ∈ es.map fun e => (e.path, e.kw)
    · have h1 : List.removeAll [(e.path, e.kw)] (es.map fun e => (e.path, e.kw)) = [] := by
        simpa [List.removeAll] using hm
      rw [List.map_singleton, h1]
      obtain ⟨e', he', heq⟩ := List.mem_map.mp hm
      have : e' ∈ es.filter (fun x => decide (x.path = e.path) && decide (x.kw = e.kw)) := by
        simp only [Prod.mk.injEq] at heq
        simp [List.mem_filter, he', heq.1, heq.2]
      cases hf : es.filter (fun x => decide (x.path = e.path) && decide (x.kw = e.kw)) with
      | nil => rw [hf] at this; cases this
      | cons a l => simp [List.getLast?_cons]
    · have h1 : List.removeAll [(e.path, e.kw)] (es.map fun e => (e.path, e.kw))
          = [(e.path, e.kw)] := by
        simpa [List.removeAll] using hm
      rw [List.map_singleton, h1]
      have hf : es.filter (fun x => decide (x.path = e.path) && decide (x.kw = e.kw)) = [] := by
        rw [List.filter_eq_nil_iff]
        intro x hx hpx
        apply hm
        simp only [Bool.and_eq_true, decide_eq_true_iff] at hpx
        exact List.mem_map.mpr ⟨x, hx, by rw [hpx.1, hpx.2]⟩
      simp [hf, List.eraseDups_cons]

end Tree
end JS
