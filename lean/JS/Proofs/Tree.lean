/- Helper lemmas for C17 (ErrorTree): representation invariant of `Tree.insert`/`Tree.build`. -/
import JS.Errors
namespace JS
end JS
