/- Helper lemmas for C05: sequencing under budget `none`, sibling frames, state independence of reference-free runs. -/
import JS.Proofs.Inert
import JS.Proofs.Store
import JS.Spec.Located
import JS.Spec.Equality
namespace JS

/-! ### sequencing under budget `none` -/

theorem budgetSub_none (n : Nat) : budgetSub none n = none := rfl

theorem andThen_none_done {g h : Gen} {st : RState} (hd : (g none st).stop = .done) :
    andThen g h none st
      = ⟨(g none st).errs ++ (h none (g none st).st).errs, (h none (g none st).st).stop,
         (h none (g none st).st).st⟩ := by
  unfold andThen
  rcases hg : g none st with ⟨es, s, st1⟩
  rw [hg] at hd
  dsimp only at hd
  subst hd
  rfl

theorem andThen_not_done {g h : Gen} {b : Option Nat} {st : RState} (hd : (g b st).stop ≠ .done) :
    andThen g h b st = g b st := by
  unfold andThen
  rcases hg : g b st with ⟨es, s, st1⟩
  rw [hg] at hd
  cases s <;> first | rfl | exact absurd rfl hd

theorem emit_none (es : List Err) (st : RState) : emit es none st = ⟨es, .done, st⟩ := rfl

theorem andThen_emit_none (es : List Err) (h : Gen) (st : RState) :
    andThen (emit es) h none st = ⟨es ++ (h none st).errs, (h none st).stop, (h none st).st⟩ := rfl

theorem seqG_nil {α : Type} (f : α → Gen) : seqG f [] = nothing := rfl
theorem seqG_cons {α : Type} (f : α → Gen) (x : α) (xs : List α) :
    seqG f (x :: xs) = andThen (f x) (seqG f xs) := rfl

/-- the loop over an appended list, as long as the first part finishes normally -/
theorem seqG_append_errs {α : Type} (f : α → Gen) (ys : List α) :
    ∀ (xs : List α) (st : RState), (seqG f xs none st).stop = .done →
      (seqG f (xs ++ ys) none st).errs
        = (seqG f xs none st).errs ++ (seqG f ys none (seqG f xs none st).st).errs
  | [], st, _ => rfl
  | x :: xs, st, h => by
    rw [List.cons_append, seqG_cons, seqG_cons] at *
    by_cases hd : (f x none st).stop = .done
    · rw [andThen_none_done hd] at h ⊢
      rw [andThen_none_done hd]
      dsimp only at h ⊢
      rw [seqG_append_errs f ys xs _ h, List.append_assoc]
    · rw [andThen_not_done hd] at h
      exact absurd h hd

/-- every stage finishes normally and restores the state: the loop yields the concatenation -/
theorem seqG_none_all_done {α : Type} (f : α → Gen) (st : RState) :
    ∀ (l : List α), (∀ x ∈ l, (f x none st).stop = .done ∧ (f x none st).st = st) →
      seqG f l none st = ⟨l.flatMap (fun x => (f x none st).errs), .done, st⟩
  | [], _ => rfl
  | x :: xs, h => by
    obtain ⟨hd, hs⟩ := h x (List.mem_cons_self ..)
    rw [seqG_cons, andThen_none_done hd, hs,
      seqG_none_all_done f st xs (fun y hy => h y (List.mem_cons_of_mem _ hy))]
    rfl

/-- if the loop finishes normally and every stage restores the state, every stage finishes normally -/
theorem seqG_none_done_inv {α : Type} (f : α → Gen) (st : RState) :
    ∀ (l : List α), (∀ x ∈ l, (f x none st).st = st) → (seqG f l none st).stop = .done →
      ∀ x ∈ l, (f x none st).stop = .done
  | [], _, _ => fun _ hx => by cases hx
  | x :: xs, hs, h => by
    rw [seqG_cons] at h
    by_cases hd : (f x none st).stop = .done
    · rw [andThen_none_done hd, hs x (List.mem_cons_self ..)] at h
      dsimp only at h
      intro y hy
      rcases List.mem_cons.mp hy with rfl | hy
      · exact hd
      · exact seqG_none_done_inv f st xs (fun z hz => hs z (List.mem_cons_of_mem _ hz)) h y hy
    · rw [andThen_not_done hd] at h
      exact absurd h hd

/-! ### results of the small combinators -/

theorem mapErrs_errs (f : Err → Err) (g : Gen) (b : Option Nat) (st : RState) :
    (mapErrs f g b st).errs = (g b st).errs.map f := rfl
theorem mapErrs_stop (f : Err → Err) (g : Gen) (b : Option Nat) (st : RState) :
    (mapErrs f g b st).stop = (g b st).stop := rfl
theorem mapErrs_st (f : Err → Err) (g : Gen) (b : Option Nat) (st : RState) :
    (mapErrs f g b st).st = (g b st).st := rfl

theorem isTypeS_of_type {cfg : Cfg} (inst : Json) {name : String} {f : TyFn}
    (h : lookupS (skey name) cfg.types = some f) : isTypeS cfg inst name = .ok (f.apply inst) := by
  show (match lookupS (skey name) cfg.types with
        | some f => Res.ok (f.apply inst)
        | none => Res.raise (.unknownType (.str name.toList))) = _
  rw [h]

theorem gate_of_type {cfg : Cfg} (inst : Json) {name : String} {f : TyFn} (k : Gen)
    (h : lookupS (skey name) cfg.types = some f) :
    gate cfg inst name k = if f.apply inst then k else nothing := by
  unfold gate
  rw [isTypeS_of_type inst h]
  rfl

/-! ### one error per violation -/

/-- the loop shared by `required` and array-form `dependencies`: one error per missing name -/
theorem missing_loop (ikvs : List (Str × Json)) (mk : Json → Err) (st : RState) :
    ∀ rs : List Str,
      seqG (fun (p : Json) => withRes (missingKey ikvs p) fun miss =>
              if miss then emit [mk p] else nothing) (rs.map Json.str) none st
        = ⟨(rs.filter fun r => !Json.hasKey r ikvs).map (fun r => mk (.str r)), .done, st⟩
  | [] => rfl
  | r :: rs => by
    rw [List.map_cons, seqG_cons]
    have hf : (withRes (missingKey ikvs (.str r)) fun miss =>
              if miss then emit [mk (.str r)] else nothing)
        = if (!Json.hasKey r ikvs) = true then emit [mk (.str r)] else nothing := rfl
    rw [hf]
    cases hk : Json.hasKey r ikvs
    · rw [show (if (!false) = true then emit [mk (.str r)] else nothing) = emit [mk (.str r)] from rfl,
        andThen_emit_none, missing_loop ikvs mk st rs]
      simp [hk]
    · rw [show (if (!true) = true then emit [mk (.str r)] else nothing) = nothing from rfl,
        andThen_nothing_left, missing_loop ikvs mk st rs]
      simp [hk]

theorem kwRequired_errs (cfg : Cfg) (hobj : lookupS (skey "object") cfg.types = some .isObject)
    (rs : List Str) (ikvs : List (Str × Json)) (st : RState) :
    kwRequired cfg (.arr (rs.map Json.str)) (.obj ikvs) none st
      = ⟨(rs.filter fun r => !Json.hasKey r ikvs).map (fun r => Err.fresh "required" [.str r]), .done, st⟩ := by
  unfold kwRequired
  rw [gate_of_type _ _ hobj]
  exact missing_loop ikvs (fun p => Err.fresh "required" [p]) st rs

theorem depArray_errs (ikvs : List (Str × Json)) (prop : Str) (ds : List Str) (st : RState) :
    depArray ikvs prop (ds.map Json.str) none st
      = ⟨(ds.filter fun r => !Json.hasKey r ikvs).map (fun r => Err.fresh "dependency" [.str r, .str prop]),
         .done, st⟩ :=
  missing_loop ikvs (fun p => Err.fresh "dependency" [p, .str prop]) st ds

/-- a loop of descents all of which finish normally and restore the state -/
theorem seqG_descend_errs {α : Type} (g : α → Gen) (f : α → Err → Err) (st : RState) (l : List α)
    (hdone : ∀ x ∈ l, (g x none st).stop = .done ∧ (g x none st).st = st) :
    (seqG (fun x => mapErrs (f x) (g x)) l none st).errs
      = l.flatMap fun x => (g x none st).errs.map (f x) := by
  rw [seqG_none_all_done (fun x => mapErrs (f x) (g x)) st l (fun x hx => hdone x hx)]
  rfl

theorem kwItems_errs (cfg : Cfg) (harr : lookupS (skey "array") cfg.types = some .isArray)
    (rec : Rec) (sub : Json) (hsub : sub.isArr = false) (xs : List Json) (st : RState)
    (hdone : ∀ x st, (rec x sub none st).stop = .done ∧ (rec x sub none st).st = st) :
    (kwItems cfg rec sub (.arr xs) none st).errs
      = (enumFrom 0 xs).flatMap fun t => (rec t.2 sub none st).errs.map (·.consPath (.idx t.1)) := by
  unfold kwItems
  rw [gate_of_type _ _ harr, show TyFn.isArray.apply (Json.arr xs) = true from rfl, if_pos rfl]
  dsimp only
  rw [isTypeS_of_type sub harr, show TyFn.isArray.apply sub = sub.isArr from rfl, hsub]
  exact seqG_descend_errs (fun t : Nat × Json => rec t.2 sub) (fun t e => e.consPath (.idx t.1)) st _
    (fun t _ => hdone t.2 st)

theorem kwAllOf_errs (rec : Rec) (ss : List Json) (i : Json) (st : RState)
    (hdone : ∀ s st, (rec i s none st).stop = .done ∧ (rec i s none st).st = st) :
    (kwAllOf rec (.arr ss) i none st).errs
      = (enumFrom 0 ss).flatMap fun t => (rec i t.2 none st).errs.map (·.consSchemaPath (.idx t.1)) :=
  seqG_descend_errs (fun t : Nat × Json => rec i t.2) (fun t e => e.consSchemaPath (.idx t.1)) st _
    (fun t _ => hdone t.2 st)

/-! ### predicates on generators closed under every combinator (the `$ref` function aside) -/

/-- `Closed` of `JS.Proofs.Framework` without the clause for the `$ref` keyword function -/
structure ClosedNR (env : Env) (P : Gen → Prop) : Prop where
  emit : ∀ es, P (emit es)
  nothing : P nothing
  stop : ∀ s, s ≠ .budget → P (stopG s)
  andThen : ∀ {g h : Gen}, P g → P h → P (andThen g h)
  mapErrs : ∀ (f : Err → Err) {g : Gen}, P g → P (mapErrs f g)
  inner : ∀ {g : Gen} (b' : Option Nat) (k : List Err → Gen), P g → (∀ es, P (k es)) → P (inner g b' k)
  withScope : ∀ (scope : Str) {g : Gen}, P g → P (withScope env scope g)

namespace ClosedNR
variable {env : Env} {P : Gen → Prop} (H : ClosedNR env P)
include H

theorem N_emit (es : List Err) : P (JS.emit es) := H.emit es
theorem N_nothing : P JS.nothing := H.nothing
theorem N_stopG_fuel : P (stopG .fuel) := H.stop _ nofun
theorem N_stopG_miss (q : Query) : P (stopG (.miss q)) := H.stop _ nofun
theorem N_raiseG (e : Exc) : P (raiseG e) := H.stop _ nofun
theorem N_crashG (c : String) : P (crashG c) := H.stop _ nofun
theorem N_mapErrs (f : Err → Err) {g : Gen} (hg : P g) : P (JS.mapErrs f g) := H.mapErrs f hg
theorem N_inner {g : Gen} (b' : Option Nat) (k : List Err → Gen) (hg : P g) (hk : ∀ es, P (k es)) :
    P (JS.inner g b' k) := H.inner b' k hg hk

theorem N_seqG {α : Type} (f : α → Gen) (xs : List α) (hf : ∀ x ∈ xs, P (f x)) : P (seqG f xs) := by
  induction xs with
  | nil => exact H.nothing
  | cons x xs ih =>
    exact H.andThen (hf x (List.mem_cons_self ..)) (ih fun y hy => hf y (List.mem_cons_of_mem _ hy))

theorem N_descendG {g : Gen} (p sp : Option PathElem) (hg : P g) : P (descendG g p sp) :=
  H.mapErrs _ hg

theorem N_innerValid {g : Gen} (k : Bool → Gen) (hg : P g) (hk : ∀ v, P (k v)) : P (innerValid g k) :=
  H.inner _ _ hg (fun _ => hk _)

theorem N_withScopeOpt (scope : Option Str) {g : Gen} (hg : P g) : P (withScopeOpt env scope g) := by
  unfold withScopeOpt
  cases scope with
  | none => exact hg
  | some s => exact H.withScope s hg

theorem N_withRes {α : Type} (r : Res α) (k : α → Gen) (hk : ∀ a, P (k a)) : P (withRes r k) := by
  unfold withRes
  cases r with
  | ok a => exact hk a
  | raise e => exact H.stop _ nofun
  | miss q => exact H.stop _ nofun

theorem N_gate (cfg : Cfg) (inst : Json) (name : String) {k : Gen} (hk : P k) : P (gate cfg inst name k) := by
  unfold gate
  apply N_withRes H
  intro ok
  split
  · exact hk
  · exact H.nothing

end ClosedNR

/-! ### members of a reference-free document are reference-free -/

open Spec in
theorem noRef_obj_mem {kvs : List (Str × Json)} (h : noRef (.obj kvs) = true) {p : Str × Json}
    (hp : p ∈ kvs) : noRef p.2 = true := by
  rw [noRef] at h
  induction kvs with
  | nil => cases hp
  | cons q rest ih =>
    obtain ⟨k', x'⟩ := q
    simp only [noRef.noRefKvs, Bool.and_eq_true] at h
    rcases List.mem_cons.mp hp with rfl | hp
    · exact h.1.2
    · exact ih h.2 hp

open Spec in
theorem noRef_obj_key {kvs : List (Str × Json)} (h : noRef (.obj kvs) = true) {p : Str × Json}
    (hp : p ∈ kvs) : p.1 ≠ skey "$ref" := by
  rw [noRef] at h
  induction kvs with
  | nil => cases hp
  | cons q rest ih =>
    obtain ⟨k', x'⟩ := q
    simp only [noRef.noRefKvs, Bool.and_eq_true, bne_iff_ne, ne_eq] at h
    rcases List.mem_cons.mp hp with rfl | hp
    · exact h.1.1
    · exact ih h.2 hp

open Spec in
theorem noRef_arr_mem {xs : List Json} (h : noRef (.arr xs) = true) {x : Json}
    (hx : x ∈ xs) : noRef x = true := by
  rw [noRef] at h
  induction xs with
  | nil => cases hx
  | cons y ys ih =>
    simp only [noRef.noRefList, Bool.and_eq_true] at h
    rcases List.mem_cons.mp hx with rfl | hx
    · exact h.1
    · exact ih h.2 hx

theorem lookup_mem' {k : Str} {x : Json} : ∀ {kvs : List (Str × Json)},
    Json.lookup k kvs = some x → (k, x) ∈ kvs
  | [], h => by cases h
  | (k', x') :: rest, h => by
    unfold Json.lookup at h
    split at h
    · rename_i hk; cases h; subst hk; exact List.mem_cons_self ..
    · exact List.mem_cons_of_mem _ (lookup_mem' h)

open Spec in
theorem noRef_get? {s : Json} (h : noRef s = true) {k : Str} {t : Json} (ht : s.get? k = some t) :
    noRef t = true := by
  cases s with
  | obj kvs => exact noRef_obj_mem h (lookup_mem' (show Json.lookup k kvs = some t from ht))
  | _ => cases ht

open Spec in
theorem noRef_synth {d : Json} (h : noRef d = true) : noRef (.obj [(skey "type", .arr [d])]) = true := by
  simp only [noRef, noRef.noRefKvs, noRef.noRefList, h, Bool.and_true]
  decide

open Spec in
theorem noRef_ensureList {v : Json} (h : noRef v = true) {ds : List Json} (hd : ensureList v = some ds)
    {d : Json} (hm : d ∈ ds) : noRef d = true := by
  cases v <;> simp only [ensureList, Option.some.injEq] at hd <;> try cases hd
  · rw [List.mem_singleton.mp hm]
    rfl
  · exact noRef_arr_mem h hm

theorem mem_enumFrom_snd {α : Type} : ∀ (xs : List α) (n : Nat) {p : Nat × α}, p ∈ enumFrom n xs → p.2 ∈ xs
  | [], _, _, h => by cases h
  | x :: xs, n, p, h => by
    rcases List.mem_cons.mp h with rfl | h
    · exact List.mem_cons_self ..
    · exact List.mem_cons_of_mem _ (mem_enumFrom_snd xs (n + 1) h)

theorem mem_zip_snd {α β : Type} {l : List α} {l' : List β} {t : α × β} (h : t ∈ l.zip l') : t.2 ∈ l' :=
  (List.of_mem_zip (a := t.1) (b := t.2) h).2

theorem noRef_lookup_ref {kvs : List (Str × Json)} (hs : Spec.noRef (.obj kvs) = true) :
    Json.lookup (skey "$ref") kvs = none := by
  cases h : Json.lookup (skey "$ref") kvs with
  | none => rfl
  | some x => exact absurd rfl (noRef_obj_key hs (lookup_mem' h))

theorem schemaBody_noRef (env : Env) (impl : FmtImpl) (cfg : Cfg) (rec : Rec) (inst : Json)
    {kvs : List (Str × Json)} (hs : Spec.noRef (.obj kvs) = true) :
    schemaBody env impl cfg rec inst kvs = seqG (runKeyword env impl cfg rec inst (.obj kvs)) kvs := by
  unfold schemaBody
  rw [noRef_lookup_ref hs]

/-! ### the keyword functions, the recursive call restricted to reference-free schemas -/

open ClosedNR

/-- one step of the syntax-directed proof that a keyword function satisfies `P` -/
syntax "nr_step" ident ident : tactic
macro_rules | `(tactic| nr_step $H $hrec) => `(tactic| first
  | with_reducible exact N_nothing $H
  | with_reducible exact N_emit $H _
  | with_reducible exact N_crashG $H _
  | with_reducible exact N_stopG_fuel $H
  | with_reducible exact N_stopG_miss $H _
  | with_reducible exact N_raiseG $H _
  | with_reducible assumption
  | with_reducible apply N_descendG $H
  | with_reducible apply N_gate $H
  | with_reducible apply N_withRes $H
  | with_reducible apply N_seqG $H
  | with_reducible apply N_innerValid $H
  | with_reducible apply N_inner $H
  | with_reducible apply N_mapErrs $H
  | with_reducible apply $hrec
  | intro _
  | split)

syntax "nr_tac" ident ident : tactic
macro_rules | `(tactic| nr_tac $H $hrec) => `(tactic| repeat' nr_step $H $hrec)

/-- the side conditions: the schema descended into is reference-free -/
macro "nr_side" : tactic => `(tactic| first
  | assumption
  | exact noRef_obj_mem ‹Spec.noRef (Json.obj _) = true› ‹_ ∈ _›
  | exact noRef_arr_mem ‹Spec.noRef (Json.arr _) = true› (mem_zip_snd ‹_ ∈ _›)
  | exact noRef_arr_mem ‹Spec.noRef (Json.arr _) = true› (mem_enumFrom_snd _ _ ‹_ ∈ _›)
  | exact noRef_arr_mem ‹Spec.noRef (Json.arr _) = true› ‹_ ∈ _›)

section KwNR
variable {env : Env} {P : Gen → Prop} (H : ClosedNR env P) {rec : Rec}
  (hrec : ∀ i s, Spec.noRef s = true → P (rec i s))
include H hrec

theorem N_kwPatternProperties (cfg : Cfg) (v inst : Json) (hv : Spec.noRef v = true) :
    P (kwPatternProperties env cfg rec v inst) := by
  unfold kwPatternProperties; nr_tac H hrec
  all_goals nr_side

theorem N_kwPropertyNames (cfg : Cfg) (v inst : Json) (hv : Spec.noRef v = true) :
    P (kwPropertyNames cfg rec v inst) := by
  unfold kwPropertyNames; nr_tac H hrec

theorem N_kwAdditionalProperties (cfg : Cfg) (aP inst schema : Json) (hv : Spec.noRef aP = true) :
    P (kwAdditionalProperties env cfg rec aP inst schema) := by
  unfold kwAdditionalProperties; nr_tac H hrec

theorem N_kwItems (cfg : Cfg) (v inst : Json) (hv : Spec.noRef v = true) : P (kwItems cfg rec v inst) := by
  unfold kwItems; nr_tac H hrec
  all_goals nr_side

theorem N_kwItemsDraft3Draft4 (cfg : Cfg) (v inst : Json) (hv : Spec.noRef v = true) :
    P (kwItemsDraft3Draft4 cfg rec v inst) := by
  unfold kwItemsDraft3Draft4; nr_tac H hrec
  all_goals nr_side

theorem N_kwAdditionalItems (cfg : Cfg) (v inst schema : Json) (hv : Spec.noRef v = true) :
    P (kwAdditionalItems cfg rec v inst schema) := by
  unfold kwAdditionalItems; nr_tac H hrec

theorem N_containsLoop (sub whole : Json) (hv : Spec.noRef sub = true) (xs : List Json) :
    P (containsLoop rec sub whole xs) := by
  induction xs with
  | nil => unfold containsLoop; nr_tac H hrec
  | cons x xs ih => unfold containsLoop; nr_tac H hrec

theorem N_kwContains (cfg : Cfg) (v inst : Json) (hv : Spec.noRef v = true) : P (kwContains cfg rec v inst) := by
  unfold kwContains
  apply N_gate H
  split
  · exact N_containsLoop H hrec v _ hv _
  · exact N_crashG H _

theorem N_kwDependencies (cfg : Cfg) (v inst : Json) (hv : Spec.noRef v = true) :
    P (kwDependencies cfg rec v inst) := by
  unfold kwDependencies depArray; nr_tac H hrec
  all_goals nr_side

theorem N_kwProperties (cfg : Cfg) (v inst : Json) (hv : Spec.noRef v = true) :
    P (kwProperties cfg rec v inst) := by
  unfold kwProperties; nr_tac H hrec
  all_goals nr_side

theorem N_kwAllOf (v inst : Json) (hv : Spec.noRef v = true) : P (kwAllOf rec v inst) := by
  unfold kwAllOf; nr_tac H hrec
  all_goals nr_side

theorem N_firstValid (inst : Json) (k : Option (Json × List (Nat × Json)) → List Err → Gen)
    (xs : List (Nat × Json)) (hxs : ∀ t ∈ xs, Spec.noRef t.2 = true)
    (hk : ∀ r acc, (∀ first rest, r = some (first, rest) → ∀ t ∈ rest, Spec.noRef t.2 = true) → P (k r acc))
    (acc : List Err) : P (firstValid rec inst k xs acc) := by
  induction xs generalizing acc with
  | nil =>
    unfold firstValid
    exact hk _ _ (by intro _ _ h; cases h)
  | cons x xs ih =>
    obtain ⟨i, s⟩ := x
    have hs : Spec.noRef s = true := hxs (i, s) (List.mem_cons_self ..)
    have hrest : ∀ t ∈ xs, Spec.noRef t.2 = true := fun t ht => hxs t (List.mem_cons_of_mem _ ht)
    have ih' := ih hrest
    unfold firstValid
    apply N_inner H
    · exact N_descendG H _ _ (hrec _ _ hs)
    · intro errs
      split
      · exact hk _ _ (by intro _ _ h; cases h; exact hrest)
      · exact ih' _

theorem N_moreValid (inst : Json) (k : List Json → Gen) (hk : ∀ acc, P (k acc))
    (xs : List (Nat × Json)) (hxs : ∀ t ∈ xs, Spec.noRef t.2 = true) (acc : List Json) :
    P (moreValid rec inst k xs acc) := by
  induction xs generalizing acc with
  | nil => unfold moreValid; exact hk _
  | cons x xs ih =>
    obtain ⟨i, s⟩ := x
    have hs : Spec.noRef s = true := hxs (i, s) (List.mem_cons_self ..)
    have ih' := ih (fun t ht => hxs t (List.mem_cons_of_mem _ ht))
    unfold moreValid
    exact N_innerValid H _ (hrec _ _ hs) (fun _ => ih' _)

theorem N_kwAnyOf (v inst : Json) (hv : Spec.noRef v = true) : P (kwAnyOf rec v inst) := by
  unfold kwAnyOf
  split
  · apply N_firstValid H hrec
    · intro t ht; exact noRef_arr_mem hv (mem_enumFrom_snd _ _ ht)
    · intro r acc _; nr_tac H hrec
  · nr_tac H hrec

theorem N_kwOneOf (v inst : Json) (hv : Spec.noRef v = true) : P (kwOneOf rec v inst) := by
  unfold kwOneOf
  split
  · apply N_firstValid H hrec
    · intro t ht; exact noRef_arr_mem hv (mem_enumFrom_snd _ _ ht)
    · intro r acc hr
      split
      · nr_tac H hrec
      · apply N_moreValid H hrec
        · intro more; nr_tac H hrec
        · exact hr _ _ rfl
  · nr_tac H hrec

theorem N_kwNot (v inst : Json) (hv : Spec.noRef v = true) : P (kwNot rec v inst) := by
  unfold kwNot; nr_tac H hrec

theorem N_kwIf (v inst schema : Json) (hv : Spec.noRef v = true) (hs : Spec.noRef schema = true) :
    P (kwIf rec v inst schema) := by
  unfold kwIf; nr_tac H hrec
  all_goals exact noRef_get? hs ‹_›

theorem N_kwDependenciesDraft3 (cfg : Cfg) (v inst : Json) (hv : Spec.noRef v = true) :
    P (kwDependenciesDraft3 cfg rec v inst) := by
  unfold kwDependenciesDraft3 depArray; nr_tac H hrec
  all_goals nr_side

theorem N_kwDisallowDraft3 (v inst : Json) (hv : Spec.noRef v = true) :
    P (kwDisallowDraft3 rec v inst) := by
  unfold kwDisallowDraft3; nr_tac H hrec
  all_goals exact noRef_synth (noRef_ensureList hv ‹_› ‹_›)

theorem N_kwExtendsDraft3 (cfg : Cfg) (v inst : Json) (hv : Spec.noRef v = true) :
    P (kwExtendsDraft3 cfg rec v inst) := by
  unfold kwExtendsDraft3; nr_tac H hrec
  all_goals nr_side

theorem N_kwPropertiesDraft3 (cfg : Cfg) (v inst schema : Json) (hv : Spec.noRef v = true) :
    P (kwPropertiesDraft3 cfg rec v inst schema) := by
  unfold kwPropertiesDraft3; nr_tac H hrec
  all_goals nr_side

theorem N_typeDraft3Loop (cfg : Cfg) (inst : Json) (k : Bool → List Err → Gen)
    (hk : ∀ m acc, P (k m acc)) (xs : List (Nat × Json)) (hxs : ∀ t ∈ xs, Spec.noRef t.2 = true)
    (acc : List Err) : P (typeDraft3Loop cfg rec inst k xs acc) := by
  induction xs generalizing acc with
  | nil => unfold typeDraft3Loop; exact hk _ _
  | cons x xs ih =>
    obtain ⟨i, t⟩ := x
    have hs : Spec.noRef t = true := hxs (i, t) (List.mem_cons_self ..)
    have ih' := ih (fun t ht => hxs t (List.mem_cons_of_mem _ ht))
    unfold typeDraft3Loop
    apply N_withRes H
    intro isObj
    split
    · refine N_inner H _ _ (N_descendG H _ _ (hrec _ _ hs)) ?_
      intro es
      split
      · exact hk _ _
      · exact ih' _
    · apply N_withRes H
      intro ok
      split
      · exact hk _ _
      · exact ih' _

theorem N_kwTypeDraft3 (cfg : Cfg) (v inst : Json) (hv : Spec.noRef v = true) :
    P (kwTypeDraft3 cfg rec v inst) := by
  unfold kwTypeDraft3
  split
  · nr_tac H hrec
  · apply N_typeDraft3Loop H hrec
    · intro m acc; nr_tac H hrec
    · intro t ht; exact noRef_ensureList hv ‹_› (mem_enumFrom_snd _ _ ht)

/-! keyword functions that do not recurse -/

omit hrec in
theorem N_kwBound (cfg : Cfg) (t : String) (f : Num → Num → Bool) (v inst : Json) :
    P (kwBound cfg t f v inst) := by
  unfold kwBound; nr_tac H hrec

omit hrec in
theorem N_kwLenBound (cfg : Cfg) (ty t : String) (lt : Bool) (len : Json → Option Nat) (v inst : Json) :
    P (kwLenBound cfg ty t lt len v inst) := by
  unfold kwLenBound; nr_tac H hrec

omit hrec in
theorem N_leaf (impl : FmtImpl) (cfg : Cfg) (v inst schema : Json) :
    P (kwConst v inst) ∧ P (kwMultipleOf cfg v inst) ∧ P (kwUniqueItems cfg v inst)
    ∧ P (kwPattern env cfg v inst) ∧ P (kwFormat env impl cfg v inst) ∧ P (kwEnum v inst)
    ∧ P (kwType cfg v inst) ∧ P (kwRequired cfg v inst)
    ∧ P (kwMinimumDraft3Draft4 cfg v inst schema) ∧ P (kwMaximumDraft3Draft4 cfg v inst schema) := by
  refine ⟨?_, ?_, ?_, ?_, ?_, ?_, ?_, ?_, ?_, ?_⟩
  · unfold kwConst; nr_tac H hrec
  · unfold kwMultipleOf; nr_tac H hrec
  · unfold kwUniqueItems; nr_tac H hrec
  · unfold kwPattern; nr_tac H hrec
  · unfold kwFormat; nr_tac H hrec
  · unfold kwEnum; nr_tac H hrec
  · unfold kwType; nr_tac H hrec
  · unfold kwRequired; nr_tac H hrec
  · unfold kwMinimumDraft3Draft4; split <;> exact N_kwBound H _ _ _ _ _
  · unfold kwMaximumDraft3Draft4; split <;> exact N_kwBound H _ _ _ _ _

/-! ### the dispatcher -/

/-- every keyword function but `$ref`'s, called with a reference-free value inside a reference-free
    schema, satisfies `P` if the recursive call does on reference-free schemas -/
theorem N_applyKw (impl : FmtImpl) (cfg : Cfg) (f : KwFn) (hf : f ≠ .ref) (v inst schema : Json)
    (hv : Spec.noRef v = true) (hs : Spec.noRef schema = true) :
    P (applyKw env impl cfg rec f v inst schema) := by
  have leaf := N_leaf H impl cfg v inst schema
  cases f <;> unfold applyKw <;> dsimp only
  case ref => exact absurd rfl hf
  case additionalItems => exact N_kwAdditionalItems H hrec _ _ _ _ hv
  case additionalProperties => exact N_kwAdditionalProperties H hrec _ _ _ _ hv
  case const => exact leaf.1
  case contains => exact N_kwContains H hrec _ _ _ hv
  case exclusiveMinimum => exact N_kwBound H ..
  case exclusiveMaximum => exact N_kwBound H ..
  case minimum => exact N_kwBound H ..
  case maximum => exact N_kwBound H ..
  case multipleOf => exact leaf.2.1
  case minItems => exact N_kwLenBound H ..
  case maxItems => exact N_kwLenBound H ..
  case uniqueItems => exact leaf.2.2.1
  case pattern => exact leaf.2.2.2.1
  case format => exact leaf.2.2.2.2.1
  case minLength => exact N_kwLenBound H ..
  case maxLength => exact N_kwLenBound H ..
  case dependencies => exact N_kwDependencies H hrec _ _ _ hv
  case enum => exact leaf.2.2.2.2.2.1
  case type => exact leaf.2.2.2.2.2.2.1
  case properties => exact N_kwProperties H hrec _ _ _ hv
  case required => exact leaf.2.2.2.2.2.2.2.1
  case minProperties => exact N_kwLenBound H ..
  case maxProperties => exact N_kwLenBound H ..
  case allOf => exact N_kwAllOf H hrec _ _ hv
  case anyOf => exact N_kwAnyOf H hrec _ _ hv
  case oneOf => exact N_kwOneOf H hrec _ _ hv
  case not_ => exact N_kwNot H hrec _ _ hv
  case if_ => exact N_kwIf H hrec _ _ _ hv hs
  case items => exact N_kwItems H hrec _ _ _ hv
  case patternProperties => exact N_kwPatternProperties H hrec _ _ _ hv
  case propertyNames => exact N_kwPropertyNames H hrec _ _ _ hv
  case dependencies_draft3 => exact N_kwDependenciesDraft3 H hrec _ _ _ hv
  case disallow_draft3 => exact N_kwDisallowDraft3 H hrec _ _ hv
  case extends_draft3 => exact N_kwExtendsDraft3 H hrec _ _ _ hv
  case items_draft3_draft4 => exact N_kwItemsDraft3Draft4 H hrec _ _ _ hv
  case minimum_draft3_draft4 => exact leaf.2.2.2.2.2.2.2.2.1
  case maximum_draft3_draft4 => exact leaf.2.2.2.2.2.2.2.2.2
  case properties_draft3 => exact N_kwPropertiesDraft3 H hrec _ _ _ _ hv
  case type_draft3 => exact N_kwTypeDraft3 H hrec _ _ _ hv
  case alwaysFail => exact N_emit H _
  case never => exact N_nothing H
  case foreign => exact N_crashG H _

/-- the validator class binds the `$ref` function to the key `$ref` only -/
def RefOnly (cfg : Cfg) : Prop := ∀ k, lookupS k cfg.keywords = some KwFn.ref → k = skey "$ref"

theorem N_runKeyword (impl : FmtImpl) {cfg : Cfg} (href : RefOnly cfg) (inst : Json)
    {kvs : List (Str × Json)} (hs : Spec.noRef (.obj kvs) = true) {kv : Str × Json} (hkv : kv ∈ kvs) :
    P (runKeyword env impl cfg rec inst (.obj kvs) kv) := by
  unfold runKeyword
  split
  · exact N_nothing H
  · rename_i f hf
    refine N_mapErrs H _ (N_applyKw H hrec impl cfg f ?_ _ _ _ (noRef_obj_mem hs hkv) hs)
    intro he
    subst he
    exact noRef_obj_key hs hkv (href _ hf)

theorem N_schemaBody (impl : FmtImpl) {cfg : Cfg} (href : RefOnly cfg) (inst : Json)
    {kvs : List (Str × Json)} (hs : Spec.noRef (.obj kvs) = true) :
    P (schemaBody env impl cfg rec inst kvs) := by
  rw [schemaBody_noRef env impl cfg rec inst hs]
  exact N_seqG H _ _ fun kv hkv => N_runKeyword H hrec impl href inst hs hkv

/-- `P` passes through one layer of `iter_errors` on a reference-free schema -/
theorem N_evalStep (impl : FmtImpl) {cfg : Cfg} (href : RefOnly cfg) (inst schema : Json)
    (hs : Spec.noRef schema = true) : P (evalStep env impl cfg rec inst schema) := by
  unfold evalStep
  split
  · exact N_nothing H
  · exact N_emit H _
  · split
    · exact N_withScopeOpt H _ (N_schemaBody H hrec impl href inst hs)
    · exact N_crashG H _
  · exact N_crashG H _
  · exact N_crashG H _

end KwNR

/-- `P` holds of the evaluator on every reference-free schema, at every fuel -/
theorem N_eval {env : Env} {P : Gen → Prop} (H : ClosedNR env P) (impl : FmtImpl) {cfg : Cfg}
    (href : RefOnly cfg) (fuel : Nat) :
    ∀ i s, Spec.noRef s = true → P (eval env impl cfg fuel i s) := by
  induction fuel with
  | zero => intro i s _; exact N_stopG_fuel H
  | succ n ih => intro i s hs; exact N_evalStep H ih impl href i s hs

/-! ### facts about the generated draft tables -/

theorem lookupS_mem' {α : Type} {k : Str} {a : α} : ∀ {l : List (Str × α)},
    lookupS k l = some a → (k, a) ∈ l
  | [], h => by cases h
  | (k', x') :: rest, h => by
    unfold lookupS at h
    split at h
    · rename_i hk; cases h; subst hk; exact List.mem_cons_self ..
    · exact List.mem_cons_of_mem _ (lookupS_mem' h)

theorem draft_refOnly (d : Draft) (fc : Option FormatChecker) : RefOnly (d.cfg fc) := by
  intro k hk
  have hall : (d.keywords.all fun p => p.2 != KwFn.ref || p.1 == skey "$ref") = true := by
    cases d <;> decide +kernel
  have := List.all_eq_true.mp hall _ (lookupS_mem' hk)
  simpa using this

/-! ### state independence -/

/-- the generator yields the same errors and stops the same way from any two states with the same
    scope stack, and leaves the state it found -/
def StInd (g : Gen) : Prop := ∀ b st st', st.scopes = st'.scopes →
  (g b st).errs = (g b st').errs ∧ (g b st).stop = (g b st').stop ∧ (g b st).st = st

theorem StInd.emit (es : List Err) : StInd (emit es) := by
  intro b st st' _
  unfold JS.emit
  cases b with
  | none => exact ⟨rfl, rfl, rfl⟩
  | some k => dsimp only; split <;> exact ⟨rfl, rfl, rfl⟩

theorem StInd.stopG (s : Stop) : StInd (stopG s) := fun _ _ _ _ => ⟨rfl, rfl, rfl⟩

theorem StInd.andThen {g h : Gen} (hg : StInd g) (hh : StInd h) : StInd (andThen g h) := by
  intro b st st' hsc
  obtain ⟨he, hs, hst⟩ := hg b st st' hsc
  obtain ⟨-, -, hst'⟩ := hg b st' st hsc.symm
  unfold JS.andThen
  rcases h1 : g b st with ⟨es, s, st1⟩
  rcases h2 : g b st' with ⟨es', s', st1'⟩
  rw [h1, h2] at he hs
  rw [h1] at hst
  rw [h2] at hst'
  dsimp only at he hs hst hst'
  subst he hs hst hst'
  cases s with
  | done =>
    dsimp only
    obtain ⟨a, b', c⟩ := hh (budgetSub b es.length) st1 st1' hsc
    exact ⟨congrArg (es ++ ·) a, b', c⟩
  | budget => exact ⟨rfl, rfl, rfl⟩
  | raised e => exact ⟨rfl, rfl, rfl⟩
  | fuel => exact ⟨rfl, rfl, rfl⟩
  | miss q => exact ⟨rfl, rfl, rfl⟩

theorem StInd.mapErrs (f : Err → Err) {g : Gen} (hg : StInd g) : StInd (mapErrs f g) := by
  intro b st st' hsc
  obtain ⟨he, hs, hst⟩ := hg b st st' hsc
  exact ⟨congrArg (List.map f) he, hs, hst⟩

theorem StInd.inner {g : Gen} (b' : Option Nat) (k : List Err → Gen) (hg : StInd g)
    (hk : ∀ es, StInd (k es)) : StInd (inner g b' k) := by
  intro b st st' hsc
  obtain ⟨he, hs, hst⟩ := hg b' st st' hsc
  obtain ⟨-, -, hst'⟩ := hg b' st' st hsc.symm
  unfold JS.inner
  rcases h1 : g b' st with ⟨es, s, st1⟩
  rcases h2 : g b' st' with ⟨es', s', st1'⟩
  rw [h1, h2] at he hs
  rw [h1] at hst
  rw [h2] at hst'
  dsimp only at he hs hst hst'
  subst he hs hst hst'
  cases s with
  | done => exact hk es b st1 st1' hsc
  | budget => exact hk es b st1 st1' hsc
  | raised e => exact ⟨rfl, rfl, rfl⟩
  | fuel => exact ⟨rfl, rfl, rfl⟩
  | miss q => exact ⟨rfl, rfl, rfl⟩

theorem StInd.withScope (env : Env) (scope : Str) {g : Gen} (hg : StInd g) :
    StInd (withScope env scope g) := by
  intro b st st' hsc
  have htop : st'.top = st.top := by unfold RState.top; rw [hsc]
  unfold JS.withScope
  rw [htop]
  cases env.urljoin st.top scope with
  | none => exact ⟨rfl, rfl, rfl⟩
  | some u =>
    obtain ⟨a, b', c⟩ := hg b { st with scopes := u :: st.scopes } { st' with scopes := u :: st'.scopes }
      (by show u :: st.scopes = u :: st'.scopes; rw [hsc])
    refine ⟨a, b', ?_⟩
    show { (g b { st with scopes := u :: st.scopes }).st with
            scopes := (g b { st with scopes := u :: st.scopes }).st.scopes.tail } = st
    rw [c]
    cases st
    rfl

theorem stIndClosed (env : Env) : ClosedNR env StInd where
  emit := StInd.emit
  nothing := StInd.stopG .done
  stop := fun s _ => StInd.stopG s
  andThen := StInd.andThen
  mapErrs := StInd.mapErrs
  inner := StInd.inner
  withScope := StInd.withScope env

/-- a reference-free evaluation is state independent -/
theorem eval_stInd (env : Env) (impl : FmtImpl) (d : Draft) (fc : Option FormatChecker) (fuel : Nat)
    (i s : Json) (hs : Spec.noRef s = true) : StInd (eval env impl (d.cfg fc) fuel i s) :=
  N_eval (stIndClosed env) impl (draft_refOnly d fc) fuel i s hs

/-! ### attribution of errors to keywords, and the schema in which a keyword stands alone -/

/-- the error is attributed to keyword `k` (same function as `Props.C05.attributed`) -/
def attrTo (k : Str) (e : Err) : Bool :=
  match e.schemaPath.head? with
  | some (.key h) => h == k || (k == skey "if" && (h == skey "then" || h == skey "else"))
  | _ => false

/-- the members kept when keyword `k` stands alone (same list as in `Props.C05.alone`) -/
def aloneKvs (cfg : Cfg) (kvs : List (Str × Json)) (k : Str) : List (Str × Json) :=
  kvs.filter fun p => p.1 == k || Spec.consulted.contains p.1 || p.1 == cfg.idKey

theorem attrTo_eraseSch (k : Str) (e : Err) : attrTo k (eraseSch e) = attrTo k e := by
  cases e; rfl

theorem filter_attr_eraseSch {es es' : List Err} (h : es.map eraseSch = es'.map eraseSch) (k : Str) :
    (es.filter (attrTo k)).map eraseSch = (es'.filter (attrTo k)).map eraseSch := by
  have hc : (attrTo k ∘ eraseSch) = attrTo k := funext fun e => attrTo_eraseSch k e
  have h1 : ∀ l : List Err, (l.filter (attrTo k)).map eraseSch = (l.map eraseSch).filter (attrTo k) := by
    intro l
    rw [List.filter_map, hc]
  rw [h1, h1, h]

/-! ### lists of members -/

theorem lookup_filter {c : Str} {keep : Str × Json → Bool} (hk : ∀ p : Str × Json, p.1 = c → keep p = true) :
    ∀ l : List (Str × Json), Json.lookup c (l.filter keep) = Json.lookup c l
  | [] => rfl
  | (k', v') :: l => by
    by_cases hkeep : keep (k', v') = true
    · rw [List.filter_cons_of_pos hkeep]
      unfold Json.lookup
      rw [lookup_filter hk l]
    · rw [List.filter_cons_of_neg hkeep, lookup_filter hk l]
      have hne : ¬ k' = c := fun he => hkeep (hk (k', v') he)
      conv => rhs; unfold Json.lookup
      rw [if_neg hne]

theorem filter_key_eq {k : Str} {v : Json} : ∀ {kvs : List (Str × Json)},
    Spec.keysDistinct kvs = true → (k, v) ∈ kvs → kvs.filter (fun p => p.1 == k) = [(k, v)]
  | [], _, h => by cases h
  | (k', v') :: rest, hd, h => by
    simp only [Spec.keysDistinct, Bool.and_eq_true, Bool.not_eq_true', List.any_eq_false, beq_iff_eq] at hd
    rcases List.mem_cons.mp h with he | hm
    · cases he
      rw [List.filter_cons_of_pos (by simp)]
      congr 1
      rw [List.filter_eq_nil_iff]
      intro p hp
      simpa using hd.1 p hp
    · have hne : ¬ k' = k := fun he => hd.1 (k, v) hm (by rw [he])
      rw [List.filter_cons_of_neg (by simpa using hne)]
      exact filter_key_eq hd.2 hm

theorem flatMap_congr_mem {α β : Type} {f g : α → List β} : ∀ {l : List α},
    (∀ x ∈ l, f x = g x) → l.flatMap f = l.flatMap g
  | [], _ => rfl
  | x :: l, h => by
    rw [List.flatMap_cons, List.flatMap_cons, h x (List.mem_cons_self ..),
      flatMap_congr_mem fun y hy => h y (List.mem_cons_of_mem _ hy)]

theorem flatMap_filter_of_nil {α β : Type} {f : α → List β} {p : α → Bool} : ∀ {l : List α},
    (∀ x ∈ l, p x = false → f x = []) → l.flatMap f = (l.filter p).flatMap f
  | [], _ => rfl
  | x :: l, h => by
    have ih := flatMap_filter_of_nil (f := f) (p := p) fun y hy => h y (List.mem_cons_of_mem _ hy)
    cases hp : p x
    · rw [List.filter_cons_of_neg (by simp [hp]), List.flatMap_cons, h x (List.mem_cons_self ..) hp, ← ih]
      rfl
    · rw [List.filter_cons_of_pos hp, List.flatMap_cons, List.flatMap_cons, ← ih]

/-! ### where the schema path of a keyword's errors starts -/

theorem inner_errs_mem {g : Gen} {b' : Option Nat} {k : List Err → Gen} {b : Option Nat} {st : RState}
    {e : Err} (h : e ∈ (inner g b' k b st).errs) : ∃ es st', e ∈ (k es b st').errs := by
  unfold inner at h
  split at h
  · exact ⟨_, _, h⟩
  · exact ⟨_, _, h⟩
  · cases h

theorem descend_key_head {g : Gen} {q : PathElem} {b : Option Nat} {st : RState} {e : Err}
    (h : e ∈ (descendG g none (some q) b st).errs) : e.schemaPath.head? = some q := by
  unfold descendG at h
  rw [mapErrs_errs] at h
  obtain ⟨e0, _, rfl⟩ := List.mem_map.mp h
  cases e0
  rfl

/-- the errors of `if` start with `then` or `else` -/
theorem kwIf_heads (rec : Rec) (v inst schema : Json) (b : Option Nat) (st : RState) :
    ∀ e ∈ (kwIf rec v inst schema b st).errs,
      e.schemaPath.head? = some (.key (skey "then")) ∨ e.schemaPath.head? = some (.key (skey "else")) := by
  intro e he
  unfold kwIf innerValid at he
  obtain ⟨es, st', he⟩ := inner_errs_mem he
  dsimp only at he
  cases hem : es.isEmpty
  · rw [hem, if_neg (by decide)] at he
    cases hg : schema.get? (skey "else") with
    | none => rw [hg] at he; cases he
    | some t => rw [hg] at he; exact .inr (descend_key_head he)
  · rw [hem, if_pos rfl] at he
    cases hg : schema.get? (skey "then") with
    | none => rw [hg] at he; cases he
    | some t => rw [hg] at he; exact .inl (descend_key_head he)

theorem stamp_head {k : Str} (hk : ¬ (k = skey "if" ∨ k = skey "$ref")) (v inst schema : Json) (e : Err) :
    (stamp k v inst schema e).schemaPath.head? = some (.key k) := by
  unfold stamp
  rw [if_neg hk]
  cases e
  rfl

theorem stamp_if_schemaPath (v inst schema : Json) (e : Err) :
    (stamp (skey "if") v inst schema e).schemaPath = e.schemaPath := by
  unfold stamp
  rw [if_pos (.inl rfl)]
  cases e
  rfl

/-- the validator class binds the key `if` to the `if` function only -/
def IfOnly (cfg : Cfg) : Prop := ∀ f, lookupS (skey "if") cfg.keywords = some f → f = KwFn.if_

theorem runKeyword_none (env : Env) (impl : FmtImpl) (cfg : Cfg) (rec : Rec) (inst schema : Json)
    (kv : Str × Json) (h : lookupS kv.1 cfg.keywords = none) :
    runKeyword env impl cfg rec inst schema kv = nothing := by
  unfold runKeyword
  rw [h]

theorem runKeyword_some (env : Env) (impl : FmtImpl) (cfg : Cfg) (rec : Rec) (inst schema : Json)
    (kv : Str × Json) {f : KwFn} (h : lookupS kv.1 cfg.keywords = some f) :
    runKeyword env impl cfg rec inst schema kv
      = mapErrs (stamp kv.1 kv.2 inst schema) (applyKw env impl cfg rec f kv.2 inst schema) := by
  unfold runKeyword
  rw [h]

/-- every error leaving the loop iteration of a keyword other than `if`, `$ref` starts with it -/
theorem runKeyword_heads (env : Env) (impl : FmtImpl) (cfg : Cfg) (rec : Rec) (inst schema : Json)
    (kv : Str × Json) (hk : ¬ (kv.1 = skey "if" ∨ kv.1 = skey "$ref")) (b : Option Nat) (st : RState) :
    ∀ e ∈ (runKeyword env impl cfg rec inst schema kv b st).errs, e.schemaPath.head? = some (.key kv.1) := by
  cases hl : lookupS kv.1 cfg.keywords with
  | none => rw [runKeyword_none _ _ _ _ _ _ _ hl]; intro e he; cases he
  | some f =>
    rw [runKeyword_some _ _ _ _ _ _ _ hl]
    intro e he
    rw [mapErrs_errs] at he
    obtain ⟨e0, _, rfl⟩ := List.mem_map.mp he
    exact stamp_head hk _ _ _ _

/-- every error leaving the loop iteration of a keyword is attributed to it -/
theorem runKeyword_attr (env : Env) (impl : FmtImpl) {cfg : Cfg} (hif : IfOnly cfg) (rec : Rec)
    (inst schema : Json) (kv : Str × Json) (hk : kv.1 ≠ skey "$ref") (b : Option Nat) (st : RState) :
    ∀ e ∈ (runKeyword env impl cfg rec inst schema kv b st).errs, attrTo kv.1 e = true := by
  by_cases hi : kv.1 = skey "if"
  · obtain ⟨k, v⟩ := kv
    dsimp only at hi
    subst hi
    cases hl : lookupS (skey "if") cfg.keywords with
    | none => rw [runKeyword_none _ _ _ _ _ _ _ hl]; intro e he; cases he
    | some f =>
      rw [runKeyword_some _ _ _ _ _ _ _ hl]
      have := hif f hl
      subst this
      intro e he
      rw [mapErrs_errs] at he
      obtain ⟨e0, he0, rfl⟩ := List.mem_map.mp he
      have hh := kwIf_heads rec v inst schema b st e0 he0
      unfold attrTo
      rw [stamp_if_schemaPath]
      rcases hh with h | h <;> rw [h] <;> rfl
  · intro e he
    have := runKeyword_heads env impl cfg rec inst schema kv (by rintro (h | h); exact hi h; exact hk h) b st e he
    unfold attrTo
    rw [this]
    simp

/-! ### one layer of `iter_errors` on a reference-free object -/

open Spec in
theorem noRef_filter (keep : Str × Json → Bool) : ∀ {l : List (Str × Json)},
    noRef (.obj l) = true → noRef (.obj (l.filter keep)) = true
  | [], _ => rfl
  | (k, v) :: l, h => by
    rw [noRef] at h ⊢
    simp only [noRef.noRefKvs, Bool.and_eq_true] at h
    have ih : noRef.noRefKvs (l.filter keep) = true := by
      have := noRef_filter keep (l := l) (by rw [noRef]; exact h.2)
      rwa [noRef] at this
    by_cases hk : keep (k, v) = true
    · rw [List.filter_cons_of_pos hk]
      simp only [noRef.noRefKvs, Bool.and_eq_true]
      exact ⟨h.1, ih⟩
    · rw [List.filter_cons_of_neg hk]
      exact ih

theorem evalStep_obj_run (env : Env) (impl : FmtImpl) (cfg : Cfg) (rec : Rec) (inst : Json)
    {l : List (Str × Json)} (hnr : Spec.noRef (.obj l) = true) {scope : Option Str}
    (hsc : scopeOf cfg l = .ok scope) :
    evalStep env impl cfg rec inst (.obj l)
      = withScopeOpt env scope (seqG (runKeyword env impl cfg rec inst (.obj l)) l) := by
  show (match scopeOf cfg l with
        | .ok scope => withScopeOpt env scope (schemaBody env impl cfg rec inst l)
        | .error cls => crashG cls) = _
  rw [hsc, schemaBody_noRef env impl cfg rec inst hnr]

theorem evalStep_obj_err (env : Env) (impl : FmtImpl) (cfg : Cfg) (rec : Rec) (inst : Json)
    {l : List (Str × Json)} {cls : String} (hsc : scopeOf cfg l = .error cls) :
    evalStep env impl cfg rec inst (.obj l) = crashG cls := by
  show (match scopeOf cfg l with
        | .ok scope => withScopeOpt env scope (schemaBody env impl cfg rec inst l)
        | .error cls => crashG cls) = _
  rw [hsc]

/-- if some generator finishes normally inside the scope, the push succeeded: every generator runs
    from the same pushed state -/
theorem withScopeOpt_done (env : Env) (scope : Option Str) (st : RState) {g0 : Gen}
    (h : (withScopeOpt env scope g0 none st).stop = .done) :
    ∃ st1, ∀ g : Gen, (withScopeOpt env scope g none st).errs = (g none st1).errs
      ∧ (withScopeOpt env scope g none st).stop = (g none st1).stop := by
  cases scope with
  | none => exact ⟨st, fun g => ⟨rfl, rfl⟩⟩
  | some sc =>
    unfold withScopeOpt withScope at h ⊢
    dsimp only at h ⊢
    cases hu : env.urljoin st.top sc with
    | none => rw [hu] at h; cases h
    | some u => exact ⟨{ st with scopes := u :: st.scopes }, fun g => ⟨rfl, rfl⟩⟩

theorem scopeOf_alone (cfg : Cfg) (kvs : List (Str × Json)) (k : Str)
    (hnr : Spec.noRef (.obj kvs) = true) :
    scopeOf cfg (aloneKvs cfg kvs k) = scopeOf cfg kvs := by
  have h1 : Json.hasKey (skey "$ref") kvs = false := by
    unfold Json.hasKey; rw [noRef_lookup_ref hnr]; rfl
  have h2 : Json.hasKey (skey "$ref") (aloneKvs cfg kvs k) = false := by
    unfold Json.hasKey aloneKvs; rw [noRef_lookup_ref (noRef_filter _ hnr)]; rfl
  unfold scopeOf
  rw [h1, h2]
  unfold aloneKvs
  rw [lookup_filter]
  intro p hp
  simp [hp]

theorem sameSiblings_alone (cfg : Cfg) (kvs : List (Str × Json)) (k : Str) :
    SameSiblings (.obj (aloneKvs cfg kvs k)) (.obj kvs) := by
  intro c hc
  show Json.lookup c (aloneKvs cfg kvs k) = Json.lookup c kvs
  unfold aloneKvs
  rw [lookup_filter]
  intro p hp
  have : p.1 ∈ Spec.consulted := by rw [hp]; exact hc
  simp [this]

/-- what the union theorem needs to know about the validator class -/
structure KwFacts (cfg : Cfg) : Prop where
  refOnly : RefOnly cfg
  ifOnly : IfOnly cfg
  thenNot : lookupS (skey "then") cfg.keywords = none
  elseNot : lookupS (skey "else") cfg.keywords = none
  idNotIf : cfg.idKey ≠ skey "if"

theorem draft_kwFacts (d : Draft) (fc : Option FormatChecker) : KwFacts (d.cfg fc) where
  refOnly := draft_refOnly d fc
  ifOnly := by
    intro f hf
    have h : (lookupS (skey "if") d.keywords = none ∨ lookupS (skey "if") d.keywords = some KwFn.if_) := by
      cases d <;> decide +kernel
    rcases h with h | h
    · rw [show (d.cfg fc).keywords = d.keywords from rfl, h] at hf; cases hf
    · rw [show (d.cfg fc).keywords = d.keywords from rfl, h] at hf; exact (Option.some.inj hf).symm
  thenNot := by
    show lookupS (skey "then") d.keywords = none
    cases d <;> decide +kernel
  elseNot := by
    show lookupS (skey "else") d.keywords = none
    cases d <;> decide +kernel
  idNotIf := by
    show d.idKey ≠ skey "if"
    cases d <;> decide +kernel

/-! ### the union theorem, one layer -/

theorem if_not_consulted : skey "if" ∉ Spec.consulted := by decide +kernel

/-- a kept sibling other than the keyword itself contributes nothing attributed to the keyword -/
theorem sibling_not_attr (env : Env) (impl : FmtImpl) {cfg : Cfg} (F : KwFacts cfg) (rec : Rec)
    (inst schema : Json) (k : Str) (kv' : Str × Json) (hne : (kv'.1 == k) = false)
    (hkeep : Spec.consulted.contains kv'.1 = true ∨ kv'.1 = cfg.idKey) (hnref : kv'.1 ≠ skey "$ref")
    (b : Option Nat) (st : RState) :
    (runKeyword env impl cfg rec inst schema kv' b st).errs.filter (attrTo k) = [] := by
  rw [List.filter_eq_nil_iff]
  intro e he
  cases hl : lookupS kv'.1 cfg.keywords with
  | none => rw [runKeyword_none _ _ _ _ _ _ _ hl] at he; cases he
  | some f =>
    have hnif : kv'.1 ≠ skey "if" := by
      intro hi
      rcases hkeep with h | h
      · rw [hi] at h; exact if_not_consulted (List.contains_iff_mem.mp h)
      · exact F.idNotIf (h.symm.trans hi)
    have hh := runKeyword_heads env impl cfg rec inst schema kv'
      (by rintro (h | h); exact hnif h; exact hnref h) b st e he
    unfold attrTo
    rw [hh]
    dsimp only
    have hthen : (kv'.1 == skey "then") = false := by
      rw [beq_eq_false_iff_ne]
      intro h; rw [h, F.thenNot] at hl; cases hl
    have helse : (kv'.1 == skey "else") = false := by
      rw [beq_eq_false_iff_ne]
      intro h; rw [h, F.elseNot] at hl; cases hl
    rw [hne, hthen, helse]
    simp

theorem union_step (env : Env) (impl : FmtImpl) {cfg : Cfg} (F : KwFacts cfg) {rec : Rec}
    (hrec : ∀ i s, Spec.noRef s = true → StInd (rec i s))
    (i : Json) (kvs : List (Str × Json)) (hwf : Spec.keysDistinct kvs = true)
    (hnr : Spec.noRef (.obj kvs) = true) (st : RState)
    (hdone : (evalStep env impl cfg rec i (.obj kvs) none st).stop = .done) :
    (evalStep env impl cfg rec i (.obj kvs) none st).errs.map eraseSch
      = kvs.flatMap fun kv =>
          ((evalStep env impl cfg rec i (.obj (aloneKvs cfg kvs kv.1)) none st).errs.filter
            (attrTo kv.1)).map eraseSch := by
  have hsub : ∀ k, ∀ p ∈ aloneKvs cfg kvs k, p ∈ kvs := fun k p hp => (List.mem_filter.mp hp).1
  have hnrA : ∀ k, Spec.noRef (.obj (aloneKvs cfg kvs k)) = true := fun k => noRef_filter _ hnr
  cases hsc : scopeOf cfg kvs with
  | error cls =>
    rw [evalStep_obj_err env impl cfg rec i hsc] at hdone
    cases hdone
  | ok scope =>
    rw [evalStep_obj_run env impl cfg rec i hnr hsc] at hdone ⊢
    obtain ⟨st1, hst1⟩ := withScopeOpt_done env scope st hdone
    have hWd : (seqG (runKeyword env impl cfg rec i (.obj kvs)) kvs none st1).stop = .done := by
      rw [← (hst1 _).2]; exact hdone
    rw [(hst1 _).1]
    have hWst : ∀ kv ∈ kvs, (runKeyword env impl cfg rec i (.obj kvs) kv none st1).st = st1 :=
      fun kv hkv => (N_runKeyword (stIndClosed env) hrec impl F.refOnly i hnr hkv none st1 st1 rfl).2.2
    have hWdone := seqG_none_done_inv _ st1 kvs hWst hWd
    rw [seqG_none_all_done _ st1 kvs (fun kv hkv => ⟨hWdone kv hkv, hWst kv hkv⟩)]
    dsimp only
    rw [List.map_flatMap]
    apply flatMap_congr_mem
    intro kv hkv
    rw [evalStep_obj_run env impl cfg rec i (hnrA kv.1) ((scopeOf_alone cfg kvs kv.1 hnr).trans hsc),
      (hst1 _).1]
    have hsim : ∀ kv' : Str × Json,
        OutSim (runKeyword env impl cfg rec i (.obj (aloneKvs cfg kvs kv.1)) kv' none st1)
               (runKeyword env impl cfg rec i (.obj kvs) kv' none st1) :=
      fun kv' => runKeyword_sim env impl cfg rec i _ _ kv' (sameSiblings_alone cfg kvs kv.1) none st1
    rw [seqG_none_all_done _ st1 _ (fun kv' h =>
      ⟨(hsim kv').2.1.trans (hWdone kv' (hsub _ _ h)), (hsim kv').2.2.trans (hWst kv' (hsub _ _ h))⟩)]
    dsimp only
    rw [List.filter_flatMap, List.map_flatMap,
      flatMap_congr_mem (g := fun kv' =>
        ((runKeyword env impl cfg rec i (.obj kvs) kv' none st1).errs.filter (attrTo kv.1)).map eraseSch)
        (fun kv' _ => filter_attr_eraseSch (hsim kv').1 kv.1),
      flatMap_filter_of_nil (p := fun p : Str × Json => p.1 == kv.1)]
    · have hone : (aloneKvs cfg kvs kv.1).filter (fun p => p.1 == kv.1) = [kv] := by
        unfold aloneKvs
        rw [List.filter_filter]
        have : (fun a : Str × Json => (a.1 == kv.1) && (a.1 == kv.1 || Spec.consulted.contains a.1 || a.1 == cfg.idKey))
            = fun a => a.1 == kv.1 := by
          funext a
          cases a.1 == kv.1 <;> rfl
        rw [this]
        exact filter_key_eq hwf hkv
      rw [hone, List.flatMap_cons, List.flatMap_nil, List.append_nil,
        List.filter_eq_self.mpr (runKeyword_attr env impl F.ifOnly rec i _ kv (noRef_obj_key hnr hkv) none st1)]
    · intro kv' hkv' hne
      have hkeep := (List.mem_filter.mp hkv').2
      rw [sibling_not_attr env impl F rec i _ kv.1 kv' hne ?_ (noRef_obj_key hnr (hsub _ _ hkv')) none st1]
      · rfl
      · simp only [hne, Bool.false_or, Bool.or_eq_true, beq_iff_eq] at hkeep
        exact hkeep

end JS
