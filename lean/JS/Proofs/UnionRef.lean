/- Helper lemmas for C05 `union_of_keywords_refs`: the union theorem for schema objects whose
   subschemas may contain references, from resolver states that live in a world.

   `StInd` of JS/Proofs/Union.lean (a reference-free run neither reads nor changes the resolver
   state) is replaced by the state-relative `KInd`: two runs from states of the same world yield the
   same errors and the same stop, and the run stays in the world of the state it is compared with. -/
import JS.Proofs.Union
import JS.Proofs.Knowledge
namespace JS
open Knowledge

/-! ### knowledge independence of a generator -/

/-- from any two states of the same world: the same errors, the same stop, and the state reached
    is still in the world of the other state (same scope stack, faithful) -/
def KInd (env : Env) (base : List (Str × Json)) (g : Gen) : Prop :=
  ∀ b st st', SameWorldS env base st st' →
    (g b st).errs = (g b st').errs ∧ (g b st).stop = (g b st').stop
      ∧ SameWorldS env base (g b st).st st'

/-- a generator that respects `RK` and restores the scope stack is knowledge independent, when the
    oracle answers every retrieval -/
theorem KInd.of_RK {env : Env} {base : List (Str × Json)} (hans : ∀ n u, env.fetch n u ≠ none)
    {g : Gen} (hr : RK env base g g) (hs : ScopeOK g) : KInd env base g := by
  intro b st st' hw
  obtain ⟨he, hst, hw'⟩ := hr b st st' hw
  refine ⟨he, hst.eq hans, ?_, hw'.left, hw.right⟩
  rw [hs.restore b st]
  exact hw.scopes

/-- every iteration of the keyword loop is knowledge independent, whatever the enclosing schema -/
theorem runKeyword_kInd {env : Env} {base : List (Str × Json)} (hf : StableFetchS env)
    (hans : ∀ n u, env.fetch n u ≠ none) (impl : FmtImpl) (cfg : Cfg) {rec : Rec}
    (hrec : ∀ i s, RK env base (rec i s) (rec i s)) (hsc : RecScopeOK rec)
    (inst schema : Json) (kv : Str × Json) :
    KInd env base (runKeyword env impl cfg rec inst schema kv) :=
  KInd.of_RK hans (R_runKeyword (closed₂_RK hf) impl cfg hrec inst schema kv)
    (P_runKeyword (scopeClosed env) impl cfg hsc inst schema kv)

/-! ### the keyword loop over knowledge independent stages -/

section
variable {env : Env} {base : List (Str × Json)}

/-- every stage finishes normally from `st1`: the loop, started from any state of the world of
    `st1`, yields the concatenation of the stages' errors from `st1` -/
theorem seqG_kInd_errs {α : Type} (f : α → Gen) (st1 : RState) :
    ∀ (l : List α) (σ : RState), (∀ x ∈ l, KInd env base (f x)) → SameWorldS env base σ st1 →
      (∀ x ∈ l, (f x none st1).stop = .done) →
      (seqG f l none σ).errs = l.flatMap (fun x => (f x none st1).errs)
  | [], _, _, _, _ => rfl
  | x :: xs, σ, hk, hw, hd => by
    obtain ⟨he, hs, hw'⟩ := hk x (List.mem_cons_self ..) none σ st1 hw
    have hdσ : (f x none σ).stop = .done := hs.trans (hd x (List.mem_cons_self ..))
    rw [seqG_cons, andThen_none_done hdσ]
    dsimp only
    rw [seqG_kInd_errs f st1 xs _ (fun y hy => hk y (List.mem_cons_of_mem _ hy)) hw'
      (fun y hy => hd y (List.mem_cons_of_mem _ hy)), he, List.flatMap_cons]

/-- if the loop, started from a state of the world of `st1`, finishes normally, every stage
    finishes normally from `st1` -/
theorem seqG_kInd_done_inv {α : Type} (f : α → Gen) (st1 : RState) :
    ∀ (l : List α) (σ : RState), (∀ x ∈ l, KInd env base (f x)) → SameWorldS env base σ st1 →
      (seqG f l none σ).stop = .done → ∀ x ∈ l, (f x none st1).stop = .done
  | [], _, _, _, _ => fun _ hx => by cases hx
  | x :: xs, σ, hk, hw, h => by
    obtain ⟨-, hs, hw'⟩ := hk x (List.mem_cons_self ..) none σ st1 hw
    rw [seqG_cons] at h
    by_cases hd : (f x none σ).stop = .done
    · rw [andThen_none_done hd] at h
      dsimp only at h
      intro y hy
      rcases List.mem_cons.mp hy with rfl | hy
      · exact hs.symm.trans hd
      · exact seqG_kInd_done_inv f st1 xs _ (fun z hz => hk z (List.mem_cons_of_mem _ hz)) hw' h y hy
    · rw [andThen_not_done hd] at h
      exact absurd h hd

/-- if some generator finishes normally inside the scope, the push succeeded: every generator runs
    from the same pushed state, which knows what the state before the push knew -/
theorem withScopeOpt_done_know (scope : Option Str) (st : RState) {g0 : Gen}
    (hk : Know env base st) (h : (withScopeOpt env scope g0 none st).stop = .done) :
    ∃ st1, Know env base st1 ∧ ∀ g : Gen, (withScopeOpt env scope g none st).errs = (g none st1).errs
      ∧ (withScopeOpt env scope g none st).stop = (g none st1).stop := by
  cases scope with
  | none => exact ⟨st, hk, fun g => ⟨rfl, rfl⟩⟩
  | some sc =>
    unfold withScopeOpt withScope at h ⊢
    dsimp only at h ⊢
    cases hu : env.urljoin st.top sc with
    | none => rw [hu] at h; cases h
    | some u => exact ⟨{ st with scopes := u :: st.scopes }, hk.setScopes _, fun g => ⟨rfl, rfl⟩⟩

end

/-! ### a schema object without a `$ref` key -/

theorem lookup_none_filter {c : Str} (keep : Str × Json → Bool) :
    ∀ {l : List (Str × Json)}, Json.lookup c l = none → Json.lookup c (l.filter keep) = none
  | [], _ => rfl
  | (k', v') :: l, h => by
    unfold Json.lookup at h
    split at h
    · cases h
    · rename_i hne
      by_cases hkeep : keep (k', v') = true
      · rw [List.filter_cons_of_pos hkeep]
        unfold Json.lookup
        rw [if_neg hne]
        exact lookup_none_filter keep h
      · rw [List.filter_cons_of_neg hkeep]
        exact lookup_none_filter keep h

theorem lookup_none_key {c : Str} : ∀ {l : List (Str × Json)}, Json.lookup c l = none →
    ∀ {p : Str × Json}, p ∈ l → p.1 ≠ c
  | [], _, _, hp => by cases hp
  | (k', v') :: l, h, p, hp => by
    unfold Json.lookup at h
    split at h
    · cases h
    · rename_i hne
      rcases List.mem_cons.mp hp with rfl | hp
      · exact hne
      · exact lookup_none_key h hp

theorem evalStep_obj_run' (env : Env) (impl : FmtImpl) (cfg : Cfg) (rec : Rec) (inst : Json)
    {l : List (Str × Json)} (hnr : Json.lookup (skey "$ref") l = none) {scope : Option Str}
    (hsc : scopeOf cfg l = .ok scope) :
    evalStep env impl cfg rec inst (.obj l)
      = withScopeOpt env scope (seqG (runKeyword env impl cfg rec inst (.obj l)) l) := by
  show (match scopeOf cfg l with
        | .ok scope => withScopeOpt env scope (schemaBody env impl cfg rec inst l)
        | .error cls => crashG cls) = _
  rw [hsc]
  unfold schemaBody
  rw [hnr]

theorem scopeOf_alone' (cfg : Cfg) (kvs : List (Str × Json)) (k : Str)
    (hnr : Json.lookup (skey "$ref") kvs = none) :
    scopeOf cfg (aloneKvs cfg kvs k) = scopeOf cfg kvs := by
  have h1 : Json.hasKey (skey "$ref") kvs = false := by
    unfold Json.hasKey; rw [hnr]; rfl
  have h2 : Json.hasKey (skey "$ref") (aloneKvs cfg kvs k) = false := by
    unfold Json.hasKey aloneKvs; rw [lookup_none_filter _ hnr]; rfl
  unfold scopeOf
  rw [h1, h2]
  unfold aloneKvs
  rw [lookup_filter]
  intro p hp
  simp [hp]

/-! ### the union theorem, one layer, references allowed below -/

theorem union_step_ref (env : Env) (hf : StableFetchS env) (hans : ∀ n u, env.fetch n u ≠ none)
    (impl : FmtImpl) {cfg : Cfg} (F : KwFacts cfg) {rec : Rec} {base : List (Str × Json)}
    (hrec : ∀ i s, RK env base (rec i s) (rec i s)) (hrsc : RecScopeOK rec)
    (i : Json) (kvs : List (Str × Json)) (hwf : Spec.keysDistinct kvs = true)
    (hnr : Json.lookup (skey "$ref") kvs = none) (st : RState) (hst : Know env base st)
    (hdone : (evalStep env impl cfg rec i (.obj kvs) none st).stop = .done) :
    (evalStep env impl cfg rec i (.obj kvs) none st).errs.map eraseSch
      = kvs.flatMap fun kv =>
          ((evalStep env impl cfg rec i (.obj (aloneKvs cfg kvs kv.1)) none st).errs.filter
            (attrTo kv.1)).map eraseSch := by
  have hsub : ∀ k, ∀ p ∈ aloneKvs cfg kvs k, p ∈ kvs := fun k p hp => (List.mem_filter.mp hp).1
  have hnrA : ∀ k, Json.lookup (skey "$ref") (aloneKvs cfg kvs k) = none :=
    fun k => lookup_none_filter _ hnr
  have hK : ∀ (s : Json) (kv : Str × Json), KInd env base (runKeyword env impl cfg rec i s kv) :=
    fun s kv => runKeyword_kInd hf hans impl cfg hrec hrsc i s kv
  cases hsc : scopeOf cfg kvs with
  | error cls =>
    rw [evalStep_obj_err env impl cfg rec i hsc] at hdone
    cases hdone
  | ok scope =>
    rw [evalStep_obj_run' env impl cfg rec i hnr hsc] at hdone ⊢
    obtain ⟨st1, hk1, hst1⟩ := withScopeOpt_done_know scope st hst hdone
    have hw1 : SameWorldS env base st1 st1 := ⟨rfl, hk1, hk1⟩
    have hWd : (seqG (runKeyword env impl cfg rec i (.obj kvs)) kvs none st1).stop = .done := by
      rw [← (hst1 _).2]; exact hdone
    rw [(hst1 _).1]
    have hWdone := seqG_kInd_done_inv _ st1 kvs st1 (fun kv _ => hK _ kv) hw1 hWd
    rw [seqG_kInd_errs _ st1 kvs st1 (fun kv _ => hK _ kv) hw1 hWdone]
    rw [List.map_flatMap]
    apply flatMap_congr_mem
    intro kv hkv
    rw [evalStep_obj_run' env impl cfg rec i (hnrA kv.1) ((scopeOf_alone' cfg kvs kv.1 hnr).trans hsc),
      (hst1 _).1]
    have hsim : ∀ kv' : Str × Json,
        OutSim (runKeyword env impl cfg rec i (.obj (aloneKvs cfg kvs kv.1)) kv' none st1)
               (runKeyword env impl cfg rec i (.obj kvs) kv' none st1) :=
      fun kv' => runKeyword_sim env impl cfg rec i _ _ kv' (sameSiblings_alone cfg kvs kv.1) none st1
    rw [seqG_kInd_errs _ st1 _ st1 (fun kv' _ => hK _ kv') hw1
      (fun kv' h => (hsim kv').2.1.trans (hWdone kv' (hsub _ _ h)))]
    rw [List.filter_flatMap, List.map_flatMap,
      flatMap_congr_mem (g := fun kv' =>
        ((runKeyword env impl cfg rec i (.obj kvs) kv' none st1).errs.filter (attrTo kv.1)).map eraseSch)
        (fun kv' _ => filter_attr_eraseSch (hsim kv').1 kv.1),
      flatMap_filter_of_nil (p := fun p : Str × Json => p.1 == kv.1)]
    · have hone : (aloneKvs cfg kvs kv.1).filter (fun p => p.1 == kv.1) = [kv] := by
        unfold aloneKvs
        rw [List.filter_filter]
        have : (fun a : Str × Json => (a.1 == kv.1) && (a.1 == kv.1 || Spec.consulted.contains a.1 || a.1 == cfg.idKey))
            = fun a => a.1 == kv.1 := by
          funext a
          cases a.1 == kv.1 <;> rfl
        rw [this]
        exact filter_key_eq hwf hkv
      rw [hone, List.flatMap_cons, List.flatMap_nil, List.append_nil,
        List.filter_eq_self.mpr (runKeyword_attr env impl F.ifOnly rec i _ kv (lookup_none_key hnr hkv) none st1)]
    · intro kv' hkv' hne
      have hkeep := (List.mem_filter.mp hkv').2
      rw [sibling_not_attr env impl F rec i _ kv.1 kv' hne ?_ (lookup_none_key hnr (hsub _ _ hkv')) none st1]
      · rfl
      · simp only [hne, Bool.false_or, Bool.or_eq_true, beq_iff_eq] at hkeep
        exact hkeep

end JS
