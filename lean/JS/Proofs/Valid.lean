/- Helper lemmas for C01: per-keyword equivalence between the model and `Spec.validN`. -/
import JS.Eval
import JS.Spec.Valid
import JS.Spec.Domain
import JS.Proofs.Equality
import JS.Proofs.Numeric
import JS.Proofs.Prefix
import Mathlib.Data.Rat.Defs
namespace JS
open Spec

/-! ### verdicts of generators

`Ex g v`: the exhaustive run of `g` ends normally and yields no error exactly when `v`.
`One g v`: the run that is closed at the first error ends normally or is closed, and yields
no error exactly when `v`.

Both are instances of `Vd T P g v`, the verdict of `g` *relative to a predicate `P` on resolver
states* and *for every budget*: from a state satisfying `P`, a run that ends normally yields no
error exactly when `v` and leaves a state satisfying `P`; a run that is closed by its consumer has
yielded an error, `v = false`, and it leaves a state satisfying `P`; and — when `T` holds
("termination is guaranteed": the reference-free case) — every run ends normally or is closed.
With `T := False` nothing is claimed about runs that stop otherwise (out of fuel, an exception of
the resolver): the case of schemas with references (JS.Proofs.ValidRef). -/

def Ex (g : Gen) (v : Bool) : Prop :=
  ∀ st, (g none st).stop = .done ∧ (g none st).errs.isEmpty = v

def One (g : Gen) (v : Bool) : Prop :=
  ∀ st, ((g (some 1) st).stop = .done ∨ (g (some 1) st).stop = .budget)
    ∧ (g (some 1) st).errs.isEmpty = v

def Ok (g : Gen) (v : Bool) : Prop := Ex g v ∧ One g v

/-- `n` errors fit into the budget `b` with room to spare -/
def fits (b : Option Nat) (n : Nat) : Prop := ∀ k, b = some k → n < k

theorem fits_zero {b : Option Nat} (hb : b ≠ some 0) : fits b 0 := by
  intro k hk
  subst hk
  exact Nat.pos_of_ne_zero (fun h => hb (by rw [h]))

theorem budgetSub_ne {b : Option Nat} {n : Nat} (hf : fits b n) : budgetSub b n ≠ some 0 := by
  cases b with
  | none => nofun
  | some k =>
    have := hf k rfl
    intro h
    have h' : k - n = 0 := by simpa [budgetSub] using h
    omega

theorem fits_add {b : Option Nat} {n m : Nat} (hf : fits b n) (hm : fits (budgetSub b n) m) :
    fits b (n + m) := by
  intro k hk
  subst hk
  have h1 := hf k rfl
  have h2 := hm (k - n) rfl
  omega

/-- the verdict of `g`, relative to the state predicate `P`, for every budget -/
structure Vd (T : Prop) (P : RState → Prop) (g : Gen) (v : Bool) : Prop where
  term : T → ∀ b st, b ≠ some 0 → P st →
    (g b st).stop = .done ∨ ((g b st).stop = .budget ∧ b ≠ none)
  done : ∀ b st, b ≠ some 0 → P st → (g b st).stop = .done →
    fits b (g b st).errs.length ∧ (g b st).errs.isEmpty = v ∧ P (g b st).st
  budget : ∀ b st, b ≠ some 0 → P st → (g b st).stop = .budget →
    (g b st).errs.isEmpty = false ∧ v = false ∧ P (g b st).st

variable {T : Prop} {P : RState → Prop}

theorem Vd.congr {g : Gen} {v w : Bool} (h : Vd T P g v) (e : v = w) : Vd T P g w := e ▸ h

/-- the unconditional, state-independent instance gives the two classical verdicts -/
theorem Vd.ok {g : Gen} {v : Bool} (h : Vd True (fun _ => True) g v) : Ok g v := by
  refine ⟨fun st => ?_, fun st => ?_⟩
  · rcases h.term trivial none st nofun trivial with hd | ⟨_, hb⟩
    · exact ⟨hd, (h.done none st nofun trivial hd).2.1⟩
    · exact absurd rfl hb
  · rcases h.term trivial (some 1) st (by decide) trivial with hd | ⟨hb, _⟩
    · exact ⟨Or.inl hd, (h.done (some 1) st (by decide) trivial hd).2.1⟩
    · have := h.budget (some 1) st (by decide) trivial hb
      exact ⟨Or.inr hb, by rw [this.1, this.2.1]⟩

theorem Vd.ex {g : Gen} {v : Bool} (h : Vd True (fun _ => True) g v) : Ex g v := h.ok.1

theorem ex_nothing : Vd T P nothing true :=
  ⟨fun _ _ _ _ _ => Or.inl rfl, fun _ _ hb hp _ => ⟨fits_zero hb, rfl, hp⟩, fun _ _ _ _ h => nomatch h⟩

theorem ex_emit (es : List Err) : Vd T P (emit es) es.isEmpty := by
  refine ⟨fun _ b st hb _ => ?_, fun b st hb hp hd => ?_, fun b st hb hp hd => ?_⟩
  · cases b with
    | none => exact Or.inl rfl
    | some k =>
      simp only [emit]
      split
      · exact Or.inl rfl
      · exact Or.inr ⟨rfl, nofun⟩
  · cases b with
    | none => exact ⟨nofun, rfl, hp⟩
    | some k =>
      simp only [emit] at hd ⊢
      split at hd
      · rename_i hlt
        rw [if_pos hlt]
        exact ⟨fun k' hk' => by cases hk'; exact hlt, rfl, hp⟩
      · cases hd
  · cases b with
    | none => cases hd
    | some k =>
      simp only [emit] at hd ⊢
      split at hd
      · cases hd
      · rename_i hge
        rw [if_neg hge]
        have hk : 0 < k := Nat.pos_of_ne_zero (fun h => hb (by rw [h]))
        have hlen : 0 < es.length := by omega
        cases es with
        | nil => simp at hlen
        | cons e es =>
          obtain ⟨k', rfl⟩ := Nat.exists_eq_succ_of_ne_zero (by omega : k ≠ 0)
          exact ⟨rfl, rfl, hp⟩

theorem ex_emit_one (e : Err) : Vd T P (emit [e]) false := ex_emit [e]

theorem ex_ite_emit (c : Bool) (e : Err) : Vd T P (if c then emit [e] else nothing) (!c) := by
  cases c
  · exact ex_nothing
  · exact ex_emit_one e

theorem ex_ite_nothing (c : Bool) (e : Err) : Vd T P (if c then nothing else emit [e]) c := by
  cases c
  · exact ex_emit_one e
  · exact ex_nothing

theorem ex_andThen {g h : Gen} {a b : Bool} (hg : Vd T P g a) (hh : Vd T P h b) :
    Vd T P (andThen g h) (a && b) := by
  have key : ∀ bd st, bd ≠ some 0 → P st → (g bd st).stop = .done →
      fits bd (g bd st).errs.length ∧ (g bd st).errs.isEmpty = a ∧ P (g bd st).st
      ∧ budgetSub bd (g bd st).errs.length ≠ some 0
      ∧ andThen g h bd st =
        ⟨(g bd st).errs ++ (h (budgetSub bd (g bd st).errs.length) (g bd st).st).errs,
          (h (budgetSub bd (g bd st).errs.length) (g bd st).st).stop,
          (h (budgetSub bd (g bd st).errs.length) (g bd st).st).st⟩ := by
    intro bd st hbd hp hd
    obtain ⟨h1, h2, h3⟩ := hg.done bd st hbd hp hd
    refine ⟨h1, h2, h3, budgetSub_ne h1, ?_⟩
    rcases hgn : g bd st with ⟨es, s, st'⟩
    rw [hgn] at hd
    dsimp only at hd
    subst hd
    exact andThen_done hgn
  refine ⟨fun t bd st hbd hp => ?_, fun bd st hbd hp hd => ?_, fun bd st hbd hp hd => ?_⟩
  · rcases hg.term t bd st hbd hp with hd | ⟨hbu, hne⟩
    · obtain ⟨_, _, h3, h4, h5⟩ := key bd st hbd hp hd
      rw [h5]
      dsimp only
      rcases hh.term t _ _ h4 h3 with hd' | ⟨hbu', hne'⟩
      · exact Or.inl hd'
      · refine Or.inr ⟨hbu', ?_⟩
        rintro rfl
        exact hne' rfl
    · rw [andThen_notDone (by rw [hbu]; nofun)]
      exact Or.inr ⟨hbu, hne⟩
  · by_cases hgd : (g bd st).stop = .done
    · obtain ⟨h1, h2, h3, h4, h5⟩ := key bd st hbd hp hgd
      rw [h5] at hd ⊢
      dsimp only at hd ⊢
      obtain ⟨k1, k2, k3⟩ := hh.done _ _ h4 h3 hd
      refine ⟨?_, ?_, k3⟩
      · rw [List.length_append]; exact fits_add h1 k1
      · rw [← h2, ← k2]
        cases (g bd st).errs <;> simp
    · rw [andThen_notDone hgd] at hd
      exact absurd hd hgd
  · by_cases hgd : (g bd st).stop = .done
    · obtain ⟨h1, h2, h3, h4, h5⟩ := key bd st hbd hp hgd
      rw [h5] at hd ⊢
      dsimp only at hd ⊢
      obtain ⟨k1, k2, k3⟩ := hh.budget _ _ h4 h3 hd
      refine ⟨?_, by rw [k2, Bool.and_false], k3⟩
      revert k1
      cases (h (budgetSub bd (g bd st).errs.length) (g bd st).st).errs <;> simp
    · rw [andThen_notDone hgd] at hd ⊢
      obtain ⟨k1, k2, k3⟩ := hg.budget bd st hbd hp hd
      exact ⟨k1, by rw [k2, Bool.false_and], k3⟩

theorem ex_seqG {α : Type} (f : α → Gen) (p : α → Bool) (xs : List α)
    (h : ∀ x ∈ xs, Vd T P (f x) (p x)) : Vd T P (seqG f xs) (xs.all p) := by
  induction xs with
  | nil => exact ex_nothing
  | cons x xs ih =>
    rw [List.all_cons]
    exact ex_andThen (h x (List.mem_cons_self ..)) (ih (fun y hy => h y (List.mem_cons_of_mem _ hy)))

theorem ex_mapErrs (f : Err → Err) {g : Gen} {v : Bool} (h : Vd T P g v) : Vd T P (mapErrs f g) v := by
  refine ⟨fun t b st hb hp => ?_, fun b st hb hp hd => ?_, fun b st hb hp hd => ?_⟩
  · rw [mapErrs_eq]; exact h.term t b st hb hp
  · rw [mapErrs_eq] at hd ⊢
    obtain ⟨h1, h2, h3⟩ := h.done b st hb hp hd
    refine ⟨by dsimp only; rw [List.length_map]; exact h1, ?_, h3⟩
    dsimp only
    rw [← h2]
    cases (g b st).errs <;> rfl
  · rw [mapErrs_eq] at hd ⊢
    obtain ⟨h1, h2, h3⟩ := h.budget b st hb hp hd
    refine ⟨?_, h2, h3⟩
    dsimp only
    rw [← h1]
    cases (g b st).errs <;> rfl

theorem ex_descendG {g : Gen} {v : Bool} (p sp : Option PathElem) (h : Vd T P g v) :
    Vd T P (descendG g p sp) v := ex_mapErrs _ h

/-- `g` run as its own consumer with budget `b'` inside a keyword function -/
theorem ex_inner {g : Gen} {v w : Bool} (b' : Option Nat) (hb' : b' ≠ some 0) (k : List Err → Gen)
    (hg : Vd T P g v) (hk : ∀ es, es.isEmpty = v → Vd T P (k es) w) : Vd T P (inner g b' k) w := by
  have key : ∀ b st, P st →
      ((g b' st).stop = .done ∨ (g b' st).stop = .budget) →
      (g b' st).errs.isEmpty = v ∧ P (g b' st).st
        ∧ inner g b' k b st = k (g b' st).errs b (g b' st).st := by
    intro b st hp hs
    have heq : inner g b' k b st = k (g b' st).errs b (g b' st).st := by
      unfold inner
      rcases hgn : g b' st with ⟨es, s, st'⟩
      rw [hgn] at hs
      dsimp only at hs
      rcases hs with rfl | rfl <;> rfl
    rcases hs with hs | hs
    · obtain ⟨_, h2, h3⟩ := hg.done b' st hb' hp hs
      exact ⟨h2, h3, heq⟩
    · obtain ⟨h1, h2, h3⟩ := hg.budget b' st hb' hp hs
      exact ⟨by rw [h1, h2], h3, heq⟩
  have other : ∀ b st, ¬ ((g b' st).stop = .done ∨ (g b' st).stop = .budget) →
      (inner g b' k b st).stop = (g b' st).stop := by
    intro b st hs
    unfold inner
    rcases hgn : g b' st with ⟨es, s, st'⟩
    rw [hgn] at hs
    dsimp only at hs
    cases s <;> first | rfl | exact absurd (Or.inl rfl) hs | exact absurd (Or.inr rfl) hs
  refine ⟨fun t b st hb hp => ?_, fun b st hb hp hd => ?_, fun b st hb hp hd => ?_⟩
  · have hs : (g b' st).stop = .done ∨ (g b' st).stop = .budget := by
      rcases hg.term t b' st hb' hp with h | ⟨h, _⟩
      · exact Or.inl h
      · exact Or.inr h
    obtain ⟨h1, h2, h3⟩ := key b st hp hs
    rw [h3]
    exact (hk _ h1).term t b _ hb h2
  · by_cases hs : (g b' st).stop = .done ∨ (g b' st).stop = .budget
    · obtain ⟨h1, h2, h3⟩ := key b st hp hs
      rw [h3] at hd ⊢
      exact (hk _ h1).done b _ hb h2 hd
    · rw [other b st hs] at hd
      exact absurd (Or.inl hd) hs
  · by_cases hs : (g b' st).stop = .done ∨ (g b' st).stop = .budget
    · obtain ⟨h1, h2, h3⟩ := key b st hp hs
      rw [h3] at hd ⊢
      exact (hk _ h1).budget b _ hb h2 hd
    · rw [other b st hs] at hd
      exact absurd (Or.inr hd) hs

/-- `list(g)` inside a keyword function -/
theorem ex_inner_none {g : Gen} {v w : Bool} (k : List Err → Gen) (hg : Vd T P g v)
    (hk : ∀ es, es.isEmpty = v → Vd T P (k es) w) : Vd T P (inner g none k) w :=
  ex_inner none nofun k hg hk

/-- `is_valid` inside a keyword function -/
theorem ex_innerValid {g : Gen} {v w : Bool} (k : Bool → Gen) (hg : Vd T P g v)
    (hk : Vd T P (k v) w) : Vd T P (innerValid g k) w :=
  ex_inner (some 1) (by decide) (fun es => k es.isEmpty) hg (fun es hes => by rw [hes]; exact hk)

/-- `withScope` between two state predicates: entering establishes the inner one (and the join
    succeeds), leaving re-establishes the outer one -/
theorem vd_withScope (env : Env) (scope : Str) {P' : RState → Prop} {g : Gen} {v : Bool}
    (hin : ∀ st, P st → ∃ u, env.urljoin st.top scope = some u ∧ P' { st with scopes := u :: st.scopes })
    (hout : ∀ st', P' st' → P { st' with scopes := st'.scopes.tail })
    (h : Vd T P' g v) : Vd T P (withScope env scope g) v := by
  refine ⟨fun t b st hb hp => ?_, fun b st hb hp hd => ?_, fun b st hb hp hd => ?_⟩
  · obtain ⟨u, hu, hp'⟩ := hin st hp
    rw [withScope_some hu]
    exact h.term t b _ hb hp'
  · obtain ⟨u, hu, hp'⟩ := hin st hp
    rw [withScope_some hu] at hd ⊢
    obtain ⟨h1, h2, h3⟩ := h.done b _ hb hp' hd
    exact ⟨h1, h2, hout _ h3⟩
  · obtain ⟨u, hu, hp'⟩ := hin st hp
    rw [withScope_some hu] at hd ⊢
    obtain ⟨h1, h2, h3⟩ := h.budget b _ hb hp' hd
    exact ⟨h1, h2, hout _ h3⟩

theorem ex_withScope (env : Env) (hurl : UrlTotal env) (scope : Str) {g : Gen} {v : Bool}
    (h : Vd T (fun _ => True) g v) : Vd T (fun _ => True) (withScope env scope g) v := by
  refine vd_withScope env scope (fun st _ => ?_) (fun _ _ => trivial) h
  have hj := hurl.1 st.top scope
  cases hu : env.urljoin st.top scope with
  | none => rw [hu] at hj; cases hj
  | some u => exact ⟨u, rfl, trivial⟩

theorem ex_withScopeOpt (env : Env) (hurl : UrlTotal env) (scope : Option Str) {g : Gen} {v : Bool}
    (h : Vd T (fun _ => True) g v) : Vd T (fun _ => True) (withScopeOpt env scope g) v := by
  cases scope with
  | none => exact h
  | some s => exact ex_withScope env hurl s h

theorem withRes_ok {α : Type} (a : α) (k : α → Gen) : withRes (.ok a) k = k a := rfl

theorem gate_ok {cfg : Cfg} {inst : Json} {name : String} {b : Bool} (k : Gen)
    (h : isTypeS cfg inst name = .ok b) : gate cfg inst name k = if b then k else nothing := by
  unfold gate
  rw [h]
  rfl

/-! ### numbers and the type tables -/

theorem isInt_iff_den (q : Rat) : Spec.isInt q ↔ q.den = 1 := by
  constructor
  · rintro ⟨n, rfl⟩; exact Rat.den_intCast n
  · intro h; exact ⟨q.num, ((Rat.den_eq_one_iff q).mp h).symm⟩

theorem isIntegral_eq_den (n : Num) : n.isIntegral = decide ((val n).den = 1) := by
  rw [Bool.eq_iff_iff, Num.isIntegral_iff, isInt_iff_den, decide_eq_true_eq]

theorem isTypeS_object (d : Draft) (x : Json) : isTypeS (d.cfg none) x "object" = .ok x.isObj := by
  cases d <;> rfl
theorem isTypeS_array (d : Draft) (x : Json) : isTypeS (d.cfg none) x "array" = .ok x.isArr := by
  cases d <;> rfl
theorem isTypeS_string (d : Draft) (x : Json) : isTypeS (d.cfg none) x "string" = .ok x.isStr := by
  cases d <;> rfl
theorem isTypeS_num (d : Draft) (x : Json) : isTypeS (d.cfg none) x "number" = .ok x.isNumJ := by
  cases d <;> rfl

theorem hasType_integer_d34 (d : Draft) (hd : d = .d3 ∨ d = .d4) (x : Json) :
    hasType d (ks "integer") x = TyFn.apply .isInteger x := by
  rcases hd with rfl | rfl <;> cases x <;> simp [hasType, ks, TyFn.apply] <;>
    (rename_i n; cases n <;> simp)

theorem hasType_integer_d67 (d : Draft) (hd : d = .d6 ∨ d = .d7) (x : Json) :
    hasType d (ks "integer") x = TyFn.apply .isIntegerOrIntFloat x := by
  rcases hd with rfl | rfl <;> cases x <;> simp [hasType, ks, TyFn.apply] <;>
    (rename_i n; cases n
     · simp [Num.isIntegral]
     · simp [isIntegral_eq_den])

/-- the type table of every draft decides `Spec.hasType` for the names the draft defines -/
theorem isType_known (d : Draft) (t : Str) (h : (typeNames d).contains t = true) (x : Json) :
    isType (d.cfg none) x (.str t) = .ok (hasType d t x) := by
  cases d <;> simp [typeNames] at h <;>
    rcases h with rfl | rfl | rfl | rfl | rfl | rfl | rfl | rfl | rfl
  all_goals first
    | rfl
    | (rw [hasType_integer_d34 _ (by simp)]; rfl)
    | (rw [hasType_integer_d67 _ (by simp)]; rfl)

/-! ### the clauses of `Spec.validN` and `Spec.shapedN`, one schema member at a time -/

theorem validN_succ_obj (env : Env) (d : Draft) (n : Nat) (kvs : List (Str × Json)) (i : Json) :
    validN env d (n + 1) (.obj kvs) i = kvs.all (clause env d (validN env d n) kvs i) := rfl

theorem shapedN_succ_obj (refs : Bool) (d : Draft) (n : Nat) (kvs : List (Str × Json)) :
    shapedN refs d (n + 1) (.obj kvs) =
      ((match lookupJ (if (d = .d6 || d = .d7) then "$id" else "id") kvs with
          | some v => isStrJ v | none => true) &&
        match lookupJ "$ref" kvs with
        | some r => refs && isStrJ r
        | none => kvs.all (shapeClause d (shapedN refs d n))) := rfl

theorem size_arr (xs : List Json) : (Json.arr xs).size = 1 + Json.size.sizeList xs := by
  simp [Json.size]
theorem size_obj (kvs : List (Str × Json)) : (Json.obj kvs).size = 1 + Json.size.sizeKvs kvs := by
  simp [Json.size]

theorem sizeList_mem {x : Json} {xs : List Json} (h : x ∈ xs) : x.size ≤ Json.size.sizeList xs := by
  induction xs with
  | nil => cases h
  | cons y ys ih =>
    simp only [Json.size.sizeList]
    rcases List.mem_cons.mp h with rfl | h
    · omega
    · have := ih h; omega

theorem sizeKvs_mem {k : Str} {v : Json} {kvs : List (Str × Json)} (h : (k, v) ∈ kvs) :
    v.size + 1 ≤ Json.size.sizeKvs kvs := by
  induction kvs with
  | nil => cases h
  | cons y ys ih =>
    obtain ⟨k', v'⟩ := y
    simp only [Json.size.sizeKvs]
    rcases List.mem_cons.mp h with h | h
    · cases h; omega
    · have := ih h; omega

theorem size_lt_of_mem_arr {x : Json} {xs : List Json} (h : x ∈ xs) : x.size < (Json.arr xs).size := by
  rw [size_arr]; have := sizeList_mem h; omega

theorem size_lt_of_mem_obj {k : Str} {v : Json} {kvs : List (Str × Json)} (h : (k, v) ∈ kvs) :
    v.size + 1 < (Json.obj kvs).size := by
  rw [size_obj]; have := sizeKvs_mem h; omega

theorem lookup_mem {k : Str} {v : Json} {kvs : List (Str × Json)} (h : Json.lookup k kvs = some v) :
    (k, v) ∈ kvs := by
  induction kvs with
  | nil => cases h
  | cons y ys ih =>
    obtain ⟨k', v'⟩ := y
    simp only [Json.lookup] at h
    split at h
    · cases h; subst_vars; exact List.mem_cons_self ..
    · exact List.mem_cons_of_mem _ (ih h)

theorem all_congr_mem {α : Type} (xs : List α) (f g : α → Bool) (h : ∀ x ∈ xs, f x = g x) :
    xs.all f = xs.all g := by
  induction xs with
  | nil => rfl
  | cons x xs ih =>
    simp only [List.all_cons]
    rw [h x (List.mem_cons_self ..), ih (fun y hy => h y (List.mem_cons_of_mem _ hy))]

theorem ite_cb {α : Sort _} {c : Prop} [Decidable c] {a a' b b' : α} (h1 : c → a = a')
    (h2 : ¬c → b = b') : ite c a b = ite c a' b' := by
  split
  · exact h1 ‹_›
  · exact h2 ‹_›

theorem clause_congr (env : Env) (d : Draft) (sub1 sub2 : Json → Json → Bool)
    (kvs : List (Str × Json)) (i : Json) (k : Str) (v : Json) (hmem : (k, v) ∈ kvs)
    (h : ∀ s', s'.size < (Json.obj kvs).size → ∀ i', sub1 s' i' = sub2 s' i') :
    clause env d sub1 kvs i (k, v) = clause env d sub2 kvs i (k, v) := by
  have hsz := size_lt_of_mem_obj hmem
  have hv : ∀ i', sub1 v i' = sub2 v i' := h v (by omega)
  have harr : ∀ ts, v = .arr ts → ∀ t ∈ ts, ∀ i', sub1 t i' = sub2 t i' := by
    intro ts e t ht
    subst e
    have := size_lt_of_mem_arr ht
    exact h t (by omega)
  have hobj : ∀ ps, v = .obj ps → ∀ p ∈ ps, ∀ i', sub1 p.2 i' = sub2 p.2 i' := by
    intro ps e p hp
    subst e
    have := size_lt_of_mem_obj (k := p.1) (v := p.2) hp
    exact h p.2 (by omega)
  have hlk : ∀ key t, lookupJ key kvs = some t → ∀ i', sub1 t i' = sub2 t i' := by
    intro key t e
    have := size_lt_of_mem_obj (lookup_mem e)
    exact h t (by omega)
  unfold clause
  dsimp only
  refine ite_cb (fun _ => rfl) (fun _ => ?_)
  refine ite_cb (fun _ => ?_) (fun _ => ?_)
  · cases v <;> try rfl
    rename_i ts
    exact any_congr_mem _ _ _ (fun t ht => by cases t <;> first | rfl | exact harr ts rfl _ ht i)
  refine ite_cb (fun _ => ?_) (fun _ => ?_)
  · cases v <;> try rfl
    rename_i ts
    exact all_congr_mem _ _ _ (fun t ht => by
      cases t <;> first | rfl | (dsimp only; rw [harr ts rfl _ ht i]))
  refine ite_cb (fun _ => ?_) (fun _ => ?_)
  · cases v <;> try rfl
    · rename_i ts
      exact all_congr_mem _ _ _ (fun t ht => harr ts rfl _ ht i)
    · exact hv i
  refine ite_cb (fun _ => rfl) (fun _ => ?_)
  refine ite_cb (fun _ => rfl) (fun _ => ?_)
  refine ite_cb (fun _ => ?_) (fun _ => ?_)
  · cases v <;> try rfl
    rename_i ts
    exact all_congr_mem _ _ _ (fun t ht => harr ts rfl _ ht i)
  refine ite_cb (fun _ => ?_) (fun _ => ?_)
  · cases v <;> try rfl
    rename_i ts
    exact any_congr_mem _ _ _ (fun t ht => harr ts rfl _ ht i)
  refine ite_cb (fun _ => ?_) (fun _ => ?_)
  · cases v <;> try rfl
    rename_i ts
    dsimp only
    rw [List.filter_congr (fun t ht => harr ts rfl _ ht i)]
  refine ite_cb (fun _ => ?_) (fun _ => ?_)
  · rw [hv i]
  refine ite_cb (fun _ => ?_) (fun _ => ?_)
  · rw [hv i]
    refine ite_cb (fun _ => ?_) (fun _ => ?_)
    · cases h1 : lookupJ "then" kvs with
      | none => rfl
      | some t => exact hlk _ _ h1 i
    · cases h1 : lookupJ "else" kvs with
      | none => rfl
      | some t => exact hlk _ _ h1 i
  unfold clTyped
  cases i <;> try rfl
  · rename_i xs
    unfold clArr
    dsimp only
    refine ite_cb (fun _ => ?_) (fun _ => ?_)
    · cases v
      case arr ts =>
        refine all_congr_mem _ _ _ (fun p hp => harr ts rfl _ (List.of_mem_zip hp).2 _)
      all_goals exact all_congr_mem _ _ _ (fun x _ => hv x)
    refine ite_cb (fun _ => ?_) (fun _ => ?_)
    · cases lookupJ "items" kvs <;> try rfl
      rename_i it
      cases it <;> try rfl
      cases v
      case bool b => cases b <;> rfl
      all_goals exact all_congr_mem _ _ _ (fun x _ => hv x)
    refine ite_cb (fun _ => rfl) (fun _ => ?_)
    refine ite_cb (fun _ => rfl) (fun _ => ?_)
    refine ite_cb (fun _ => rfl) (fun _ => ?_)
    refine ite_cb (fun _ => ?_) (fun _ => rfl)
    exact any_congr_mem _ _ _ (fun x _ => hv x)
  · rename_i ms
    unfold clObj
    dsimp only
    refine ite_cb (fun _ => ?_) (fun _ => ?_)
    · cases v <;> try rfl
      rename_i ps
      dsimp only
      congr 1
      refine all_congr_mem _ _ _ (fun m _ => ?_)
      cases hl : Json.lookup m.1 ps with
      | none => rfl
      | some s => exact hobj ps rfl (m.1, s) (lookup_mem hl) _
    refine ite_cb (fun _ => ?_) (fun _ => ?_)
    · cases v <;> try rfl
      rename_i ps
      refine all_congr_mem _ _ _ (fun m _ => all_congr_mem _ _ _ (fun p hp => ?_))
      rw [hobj ps rfl p hp]
    refine ite_cb (fun _ => ?_) (fun _ => ?_)
    · cases v
      case bool b => cases b <;> rfl
      all_goals exact all_congr_mem _ _ _ (fun m _ => by rw [hv])
    refine ite_cb (fun _ => rfl) (fun _ => ?_)
    refine ite_cb (fun _ => rfl) (fun _ => ?_)
    refine ite_cb (fun _ => rfl) (fun _ => ?_)
    refine ite_cb (fun _ => ?_) (fun _ => ?_)
    · cases v <;> try rfl
      rename_i ds
      refine all_congr_mem _ _ _ (fun dp hdp => ?_)
      have := hobj ds rfl dp hdp (Json.obj ms)
      rcases dp with ⟨dk, dv⟩
      cases dv <;> first | rfl | (dsimp only at this ⊢; rw [this])
    refine ite_cb (fun _ => ?_) (fun _ => rfl)
    exact all_congr_mem _ _ _ (fun m _ => hv _)
theorem validN_stable (env : Env) (d : Draft) : ∀ (N : Nat) (s : Json), s.size ≤ N →
    ∀ n m i, s.size < n → s.size < m → validN env d n s i = validN env d m s i := by
  intro N
  induction N with
  | zero =>
    intro s hs n m i hn hm
    cases s <;> simp [Json.size] at hs
  | succ N ih =>
    intro s hs n m i hn hm
    obtain ⟨n', rfl⟩ := Nat.exists_eq_succ_of_ne_zero (by omega : n ≠ 0)
    obtain ⟨m', rfl⟩ := Nat.exists_eq_succ_of_ne_zero (by omega : m ≠ 0)
    cases s with
    | obj kvs =>
      rw [validN_succ_obj, validN_succ_obj]
      refine all_congr_mem _ _ _ (fun kv hkv => ?_)
      obtain ⟨k, v⟩ := kv
      exact clause_congr env d _ _ kvs i k v hkv
        (fun s' hs' i' => ih s' (by omega) n' m' i' (by omega) (by omega))
    | _ => rfl

theorem valid_fuel_stable' (env : Env) (d : Draft) (s i : Json) (n : Nat) (hn : s.size < n) :
    validN env d n s i = valid env d s i :=
  validN_stable env d s.size s (Nat.le_refl _) n (s.size + 1) i hn (Nat.lt_succ_self _)

/-! ### list helpers -/

theorem mem_enumFrom {α : Type} {t : Nat × α} {n : Nat} {xs : List α} (h : t ∈ enumFrom n xs) :
    t.2 ∈ xs := by
  induction xs generalizing n with
  | nil => cases h
  | cons x xs ih =>
    simp only [enumFrom] at h
    rcases List.mem_cons.mp h with rfl | h
    · exact List.mem_cons_self ..
    · exact List.mem_cons_of_mem _ (ih h)

theorem all_enumFrom {α : Type} (p : α → Bool) (n : Nat) (xs : List α) :
    (enumFrom n xs).all (fun t => p t.2) = xs.all p := by
  induction xs generalizing n with
  | nil => rfl
  | cons x xs ih => simp only [enumFrom, List.all_cons, ih]

theorem ex_seqG_enum {α : Type} (f : Nat × α → Gen) (p : α → Bool) (n : Nat) (xs : List α)
    (h : ∀ m, ∀ x ∈ xs, Vd T P (f (m, x)) (p x)) : Vd T P (seqG f (enumFrom n xs)) (xs.all p) := by
  rw [← all_enumFrom p n xs]
  exact ex_seqG f _ _ (fun t ht => h t.1 t.2 (mem_enumFrom ht))

/-! ### `type` (drafts 4, 6, 7) -/

/-- the value of one entry of a `type`/`disallow` array -/
def tyval (d : Draft) (sub : Json → Json → Bool) (i : Json) (t : Json) : Bool :=
  match t with | .str t => hasType d t i | .obj _ => sub t i | _ => false

theorem anyType_known (d : Draft) (i : Json) (ts : List Json)
    (h : ∀ t ∈ ts, ∃ n, t = .str n ∧ (typeNames d).contains n = true) :
    anyType (d.cfg none) i ts
      = .ok (ts.any (fun t => match t with | .str t => hasType d t i | _ => false)) := by
  induction ts with
  | nil => rfl
  | cons t ts ih =>
    obtain ⟨n, rfl, hn⟩ := h t (List.mem_cons_self ..)
    have ih' := ih (fun t ht => h t (List.mem_cons_of_mem _ ht))
    unfold anyType
    rw [isType_known d n hn, List.any_cons]
    dsimp only
    cases hasType d n i
    · rw [Bool.false_or]; exact ih'
    · rfl

theorem ex_kwType_str (d : Draft) (i : Json) (n : Str) (hn : (typeNames d).contains n = true) :
    Vd T P (kwType (d.cfg none) (.str n) i) (hasType d n i) := by
  unfold kwType
  simp only [ensureList]
  have h := anyType_known d i [.str n] (fun t ht => by rw [List.mem_singleton] at ht; exact ⟨n, ht, hn⟩)
  rw [h, withRes_ok]
  simp only [List.any_cons, List.any_nil, Bool.or_false]
  exact ex_ite_nothing _ _

theorem ex_kwType_arr (d : Draft) (i : Json) (ts : List Json)
    (h : ∀ t ∈ ts, ∃ n, t = .str n ∧ (typeNames d).contains n = true) :
    Vd T P (kwType (d.cfg none) (.arr ts) i)
      (ts.any (fun t => match t with | .str t => hasType d t i | _ => false)) := by
  unfold kwType
  simp only [ensureList]
  rw [anyType_known d i ts h, withRes_ok]
  exact ex_ite_nothing _ _

/-! ### `enum`, `const` -/

theorem ex_kwEnum (es : List Json) (i : Json) (hes : WF (.arr es) = true) (hi : WF i = true) :
    Vd T P (kwEnum (.arr es) i) (es.any (jsonEq i)) := by
  unfold kwEnum
  dsimp only
  have hall : es.all (fun each => !equal i each) = !es.any (jsonEq i) := by
    rw [← any_congr_mem es (equal i) (jsonEq i)
      (fun e he => equal_eq_jsonEq i e hi (WF_arr hes e he))]
    clear hes
    induction es with
    | nil => rfl
    | cons e es ih => simp only [List.all_cons, List.any_cons, ih, Bool.not_or]
  rw [hall]
  cases es.any (jsonEq i)
  · exact ex_emit_one _
  · exact ex_nothing

theorem ex_kwConst (c i : Json) (hc : WF c = true) (hi : WF i = true) :
    Vd T P (kwConst c i) (jsonEq i c) := by
  unfold kwConst
  rw [equal_eq_jsonEq i c hi hc]
  exact ex_ite_nothing _ _

/-! ### numeric bounds -/

theorem kwBound_nonnum' (d : Draft) (t : String) (f : Num → Num → Bool) (bound i : Json)
    (h : i.isNumJ = false) : kwBound (d.cfg none) t f bound i = nothing := by
  unfold kwBound
  rw [gate_ok _ (isTypeS_num d i), h]
  rfl

theorem ex_kwBound (d : Draft) (t : String) (f : Num → Num → Bool) (b x : Num) :
    Vd T P (kwBound (d.cfg none) t f (.num b) (.num x)) (!f x b) := by
  unfold kwBound
  rw [gate_ok _ (isTypeS_num d _)]
  simp only [Json.isNumJ, if_true, asNum]
  exact ex_ite_emit _ _

theorem not_lt_eq (a b : Num) : (!Num.lt a b) = decide (val b ≤ val a) := by
  by_cases h : val a < val b
  · rw [(Num.lt_iff a b).mpr h]; simp [not_le.mpr h]
  · rw [Bool.eq_false_iff.mpr (fun hh => h ((Num.lt_iff a b).mp hh))]; simp [not_lt.mp h]

theorem not_le_eq (a b : Num) : (!Num.le a b) = decide (val b < val a) := by
  by_cases h : val a ≤ val b
  · rw [(Num.le_iff a b).mpr h]; simp [not_lt.mpr h]
  · rw [Bool.eq_false_iff.mpr (fun hh => h ((Num.le_iff a b).mp hh))]; simp [not_le.mp h]

/-! ### `multipleOf` / `divisibleBy` on the exact sub-domain -/

theorem isDouble_of_le_two_pow_53 (m : Int) (h0 : 0 < m) (h1 : m ≤ 2 ^ 53) : isDouble (m : Rat) := by
  by_cases h : m < 2 ^ 53
  · refine ⟨m.toNat, 0, ?_, by omega, by omega, Or.inl ?_⟩
    · omega
    · have : ((m.toNat : Int)) = m := Int.toNat_of_nonneg (by omega)
      rw [zpow_zero, mul_one]
      exact_mod_cast this.symm
  · have : m = 2 ^ 53 := by omega
    refine ⟨1, 53, by norm_num, by omega, by omega, Or.inl ?_⟩
    rw [this]
    norm_num

theorem multipleOfFailed_safe (x : Num) (m : Int) (h0 : 0 < m) (h1 : m ≤ 2 ^ 53) :
    multipleOfFailed x (.int m) = .ok (!decide ((val x / val (.int m)).den = 1)) := by
  have hm : m ≠ 0 := by omega
  have hz : (Num.int m).isZero = false := by simp [Num.isZero, Num.sm, hm]
  cases x with
  | int i =>
    rw [multipleOfFailed_int i m hm]
    congr 1
    rw [Bool.eq_iff_iff]
    simp only [decide_eq_true_eq, Bool.not_eq_true', decide_eq_false_iff_not]
    rw [← isInt_iff_den]
    simp only [val]
    rw [isInt_div_iff i m hm]
  | flt n mx e =>
    rw [multipleOfFailed_int_divisor _ m rfl hm (isDouble_of_le_two_pow_53 m h0 h1)]
    congr 1
    rw [Bool.eq_iff_iff]
    simp only [decide_eq_true_eq, Bool.not_eq_true', decide_eq_false_iff_not]
    rw [← isInt_iff_den, ← Num.exactMultiple_iff _ _ hz]

theorem kwMultipleOf_nonnum (d : Draft) (v i : Json) (h : i.isNumJ = false) :
    kwMultipleOf (d.cfg none) v i = nothing := by
  unfold kwMultipleOf
  rw [gate_ok _ (isTypeS_num d i), h]
  rfl

theorem ex_kwMultipleOf (d : Draft) (x : Num) (m : Int) (h0 : 0 < m) (h1 : m ≤ 2 ^ 53) :
    Vd T P (kwMultipleOf (d.cfg none) (.num (.int m)) (.num x))
      (decide ((val x / val (.int m)).den = 1)) := by
  unfold kwMultipleOf
  rw [gate_ok _ (isTypeS_num d _)]
  simp only [Json.isNumJ, if_true, asNum, multipleOfFailed_safe x m h0 h1]
  cases decide ((val x / val (.int m)).den = 1)
  · exact ex_emit_one _
  · exact ex_nothing

/-! ### lengths -/

theorem kwLenBound_other (d : Draft) (ty t : String) (lt : Bool) (len : Json → Option Nat)
    (m i : Json) (b : Bool) (hty : isTypeS (d.cfg none) i ty = .ok b) (hb : b = false) :
    kwLenBound (d.cfg none) ty t lt len m i = nothing := by
  unfold kwLenBound
  rw [hty, hb]
  rfl

theorem ex_kwLenBound (d : Draft) (ty t : String) (lt : Bool) (len : Json → Option Nat)
    (b : Num) (i : Json) (n : Nat) (hty : isTypeS (d.cfg none) i ty = .ok true)
    (hlen : len i = some n) :
    Vd T P (kwLenBound (d.cfg none) ty t lt len (.num b) i)
      (if lt then decide (val b ≤ (n : Rat)) else decide ((n : Rat) ≤ val b)) := by
  unfold kwLenBound
  rw [hty, withRes_ok, hlen]
  simp only [Bool.not_true, Bool.false_eq_true, if_false, lenCmp, withRes_ok]
  have hv : val (.int (n : Int)) = (n : Rat) := by simp [val]
  cases lt
  · refine (ex_ite_emit _ _).congr ?_
    simp only [Bool.false_eq_true, if_false]
    rw [not_lt_eq, hv]
  · refine (ex_ite_emit _ _).congr ?_
    simp only [if_true]
    rw [not_lt_eq, hv]

/-! ### `pattern`, `uniqueItems`, `required`, `format` -/

theorem search_total (env : Env) (hre : RegexTotal env) (p s : Str) :
    search env p s = .ok (rx env p s) := by
  obtain ⟨b, hb⟩ := hre p s
  unfold search rx
  rw [hb]
  cases b <;> rfl

theorem kwPattern_nonstr (env : Env) (d : Draft) (v i : Json) (h : i.isStr = false) :
    kwPattern env (d.cfg none) v i = nothing := by
  unfold kwPattern
  rw [isTypeS_string, h]
  rfl

theorem ex_kwPattern (env : Env) (hre : RegexTotal env) (d : Draft) (p s : Str) :
    Vd T P (kwPattern env (d.cfg none) (.str p) (.str s)) (rx env p s) := by
  unfold kwPattern
  rw [isTypeS_string, withRes_ok]
  simp only [Json.isStr, Bool.not_true, Bool.false_eq_true, if_false, search_total env hre,
    withRes_ok]
  exact ex_ite_nothing _ _

theorem kwUniqueItems_nonarr (d : Draft) (v i : Json) (h : i.isArr = false) :
    kwUniqueItems (d.cfg none) v i = nothing := by
  unfold kwUniqueItems
  rw [isTypeS_array, h]
  split <;> rfl

theorem ex_kwUniqueItems (d : Draft) (b : Bool) (xs : List Json) (hxs : WF (.arr xs) = true) :
    Vd T P (kwUniqueItems (d.cfg none) (.bool b) (.arr xs)) (if isTrueJ (.bool b) then allDistinct xs else true) := by
  unfold kwUniqueItems
  cases b
  · exact ex_nothing
  · rw [isTypeS_array, withRes_ok]
    have hw : WFList xs = true := by simpa [WF] using hxs
    simp only [truthy, Json.isArr, Bool.not_true, Bool.false_eq_true, if_false, isTrueJ, if_true,
      uniq_eq_allDistinct xs hw]
    exact ex_ite_nothing _ _

theorem kwRequired_nonobj (d : Draft) (v i : Json) (h : i.isObj = false) :
    kwRequired (d.cfg none) v i = nothing := by
  unfold kwRequired
  rw [gate_ok _ (isTypeS_object d i), h]
  rfl

theorem ex_missing_str (ms : List (Str × Json)) (tmpl : String) (args : Json → List Json) (rs : List Json)
    (h : ∀ r ∈ rs, isStrJ r = true) :
    Vd T P (seqG (fun (p : Json) => withRes (missingKey ms p) fun miss =>
          if miss then emit [Err.fresh tmpl (args p)] else nothing) rs)
      (rs.all (fun r => match r with | .str r => Json.hasKey r ms | _ => true)) := by
  refine ex_seqG _ _ _ (fun r hr => ?_)
  have := h r hr
  cases r <;> simp [isStrJ] at this
  simp only [missingKey, withRes_ok]
  refine (ex_ite_emit _ _).congr ?_
  simp

theorem ex_kwRequired (d : Draft) (rs : List Json) (ms : List (Str × Json))
    (h : ∀ r ∈ rs, isStrJ r = true) :
    Vd T P (kwRequired (d.cfg none) (.arr rs) (.obj ms))
      (rs.all (fun r => match r with | .str r => Json.hasKey r ms | _ => true)) := by
  unfold kwRequired
  rw [gate_ok _ (isTypeS_object d _)]
  simp only [Json.isObj, if_true]
  exact ex_missing_str ms "required" (fun p => [p]) rs h

theorem kwFormat_none (env : Env) (impl : FmtImpl) (d : Draft) (v i : Json) :
    kwFormat env impl (d.cfg none) v i = nothing := rfl

variable {rec : Rec} {sub : Json → Json → Bool}

/-! ### applicators: `allOf`, `not`, `if`, `extends`, `items`, `additionalItems`, `contains`,
    `propertyNames` -/

theorem ex_kwAllOf (ss : List Json) (i : Json) (h : ∀ s ∈ ss, Vd T P (rec i s) (sub s i)) :
    Vd T P (kwAllOf rec (.arr ss) i) (ss.all (fun s => sub s i)) := by
  unfold kwAllOf
  exact ex_seqG_enum _ _ 0 ss (fun _ s hs => ex_descendG _ _ (h s hs))

theorem ex_kwNot (v i : Json) (h : Vd T P (rec i v) (sub v i)) : Vd T P (kwNot rec v i) (!sub v i) := by
  unfold kwNot
  exact ex_innerValid _ h (ex_ite_emit _ _)

theorem ex_kwIf (kvs : List (Str × Json)) (v i : Json) (h : Vd T P (rec i v) (sub v i))
    (ht : ∀ t, lookupJ "then" kvs = some t → Vd T P (rec i t) (sub t i))
    (he : ∀ t, lookupJ "else" kvs = some t → Vd T P (rec i t) (sub t i)) :
    Vd T P (kwIf rec v i (.obj kvs))
      (if sub v i then (match lookupJ "then" kvs with | some t => sub t i | none => true)
       else (match lookupJ "else" kvs with | some e => sub e i | none => true)) := by
  unfold kwIf
  refine ex_innerValid _ h ?_
  have e1 : (Json.obj kvs).get? (skey "then") = lookupJ "then" kvs := rfl
  have e2 : (Json.obj kvs).get? (skey "else") = lookupJ "else" kvs := rfl
  rw [e1, e2]
  cases sub v i
  · simp only [Bool.false_eq_true, if_false]
    cases hl : lookupJ "else" kvs with
    | none => exact ex_nothing
    | some t => exact ex_descendG _ _ (he t hl)
  · simp only [if_true]
    cases hl : lookupJ "then" kvs with
    | none => exact ex_nothing
    | some t => exact ex_descendG _ _ (ht t hl)

theorem ex_kwExtends_obj (d : Draft) (v i : Json) (hv : v.isObj = true) (h : Vd T P (rec i v) (sub v i)) :
    Vd T P (kwExtendsDraft3 (d.cfg none) rec v i) (sub v i) := by
  unfold kwExtendsDraft3
  rw [isTypeS_object, withRes_ok, hv, if_pos rfl]
  exact ex_descendG _ _ h

theorem ex_kwExtends_arr (d : Draft) (ss : List Json) (i : Json)
    (h : ∀ s ∈ ss, Vd T P (rec i s) (sub s i)) :
    Vd T P (kwExtendsDraft3 (d.cfg none) rec (.arr ss) i) (ss.all (fun s => sub s i)) := by
  unfold kwExtendsDraft3
  rw [isTypeS_object, withRes_ok]
  simp only [Json.isObj, Bool.false_eq_true, if_false]
  exact ex_seqG_enum _ _ 0 ss (fun _ s hs => ex_descendG _ _ (h s hs))

theorem ex_items_each (v : Json) (xs : List Json) (n : Nat) (h : ∀ x ∈ xs, Vd T P (rec x v) (sub v x)) :
    Vd T P (seqG (fun (t : Nat × Json) => descendG (rec t.2 v) (some (.idx t.1)) none) (enumFrom n xs))
      (xs.all (fun x => sub v x)) :=
  ex_seqG_enum _ _ n xs (fun _ x hx => ex_descendG _ _ (h x hx))

theorem ex_items_zip (ss xs : List Json) (n : Nat) (h : ∀ s ∈ ss, ∀ x ∈ xs, Vd T P (rec x s) (sub s x)) :
    Vd T P (seqG (fun (t : (Nat × Json) × Json) =>
          descendG (rec t.1.2 t.2) (some (.idx t.1.1)) (some (.idx t.1.1))) ((enumFrom n xs).zip ss))
      ((xs.zip ss).all (fun p => sub p.2 p.1)) := by
  induction xs generalizing n ss with
  | nil => exact ex_nothing
  | cons x xs ih =>
    cases ss with
    | nil => exact ex_nothing
    | cons s ss =>
      simp only [enumFrom, List.zip_cons_cons, seqG, List.all_cons]
      refine ex_andThen (ex_descendG _ _ (h s (List.mem_cons_self ..) x (List.mem_cons_self ..))) ?_
      exact ih ss (n + 1) (fun s' hs' x' hx' =>
        h s' (List.mem_cons_of_mem _ hs') x' (List.mem_cons_of_mem _ hx'))

theorem kwItems_nonarr (d : Draft) (v i : Json) (h : i.isArr = false) :
    kwItems (d.cfg none) rec v i = nothing := by
  unfold kwItems
  rw [gate_ok _ (isTypeS_array d i), h]
  rfl

theorem kwItems34_nonarr (d : Draft) (v i : Json) (h : i.isArr = false) :
    kwItemsDraft3Draft4 (d.cfg none) rec v i = nothing := by
  unfold kwItemsDraft3Draft4
  rw [gate_ok _ (isTypeS_array d i), h]
  rfl

theorem ex_kwItems_arr (d : Draft) (ss xs : List Json)
    (h : ∀ s ∈ ss, ∀ x ∈ xs, Vd T P (rec x s) (sub s x)) :
    Vd T P (kwItems (d.cfg none) rec (.arr ss) (.arr xs)) ((xs.zip ss).all (fun p => sub p.2 p.1)) := by
  unfold kwItems
  rw [gate_ok _ (isTypeS_array d _)]
  simp only [Json.isArr, if_true, isTypeS_array, withRes_ok]
  exact ex_items_zip ss xs 0 h

theorem ex_kwItems_one (d : Draft) (v : Json) (xs : List Json) (hv : v.isArr = false)
    (h : ∀ x ∈ xs, Vd T P (rec x v) (sub v x)) :
    Vd T P (kwItems (d.cfg none) rec v (.arr xs)) (xs.all (fun x => sub v x)) := by
  unfold kwItems
  rw [gate_ok _ (isTypeS_array d _)]
  rw [show (Json.arr xs).isArr = true from rfl, if_pos rfl]
  dsimp only
  rw [isTypeS_array, withRes_ok, hv, if_neg (by simp)]
  exact ex_items_each v xs 0 h

theorem ex_kwItems34_arr (d : Draft) (ss xs : List Json)
    (h : ∀ s ∈ ss, ∀ x ∈ xs, Vd T P (rec x s) (sub s x)) :
    Vd T P (kwItemsDraft3Draft4 (d.cfg none) rec (.arr ss) (.arr xs))
      ((xs.zip ss).all (fun p => sub p.2 p.1)) := by
  unfold kwItemsDraft3Draft4
  rw [gate_ok _ (isTypeS_array d _)]
  simp only [Json.isArr, if_true, isTypeS_object, withRes_ok, Json.isObj, Bool.false_eq_true,
    if_false]
  exact ex_items_zip ss xs 0 h

theorem ex_kwItems34_one (d : Draft) (v : Json) (xs : List Json) (hv : v.isObj = true)
    (h : ∀ x ∈ xs, Vd T P (rec x v) (sub v x)) :
    Vd T P (kwItemsDraft3Draft4 (d.cfg none) rec v (.arr xs)) (xs.all (fun x => sub v x)) := by
  unfold kwItemsDraft3Draft4
  rw [gate_ok _ (isTypeS_array d _)]
  rw [show (Json.arr xs).isArr = true from rfl, if_pos rfl]
  dsimp only
  rw [isTypeS_object, withRes_ok, hv, if_pos rfl]
  exact ex_items_each v xs 0 h

theorem kwAdditionalItems_nonarr (d : Draft) (v i s : Json) (h : i.isArr = false) :
    kwAdditionalItems (d.cfg none) rec v i s = nothing := by
  unfold kwAdditionalItems
  rw [isTypeS_array, withRes_ok, h]
  rfl

theorem ex_kwAdditionalItems (d : Draft) (kvs : List (Str × Json)) (v : Json) (xs : List Json)
    (hv : (∃ b, v = .bool b) ∨ (v.isObj = true ∧ ∀ x ∈ xs, Vd T P (rec x v) (sub v x))) :
    Vd T P (kwAdditionalItems (d.cfg none) rec v (.arr xs) (.obj kvs))
      (match lookupJ "items" kvs with
       | some (.arr ss) =>
         (match (generalizing := false) v with
          | .bool false => decide (xs.length ≤ ss.length)
          | .bool true => true
          | sch => (xs.drop ss.length).all (fun x => sub sch x))
       | _ => true) := by
  have e1 : (Json.obj kvs).get? (skey "items") = lookupJ "items" kvs := rfl
  rcases hv with ⟨b, rfl⟩ | ⟨hobj, h⟩
  · unfold kwAdditionalItems
    rw [isTypeS_array, withRes_ok, e1]
    simp only [Json.isArr, Bool.not_true, Bool.false_eq_true, if_false, isTypeS_array, withRes_ok]
    cases hl : lookupJ "items" kvs with
    | none => exact ex_nothing
    | some it =>
      cases it with
      | arr ss =>
        simp only [Option.getD_some, Bool.not_true, Bool.false_eq_true, if_false,
          isTypeS_object, withRes_ok]
        cases b
        · simp only [Json.isObj, Bool.false_eq_true, if_false, truthy, Bool.not_false,
            Bool.true_and, decide_eq_true_eq]
          by_cases hlen : xs.length > ss.length
          · rw [if_pos hlen]
            refine (ex_emit_one _).congr ?_
            simp only [gt_iff_lt] at hlen
            simp [hlen]
          · rw [if_neg hlen]
            refine ex_nothing.congr ?_
            simp only [gt_iff_lt, not_lt] at hlen
            simp [hlen]
        · exact ex_nothing
      | _ => exact ex_nothing
  · cases v <;> simp [Json.isObj] at hobj
    unfold kwAdditionalItems
    rw [isTypeS_array, withRes_ok, e1]
    simp only [Json.isArr, Bool.not_true, Bool.false_eq_true, if_false, isTypeS_array, withRes_ok]
    cases hl : lookupJ "items" kvs with
    | none => exact ex_nothing
    | some it =>
      cases it with
      | arr ss =>
        simp only [Option.getD_some, Bool.not_true, Bool.false_eq_true, if_false,
          isTypeS_object, withRes_ok, Json.isObj, if_true]
        exact ex_items_each _ _ _ (fun x hx => h x (List.mem_of_mem_drop hx))
      | _ => exact ex_nothing

theorem ex_containsLoop (v whole : Json) (xs : List Json) (h : ∀ x ∈ xs, Vd T P (rec x v) (sub v x)) :
    Vd T P (containsLoop rec v whole xs) (xs.any (fun x => sub v x)) := by
  induction xs with
  | nil => exact ex_emit_one _
  | cons x xs ih =>
    unfold containsLoop
    refine ex_innerValid _ (h x (List.mem_cons_self ..)) ?_
    rw [List.any_cons]
    cases sub v x
    · simp only [Bool.false_eq_true, if_false, Bool.false_or]
      exact ih (fun y hy => h y (List.mem_cons_of_mem _ hy))
    · exact ex_nothing

theorem kwContains_nonarr (d : Draft) (v i : Json) (h : i.isArr = false) :
    kwContains (d.cfg none) rec v i = nothing := by
  unfold kwContains
  rw [gate_ok _ (isTypeS_array d i), h]
  rfl

theorem ex_kwContains (d : Draft) (v : Json) (xs : List Json) (h : ∀ x ∈ xs, Vd T P (rec x v) (sub v x)) :
    Vd T P (kwContains (d.cfg none) rec v (.arr xs)) (xs.any (fun x => sub v x)) := by
  unfold kwContains
  rw [gate_ok _ (isTypeS_array d _)]
  simp only [Json.isArr, if_true]
  exact ex_containsLoop v _ xs h

theorem kwPropertyNames_nonobj (d : Draft) (v i : Json) (h : i.isObj = false) :
    kwPropertyNames (d.cfg none) rec v i = nothing := by
  unfold kwPropertyNames
  rw [gate_ok _ (isTypeS_object d i), h]
  rfl

theorem ex_kwPropertyNames (d : Draft) (v : Json) (ms : List (Str × Json))
    (h : ∀ m ∈ ms, Vd T P (rec (.str m.1) v) (sub v (.str m.1))) :
    Vd T P (kwPropertyNames (d.cfg none) rec v (.obj ms)) (ms.all (fun m => sub v (.str m.1))) := by
  unfold kwPropertyNames
  rw [gate_ok _ (isTypeS_object d _)]
  simp only [Json.isObj, if_true]
  exact ex_seqG _ _ _ (fun m hm => ex_descendG _ _ (h m hm))

variable {rec : Rec} {sub : Json → Json → Bool}

/-! ### object lookups under distinct keys -/

theorem lookup_none_iff {k : Str} {kvs : List (Str × Json)} :
    Json.lookup k kvs = none ↔ ∀ v, (k, v) ∉ kvs := by
  induction kvs with
  | nil => simp [Json.lookup]
  | cons y ys ih =>
    obtain ⟨k', v'⟩ := y
    simp only [Json.lookup]
    split
    · rename_i hk
      subst hk
      simp only [reduceCtorEq, false_iff, not_forall, not_not]
      exact ⟨v', List.mem_cons_self ..⟩
    · rename_i hk
      rw [ih]
      constructor
      · intro h v hv
        rcases List.mem_cons.mp hv with e | hv
        · cases e; exact hk rfl
        · exact h v hv
      · intro h v hv
        exact h v (List.mem_cons_of_mem _ hv)

theorem lookup_eq_some_iff {k : Str} {v : Json} {kvs : List (Str × Json)}
    (hd : keysDistinct kvs = true) : Json.lookup k kvs = some v ↔ (k, v) ∈ kvs := by
  refine ⟨lookup_mem, ?_⟩
  induction kvs with
  | nil => intro h; cases h
  | cons y ys ih =>
    obtain ⟨k', v'⟩ := y
    simp only [keysDistinct, Bool.and_eq_true, Bool.not_eq_true', List.any_eq_false, beq_iff_eq] at hd
    intro h
    simp only [Json.lookup]
    rcases List.mem_cons.mp h with e | h
    · cases e; rw [if_pos rfl]
    · rw [if_neg (fun e => hd.1 (k, v) h e.symm)]
      exact ih hd.2 h

theorem hasKey_iff {k : Str} {kvs : List (Str × Json)} :
    Json.hasKey k kvs = true ↔ ∃ v, (k, v) ∈ kvs := by
  unfold Json.hasKey
  cases h : Json.lookup k kvs with
  | none =>
    simp only [Option.isSome_none, Bool.false_eq_true, false_iff, not_exists]
    exact lookup_none_iff.mp h
  | some v => simp only [Option.isSome_some, true_iff]; exact ⟨v, lookup_mem h⟩

theorem all_and {α : Type} (xs : List α) (p q : α → Bool) :
    xs.all (fun x => p x && q x) = (xs.all p && xs.all q) := by
  induction xs with
  | nil => rfl
  | cons x xs ih => simp only [List.all_cons, ih]; cases p x <;> cases q x <;> simp

theorem all_all_swap {α β : Type} (xs : List α) (ys : List β) (f : α → β → Bool) :
    xs.all (fun x => ys.all (fun y => f x y)) = ys.all (fun y => xs.all (fun x => f x y)) := by
  rw [Bool.eq_iff_iff]
  simp only [List.all_eq_true]
  exact ⟨fun h y hy x hx => h x hx y hy, fun h x hx y hy => h y hy x hx⟩

/-- `properties` iterates the schema's members, the specification the instance's -/
theorem props_swap (f : Json → Json → Bool) (ps ms : List (Str × Json))
    (hps : keysDistinct ps = true) (hms : keysDistinct ms = true) :
    ps.all (fun p => match Json.lookup p.1 ms with | some x => f p.2 x | none => true)
      = ms.all (fun m => match Json.lookup m.1 ps with | some s => f s m.2 | none => true) := by
  rw [Bool.eq_iff_iff]
  simp only [List.all_eq_true]
  constructor
  · intro h m hm
    cases hl : Json.lookup m.1 ps with
    | none => rfl
    | some s =>
      have := h (m.1, s) (lookup_mem hl)
      rw [(lookup_eq_some_iff hms).mpr (show (m.1, m.2) ∈ ms from hm)] at this
      exact this
  · intro h p hp
    cases hl : Json.lookup p.1 ms with
    | none => rfl
    | some x =>
      have := h (p.1, x) (lookup_mem hl)
      rw [(lookup_eq_some_iff hps).mpr (show (p.1, p.2) ∈ ps from hp)] at this
      exact this

/-! ### `properties` -/

theorem kwProperties_nonobj (d : Draft) (v i : Json) (h : i.isObj = false) :
    kwProperties (d.cfg none) rec v i = nothing := by
  unfold kwProperties
  rw [gate_ok _ (isTypeS_object d i), h]
  rfl

theorem kwPropertiesDraft3_nonobj (d : Draft) (v i s : Json) (h : i.isObj = false) :
    kwPropertiesDraft3 (d.cfg none) rec v i s = nothing := by
  unfold kwPropertiesDraft3
  rw [gate_ok _ (isTypeS_object d i), h]
  rfl

theorem ex_kwProperties (d : Draft) (ps ms : List (Str × Json))
    (hps : keysDistinct ps = true) (hms : keysDistinct ms = true)
    (h : ∀ p ∈ ps, ∀ m ∈ ms, Vd T P (rec m.2 p.2) (sub p.2 m.2)) :
    Vd T P (kwProperties (d.cfg none) rec (.obj ps) (.obj ms))
      (ms.all (fun m => match Json.lookup m.1 ps with | some s => sub s m.2 | none => true)) := by
  unfold kwProperties
  rw [gate_ok _ (isTypeS_object d _), ← props_swap (fun s x => sub s x) ps ms hps hms]
  simp only [Json.isObj, if_true]
  refine ex_seqG _ _ _ (fun p hp => ?_)
  cases hl : Json.lookup p.1 ms with
  | none => exact ex_nothing
  | some x => exact ex_descendG _ _ (h p hp (p.1, x) (lookup_mem hl))

/-- the `required` part of draft 3 `properties` for one member of `properties` -/
def req3 (ms : List (Str × Json)) (p : Str × Json) : Bool :=
  match p.2 with
  | .obj pk => (match lookupJ "required" pk with
                | some (.bool true) => Json.hasKey p.1 ms
                | _ => true)
  | _ => true

theorem req3_of_hasKey (ms : List (Str × Json)) (p : Str × Json) (hk : Json.hasKey p.1 ms = true) :
    req3 ms p = true := by
  unfold req3
  cases p.2 <;> try rfl
  dsimp only
  cases lookupJ "required" _ <;> try rfl
  rename_i r
  cases r <;> try rfl
  rename_i b
  cases b
  · rfl
  · exact hk

theorem ex_kwPropertiesDraft3 (d : Draft) (schema : Json) (ps ms : List (Str × Json))
    (hps : keysDistinct ps = true) (hms : keysDistinct ms = true)
    (h : ∀ p ∈ ps, ∀ m ∈ ms, Vd T P (rec m.2 p.2) (sub p.2 m.2))
    (hreq : ∀ p ∈ ps, ∃ pk, p.2 = .obj pk ∧ ∀ r, lookupJ "required" pk = some r → isBoolV r = true) :
    Vd T P (kwPropertiesDraft3 (d.cfg none) rec (.obj ps) (.obj ms) schema)
      (ms.all (fun m => match Json.lookup m.1 ps with | some s => sub s m.2 | none => true)
        && ps.all (req3 ms)) := by
  unfold kwPropertiesDraft3
  rw [gate_ok _ (isTypeS_object d _), ← props_swap (fun s x => sub s x) ps ms hps hms, ← all_and]
  simp only [Json.isObj, if_true]
  refine ex_seqG _ _ _ (fun p hp => ?_)
  obtain ⟨pk, hpk, hb⟩ := hreq p hp
  cases hl : Json.lookup p.1 ms with
  | some x =>
    refine (ex_descendG _ _ (h p hp (p.1, x) (lookup_mem hl))).congr ?_
    have hk : Json.hasKey p.1 ms = true := by unfold Json.hasKey; rw [hl]; rfl
    rw [req3_of_hasKey ms p hk, Bool.and_true]
  | none =>
    have hk : Json.hasKey p.1 ms = false := by unfold Json.hasKey; rw [hl]; rfl
    unfold req3
    rw [hpk, hk]
    dsimp only
    have e : Json.lookup (skey "required") pk = lookupJ "required" pk := rfl
    rw [e]
    cases hr : lookupJ "required" pk with
    | none => exact ex_nothing
    | some r =>
      have := hb r hr
      cases r <;> simp [isBoolV] at this
      rename_i b
      cases b
      · exact ex_nothing
      · exact ex_emit_one _

/-! ### `patternProperties` -/

theorem kwPatternProperties_nonobj (env : Env) (d : Draft) (v i : Json) (h : i.isObj = false) :
    kwPatternProperties env (d.cfg none) rec v i = nothing := by
  unfold kwPatternProperties
  rw [gate_ok _ (isTypeS_object d i), h]
  rfl

theorem ex_kwPatternProperties (env : Env) (hre : RegexTotal env) (d : Draft)
    (pps ms : List (Str × Json))
    (h : ∀ p ∈ pps, ∀ m ∈ ms, Vd T P (rec m.2 p.2) (sub p.2 m.2)) :
    Vd T P (kwPatternProperties env (d.cfg none) rec (.obj pps) (.obj ms))
      (ms.all (fun m => pps.all (fun p => !rx env p.1 m.1 || sub p.2 m.2))) := by
  unfold kwPatternProperties
  rw [gate_ok _ (isTypeS_object d _), all_all_swap]
  simp only [Json.isObj, if_true]
  refine ex_seqG _ _ _ (fun p hp => ex_seqG _ _ _ (fun m hm => ?_))
  rw [search_total env hre, withRes_ok]
  cases rx env p.1 m.1
  · exact ex_nothing
  · rw [if_pos rfl]
    exact ex_descendG _ _ (h p hp m hm)

/-! ### `dependencies` -/

theorem kwDependencies_nonobj (d : Draft) (v i : Json) (h : i.isObj = false) :
    kwDependencies (d.cfg none) rec v i = nothing := by
  unfold kwDependencies
  rw [gate_ok _ (isTypeS_object d i), h]
  rfl

theorem kwDependenciesDraft3_nonobj (d : Draft) (v i : Json) (h : i.isObj = false) :
    kwDependenciesDraft3 (d.cfg none) rec v i = nothing := by
  unfold kwDependenciesDraft3
  rw [gate_ok _ (isTypeS_object d i), h]
  rfl

theorem ex_depArray (ms : List (Str × Json)) (prop : Str) (names : List Json)
    (h : ∀ r ∈ names, isStrJ r = true) :
    Vd T P (depArray ms prop names)
      (names.all (fun r => match r with | .str r => Json.hasKey r ms | _ => true)) :=
  ex_missing_str ms "dependency" (fun each => [each, .str prop]) names h

/-- drafts 4, 6, 7: an array of names or a schema -/
theorem ex_kwDependencies (d : Draft) (ds ms : List (Str × Json))
    (h : ∀ dp ∈ ds, (∃ names, dp.2 = .arr names ∧ ∀ r ∈ names, isStrJ r = true)
        ∨ (dp.2.isArr = false ∧ dp.2.isStr = false ∧ Vd T P (rec (.obj ms) dp.2) (sub dp.2 (.obj ms)))) :
    Vd T P (kwDependencies (d.cfg none) rec (.obj ds) (.obj ms))
      (ds.all (fun dp => !Json.hasKey dp.1 ms ||
         (match dp.2 with
          | .arr names => names.all (fun r => match r with | .str r => Json.hasKey r ms | _ => true)
          | .str r => if d = .d3 then Json.hasKey r ms else true
          | sch => sub sch (.obj ms)))) := by
  unfold kwDependencies
  rw [gate_ok _ (isTypeS_object d _)]
  simp only [Json.isObj, if_true]
  refine ex_seqG _ _ _ (fun dp hdp => ?_)
  cases hk : Json.hasKey dp.1 ms
  · exact ex_nothing
  · simp only [Bool.not_true, Bool.false_eq_true, if_false, Bool.false_or, isTypeS_array, withRes_ok]
    obtain ⟨dk, dv⟩ := dp
    rcases h _ hdp with ⟨names, hn, hs⟩ | ⟨h1, h2, h3⟩
    · dsimp only at hn
      subst hn
      simp only [Json.isArr, if_true]
      exact ex_depArray ms _ names hs
    · dsimp only at h1 h2 h3 ⊢
      rw [h1, if_neg (by simp)]
      refine (ex_descendG _ _ h3).congr ?_
      cases dv with
      | arr _ => simp [Json.isArr] at h1
      | str _ => simp [Json.isStr] at h2
      | _ => rfl

/-- draft 3: a schema, a name, or an array of names -/
theorem ex_kwDependenciesDraft3 (d : Draft) (hd : d = .d3) (ds ms : List (Str × Json))
    (h : ∀ dp ∈ ds, (∃ names, dp.2 = .arr names ∧ ∀ r ∈ names, isStrJ r = true)
        ∨ (∃ r, dp.2 = .str r)
        ∨ (dp.2.isObj = true ∧ Vd T P (rec (.obj ms) dp.2) (sub dp.2 (.obj ms)))) :
    Vd T P (kwDependenciesDraft3 (d.cfg none) rec (.obj ds) (.obj ms))
      (ds.all (fun dp => !Json.hasKey dp.1 ms ||
         (match dp.2 with
          | .arr names => names.all (fun r => match r with | .str r => Json.hasKey r ms | _ => true)
          | .str r => if d = .d3 then Json.hasKey r ms else true
          | sch => sub sch (.obj ms)))) := by
  unfold kwDependenciesDraft3
  rw [gate_ok _ (isTypeS_object d _)]
  simp only [Json.isObj, if_true]
  refine ex_seqG _ _ _ (fun dp hdp => ?_)
  cases hk : Json.hasKey dp.1 ms
  · exact ex_nothing
  · simp only [Bool.not_true, Bool.false_eq_true, if_false, Bool.false_or, isTypeS_object,
      isTypeS_string, withRes_ok]
    obtain ⟨dk, dv⟩ := dp
    rcases h _ hdp with ⟨names, hn, hs⟩ | ⟨r, hr⟩ | ⟨h1, h3⟩
    · dsimp only at hn
      subst hn
      simp only [Json.isObj, Json.isStr, Bool.false_eq_true, if_false]
      exact ex_depArray ms _ names hs
    · dsimp only at hr
      subst hr
      simp only [Json.isObj, Json.isStr, Bool.false_eq_true, if_false, if_true, missingKey,
        withRes_ok, hd]
      refine (ex_ite_emit _ _).congr ?_
      simp
    · dsimp only at h1 h3 ⊢
      rw [h1, if_pos rfl]
      refine (ex_descendG _ _ h3).congr ?_
      cases dv <;> first | rfl | simp [Json.isObj] at h1

variable {rec : Rec} {sub : Json → Json → Bool}

/-! ### `additionalProperties` -/

theorem anySearch_total (env : Env) (hre : RegexTotal env) (prop : Str) (ps : List Str) :
    anySearch env prop ps = .ok (ps.any (fun p => rx env p prop)) := by
  induction ps with
  | nil => rfl
  | cons p ps ih =>
    unfold anySearch
    rw [search_total env hre, List.any_cons]
    cases rx env p prop
    · exact ih
    · rfl

theorem findAdditional_eq (env : Env) (hre : RegexTotal env) (props : List (Str × Json))
    (pats : List Str) (ms : List (Str × Json)) :
    findAdditional env props pats ms
      = .ok ((ms.map (·.1)).filter
          (fun k => !(Json.hasKey k props || pats.any (fun p => rx env p k)))) := by
  induction ms with
  | nil => rfl
  | cons m ms ih =>
    obtain ⟨k, x⟩ := m
    unfold findAdditional
    rw [anySearch_total env hre, ih, List.map_cons, List.filter_cons]
    cases Json.hasKey k props
    · cases pats.any (fun p => rx env p k) <;> rfl
    · rfl

theorem additional_props_spec' (env : Env) (hre : RegexTotal env)
    (props : List (Str × Json)) (pats : List Str) (ms : List (Str × Json)) :
    ∃ extras, findAdditional env props pats ms = .ok extras
      ∧ ∀ k, k ∈ extras ↔ (k ∈ ms.map (·.1) ∧ Json.hasKey k props = false
          ∧ ∀ p ∈ pats, Spec.rx env p k = false) := by
  refine ⟨_, findAdditional_eq env hre props pats ms, fun k => ?_⟩
  simp only [List.mem_filter, Bool.not_eq_true', Bool.or_eq_false_iff, List.any_eq_false,
    Bool.not_eq_true]

def propsOf (kvs : List (Str × Json)) : List (Str × Json) :=
  match lookupJ "properties" kvs with | some (.obj ps) => ps | _ => []

def patsOf (kvs : List (Str × Json)) : List (Str × Json) :=
  match lookupJ "patternProperties" kvs with | some (.obj ps) => ps | _ => []

theorem covered_eq (env : Env) (kvs : List (Str × Json)) (key : Str) :
    covered env kvs key
      = (Json.hasKey key (propsOf kvs) || ((patsOf kvs).map (·.1)).any (fun p => rx env p key)) := by
  unfold covered propsOf patsOf
  congr 1
  · cases lookupJ "properties" kvs <;> try rfl
    rename_i x; cases x <;> rfl
  · cases lookupJ "patternProperties" kvs
    · rfl
    · rename_i x; cases x <;> first | rfl | simp [List.any_map, Function.comp_def]

theorem objKvs_props (kvs : List (Str × Json))
    (h : ∀ x, lookupJ "properties" kvs = some x → x.isObj = true) :
    objKvs ((Json.obj kvs).get? (skey "properties")) = some (propsOf kvs) := by
  have e : (Json.obj kvs).get? (skey "properties") = lookupJ "properties" kvs := rfl
  rw [e]
  unfold propsOf
  cases hl : lookupJ "properties" kvs with
  | none => rfl
  | some x =>
    have := h x hl
    cases x <;> simp [Json.isObj] at this
    rfl

theorem objKvs_pats (kvs : List (Str × Json))
    (h : ∀ x, lookupJ "patternProperties" kvs = some x → x.isObj = true) :
    objKvs ((Json.obj kvs).get? (skey "patternProperties")) = some (patsOf kvs) := by
  have e : (Json.obj kvs).get? (skey "patternProperties") = lookupJ "patternProperties" kvs := rfl
  rw [e]
  unfold patsOf
  cases hl : lookupJ "patternProperties" kvs with
  | none => rfl
  | some x =>
    have := h x hl
    cases x <;> simp [Json.isObj] at this
    rfl

theorem kwAdditionalProperties_nonobj (env : Env) (d : Draft) (v i s : Json) (h : i.isObj = false) :
    kwAdditionalProperties env (d.cfg none) rec v i s = nothing := by
  unfold kwAdditionalProperties
  rw [gate_ok _ (isTypeS_object d i), h]
  rfl

theorem ex_kwAdditionalProperties (env : Env) (hre : RegexTotal env) (hset : SetOrderOk env)
    (d : Draft) (kvs : List (Str × Json)) (v : Json) (ms : List (Str × Json))
    (hms : keysDistinct ms = true)
    (hprops : ∀ x, lookupJ "properties" kvs = some x → x.isObj = true)
    (hpats : ∀ x, lookupJ "patternProperties" kvs = some x → x.isObj = true)
    (hv : (∃ b, v = .bool b) ∨ (v.isObj = true ∧ ∀ m ∈ ms, Vd T P (rec m.2 v) (sub v m.2))) :
    Vd T P (kwAdditionalProperties env (d.cfg none) rec v (.obj ms) (.obj kvs))
      (match (generalizing := false) v with
       | .bool true => true
       | .bool false => ms.all (fun m => covered env kvs m.1)
       | sch => ms.all (fun m => covered env kvs m.1 || sub sch m.2)) := by
  obtain ⟨extras, hex, hperm⟩ := hset ((ms.map (·.1)).filter
    (fun k => !(Json.hasKey k (propsOf kvs) || ((patsOf kvs).map (·.1)).any (fun p => rx env p k))))
  have hmem : ∀ k, k ∈ extras ↔ (∃ x, (k, x) ∈ ms) ∧ covered env kvs k = false := by
    intro k
    rw [hperm.mem_iff, covered_eq]
    simp only [List.mem_filter, List.mem_map, Bool.not_eq_true']
    constructor
    · rintro ⟨⟨m, hm, rfl⟩, h2⟩; exact ⟨⟨m.2, hm⟩, h2⟩
    · rintro ⟨⟨x, hx⟩, h2⟩; exact ⟨⟨(k, x), hx, rfl⟩, h2⟩
  unfold kwAdditionalProperties
  rw [gate_ok _ (isTypeS_object d _), objKvs_props kvs hprops, objKvs_pats kvs hpats]
  simp only [Json.isObj, if_true, findAdditional_eq env hre, withRes_ok, hex, askOpt, isTypeS_object]
  rcases hv with ⟨b, rfl⟩ | ⟨hobj, h⟩
  · cases b
    · have hval : extras.isEmpty = ms.all (fun m => covered env kvs m.1) := by
        rw [Bool.eq_iff_iff, List.all_eq_true, List.isEmpty_iff]
        constructor
        · intro he m hm
          cases hc : covered env kvs m.1 with
          | true => rfl
          | false =>
            have : m.1 ∈ extras := (hmem m.1).mpr ⟨⟨m.2, hm⟩, hc⟩
            rw [he] at this; cases this
        · intro hall
          cases extras with
          | nil => rfl
          | cons e es =>
            obtain ⟨⟨x, hx⟩, hc⟩ := (hmem e).mp (List.mem_cons_self ..)
            have := hall (e, x) hx
            rw [hc] at this; cases this
      simp only [Bool.false_eq_true, if_false, truthy, Bool.not_false, Bool.true_and]
      rw [← hval]
      cases extras with
      | nil => exact ex_nothing
      | cons e es =>
        simp only [List.isEmpty_cons, Bool.not_false, if_true]
        split <;> exact ex_emit_one _
    · exact ex_nothing
  · obtain ⟨okvs, rfl⟩ : ∃ okvs, v = .obj okvs := by
      cases v <;> simp [Json.isObj] at hobj
      exact ⟨_, rfl⟩
    simp only [if_true]
    refine (ex_seqG _ (fun e => match Json.lookup e ms with | some x => sub (.obj okvs) x | none => true)
      _ (fun e he => ?_)).congr ?_
    · obtain ⟨⟨x, hx⟩, _⟩ := (hmem e).mp he
      rw [(lookup_eq_some_iff hms).mpr hx]
      exact ex_descendG _ _ (h _ hx)
    · rw [Bool.eq_iff_iff, List.all_eq_true, List.all_eq_true]
      constructor
      · intro hall m hm
        cases hc : covered env kvs m.1 with
        | true => rfl
        | false =>
          have := hall m.1 ((hmem m.1).mpr ⟨⟨m.2, hm⟩, hc⟩)
          rw [(lookup_eq_some_iff hms).mpr (show (m.1, m.2) ∈ ms from hm)] at this
          simpa using this
      · intro hall e he
        obtain ⟨⟨x, hx⟩, hc⟩ := (hmem e).mp he
        rw [(lookup_eq_some_iff hms).mpr hx]
        have := hall (e, x) hx
        rw [hc] at this
        simpa using this

variable {rec : Rec} {sub : Json → Json → Bool}

/-! ### `anyOf`, `oneOf` -/

/-- the verdict of the first loop of `anyOf`/`oneOf` -/
def fv (p : Json → Bool) (q : List (Nat × Json) → Bool) : List (Nat × Json) → Bool
  | [] => false
  | (_, s) :: rest => if p s then q rest else fv p q rest

theorem ex_firstValid (inst : Json) (k : Option (Json × List (Nat × Json)) → List Err → Gen)
    (p : Json → Bool) (q : List (Nat × Json) → Bool)
    (hnone : ∀ acc, Vd T P (k none acc) false)
    (hsome : ∀ s rest acc, (∀ t ∈ rest, Vd T P (rec inst t.2) (p t.2)) → Vd T P (k (some (s, rest)) acc) (q rest))
    (xs : List (Nat × Json)) (hx : ∀ t ∈ xs, Vd T P (rec inst t.2) (p t.2)) :
    ∀ acc, Vd T P (firstValid rec inst k xs acc) (fv p q xs) := by
  induction xs with
  | nil => intro acc; exact hnone acc
  | cons t rest ih =>
    obtain ⟨i, s⟩ := t
    intro acc
    unfold firstValid
    have hrest : ∀ t ∈ rest, Vd T P (rec inst t.2) (p t.2) := fun t ht => hx t (List.mem_cons_of_mem _ ht)
    refine ex_inner_none _ (ex_descendG _ _ (hx (i, s) (List.mem_cons_self ..))) (fun es hes => ?_)
    dsimp only at hes
    unfold fv
    rw [hes]
    cases p s
    · simp only [Bool.false_eq_true, if_false]
      exact ih hrest _
    · simp only [if_true]
      exact hsome s rest acc hrest

theorem fv_any (p : Json → Bool) (n : Nat) (ss : List Json) :
    fv p (fun _ => true) (enumFrom n ss) = ss.any p := by
  induction ss generalizing n with
  | nil => rfl
  | cons s ss ih =>
    simp only [enumFrom, fv, List.any_cons, ih]
    cases p s <;> rfl

theorem ex_kwAnyOf (ss : List Json) (i : Json) (h : ∀ s ∈ ss, Vd T P (rec i s) (sub s i)) :
    Vd T P (kwAnyOf rec (.arr ss) i) (ss.any (fun s => sub s i)) := by
  unfold kwAnyOf
  rw [← fv_any (fun s => sub s i) 0 ss]
  refine ex_firstValid i _ _ _ (fun acc => ex_emit_one _) (fun s rest acc _ => ex_nothing) _
    (fun t ht => h t.2 (mem_enumFrom ht)) []

theorem ex_moreValid (inst : Json) (k : List Json → Gen) (p : Json → Bool) (r : List Json → Bool)
    (hk : ∀ more, Vd T P (k more) (r more)) (rest : List (Nat × Json))
    (hx : ∀ t ∈ rest, Vd T P (rec inst t.2) (p t.2)) :
    ∀ acc, Vd T P (moreValid rec inst k rest acc)
      (r (acc ++ (rest.filter (fun t => p t.2)).map (·.2))) := by
  induction rest with
  | nil => intro acc; simpa [moreValid] using hk acc
  | cons t rest ih =>
    obtain ⟨i, s⟩ := t
    intro acc
    unfold moreValid
    refine ex_innerValid _ (hx (i, s) (List.mem_cons_self ..)) ?_
    have := ih (fun t ht => hx t (List.mem_cons_of_mem _ ht)) (if p s = true then acc ++ [s] else acc)
    refine this.congr ?_
    rw [List.filter_cons]
    cases p s <;> simp

theorem fv_one (p : Json → Bool) (n : Nat) (ss : List Json) :
    fv p (fun rest => ((rest.filter (fun t => p t.2)).map (·.2)).isEmpty) (enumFrom n ss)
      = ((ss.filter p).length == 1) := by
  induction ss generalizing n with
  | nil => rfl
  | cons s ss ih =>
    simp only [enumFrom, fv, List.filter_cons]
    cases hp : p s
    · simp only [Bool.false_eq_true, if_false]
      exact ih (n + 1)
    · simp only [if_true, List.length_cons]
      clear ih
      have : ∀ m, ((enumFrom m ss).filter (fun t => p t.2)).map (·.2) = ss.filter p := by
        intro m
        induction ss generalizing m with
        | nil => rfl
        | cons x xs ih =>
          simp only [enumFrom, List.filter_cons]
          cases p x <;> simp [ih]
      rw [this]
      cases ss.filter p <;> simp

theorem ex_kwOneOf (ss : List Json) (i : Json) (h : ∀ s ∈ ss, Vd T P (rec i s) (sub s i)) :
    Vd T P (kwOneOf rec (.arr ss) i) ((ss.filter (fun s => sub s i)).length == 1) := by
  unfold kwOneOf
  rw [← fv_one (fun s => sub s i) 0 ss]
  refine ex_firstValid i _ _ _ (fun acc => ex_emit_one _) (fun s rest acc hrest => ?_) _
    (fun t ht => h t.2 (mem_enumFrom ht)) []
  dsimp only
  have := ex_moreValid (rec := rec) i
    (fun more => if more.isEmpty then nothing
      else emit [Err.fresh "oneOfMore" [i, .arr (more ++ [s])]])
    (fun s => sub s i) (fun more => more.isEmpty) (fun more => ex_ite_nothing _ _) rest hrest []
  simpa using this

/-! ### draft 3 `type`, `disallow` -/

theorem any_enumFrom {α : Type} (p : α → Bool) (n : Nat) (xs : List α) :
    (enumFrom n xs).any (fun t => p t.2) = xs.any p := by
  induction xs generalizing n with
  | nil => rfl
  | cons x xs ih => simp only [enumFrom, List.any_cons, ih]

theorem ex_typeDraft3Loop (d : Draft) (inst : Json) (k : Bool → List Err → Gen)
    (htrue : ∀ acc, Vd T P (k true acc) true) (hfalse : ∀ acc, Vd T P (k false acc) false)
    (xs : List (Nat × Json))
    (hx : ∀ t ∈ xs, (∃ n, t.2 = .str n ∧ (typeNames d).contains n = true)
        ∨ (t.2.isObj = true ∧ Vd T P (rec inst t.2) (sub t.2 inst))) :
    ∀ acc, Vd T P (typeDraft3Loop (d.cfg none) rec inst k xs acc)
      (xs.any (fun t => tyval d sub inst t.2)) := by
  induction xs with
  | nil => intro acc; exact hfalse acc
  | cons t rest ih =>
    obtain ⟨i, t⟩ := t
    intro acc
    have ih' := ih (fun t ht => hx t (List.mem_cons_of_mem _ ht))
    unfold typeDraft3Loop
    rw [isTypeS_object, withRes_ok, List.any_cons]
    rcases hx (i, t) (List.mem_cons_self ..) with ⟨n, hn, hkn⟩ | ⟨hobj, hok⟩
    · dsimp only at hn
      subst hn
      simp only [Json.isObj, Bool.false_eq_true, if_false, isType_known d n hkn, withRes_ok, tyval]
      cases hasType d n inst
      · simp only [Bool.false_eq_true, if_false, Bool.false_or]
        exact ih' acc
      · exact htrue acc
    · dsimp only at hobj hok
      rw [hobj, if_pos rfl]
      refine ex_inner_none _ (ex_descendG _ _ hok) (fun es hes => ?_)
      have htv : tyval d sub inst t = sub t inst := by
        cases t <;> simp [Json.isObj] at hobj
        rfl
      dsimp only
      rw [hes, htv]
      cases sub t inst
      · simp only [Bool.false_eq_true, if_false, Bool.false_or]
        exact ih' _
      · exact htrue acc

theorem ex_kwTypeDraft3 (d : Draft) (v i : Json) (ts : List Json) (hv : ensureList v = some ts)
    (h : ∀ t ∈ ts, (∃ n, t = .str n ∧ (typeNames d).contains n = true)
        ∨ (t.isObj = true ∧ Vd T P (rec i t) (sub t i))) :
    Vd T P (kwTypeDraft3 (d.cfg none) rec v i) (ts.any (tyval d sub i)) := by
  unfold kwTypeDraft3
  rw [hv, ← any_enumFrom (tyval d sub i) 0 ts]
  exact ex_typeDraft3Loop d i _ (fun acc => ex_nothing) (fun acc => ex_emit_one _) _
    (fun t ht => h t.2 (mem_enumFrom ht)) []

theorem ex_kwDisallowDraft3 (d : Draft) (v i : Json) (ts : List Json) (hv : ensureList v = some ts)
    (h : ∀ t ∈ ts, Vd T P (rec i (.obj [(skey "type", .arr [t])])) (tyval d sub i t)) :
    Vd T P (kwDisallowDraft3 rec v i) (ts.all (fun t => !tyval d sub i t)) := by
  unfold kwDisallowDraft3
  rw [hv]
  exact ex_seqG _ _ _ (fun t ht => ex_innerValid _ (h t ht) (ex_ite_emit _ _))

/-! ### the keyword tables with explicit keys -/

def kwTable : Draft → List (Str × KwFn)
  | .d3 => [(k!"$ref", .ref), (k!"additionalItems", .additionalItems),
      (k!"additionalProperties", .additionalProperties), (k!"dependencies", .dependencies_draft3),
      (k!"disallow", .disallow_draft3), (k!"divisibleBy", .multipleOf), (k!"enum", .enum),
      (k!"extends", .extends_draft3), (k!"format", .format), (k!"items", .items_draft3_draft4),
      (k!"maxItems", .maxItems), (k!"maxLength", .maxLength),
      (k!"maximum", .maximum_draft3_draft4), (k!"minItems", .minItems),
      (k!"minLength", .minLength), (k!"minimum", .minimum_draft3_draft4), (k!"pattern", .pattern),
      (k!"patternProperties", .patternProperties), (k!"properties", .properties_draft3),
      (k!"type", .type_draft3), (k!"uniqueItems", .uniqueItems)]
  | .d4 => [(k!"$ref", .ref), (k!"additionalItems", .additionalItems),
      (k!"additionalProperties", .additionalProperties), (k!"allOf", .allOf), (k!"anyOf", .anyOf),
      (k!"dependencies", .dependencies), (k!"enum", .enum), (k!"format", .format),
      (k!"items", .items_draft3_draft4), (k!"maxItems", .maxItems), (k!"maxLength", .maxLength),
      (k!"maxProperties", .maxProperties), (k!"maximum", .maximum_draft3_draft4),
      (k!"minItems", .minItems), (k!"minLength", .minLength), (k!"minProperties", .minProperties),
      (k!"minimum", .minimum_draft3_draft4), (k!"multipleOf", .multipleOf), (k!"not", .not_),
      (k!"oneOf", .oneOf), (k!"pattern", .pattern), (k!"patternProperties", .patternProperties),
      (k!"properties", .properties), (k!"required", .required), (k!"type", .type),
      (k!"uniqueItems", .uniqueItems)]
  | .d6 => [(k!"$ref", .ref), (k!"additionalItems", .additionalItems),
      (k!"additionalProperties", .additionalProperties), (k!"allOf", .allOf), (k!"anyOf", .anyOf),
      (k!"const", .const), (k!"contains", .contains), (k!"dependencies", .dependencies),
      (k!"enum", .enum), (k!"exclusiveMaximum", .exclusiveMaximum),
      (k!"exclusiveMinimum", .exclusiveMinimum), (k!"format", .format), (k!"items", .items),
      (k!"maxItems", .maxItems), (k!"maxLength", .maxLength), (k!"maxProperties", .maxProperties),
      (k!"maximum", .maximum), (k!"minItems", .minItems), (k!"minLength", .minLength),
      (k!"minProperties", .minProperties), (k!"minimum", .minimum), (k!"multipleOf", .multipleOf),
      (k!"not", .not_), (k!"oneOf", .oneOf), (k!"pattern", .pattern),
      (k!"patternProperties", .patternProperties), (k!"properties", .properties),
      (k!"propertyNames", .propertyNames), (k!"required", .required), (k!"type", .type),
      (k!"uniqueItems", .uniqueItems)]
  | .d7 => [(k!"$ref", .ref), (k!"additionalItems", .additionalItems),
      (k!"additionalProperties", .additionalProperties), (k!"allOf", .allOf), (k!"anyOf", .anyOf),
      (k!"const", .const), (k!"contains", .contains), (k!"dependencies", .dependencies),
      (k!"enum", .enum), (k!"exclusiveMaximum", .exclusiveMaximum),
      (k!"exclusiveMinimum", .exclusiveMinimum), (k!"format", .format), (k!"if", .if_),
      (k!"items", .items), (k!"maxItems", .maxItems), (k!"maxLength", .maxLength),
      (k!"maxProperties", .maxProperties), (k!"maximum", .maximum), (k!"minItems", .minItems),
      (k!"minLength", .minLength), (k!"minProperties", .minProperties), (k!"minimum", .minimum),
      (k!"multipleOf", .multipleOf), (k!"oneOf", .oneOf), (k!"not", .not_),
      (k!"pattern", .pattern), (k!"patternProperties", .patternProperties),
      (k!"properties", .properties), (k!"propertyNames", .propertyNames),
      (k!"required", .required), (k!"type", .type), (k!"uniqueItems", .uniqueItems)]

theorem keywords_eq (d : Draft) : (d.cfg none).keywords = kwTable d := by
  cases d <;> decide +kernel

/-! ### the hereditary part of the domain: well-formedness, `numSafe`, `typesKnown` -/

structure Rest (d : Draft) (s : Json) : Prop where
  wf : WF s = true
  ns : numSafe s = true
  tk : typesKnown d s = true

theorem numSafeList_mem {xs : List Json} (h : numSafe.numSafeList xs = true) :
    ∀ x ∈ xs, numSafe x = true := by
  induction xs with
  | nil => intro x hx; cases hx
  | cons y ys ih =>
    simp only [numSafe.numSafeList, Bool.and_eq_true] at h
    intro x hx
    rcases List.mem_cons.mp hx with rfl | hx
    · exact h.1
    · exact ih h.2 x hx

theorem typesKnownList_mem {d : Draft} {xs : List Json} (h : typesKnown.typesKnownList d xs = true) :
    ∀ x ∈ xs, typesKnown d x = true := by
  induction xs with
  | nil => intro x hx; cases hx
  | cons y ys ih =>
    simp only [typesKnown.typesKnownList, Bool.and_eq_true] at h
    intro x hx
    rcases List.mem_cons.mp hx with rfl | hx
    · exact h.1
    · exact ih h.2 x hx

theorem numSafeKvs_mem {kvs : List (Str × Json)} (h : numSafe.numSafeKvs kvs = true) :
    ∀ k v, (k, v) ∈ kvs → nsMember k v = true ∧ numSafe v = true := by
  induction kvs with
  | nil => intro k v hx; cases hx
  | cons y ys ih =>
    obtain ⟨k', v'⟩ := y
    simp only [numSafe.numSafeKvs, Bool.and_eq_true] at h
    intro k v hx
    rcases List.mem_cons.mp hx with e | hx
    · cases e; exact ⟨h.1.1, h.1.2⟩
    · exact ih h.2 k v hx

theorem typesKnownKvs_mem {d : Draft} {kvs : List (Str × Json)}
    (h : typesKnown.typesKnownKvs d kvs = true) :
    ∀ k v, (k, v) ∈ kvs → tkMember d k v = true ∧ typesKnown d v = true := by
  induction kvs with
  | nil => intro k v hx; cases hx
  | cons y ys ih =>
    obtain ⟨k', v'⟩ := y
    simp only [typesKnown.typesKnownKvs, Bool.and_eq_true] at h
    intro k v hx
    rcases List.mem_cons.mp hx with e | hx
    · cases e; exact ⟨h.1.1, h.1.2⟩
    · exact ih h.2 k v hx

theorem Rest.arr_mem {d : Draft} {xs : List Json} (h : Rest d (.arr xs)) {x : Json} (hx : x ∈ xs) :
    Rest d x :=
  ⟨WF_arr h.wf x hx, numSafeList_mem (by simpa [numSafe] using h.ns) x hx,
    typesKnownList_mem (by simpa [typesKnown] using h.tk) x hx⟩

theorem Rest.obj_mem {d : Draft} {kvs : List (Str × Json)} (h : Rest d (.obj kvs)) {k : Str} {v : Json}
    (hx : (k, v) ∈ kvs) : Rest d v :=
  ⟨(WF_obj h.wf).2 (k, v) hx, (numSafeKvs_mem (by simpa [numSafe] using h.ns) k v hx).2,
    (typesKnownKvs_mem (by simpa [typesKnown] using h.tk) k v hx).2⟩

theorem Rest.ns_member {d : Draft} {kvs : List (Str × Json)} (h : Rest d (.obj kvs)) {k : Str} {v : Json}
    (hx : (k, v) ∈ kvs) : nsMember k v = true :=
  (numSafeKvs_mem (by simpa [numSafe] using h.ns) k v hx).1

theorem Rest.tk_member {d : Draft} {kvs : List (Str × Json)} (h : Rest d (.obj kvs)) {k : Str} {v : Json}
    (hx : (k, v) ∈ kvs) : tkMember d k v = true :=
  (typesKnownKvs_mem (by simpa [typesKnown] using h.tk) k v hx).1

theorem Rest.leaf (d : Draft) (s : Json) (h : s.isArr = false) (h' : s.isObj = false) : Rest d s := by
  cases s with
  | arr _ => simp [Json.isArr] at h
  | obj _ => simp [Json.isObj] at h'
  | _ => exact ⟨rfl, rfl, rfl⟩

/-- the part of `Rest` that the keywords of ONE schema object read: the object is well formed, and
    its OWN `multipleOf`/`divisibleBy`/`type`/`disallow` members are as `numSafe`/`typesKnown` demand
    (nothing about members of the same spelling deeper down, e.g. a PROPERTY named `multipleOf`) -/
structure RestL (d : Draft) (kvs : List (Str × Json)) : Prop where
  wf : WF (.obj kvs) = true
  ns_member : ∀ {k : Str} {v : Json}, (k, v) ∈ kvs → nsMember k v = true
  tk_member : ∀ {k : Str} {v : Json}, (k, v) ∈ kvs → tkMember d k v = true

theorem Rest.local {d : Draft} {kvs : List (Str × Json)} (h : Rest d (.obj kvs)) : RestL d kvs :=
  ⟨h.wf, fun hx => h.ns_member hx, fun hx => h.tk_member hx⟩

/-! ### string literals of the specification against explicit keys (decoded once) -/

theorem ks_ref : ks "$ref" = k!"$ref" := by decide +kernel
theorem ks_then : ks "then" = k!"then" := by decide +kernel
theorem ks_else : ks "else" = k!"else" := by decide +kernel
theorem ks_items : ks "items" = k!"items" := by decide +kernel
theorem ks_properties : ks "properties" = k!"properties" := by decide +kernel
theorem ks_patternProperties : ks "patternProperties" = k!"patternProperties" := by decide +kernel
theorem ks_required : ks "required" = k!"required" := by decide +kernel
theorem ks_exclusiveMinimum : ks "exclusiveMinimum" = k!"exclusiveMinimum" := by decide +kernel
theorem ks_exclusiveMaximum : ks "exclusiveMaximum" = k!"exclusiveMaximum" := by decide +kernel
theorem ks_multipleOf : ks "multipleOf" = k!"multipleOf" := by decide +kernel
theorem ks_divisibleBy : ks "divisibleBy" = k!"divisibleBy" := by decide +kernel
theorem ks_type : ks "type" = k!"type" := by decide +kernel
theorem ks_disallow : ks "disallow" = k!"disallow" := by decide +kernel
theorem ks_id : ks "id" = k!"id" := by decide +kernel
theorem ks_dollar_id : ks "$id" = k!"$id" := by decide +kernel

/-! ### running one keyword -/

variable {rec : Rec} {sub : Json → Json → Bool}

/-- `g` is what `applyKw` dispatches to (given last, so that it is known from `hex` when the
    equation is checked by `rfl`) -/
theorem ex_runKeyword {env : Env} {impl : FmtImpl} {d : Draft} {k : Str} {v i s : Json} {f : KwFn}
    {w : Bool} {g : Gen} (h : lookupS k (kwTable d) = some f) (hex : Vd T P g w)
    (hg : applyKw env impl (d.cfg none) rec f v i s = g := by rfl) :
    Vd T P (runKeyword env impl (d.cfg none) rec i s (k, v)) w := by
  unfold runKeyword
  dsimp only
  rw [keywords_eq, h]
  dsimp only
  rw [hg]
  exact ex_mapErrs _ hex

theorem ex_runKeyword_none {env : Env} {impl : FmtImpl} {d : Draft} {k : Str} {v i s : Json}
    (h : lookupS k (kwTable d) = none) :
    Vd T P (runKeyword env impl (d.cfg none) rec i s (k, v)) true := by
  unfold runKeyword
  dsimp only
  rw [keywords_eq, h]
  exact ex_nothing

/-- what the induction provides about one schema object `kvs`: the recursive call is right on
    every well-shaped subschema found under a member (the value itself, an element of an array
    value, a member of an object value), and on the schemas `{"type": [t]}` that draft 3 `disallow`
    synthesises -/
structure Ctx (T : Prop) (P : RState → Prop) (d : Draft) (rec : Rec) (sub : Json → Json → Bool) (shp : Json → Bool)
    (kvs : List (Str × Json)) : Prop where
  hv : ∀ k v, (k, v) ∈ kvs → shp v = true → ∀ i', WF i' = true → Vd T P (rec i' v) (sub v i')
  helem : ∀ k ss, (k, Json.arr ss) ∈ kvs → ∀ s ∈ ss, shp s = true →
    ∀ i', WF i' = true → Vd T P (rec i' s) (sub s i')
  hval : ∀ k ps, (k, Json.obj ps) ∈ kvs → ∀ p ∈ ps, shp p.2 = true →
    ∀ i', WF i' = true → Vd T P (rec i' p.2) (sub p.2 i')
  hsyn : d = .d3 → ∀ dv, (k!"disallow", dv) ∈ kvs → ∀ ts, ensureList dv = some ts → ∀ t ∈ ts,
    ∀ i', WF i' = true → Vd T P (rec i' (.obj [(skey "type", .arr [t])])) (tyval d sub i' t)
  /-- drafts 6, 7: the boolean schemas -/
  hbool : ∀ k v, (k, v) ∈ kvs → (d = .d6 ∨ d = .d7) →
    ∀ b i', Vd T P (rec i' (.bool b)) (sub (.bool b) i')
  shape : ∀ kv ∈ kvs, shapeClause d shp kv = true
  /-- draft 3: `required` inside a well-shaped property schema is a boolean -/
  req3 : d = .d3 → ∀ pk, shp (.obj pk) = true → ∀ r, lookupJ "required" pk = some r → isBoolV r = true
  rest : RestL d kvs
  noref : lookupJ "$ref" kvs = none

namespace Ctx
variable {d : Draft} {shp : Json → Bool} {kvs : List (Str × Json)}

theorem sub_v (C : Ctx T P d rec sub shp kvs) {k : Str} {v : Json} (hmem : (k, v) ∈ kvs)
    (hs : shp v = true) (i' : Json) (hi' : WF i' = true) : Vd T P (rec i' v) (sub v i') :=
  C.hv k v hmem hs i' hi'

theorem sub_elem (C : Ctx T P d rec sub shp kvs) {k : Str} {ss : List Json} (hmem : (k, .arr ss) ∈ kvs)
    {s : Json} (hs : s ∈ ss) (hshp : shp s = true) (i' : Json) (hi' : WF i' = true) :
    Vd T P (rec i' s) (sub s i') :=
  C.helem k ss hmem s hs hshp i' hi'

theorem sub_val (C : Ctx T P d rec sub shp kvs) {k : Str} {ps : List (Str × Json)}
    (hmem : (k, .obj ps) ∈ kvs) {p : Str × Json} (hp : p ∈ ps) (hshp : shp p.2 = true)
    (i' : Json) (hi' : WF i' = true) : Vd T P (rec i' p.2) (sub p.2 i') :=
  C.hval k ps hmem p hp hshp i' hi'

theorem wf_v (C : Ctx T P d rec sub shp kvs) {k : Str} {v : Json} (hmem : (k, v) ∈ kvs) : WF v = true :=
  (WF_obj C.rest.wf).2 (k, v) hmem

/-- the shape of the value found under a key of the schema object -/
theorem shape_lookup (C : Ctx T P d rec sub shp kvs) {key : String} {v : Json}
    (h : lookupJ key kvs = some v) : shapeClause d shp (ks key, v) = true :=
  C.shape _ (lookup_mem h)

end Ctx

theorem tkMember_type (d : Draft) (v : Json) :
    tkMember d (k!"type") v =
      (match v with
       | .str t => (typeNames d).contains t
       | .arr ts => ts.all (fun t => match t with | .str t => (typeNames d).contains t | _ => true)
       | _ => true) := by
  unfold tkMember; rw [if_pos (Or.inl ks_type.symm)]
  cases v <;> rfl

theorem tkMember_disallow (d : Draft) (v : Json) :
    tkMember d (k!"disallow") v =
      (match v with
       | .str t => (typeNames d).contains t
       | .arr ts => ts.all (fun t => match t with | .str t => (typeNames d).contains t | _ => true)
       | _ => true) := by
  unfold tkMember; rw [if_pos (Or.inr ks_disallow.symm)]
  cases v <;> rfl

theorem nsMember_multipleOf (v : Json) :
    nsMember (k!"multipleOf") v
      = (match v with | .num (.int m) => decide (0 < m ∧ m ≤ 2 ^ 53) | _ => false) := by
  unfold nsMember; rw [if_pos (Or.inl ks_multipleOf.symm)]
  cases v with
  | num n => cases n <;> rfl
  | _ => rfl

theorem nsMember_divisibleBy (v : Json) :
    nsMember (k!"divisibleBy") v
      = (match v with | .num (.int m) => decide (0 < m ∧ m ≤ 2 ^ 53) | _ => false) := by
  unfold nsMember; rw [if_pos (Or.inr ks_divisibleBy.symm)]
  cases v with
  | num n => cases n <;> rfl
  | _ => rfl

section Keys
variable {env : Env} {impl : FmtImpl} {d : Draft} {rec : Rec} {sub : Json → Json → Bool}
  {shp : Json → Bool} {kvs : List (Str × Json)}

/-- the entries of a draft 3 `type` array: known names or well-shaped schemas -/
theorem type3_elems (C : Ctx T P d rec sub shp kvs) {k : Str} {ts : List Json} (hmem : (k, .arr ts) ∈ kvs)
    (hsh : ts.all (fun t => match t with | .str _ => true | .obj _ => shp t | _ => false) = true)
    (htk : ts.all (fun t => match t with | .str t => (typeNames d).contains t | _ => true) = true)
    (i : Json) (hi : WF i = true) :
    ∀ t ∈ ts, (∃ n, t = .str n ∧ (typeNames d).contains n = true)
      ∨ (t.isObj = true ∧ Vd T P (rec i t) (sub t i)) := by
  intro t ht
  have h1 := List.all_eq_true.mp hsh t ht
  have h2 := List.all_eq_true.mp htk t ht
  cases t with
  | str n => exact Or.inl ⟨n, rfl, h2⟩
  | obj o => exact Or.inr ⟨rfl, C.sub_elem hmem ht h1 i hi⟩
  | _ => cases h1

theorem key_type (C : Ctx T P d rec sub shp kvs) (v i : Json) (hmem : (k!"type", v) ∈ kvs)
    (hi : WF i = true) :
    Vd T P (runKeyword env impl (d.cfg none) rec i (.obj kvs) (k!"type", v))
      (clause env d sub kvs i (k!"type", v)) := by
  have hsh := C.shape _ hmem
  have htk := C.rest.tk_member hmem
  rw [tkMember_type] at htk
  cases d
  case d3 =>
    cases v with
    | str t =>
      refine (ex_runKeyword (f := .type_draft3) rfl
        (ex_kwTypeDraft3 (sub := sub) .d3 (.str t) i [.str t] rfl (fun t' ht' => ?_))).congr (Bool.or_false _)
      rw [List.mem_singleton] at ht'
      exact Or.inl ⟨t, ht', htk⟩
    | arr ts =>
      exact ex_runKeyword (f := .type_draft3) rfl
        (ex_kwTypeDraft3 (sub := sub) .d3 (.arr ts) i ts rfl (type3_elems C hmem hsh htk i hi))
    | _ => cases (hsh : false = true)
  all_goals
    cases v with
    | str t => exact ex_runKeyword (f := .type) rfl (ex_kwType_str _ i t htk)
    | arr ts =>
      refine ex_runKeyword (f := .type) rfl (ex_kwType_arr _ i ts (fun t ht => ?_))
      have h1 := List.all_eq_true.mp hsh t ht
      cases t with
      | str n => exact ⟨n, rfl, h1⟩
      | _ => cases h1
    | _ => cases (hsh : false = true)

theorem key_disallow (C : Ctx T P d rec sub shp kvs) (v i : Json) (hmem : (k!"disallow", v) ∈ kvs)
    (hi : WF i = true) :
    Vd T P (runKeyword env impl (d.cfg none) rec i (.obj kvs) (k!"disallow", v))
      (clause env d sub kvs i (k!"disallow", v)) := by
  have hsh := C.shape _ hmem
  cases d
  case d3 =>
    cases v with
    | str t =>
      refine (ex_runKeyword (f := .disallow_draft3) rfl
        (ex_kwDisallowDraft3 (sub := sub) .d3 (.str t) i [.str t] rfl
          (fun t' ht' => C.hsyn rfl _ hmem _ rfl t' ht' i hi))).congr (Bool.and_true _)
    | arr ts =>
      refine (ex_runKeyword (f := .disallow_draft3) rfl
        (ex_kwDisallowDraft3 (sub := sub) .d3 (.arr ts) i ts rfl
          (fun t' ht' => C.hsyn rfl _ hmem _ rfl t' ht' i hi))).congr ?_
      exact congrArg ts.all (funext fun t => by cases t <;> rfl)
    | _ => cases (hsh : false = true)
  all_goals exact (ex_runKeyword_none rfl).congr (by cases i <;> rfl)

theorem key_extends (C : Ctx T P d rec sub shp kvs) (v i : Json) (hmem : (k!"extends", v) ∈ kvs)
    (hi : WF i = true) :
    Vd T P (runKeyword env impl (d.cfg none) rec i (.obj kvs) (k!"extends", v))
      (clause env d sub kvs i (k!"extends", v)) := by
  have hsh := C.shape _ hmem
  cases d
  case d3 =>
    cases v with
    | obj o =>
      exact ex_runKeyword (f := .extends_draft3) rfl
        (ex_kwExtends_obj .d3 _ i rfl (C.sub_v hmem hsh i hi))
    | arr ss =>
      refine ex_runKeyword (f := .extends_draft3) rfl (ex_kwExtends_arr .d3 ss i (fun s hs => ?_))
      have h1 := List.all_eq_true.mp hsh s hs
      rw [Bool.and_eq_true] at h1
      exact C.sub_elem hmem hs h1.2 i hi
    | _ => cases (hsh : false = true)
  all_goals exact (ex_runKeyword_none rfl).congr (by cases i <;> rfl)

theorem key_enum (C : Ctx T P d rec sub shp kvs) (v i : Json) (hmem : (k!"enum", v) ∈ kvs)
    (hi : WF i = true) :
    Vd T P (runKeyword env impl (d.cfg none) rec i (.obj kvs) (k!"enum", v))
      (clause env d sub kvs i (k!"enum", v)) := by
  have hsh := C.shape _ hmem
  have hwf := C.wf_v hmem
  cases d <;>
    cases v with
    | arr es => exact ex_runKeyword (f := .enum) rfl (ex_kwEnum es i hwf hi)
    | _ => cases (hsh : false = true)

theorem key_const (C : Ctx T P d rec sub shp kvs) (v i : Json) (hmem : (k!"const", v) ∈ kvs)
    (hi : WF i = true) :
    Vd T P (runKeyword env impl (d.cfg none) rec i (.obj kvs) (k!"const", v))
      (clause env d sub kvs i (k!"const", v)) := by
  have hwf := C.wf_v hmem
  cases d
  case d6 => exact ex_runKeyword (f := .const) rfl (ex_kwConst v i hwf hi)
  case d7 => exact ex_runKeyword (f := .const) rfl (ex_kwConst v i hwf hi)
  all_goals exact (ex_runKeyword_none rfl).congr (by cases i <;> rfl)

/-- the members of an `allOf`/`anyOf`/`oneOf` array -/
theorem schemaArray_elems (C : Ctx T P d rec sub shp kvs) {k : Str} {ss : List Json}
    (hmem : (k, .arr ss) ∈ kvs) (hsh : (!ss.isEmpty && ss.all shp) = true) (i : Json)
    (hi : WF i = true) : ∀ s ∈ ss, Vd T P (rec i s) (sub s i) := by
  intro s hs
  rw [Bool.and_eq_true] at hsh
  exact C.sub_elem hmem hs (List.all_eq_true.mp hsh.2 s hs) i hi

theorem key_allOf (C : Ctx T P d rec sub shp kvs) (v i : Json) (hmem : (k!"allOf", v) ∈ kvs)
    (hi : WF i = true) :
    Vd T P (runKeyword env impl (d.cfg none) rec i (.obj kvs) (k!"allOf", v))
      (clause env d sub kvs i (k!"allOf", v)) := by
  have hsh := C.shape _ hmem
  cases d
  case d3 => exact (ex_runKeyword_none rfl).congr (by cases i <;> rfl)
  all_goals
    cases v with
    | arr ss =>
      exact ex_runKeyword (f := .allOf) rfl (ex_kwAllOf ss i (schemaArray_elems C hmem hsh i hi))
    | _ => cases (hsh : false = true)

theorem key_anyOf (C : Ctx T P d rec sub shp kvs) (v i : Json) (hmem : (k!"anyOf", v) ∈ kvs)
    (hi : WF i = true) :
    Vd T P (runKeyword env impl (d.cfg none) rec i (.obj kvs) (k!"anyOf", v))
      (clause env d sub kvs i (k!"anyOf", v)) := by
  have hsh := C.shape _ hmem
  cases d
  case d3 => exact (ex_runKeyword_none rfl).congr (by cases i <;> rfl)
  all_goals
    cases v with
    | arr ss =>
      exact ex_runKeyword (f := .anyOf) rfl (ex_kwAnyOf ss i (schemaArray_elems C hmem hsh i hi))
    | _ => cases (hsh : false = true)

theorem key_oneOf (C : Ctx T P d rec sub shp kvs) (v i : Json) (hmem : (k!"oneOf", v) ∈ kvs)
    (hi : WF i = true) :
    Vd T P (runKeyword env impl (d.cfg none) rec i (.obj kvs) (k!"oneOf", v))
      (clause env d sub kvs i (k!"oneOf", v)) := by
  have hsh := C.shape _ hmem
  cases d
  case d3 => exact (ex_runKeyword_none rfl).congr (by cases i <;> rfl)
  all_goals
    cases v with
    | arr ss =>
      exact ex_runKeyword (f := .oneOf) rfl (ex_kwOneOf ss i (schemaArray_elems C hmem hsh i hi))
    | _ => cases (hsh : false = true)

theorem key_not (C : Ctx T P d rec sub shp kvs) (v i : Json) (hmem : (k!"not", v) ∈ kvs)
    (hi : WF i = true) :
    Vd T P (runKeyword env impl (d.cfg none) rec i (.obj kvs) (k!"not", v))
      (clause env d sub kvs i (k!"not", v)) := by
  have hsh := C.shape _ hmem
  cases d
  case d3 => exact (ex_runKeyword_none rfl).congr (by cases i <;> rfl)
  all_goals exact ex_runKeyword (f := .not_) rfl (ex_kwNot v i (C.sub_v hmem hsh i hi))

theorem key_if (C : Ctx T P d rec sub shp kvs) (v i : Json) (hmem : (k!"if", v) ∈ kvs)
    (hi : WF i = true) :
    Vd T P (runKeyword env impl (d.cfg none) rec i (.obj kvs) (k!"if", v))
      (clause env d sub kvs i (k!"if", v)) := by
  have hsh := C.shape _ hmem
  cases d
  case d7 =>
    refine ex_runKeyword (f := .if_) rfl (ex_kwIf kvs v i (C.sub_v hmem hsh i hi) ?_ ?_)
    · intro t ht
      have := C.shape_lookup ht
      rw [ks_then] at this
      exact C.sub_v (lookup_mem ht) this i hi
    · intro t ht
      have := C.shape_lookup ht
      rw [ks_else] at this
      exact C.sub_v (lookup_mem ht) this i hi
  all_goals exact (ex_runKeyword_none rfl).congr (by cases i <;> rfl)

theorem key_then (v i : Json) :
    Vd T P (runKeyword env impl (d.cfg none) rec i (.obj kvs) (k!"then", v))
      (clause env d sub kvs i (k!"then", v)) := by
  cases d <;> exact (ex_runKeyword_none rfl).congr (by cases i <;> rfl)

theorem key_else (v i : Json) :
    Vd T P (runKeyword env impl (d.cfg none) rec i (.obj kvs) (k!"else", v))
      (clause env d sub kvs i (k!"else", v)) := by
  cases d <;> exact (ex_runKeyword_none rfl).congr (by cases i <;> rfl)

theorem key_format (v i : Json) :
    Vd T P (runKeyword env impl (d.cfg none) rec i (.obj kvs) (k!"format", v))
      (clause env d sub kvs i (k!"format", v)) := by
  cases d <;>
    exact (ex_runKeyword (f := .format) rfl ex_nothing).congr
      (by cases i <;> rfl)

end Keys

/-- variant of `ex_runKeyword` whose hypothesis is stated on `applyKw` -/
theorem ex_runKeyword' {rec : Rec} {env : Env} {impl : FmtImpl} {d : Draft} {k : Str} {v i s : Json}
    {f : KwFn} {w : Bool} (h : lookupS k (kwTable d) = some f)
    (hex : Vd T P (applyKw env impl (d.cfg none) rec f v i s) w) :
    Vd T P (runKeyword env impl (d.cfg none) rec i s (k, v)) w :=
  ex_runKeyword h hex rfl

theorem ex_of_eq_nothing {g : Gen} (h : g = nothing) : Vd T P g true := h ▸ ex_nothing

theorem ex_kwBound_nonnum (d : Draft) (t : String) (f : Num → Num → Bool) (bound i : Json)
    (h : i.isNumJ = false) : Vd T P (kwBound (d.cfg none) t f bound i) true :=
  ex_of_eq_nothing (kwBound_nonnum' d t f bound i h)

theorem truthy_flag (key : String) (kvs : List (Str × Json))
    (h : ∀ v', lookupJ key kvs = some v' → isBoolV v' = true) :
    truthy (((Json.obj kvs).get? (skey key)).getD (.bool false)) = flag key kvs := by
  have e : (Json.obj kvs).get? (skey key) = lookupJ key kvs := rfl
  rw [e]
  unfold flag
  cases hl : lookupJ key kvs with
  | none => rfl
  | some v' =>
    have := h v' hl
    cases v' <;> simp [isBoolV] at this
    rename_i b
    cases b <;> rfl

theorem kwMinimum34_nonnum (d : Draft) (v i s : Json) (h : i.isNumJ = false) :
    kwMinimumDraft3Draft4 (d.cfg none) v i s = nothing := by
  unfold kwMinimumDraft3Draft4
  split <;> exact kwBound_nonnum' d _ _ _ _ h

theorem kwMaximum34_nonnum (d : Draft) (v i s : Json) (h : i.isNumJ = false) :
    kwMaximumDraft3Draft4 (d.cfg none) v i s = nothing := by
  unfold kwMaximumDraft3Draft4
  split <;> exact kwBound_nonnum' d _ _ _ _ h

theorem ex_kwMinimum34 (d : Draft) (kvs : List (Str × Json)) (b x : Num)
    (h : ∀ v', lookupJ "exclusiveMinimum" kvs = some v' → isBoolV v' = true) :
    Vd T P (kwMinimumDraft3Draft4 (d.cfg none) (.num b) (.num x) (.obj kvs))
      (if flag "exclusiveMinimum" kvs then decide (val b < val x) else decide (val b ≤ val x)) := by
  unfold kwMinimumDraft3Draft4
  rw [truthy_flag _ _ h]
  cases flag "exclusiveMinimum" kvs <;> simp only [Bool.false_eq_true, if_false, if_true]
  · refine Vd.congr (ex_kwBound d _ _ b x) ?_
    exact not_lt_eq x b
  · refine Vd.congr (ex_kwBound d _ _ b x) ?_
    exact not_le_eq x b

theorem ex_kwMaximum34 (d : Draft) (kvs : List (Str × Json)) (b x : Num)
    (h : ∀ v', lookupJ "exclusiveMaximum" kvs = some v' → isBoolV v' = true) :
    Vd T P (kwMaximumDraft3Draft4 (d.cfg none) (.num b) (.num x) (.obj kvs))
      (if flag "exclusiveMaximum" kvs then decide (val x < val b) else decide (val x ≤ val b)) := by
  unfold kwMaximumDraft3Draft4
  rw [truthy_flag _ _ h]
  cases flag "exclusiveMaximum" kvs <;> simp only [Bool.false_eq_true, if_false, if_true]
  · refine Vd.congr (ex_kwBound d _ _ b x) ?_
    exact not_lt_eq b x
  · refine Vd.congr (ex_kwBound d _ _ b x) ?_
    exact not_le_eq b x


theorem ex_kwMinimum (d : Draft) (b x : Num) :
    Vd T P (kwMinimum (d.cfg none) (.num b) (.num x)) (decide (val b ≤ val x)) :=
  Vd.congr (ex_kwBound d _ _ b x) (not_lt_eq x b)
theorem ex_kwMaximum (d : Draft) (b x : Num) :
    Vd T P (kwMaximum (d.cfg none) (.num b) (.num x)) (decide (val x ≤ val b)) :=
  Vd.congr (ex_kwBound d _ _ b x) (not_lt_eq b x)
theorem ex_kwExclusiveMinimum (d : Draft) (b x : Num) :
    Vd T P (kwExclusiveMinimum (d.cfg none) (.num b) (.num x)) (decide (val b < val x)) :=
  Vd.congr (ex_kwBound d _ _ b x) (not_le_eq x b)
theorem ex_kwExclusiveMaximum (d : Draft) (b x : Num) :
    Vd T P (kwExclusiveMaximum (d.cfg none) (.num b) (.num x)) (decide (val x < val b)) :=
  Vd.congr (ex_kwBound d _ _ b x) (not_le_eq b x)

section ApplyNothing
variable {env : Env} {impl : FmtImpl} {d : Draft} {rec : Rec} {v i s : Json}

theorem applyKw_minimum34_non (h : i.isNumJ = false) :
    applyKw env impl (d.cfg none) rec .minimum_draft3_draft4 v i s = nothing :=
  kwMinimum34_nonnum d v i s h
theorem applyKw_maximum34_non (h : i.isNumJ = false) :
    applyKw env impl (d.cfg none) rec .maximum_draft3_draft4 v i s = nothing :=
  kwMaximum34_nonnum d v i s h
theorem applyKw_minimum_non (h : i.isNumJ = false) :
    applyKw env impl (d.cfg none) rec .minimum v i s = nothing := kwBound_nonnum' d _ _ v i h
theorem applyKw_maximum_non (h : i.isNumJ = false) :
    applyKw env impl (d.cfg none) rec .maximum v i s = nothing := kwBound_nonnum' d _ _ v i h
theorem applyKw_exclusiveMinimum_non (h : i.isNumJ = false) :
    applyKw env impl (d.cfg none) rec .exclusiveMinimum v i s = nothing := kwBound_nonnum' d _ _ v i h
theorem applyKw_exclusiveMaximum_non (h : i.isNumJ = false) :
    applyKw env impl (d.cfg none) rec .exclusiveMaximum v i s = nothing := kwBound_nonnum' d _ _ v i h
theorem applyKw_multipleOf_non (h : i.isNumJ = false) :
    applyKw env impl (d.cfg none) rec .multipleOf v i s = nothing := kwMultipleOf_nonnum d v i h
theorem applyKw_minLength_non (h : i.isStr = false) :
    applyKw env impl (d.cfg none) rec .minLength v i s = nothing :=
  kwLenBound_other d _ _ _ _ v i _ (isTypeS_string d i) h
theorem applyKw_maxLength_non (h : i.isStr = false) :
    applyKw env impl (d.cfg none) rec .maxLength v i s = nothing :=
  kwLenBound_other d _ _ _ _ v i _ (isTypeS_string d i) h
theorem applyKw_minItems_non (h : i.isArr = false) :
    applyKw env impl (d.cfg none) rec .minItems v i s = nothing :=
  kwLenBound_other d _ _ _ _ v i _ (isTypeS_array d i) h
theorem applyKw_maxItems_non (h : i.isArr = false) :
    applyKw env impl (d.cfg none) rec .maxItems v i s = nothing :=
  kwLenBound_other d _ _ _ _ v i _ (isTypeS_array d i) h
theorem applyKw_minProperties_non (h : i.isObj = false) :
    applyKw env impl (d.cfg none) rec .minProperties v i s = nothing :=
  kwLenBound_other d _ _ _ _ v i _ (isTypeS_object d i) h
theorem applyKw_maxProperties_non (h : i.isObj = false) :
    applyKw env impl (d.cfg none) rec .maxProperties v i s = nothing :=
  kwLenBound_other d _ _ _ _ v i _ (isTypeS_object d i) h
theorem applyKw_pattern_non (h : i.isStr = false) :
    applyKw env impl (d.cfg none) rec .pattern v i s = nothing := kwPattern_nonstr env d v i h
theorem applyKw_uniqueItems_non (h : i.isArr = false) :
    applyKw env impl (d.cfg none) rec .uniqueItems v i s = nothing := kwUniqueItems_nonarr d v i h
theorem applyKw_items_non (h : i.isArr = false) :
    applyKw env impl (d.cfg none) rec .items v i s = nothing := kwItems_nonarr d v i h
theorem applyKw_items34_non (h : i.isArr = false) :
    applyKw env impl (d.cfg none) rec .items_draft3_draft4 v i s = nothing := kwItems34_nonarr d v i h
theorem applyKw_additionalItems_non (h : i.isArr = false) :
    applyKw env impl (d.cfg none) rec .additionalItems v i s = nothing :=
  kwAdditionalItems_nonarr d v i s h
theorem applyKw_contains_non (h : i.isArr = false) :
    applyKw env impl (d.cfg none) rec .contains v i s = nothing := kwContains_nonarr d v i h
theorem applyKw_properties_non (h : i.isObj = false) :
    applyKw env impl (d.cfg none) rec .properties v i s = nothing := kwProperties_nonobj d v i h
theorem applyKw_properties3_non (h : i.isObj = false) :
    applyKw env impl (d.cfg none) rec .properties_draft3 v i s = nothing :=
  kwPropertiesDraft3_nonobj d v i s h
theorem applyKw_patternProperties_non (h : i.isObj = false) :
    applyKw env impl (d.cfg none) rec .patternProperties v i s = nothing :=
  kwPatternProperties_nonobj env d v i h
theorem applyKw_additionalProperties_non (h : i.isObj = false) :
    applyKw env impl (d.cfg none) rec .additionalProperties v i s = nothing :=
  kwAdditionalProperties_nonobj env d v i s h
theorem applyKw_required_non (h : i.isObj = false) :
    applyKw env impl (d.cfg none) rec .required v i s = nothing := kwRequired_nonobj d v i h
theorem applyKw_dependencies_non (h : i.isObj = false) :
    applyKw env impl (d.cfg none) rec .dependencies v i s = nothing := kwDependencies_nonobj d v i h
theorem applyKw_dependencies3_non (h : i.isObj = false) :
    applyKw env impl (d.cfg none) rec .dependencies_draft3 v i s = nothing :=
  kwDependenciesDraft3_nonobj d v i h
theorem applyKw_propertyNames_non (h : i.isObj = false) :
    applyKw env impl (d.cfg none) rec .propertyNames v i s = nothing := kwPropertyNames_nonobj d v i h

end ApplyNothing

section Keys
variable {env : Env} {impl : FmtImpl} {d : Draft} {rec : Rec} {sub : Json → Json → Bool}
  {shp : Json → Bool} {kvs : List (Str × Json)}

theorem key_minimum (C : Ctx T P d rec sub shp kvs) (v i : Json) (hmem : (k!"minimum", v) ∈ kvs) :
    Vd T P (runKeyword env impl (d.cfg none) rec i (.obj kvs) (k!"minimum", v))
      (clause env d sub kvs i (k!"minimum", v)) := by
  have hsh := C.shape _ hmem
  have hex : ∀ v', lookupJ "exclusiveMinimum" kvs = some v' →
      shapeClause d shp (k!"exclusiveMinimum", v') = true := by
    intro v' hv'
    have := C.shape_lookup hv'
    rwa [ks_exclusiveMinimum] at this
  cases d
  all_goals
    obtain ⟨b, rfl⟩ : ∃ b, v = .num b := by
      cases v with
      | num b => exact ⟨b, rfl⟩
      | _ => cases (hsh : false = true)
  case d3 =>
    cases i with
    | num x => exact ex_runKeyword (f := .minimum_draft3_draft4) rfl (ex_kwMinimum34 .d3 kvs b x hex)
    | _ => exact ex_runKeyword (f := .minimum_draft3_draft4) rfl ex_nothing (applyKw_minimum34_non (by rfl))
  case d4 =>
    cases i with
    | num x => exact ex_runKeyword (f := .minimum_draft3_draft4) rfl (ex_kwMinimum34 .d4 kvs b x hex)
    | _ => exact ex_runKeyword (f := .minimum_draft3_draft4) rfl ex_nothing (applyKw_minimum34_non (by rfl))
  all_goals
    cases i with
    | num x =>
      exact ex_runKeyword' (f := .minimum) rfl (ex_kwMinimum _ b x)
    | _ =>
      exact ex_runKeyword (f := .minimum) rfl ex_nothing (applyKw_minimum_non (by rfl))

theorem key_maximum (C : Ctx T P d rec sub shp kvs) (v i : Json) (hmem : (k!"maximum", v) ∈ kvs) :
    Vd T P (runKeyword env impl (d.cfg none) rec i (.obj kvs) (k!"maximum", v))
      (clause env d sub kvs i (k!"maximum", v)) := by
  have hsh := C.shape _ hmem
  have hex : ∀ v', lookupJ "exclusiveMaximum" kvs = some v' →
      shapeClause d shp (k!"exclusiveMaximum", v') = true := by
    intro v' hv'
    have := C.shape_lookup hv'
    rwa [ks_exclusiveMaximum] at this
  cases d
  all_goals
    obtain ⟨b, rfl⟩ : ∃ b, v = .num b := by
      cases v with
      | num b => exact ⟨b, rfl⟩
      | _ => cases (hsh : false = true)
  case d3 =>
    cases i with
    | num x => exact ex_runKeyword (f := .maximum_draft3_draft4) rfl (ex_kwMaximum34 .d3 kvs b x hex)
    | _ => exact ex_runKeyword (f := .maximum_draft3_draft4) rfl ex_nothing (applyKw_maximum34_non (by rfl))
  case d4 =>
    cases i with
    | num x => exact ex_runKeyword (f := .maximum_draft3_draft4) rfl (ex_kwMaximum34 .d4 kvs b x hex)
    | _ => exact ex_runKeyword (f := .maximum_draft3_draft4) rfl ex_nothing (applyKw_maximum34_non (by rfl))
  all_goals
    cases i with
    | num x =>
      exact ex_runKeyword' (f := .maximum) rfl (ex_kwMaximum _ b x)
    | _ =>
      exact ex_runKeyword (f := .maximum) rfl ex_nothing (applyKw_maximum_non (by rfl))

theorem key_exclusiveMinimum (C : Ctx T P d rec sub shp kvs) (v i : Json)
    (hmem : (k!"exclusiveMinimum", v) ∈ kvs) :
    Vd T P (runKeyword env impl (d.cfg none) rec i (.obj kvs) (k!"exclusiveMinimum", v))
      (clause env d sub kvs i (k!"exclusiveMinimum", v)) := by
  have hsh := C.shape _ hmem
  cases d
  case d3 => exact (ex_runKeyword_none rfl).congr (by cases i <;> rfl)
  case d4 => exact (ex_runKeyword_none rfl).congr (by cases i <;> rfl)
  all_goals
    obtain ⟨b, rfl⟩ : ∃ b, v = .num b := by
      cases v with
      | num b => exact ⟨b, rfl⟩
      | _ => cases (hsh : false = true)
    cases i with
    | num x =>
      exact ex_runKeyword' (f := .exclusiveMinimum) rfl (ex_kwExclusiveMinimum _ b x)
    | _ =>
      exact ex_runKeyword (f := .exclusiveMinimum) rfl ex_nothing (applyKw_exclusiveMinimum_non (by rfl))

theorem key_exclusiveMaximum (C : Ctx T P d rec sub shp kvs) (v i : Json)
    (hmem : (k!"exclusiveMaximum", v) ∈ kvs) :
    Vd T P (runKeyword env impl (d.cfg none) rec i (.obj kvs) (k!"exclusiveMaximum", v))
      (clause env d sub kvs i (k!"exclusiveMaximum", v)) := by
  have hsh := C.shape _ hmem
  cases d
  case d3 => exact (ex_runKeyword_none rfl).congr (by cases i <;> rfl)
  case d4 => exact (ex_runKeyword_none rfl).congr (by cases i <;> rfl)
  all_goals
    obtain ⟨b, rfl⟩ : ∃ b, v = .num b := by
      cases v with
      | num b => exact ⟨b, rfl⟩
      | _ => cases (hsh : false = true)
    cases i with
    | num x =>
      exact ex_runKeyword' (f := .exclusiveMaximum) rfl (ex_kwExclusiveMaximum _ b x)
    | _ =>
      exact ex_runKeyword (f := .exclusiveMaximum) rfl ex_nothing (applyKw_exclusiveMaximum_non (by rfl))

/-- the value of a `multipleOf`/`divisibleBy` member on the exact sub-domain -/
theorem safe_divisor {v : Json}
    (h : (match v with | .num (.int m) => decide (0 < m ∧ m ≤ 2 ^ 53) | _ => false) = true) :
    ∃ m : Int, v = .num (.int m) ∧ 0 < m ∧ m ≤ 2 ^ 53 := by
  cases v with
  | num n =>
    cases n with
    | int m => exact ⟨m, rfl, of_decide_eq_true h⟩
    | flt _ _ _ => cases h
  | _ => cases h

theorem key_multipleOf (C : Ctx T P d rec sub shp kvs) (v i : Json) (hmem : (k!"multipleOf", v) ∈ kvs) :
    Vd T P (runKeyword env impl (d.cfg none) rec i (.obj kvs) (k!"multipleOf", v))
      (clause env d sub kvs i (k!"multipleOf", v)) := by
  have hns := C.rest.ns_member hmem
  rw [nsMember_multipleOf] at hns
  obtain ⟨m, rfl, h0, h1⟩ := safe_divisor hns
  cases d
  case d3 => exact (ex_runKeyword_none rfl).congr (by cases i <;> rfl)
  all_goals
    cases i with
    | num x => exact ex_runKeyword' (f := .multipleOf) rfl (ex_kwMultipleOf _ x m h0 h1)
    | _ => exact ex_runKeyword (f := .multipleOf) rfl ex_nothing (applyKw_multipleOf_non (by rfl))

theorem key_divisibleBy (C : Ctx T P d rec sub shp kvs) (v i : Json) (hmem : (k!"divisibleBy", v) ∈ kvs) :
    Vd T P (runKeyword env impl (d.cfg none) rec i (.obj kvs) (k!"divisibleBy", v))
      (clause env d sub kvs i (k!"divisibleBy", v)) := by
  have hns := C.rest.ns_member hmem
  rw [nsMember_divisibleBy] at hns
  obtain ⟨m, rfl, h0, h1⟩ := safe_divisor hns
  cases d
  case d3 =>
    cases i with
    | num x => exact ex_runKeyword' (f := .multipleOf) rfl (ex_kwMultipleOf _ x m h0 h1)
    | _ => exact ex_runKeyword (f := .multipleOf) rfl ex_nothing (applyKw_multipleOf_non (by rfl))
  all_goals exact (ex_runKeyword_none rfl).congr (by cases i <;> rfl)

theorem nonNegInt_num {d : Draft} {v : Json} (h : isNonNegInt d v = true) : ∃ b, v = .num b := by
  cases v with
  | num b => exact ⟨b, rfl⟩
  | _ => cases h

/-- `exact t d` for the draft `d` that fits -/
local macro "exact_draft " t:term : tactic =>
  `(tactic| first | exact $t Draft.d3 | exact $t Draft.d4 | exact $t Draft.d6 | exact $t Draft.d7)

theorem key_minLength (C : Ctx T P d rec sub shp kvs) (v i : Json) (hmem : (k!"minLength", v) ∈ kvs) :
    Vd T P (runKeyword env impl (d.cfg none) rec i (.obj kvs) (k!"minLength", v))
      (clause env d sub kvs i (k!"minLength", v)) := by
  have hsh := C.shape _ hmem
  cases d
  all_goals
    obtain ⟨b, rfl⟩ := nonNegInt_num hsh
    cases i with
    | str s =>
      refine ex_runKeyword' (f := .minLength) rfl ?_
      exact_draft (fun d => ex_kwLenBound d "string" "tooShort" true strLen b (.str s) s.length (isTypeS_string _ _) rfl)
    | _ => exact ex_runKeyword (f := .minLength) rfl ex_nothing (applyKw_minLength_non (by rfl))

theorem key_maxLength (C : Ctx T P d rec sub shp kvs) (v i : Json) (hmem : (k!"maxLength", v) ∈ kvs) :
    Vd T P (runKeyword env impl (d.cfg none) rec i (.obj kvs) (k!"maxLength", v))
      (clause env d sub kvs i (k!"maxLength", v)) := by
  have hsh := C.shape _ hmem
  cases d
  all_goals
    obtain ⟨b, rfl⟩ := nonNegInt_num hsh
    cases i with
    | str s =>
      refine ex_runKeyword' (f := .maxLength) rfl ?_
      exact_draft (fun d => ex_kwLenBound d "string" "tooLong" false strLen b (.str s) s.length (isTypeS_string _ _) rfl)
    | _ => exact ex_runKeyword (f := .maxLength) rfl ex_nothing (applyKw_maxLength_non (by rfl))

theorem key_minItems (C : Ctx T P d rec sub shp kvs) (v i : Json) (hmem : (k!"minItems", v) ∈ kvs) :
    Vd T P (runKeyword env impl (d.cfg none) rec i (.obj kvs) (k!"minItems", v))
      (clause env d sub kvs i (k!"minItems", v)) := by
  have hsh := C.shape _ hmem
  cases d
  all_goals
    obtain ⟨b, rfl⟩ := nonNegInt_num hsh
    cases i with
    | arr xs =>
      refine ex_runKeyword' (f := .minItems) rfl ?_
      exact_draft (fun d => ex_kwLenBound d "array" "tooShort" true arrLen b (.arr xs) xs.length (isTypeS_array _ _) rfl)
    | _ => exact ex_runKeyword (f := .minItems) rfl ex_nothing (applyKw_minItems_non (by rfl))

theorem key_maxItems (C : Ctx T P d rec sub shp kvs) (v i : Json) (hmem : (k!"maxItems", v) ∈ kvs) :
    Vd T P (runKeyword env impl (d.cfg none) rec i (.obj kvs) (k!"maxItems", v))
      (clause env d sub kvs i (k!"maxItems", v)) := by
  have hsh := C.shape _ hmem
  cases d
  all_goals
    obtain ⟨b, rfl⟩ := nonNegInt_num hsh
    cases i with
    | arr xs =>
      refine ex_runKeyword' (f := .maxItems) rfl ?_
      exact_draft (fun d => ex_kwLenBound d "array" "tooLong" false arrLen b (.arr xs) xs.length (isTypeS_array _ _) rfl)
    | _ => exact ex_runKeyword (f := .maxItems) rfl ex_nothing (applyKw_maxItems_non (by rfl))

theorem key_minProperties (C : Ctx T P d rec sub shp kvs) (v i : Json)
    (hmem : (k!"minProperties", v) ∈ kvs) :
    Vd T P (runKeyword env impl (d.cfg none) rec i (.obj kvs) (k!"minProperties", v))
      (clause env d sub kvs i (k!"minProperties", v)) := by
  have hsh := C.shape _ hmem
  cases d
  case d3 => exact (ex_runKeyword_none rfl).congr (by cases i <;> rfl)
  all_goals
    obtain ⟨b, rfl⟩ := nonNegInt_num hsh
    cases i with
    | obj ms =>
      refine ex_runKeyword' (f := .minProperties) rfl ?_
      exact_draft (fun d => ex_kwLenBound d "object" "minProperties" true objLen b (.obj ms) ms.length (isTypeS_object _ _) rfl)
    | _ => exact ex_runKeyword (f := .minProperties) rfl ex_nothing (applyKw_minProperties_non (by rfl))

theorem key_maxProperties (C : Ctx T P d rec sub shp kvs) (v i : Json)
    (hmem : (k!"maxProperties", v) ∈ kvs) :
    Vd T P (runKeyword env impl (d.cfg none) rec i (.obj kvs) (k!"maxProperties", v))
      (clause env d sub kvs i (k!"maxProperties", v)) := by
  have hsh := C.shape _ hmem
  cases d
  case d3 => exact (ex_runKeyword_none rfl).congr (by cases i <;> rfl)
  all_goals
    obtain ⟨b, rfl⟩ := nonNegInt_num hsh
    cases i with
    | obj ms =>
      refine ex_runKeyword' (f := .maxProperties) rfl ?_
      exact_draft (fun d => ex_kwLenBound d "object" "maxProperties" false objLen b (.obj ms) ms.length (isTypeS_object _ _) rfl)
    | _ => exact ex_runKeyword (f := .maxProperties) rfl ex_nothing (applyKw_maxProperties_non (by rfl))

theorem key_pattern (hre : RegexTotal env) (C : Ctx T P d rec sub shp kvs) (v i : Json)
    (hmem : (k!"pattern", v) ∈ kvs) :
    Vd T P (runKeyword env impl (d.cfg none) rec i (.obj kvs) (k!"pattern", v))
      (clause env d sub kvs i (k!"pattern", v)) := by
  have hsh := C.shape _ hmem
  cases d
  all_goals
    obtain ⟨p, rfl⟩ : ∃ p, v = .str p := by
      cases v with
      | str p => exact ⟨p, rfl⟩
      | _ => cases (hsh : false = true)
    cases i with
    | str s => exact ex_runKeyword' (f := .pattern) rfl (ex_kwPattern env hre _ p s)
    | _ => exact ex_runKeyword (f := .pattern) rfl ex_nothing (applyKw_pattern_non (by rfl))

theorem key_uniqueItems (C : Ctx T P d rec sub shp kvs) (v i : Json)
    (hmem : (k!"uniqueItems", v) ∈ kvs) (hi : WF i = true) :
    Vd T P (runKeyword env impl (d.cfg none) rec i (.obj kvs) (k!"uniqueItems", v))
      (clause env d sub kvs i (k!"uniqueItems", v)) := by
  have hsh := C.shape _ hmem
  cases d
  all_goals
    obtain ⟨b, rfl⟩ : ∃ b, v = .bool b := by
      cases v with
      | bool b => exact ⟨b, rfl⟩
      | _ => cases (hsh : false = true)
    cases i with
    | arr xs => exact ex_runKeyword' (f := .uniqueItems) rfl (ex_kwUniqueItems _ b xs hi)
    | _ => exact ex_runKeyword (f := .uniqueItems) rfl ex_nothing (applyKw_uniqueItems_non (by rfl))

end Keys

section Keys
variable {env : Env} {impl : FmtImpl} {d : Draft} {rec : Rec} {sub : Json → Json → Bool}
  {shp : Json → Bool} {kvs : List (Str × Json)}

theorem key_items (C : Ctx T P d rec sub shp kvs) (v i : Json) (hmem : (k!"items", v) ∈ kvs)
    (hi : WF i = true) :
    Vd T P (runKeyword env impl (d.cfg none) rec i (.obj kvs) (k!"items", v))
      (clause env d sub kvs i (k!"items", v)) := by
  have hsh := C.shape _ hmem
  cases i with
  | arr xs =>
    have hx := WF_arr hi
    cases d
    case d3 =>
      cases v with
      | arr ss =>
        exact ex_runKeyword' (f := .items_draft3_draft4) rfl (ex_kwItems34_arr _ ss xs
          (fun s hs x hx' => C.sub_elem hmem hs (List.all_eq_true.mp hsh s hs) x (hx x hx')))
      | obj o =>
        exact ex_runKeyword' (f := .items_draft3_draft4) rfl (ex_kwItems34_one _ _ xs rfl
          (fun x hx' => C.sub_v hmem hsh x (hx x hx')))
      | _ => cases (hsh : false = true)
    case d4 =>
      cases v with
      | arr ss =>
        exact ex_runKeyword' (f := .items_draft3_draft4) rfl (ex_kwItems34_arr _ ss xs
          (fun s hs x hx' => C.sub_elem hmem hs (List.all_eq_true.mp hsh s hs) x (hx x hx')))
      | obj o =>
        exact ex_runKeyword' (f := .items_draft3_draft4) rfl (ex_kwItems34_one _ _ xs rfl
          (fun x hx' => C.sub_v hmem hsh x (hx x hx')))
      | _ => cases (hsh : false = true)
    case d6 =>
      cases v with
      | arr ss =>
        exact ex_runKeyword' (f := .items) rfl (ex_kwItems_arr _ ss xs
          (fun s hs x hx' => C.sub_elem hmem hs (List.all_eq_true.mp hsh s hs) x (hx x hx')))
      | obj o =>
        exact ex_runKeyword' (f := .items) rfl (ex_kwItems_one _ _ xs rfl
          (fun x hx' => C.sub_v hmem hsh x (hx x hx')))
      | bool b =>
        exact ex_runKeyword' (f := .items) rfl (ex_kwItems_one _ _ xs rfl
          (fun x _ => C.hbool _ _ hmem (Or.inl rfl) b x))
      | _ => cases (hsh : false = true)
    case d7 =>
      cases v with
      | arr ss =>
        exact ex_runKeyword' (f := .items) rfl (ex_kwItems_arr _ ss xs
          (fun s hs x hx' => C.sub_elem hmem hs (List.all_eq_true.mp hsh s hs) x (hx x hx')))
      | obj o =>
        exact ex_runKeyword' (f := .items) rfl (ex_kwItems_one _ _ xs rfl
          (fun x hx' => C.sub_v hmem hsh x (hx x hx')))
      | bool b =>
        exact ex_runKeyword' (f := .items) rfl (ex_kwItems_one _ _ xs rfl
          (fun x _ => C.hbool _ _ hmem (Or.inr rfl) b x))
      | _ => cases (hsh : false = true)
  | _ =>
    cases d
    case d3 => exact ex_runKeyword (f := .items_draft3_draft4) rfl ex_nothing (applyKw_items34_non (by rfl))
    case d4 => exact ex_runKeyword (f := .items_draft3_draft4) rfl ex_nothing (applyKw_items34_non (by rfl))
    all_goals exact ex_runKeyword (f := .items) rfl ex_nothing (applyKw_items_non (by rfl))

theorem key_additionalItems (C : Ctx T P d rec sub shp kvs) (v i : Json)
    (hmem : (k!"additionalItems", v) ∈ kvs) (hi : WF i = true) :
    Vd T P (runKeyword env impl (d.cfg none) rec i (.obj kvs) (k!"additionalItems", v))
      (clause env d sub kvs i (k!"additionalItems", v)) := by
  have hsh := C.shape _ hmem
  cases i with
  | arr xs =>
    have hx := WF_arr hi
    cases d
    all_goals
      refine ex_runKeyword' (f := .additionalItems) rfl (ex_kwAdditionalItems _ kvs v xs ?_)
      cases v with
      | bool b => exact Or.inl ⟨b, rfl⟩
      | obj o => exact Or.inr ⟨rfl, fun x hx' => C.sub_v hmem hsh x (hx x hx')⟩
      | _ => cases (hsh : false = true)
  | _ =>
    cases d <;>
      exact ex_runKeyword (f := .additionalItems) rfl ex_nothing (applyKw_additionalItems_non (by rfl))

theorem key_contains (C : Ctx T P d rec sub shp kvs) (v i : Json)
    (hmem : (k!"contains", v) ∈ kvs) (hi : WF i = true) :
    Vd T P (runKeyword env impl (d.cfg none) rec i (.obj kvs) (k!"contains", v))
      (clause env d sub kvs i (k!"contains", v)) := by
  have hsh := C.shape _ hmem
  cases d
  case d3 => exact (ex_runKeyword_none rfl).congr (by cases i <;> rfl)
  case d4 => exact (ex_runKeyword_none rfl).congr (by cases i <;> rfl)
  all_goals
    cases i with
    | arr xs =>
      exact ex_runKeyword' (f := .contains) rfl (ex_kwContains _ v xs
        (fun x hx' => C.sub_v hmem hsh x (WF_arr hi x hx')))
    | _ => exact ex_runKeyword (f := .contains) rfl ex_nothing (applyKw_contains_non (by rfl))

theorem key_propertyNames (C : Ctx T P d rec sub shp kvs) (v i : Json)
    (hmem : (k!"propertyNames", v) ∈ kvs) :
    Vd T P (runKeyword env impl (d.cfg none) rec i (.obj kvs) (k!"propertyNames", v))
      (clause env d sub kvs i (k!"propertyNames", v)) := by
  have hsh := C.shape _ hmem
  cases d
  case d3 => exact (ex_runKeyword_none rfl).congr (by cases i <;> rfl)
  case d4 => exact (ex_runKeyword_none rfl).congr (by cases i <;> rfl)
  all_goals
    cases i with
    | obj ms =>
      exact ex_runKeyword' (f := .propertyNames) rfl (ex_kwPropertyNames _ v ms
        (fun m _ => C.sub_v hmem hsh (.str m.1) rfl))
    | _ => exact ex_runKeyword (f := .propertyNames) rfl ex_nothing (applyKw_propertyNames_non (by rfl))

/-- the members of `properties`/`patternProperties` -/
theorem props_elems (C : Ctx T P d rec sub shp kvs) {k : Str} {ps ms : List (Str × Json)}
    (hmem : (k, .obj ps) ∈ kvs)
    (hsh : ps.all (fun p => ((d = .d6 || d = .d7) || p.2.isObj) && shp p.2) = true)
    (hi : WF (.obj ms) = true) :
    ∀ p ∈ ps, ∀ m ∈ ms, Vd T P (rec m.2 p.2) (sub p.2 m.2) := by
  intro p hp m hm
  have h1 := List.all_eq_true.mp hsh p hp
  rw [Bool.and_eq_true] at h1
  exact C.sub_val hmem hp h1.2 m.2 ((WF_obj hi).2 m hm)

theorem key_properties (C : Ctx T P d rec sub shp kvs) (v i : Json)
    (hmem : (k!"properties", v) ∈ kvs) (hi : WF i = true) :
    Vd T P (runKeyword env impl (d.cfg none) rec i (.obj kvs) (k!"properties", v))
      (clause env d sub kvs i (k!"properties", v)) := by
  have hsh := C.shape _ hmem
  have hwv := C.wf_v hmem
  cases i with
  | obj ms =>
    cases d
    case d3 =>
      cases v with
      | obj ps =>
        refine ex_runKeyword' (f := .properties_draft3) rfl (ex_kwPropertiesDraft3 _ _ ps ms
          (WF_obj hwv).1 (WF_obj hi).1 (props_elems C hmem hsh hi) (fun p hp => ?_))
        have h1 := List.all_eq_true.mp hsh p hp
        rw [Bool.and_eq_true] at h1
        obtain ⟨pk, hpk⟩ : ∃ pk, p.2 = .obj pk := by
          have := h1.1
          cases hp2 : p.2 with
          | obj pk => exact ⟨pk, rfl⟩
          | _ => rw [hp2] at this; cases this
        refine ⟨pk, hpk, fun r hr => C.req3 rfl pk ?_ r hr⟩
        rw [← hpk]; exact h1.2
      | _ => cases (hsh : false = true)
    all_goals
      cases v with
      | obj ps =>
        exact (ex_runKeyword' (f := .properties) rfl (ex_kwProperties _ ps ms
          (WF_obj hwv).1 (WF_obj hi).1 (props_elems C hmem hsh hi))).congr (Bool.and_true _).symm
      | _ => cases (hsh : false = true)
  | _ =>
    cases d
    case d3 => exact ex_runKeyword (f := .properties_draft3) rfl ex_nothing (applyKw_properties3_non (by rfl))
    all_goals exact ex_runKeyword (f := .properties) rfl ex_nothing (applyKw_properties_non (by rfl))

theorem key_patternProperties (hre : RegexTotal env) (C : Ctx T P d rec sub shp kvs) (v i : Json)
    (hmem : (k!"patternProperties", v) ∈ kvs) (hi : WF i = true) :
    Vd T P (runKeyword env impl (d.cfg none) rec i (.obj kvs) (k!"patternProperties", v))
      (clause env d sub kvs i (k!"patternProperties", v)) := by
  have hsh := C.shape _ hmem
  cases i with
  | obj ms =>
    cases d
    all_goals
      cases v with
      | obj ps =>
        exact ex_runKeyword' (f := .patternProperties) rfl (ex_kwPatternProperties env hre _ ps ms
          (props_elems C hmem hsh hi))
      | _ => cases (hsh : false = true)
  | _ =>
    cases d <;> exact ex_runKeyword (f := .patternProperties) rfl ex_nothing
      (applyKw_patternProperties_non (by rfl))

theorem key_additionalProperties (hre : RegexTotal env) (hset : SetOrderOk env)
    (C : Ctx T P d rec sub shp kvs) (v i : Json)
    (hmem : (k!"additionalProperties", v) ∈ kvs) (hi : WF i = true) :
    Vd T P (runKeyword env impl (d.cfg none) rec i (.obj kvs) (k!"additionalProperties", v))
      (clause env d sub kvs i (k!"additionalProperties", v)) := by
  have hsh := C.shape _ hmem
  have hprops : ∀ x, lookupJ "properties" kvs = some x → x.isObj = true := by
    intro x hx
    have := C.shape_lookup hx
    rw [ks_properties] at this
    cases d <;> cases x <;> first | rfl | cases (this : false = true)
  have hpats : ∀ x, lookupJ "patternProperties" kvs = some x → x.isObj = true := by
    intro x hx
    have := C.shape_lookup hx
    rw [ks_patternProperties] at this
    cases d <;> cases x <;> first | rfl | cases (this : false = true)
  cases i with
  | obj ms =>
    cases d
    all_goals
      refine ex_runKeyword' (f := .additionalProperties) rfl
        (ex_kwAdditionalProperties env hre hset _ kvs v ms (WF_obj hi).1 hprops hpats ?_)
      cases v with
      | bool b => exact Or.inl ⟨b, rfl⟩
      | obj o => exact Or.inr ⟨rfl, fun m hm => C.sub_v hmem hsh m.2 ((WF_obj hi).2 m hm)⟩
      | _ => cases (hsh : false = true)
  | _ =>
    cases d <;> exact ex_runKeyword (f := .additionalProperties) rfl ex_nothing
      (applyKw_additionalProperties_non (by rfl))

theorem key_required (C : Ctx T P d rec sub shp kvs) (v i : Json)
    (hmem : (k!"required", v) ∈ kvs) :
    Vd T P (runKeyword env impl (d.cfg none) rec i (.obj kvs) (k!"required", v))
      (clause env d sub kvs i (k!"required", v)) := by
  have hsh := C.shape _ hmem
  cases d
  case d3 => exact (ex_runKeyword_none rfl).congr (by cases i <;> rfl)
  all_goals
    cases i with
    | obj ms =>
      cases v with
      | arr rs =>
        exact ex_runKeyword' (f := .required) rfl (ex_kwRequired _ rs ms (List.all_eq_true.mp hsh))
      | _ => cases (hsh : false = true)
    | _ => exact ex_runKeyword (f := .required) rfl ex_nothing (applyKw_required_non (by rfl))

theorem key_dependencies (C : Ctx T P d rec sub shp kvs) (v i : Json)
    (hmem : (k!"dependencies", v) ∈ kvs) (hi : WF i = true) :
    Vd T P (runKeyword env impl (d.cfg none) rec i (.obj kvs) (k!"dependencies", v))
      (clause env d sub kvs i (k!"dependencies", v)) := by
  have hsh := C.shape _ hmem
  cases i with
  | obj ms =>
    cases d
    case d3 =>
      cases v with
      | obj ds =>
        refine ex_runKeyword' (f := .dependencies_draft3) rfl
          (ex_kwDependenciesDraft3 _ rfl ds ms (fun dp hdp => ?_))
        have h1 := List.all_eq_true.mp hsh dp hdp
        obtain ⟨dk, dv⟩ := dp
        cases dv with
        | arr names => exact Or.inl ⟨names, rfl, List.all_eq_true.mp h1⟩
        | str r => exact Or.inr (Or.inl ⟨r, rfl⟩)
        | obj o => exact Or.inr (Or.inr ⟨rfl, C.sub_val hmem hdp h1 _ hi⟩)
        | _ => cases (h1 : false = true)
      | _ => cases (hsh : false = true)
    case d4 =>
      cases v with
      | obj ds =>
        refine ex_runKeyword' (f := .dependencies) rfl (ex_kwDependencies _ ds ms (fun dp hdp => ?_))
        have h1 := List.all_eq_true.mp hsh dp hdp
        obtain ⟨dk, dv⟩ := dp
        cases dv with
        | arr names => exact Or.inl ⟨names, rfl, List.all_eq_true.mp h1⟩
        | obj o => exact Or.inr ⟨rfl, rfl, C.sub_val hmem hdp h1 _ hi⟩
        | _ => cases (h1 : false = true)
      | _ => cases (hsh : false = true)
    case d6 =>
      cases v with
      | obj ds =>
        refine ex_runKeyword' (f := .dependencies) rfl (ex_kwDependencies _ ds ms (fun dp hdp => ?_))
        have h1 := List.all_eq_true.mp hsh dp hdp
        obtain ⟨dk, dv⟩ := dp
        cases dv with
        | arr names => exact Or.inl ⟨names, rfl, List.all_eq_true.mp h1⟩
        | obj o => exact Or.inr ⟨rfl, rfl, C.sub_val hmem hdp h1 _ hi⟩
        | bool b => exact Or.inr ⟨rfl, rfl, C.hbool _ _ hmem (Or.inl rfl) b _⟩
        | _ => cases (h1 : false = true)
      | _ => cases (hsh : false = true)
    case d7 =>
      cases v with
      | obj ds =>
        refine ex_runKeyword' (f := .dependencies) rfl (ex_kwDependencies _ ds ms (fun dp hdp => ?_))
        have h1 := List.all_eq_true.mp hsh dp hdp
        obtain ⟨dk, dv⟩ := dp
        cases dv with
        | arr names => exact Or.inl ⟨names, rfl, List.all_eq_true.mp h1⟩
        | obj o => exact Or.inr ⟨rfl, rfl, C.sub_val hmem hdp h1 _ hi⟩
        | bool b => exact Or.inr ⟨rfl, rfl, C.hbool _ _ hmem (Or.inr rfl) b _⟩
        | _ => cases (h1 : false = true)
      | _ => cases (hsh : false = true)
  | _ =>
    cases d
    case d3 => exact ex_runKeyword (f := .dependencies_draft3) rfl ex_nothing (applyKw_dependencies3_non (by rfl))
    all_goals exact ex_runKeyword (f := .dependencies) rfl ex_nothing (applyKw_dependencies_non (by rfl))

theorem key_ref (C : Ctx T P d rec sub shp kvs) (v : Json) (hmem : (k!"$ref", v) ∈ kvs) : False := by
  have := C.noref
  unfold lookupJ at this
  rw [ks_ref] at this
  exact lookup_none_iff.mp this v hmem

end Keys

/-! ### the dispatcher: every member of a schema object -/

set_option linter.unusedSimpArgs false in
/-- a key that no draft and no clause of the specification knows: nothing on both sides -/
theorem key_default (env : Env) (d : Draft) (sub : Json → Json → Bool) (kvs : List (Str × Json))
    (i : Json) (k : Str) (v : Json)
    (h0 : k ≠ k!"type")
    (h1 : k ≠ k!"disallow")
    (h2 : k ≠ k!"extends")
    (h3 : k ≠ k!"enum")
    (h4 : k ≠ k!"const")
    (h5 : k ≠ k!"allOf")
    (h6 : k ≠ k!"anyOf")
    (h7 : k ≠ k!"oneOf")
    (h8 : k ≠ k!"not")
    (h9 : k ≠ k!"if")
    (h10 : k ≠ k!"then")
    (h11 : k ≠ k!"else")
    (h12 : k ≠ k!"format")
    (h13 : k ≠ k!"minimum")
    (h14 : k ≠ k!"maximum")
    (h15 : k ≠ k!"exclusiveMinimum")
    (h16 : k ≠ k!"exclusiveMaximum")
    (h17 : k ≠ k!"multipleOf")
    (h18 : k ≠ k!"divisibleBy")
    (h19 : k ≠ k!"minLength")
    (h20 : k ≠ k!"maxLength")
    (h21 : k ≠ k!"minItems")
    (h22 : k ≠ k!"maxItems")
    (h23 : k ≠ k!"minProperties")
    (h24 : k ≠ k!"maxProperties")
    (h25 : k ≠ k!"pattern")
    (h26 : k ≠ k!"uniqueItems")
    (h27 : k ≠ k!"items")
    (h28 : k ≠ k!"additionalItems")
    (h29 : k ≠ k!"contains")
    (h30 : k ≠ k!"propertyNames")
    (h31 : k ≠ k!"properties")
    (h32 : k ≠ k!"patternProperties")
    (h33 : k ≠ k!"additionalProperties")
    (h34 : k ≠ k!"required")
    (h35 : k ≠ k!"dependencies")
    (h36 : k ≠ k!"$ref")
    : lookupS k (kwTable d) = none ∧ clause env d sub kvs i (k, v) = true := by
  have g0 := Ne.symm h0
  have g1 := Ne.symm h1
  have g2 := Ne.symm h2
  have g3 := Ne.symm h3
  have g4 := Ne.symm h4
  have g5 := Ne.symm h5
  have g6 := Ne.symm h6
  have g7 := Ne.symm h7
  have g8 := Ne.symm h8
  have g9 := Ne.symm h9
  have g10 := Ne.symm h10
  have g11 := Ne.symm h11
  have g12 := Ne.symm h12
  have g13 := Ne.symm h13
  have g14 := Ne.symm h14
  have g15 := Ne.symm h15
  have g16 := Ne.symm h16
  have g17 := Ne.symm h17
  have g18 := Ne.symm h18
  have g19 := Ne.symm h19
  have g20 := Ne.symm h20
  have g21 := Ne.symm h21
  have g22 := Ne.symm h22
  have g23 := Ne.symm h23
  have g24 := Ne.symm h24
  have g25 := Ne.symm h25
  have g26 := Ne.symm h26
  have g27 := Ne.symm h27
  have g28 := Ne.symm h28
  have g29 := Ne.symm h29
  have g30 := Ne.symm h30
  have g31 := Ne.symm h31
  have g32 := Ne.symm h32
  have g33 := Ne.symm h33
  have g34 := Ne.symm h34
  have g35 := Ne.symm h35
  have g36 := Ne.symm h36
  constructor
  · cases d <;> simp only [kwTable, lookupS, g0, g1, g2, g3, g4, g5, g6, g7, g8, g9, g10, g11, g12, g13, g14, g15, g16, g17, g18, g19, g20, g21, g22, g23, g24, g25, g26, g27, g28, g29, g30, g31, g32, g33, g34, g35, g36, if_false]
  · unfold clause
    simp only [h0, h1, h2, h3, h4, h5, h6, h7, h8, h9, h10, h11, h12, h13, h14, h15, h16, h17, h18, h19, h20, h21, h22, h23, h24, h25, h26, h27, h28, h29, h30, h31, h32, h33, h34, h35, h36, false_and, if_false]
    cases i <;> simp only [clTyped, clNum, clStr, clArr, clObj, h0, h1, h2, h3, h4, h5, h6, h7, h8, h9, h10, h11, h12, h13, h14, h15, h16, h17, h18, h19, h20, h21, h22, h23, h24, h25, h26, h27, h28, h29, h30, h31, h32, h33, h34, h35, h36, false_and, or_self, if_false]

theorem runKeyword_ex {env : Env} {impl : FmtImpl} {d : Draft} {rec : Rec} {sub : Json → Json → Bool}
    {shp : Json → Bool} {kvs : List (Str × Json)} (hre : RegexTotal env) (hset : SetOrderOk env)
    (C : Ctx T P d rec sub shp kvs) (k : Str) (v i : Json) (hmem : (k, v) ∈ kvs) (hi : WF i = true) :
    Vd T P (runKeyword env impl (d.cfg none) rec i (.obj kvs) (k, v)) (clause env d sub kvs i (k, v)) := by
  by_cases h0 : k = k!"type"
  · subst h0; exact key_type C v i hmem hi
  by_cases h1 : k = k!"disallow"
  · subst h1; exact key_disallow C v i hmem hi
  by_cases h2 : k = k!"extends"
  · subst h2; exact key_extends C v i hmem hi
  by_cases h3 : k = k!"enum"
  · subst h3; exact key_enum C v i hmem hi
  by_cases h4 : k = k!"const"
  · subst h4; exact key_const C v i hmem hi
  by_cases h5 : k = k!"allOf"
  · subst h5; exact key_allOf C v i hmem hi
  by_cases h6 : k = k!"anyOf"
  · subst h6; exact key_anyOf C v i hmem hi
  by_cases h7 : k = k!"oneOf"
  · subst h7; exact key_oneOf C v i hmem hi
  by_cases h8 : k = k!"not"
  · subst h8; exact key_not C v i hmem hi
  by_cases h9 : k = k!"if"
  · subst h9; exact key_if C v i hmem hi
  by_cases h10 : k = k!"then"
  · subst h10; exact key_then v i
  by_cases h11 : k = k!"else"
  · subst h11; exact key_else v i
  by_cases h12 : k = k!"format"
  · subst h12; exact key_format v i
  by_cases h13 : k = k!"minimum"
  · subst h13; exact key_minimum C v i hmem
  by_cases h14 : k = k!"maximum"
  · subst h14; exact key_maximum C v i hmem
  by_cases h15 : k = k!"exclusiveMinimum"
  · subst h15; exact key_exclusiveMinimum C v i hmem
  by_cases h16 : k = k!"exclusiveMaximum"
  · subst h16; exact key_exclusiveMaximum C v i hmem
  by_cases h17 : k = k!"multipleOf"
  · subst h17; exact key_multipleOf C v i hmem
  by_cases h18 : k = k!"divisibleBy"
  · subst h18; exact key_divisibleBy C v i hmem
  by_cases h19 : k = k!"minLength"
  · subst h19; exact key_minLength C v i hmem
  by_cases h20 : k = k!"maxLength"
  · subst h20; exact key_maxLength C v i hmem
  by_cases h21 : k = k!"minItems"
  · subst h21; exact key_minItems C v i hmem
  by_cases h22 : k = k!"maxItems"
  · subst h22; exact key_maxItems C v i hmem
  by_cases h23 : k = k!"minProperties"
  · subst h23; exact key_minProperties C v i hmem
  by_cases h24 : k = k!"maxProperties"
  · subst h24; exact key_maxProperties C v i hmem
  by_cases h25 : k = k!"pattern"
  · subst h25; exact key_pattern hre C v i hmem
  by_cases h26 : k = k!"uniqueItems"
  · subst h26; exact key_uniqueItems C v i hmem hi
  by_cases h27 : k = k!"items"
  · subst h27; exact key_items C v i hmem hi
  by_cases h28 : k = k!"additionalItems"
  · subst h28; exact key_additionalItems C v i hmem hi
  by_cases h29 : k = k!"contains"
  · subst h29; exact key_contains C v i hmem hi
  by_cases h30 : k = k!"propertyNames"
  · subst h30; exact key_propertyNames C v i hmem
  by_cases h31 : k = k!"properties"
  · subst h31; exact key_properties C v i hmem hi
  by_cases h32 : k = k!"patternProperties"
  · subst h32; exact key_patternProperties hre C v i hmem hi
  by_cases h33 : k = k!"additionalProperties"
  · subst h33; exact key_additionalProperties hre hset C v i hmem hi
  by_cases h34 : k = k!"required"
  · subst h34; exact key_required C v i hmem
  by_cases h35 : k = k!"dependencies"
  · subst h35; exact key_dependencies C v i hmem hi
  by_cases h36 : k = k!"$ref"
  · subst h36; exact (key_ref C v hmem).elim
  obtain ⟨h1, h2⟩ := key_default env d sub kvs i k v h0 h1 h2 h3 h4 h5 h6 h7 h8 h9 h10 h11 h12 h13 h14 h15 h16 h17 h18 h19 h20 h21 h22 h23 h24 h25 h26 h27 h28 h29 h30 h31 h32 h33 h34 h35 h36
  rw [h2]
  exact ex_runKeyword_none h1

/-! ### one layer of the evaluator -/

theorem idKey_eq (d : Draft) :
    (d.cfg none).idKey = ks (if (d = .d6 || d = .d7) then "$id" else "id") := by
  cases d <;> rfl

theorem scopeOf_ok (d : Draft) (kvs : List (Str × Json))
    (h : (match lookupJ (if (d = .d6 || d = .d7) then "$id" else "id") kvs with
          | some v => isStrJ v | none => true) = true) :
    ∃ sc, scopeOf (d.cfg none) kvs = .ok sc := by
  unfold scopeOf
  split
  · exact ⟨_, rfl⟩
  rw [idKey_eq]
  unfold lookupJ at h
  cases hl : Json.lookup (ks (if (d = .d6 || d = .d7) = true then "$id" else "id")) kvs with
  | none => exact ⟨_, rfl⟩
  | some v =>
    rw [hl] at h
    cases v <;> first | exact ⟨_, rfl⟩ | cases h

theorem evalStep_obj_ex {env : Env} {impl : FmtImpl} {d : Draft} {rec : Rec}
    {sub : Json → Json → Bool} {shp : Json → Bool} {kvs : List (Str × Json)}
    (hre : RegexTotal env) (hurl : UrlTotal env) (hset : SetOrderOk env)
    (C : Ctx T (fun _ => True) d rec sub shp kvs)
    (hid : (match lookupJ (if (d = .d6 || d = .d7) then "$id" else "id") kvs with
          | some v => isStrJ v | none => true) = true)
    (i : Json) (hi : WF i = true) :
    Vd T (fun _ => True) (evalStep env impl (d.cfg none) rec i (.obj kvs))
      (kvs.all (clause env d sub kvs i)) := by
  obtain ⟨sc, hsc⟩ := scopeOf_ok d kvs hid
  unfold evalStep
  dsimp only
  rw [hsc]
  dsimp only
  refine ex_withScopeOpt env hurl sc ?_
  unfold schemaBody
  have hnr : Json.lookup (skey "$ref") kvs = none := C.noref
  rw [hnr]
  dsimp only
  exact ex_seqG _ _ _ (fun kv hkv => runKeyword_ex hre hset C kv.1 kv.2 i hkv hi)

theorem size_pos (s : Json) : 0 < s.size := by
  cases s <;> simp [Json.size]

/-- the shape of a schema object, unfolded -/
theorem shaped_obj {d : Draft} {m : Nat} {kvs : List (Str × Json)}
    (h : shapedN false d m (.obj kvs) = true) :
    ∃ m', m = m' + 1
      ∧ (match lookupJ (if (d = .d6 || d = .d7) then "$id" else "id") kvs with
          | some v => isStrJ v | none => true) = true
      ∧ lookupJ "$ref" kvs = none
      ∧ ∀ kv ∈ kvs, shapeClause d (shapedN false d m') kv = true := by
  cases m with
  | zero => cases h
  | succ m' =>
    rw [shapedN_succ_obj, Bool.and_eq_true] at h
    refine ⟨m', rfl, h.1, ?_⟩
    have h2 := h.2
    cases hl : lookupJ "$ref" kvs with
    | some r => rw [hl] at h2; cases h2
    | none =>
      rw [hl] at h2
      exact ⟨rfl, List.all_eq_true.mp h2⟩

theorem size_synth (t : Json) : (Json.obj [(skey "type", .arr [t])]).size = t.size + 3 := by
  simp [Json.size, Json.size.sizeKvs, Json.size.sizeList]
  omega

theorem ensureList_mem {dv : Json} {ts : List Json} (h : ensureList dv = some ts) {t : Json}
    (ht : t ∈ ts) : (t = dv ∧ ∃ n, dv = .str n) ∨ dv = .arr ts := by
  cases dv <;> simp [ensureList] at h
  · subst h
    rw [List.mem_singleton] at ht
    exact Or.inl ⟨ht, _, rfl⟩
  · subst h; exact Or.inr rfl

/-- **the exhaustive run agrees with the specification**, for every depth bound above the
    schema's size and every fuel at least the schema's size -/
theorem eval_vd (env : Env) (hre : RegexTotal env) (hurl : UrlTotal env) (hset : SetOrderOk env)
    (impl : FmtImpl) (d : Draft) :
    ∀ (N : Nat) (s : Json), s.size ≤ N → ∀ m, shapedN false d m s = true → Rest d s →
      ∀ n fuel, s.size < n → s.size ≤ fuel → ∀ i, WF i = true →
        Vd True (fun _ => True) (eval env impl (d.cfg none) fuel i s) (validN env d n s i) := by
  intro N
  induction N with
  | zero => intro s hs; have := size_pos s; omega
  | succ N ih =>
    intro s hs m hshape hrest n fuel hn hfuel i hi
    obtain ⟨n', rfl⟩ := Nat.exists_eq_succ_of_ne_zero (by omega : n ≠ 0)
    obtain ⟨f, rfl⟩ := Nat.exists_eq_succ_of_ne_zero (by have := size_pos s; omega : fuel ≠ 0)
    cases s with
    | bool b =>
      cases b
      · exact ex_emit_one _
      · exact ex_nothing
    | obj kvs =>
      obtain ⟨m', rfl, hid, hnoref, hsh⟩ := shaped_obj hshape
      rw [validN_succ_obj]
      show Vd True (fun _ => True)
        (evalStep env impl (d.cfg none) (eval env impl (d.cfg none) f) i (.obj kvs)) _
      -- the recursive call on a shaped schema smaller than this one
      have hsub : ∀ s', shapedN false d m' s' = true → Rest d s' → s'.size < (Json.obj kvs).size →
          ∀ i', WF i' = true →
            Vd True (fun _ => True) (eval env impl (d.cfg none) f i' s') (validN env d n' s' i') :=
        fun s' hs' hr' hlt i' hi' =>
          ih s' (by omega) m' hs' hr' n' f (by omega) (by omega) i' hi'
      refine evalStep_obj_ex (shp := shapedN false d m') hre hurl hset ?_ hid i hi
      refine
        { hv := fun k v hmem hs' i' hi' =>
            hsub v hs' (hrest.obj_mem hmem) (by have := size_lt_of_mem_obj hmem; omega) i' hi'
          helem := fun k ss hmem s' hs' hshp i' hi' =>
            hsub s' hshp ((hrest.obj_mem hmem).arr_mem hs')
              (by have := size_lt_of_mem_obj hmem; have := size_lt_of_mem_arr hs'; omega) i' hi'
          hval := fun k ps hmem p hp hshp i' hi' =>
            hsub p.2 hshp ((hrest.obj_mem hmem).obj_mem (k := p.1) hp)
              (by have := size_lt_of_mem_obj hmem
                  have := size_lt_of_mem_obj (k := p.1) (v := p.2) hp; omega) i' hi'
          hsyn := ?_
          hbool := ?_
          shape := hsh
          req3 := ?_
          rest := hrest.local
          noref := hnoref }
      · -- the schemas synthesised by `disallow`
        intro hd dv hmem ts hts t ht i' hi'
        subst hd
        have hszdv := size_lt_of_mem_obj hmem
        have hshdv := hsh _ hmem
        have htk := hrest.tk_member hmem
        rw [tkMember_disallow] at htk
        -- one more layer of fuel
        have hf : f ≠ 0 := by have := size_pos dv; omega
        obtain ⟨f', rfl⟩ := Nat.exists_eq_succ_of_ne_zero hf
        show Vd True (fun _ => True)
          (evalStep env impl (Draft.d3.cfg none) (eval env impl (Draft.d3.cfg none) f') i' _) _
        -- what `t` is
        have ht' : (∃ nm, t = .str nm ∧ (typeNames .d3).contains nm = true)
            ∨ (t.isObj = true ∧ shapedN false .d3 m' t = true ∧ Rest .d3 t
                ∧ t.size + 3 ≤ (Json.obj kvs).size) := by
          rcases ensureList_mem hts ht with ⟨rfl, nm, hnm⟩ | rfl
          · subst hnm; exact Or.inl ⟨nm, rfl, htk⟩
          · have h1 := List.all_eq_true.mp hshdv t ht
            have h2 := List.all_eq_true.mp htk t ht
            have hsz := size_lt_of_mem_arr ht
            cases t with
            | str nm => exact Or.inl ⟨nm, rfl, h2⟩
            | obj o =>
              exact Or.inr ⟨rfl, h1, (hrest.obj_mem hmem).arr_mem ht, by omega⟩
            | _ => cases h1
        have hval : tyval .d3 (validN env .d3 n') i' t
            = [(skey "type", Json.arr [t])].all
                (clause env .d3 (validN env .d3 n') [(skey "type", Json.arr [t])] i') := by
          rw [List.all_cons, List.all_nil, Bool.and_true, show skey "type" = k!"type" from ks_type]
          exact (Bool.or_false _).symm
        rw [hval]
        refine evalStep_obj_ex (shp := shapedN false .d3 m') hre hurl hset ?_ rfl i' hi'
        have hmem1 : ∀ {k : Str} {v : Json}, (k, v) ∈ [(skey "type", Json.arr [t])] →
            k = k!"type" ∧ v = .arr [t] := by
          intro k v h
          rw [List.mem_singleton] at h
          cases h
          exact ⟨ks_type, rfl⟩
        refine
          { hv := fun k v hm hs' => ?_
            helem := fun k ss hm s' hs' hshp i'' hi'' => ?_
            hval := fun k ps hm => ?_
            hsyn := fun _ dv' hm => ?_
            hbool := fun _ _ _ h => by rcases h with h | h <;> cases h
            shape := fun kv hkv => ?_
            req3 := ?_
            rest := Rest.local ?_
            noref := rfl }
        · obtain ⟨_, rfl⟩ := hmem1 hm; cases m' <;> cases hs'
        · obtain ⟨_, h2⟩ := hmem1 hm
          cases h2
          rw [List.mem_singleton] at hs'
          subst hs'
          rcases ht' with ⟨nm, rfl, _⟩ | ⟨_, h1, h2, h3⟩
          · cases m' <;> cases hshp
          · exact ih s' (by omega) m' h1 h2 n' f' (by omega) (by omega) i'' hi''
        · obtain ⟨_, h2⟩ := hmem1 hm; cases h2
        · obtain ⟨h1, _⟩ := hmem1 hm; exact absurd h1 (by decide)
        · obtain ⟨k, v⟩ := kv
          obtain ⟨rfl, rfl⟩ := hmem1 hkv
          show ([t].all (fun t => match t with
            | .str _ => true | .obj _ => shapedN false .d3 m' t | _ => false)) = true
          rw [List.all_cons, List.all_nil, Bool.and_true]
          rcases ht' with ⟨nm, rfl, _⟩ | ⟨h0, h1, _, _⟩
          · rfl
          · cases t <;> first | exact h1 | cases h0
        · -- `required` inside well-shaped property schemas
          intro _ pk hpk r hr
          obtain ⟨m'', rfl, _, _, hall⟩ := shaped_obj hpk
          have := hall _ (lookup_mem hr)
          rw [ks_required] at this
          exact this
        · -- the hereditary part for the synthesised schema
          have hrt : Rest .d3 t := by
            rcases ht' with ⟨nm, rfl, _⟩ | ⟨_, _, h2, _⟩
            · exact Rest.leaf _ _ rfl rfl
            · exact h2
          refine ⟨?_, ?_, ?_⟩
          · simp [WF, keysDistinct, WFKvs, WFList, hrt.wf]
          · simp [numSafe, numSafe.numSafeKvs, numSafe.numSafeList, hrt.ns]
            rw [show skey "type" = k!"type" from ks_type, ks_multipleOf, ks_divisibleBy]
            decide
          · simp only [typesKnown, typesKnown.typesKnownKvs, typesKnown.typesKnownList, hrt.tk,
              Bool.and_true]
            rw [if_pos (show skey "type" = ks "type" ∨ skey "type" = ks "disallow" from Or.inl rfl)]
            rcases ht' with ⟨nm, rfl, h⟩ | ⟨h0, _, _, _⟩
            · simpa using h
            · cases t <;> first | rfl | cases h0
      · -- boolean schemas (drafts 6, 7)
        intro k v hmem hd b i'
        have hf : f ≠ 0 := by
          have := size_lt_of_mem_obj hmem; have := size_pos v; omega
        have hn' : n' ≠ 0 := by
          have := size_lt_of_mem_obj hmem; have := size_pos v; omega
        obtain ⟨f', rfl⟩ := Nat.exists_eq_succ_of_ne_zero hf
        obtain ⟨n'', rfl⟩ := Nat.exists_eq_succ_of_ne_zero hn'
        cases b
        · exact ex_emit_one _
        · exact ex_nothing
      · -- `required` inside well-shaped property schemas
        intro _ pk hpk r hr
        obtain ⟨m'', rfl, _, _, hall⟩ := shaped_obj hpk
        have := hall _ (lookup_mem hr)
        rw [ks_required] at this
        subst_vars
        exact this
    | null => cases m <;> cases hshape
    | num _ => cases m <;> cases hshape
    | str _ => cases m <;> cases hshape
    | arr _ => cases m <;> cases hshape

/-! ### the entry points -/

theorem verdict_of_ex {g : Gen} {v : Bool} (L : PrefixLaw g) (h : Ex g v) (st : RState) :
    (((g (some 1) st).errs = [] ∧ (g (some 1) st).stop = .done) ↔ v = true)
    ∧ ((g (some 1) st).stop = .done ∨ (g (some 1) st).stop = .budget) := by
  obtain ⟨hd, he⟩ := h st
  cases hes : (g none st).errs with
  | nil =>
    have h1 := L.short st 1 (by rw [hes]; exact Nat.zero_lt_one)
    rw [hes] at he
    rw [h1, hd, hes, ← he]
    exact ⟨⟨fun _ => rfl, fun _ => ⟨rfl, rfl⟩⟩, Or.inl rfl⟩
  | cons e es =>
    obtain ⟨h1, h2⟩ := L.long st 1 Nat.zero_lt_one (by rw [hes]; simp)
    rw [hes] at he h1
    rw [h1, h2, ← he]
    simp

theorem errs_of_ex {g : Gen} {v : Bool} (h : Ex g v) (st : RState) :
    ((g none st).errs = [] ↔ v = true) ∧ (g none st).stop = .done := by
  obtain ⟨hd, he⟩ := h st
  refine ⟨?_, hd⟩
  rw [← he, List.isEmpty_iff]

theorem isValid_of_ex {g : Gen} {v : Bool} (L : PrefixLaw g) (h : Ex g v) (st : RState) :
    (isValid g st).1 = .ok v := by
  obtain ⟨hd, he⟩ := h st
  rw [L.isValid_spec st, hd, ← he]
  cases (g none st).errs <;> rfl

/-- **the exhaustive run and the run closed at the first error agree with the specification**, for
    every depth bound above the schema's size and every fuel at least the schema's size -/
theorem eval_ok (env : Env) (hre : RegexTotal env) (hurl : UrlTotal env) (hset : SetOrderOk env)
    (impl : FmtImpl) (d : Draft) :
    ∀ (N : Nat) (s : Json), s.size ≤ N → ∀ m, shapedN false d m s = true → Rest d s →
      ∀ n fuel, s.size < n → s.size ≤ fuel → ∀ i, WF i = true →
        Ok (eval env impl (d.cfg none) fuel i s) (validN env d n s i) :=
  fun N s hs m hm hr n fuel hn hf i hi =>
    (eval_vd env hre hurl hset impl d N s hs m hm hr n fuel hn hf i hi).ok

/-- the model agrees with `Spec.valid` on the domain of C01 -/
theorem eval_valid (env : Env) (hre : RegexTotal env) (hurl : UrlTotal env) (hset : SetOrderOk env)
    (impl : FmtImpl) (d : Draft) (s i : Json)
    (hs : shaped d s = true) (hws : WF s = true) (hwi : WF i = true)
    (hnum : numSafe s = true) (hty : typesKnown d s = true)
    (fuel : Nat) (hfuel : s.size ≤ fuel) :
    Ex (eval env impl (d.cfg none) fuel i s) (valid env d s i) :=
  (eval_ok env hre hurl hset impl d s.size s (Nat.le_refl _) (s.size + 1) hs ⟨hws, hnum, hty⟩
    (s.size + 1) fuel (Nat.lt_succ_self _) hfuel i hwi).1

end JS
