/- Helper lemmas for the reference-aware verdict theorem (C02 `ref_verdict_agrees`): the model agrees
   with `Spec.validRN` on every `Spec.RefDomain`.

   The verdict notion is `Vd False (PK env base sc)` (JS.Proofs.Valid): relative to the resolver
   states that are faithful to the world `base` (`Knowledge.Know`) and whose scope stack is `sc`;
   nothing is claimed about runs that stop for lack of fuel or with an exception of the resolver.
   The per-keyword lemmas of JS.Proofs.Valid are stated for this notion too, so what is new here is
   the `$ref` keyword (`vd_kwRef`, via `Knowledge.resolve_know`), the scope pushed by an identifier,
   and the induction on the fuel (`evalR_vd`). -/
import JS.Proofs.Valid
import JS.Proofs.Knowledge
import JS.Proofs.Scope
import JS.Spec.ValidRef
namespace JS
open Spec Knowledge

/-! ### the state predicate -/

/-- faithful to the world `base`, scope stack `sc` -/
def PK (env : Env) (base : List (Str × Json)) (sc : List Str) : RState → Prop :=
  fun st => Know env base st ∧ st.scopes = sc

theorem PK.top {env : Env} {base : List (Str × Json)} {sc : List Str} {st : RState}
    (h : PK env base sc st) : st.top = sc.headD [] := by
  unfold RState.top
  rw [h.2]

theorem PK.push {env : Env} {base : List (Str × Json)} {sc : List Str} {st : RState}
    (h : PK env base sc st) (u : Str) : PK env base (u :: sc) { st with scopes := u :: st.scopes } :=
  ⟨h.1.setScopes _, by dsimp only; rw [h.2]⟩

theorem PK.pop {env : Env} {base : List (Str × Json)} {sc : List Str} {u : Str} {st : RState}
    (h : PK env base (u :: sc) st) : PK env base sc { st with scopes := st.scopes.tail } :=
  ⟨h.1.setScopes _, by dsimp only; rw [h.2]; rfl⟩

/-! ### generic facts about `Vd` -/

section
variable {T : Prop} {P : RState → Prop}

/-- a generator that never ends normally and is never closed has every verdict (when termination
    is not claimed) -/
theorem vd_stopG (s : Stop) (h1 : s ≠ .done) (h2 : s ≠ .budget) (v : Bool) :
    Vd False P (stopG s) v :=
  ⟨fun t => t.elim, fun _ _ _ _ h => absurd h h1, fun _ _ _ _ h => absurd h h2⟩

/-- at every state of `P`, `g` behaves (for every budget) like `g'` started in some state of `P` -/
theorem vd_of_pointwise {g g' : Gen} {v : Bool} (h' : Vd T P g' v)
    (hpt : ∀ st, P st → ∃ st1, P st1 ∧ ∀ b, g b st = g' b st1) : Vd T P g v := by
  refine ⟨fun t b st hb hp => ?_, fun b st hb hp hd => ?_, fun b st hb hp hd => ?_⟩
  · obtain ⟨st1, hp1, he⟩ := hpt st hp
    rw [he b]
    exact h'.term t b st1 hb hp1
  · obtain ⟨st1, hp1, he⟩ := hpt st hp
    rw [he b] at hd ⊢
    exact h'.done b st1 hb hp1 hd
  · obtain ⟨st1, hp1, he⟩ := hpt st hp
    rw [he b] at hd ⊢
    exact h'.budget b st1 hb hp1 hd

end

/-! ### the designated schema is what a faithful resolver finds -/

theorem ideal_of_designated {env : Env} {base : List (Str × Json)} {top r url : Str} {t : Json}
    (h : designated env base top r = some (url, t)) : ideal env base top r = .ok (url, t) := by
  unfold designated at h
  unfold ideal
  cases hj : env.urljoin top r with
  | none => rw [hj] at h; cases h
  | some url' =>
    rw [hj] at h
    dsimp only at h ⊢
    unfold idealFrom
    cases hd : env.urldefrag url' with
    | none => rw [hd] at h; cases h
    | some p =>
      obtain ⟨u, frag⟩ := p
      rw [hd] at h
      dsimp only at h ⊢
      cases hn : env.urinorm u with
      | none => rw [hn] at h; cases h
      | some k =>
        rw [hn] at h
        dsimp only at h ⊢
        unfold trueDoc
        cases hb : Json.lookup k base with
        | some doc =>
          rw [hb] at h
          dsimp only at h ⊢
          simp only [fromDoc, fragRes]
          cases hr : resolveFragment doc frag with
          | none => rw [hr] at h; cases h
          | some t' =>
            rw [hr] at h
            cases h
            rfl
        | none =>
          rw [hb] at h
          dsimp only at h ⊢
          cases hfe : env.fetch 0 u with
          | none => rw [hfe] at h; cases h
          | some o =>
            rw [hfe] at h
            cases o with
            | none => cases h
            | some doc =>
              dsimp only at h ⊢
              simp only [fromDoc, fragRes]
              cases hr : resolveFragment doc frag with
              | none => rw [hr] at h; cases h
              | some t' =>
                rw [hr] at h
                cases h
                rfl

theorem designated_of_ideal {env : Env} {base : List (Str × Json)} {top r url : Str} {t : Json}
    (h : ideal env base top r = .ok (url, t)) : designated env base top r = some (url, t) := by
  unfold ideal at h
  unfold designated
  cases hj : env.urljoin top r with
  | none => rw [hj] at h; cases h
  | some url' =>
    rw [hj] at h
    dsimp only at h ⊢
    unfold idealFrom at h
    cases hd : env.urldefrag url' with
    | none => rw [hd] at h; cases h
    | some p =>
      obtain ⟨u, frag⟩ := p
      rw [hd] at h
      dsimp only at h ⊢
      cases hn : env.urinorm u with
      | none => rw [hn] at h; cases h
      | some k =>
        rw [hn] at h
        dsimp only at h ⊢
        unfold trueDoc at h
        cases hb : Json.lookup k base with
        | some doc =>
          rw [hb] at h
          dsimp only at h ⊢
          simp only [fromDoc, fragRes] at h
          cases hr : resolveFragment doc frag with
          | none => rw [hr] at h; cases h
          | some t' =>
            rw [hr] at h
            cases h
            rfl
        | none =>
          rw [hb] at h
          dsimp only at h ⊢
          cases hfe : env.fetch 0 u with
          | none => rw [hfe] at h; cases h
          | some o =>
            rw [hfe] at h
            cases o with
            | none => cases h
            | some doc =>
              dsimp only at h ⊢
              simp only [fromDoc, fragRes] at h
              cases hr : resolveFragment doc frag with
              | none => rw [hr] at h; cases h
              | some t' =>
                rw [hr] at h
                cases h
                rfl

/-- **the bridge**: `Spec.designated` is the state-independent `resolve` of JS.Proofs.Knowledge -/
theorem designated_iff_ideal {env : Env} {base : List (Str × Json)} {top r url : Str} {t : Json} :
    designated env base top r = some (url, t) ↔ ideal env base top r = .ok (url, t) :=
  ⟨ideal_of_designated, designated_of_ideal⟩

/-- a faithful resolver finds the designated schema, and stays faithful with the same scope stack -/
theorem resolve_PK {env : Env} {base : List (Str × Json)} (hf : StableFetchS env) {sc : List Str}
    {st : RState} (hp : PK env base sc st) {r url : Str} {t : Json}
    (hdes : designated env base (sc.headD []) r = some (url, t)) :
    (resolve env r st).1 = .ok (url, t) ∧ PK env base sc (resolve env r st).2 := by
  obtain ⟨h1, h2⟩ := resolve_know hf hp.1 r
  rw [hp.top, ideal_of_designated hdes] at h1
  refine ⟨?_, h2, by rw [resolve_scopes]; exact hp.2⟩
  rcases h1 with h1 | ⟨n, u, _, hi, _⟩
  · exact h1
  · cases hi

/-- **the `$ref` keyword**: the verdict of the designated schema, evaluated in its own scope -/
theorem vd_kwRef {env : Env} {base : List (Str × Json)} (hf : StableFetchS env) {sc : List Str}
    {rec : Rec} {r url : Str} {t i : Json} {v : Bool}
    (hdes : designated env base (sc.headD []) r = some (url, t))
    (hjoin : env.urljoin (sc.headD []) url = some url)
    (h : Vd False (PK env base (url :: sc)) (rec i t) v) :
    Vd False (PK env base sc) (kwRef env rec (.str r) i) v := by
  have hw : Vd False (PK env base sc) (withScope env url (rec i t)) v := by
    refine vd_withScope env url (fun st hp => ⟨url, ?_, hp.push url⟩) (fun st' hp' => hp'.pop) h
    rw [hp.top]
    exact hjoin
  refine vd_of_pointwise hw (fun st hp => ?_)
  obtain ⟨h1, h2⟩ := resolve_PK hf hp hdes
  refine ⟨(resolve env r st).2, h2, fun b => ?_⟩
  rw [kwRef_str]
  rcases hr : resolve env r st with ⟨res, st1⟩
  rw [hr] at h1
  dsimp only at h1
  subst h1
  rfl

/-! ### the equations of `Spec.validRN` -/

theorem validRN_succ_bool (env : Env) (d : Draft) (base : List (Str × Json)) (n : Nat) (top : Str)
    (b : Bool) (i : Json) : validRN env d base (n + 1) top (.bool b) i = b := rfl

theorem validRN_succ_noref (env : Env) (d : Draft) (base : List (Str × Json)) (n : Nat) (top : Str)
    (kvs : List (Str × Json)) (i : Json) (h : lookupJ "$ref" kvs = none) :
    validRN env d base (n + 1) top (.obj kvs) i
      = kvs.all (clause env d (validRN env d base n (baseInside env d top kvs)) kvs i) := by
  simp only [validRN, h]

theorem validRN_succ_ref (env : Env) (d : Draft) (base : List (Str × Json)) (n : Nat) (top : Str)
    (kvs : List (Str × Json)) (i : Json) {r url : Str} {t : Json}
    (h : lookupJ "$ref" kvs = some (.str r)) (hdes : designated env base top r = some (url, t)) :
    validRN env d base (n + 1) top (.obj kvs) i = validRN env d base n url t i := by
  simp only [validRN, h, hdes]

/-! ### one schema object without `$ref` -/

/-- the scope stack inside a schema object without `$ref` -/
def scInside (env : Env) (d : Draft) (sc : List Str) (kvs : List (Str × Json)) : List Str :=
  match idOf d kvs with
  | some id => (env.urljoin (sc.headD []) id).getD (sc.headD []) :: sc
  | none => sc

theorem scInside_head (env : Env) (d : Draft) (sc : List Str) (kvs : List (Str × Json)) :
    (scInside env d sc kvs).headD [] = baseInside env d (sc.headD []) kvs := by
  unfold scInside baseInside
  cases idOf d kvs <;> rfl

theorem scopeOf_idOf (d : Draft) (kvs : List (Str × Json))
    (hid : (match lookupJ (if (d = .d6 || d = .d7) then "$id" else "id") kvs with
          | some v => isStrJ v | none => true) = true)
    (hnr : lookupJ "$ref" kvs = none) :
    scopeOf (d.cfg none) kvs = .ok (idOf d kvs) := by
  have hk : Json.hasKey (skey "$ref") kvs = false := by
    unfold Json.hasKey
    have : Json.lookup (skey "$ref") kvs = none := hnr
    rw [this]
    rfl
  unfold scopeOf idOf
  rw [hk, idKey_eq]
  simp only [Bool.false_eq_true, if_false]
  unfold lookupJ at hid ⊢
  cases hl : Json.lookup (ks (if (d = .d6 || d = .d7) = true then "$id" else "id")) kvs with
  | none => rfl
  | some v =>
    rw [hl] at hid
    cases v <;> first | rfl | cases hid

section
variable {T : Prop} {P : RState → Prop}

/-- the keyword loop of a schema object without `$ref` -/
theorem schemaBody_vd {env : Env} {impl : FmtImpl} {d : Draft} {rec : Rec}
    {sub : Json → Json → Bool} {shp : Json → Bool} {kvs : List (Str × Json)}
    (hre : RegexTotal env) (hset : SetOrderOk env) (C : Ctx T P d rec sub shp kvs)
    (i : Json) (hi : WF i = true) :
    Vd T P (schemaBody env impl (d.cfg none) rec i kvs) (kvs.all (clause env d sub kvs i)) := by
  unfold schemaBody
  have hnr : Json.lookup (skey "$ref") kvs = none := C.noref
  rw [hnr]
  dsimp only
  exact ex_seqG _ _ _ (fun kv hkv => runKeyword_ex hre hset C kv.1 kv.2 i hkv hi)

end

/-- one layer of the evaluator on a schema object without `$ref`: the identifier, if any, is
    pushed for the keyword loop and popped afterwards -/
theorem evalStep_noref_vd {env : Env} {base : List (Str × Json)} {impl : FmtImpl} {d : Draft}
    {rec : Rec} {kvs : List (Str × Json)} {sc : List Str} {i : Json} {v : Bool}
    (hid : (match lookupJ (if (d = .d6 || d = .d7) then "$id" else "id") kvs with
          | some v => isStrJ v | none => true) = true)
    (hjoin : ∀ id, idOf d kvs = some id → (env.urljoin (sc.headD []) id).isSome = true)
    (hnr : lookupJ "$ref" kvs = none)
    (hbody : Vd False (PK env base (scInside env d sc kvs))
      (schemaBody env impl (d.cfg none) rec i kvs) v) :
    Vd False (PK env base sc) (evalStep env impl (d.cfg none) rec i (.obj kvs)) v := by
  unfold evalStep
  dsimp only
  rw [scopeOf_idOf d kvs hid hnr]
  dsimp only
  unfold scInside at hbody
  cases hidof : idOf d kvs with
  | none =>
    rw [hidof] at hbody
    exact hbody
  | some id =>
    rw [hidof] at hbody
    dsimp only at hbody
    have hj := hjoin id hidof
    cases hu : env.urljoin (sc.headD []) id with
    | none => rw [hu] at hj; cases hj
    | some u =>
      rw [hu] at hbody
      refine vd_withScope env id (fun st hp => ⟨u, ?_, hp.push u⟩) (fun st' hp' => hp'.pop) hbody
      rw [hp.top]
      exact hu

/-! ### the domain, side conditions read locally

`Spec.RefDomain.side` asks `numSafe`/`typesKnown` of every member, and these look at EVERY key
spelled `multipleOf`/`divisibleBy`/`type`/`disallow` at any depth — also where the spelling is that
of a property NAME (`"properties": {"multipleOf": {…}}`, as in every bundled metaschema, for which
`numSafe` therefore answers `false`). The evaluator reads, of one schema object, only that object's
OWN members; the subschemas are members of the domain themselves. `RefDomainL` asks just that. -/

theorem Spec.RefDomainL.of {env : Env} {d : Draft} {base : List (Str × Json)} {D : Str → Json → Bool}
    (h : RefDomain env d base D) : RefDomainL env d base D where
  kind := h.kind
  wf := fun top s hs => (h.side top s hs).1
  nsl := fun top _ hs _ _ hx =>
    (Rest.local ⟨(h.side top _ hs).1, (h.side top _ hs).2.1, (h.side top _ hs).2.2⟩).ns_member hx
  tkl := fun top _ hs _ _ hx =>
    (Rest.local ⟨(h.side top _ hs).1, (h.side top _ hs).2.1, (h.side top _ hs).2.2⟩).tk_member hx
  ident := h.ident
  shape := h.shape
  ref := h.ref
  req3 := h.req3

theorem Spec.RefDomainL.restL {env : Env} {d : Draft} {base : List (Str × Json)} {D : Str → Json → Bool}
    (h : RefDomainL env d base D) {top : Str} {kvs : List (Str × Json)} (hs : D top (.obj kvs) = true) :
    RestL d kvs :=
  ⟨h.wf top _ hs, fun hx => h.nsl top kvs hs _ _ hx, fun hx => h.tkl top kvs hs _ _ hx⟩

/-! ### the induction -/

/-- what the induction on the fuel provides: the evaluator with fuel `n` is right on every member
    of the domain, against the specification with any number `m ≥ n` of steps -/
def RecOK (env : Env) (impl : FmtImpl) (d : Draft) (base : List (Str × Json)) (D : Str → Json → Bool)
    (n : Nat) : Prop :=
  ∀ top s, D top s = true → ∀ m, n ≤ m → ∀ i, WF i = true → ∀ sc : List Str, sc.headD [] = top →
    Vd False (PK env base sc) (eval env impl (d.cfg none) n i s) (validRN env d base m top s i)

section
variable {env : Env} {impl : FmtImpl} {d : Draft} {base : List (Str × Json)} {D : Str → Json → Bool}

theorem recOK_zero : RecOK env impl d base D 0 :=
  fun _ _ _ _ _ _ _ _ _ => vd_stopG .fuel nofun nofun _

/-- boolean schemas -/
theorem bool_vd (n m : Nat) (hm : n ≤ m) (top : Str) (b : Bool) (i : Json) (sc : List Str) :
    Vd False (PK env base sc) (eval env impl (d.cfg none) n i (.bool b))
      (validRN env d base m top (.bool b) i) := by
  cases n with
  | zero => exact vd_stopG .fuel nofun nofun _
  | succ n =>
    obtain ⟨m', rfl⟩ := Nat.exists_eq_succ_of_ne_zero (by omega : m ≠ 0)
    rw [validRN_succ_bool]
    cases b
    · exact ex_emit_one _
    · exact ex_nothing

/-- the context of one schema object of the domain, the schemas draft 3 `disallow` synthesises
    being provided separately -/
theorem ctxR_core (hD : RefDomainL env d base D) (n : Nat) (ih : RecOK env impl d base D n)
    (top : Str) (sc : List Str) (hsc : sc.headD [] = top) (m : Nat) (hm : n ≤ m)
    (kvs : List (Str × Json)) (hshape : ∀ kv ∈ kvs, shapeClause d (D top) kv = true)
    (hrest : RestL d kvs) (hnr : lookupJ "$ref" kvs = none)
    (hsyn : d = .d3 → ∀ dv, (k!"disallow", dv) ∈ kvs → ∀ ts, ensureList dv = some ts → ∀ t ∈ ts,
      ∀ i', WF i' = true →
        Vd False (PK env base sc) (eval env impl (d.cfg none) n i' (.obj [(skey "type", .arr [t])]))
          (tyval d (validRN env d base m top) i' t)) :
    Ctx False (PK env base sc) d (eval env impl (d.cfg none) n) (validRN env d base m top) (D top) kvs where
  hv := fun _ v _ hs i' hi' => ih top v hs m hm i' hi' sc hsc
  helem := fun _ _ _ s _ hs i' hi' => ih top s hs m hm i' hi' sc hsc
  hval := fun _ _ _ p _ hs i' hi' => ih top p.2 hs m hm i' hi' sc hsc
  hsyn := hsyn
  hbool := fun _ _ _ _ b i' => bool_vd n m hm top b i' sc
  shape := hshape
  req3 := fun hd pk hpk r hr => hD.req3 hd top pk hpk r hr
  rest := hrest
  noref := hnr

end

section
variable {env : Env} {impl : FmtImpl} {d : Draft} {base : List (Str × Json)} {D : Str → Json → Bool}

/-- an entry of a draft 3 `type`/`disallow` value: a known type name or a schema of the domain -/
def Entry3 (d : Draft) (D : Str → Json → Bool) (top : Str) (t : Json) : Prop :=
  (∃ nm, t = .str nm ∧ (typeNames d).contains nm = true) ∨ (t.isObj = true ∧ D top t = true)

/-- the schema `{"type": [t]}` that draft 3 `disallow` synthesises costs the evaluator one more
    level; the specification (`tyval`) looks at `t` directly, with its own, larger, number of steps -/
theorem synth_vd (hre : RegexTotal env) (hset : SetOrderOk env) (hD : RefDomainL env d base D)
    (hd : d = .d3) (n : Nat) (ih : ∀ k, k < n → RecOK env impl d base D k)
    (top : Str) (sc : List Str) (hsc : sc.headD [] = top) (m : Nat) (hm : n ≤ m) (t : Json)
    (ht : Entry3 d D top t) (i' : Json) (hi' : WF i' = true) :
    Vd False (PK env base sc) (eval env impl (d.cfg none) n i' (.obj [(skey "type", .arr [t])]))
      (tyval d (validRN env d base m top) i' t) := by
  subst hd
  cases n with
  | zero => exact vd_stopG .fuel nofun nofun _
  | succ n2 =>
    show Vd False _ (evalStep env impl (Draft.d3.cfg none) (eval env impl (Draft.d3.cfg none) n2) i'
      (.obj [(skey "type", .arr [t])])) _
    rw [evalStep_obj_noId _ _ _ _ _ _ (.inl rfl)]
    have hval : tyval .d3 (validRN env .d3 base m top) i' t
        = [(skey "type", Json.arr [t])].all
            (clause env .d3 (validRN env .d3 base m top) [(skey "type", Json.arr [t])] i') := by
      rw [List.all_cons, List.all_nil, Bool.and_true, show skey "type" = k!"type" from ks_type]
      exact (Bool.or_false _).symm
    rw [hval]
    have hmem1 : ∀ {k : Str} {v : Json}, (k, v) ∈ [(skey "type", Json.arr [t])] →
        k = k!"type" ∧ v = .arr [t] := by
      intro k v h
      rw [List.mem_singleton] at h
      cases h
      exact ⟨ks_type, rfl⟩
    have hwt : WF t = true := by
      rcases ht with ⟨nm, rfl, _⟩ | ⟨_, h2⟩
      · rfl
      · exact hD.wf top t h2
    refine schemaBody_vd hre hset
      (ctxR_core hD n2 (ih n2 (Nat.lt_succ_self _)) top sc hsc m (by omega) _ (fun kv hkv => ?_) ?_ rfl
        (fun _ dv hm' => ?_)) i' hi'
    · obtain ⟨k, v⟩ := kv
      obtain ⟨rfl, rfl⟩ := hmem1 hkv
      show ([t].all (fun t => match t with
        | .str _ => true | .obj _ => D top t | _ => false)) = true
      rw [List.all_cons, List.all_nil, Bool.and_true]
      rcases ht with ⟨nm, rfl, _⟩ | ⟨h0, h1⟩
      · rfl
      · cases t <;> first | exact h1 | cases h0
    · refine ⟨?_, fun hx => ?_, fun hx => ?_⟩
      · simp [WF, keysDistinct, WFKvs, WFList, hwt]
      · obtain ⟨rfl, rfl⟩ := hmem1 hx
        unfold nsMember
        rw [ks_multipleOf, ks_divisibleBy, if_neg (by decide)]
      · obtain ⟨rfl, rfl⟩ := hmem1 hx
        rw [tkMember_type]
        show ([t].all fun t => match t with | .str t => (typeNames Draft.d3).contains t | _ => true) = true
        rw [List.all_cons, List.all_nil, Bool.and_true]
        rcases ht with ⟨nm, rfl, h⟩ | ⟨h0, _⟩
        · exact h
        · cases t <;> first | rfl | cases h0
    · obtain ⟨h1, _⟩ := hmem1 hm'
      exact absurd h1 (by decide)

/-- the context of one schema object of the domain without `$ref` -/
theorem ctxR (hre : RegexTotal env) (hset : SetOrderOk env) (hD : RefDomainL env d base D)
    (n : Nat) (ih : ∀ k, k ≤ n → RecOK env impl d base D k)
    (top : Str) (sc : List Str) (hsc : sc.headD [] = top) (m : Nat) (hm : n ≤ m)
    (kvs : List (Str × Json)) (hshape : ∀ kv ∈ kvs, shapeClause d (D top) kv = true)
    (hrest : RestL d kvs) (hnr : lookupJ "$ref" kvs = none) :
    Ctx False (PK env base sc) d (eval env impl (d.cfg none) n) (validRN env d base m top) (D top) kvs := by
  refine ctxR_core hD n (ih n (Nat.le_refl _)) top sc hsc m hm kvs hshape hrest hnr ?_
  intro hd dv hmem ts hts t ht i' hi'
  refine synth_vd hre hset hD hd n (fun k hk => ih k (Nat.le_of_lt hk)) top sc hsc m hm t ?_ i' hi'
  subst hd
  have hshdv := hshape _ hmem
  have htk := hrest.tk_member hmem
  rw [tkMember_disallow] at htk
  rcases ensureList_mem hts ht with ⟨rfl, nm, hnm⟩ | rfl
  · subst hnm; exact Or.inl ⟨nm, rfl, htk⟩
  · have h1 := List.all_eq_true.mp hshdv t ht
    have h2 := List.all_eq_true.mp htk t ht
    cases t with
    | str nm => exact Or.inl ⟨nm, rfl, h2⟩
    | obj o => exact Or.inr ⟨rfl, h1⟩
    | _ => cases h1

/-- **the step of the induction** -/
theorem recOK_succ (hre : RegexTotal env) (hset : SetOrderOk env) (hf : StableFetchS env)
    (hD : RefDomainL env d base D) (n : Nat) (ih : ∀ k, k ≤ n → RecOK env impl d base D k) :
    RecOK env impl d base D (n + 1) := by
  intro top s hs m hm i hi sc hsc
  obtain ⟨m', rfl⟩ := Nat.exists_eq_succ_of_ne_zero (by omega : m ≠ 0)
  have hm' : n ≤ m' := by omega
  rcases hD.kind top s hs with hobj | ⟨_, b, rfl⟩
  · obtain ⟨kvs, rfl⟩ : ∃ kvs, s = .obj kvs := by
      cases s <;> first | exact ⟨_, rfl⟩ | cases hobj
    show Vd False _ (evalStep env impl (d.cfg none) (eval env impl (d.cfg none) n) i (.obj kvs)) _
    cases hr : lookupJ "$ref" kvs with
    | some r =>
      obtain ⟨rs, url, t, rfl, hdes, hj, hDt⟩ := hD.ref top kvs r hs hr
      have hk : Json.hasKey (skey "$ref") kvs = true := by
        unfold Json.hasKey
        have : Json.lookup (skey "$ref") kvs = some (.str rs) := hr
        rw [this]
        rfl
      rw [validRN_succ_ref env d base m' top kvs i hr hdes,
        evalStep_obj_noId _ _ _ _ _ _ (.inr hk), schemaBody_ref env impl d none _ kvs rs i hr]
      subst hsc
      exact ex_mapErrs _ (vd_kwRef hf hdes hj
        (ih n (Nat.le_refl _) url t hDt m' hm' i hi (url :: sc) rfl))
    | none =>
      rw [validRN_succ_noref env d base m' top kvs i hr]
      subst hsc
      obtain ⟨hid, hjoin⟩ := hD.ident _ kvs hs
      refine evalStep_noref_vd hid hjoin hr ?_
      exact schemaBody_vd hre hset
        (ctxR hre hset hD n ih _ (scInside env d sc kvs) (scInside_head env d sc kvs) m' hm' kvs
          (List.all_eq_true.mp (hD.shape _ kvs hs hr)) (hD.restL hs) hr) i hi
  · exact bool_vd (n + 1) (m' + 1) hm top b i sc

/-- **the evaluator agrees with the specification with references** on every member of a
    reference domain, from every faithful state, for every budget -/
theorem evalRL_vd (hre : RegexTotal env) (hset : SetOrderOk env) (hf : StableFetchS env)
    (hD : RefDomainL env d base D) : ∀ n, RecOK env impl d base D n := by
  intro n
  induction n using Nat.strong_induction_on with
  | _ n ih =>
    cases n with
    | zero => exact recOK_zero
    | succ n => exact recOK_succ hre hset hf hD n (fun k hk => ih k (Nat.lt_succ_of_le hk))

/-- … in particular on every `Spec.RefDomain` -/
theorem evalR_vd (hre : RegexTotal env) (hset : SetOrderOk env) (hf : StableFetchS env)
    (hD : RefDomain env d base D) : ∀ n, RecOK env impl d base D n :=
  evalRL_vd hre hset hf (RefDomainL.of hD)

end

/-! ### on reference-free schemas the specification with references is C01's

`clause` consults the validity under subschemas only at positions that `shapeClause` requires to
be well shaped (or, in drafts 6 and 7, boolean). -/

/-- two notions of validity under subschemas that agree on the well-shaped subschemas and on the
    boolean schemas, for a schema object all of whose members have the prescribed shape -/
structure Agree (d : Draft) (sub1 sub2 : Json → Json → Bool) (shp : Json → Bool)
    (kvs : List (Str × Json)) : Prop where
  shape : ∀ kv ∈ kvs, shapeClause d shp kv = true
  eq : ∀ s', shp s' = true → ∀ i', sub1 s' i' = sub2 s' i'
  eqb : ∀ b i', sub1 (.bool b) i' = sub2 (.bool b) i'

section CC
variable {env : Env} {d : Draft} {sub1 sub2 : Json → Json → Bool} {shp : Json → Bool}
  {kvs : List (Str × Json)}

theorem cc_type (A : Agree d sub1 sub2 shp kvs) (v i : Json) (hmem : (k!"type", v) ∈ kvs) :
    clause env d sub1 kvs i (k!"type", v) = clause env d sub2 kvs i (k!"type", v) := by
  have hsh := A.shape _ hmem
  cases d
  case d3 =>
    cases v with
    | arr ts =>
      refine any_congr_mem _ _ _ (fun t ht => ?_)
      have h1 := List.all_eq_true.mp hsh t ht
      cases t <;> first | rfl | exact A.eq _ h1 i
    | _ => rfl
  all_goals rfl

theorem cc_disallow (A : Agree d sub1 sub2 shp kvs) (v i : Json) (hmem : (k!"disallow", v) ∈ kvs) :
    clause env d sub1 kvs i (k!"disallow", v) = clause env d sub2 kvs i (k!"disallow", v) := by
  have hsh := A.shape _ hmem
  cases d
  case d3 =>
    cases v with
    | arr ts =>
      refine all_congr_mem _ _ _ (fun t ht => ?_)
      have h1 := List.all_eq_true.mp hsh t ht
      cases t <;> first | rfl | exact congrArg (!·) (A.eq _ h1 i)
    | _ => rfl
  all_goals cases i <;> rfl

theorem cc_extends (A : Agree d sub1 sub2 shp kvs) (v i : Json) (hmem : (k!"extends", v) ∈ kvs) :
    clause env d sub1 kvs i (k!"extends", v) = clause env d sub2 kvs i (k!"extends", v) := by
  have hsh := A.shape _ hmem
  cases d
  case d3 =>
    cases v with
    | obj o => exact A.eq _ hsh i
    | arr ss =>
      refine all_congr_mem _ _ _ (fun s hs => ?_)
      have h1 := List.all_eq_true.mp hsh s hs
      rw [Bool.and_eq_true] at h1
      exact A.eq _ h1.2 i
    | _ => rfl
  all_goals cases i <;> rfl

/-- the members of an `allOf`/`anyOf`/`oneOf` array -/
theorem cc_schemaArray (A : Agree d sub1 sub2 shp kvs) {ss : List Json}
    (hsh : (!ss.isEmpty && ss.all shp) = true) (i : Json) : ∀ s ∈ ss, sub1 s i = sub2 s i := by
  intro s hs
  rw [Bool.and_eq_true] at hsh
  exact A.eq _ (List.all_eq_true.mp hsh.2 s hs) i

theorem cc_allOf (A : Agree d sub1 sub2 shp kvs) (v i : Json) (hmem : (k!"allOf", v) ∈ kvs) :
    clause env d sub1 kvs i (k!"allOf", v) = clause env d sub2 kvs i (k!"allOf", v) := by
  have hsh := A.shape _ hmem
  cases d
  case d3 => cases i <;> rfl
  all_goals
    cases v with
    | arr ss => exact all_congr_mem _ _ _ (cc_schemaArray A hsh i)
    | _ => rfl

theorem cc_anyOf (A : Agree d sub1 sub2 shp kvs) (v i : Json) (hmem : (k!"anyOf", v) ∈ kvs) :
    clause env d sub1 kvs i (k!"anyOf", v) = clause env d sub2 kvs i (k!"anyOf", v) := by
  have hsh := A.shape _ hmem
  cases d
  case d3 => cases i <;> rfl
  all_goals
    cases v with
    | arr ss => exact any_congr_mem _ _ _ (cc_schemaArray A hsh i)
    | _ => rfl

theorem cc_oneOf (A : Agree d sub1 sub2 shp kvs) (v i : Json) (hmem : (k!"oneOf", v) ∈ kvs) :
    clause env d sub1 kvs i (k!"oneOf", v) = clause env d sub2 kvs i (k!"oneOf", v) := by
  have hsh := A.shape _ hmem
  cases d
  case d3 => cases i <;> rfl
  all_goals
    cases v with
    | arr ss =>
      show ((ss.filter (fun s => sub1 s i)).length == 1) = ((ss.filter (fun s => sub2 s i)).length == 1)
      rw [List.filter_congr (fun s hs => cc_schemaArray A hsh i s hs)]
    | _ => rfl

theorem cc_not (A : Agree d sub1 sub2 shp kvs) (v i : Json) (hmem : (k!"not", v) ∈ kvs) :
    clause env d sub1 kvs i (k!"not", v) = clause env d sub2 kvs i (k!"not", v) := by
  have hsh := A.shape _ hmem
  cases d
  case d3 => cases i <;> rfl
  all_goals exact congrArg (!·) (A.eq _ hsh i)

theorem cc_if (A : Agree d sub1 sub2 shp kvs) (v i : Json) (hmem : (k!"if", v) ∈ kvs) :
    clause env d sub1 kvs i (k!"if", v) = clause env d sub2 kvs i (k!"if", v) := by
  have hsh := A.shape _ hmem
  cases d
  case d7 =>
    have hT : (match lookupJ "then" kvs with | some t => sub1 t i | none => true)
        = (match lookupJ "then" kvs with | some t => sub2 t i | none => true) := by
      cases hl : lookupJ "then" kvs with
      | none => rfl
      | some t =>
        have := A.shape _ (lookup_mem hl)
        rw [ks_then] at this
        exact A.eq _ this i
    have hE : (match lookupJ "else" kvs with | some t => sub1 t i | none => true)
        = (match lookupJ "else" kvs with | some t => sub2 t i | none => true) := by
      cases hl : lookupJ "else" kvs with
      | none => rfl
      | some t =>
        have := A.shape _ (lookup_mem hl)
        rw [ks_else] at this
        exact A.eq _ this i
    show (if sub1 v i then (match lookupJ "then" kvs with | some t => sub1 t i | none => true)
       else (match lookupJ "else" kvs with | some e => sub1 e i | none => true))
      = (if sub2 v i then (match lookupJ "then" kvs with | some t => sub2 t i | none => true)
       else (match lookupJ "else" kvs with | some e => sub2 e i | none => true))
    rw [A.eq _ hsh i, hT, hE]
  all_goals cases i <;> rfl

theorem cc_items (A : Agree d sub1 sub2 shp kvs) (v i : Json) (hmem : (k!"items", v) ∈ kvs) :
    clause env d sub1 kvs i (k!"items", v) = clause env d sub2 kvs i (k!"items", v) := by
  have hsh := A.shape _ hmem
  cases i with
  | arr xs =>
    cases v with
    | arr ss =>
      refine all_congr_mem _ _ _ (fun p hp => ?_)
      exact A.eq _ (List.all_eq_true.mp hsh p.2 (List.of_mem_zip hp).2) _
    | obj o => exact all_congr_mem _ _ _ (fun x _ => A.eq _ hsh x)
    | bool b => exact all_congr_mem _ _ _ (fun x _ => A.eqb b x)
    | _ => cases (hsh : false = true)
  | _ => rfl

theorem cc_additionalItems (A : Agree d sub1 sub2 shp kvs) (v i : Json)
    (hmem : (k!"additionalItems", v) ∈ kvs) :
    clause env d sub1 kvs i (k!"additionalItems", v)
      = clause env d sub2 kvs i (k!"additionalItems", v) := by
  have hsh := A.shape _ hmem
  cases i with
  | arr xs =>
    show (match lookupJ "items" kvs with
       | some (.arr ss) =>
         (match (generalizing := false) v with
          | .bool false => decide (xs.length ≤ ss.length)
          | .bool true => true
          | sch => (xs.drop ss.length).all (fun x => sub1 sch x))
       | _ => true)
      = (match lookupJ "items" kvs with
       | some (.arr ss) =>
         (match (generalizing := false) v with
          | .bool false => decide (xs.length ≤ ss.length)
          | .bool true => true
          | sch => (xs.drop ss.length).all (fun x => sub2 sch x))
       | _ => true)
    cases lookupJ "items" kvs with
    | none => rfl
    | some it =>
      cases it with
      | arr ss =>
        cases v with
        | bool b => cases b <;> rfl
        | obj o => exact all_congr_mem _ _ _ (fun x _ => A.eq _ hsh x)
        | _ => cases (hsh : false = true)
      | _ => rfl
  | _ => rfl

theorem cc_contains (A : Agree d sub1 sub2 shp kvs) (v i : Json) (hmem : (k!"contains", v) ∈ kvs) :
    clause env d sub1 kvs i (k!"contains", v) = clause env d sub2 kvs i (k!"contains", v) := by
  have hsh := A.shape _ hmem
  cases d
  case d3 => cases i <;> rfl
  case d4 => cases i <;> rfl
  all_goals
    cases i with
    | arr xs => exact any_congr_mem _ _ _ (fun x _ => A.eq _ hsh x)
    | _ => rfl

theorem cc_propertyNames (A : Agree d sub1 sub2 shp kvs) (v i : Json)
    (hmem : (k!"propertyNames", v) ∈ kvs) :
    clause env d sub1 kvs i (k!"propertyNames", v)
      = clause env d sub2 kvs i (k!"propertyNames", v) := by
  have hsh := A.shape _ hmem
  cases d
  case d3 => cases i <;> rfl
  case d4 => cases i <;> rfl
  all_goals
    cases i with
    | obj ms => exact all_congr_mem _ _ _ (fun m _ => A.eq _ hsh _)
    | _ => rfl

/-- the members of `properties`/`patternProperties` -/
theorem cc_props (A : Agree d sub1 sub2 shp kvs) {ps : List (Str × Json)}
    (hsh : ps.all (fun p => ((d = .d6 || d = .d7) || p.2.isObj) && shp p.2) = true) :
    ∀ p ∈ ps, ∀ i', sub1 p.2 i' = sub2 p.2 i' := by
  intro p hp i'
  have h1 := List.all_eq_true.mp hsh p hp
  rw [Bool.and_eq_true] at h1
  exact A.eq _ h1.2 i'

theorem cc_properties (A : Agree d sub1 sub2 shp kvs) (v i : Json)
    (hmem : (k!"properties", v) ∈ kvs) :
    clause env d sub1 kvs i (k!"properties", v) = clause env d sub2 kvs i (k!"properties", v) := by
  have hsh := A.shape _ hmem
  cases i with
  | obj ms =>
    cases v with
    | obj ps =>
      show (ms.all (fun m => match Json.lookup m.1 ps with | some s => sub1 s m.2 | none => true)
          && (d ≠ .d3 || ps.all (fun p =>
             match p.2 with
             | .obj pk => (match lookupJ "required" pk with
                           | some (.bool true) => Json.hasKey p.1 ms
                           | _ => true)
             | _ => true)))
        = (ms.all (fun m => match Json.lookup m.1 ps with | some s => sub2 s m.2 | none => true)
          && (d ≠ .d3 || ps.all (fun p =>
             match p.2 with
             | .obj pk => (match lookupJ "required" pk with
                           | some (.bool true) => Json.hasKey p.1 ms
                           | _ => true)
             | _ => true)))
      congr 1
      refine all_congr_mem _ _ _ (fun m _ => ?_)
      cases hl : Json.lookup m.1 ps with
      | none => rfl
      | some s => exact cc_props A hsh (m.1, s) (lookup_mem hl) _
    | _ => rfl
  | _ => rfl

theorem cc_patternProperties (A : Agree d sub1 sub2 shp kvs) (v i : Json)
    (hmem : (k!"patternProperties", v) ∈ kvs) :
    clause env d sub1 kvs i (k!"patternProperties", v)
      = clause env d sub2 kvs i (k!"patternProperties", v) := by
  have hsh := A.shape _ hmem
  cases i with
  | obj ms =>
    cases v with
    | obj pps =>
      refine all_congr_mem _ _ _ (fun m _ => all_congr_mem _ _ _ (fun p hp => ?_))
      rw [cc_props A hsh p hp]
    | _ => rfl
  | _ => rfl

theorem cc_additionalProperties (A : Agree d sub1 sub2 shp kvs) (v i : Json)
    (hmem : (k!"additionalProperties", v) ∈ kvs) :
    clause env d sub1 kvs i (k!"additionalProperties", v)
      = clause env d sub2 kvs i (k!"additionalProperties", v) := by
  have hsh := A.shape _ hmem
  cases i with
  | obj ms =>
    cases v with
    | bool b => cases b <;> rfl
    | obj o => exact all_congr_mem _ _ _ (fun m _ => by rw [A.eq _ hsh])
    | _ => cases (hsh : false = true)
  | _ => rfl

theorem cc_dependencies (A : Agree d sub1 sub2 shp kvs) (v i : Json)
    (hmem : (k!"dependencies", v) ∈ kvs) :
    clause env d sub1 kvs i (k!"dependencies", v)
      = clause env d sub2 kvs i (k!"dependencies", v) := by
  have hsh := A.shape _ hmem
  cases i with
  | obj ms =>
    cases v with
    | obj ds =>
      refine all_congr_mem _ _ _ (fun dp hdp => ?_)
      have h1 := List.all_eq_true.mp hsh dp hdp
      obtain ⟨dk, dv⟩ := dp
      cases dv with
      | arr names => rfl
      | str r => rfl
      | obj o => exact congrArg (!Json.hasKey dk ms || ·) (A.eq _ h1 _)
      | bool b => exact congrArg (!Json.hasKey dk ms || ·) (A.eqb b _)
      | _ => cases (h1 : false = true)
    | _ => rfl
  | _ => rfl

set_option linter.unusedSimpArgs false in
/-- a member under any other key: its clause does not consult the validity under subschemas -/
theorem cc_default (v i : Json) (k : Str)
    (h0 : k ≠ k!"type") (h1 : k ≠ k!"disallow") (h2 : k ≠ k!"extends") (h5 : k ≠ k!"allOf")
    (h6 : k ≠ k!"anyOf") (h7 : k ≠ k!"oneOf") (h8 : k ≠ k!"not") (h9 : k ≠ k!"if")
    (h27 : k ≠ k!"items") (h28 : k ≠ k!"additionalItems") (h29 : k ≠ k!"contains")
    (h30 : k ≠ k!"propertyNames") (h31 : k ≠ k!"properties") (h32 : k ≠ k!"patternProperties")
    (h33 : k ≠ k!"additionalProperties") (h35 : k ≠ k!"dependencies") :
    clause env d sub1 kvs i (k, v) = clause env d sub2 kvs i (k, v) := by
  unfold clause
  simp only [h0, h1, h2, h5, h6, h7, h8, h9, false_and, if_false]
  cases i <;> simp only [clTyped, clArr, clObj, h27, h28, h29, h30, h31, h32, h33, h35, false_and,
    if_false]

theorem clause_congr_shaped (A : Agree d sub1 sub2 shp kvs) (i : Json) (k : Str) (v : Json)
    (hmem : (k, v) ∈ kvs) :
    clause env d sub1 kvs i (k, v) = clause env d sub2 kvs i (k, v) := by
  by_cases h0 : k = k!"type"
  · subst h0; exact cc_type A v i hmem
  by_cases h1 : k = k!"disallow"
  · subst h1; exact cc_disallow A v i hmem
  by_cases h2 : k = k!"extends"
  · subst h2; exact cc_extends A v i hmem
  by_cases h5 : k = k!"allOf"
  · subst h5; exact cc_allOf A v i hmem
  by_cases h6 : k = k!"anyOf"
  · subst h6; exact cc_anyOf A v i hmem
  by_cases h7 : k = k!"oneOf"
  · subst h7; exact cc_oneOf A v i hmem
  by_cases h8 : k = k!"not"
  · subst h8; exact cc_not A v i hmem
  by_cases h9 : k = k!"if"
  · subst h9; exact cc_if A v i hmem
  by_cases h27 : k = k!"items"
  · subst h27; exact cc_items A v i hmem
  by_cases h28 : k = k!"additionalItems"
  · subst h28; exact cc_additionalItems A v i hmem
  by_cases h29 : k = k!"contains"
  · subst h29; exact cc_contains A v i hmem
  by_cases h30 : k = k!"propertyNames"
  · subst h30; exact cc_propertyNames A v i hmem
  by_cases h31 : k = k!"properties"
  · subst h31; exact cc_properties A v i hmem
  by_cases h32 : k = k!"patternProperties"
  · subst h32; exact cc_patternProperties A v i hmem
  by_cases h33 : k = k!"additionalProperties"
  · subst h33; exact cc_additionalProperties A v i hmem
  by_cases h35 : k = k!"dependencies"
  · subst h35; exact cc_dependencies A v i hmem
  exact cc_default v i k h0 h1 h2 h5 h6 h7 h8 h9 h27 h28 h29 h30 h31 h32 h33 h35

end CC

theorem validRN_reffree_aux (env : Env) (d : Draft) (base : List (Str × Json)) :
    ∀ (n m : Nat) (top : Str) (s i : Json), shapedN false d m s = true →
      validRN env d base n top s i = validN env d n s i := by
  intro n
  induction n with
  | zero => intros; rfl
  | succ n ih =>
    intro m top s i hs
    cases s with
    | bool b => rfl
    | obj kvs =>
      obtain ⟨m', rfl, _, hnoref, hsh⟩ := shaped_obj hs
      rw [validRN_succ_noref env d base n top kvs i hnoref, validN_succ_obj]
      refine all_congr_mem _ _ _ (fun kv hkv => ?_)
      obtain ⟨k, v⟩ := kv
      exact clause_congr_shaped
        ⟨hsh, fun s' hs' i' => ih m' _ s' i' hs', fun b i' => by cases n <;> rfl⟩ i k v hkv
    | null => cases m <;> cases hs
    | num _ => cases m <;> cases hs
    | str _ => cases m <;> cases hs
    | arr _ => cases m <;> cases hs

end JS
