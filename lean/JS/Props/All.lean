-- All property files that are complete (no `sorry`). `setup_cmd` builds this.
import JS.Props.C01
import JS.Props.C03
import JS.Props.C04
import JS.Props.C06
import JS.Props.C07
import JS.Props.C08
import JS.Props.C09
import JS.Props.C10
import JS.Props.C12
import JS.Props.C13
import JS.Props.C14
import JS.Props.C15
import JS.Props.C16
import JS.Props.C17
import JS.Props.C18
import JS.Props.C19
import JS.Props.C20
