-- All property files that are complete (no `sorry`). The audit and the checks import this.
import JS.Props.C07
