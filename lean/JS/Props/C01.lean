/-
  C01 — validity verdicts agree with the JSON Schema specification, drafts 3/4/6/7.
  Property theorems only; helper lemmas live in JS/Proofs/Valid.lean.

  Model: `eval` with the REGENERATED draft tables. Specification: `Spec.valid` (JS.Spec.Valid),
  written clause by clause from the drafts and validated on every run against the official
  JSON-Schema-Test-Suite. Domain (each limit is the property's own):
  * `Spec.shaped d s`: the reference-free schemas of the shape the draft's metaschema prescribes
    (that `check_schema` accepts only those is decided by the CHK/SPEC correspondence and is C11);
  * `Spec.WF`: object keys are distinct (what `json.loads` yields);
  * `Spec.RegexTotal`: every regular expression compiles and `re.search` answers;
  * `Spec.numSafe`: multipleOf/divisibleBy operands in the exact sub-domain of C09;
  * `Spec.typesKnown` (draft 3): type names the draft defines (others raise `UnknownType`);
  * no format checker attached (`format` is C12/C13).
-/
import JS.Proofs.Valid
namespace JS.Props.C01
open JS

/-- **C01.** For every draft, every reference-free shaped schema and every instance: `is_valid`
    (= no first error) is true exactly when the specification says valid; the run ends normally
    or is closed at the first error; nothing is raised. -/
theorem verdict_agrees (env : Env) (hre : Spec.RegexTotal env) (hurl : Spec.UrlTotal env)
    (hset : Spec.SetOrderOk env) (impl : FmtImpl) (d : Draft) (s i : Json)
    (hs : Spec.shaped d s = true) (hws : Spec.WF s = true) (hwi : Spec.WF i = true)
    (hnum : Spec.numSafe s = true) (hty : Spec.typesKnown d s = true)
    (fuel : Nat) (hfuel : 2 * s.size + 2 ≤ fuel) (st : RState) :
    (((eval env impl (d.cfg none) fuel i s (some 1) st).errs = []
        ∧ (eval env impl (d.cfg none) fuel i s (some 1) st).stop = .done)
      ↔ Spec.valid env d s i = true)
    ∧ ((eval env impl (d.cfg none) fuel i s (some 1) st).stop = .done
        ∨ (eval env impl (d.cfg none) fuel i s (some 1) st).stop = .budget) := by
  exact verdict_of_ex (prefixLaw_eval env impl _ fuel i s)
    (eval_valid env hre hurl hset impl d s i hs hws hwi hnum hty fuel (by omega)) st

/-- the same for the exhaustive run: `iter_errors` yields nothing exactly when valid -/
theorem errors_empty_iff_valid (env : Env) (hre : Spec.RegexTotal env) (hurl : Spec.UrlTotal env)
    (hset : Spec.SetOrderOk env) (impl : FmtImpl) (d : Draft) (s i : Json)
    (hs : Spec.shaped d s = true) (hws : Spec.WF s = true) (hwi : Spec.WF i = true)
    (hnum : Spec.numSafe s = true) (hty : Spec.typesKnown d s = true)
    (fuel : Nat) (hfuel : 2 * s.size + 2 ≤ fuel) (st : RState) :
    ((eval env impl (d.cfg none) fuel i s none st).errs = [] ↔ Spec.valid env d s i = true)
    ∧ (eval env impl (d.cfg none) fuel i s none st).stop = .done := by
  exact errs_of_ex
    (eval_valid env hre hurl hset impl d s i hs hws hwi hnum hty fuel (by omega)) st

/-- `is_valid` as the entry point -/
theorem isValid_agrees (env : Env) (hre : Spec.RegexTotal env) (hurl : Spec.UrlTotal env)
    (hset : Spec.SetOrderOk env) (impl : FmtImpl) (d : Draft) (s i : Json)
    (hs : Spec.shaped d s = true) (hws : Spec.WF s = true) (hwi : Spec.WF i = true)
    (hnum : Spec.numSafe s = true) (hty : Spec.typesKnown d s = true)
    (fuel : Nat) (hfuel : 2 * s.size + 2 ≤ fuel) (st : RState) :
    (isValid (eval env impl (d.cfg none) fuel i s) st).1 = .ok (Spec.valid env d s i) := by
  exact isValid_of_ex (prefixLaw_eval env impl _ fuel i s)
    (eval_valid env hre hurl hset impl d s i hs hws hwi hnum hty fuel (by omega)) st

/-- the specification does not depend on the depth bound once it exceeds the schema's size -/
theorem valid_fuel_stable (env : Env) (d : Draft) (s i : Json) (n : Nat) (hn : s.size < n) :
    Spec.validN env d n s i = Spec.valid env d s i := by
  exact valid_fuel_stable' env d s i n hn

/-! corollaries where the surviving mutants of the property's `why_tests_cant` live -/

/-- the additional-property computation: a member is "additional" iff it is named by no
    `properties` key and matched (`re.search`) by no `patternProperties` regex -/
theorem additional_props_spec (env : Env) (hre : Spec.RegexTotal env)
    (props : List (Str × Json)) (pats : List Str) (ms : List (Str × Json)) :
    ∃ extras, findAdditional env props pats ms = .ok extras
      ∧ ∀ k, k ∈ extras ↔ (k ∈ ms.map (·.1) ∧ Json.hasKey k props = false ∧ ∀ p ∈ pats, Spec.rx env p k = false) := by
  exact additional_props_spec' env hre props pats ms

/-- type gating: every keyword whose clause concerns one instance type ignores instances of
    other types (stated for the length/size keywords through their common implementation) -/
theorem type_gating (cfg : Cfg) (ty t : String) (lt : Bool) (len : Json → Option Nat) (m inst : Json)
    (f : TyFn) (hlook : lookupS (skey ty) cfg.types = some f) (hno : f.apply inst = false)
    (b : Option Nat) (st : RState) :
    kwLenBound cfg ty t lt len m inst b st = ⟨[], .done, st⟩ := by
  unfold kwLenBound isTypeS isType
  have hl : lookupS ty.toList cfg.types = some f := hlook
  simp only [hl, hno, withRes, Bool.not_false, if_true]
  rfl

end JS.Props.C01
